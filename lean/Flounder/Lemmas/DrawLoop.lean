/-
  Search with a game history, part 2: the loop invariant of `negamaxLoop`, stated ONCE for an abstract
  child value `val : Move → Option Int` (the reference value of the child reached by a move of the fixed node
  `p`), an abstract table invariant `I` and an abstract invariant `J` of the repetition stack.

  `SearchContract.negamaxLoop_ok_ranked` is the instance `val m = Spec.V qf d (play p m)`, `I = TTSound`,
  `J = RepOK`; Lemmas/DrawContract.lean uses the instance `val m = Spec.Vd drawn qf d false (play p m)`,
  `I = TTSoundD`, `J = RepIs`.  The proof is the one of `negamaxLoop_ok_ranked`: nothing in the loop looks at
  where the child values come from.
-/
import Flounder.Lemmas.SearchContract

namespace Flounder.Search
open Flounder Gen

section loop
variable {P : Type} (G : Game P)

/-- correctness of the recursive call on the children of the node `p` (always entered one ply deeper). -/
def ChildOK (c : Int → Int) (I : TT → Prop) (J : SearchState → Prop)
    (rec : P → Nat → Int → Int → SearchState → Option SearchResult × SearchState) (p : P)
    (val : Move → Option Int) : Prop :=
  ∀ m ∈ G.moves p, ∀ (ply : Nat) (α β : Int) (s : SearchState) (x : Int),
    I s.tt → J s → val m = some x →
    NEGATIVE_INFINITY ≤ α → α < β → β ≤ INFINITY →
    s.stopSeen = false → (rec (G.play p m) (ply + 1) α β s).2.stopSeen = false →
    (rec (G.play p m) (ply + 1) α β s).2.deeperHits = s.deeperHits →
    ∃ r, (rec (G.play p m) (ply + 1) α β s).1 = some r ∧ Contract (c x) (c r.score) α β ∧
      I (rec (G.play p m) (ply + 1) α β s).2.tt

/-- the best move's child value is the negated score. -/
def PVVal (val : Move → Option Int) (best : SearchResult) : Prop :=
  ∀ m x, best.bestMove = some m → val m = some x → -x = best.score

/-- one of the remaining moves attains the node value. -/
def AttainsVal (c : Int → Int) (val : Move → Option Int) (rest : List Move) (t : Int) : Prop :=
  ∃ m ∈ rest, ∃ x, val m = some x ∧ -c x = t

variable {c : Int → Int}

/-- **loop invariant**, abstract form. -/
theorem negamaxLoop_ok_val (hc : Clamp c) (I : TT → Prop) (J : SearchState → Prop)
    (hJ : ∀ s s' : SearchState, s'.rep = s.rep → J s → J s')
    (rec : P → Nat → Int → Int → SearchState → Option SearchResult × SearchState)
    (hrecF : ∀ q ply a b s, Frame s (rec q ply a b s).2)
    (p : P) (val : Move → Option Int) (hrec : ChildOK G c I J rec p val)
    (depth ply : Nat) (α₀ β v : Int) (hα : NEGATIVE_INFINITY ≤ α₀) (hβ : β ≤ INFINITY) :
    ∀ (rest : List Move) (acc : LoopAcc) (s : SearchState),
      (∀ m ∈ rest, m ∈ G.moves p) →
      (∀ m ∈ rest, ∃ x, val m = some x) →
      (∀ m ∈ rest, ∀ x, val m = some x → -c x ≤ c v) →
      acc.alpha = max α₀ (c acc.best.score) → acc.alpha < β →
      (c v ≤ c acc.best.score ∨ AttainsVal c val rest (c v)) →
      (α₀ < c acc.best.score → c acc.best.score ≤ c v ∧ PVVal val acc.best) →
      (∃ m, acc.best.bestMove = some m ∧ m ∈ G.moves p) →
      I s.tt → J s → s.stopSeen = false →
      (negamaxLoop G rec p depth ply β rest acc s).2.stopSeen = false →
      (negamaxLoop G rec p depth ply β rest acc s).2.deeperHits = s.deeperHits →
      ∃ acc', (negamaxLoop G rec p depth ply β rest acc s).1 = some acc' ∧
        Contract (c v) (c acc'.best.score) α₀ β ∧
        (∃ m, acc'.best.bestMove = some m ∧ m ∈ G.moves p) ∧
        (α₀ < c acc'.best.score → c acc'.best.score < β → PVVal val acc'.best) ∧
        I (negamaxLoop G rec p depth ply β rest acc s).2.tt := by
  intro rest
  induction rest with
  | nil =>
    intro acc s _ _ _ hB hαβ hC hD hM hT _ _ _ _
    refine ⟨acc, rfl, ⟨?_, ?_, ?_⟩, hM, fun h _ => (hD h).2, hT⟩
    · intro _
      rcases hC with h' | ⟨m, hm, _⟩
      · exact h'
      · cases hm
    · intro h; omega
    · intro h1 _
      rcases hC with h' | ⟨m, hm, _⟩
      · have := (hD h1).1; omega
      · cases hm
  | cons mv rest ih =>
    intro acc s hmem hex hub hB hαβ hC hD hM hT hR hs hfin hdh
    have hni := negInf_eq
    have hin := inf_eq
    rw [negamaxLoop_cons] at hfin hdh ⊢
    have hsf : stopFlag s = false := by
      cases h : stopFlag s
      · rfl
      · rw [h] at hfin; simp [polled, h] at hfin
    rw [hsf] at hfin hdh ⊢
    simp only [Bool.false_eq_true, ↓reduceIte] at hfin hdh ⊢
    have hs1 : (polled s).stopSeen = false := by simp [polled, hs, hsf]
    have hmv : mv ∈ G.moves p := hmem mv List.mem_cons_self
    obtain ⟨x, hx⟩ := hex mv List.mem_cons_self
    have hubx := hub mv List.mem_cons_self x hx
    have hrec' := hrec mv hmv ply (-β) (-acc.alpha) (polled s) x hT (hJ s (polled s) rfl hR) hx
      (by omega) (by omega) (by omega) hs1
    have hF := hrecF (G.play p mv) (ply + 1) (-β) (-acc.alpha) (polled s)
    have hLF := fun a s' => negamaxLoop_frame G rec hrecF p depth ply β rest a s'
    rcases hres : rec (G.play p mv) (ply + 1) (-β) (-acc.alpha) (polled s) with ⟨ro, s2⟩
    rw [hres] at hfin hdh hrec' hF
    -- the state after the child: no stop seen, counter unchanged
    have hs2 : s2.stopSeen = false ∧ s2.deeperHits = s.deeperHits := by
      have h1 : s.deeperHits ≤ s2.deeperHits := hF.deeper
      cases ro with
      | none => exact ⟨hfin, hdh⟩
      | some r =>
        simp only at hfin hdh
        by_cases hcut : max acc.alpha (-r.score) ≥ β
        · rw [if_pos hcut] at hfin hdh
          have f := qframe_cut s2 mv ply depth
          exact ⟨f.noStop hfin, by rw [← f.deeper]; exact hdh⟩
        · rw [if_neg hcut] at hfin hdh
          have f := hLF ⟨max acc.alpha (-r.score),
            if -r.score > acc.best.score then ⟨-r.score, some mv⟩ else acc.best⟩ s2
          refine ⟨f.noStop hfin, ?_⟩
          have := f.deeper
          omega
    obtain ⟨r, hr, hcon, hT2⟩ := hrec' hs2.1 hs2.2
    simp only at hr hT2
    subst hr
    simp only at hfin hdh ⊢
    have hodd := hc.odd r.score
    -- the new best
    generalize hbest : (if -r.score > acc.best.score then (⟨-r.score, some mv⟩ : SearchResult) else acc.best)
      = best' at hfin hdh ⊢
    have hb' : (-r.score > acc.best.score ∧ best' = ⟨-r.score, some mv⟩) ∨
        (¬ -r.score > acc.best.score ∧ best' = acc.best) := by
      by_cases h : -r.score > acc.best.score
      · rw [if_pos h] at hbest; exact Or.inl ⟨h, hbest.symm⟩
      · rw [if_neg h] at hbest; exact Or.inr ⟨h, hbest.symm⟩
    have hR2 : J s2 := hJ s s2 (by rw [hF.rep]; rfl) hR
    by_cases hcut : max acc.alpha (-r.score) ≥ β
    · -- beta cutoff
      rw [if_pos hcut]
      have hsc : β ≤ -r.score := by omega
      have hsc' : β ≤ c (-r.score) := (hc.ge_iff (-r.score) β (by omega) hβ).1 hsc
      have hchild := hcon.1 (by omega)
      have hnew : best' = ⟨-r.score, some mv⟩ := by
        rcases hb' with ⟨_, e⟩ | ⟨hn, _⟩
        · exact e
        · have := hc.mono (-r.score) acc.best.score (by omega)
          omega
      subst hnew
      refine ⟨_, rfl, ⟨fun h => by simp only at h; omega, fun _ => by simp only; omega,
        fun _ h => by simp only at h; omega⟩, ⟨mv, rfl, hmv⟩, fun _ h => by simp only at h; omega, ?_⟩
      simp only
      rw [(qframe_cut s2 mv ply depth).tt]; exact hT2
    · rw [if_neg hcut] at hfin hdh ⊢
      have hsc : -r.score < β := by omega
      apply ih ⟨max acc.alpha (-r.score), best'⟩ s2
        (fun m hm => hmem m (List.mem_cons_of_mem _ hm))
        (fun m hm => hex m (List.mem_cons_of_mem _ hm))
        (fun m hm => hub m (List.mem_cons_of_mem _ hm))
        ?_ (by simp only; omega) ?_ ?_ ?_ hT2 hR2 hs2.1 hfin (by rw [hdh, hs2.2])
      all_goals simp only
      all_goals by_cases hlow : -r.score ≤ acc.alpha
      · -- B, fail low
        have h1 := (hc.le_iff (-r.score) acc.alpha (by omega) (by omega)).1 hlow
        rcases hb' with ⟨hgt, e⟩ | ⟨hn, e⟩
        · subst e; simp only
          have := hc.mono acc.best.score (-r.score) (by omega)
          omega
        · subst e; omega
      · -- B, new alpha
        have h1 := hc.inside (-r.score) (by omega) (by omega)
        rcases hb' with ⟨hgt, e⟩ | ⟨hn, e⟩
        · subst e; simp only; omega
        · have := hc.mono (-r.score) acc.best.score (by omega)
          omega
      · -- C, fail low
        have h1 := (hc.le_iff (-r.score) acc.alpha (by omega) (by omega)).1 hlow
        have hchild := hcon.2.1 (by omega)
        have hbb : c acc.best.score ≤ c best'.score ∧ c (-r.score) ≤ c best'.score := by
          rcases hb' with ⟨hgt, e⟩ | ⟨hn, e⟩
          · subst e; simp only
            exact ⟨hc.mono _ _ (by omega), Int.le_refl _⟩
          · subst e; exact ⟨Int.le_refl _, hc.mono _ _ (by omega)⟩
        rcases hC with h' | ⟨m, hm, y, hy, e⟩
        · left; omega
        · rcases List.mem_cons.1 hm with e' | e'
          · subst e'; rw [hx] at hy; cases hy; left; omega
          · right; exact ⟨m, e', y, hy, e⟩
      · -- C, new alpha
        have h1 := hc.inside (-r.score) (by omega) (by omega)
        have hchild := hcon.2.2 (by omega) (by omega)
        have hnew : best' = ⟨-r.score, some mv⟩ := by
          rcases hb' with ⟨_, e⟩ | ⟨hn, _⟩
          · exact e
          · have := hc.mono (-r.score) acc.best.score (by omega)
            omega
        subst hnew; simp only
        rcases hC with h' | ⟨m, hm, y, hy, e⟩
        · left; omega
        · rcases List.mem_cons.1 hm with e' | e'
          · subst e'; rw [hx] at hy; cases hy; left; omega
          · right; exact ⟨m, e', y, hy, e⟩
      · -- D, fail low
        have h1 := (hc.le_iff (-r.score) acc.alpha (by omega) (by omega)).1 hlow
        intro hgt0
        rcases hb' with ⟨hgt, e⟩ | ⟨hn, e⟩
        · subst e; simp only at hgt0
          exfalso
          have h2 := hc.mono acc.best.score (-r.score) (by omega)
          have h3 : c acc.best.score = c (-r.score) := by omega
          have h4 := hc.inside' acc.best.score (by omega) (by omega)
          have h5 := hc.inside' (-r.score) (by omega) (by omega)
          omega
        · subst e; exact hD hgt0
      · -- D, new alpha
        have h1 := hc.inside (-r.score) (by omega) (by omega)
        have hchild := hcon.2.2 (by omega) (by omega)
        have hnew : best' = ⟨-r.score, some mv⟩ := by
          rcases hb' with ⟨_, e⟩ | ⟨hn, _⟩
          · exact e
          · have := hc.mono (-r.score) acc.best.score (by omega)
            omega
        subst hnew; simp only
        intro _
        refine ⟨by omega, ?_⟩
        intro m y hm hy
        simp only [Option.some.injEq] at hm
        subst hm
        obtain rfl : x = y := by rw [hx] at hy; exact Option.some.inj hy
        simp only
        have := hc.inside' x (by omega) (by omega)
        omega
      · -- M, fail low
        rcases hb' with ⟨_, e⟩ | ⟨_, e⟩
        · subst e; exact ⟨mv, rfl, hmv⟩
        · subst e; exact hM
      · -- M, new alpha
        rcases hb' with ⟨_, e⟩ | ⟨_, e⟩
        · subst e; exact ⟨mv, rfl, hmv⟩
        · subst e; exact hM

/-! ### the empty-stack loop invariant is an instance -/

variable {qf : Nat}

/-- `RecOKR` hands the loop what it needs (`I = TTSound`, `J = RepOK`, `val = Spec.V` of the child). -/
theorem childOK_of_recOKR {N U : P → Prop}
    (rec : P → Nat → Int → Int → SearchState → Option SearchResult × SearchState) (d : Nat)
    (hrec : RecOKR G c N U qf d rec) (p : P) (hch : ∀ m ∈ G.moves p, N (G.play p m)) :
    ChildOK G c (TTSound G c U qf) RepOK rec p (fun m => Spec.V G qf d (G.play p m)) := by
  intro m hm ply α β s x hT hR hx hα hαβ hβ hs hfin hdh
  obtain ⟨r, hr, hres, hT2⟩ := hrec (G.play p m) (ply + 1) α β s x (hch m hm) hT hR hx hα hαβ hβ hs hfin hdh
  exact ⟨r, hr, hres.contract, hT2⟩

/-- `SearchContract.negamaxLoop_ok_ranked`, re-derived from the abstract form (same statement). -/
theorem negamaxLoop_ok_ranked_of_val {N U : P → Prop} (hc : Clamp c)
    (rec : P → Nat → Int → Int → SearchState → Option SearchResult × SearchState) (d : Nat)
    (hrecF : ∀ q ply a b s, Frame s (rec q ply a b s).2) (hrec : RecOKR G c N U qf d rec)
    (p : P) (hch : ∀ m ∈ G.moves p, N (G.play p m)) (depth ply : Nat) (α₀ β v : Int)
    (hα : NEGATIVE_INFINITY ≤ α₀) (hβ : β ≤ INFINITY) :
    ∀ (rest : List Move) (acc : LoopAcc) (s : SearchState),
      (∀ m ∈ rest, m ∈ G.moves p) →
      (∀ m ∈ rest, ∃ x, Spec.V G qf d (G.play p m) = some x) →
      (∀ m ∈ rest, ∀ x, Spec.V G qf d (G.play p m) = some x → -c x ≤ c v) →
      acc.alpha = max α₀ (c acc.best.score) → acc.alpha < β →
      (c v ≤ c acc.best.score ∨ Attains G c qf d p rest (c v)) →
      (α₀ < c acc.best.score → c acc.best.score ≤ c v ∧ PVMove G qf d p acc.best) →
      (∃ m, acc.best.bestMove = some m ∧ m ∈ G.moves p) →
      TTSound G c U qf s.tt → RepOK s → s.stopSeen = false →
      (negamaxLoop G rec p depth ply β rest acc s).2.stopSeen = false →
      (negamaxLoop G rec p depth ply β rest acc s).2.deeperHits = s.deeperHits →
      ∃ acc', (negamaxLoop G rec p depth ply β rest acc s).1 = some acc' ∧
        Contract (c v) (c acc'.best.score) α₀ β ∧
        (∃ m, acc'.best.bestMove = some m ∧ m ∈ G.moves p) ∧
        (α₀ < c acc'.best.score → c acc'.best.score < β → PVMove G qf d p acc'.best) ∧
        TTSound G c U qf (negamaxLoop G rec p depth ply β rest acc s).2.tt :=
  negamaxLoop_ok_val G hc (TTSound G c U qf) RepOK (fun _ _ e h => h.of_rep e) rec hrecF p
    (fun m => Spec.V G qf d (G.play p m)) (childOK_of_recOKR G rec d hrec p hch) depth ply α₀ β v hα hβ

end loop
end Flounder.Search
