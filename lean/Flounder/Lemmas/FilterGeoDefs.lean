/-
  C01, legality filter (layer F1): the finite geometric facts about segments, lines and leapers on the
  8×8 board, as Boolean checkers.  Every checker quantifies over a PAIR of squares and then only over
  members of computed segments (never over a free third square where avoidable), so that each kernel
  evaluation stays small.  The checkers are evaluated in `FilterGeoChk*.lean`; `FilterGeo.lean` turns
  them into propositions.
-/
import Flounder.Spec.Geometry

namespace Flounder.Spec.NonKing
open Flounder

/-- symmetry of the alignment predicates. -/
def chkSymAl : Bool := squares.all fun s => squares.all fun t =>
  (diagonal s t == diagonal t s) && (orthogonal s t == orthogonal t s)

/-- facts about an aligned pair `(a, k)`: the segment read from the other end is the reverse; every square
    strictly between differs from both ends, is aligned with `k` and lies in the same direction from `k`. -/
def geoPair (a k : Nat) : Bool :=
  (strictlyBetween k a == (strictlyBetween a k).reverse) &&
  (strictlyBetween a k).all fun u =>
    u != a && u != k && aligned u k && (stepToward k u == stepToward k a)

def chkPair : Bool := squares.all fun a => squares.all fun k => !aligned a k || geoPair a k

/-- nested segments of an aligned pair `(a, k)`: for `s` strictly between and `d` strictly between `s` and `k`:
    `d` is between `a` and `k`, `s` is between `d` and `a`; and every two distinct squares of `a :: segment`
    span a line containing `k`. -/
def geoPair2 (a k : Nat) : Bool :=
  (strictlyBetween a k).all fun s =>
    ((strictlyBetween s k).all fun d =>
      (strictlyBetween a k).contains d && (strictlyBetween d a).contains s) &&
    ((a :: strictlyBetween a k).all fun d => d == s || onLine d s k)

def chkPair2 : Bool := squares.all fun a => squares.all fun k => !aligned a k || geoPair2 a k

/-- two squares aligned with `k` in the same direction from `k` are equal or one is between the other and `k`. -/
def chkFork : Bool := squares.all fun k => squares.all fun x => !aligned x k ||
  squares.all fun y => !aligned y k || (stepToward k x != stepToward k y) ||
    (x == y || (strictlyBetween y k).contains x || (strictlyBetween x k).contains y)

/-- three collinear squares: one of them is between the other two. -/
def chkTri (lo n : Nat) : Bool := (List.range' lo n).all fun k => squares.all fun s => !aligned s k ||
  squares.all fun d => !onLine d s k ||
    (d == k || (strictlyBetween s k).contains d || (strictlyBetween s d).contains k ||
      (aligned d k && (strictlyBetween d k).contains s))

/-- knights are never aligned with their target; adjacent squares have nothing between; a pawn attacks
    adjacent squares only. -/
def chkLeap : Bool := squares.all fun a => squares.all fun k =>
  (!knightStep a k || !aligned a k) && (!kingStep a k || (strictlyBetween a k).isEmpty) &&
  (!manAttacks (fun _ => none) .white .pawn a k || kingStep a k) &&
  (!manAttacks (fun _ => none) .black .pawn a k || kingStep a k)

/-- en passant: the square behind a pawn that attacks `k` is not aligned with `k`. -/
def chkEp : Bool := squares.all fun d => squares.all fun k =>
  (!manAttacks (fun _ => none) .black .pawn (d - 8) k || !aligned d k) &&
  (!manAttacks (fun _ => none) .white .pawn (d + 8) k || !aligned d k)

/-- pawn pushes: nothing between a square and the next; the middle square of a double step. -/
def chkPush : Bool := squares.all fun s =>
  (strictlyBetween s (s + 8)).isEmpty && (s < 8 || (strictlyBetween s (s - 8)).isEmpty) &&
  (strictlyBetween s (s + 16) == [s + 8]) && (s < 16 || strictlyBetween s (s - 16) == [s - 8])

end Flounder.Spec.NonKing
