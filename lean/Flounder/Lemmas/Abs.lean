/-
  Abstraction lemmas: how the eight bitboards of a `Board` and the mailbox `Spec.absBoard` determine each
  other on a consistent board, and what `addPiece` / `removePiece` do to the mailbox.
-/
import Flounder.Spec.Chess
import Flounder.Lemmas.Bits

namespace Flounder

/-! ### lawful `==` on the derived instances -/

instance : LawfulBEq Piece where
  eq_of_beq {a b} h := by cases a <;> cases b <;> first | rfl | (revert h; decide)
  rfl {a} := by cases a <;> decide

instance : LawfulBEq Color where
  eq_of_beq {a b} h := by cases a <;> cases b <;> first | rfl | (revert h; decide)
  rfl {a} := by cases a <;> decide

instance : LawfulBEq MoveType where
  eq_of_beq {a b} h := by cases a <;> cases b <;> first | rfl | (revert h; decide)
  rfl {a} := by cases a <;> decide

theorem Piece.mem_all (p : Piece) : p ∈ Piece.all := by cases p <;> simp [Piece.all]
theorem Color.mem_all (c : Color) : c ∈ [Color.white, Color.black] := by cases c <;> simp

theorem Piece.all_nodup : Piece.all.Nodup := by decide
theorem Color.all_nodup : [Color.white, Color.black].Nodup := by decide

/-! ### generic list facts -/

theorem eq_of_filter_length_le_one {α} {l : List α} {P : α → Bool} (h : (l.filter P).length ≤ 1)
    {a b : α} (ha : a ∈ l) (hb : b ∈ l) (pa : P a = true) (pb : P b = true) : a = b := by
  have ha' : a ∈ l.filter P := List.mem_filter.2 ⟨ha, pa⟩
  have hb' : b ∈ l.filter P := List.mem_filter.2 ⟨hb, pb⟩
  match hl : l.filter P, h with
  | [], _ => rw [hl] at ha'; cases ha'
  | [x], _ =>
    rw [hl] at ha' hb'
    rw [List.mem_singleton.1 ha', List.mem_singleton.1 hb']
  | _ :: _ :: _, h => simp at h

theorem filter_length_le_one_of_unique {α} {l : List α} (hnd : l.Nodup) {P : α → Bool}
    (h : ∀ a b, a ∈ l → b ∈ l → P a = true → P b = true → a = b) : (l.filter P).length ≤ 1 := by
  have hnd' : (l.filter P).Nodup := hnd.filter _
  match hl : l.filter P with
  | [] => simp
  | [x] => simp
  | x :: y :: r =>
    exfalso
    rw [hl] at hnd'
    have hx : x ∈ l.filter P := by rw [hl]; simp
    have hy : y ∈ l.filter P := by rw [hl]; simp
    have hx' := List.mem_filter.1 hx
    have hy' := List.mem_filter.1 hy
    have : x = y := h x y hx'.1 hy'.1 hx'.2 hy'.2
    subst this
    simp at hnd'

theorem find?_eq_some_of_unique {α} {l : List α} {P : α → Bool}
    (h : ∀ a b, a ∈ l → b ∈ l → P a = true → P b = true → a = b) {a : α} (ha : a ∈ l) (pa : P a = true) :
    l.find? P = some a := by
  cases hf : l.find? P with
  | none => exact absurd pa (by simpa using List.find?_eq_none.1 hf a ha)
  | some x => rw [h x a (List.mem_of_find?_eq_some hf) ha (List.find?_some hf) pa]

namespace Spec

/-! ### `consistent`, square by square -/

/-- consistency at one square, as a proposition. -/
structure ConsistentAt (b : Board) (s : Nat) : Prop where
  piece : ∀ p q, hasSq (b.bbPiece p) s = true → hasSq (b.bbPiece q) s = true → p = q
  color : ∀ c d, hasSq (b.bbColor c) s = true → hasSq (b.bbColor d) s = true → c = d
  both : (∃ p, hasSq (b.bbPiece p) s = true) ↔ (∃ c, hasSq (b.bbColor c) s = true)

theorem consistent_iff (b : Board) : consistent b = true ↔ ∀ s, s < 64 → ConsistentAt b s := by
  unfold consistent squares
  rw [List.all_eq_true]
  constructor
  · intro h s hs
    have h := h s (List.mem_range.2 hs)
    simp only [Bool.and_eq_true, decide_eq_true_eq, beq_iff_eq] at h
    obtain ⟨⟨h1, h2⟩, h3⟩ := h
    refine ⟨?_, ?_, ?_⟩
    · intro p q hp hq
      exact eq_of_filter_length_le_one (P := fun p => hasSq (b.bbPiece p) s) h1 p.mem_all q.mem_all hp hq
    · intro c d hc hd
      exact eq_of_filter_length_le_one (P := fun c => hasSq (b.bbColor c) s) h2 c.mem_all d.mem_all hc hd
    · constructor
      · rintro ⟨p, hp⟩
        have : 0 < (List.filter (fun p => hasSq (b.bbPiece p) s) Piece.all).length :=
          List.length_pos_of_mem (List.mem_filter.2 ⟨p.mem_all, hp⟩)
        rw [h3] at this
        obtain ⟨c, hc⟩ := List.exists_mem_of_length_pos this
        exact ⟨c, (List.mem_filter.1 hc).2⟩
      · rintro ⟨c, hc⟩
        have : 0 < (List.filter (fun c => hasSq (b.bbColor c) s) [Color.white, Color.black]).length :=
          List.length_pos_of_mem (List.mem_filter.2 ⟨c.mem_all, hc⟩)
        rw [← h3] at this
        obtain ⟨p, hp⟩ := List.exists_mem_of_length_pos this
        exact ⟨p, (List.mem_filter.1 hp).2⟩
  · intro h s hs
    obtain ⟨h1, h2, h3⟩ := h s (List.mem_range.1 hs)
    have l1 : (List.filter (fun p => hasSq (b.bbPiece p) s) Piece.all).length ≤ 1 :=
      filter_length_le_one_of_unique Piece.all_nodup (fun p q _ _ hp hq => h1 p q hp hq)
    have l2 : (List.filter (fun c => hasSq (b.bbColor c) s) [Color.white, Color.black]).length ≤ 1 :=
      filter_length_le_one_of_unique Color.all_nodup (fun p q _ _ hp hq => h2 p q hp hq)
    simp only [Bool.and_eq_true, decide_eq_true_eq, beq_iff_eq]
    refine ⟨⟨l1, l2⟩, ?_⟩
    by_cases hp : ∃ p, hasSq (b.bbPiece p) s = true
    · obtain ⟨c, hc⟩ := h3.1 hp
      obtain ⟨p, hp⟩ := hp
      have : 0 < (List.filter (fun p => hasSq (b.bbPiece p) s) Piece.all).length :=
        List.length_pos_of_mem (List.mem_filter.2 ⟨p.mem_all, hp⟩)
      have : 0 < (List.filter (fun c => hasSq (b.bbColor c) s) [Color.white, Color.black]).length :=
        List.length_pos_of_mem (List.mem_filter.2 ⟨c.mem_all, hc⟩)
      omega
    · have hc : ¬ ∃ c, hasSq (b.bbColor c) s = true := fun h => hp (h3.2 h)
      have e1 : List.filter (fun p => hasSq (b.bbPiece p) s) Piece.all = [] :=
        List.filter_eq_nil_iff.2 (fun p _ hpp => hp ⟨p, hpp⟩)
      have e2 : List.filter (fun c => hasSq (b.bbColor c) s) [Color.white, Color.black] = [] :=
        List.filter_eq_nil_iff.2 (fun c _ hcc => hc ⟨c, hcc⟩)
      rw [e1, e2]; rfl

theorem consistent_at {b : Board} (h : consistent b = true) {s : Nat} (hs : s < 64) : ConsistentAt b s :=
  (consistent_iff b).1 h s hs

/-! ### `getPieceAt`, `getColorAt`, `absBoard` against the bitboards -/

theorem hasSq_of_getPieceAt {b : Board} {s : Nat} {p : Piece} (h : b.getPieceAt s = some p) :
    hasSq (b.bbPiece p) s = true := List.find?_some (p := fun p => hasSq (b.bbPiece p) s) h

theorem hasSq_of_getColorAt {b : Board} {s : Nat} {c : Color} (h : b.getColorAt s = some c) :
    hasSq (b.bbColor c) s = true := List.find?_some (p := fun c => hasSq (b.bbColor c) s) h

theorem getPieceAt_eq_some {b : Board} (hb : consistent b = true) {s : Nat} (hs : s < 64) (p : Piece) :
    b.getPieceAt s = some p ↔ hasSq (b.bbPiece p) s = true :=
  ⟨hasSq_of_getPieceAt, fun h =>
    find?_eq_some_of_unique (P := fun p => hasSq (b.bbPiece p) s)
      (fun p q _ _ hp hq => (consistent_at hb hs).piece p q hp hq) p.mem_all h⟩

theorem getColorAt_eq_some {b : Board} (hb : consistent b = true) {s : Nat} (hs : s < 64) (c : Color) :
    b.getColorAt s = some c ↔ hasSq (b.bbColor c) s = true :=
  ⟨hasSq_of_getColorAt, fun h =>
    find?_eq_some_of_unique (P := fun c => hasSq (b.bbColor c) s)
      (fun p q _ _ hp hq => (consistent_at hb hs).color p q hp hq) c.mem_all h⟩

theorem getPieceAt_eq_none {b : Board} {s : Nat} :
    b.getPieceAt s = none ↔ ∀ p, hasSq (b.bbPiece p) s = false := by
  unfold Board.getPieceAt
  rw [List.find?_eq_none]
  exact ⟨fun h p => by simpa using h p p.mem_all, fun h p _ => by simp [h p]⟩

theorem getColorAt_eq_none {b : Board} {s : Nat} :
    b.getColorAt s = none ↔ ∀ c, hasSq (b.bbColor c) s = false := by
  unfold Board.getColorAt
  rw [List.find?_eq_none]
  exact ⟨fun h c => by simpa using h c c.mem_all, fun h c _ => by simp [h c]⟩

theorem absBoard_def (b : Board) (s : Nat) :
    absBoard b s = match b.getColorAt s, b.getPieceAt s with
      | some c, some p => some (c, p)
      | _, _ => none := rfl

theorem absBoard_eq_some' {b : Board} {s : Nat} {c : Color} {p : Piece} :
    absBoard b s = some (c, p) ↔ b.getColorAt s = some c ∧ b.getPieceAt s = some p := by
  rw [absBoard_def]
  split
  · rename_i c' p' h1 h2
    rw [h1, h2]
    simp
  · rename_i h
    constructor
    · intro h'; cases h'
    · rintro ⟨h1, h2⟩
      exact absurd h2 (by intro h2; exact h c p h1 h2)

/-- **the man on a square** is read off the colour and piece bitboards. -/
theorem absBoard_eq_some {b : Board} (hb : consistent b = true) {s : Nat} (hs : s < 64) {c : Color} {p : Piece} :
    absBoard b s = some (c, p) ↔ hasSq (b.bbColor c) s = true ∧ hasSq (b.bbPiece p) s = true := by
  rw [absBoard_eq_some', getColorAt_eq_some hb hs, getPieceAt_eq_some hb hs]

theorem hasSq_bb {b : Board} (hb : consistent b = true) {s : Nat} (hs : s < 64) {c : Color} {p : Piece} :
    hasSq (b.bb c p) s = true ↔ absBoard b s = some (c, p) := by
  rw [absBoard_eq_some hb hs, Board.bb, hasSq_and _ _ _ hs, Bool.and_eq_true]
  exact And.comm

theorem hasSq_bbColor {b : Board} (hb : consistent b = true) {s : Nat} (hs : s < 64) {c : Color} :
    hasSq (b.bbColor c) s = true ↔ ∃ p, absBoard b s = some (c, p) := by
  constructor
  · intro h
    obtain ⟨p, hp⟩ := (consistent_at hb hs).both.2 ⟨c, h⟩
    exact ⟨p, (absBoard_eq_some hb hs).2 ⟨h, hp⟩⟩
  · rintro ⟨p, hp⟩
    exact ((absBoard_eq_some hb hs).1 hp).1

theorem hasSq_bbPiece {b : Board} (hb : consistent b = true) {s : Nat} (hs : s < 64) {p : Piece} :
    hasSq (b.bbPiece p) s = true ↔ ∃ c, absBoard b s = some (c, p) := by
  constructor
  · intro h
    obtain ⟨c, hc⟩ := (consistent_at hb hs).both.1 ⟨p, h⟩
    exact ⟨c, (absBoard_eq_some hb hs).2 ⟨hc, h⟩⟩
  · rintro ⟨c, hc⟩
    exact ((absBoard_eq_some hb hs).1 hc).2

theorem absBoard_eq_none {b : Board} (hb : consistent b = true) {s : Nat} (hs : s < 64) :
    absBoard b s = none ↔ (∀ c, hasSq (b.bbColor c) s = false) ∧ (∀ p, hasSq (b.bbPiece p) s = false) := by
  constructor
  · intro h
    constructor
    · intro c
      cases hc : hasSq (b.bbColor c) s with
      | false => rfl
      | true =>
        obtain ⟨p, hp⟩ := (hasSq_bbColor hb hs).1 hc
        rw [h] at hp; cases hp
    · intro p
      cases hp : hasSq (b.bbPiece p) s with
      | false => rfl
      | true =>
        obtain ⟨c, hc⟩ := (hasSq_bbPiece hb hs).1 hp
        rw [h] at hc; cases hc
  · rintro ⟨h1, _⟩
    cases h : absBoard b s with
    | none => rfl
    | some x =>
      obtain ⟨c, p⟩ := x
      have := ((absBoard_eq_some hb hs).1 h).1
      rw [h1 c] at this; cases this

theorem hasSq_bbAll {b : Board} (hb : consistent b = true) {s : Nat} (hs : s < 64) :
    hasSq b.bbAll s = (absBoard b s).isSome := by
  have hw := hasSq_bbColor hb hs (c := .white)
  have hk := hasSq_bbColor hb hs (c := .black)
  show hasSq (b.white ||| b.black) s = _
  rw [hasSq_or _ _ _ hs]
  change hasSq (b.bbColor .white) s = true ↔ _ at hw
  change hasSq (b.bbColor .black) s = true ↔ _ at hk
  show (hasSq (b.bbColor .white) s || hasSq (b.bbColor .black) s) = _
  cases h : absBoard b s with
  | none =>
    have := (absBoard_eq_none hb hs).1 h
    simp [this.1]
  | some x =>
    obtain ⟨c, p⟩ := x
    have := ((absBoard_eq_some hb hs).1 h).1
    cases c <;> simp [this]

theorem hasSq_bbEmpty {b : Board} (hb : consistent b = true) {s : Nat} (hs : s < 64) :
    hasSq b.bbEmpty s = (absBoard b s).isNone := by
  show hasSq (~~~ b.bbAll) s = _
  rw [hasSq_not _ _ hs, hasSq_bbAll hb hs]
  cases absBoard b s <;> rfl

theorem getPieceAt_eq {b : Board} (hb : consistent b = true) {s : Nat} (hs : s < 64) :
    b.getPieceAt s = (absBoard b s).map (·.2) := by
  cases h : absBoard b s with
  | none =>
    exact getPieceAt_eq_none.2 ((absBoard_eq_none hb hs).1 h).2
  | some x =>
    obtain ⟨c, p⟩ := x
    exact (getPieceAt_eq_some hb hs p).2 ((absBoard_eq_some hb hs).1 h).2

theorem getColorAt_eq {b : Board} (hb : consistent b = true) {s : Nat} (hs : s < 64) :
    b.getColorAt s = (absBoard b s).map (·.1) := by
  cases h : absBoard b s with
  | none =>
    exact getColorAt_eq_none.2 ((absBoard_eq_none hb hs).1 h).1
  | some x =>
    obtain ⟨c, p⟩ := x
    exact (getColorAt_eq_some hb hs c).2 ((absBoard_eq_some hb hs).1 h).1

/-! ### `addPiece` / `removePiece` on the bitboards -/

theorem bbPiece_addPiece (b : Board) (c : Color) (p : Piece) (s : Nat) (q : Piece) :
    (b.addPiece c p s).bbPiece q = if q = p then setBit (b.bbPiece p) s else b.bbPiece q := by
  cases c <;> cases p <;> cases q <;> rfl

theorem bbColor_addPiece (b : Board) (c : Color) (p : Piece) (s : Nat) (d : Color) :
    (b.addPiece c p s).bbColor d = if d = c then setBit (b.bbColor c) s else b.bbColor d := by
  cases c <;> cases p <;> cases d <;> rfl

theorem bbPiece_removePiece (b : Board) (c : Color) (p : Piece) (s : Nat) (q : Piece) :
    (b.removePiece c p s).bbPiece q = if q = p then removeBit (b.bbPiece p) s else b.bbPiece q := by
  cases c <;> cases p <;> cases q <;> rfl

theorem bbColor_removePiece (b : Board) (c : Color) (p : Piece) (s : Nat) (d : Color) :
    (b.removePiece c p s).bbColor d = if d = c then removeBit (b.bbColor c) s else b.bbColor d := by
  cases c <;> cases p <;> cases d <;> rfl

theorem hasSq_bbPiece_addPiece (b : Board) (c : Color) (p : Piece) {s t : Nat} (hs : s < 64) (ht : t < 64)
    (q : Piece) :
    hasSq ((b.addPiece c p s).bbPiece q) t = (hasSq (b.bbPiece q) t || (decide (q = p) && decide (s = t))) := by
  rw [bbPiece_addPiece]
  by_cases h : q = p
  · subst h; simp [hasSq_setBit _ _ _ hs ht]
  · simp [h]

theorem hasSq_bbColor_addPiece (b : Board) (c : Color) (p : Piece) {s t : Nat} (hs : s < 64) (ht : t < 64)
    (d : Color) :
    hasSq ((b.addPiece c p s).bbColor d) t = (hasSq (b.bbColor d) t || (decide (d = c) && decide (s = t))) := by
  rw [bbColor_addPiece]
  by_cases h : d = c
  · subst h; simp [hasSq_setBit _ _ _ hs ht]
  · simp [h]

theorem hasSq_bbPiece_removePiece (b : Board) (c : Color) (p : Piece) {s t : Nat} (hs : s < 64) (ht : t < 64)
    (q : Piece) :
    hasSq ((b.removePiece c p s).bbPiece q) t = (hasSq (b.bbPiece q) t && !(decide (q = p) && decide (s = t))) := by
  rw [bbPiece_removePiece]
  by_cases h : q = p
  · subst h; simp [hasSq_removeBit _ _ _ hs ht]
  · simp [h]

theorem hasSq_bbColor_removePiece (b : Board) (c : Color) (p : Piece) {s t : Nat} (hs : s < 64) (ht : t < 64)
    (d : Color) :
    hasSq ((b.removePiece c p s).bbColor d) t = (hasSq (b.bbColor d) t && !(decide (d = c) && decide (s = t))) := by
  rw [bbColor_removePiece]
  by_cases h : d = c
  · subst h; simp [hasSq_removeBit _ _ _ hs ht]
  · simp [h]

/-- the non-bitboard fields are untouched. -/
@[simp] theorem addPiece_active (b : Board) (c p s) : (b.addPiece c p s).active = b.active := by
  cases c <;> cases p <;> rfl
@[simp] theorem addPiece_castle (b : Board) (c p s) : (b.addPiece c p s).castle = b.castle := by
  cases c <;> cases p <;> rfl
@[simp] theorem addPiece_ep (b : Board) (c p s) : (b.addPiece c p s).ep = b.ep := by
  cases c <;> cases p <;> rfl
@[simp] theorem addPiece_halfmove (b : Board) (c p s) : (b.addPiece c p s).halfmove = b.halfmove := by
  cases c <;> cases p <;> rfl
@[simp] theorem addPiece_fullmove (b : Board) (c p s) : (b.addPiece c p s).fullmove = b.fullmove := by
  cases c <;> cases p <;> rfl
@[simp] theorem removePiece_active (b : Board) (c p s) : (b.removePiece c p s).active = b.active := by
  cases c <;> cases p <;> rfl
@[simp] theorem removePiece_castle (b : Board) (c p s) : (b.removePiece c p s).castle = b.castle := by
  cases c <;> cases p <;> rfl
@[simp] theorem removePiece_ep (b : Board) (c p s) : (b.removePiece c p s).ep = b.ep := by
  cases c <;> cases p <;> rfl
@[simp] theorem removePiece_halfmove (b : Board) (c p s) : (b.removePiece c p s).halfmove = b.halfmove := by
  cases c <;> cases p <;> rfl
@[simp] theorem removePiece_fullmove (b : Board) (c p s) : (b.removePiece c p s).fullmove = b.fullmove := by
  cases c <;> cases p <;> rfl

/-! ### `addPiece` / `removePiece` on the mailbox -/

theorem consistent_addPiece {b : Board} (hb : consistent b = true) {s : Nat} (hs : s < 64)
    (he : absBoard b s = none) (c : Color) (p : Piece) : consistent (b.addPiece c p s) = true := by
  rw [consistent_iff]
  intro t ht
  have hc := consistent_at hb ht
  obtain ⟨e1, e2⟩ := (absBoard_eq_none hb hs).1 he
  by_cases hts : s = t
  · subst hts
    refine ⟨?_, ?_, ?_⟩
    · intro q r hq hr
      rw [hasSq_bbPiece_addPiece b c p hs hs, e2] at hq hr
      simp at hq hr
      rw [hq, hr]
    · intro q r hq hr
      rw [hasSq_bbColor_addPiece b c p hs hs, e1] at hq hr
      simp at hq hr
      rw [hq, hr]
    · constructor
      · intro _
        exact ⟨c, by rw [hasSq_bbColor_addPiece b c p hs hs]; simp⟩
      · intro _
        exact ⟨p, by rw [hasSq_bbPiece_addPiece b c p hs hs]; simp⟩
  · refine ⟨?_, ?_, ?_⟩
    · intro q r hq hr
      rw [hasSq_bbPiece_addPiece b c p hs ht] at hq hr
      simp [hts] at hq hr
      exact hc.piece q r hq hr
    · intro q r hq hr
      rw [hasSq_bbColor_addPiece b c p hs ht] at hq hr
      simp [hts] at hq hr
      exact hc.color q r hq hr
    · simp only [hasSq_bbPiece_addPiece b c p hs ht, hasSq_bbColor_addPiece b c p hs ht, hts,
        decide_false, Bool.and_false, Bool.or_false]
      exact hc.both

theorem absBoard_addPiece {b : Board} (hb : consistent b = true) {s : Nat} (hs : s < 64)
    (he : absBoard b s = none) (c : Color) (p : Piece) {t : Nat} (ht : t < 64) :
    absBoard (b.addPiece c p s) t = if t = s then some (c, p) else absBoard b t := by
  have hb' := consistent_addPiece hb hs he c p
  obtain ⟨e1, e2⟩ := (absBoard_eq_none hb hs).1 he
  apply Option.ext
  rintro ⟨d, q⟩
  rw [absBoard_eq_some hb' ht, hasSq_bbPiece_addPiece b c p hs ht, hasSq_bbColor_addPiece b c p hs ht]
  by_cases hts : t = s
  · subst hts
    simp [e1, e2]
    constructor
    · rintro ⟨h1, h2⟩; exact ⟨h1.symm, h2.symm⟩
    · rintro ⟨h1, h2⟩; exact ⟨h1.symm, h2.symm⟩
  · have hts' : ¬ s = t := fun h => hts h.symm
    simp only [hts, hts', if_false, decide_false, Bool.and_false, Bool.or_false]
    exact (absBoard_eq_some hb ht).symm

theorem consistent_removePiece {b : Board} (hb : consistent b = true) {s : Nat} (hs : s < 64)
    {c : Color} {p : Piece} (hm : absBoard b s = some (c, p)) : consistent (b.removePiece c p s) = true := by
  rw [consistent_iff]
  intro t ht
  have hc := consistent_at hb ht
  obtain ⟨m1, m2⟩ := (absBoard_eq_some hb hs).1 hm
  by_cases hts : s = t
  · subst hts
    have hp : ∀ q, hasSq ((b.removePiece c p s).bbPiece q) s = false := by
      intro q
      rw [hasSq_bbPiece_removePiece b c p hs hs]
      by_cases hq : q = p
      · simp [hq]
      · cases hh : hasSq (b.bbPiece q) s with
        | false => simp
        | true => exact absurd (hc.piece q p hh m2) hq
    have hcl : ∀ d, hasSq ((b.removePiece c p s).bbColor d) s = false := by
      intro d
      rw [hasSq_bbColor_removePiece b c p hs hs]
      by_cases hq : d = c
      · simp [hq]
      · cases hh : hasSq (b.bbColor d) s with
        | false => simp
        | true => exact absurd (hc.color d c hh m1) hq
    refine ⟨?_, ?_, ?_⟩
    · intro q r hq _; rw [hp q] at hq; cases hq
    · intro q r hq _; rw [hcl q] at hq; cases hq
    · constructor
      · rintro ⟨q, hq⟩; rw [hp q] at hq; cases hq
      · rintro ⟨q, hq⟩; rw [hcl q] at hq; cases hq
  · refine ⟨?_, ?_, ?_⟩
    · intro q r hq hr
      rw [hasSq_bbPiece_removePiece b c p hs ht] at hq hr
      simp [hts] at hq hr
      exact hc.piece q r hq hr
    · intro q r hq hr
      rw [hasSq_bbColor_removePiece b c p hs ht] at hq hr
      simp [hts] at hq hr
      exact hc.color q r hq hr
    · simp only [hasSq_bbPiece_removePiece b c p hs ht, hasSq_bbColor_removePiece b c p hs ht, hts,
        decide_false, Bool.and_false, Bool.not_false, Bool.and_true]
      exact hc.both

theorem absBoard_removePiece {b : Board} (hb : consistent b = true) {s : Nat} (hs : s < 64)
    {c : Color} {p : Piece} (hm : absBoard b s = some (c, p)) {t : Nat} (ht : t < 64) :
    absBoard (b.removePiece c p s) t = if t = s then none else absBoard b t := by
  have hb' := consistent_removePiece hb hs hm
  have hc := consistent_at hb hs
  obtain ⟨m1, m2⟩ := (absBoard_eq_some hb hs).1 hm
  by_cases hts : t = s
  · subst hts
    rw [if_pos rfl, absBoard_eq_none hb' ht]
    constructor
    · intro d
      rw [hasSq_bbColor_removePiece b c p hs hs]
      by_cases hq : d = c
      · simp [hq]
      · cases hh : hasSq (b.bbColor d) t with
        | false => simp
        | true => exact absurd (hc.color d c hh m1) hq
    · intro q
      rw [hasSq_bbPiece_removePiece b c p hs hs]
      by_cases hq : q = p
      · simp [hq]
      · cases hh : hasSq (b.bbPiece q) t with
        | false => simp
        | true => exact absurd (hc.piece q p hh m2) hq
  · have hts' : ¬ s = t := fun h => hts h.symm
    rw [if_neg hts]
    apply Option.ext
    rintro ⟨d, q⟩
    rw [absBoard_eq_some hb' ht, hasSq_bbPiece_removePiece b c p hs ht, hasSq_bbColor_removePiece b c p hs ht]
    simp only [hts', decide_false, Bool.and_false, Bool.not_false, Bool.and_true]
    exact (absBoard_eq_some hb ht).symm

/-! ### representation invariant: a board represents a mailbox function -/

/-- `b` is consistent and its mailbox is `f` on the 64 squares. -/
structure Rep (b : Board) (f : Nat → Option Man) : Prop where
  cons : consistent b = true
  abs : ∀ t, t < 64 → absBoard b t = f t

theorem Rep.self {b : Board} (hb : consistent b = true) : Rep b (absBoard b) := ⟨hb, fun _ _ => rfl⟩

theorem Rep.congr {b : Board} {f g : Nat → Option Man} (h : Rep b f) (hfg : ∀ t, t < 64 → f t = g t) :
    Rep b g := ⟨h.cons, fun t ht => (h.abs t ht).trans (hfg t ht)⟩

theorem Rep.add {b : Board} {f : Nat → Option Man} (h : Rep b f) {s : Nat} (hs : s < 64) (he : f s = none)
    (c : Color) (p : Piece) : Rep (b.addPiece c p s) (fun t => if t = s then some (c, p) else f t) := by
  have he' : absBoard b s = none := (h.abs s hs).trans he
  refine ⟨consistent_addPiece h.cons hs he' c p, fun t ht => ?_⟩
  rw [absBoard_addPiece h.cons hs he' c p ht, h.abs t ht]

theorem Rep.remove {b : Board} {f : Nat → Option Man} (h : Rep b f) {s : Nat} (hs : s < 64)
    {c : Color} {p : Piece} (hm : f s = some (c, p)) :
    Rep (b.removePiece c p s) (fun t => if t = s then none else f t) := by
  have hm' : absBoard b s = some (c, p) := (h.abs s hs).trans hm
  refine ⟨consistent_removePiece h.cons hs hm', fun t ht => ?_⟩
  rw [absBoard_removePiece h.cons hs hm' ht, h.abs t ht]

theorem Rep.getPieceAt {b : Board} {f : Nat → Option Man} (h : Rep b f) {s : Nat} (hs : s < 64) :
    b.getPieceAt s = (f s).map (·.2) := by
  rw [getPieceAt_eq h.cons hs, h.abs s hs]

end Spec
end Flounder
