/-
  Non-vacuity of Lemmas/QTerm.lean, and sharpness of its fuel bound.

  `perpGame`: a perpetual check.  Every position is in check and has exactly one legal move, to the next
  position; the static score is 0 everywhere.  The UNPRUNED reference tree is an infinite path, so
  `Spec.Q perpGame n p = none` for every `n` and `Spec.QFinite` fails — the old theorem `quiesce_some`
  says nothing here.  But no move improves the mover's static score (`0 < -0` is false), so the constant
  rank 0 is a `QRank`, and `quiesce_terminates` / `findBestMove_terminates` apply: two units of fuel.

  The same game shows that `ρ p + 1` units are NOT enough (`quiesce_rank_succ_not_enough`): the root
  gets past its stand-pat test, and its child — which returns at its own stand-pat test — still costs one.
-/
import Flounder.Lemmas.QTerm

namespace Flounder.Search
open Flounder Gen

def perpMove : Move := ⟨0, 1, .queen, .quiet⟩

/-- a perpetual check: always in check, one reply, level score. -/
def perpGame : Game Nat where
  moves := fun _ => [perpMove]
  qmoves := fun _ => []
  play := fun p _ => p + 1
  inCheck := fun _ => true
  eval := fun _ => 0
  hash := fun p => p.toUInt64
  pieceAt := fun _ _ => none

theorem perp_qList (p : Nat) : qList perpGame p = [perpMove] := rfl

/-- the rank: constant 0 on every position (`decreases` holds because no move improves the score). -/
theorem perp_rank : QRank perpGame (fun _ => True) (fun _ => 0) where
  closed := fun _ _ _ _ => trivial
  decreases := fun p _ m _ h => by
    have h1 : perpGame.eval p = 0 := rfl
    have h2 : perpGame.eval (perpGame.play p m) = 0 := rfl
    rw [h1, h2] at h
    omega

theorem perp_closed : MovesClosed perpGame (fun _ => True) := fun _ _ _ _ => trivial

/-- the reference tree is infinite: no fuel gives a reference value, anywhere. -/
theorem perp_Q_none : ∀ (n p : Nat), Spec.Q perpGame n p = none := by
  intro n
  induction n with
  | zero => intro p; rfl
  | succ n ih =>
    intro p
    rw [Q_succ, perp_qList]
    have h : perpGame.play p perpMove = p + 1 := rfl
    simp [foldStep, h, ih (p + 1)]

/-- so the hypothesis of the old theorem (`quiesce_some`) is false everywhere ... -/
theorem perp_not_QFinite (p : Nat) : ¬ Spec.QFinite perpGame p := by
  rintro ⟨n, hn⟩
  rw [perp_Q_none n p] at hn
  cases hn

/-- ... while the new one applies: two units of fuel, every window, every state. -/
example (p : Nat) (fuel : Nat) (hf : 2 ≤ fuel) (α β : Int) (s : SearchState) :
    ∃ r, (quiesce perpGame fuel p α β s).1 = some r :=
  quiesce_terminates perpGame perp_rank p trivial fuel hf α β s

example (p D : Nat) (limit : Limit) (s : SearchState) :
    ∃ r, (findBestMove perpGame 2 p D limit s).1 = some r :=
  findBestMove_terminates perpGame perp_rank perp_closed 0 (fun _ _ => Nat.le_refl _) 2 (Nat.le_refl _)
    p trivial D limit s

example (p f₁ f₂ : Nat) (h₁ : 2 ≤ f₁) (h₂ : 2 ≤ f₂) (α β : Int) (s : SearchState) :
    quiesce perpGame f₁ p α β s = quiesce perpGame f₂ p α β s :=
  quiesce_fuel_irrelevant perpGame perp_rank p trivial f₁ f₂ h₁ h₂ α β s

/-- the run with `ρ p + 1 = 1` unit of fuel and no deadline: the root does not stand pat
    (`0 < β`), follows the check evasion, and the child has no fuel. -/
theorem perp_one_fuel (p : Nat) (α β : Int) (hβ : 0 < β) (s : SearchState) (hl : s.limit = .none) :
    (quiesce perpGame 1 p α β s).1 = none := by
  rw [quiesce_succ, perp_qList]
  have h2 : orderCaptures perpGame p [perpMove] = [perpMove] := by simp [orderCaptures]
  have h3 : perpGame.eval p = 0 := rfl
  rw [h2, h3, quiesceLoop_cons]
  have h4 : stopFlag s.incrementNodes = false := by simp [stopFlag, SearchState.incrementNodes, hl]
  have h5 : ¬ (0 : Int) ≥ β := by omega
  rw [h4, quiesce_zero]
  simp [h5]

/-- **`ρ p + 1` units of fuel are not enough** in general: the bound `ρ p + 2` of `quiesce_terminates`
    is sharp. -/
theorem quiesce_rank_succ_not_enough :
    ∃ (G : Game Nat) (S : Nat → Prop) (ρ : Nat → Nat), QRank G S ρ ∧
      ∃ (p : Nat) (α β : Int) (s : SearchState), S p ∧ (quiesce G (ρ p + 1) p α β s).1 = none :=
  ⟨perpGame, fun _ => True, fun _ => 0, perp_rank, 0, -10, 10, {}, trivial,
    perp_one_fuel 0 (-10) 10 (by omega) {} rfl⟩

end Flounder.Search
