/-
  Non-vacuity of Lemmas/QTerm.lean, and sharpness of its fuel bound.

  `perpGame`: a perpetual check.  Every position is in check and has exactly one legal move, to the next
  position; the static score is 0 everywhere.  The PLAIN quiescence tree is an infinite path, so
  `Spec.Qplain perpGame n p = none` for every `n` and `Spec.QplainFinite` fails.  But no move improves the
  mover's static score (`0 < -0` is false), so the constant rank 0 is a `QRank`, and `quiesce_terminates` /
  `findBestMove_terminates` apply: two units of fuel.  The reference value `Spec.Q` (which only descends
  into children that can matter) is defined with exactly the same two units: `perp_Q`, `perp_Q_one`.

  The same game shows that `ρ p + 1` units are NOT enough (`quiesce_rank_succ_not_enough`): the root
  gets past its stand-pat test, and its child — which returns at its own stand-pat test — still costs one.
-/
import Flounder.Lemmas.QTerm
import Flounder.Lemmas.QSpec

namespace Flounder.Search
open Flounder Gen

def perpMove : Move := ⟨0, 1, .queen, .quiet⟩

/-- a perpetual check: always in check, one reply, level score. -/
def perpGame : Game Nat where
  moves := fun _ => [perpMove]
  qmoves := fun _ => []
  play := fun p _ => p + 1
  inCheck := fun _ => true
  eval := fun _ => 0
  hash := fun p => p.toUInt64
  pieceAt := fun _ _ => none

theorem perp_qList (p : Nat) : qList perpGame p = [perpMove] := rfl

/-- the rank: constant 0 on every position (`decreases` holds because no move improves the score). -/
theorem perp_rank : QRank perpGame (fun _ => True) (fun _ => 0) where
  closed := fun _ _ _ _ => trivial
  decreases := fun p _ m _ h => by
    have h1 : perpGame.eval p = 0 := rfl
    have h2 : perpGame.eval (perpGame.play p m) = 0 := rfl
    rw [h1, h2] at h
    omega

theorem perp_closed : MovesClosed perpGame (fun _ => True) := fun _ _ _ _ => trivial

/-- the plain quiescence tree is infinite: no fuel gives a plain value, anywhere. -/
theorem perp_Qplain_none : ∀ (n p : Nat), Spec.Qplain perpGame n p = none := by
  intro n
  induction n with
  | zero => intro p; rfl
  | succ n ih =>
    intro p
    rw [Qplain_succ, perp_qList]
    have h : perpGame.play p perpMove = p + 1 := rfl
    simp [foldStep, h, ih (p + 1)]

theorem perp_not_QplainFinite (p : Nat) : ¬ Spec.QplainFinite perpGame p := by
  rintro ⟨n, hn⟩
  rw [perp_Qplain_none n p] at hn
  cases hn

/-- no move of the perpetual check can matter. -/
theorem perp_qRel (p : Nat) (m : Move) : qRel perpGame p m = false := by
  rw [qRel_eq, qMated_eq, perp_qList]
  have h1 : perpGame.eval p = 0 := rfl
  have h2 : perpGame.eval (perpGame.play p m) = 0 := rfl
  rw [h1, h2]
  simp

/-- the reference value is defined everywhere, with two units of fuel: the level score. -/
theorem perp_Q (n p : Nat) : Spec.Q perpGame (n + 2) p = some 0 := by
  rw [Q_succ_succ, perp_qList]
  have : [perpMove].filter (qRel perpGame p) = [] := by simp [perp_qRel]
  rw [this]
  rfl

theorem perp_QFinite (p : Nat) : Spec.QFinite perpGame p := ⟨2, by rw [perp_Q 0 p]; rfl⟩

/-- ... and not with one (like the engine, `perp_one_fuel`): the skipped child is still a node. -/
theorem perp_Q_one (p : Nat) : Spec.Q perpGame 1 p = none := by
  rw [Q_succ, perp_qList]
  simp [relStep, perp_qRel]

/-- why a skipped child costs a unit of fuel in `Spec.Q`: with skipped children for free (`Spec.Qfree`) one
    unit gives a value here, while the engine's quiescence with one unit runs out of fuel (`perp_one_fuel`
    below) — "`Q n p` defined ⇒ `quiesce` answers with fuel `n`" (`quiesce_some`) would fail for `Qfree`. -/
theorem perp_Qfree_one (p : Nat) : Spec.Qfree perpGame 1 p = some 0 := by
  rw [Spec.Qfree_succ, perp_qList]
  have : [perpMove].filter (qRel perpGame p) = [] := by simp [perp_qRel]
  rw [this]
  rfl

/-- the engine's quiescence answers: two units of fuel, every window, every state. -/
example (p : Nat) (fuel : Nat) (hf : 2 ≤ fuel) (α β : Int) (s : SearchState) :
    ∃ r, (quiesce perpGame fuel p α β s).1 = some r :=
  quiesce_terminates perpGame perp_rank p trivial fuel hf α β s

example (p D : Nat) (limit : Limit) (s : SearchState) :
    ∃ r, (findBestMove perpGame 2 p D limit s).1 = some r :=
  findBestMove_terminates perpGame perp_rank perp_closed 0 (fun _ _ => Nat.le_refl _) 2 (Nat.le_refl _)
    p trivial D limit s

example (p f₁ f₂ : Nat) (h₁ : 2 ≤ f₁) (h₂ : 2 ≤ f₂) (α β : Int) (s : SearchState) :
    quiesce perpGame f₁ p α β s = quiesce perpGame f₂ p α β s :=
  quiesce_fuel_irrelevant perpGame perp_rank p trivial f₁ f₂ h₁ h₂ α β s

/-- the run with `ρ p + 1 = 1` unit of fuel and no deadline: the root does not stand pat
    (`0 < β`), follows the check evasion, and the child has no fuel. -/
theorem perp_one_fuel (p : Nat) (α β : Int) (hβ : 0 < β) (s : SearchState) (hl : s.limit = .none) :
    (quiesce perpGame 1 p α β s).1 = none := by
  rw [quiesce_succ, perp_qList]
  have h2 : orderCaptures perpGame p [perpMove] = [perpMove] := by simp [orderCaptures]
  have h3 : perpGame.eval p = 0 := rfl
  rw [h2, h3, quiesceLoop_cons]
  have h4 : stopFlag s.incrementNodes = false := by simp [stopFlag, SearchState.incrementNodes, hl]
  have h5 : ¬ (0 : Int) ≥ β := by omega
  rw [h4, quiesce_zero]
  simp [h5]

/-- **`ρ p + 1` units of fuel are not enough** in general: the bound `ρ p + 2` of `quiesce_terminates`
    is sharp. -/
theorem quiesce_rank_succ_not_enough :
    ∃ (G : Game Nat) (S : Nat → Prop) (ρ : Nat → Nat), QRank G S ρ ∧
      ∃ (p : Nat) (α β : Int) (s : SearchState), S p ∧ (quiesce G (ρ p + 1) p α β s).1 = none :=
  ⟨perpGame, fun _ => True, fun _ => 0, perp_rank, 0, -10, 10, {}, trivial,
    perp_one_fuel 0 (-10) 10 (by omega) {} rfl⟩

end Flounder.Search
