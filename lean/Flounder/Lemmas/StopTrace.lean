/-
  The search as a TRACE of primitive steps.

  `Step` lists every way the search changes its state; the two guarded steps are
    * `enter`  (a node is entered: `incrementNodes`)       — only in a state with `stopSeen = false`,
    * `store`  (a transposition-table store)               — only in a state with `stopSeen = false`.
  `Trace` is the reflexive–transitive closure.  The master theorems `*_trace` show that every run of
  `quiesce`, `negamax`, `searchPosition`, `iterate`, `findBestMove` (every game, limit, fuel outcome) is
  such a trace, provided it starts in a state satisfying the monotone-oracle invariant `StopMono`
  (which `findBestMove` establishes by its reset).  Everything in Props/C07 and the store part of
  Props/C06 is then a short induction over traces.
-/
import Flounder.Lemmas.StopHoare

namespace Flounder.Stop
open Flounder Gen SearchState

/-! ### the monotone-oracle invariant and the primitive steps -/

theorem limitStop_poll {s : SearchState} (h : limitStop s = true) : limitStop s.shouldStop.2 = true := by
  rw [shouldStop_snd]
  unfold limitStop at h ⊢
  cases hl : s.limit with
  | none => rw [hl] at h; cases h
  | nodes n => rw [hl] at h; simpa using h
  | polls n =>
    rw [hl] at h
    simp only [ge_iff_le, decide_eq_true_eq] at h ⊢
    omega

theorem limitStop_enter {s : SearchState} (h : limitStop s = true) : limitStop s.incrementNodes = true := by
  unfold limitStop at h ⊢
  unfold incrementNodes
  cases hl : s.limit with
  | none => rw [hl] at h; cases h
  | nodes n =>
    rw [hl] at h
    simp only [ge_iff_le, decide_eq_true_eq] at h ⊢
    omega
  | polls n => rw [hl] at h; simpa using h

theorem StopMono.poll {s : SearchState} (h : StopMono s) : StopMono s.shouldStop.2 := by
  intro hs
  rw [shouldStop_fst]
  apply limitStop_poll
  rw [shouldStop_snd] at hs
  simp only [Bool.or_eq_true] at hs
  cases hs with
  | inl h1 => exact h h1
  | inr h1 => exact h1

theorem StopMono.enter {s : SearchState} (h : StopMono s) : StopMono s.incrementNodes := by
  intro hs
  rw [shouldStop_fst]
  exact limitStop_enter (h hs)

/-- `StopMono` only reads `limit`, `nodes`, `polls`, `stopSeen`. -/
theorem StopMono.congr {s t : SearchState} (h : StopMono s) (hl : t.limit = s.limit)
    (hn : t.nodes = s.nodes) (hp : t.polls = s.polls) (hs : t.stopSeen = s.stopSeen) : StopMono t := by
  unfold StopMono at h ⊢
  rw [shouldStop_fst] at h ⊢
  unfold limitStop at h ⊢
  rw [hl, hn, hp, hs]
  exact h

theorem StopMono.of_not_seen {s : SearchState} (h : s.stopSeen = false) : StopMono s := by
  intro hs; rw [h] at hs; cases hs

/-- `Hyp` for the standard guard `stopSeen = false`, from an invariant that implies `StopMono`. -/
theorem Hyp.ofMono {P : Type} {G : Game P} {S : P → Prop} {Q : P → Option Move → Prop}
    {Inv : SearchState → Prop}
    (closed_m : ∀ p m, S p → m ∈ G.moves p → S (G.play p m))
    (closed_q : ∀ p m, S p → m ∈ G.qmoves p → S (G.play p m))
    (q_none : ∀ p, Q p none)
    (q_move : ∀ p m, S p → m ∈ G.moves p → Q p (some m))
    (mono : ∀ s, Inv s → StopMono s)
    (poll : ∀ s, Inv s → Inv s.shouldStop.2)
    (enter : ∀ s, Inv s → s.stopSeen = false → Inv s.incrementNodes)
    (frame : ∀ s k h dh sh, Inv s →
      Inv { s with killers := k, history := h, deeperHits := dh, sameDepthHits := sh })
    (probe : ∀ s p e, Inv s → S p → s.tt.retrieve (G.hash p) = some e → Q p e.bestMove)
    (store : ∀ s p ev mv d b, Inv s → S p → s.stopSeen = false → Q p mv →
      Inv { s with tt := s.tt.store (G.hash p) ev mv d b }) :
    Hyp G S Q (fun s => s.stopSeen = false) Inv where
  closed_m := closed_m
  closed_q := closed_q
  q_none := q_none
  q_move := q_move
  gd_poll := fun s hI h => poll_false_stopSeen (mono s hI) h
  gd_enter := fun _ h => h
  gd_frame := fun _ _ _ h => h
  poll := poll
  enter := enter
  frame := frame
  probe := probe
  store := store

/-! ### steps and traces -/

/-- every way the search changes its state. -/
inductive Step : SearchState → SearchState → Prop
  /-- `timer.should_stop()` -/
  | poll (s : SearchState) : Step s s.shouldStop.2
  /-- a node (negamax or quiescence) is entered — only while no poll has returned true -/
  | enter (s : SearchState) : s.stopSeen = false → Step s s.incrementNodes
  /-- a transposition-table store — only while no poll has returned true -/
  | store (s : SearchState) (k : UInt64) (ev : Int) (mv : Option Move) (d : Nat) (b : Bounds) :
      s.stopSeen = false → Step s { s with tt := s.tt.store k ev mv d b }
  /-- killers, history, hit counters, repetition stack, info lines -/
  | frame (s : SearchState) (k : Array (Array (Option Move))) (h : Array Int) (dh sh : Nat)
      (rep : List UInt64) (info : List (Nat × Int × Nat × Option Move)) :
      Step s { s with killers := k, history := h, deeperHits := dh, sameDepthHits := sh,
                      rep := rep, info := info }

inductive Trace : SearchState → SearchState → Prop
  | refl (s : SearchState) : Trace s s
  | snoc {s t u : SearchState} : Trace s t → Step t u → Trace s u

theorem Trace.trans {s t u : SearchState} (h1 : Trace s t) (h2 : Trace t u) : Trace s u := by
  induction h2 with
  | refl => exact h1
  | snoc _ hstep ih => exact Trace.snoc ih hstep

theorem Step.stopMono {s t : SearchState} (h : Step s t) (hm : StopMono s) : StopMono t := by
  cases h with
  | poll => exact hm.poll
  | enter => exact hm.enter
  | store => exact hm.congr rfl rfl rfl rfl
  | frame => exact hm.congr rfl rfl rfl rfl

theorem Trace.stopMono {s t : SearchState} (h : Trace s t) (hm : StopMono s) : StopMono t := by
  induction h with
  | refl => exact hm
  | snoc _ hstep ih => exact hstep.stopMono ih

/-- the invariant pushed through the search: reachable from `s0` by guarded steps, oracle monotone. -/
def TraceInv (s0 s : SearchState) : Prop := StopMono s ∧ Trace s0 s

theorem traceHyp {P : Type} (G : Game P) (s0 : SearchState) :
    HypTop G (fun _ => True) (fun _ _ => True) (fun s => s.stopSeen = false) (TraceInv s0) where
  toHyp := Hyp.ofMono
    (fun _ _ _ _ => trivial) (fun _ _ _ _ => trivial) (fun _ => trivial) (fun _ _ _ _ => trivial)
    (fun _ h => h.1)
    (fun s h => ⟨h.1.poll, h.2.snoc (Step.poll s)⟩)
    (fun s h hs => ⟨h.1.enter, h.2.snoc (Step.enter s hs)⟩)
    (fun s k hi dh sh h => ⟨h.1.congr rfl rfl rfl rfl,
      h.2.snoc (Step.frame s k hi dh sh s.rep s.info)⟩)
    (fun _ _ _ _ _ _ => trivial)
    (fun s p ev mv d b h _ hs _ => ⟨h.1.congr rfl rfl rfl rfl,
      h.2.snoc (Step.store s (G.hash p) ev mv d b hs)⟩)
  rep := fun s r h => ⟨h.1.congr rfl rfl rfl rfl,
    h.2.snoc (Step.frame s s.killers s.history s.deeperHits s.sameDepthHits r s.info)⟩
  gd_rep := fun _ _ h => h
  info := fun s i h => ⟨h.1.congr rfl rfl rfl rfl,
    h.2.snoc (Step.frame s s.killers s.history s.deeperHits s.sameDepthHits s.rep i)⟩

section
variable {P : Type} (G : Game P)

theorem quiesce_trace (fuel : Nat) (p : P) (α β : Int) (s : SearchState)
    (hm : StopMono s) (hs : s.stopSeen = false) : Trace s (quiesce G fuel p α β s).2 :=
  (quiesce_inv (traceHyp G s).toHyp fuel p α β s trivial ⟨hm, Trace.refl s⟩ hs).2

theorem negamax_trace (qfuel depth : Nat) (p : P) (ply : Nat) (α β : Int) (s : SearchState)
    (hm : StopMono s) (hs : s.stopSeen = false) : Trace s (negamax G qfuel depth p ply α β s).2 :=
  (negamax_inv (traceHyp G s).toHyp qfuel depth p ply α β s trivial ⟨hm, Trace.refl s⟩ hs).1.2

theorem searchPosition_trace (qfuel : Nat) (p : P) (depth : Nat) (s : SearchState)
    (hm : StopMono s) (hs : s.stopSeen = false) : Trace s (searchPosition G qfuel p depth s).2 :=
  (searchPosition_inv (traceHyp G s) qfuel p depth s trivial ⟨hm, Trace.refl s⟩ hs).1.2

/-- `iterate` may be started in ANY state satisfying the monotone-oracle invariant (stopped or not). -/
theorem iterate_trace (qfuel : Nat) (p : P) (maxDepth n cur : Nat) (best : Int × Option Move)
    (s : SearchState) (hm : StopMono s) : Trace s (iterate G qfuel p maxDepth n cur best s).2 :=
  (iterate_inv (traceHyp G s) qfuel p trivial maxDepth n cur best s trivial ⟨hm, Trace.refl s⟩).1.2

@[simp] theorem resetState_stopSeen (limit : Limit) (s : SearchState) :
    (resetState limit s).stopSeen = false := rfl
@[simp] theorem resetState_nodesAfterStop (limit : Limit) (s : SearchState) :
    (resetState limit s).nodesAfterStop = 0 := rfl
@[simp] theorem resetState_nodes (limit : Limit) (s : SearchState) : (resetState limit s).nodes = 0 := rfl
@[simp] theorem resetState_polls (limit : Limit) (s : SearchState) : (resetState limit s).polls = 0 := rfl
@[simp] theorem resetState_limit (limit : Limit) (s : SearchState) :
    (resetState limit s).limit = limit := rfl
@[simp] theorem resetState_tt (limit : Limit) (s : SearchState) : (resetState limit s).tt = s.tt := rfl
@[simp] theorem resetState_rep (limit : Limit) (s : SearchState) : (resetState limit s).rep = s.rep := rfl

theorem resetState_stopMono (limit : Limit) (s : SearchState) : StopMono (resetState limit s) :=
  StopMono.of_not_seen rfl

/-- **master theorem**: the whole `findBestMove`, after its reset, is a trace of guarded steps. -/
theorem findBestMove_trace (qfuel : Nat) (p : P) (maxDepth : Nat) (limit : Limit) (s : SearchState) :
    Trace (resetState limit s) (findBestMove G qfuel p maxDepth limit s).2 := by
  rw [findBestMove_snd]
  exact iterate_trace G qfuel p maxDepth maxDepth 1 _ _ (resetState_stopMono limit s)

end

/-! ### what traces preserve -/

theorem Step.stopSeen_sticky {s t : SearchState} (h : Step s t) (hs : s.stopSeen = true) :
    t.stopSeen = true := by
  cases h with
  | poll => rw [shouldStop_snd]; simp [hs]
  | enter => exact hs
  | store => exact hs
  | frame => exact hs

theorem Trace.stopSeen_sticky {s t : SearchState} (h : Trace s t) (hs : s.stopSeen = true) :
    t.stopSeen = true := by
  induction h with
  | refl => exact hs
  | snoc _ hstep ih => exact hstep.stopSeen_sticky ih

theorem Step.limit_eq {s t : SearchState} (h : Step s t) : t.limit = s.limit := by
  cases h <;> rfl

theorem Trace.limit_eq {s t : SearchState} (h : Trace s t) : t.limit = s.limit := by
  induction h with
  | refl => rfl
  | snoc _ hstep ih => rw [hstep.limit_eq, ih]

theorem Step.nodes_le {s t : SearchState} (h : Step s t) : s.nodes ≤ t.nodes := by
  cases h with
  | poll => exact Nat.le_refl _
  | enter => exact Nat.le_succ _
  | store => exact Nat.le_refl _
  | frame => exact Nat.le_refl _

theorem Step.polls_le {s t : SearchState} (h : Step s t) : s.polls ≤ t.polls := by
  cases h with
  | poll => exact Nat.le_succ _
  | enter => exact Nat.le_refl _
  | store => exact Nat.le_refl _
  | frame => exact Nat.le_refl _

theorem Trace.nodes_le {s t : SearchState} (h : Trace s t) : s.nodes ≤ t.nodes := by
  induction h with
  | refl => exact Nat.le_refl _
  | snoc _ hstep ih => exact Nat.le_trans ih hstep.nodes_le

theorem Trace.polls_le {s t : SearchState} (h : Trace s t) : s.polls ≤ t.polls := by
  induction h with
  | refl => exact Nat.le_refl _
  | snoc _ hstep ih => exact Nat.le_trans ih hstep.polls_le

theorem Step.nodesAfterStop_eq {s t : SearchState} (h : Step s t) :
    t.nodesAfterStop = s.nodesAfterStop := by
  cases h with
  | poll => rfl
  | enter hs => simp [incrementNodes, hs]
  | store => rfl
  | frame => rfl

theorem Trace.nodesAfterStop_eq {s t : SearchState} (h : Trace s t) :
    t.nodesAfterStop = s.nodesAfterStop := by
  induction h with
  | refl => rfl
  | snoc _ hstep ih => rw [hstep.nodesAfterStop_eq, ih]

/-- after a poll has returned true: no node is entered and nothing is stored, ever. -/
theorem Step.frozen {s t : SearchState} (h : Step s t) (hs : s.stopSeen = true) :
    t.nodes = s.nodes ∧ t.tt = s.tt := by
  cases h with
  | poll => exact ⟨rfl, rfl⟩
  | enter h' => rw [hs] at h'; cases h'
  | store _ _ _ _ _ h' => rw [hs] at h'; cases h'
  | frame => exact ⟨rfl, rfl⟩

theorem Trace.frozen {s t : SearchState} (h : Trace s t) (hs : s.stopSeen = true) :
    t.nodes = s.nodes ∧ t.tt = s.tt := by
  induction h with
  | refl => exact ⟨rfl, rfl⟩
  | snoc h1 hstep ih =>
    obtain ⟨a, b⟩ := hstep.frozen (h1.stopSeen_sticky hs)
    exact ⟨a.trans ih.1, b.trans ih.2⟩

end Flounder.Stop
