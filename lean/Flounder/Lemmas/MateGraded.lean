/-
  C08 helpers, part 7: the hypothesis "no deeper record reused" (`deeperHits` unchanged) is
  satisfiable — it holds for EVERY run on a ranked game.

  A game is `PlyRanked` on `S` when every position of `S` has a rank and every move increases it by one
  (a game tree: no transpositions between different plies).  Then in iteration `cur` a node of rank
  `k` is searched with depth `cur - k`, every record for it has depth `≤ cur - k` (`GradedTT`), so no
  probe ever finds a deeper record: `findBestMove_deeperHits_ranked`.
-/
import Flounder.Lemmas.MateSpec

namespace Flounder.Search
open Flounder Gen

section graded
variable {P : Type} (G : Game P) (S : P → Prop) (rank : P → Nat)

/-- every move from a position of `S` increases the rank by one. -/
def PlyRanked : Prop := ∀ q m, S q → m ∈ G.moves q → rank (G.play q m) = rank q + 1

/-- every key-verified record for a position of `S` has `depth + rank ≤ cur`. -/
def GradedTT (cur : Nat) (t : TT) : Prop :=
  ∀ q, S q → ∀ e, t.retrieve (G.hash q) = some e → e.depth + rank q ≤ cur

variable {G S rank}

theorem gradedTT_mono {cur cur' : Nat} {t : TT} (h : GradedTT G S rank cur t) (hle : cur ≤ cur') :
    GradedTT G S rank cur' t := fun q hq e he => Nat.le_trans (h q hq e he) hle

theorem gradedTT_of_tt {cur : Nat} {t t' : TT} (h : GradedTT G S rank cur t) (e : t' = t) :
    GradedTT G S rank cur t' := by rw [e]; exact h

theorem gradedTT_empty (cur : Nat) : GradedTT G S rank cur ({} : TT) := by
  intro q _ e he
  rw [retrieve_of_get_none _ _ (tt_empty_get _)] at he
  cases he

theorem gradedTT_store (hinj : HashInj G S) {cur : Nat} {t : TT} (h : GradedTT G S rank cur t) (q : P)
    (hq : S q) (ev : Int) (mv : Option Move) (d : Nat) (b : Bounds) (hd : d + rank q ≤ cur) :
    GradedTT G S rank cur (t.store (G.hash q) ev mv d b) := by
  intro q' hq' e he
  rcases retrieve_store t (G.hash q) (G.hash q') ev mv d b with h1 | ⟨hk, h1⟩
  · rw [h1] at he; exact h q' hq' e he
  · rw [h1] at he
    cases he
    have : q' = q := hinj q' q hq' hq hk
    subst this
    exact hd

theorem probeTT_graded {cur : Nat} (s : SearchState) (q : P) (hq : S q) (depth : Nat) (a b : Int)
    (hd : depth + rank q = cur) (hG : GradedTT G S rank cur s.tt) :
    (probeTT G s q depth a b).2.2.tt = s.tt ∧ (probeTT G s q depth a b).2.2.deeperHits = s.deeperHits := by
  rcases probeTT_cases G s q depth a b with ⟨_, h2⟩ | ⟨e, he, _, _, _, h2⟩
  · rw [h2]; exact ⟨rfl, rfl⟩
  · rw [h2]
    have := hG q hq e he
    have hnd : ¬ e.depth > depth := by omega
    unfold counted
    rw [if_neg hnd]
    exact ⟨rfl, rfl⟩

theorem negamaxLoop_graded (hcl : Closed G S) (hrk : PlyRanked G S rank) (cur : Nat)
    (rec : P → Nat → Int → Int → SearchState → Option SearchResult × SearchState) (d : Nat)
    (hrec : ∀ q' ply a b s, S q' → d + rank q' = cur → GradedTT G S rank cur s.tt →
      GradedTT G S rank cur (rec q' ply a b s).2.tt ∧ (rec q' ply a b s).2.deeperHits = s.deeperHits)
    (q : P) (hq : S q) (hd : d + 1 + rank q = cur) (depth ply : Nat) (β : Int) :
    ∀ (rest : List Move) (acc : LoopAcc) (s : SearchState),
      (∀ m ∈ rest, m ∈ G.moves q) → GradedTT G S rank cur s.tt →
      GradedTT G S rank cur (negamaxLoop G rec q depth ply β rest acc s).2.tt ∧
        (negamaxLoop G rec q depth ply β rest acc s).2.deeperHits = s.deeperHits := by
  intro rest
  induction rest with
  | nil => intro acc s _ h; exact ⟨h, rfl⟩
  | cons mv rest ih =>
    intro acc s hmem h
    rw [negamaxLoop_cons]
    split
    · exact ⟨h, rfl⟩
    · have hmv := hmem mv List.mem_cons_self
      have h2 := hrec (G.play q mv) (ply + 1) (-β) (-acc.alpha) (polled s) (hcl q mv hq hmv)
        (by rw [hrk q mv hq hmv]; omega) h
      rcases hres : rec (G.play q mv) (ply + 1) (-β) (-acc.alpha) (polled s) with ⟨ro, s2⟩
      rw [hres] at h2
      simp only at h2
      have hd2 : s2.deeperHits = s.deeperHits := h2.2
      cases ro with
      | none => exact ⟨h2.1, hd2⟩
      | some r =>
        simp only
        split
        · have f := qframe_cut s2 mv ply depth
          exact ⟨gradedTT_of_tt h2.1 f.tt, by rw [f.deeper]; exact hd2⟩
        · obtain ⟨g1, g2⟩ := ih _ s2 (fun m hm => hmem m (List.mem_cons_of_mem _ hm)) h2.1
          exact ⟨g1, by rw [g2]; exact hd2⟩

/-- in a ranked game a node of rank `k` searched with depth `cur - k` never reuses a deeper record. -/
theorem negamax_graded (hcl : Closed G S) (hinj : HashInj G S) (hrk : PlyRanked G S rank) (cur qfuel : Nat) :
    ∀ (d : Nat) (q : P) (ply : Nat) (a b : Int) (s : SearchState),
      S q → d + rank q = cur → GradedTT G S rank cur s.tt →
      GradedTT G S rank cur (negamax G qfuel d q ply a b s).2.tt ∧
        (negamax G qfuel d q ply a b s).2.deeperHits = s.deeperHits := by
  intro d
  induction d with
  | zero =>
    intro q ply a b s hq hd h
    rw [negamax_zero]
    split
    · exact ⟨h, rfl⟩
    · have hp := probeTT_graded s.incrementNodes q hq 0 a b hd h
      rcases hpr : probeTT G s.incrementNodes q 0 a b with ⟨ro, mv, s1⟩
      rw [hpr] at hp
      simp only at hp
      have h1 : GradedTT G S rank cur s1.tt := gradedTT_of_tt h hp.1
      have hd1 : s1.deeperHits = s.deeperHits := hp.2
      cases ro with
      | none =>
        have f := leafResult_qframe G qfuel q a b s1
        exact ⟨gradedTT_of_tt h1 f.tt, by rw [f.deeper]; exact hd1⟩
      | some r => exact ⟨h1, hd1⟩
  | succ d ih =>
    intro q ply a b s hq hd h
    rw [negamax_succ]
    split
    · exact ⟨h, rfl⟩
    · have hp := probeTT_graded s.incrementNodes q hq (d + 1) a b hd h
      rcases hpr : probeTT G s.incrementNodes q (d + 1) a b with ⟨ro, mv, s1⟩
      rw [hpr] at hp
      simp only at hp
      have h1 : GradedTT G S rank cur s1.tt := gradedTT_of_tt h hp.1
      have hd1 : s1.deeperHits = s.deeperHits := hp.2
      cases ro with
      | some r => exact ⟨h1, hd1⟩
      | none =>
        simp only
        unfold innerResult
        split
        · split <;> exact ⟨h1, hd1⟩
        · rename_i m0 tl hm
          have hl := negamaxLoop_graded hcl hrk cur (negamax G qfuel d) d
            (fun q' ply a b s hq' hd' hg => ih q' ply a b s hq' hd' hg) q hq hd (d + 1) ply b
            (orderMoves G s1 q (G.moves q) mv ply)
            ⟨a, ⟨NEGATIVE_INFINITY, some ((orderMoves G s1 q (G.moves q) mv ply).headD m0)⟩⟩ s1
            (fun m hm' => (orderMoves_perm G s1 q (G.moves q) mv ply).mem_iff.1 hm') h1
          rcases hlr : negamaxLoop G (negamax G qfuel d) q (d + 1) ply b (orderMoves G s1 q (G.moves q) mv ply)
            ⟨a, ⟨NEGATIVE_INFINITY, some ((orderMoves G s1 q (G.moves q) mv ply).headD m0)⟩⟩ s1 with ⟨lo, s2⟩
          rw [hlr] at hl
          simp only at hl
          have hd2 : s2.deeperHits = s.deeperHits := by rw [hl.2]; exact hd1
          cases lo with
          | none => exact ⟨hl.1, hd2⟩
          | some acc =>
            simp only
            unfold finishNode
            split
            · exact ⟨hl.1, hd2⟩
            · exact ⟨gradedTT_store hinj hl.1 q hq _ _ _ _ (by omega), hd2⟩

theorem iterate_graded (hcl : Closed G S) (hinj : HashInj G S) (hrk : PlyRanked G S rank) (qfuel : Nat)
    (p : P) (hp : S p) (hr0 : rank p = 0) (D : Nat) :
    ∀ (n cur : Nat) (best : Int × Option Move) (s : SearchState), GradedTT G S rank cur s.tt →
      (iterate G qfuel p D n cur best s).2.deeperHits = s.deeperHits := by
  intro n
  induction n with
  | zero => intro cur best s _; rfl
  | succ n ih =>
    intro cur best s h
    rw [iterate_succ]
    split
    · rfl
    · split
      · rfl
      · rw [searchPosition_eq]
        have hN := negamax_graded hcl hinj hrk cur qfuel cur p 0 NEGATIVE_INFINITY INFINITY
          (pushed G p (polled s)) hp (by omega) h
        rcases hn : negamax G qfuel cur p 0 NEGATIVE_INFINITY INFINITY (pushed G p (polled s)) with ⟨ro, s2⟩
        rw [hn] at hN
        simp only at hN
        have hd2 : s2.deeperHits = s.deeperHits := hN.2
        cases ro with
        | none => exact hd2
        | some r =>
          simp only
          split
          · rw [ih]
            · exact hd2
            · exact gradedTT_store hinj (gradedTT_mono hN.1 (Nat.le_succ cur)) p hp _ _ _ _ (by omega)
          · rw [ih]
            · exact hd2
            · exact gradedTT_mono hN.1 (Nat.le_succ cur)

/-- **on a ranked game no run from a fresh engine ever reuses a deeper record.** -/
theorem findBestMove_deeperHits_ranked (hcl : Closed G S) (hinj : HashInj G S) (hrk : PlyRanked G S rank)
    (qfuel : Nat) (p : P) (hp : S p) (hr0 : rank p = 0) (D : Nat) (limit : Limit) :
    (findBestMove G qfuel p D limit {}).2.deeperHits = 0 := by
  rw [findBestMove_snd, iterate_graded hcl hinj hrk qfuel p hp hr0 D D 1 _ (started limit {})
    (gradedTT_empty 1)]
  rfl

end graded
end Flounder.Search
