/-
  C06 helpers: the instrumentation fields `stopSeen` / `nodesAfterStop` are write-only.

  `stopSeen` ("some poll has returned true") and `nodesAfterStop` are bookkeeping mirrored by the test hook;
  no decision of the search reads them.  Two runs of `negamax` from states that differ only in these two
  fields take the same branch everywhere: equal results, final states that again differ only in these two
  fields (`negamax_seen_irrelevant`).  This is what allows `negamax_preserves_ttsound` (Props/C06Full.lean)
  to be stated for EVERY start state: the proof needs the monotone-oracle invariant `Stop.StopMono`, which
  every state with `stopSeen = false` satisfies, and the run does not depend on the flag.
-/
import Flounder.Lemmas.KeySim

namespace Flounder.Search
open Flounder Gen

/-- `s` with other instrumentation fields. -/
def withSN (s : SearchState) (b : Bool) (n : Nat) : SearchState := { s with stopSeen := b, nodesAfterStop := n }

theorem withSN_self (s : SearchState) : withSN s s.stopSeen s.nodesAfterStop = s := rfl
theorem withSN_withSN (s : SearchState) (b b' : Bool) (n n' : Nat) :
    withSN (withSN s b n) b' n' = withSN s b' n' := rfl

/-- `t` is `s` up to `stopSeen` and `nodesAfterStop`. -/
def SameButSeen (s t : SearchState) : Prop := ∃ b n, t = withSN s b n

/-- same answer, final states equal up to the instrumentation. -/
def SameRes {α : Type} (x y : α × SearchState) : Prop := y.1 = x.1 ∧ SameButSeen x.2 y.2

namespace SameButSeen
variable {s t : SearchState}

theorem refl (s : SearchState) : SameButSeen s s := ⟨s.stopSeen, s.nodesAfterStop, rfl⟩

theorem symm (h : SameButSeen s t) : SameButSeen t s := by
  obtain ⟨b, n, rfl⟩ := h
  exact ⟨s.stopSeen, s.nodesAfterStop, rfl⟩

/-- an operation that commutes with `withSN` preserves the relation. -/
theorem map (h : SameButSeen s t) (f : SearchState → SearchState)
    (hf : ∀ s b n, ∃ b' n', f (withSN s b n) = withSN (f s) b' n') : SameButSeen (f s) (f t) := by
  obtain ⟨b, n, rfl⟩ := h
  exact hf s b n

/-- an observation that does not read the two fields gives the same answer. -/
theorem obs {α : Type} (h : SameButSeen s t) (g : SearchState → α)
    (hg : ∀ s b n, g (withSN s b n) = g s) : g t = g s := by
  obtain ⟨b, n, rfl⟩ := h
  exact hg s b n

theorem stopFlag (h : SameButSeen s t) : stopFlag t = stopFlag s := h.obs Search.stopFlag (fun _ _ _ => rfl)
theorem tt (h : SameButSeen s t) : t.tt = s.tt := h.obs (·.tt) (fun _ _ _ => rfl)
theorem rep (h : SameButSeen s t) : t.rep = s.rep := h.obs (·.rep) (fun _ _ _ => rfl)
theorem deeperHits (h : SameButSeen s t) : t.deeperHits = s.deeperHits :=
  h.obs (·.deeperHits) (fun _ _ _ => rfl)
theorem killers (h : SameButSeen s t) : t.killers = s.killers := h.obs (·.killers) (fun _ _ _ => rfl)
theorem history (h : SameButSeen s t) : t.history = s.history := h.obs (·.history) (fun _ _ _ => rfl)
theorem isRepetition (h : SameButSeen s t) (k : UInt64) : t.isRepetition k = s.isRepetition k :=
  h.obs (·.isRepetition k) (fun _ _ _ => rfl)

theorem polled (h : SameButSeen s t) : SameButSeen (polled s) (polled t) :=
  h.map Search.polled (fun s b _ => ⟨b || Search.stopFlag s, _, rfl⟩)

theorem incrementNodes (h : SameButSeen s t) : SameButSeen s.incrementNodes t.incrementNodes :=
  h.map SearchState.incrementNodes (fun _ b n => ⟨b, if b then n + 1 else n, rfl⟩)

theorem store (h : SameButSeen s t) (k : UInt64) (ev : Int) (mv : Option Move) (d : Nat) (b : Bounds) :
    SameButSeen { s with tt := s.tt.store k ev mv d b } { t with tt := t.tt.store k ev mv d b } := by
  obtain ⟨b', n, rfl⟩ := h
  exact ⟨b', n, rfl⟩

theorem recordCutoff (h : SameButSeen s t) (mv : Move) (d : Nat) :
    SameButSeen (s.recordCutoff mv d) (t.recordCutoff mv d) :=
  h.map (fun s => s.recordCutoff mv d) (fun _ b n => ⟨b, n, rfl⟩)

end SameButSeen

theorem storeKiller_withSN (s : SearchState) (b : Bool) (n : Nat) (mv : Move) (ply : Nat) :
    (withSN s b n).storeKiller mv ply = withSN (s.storeKiller mv ply) b n := by
  unfold SearchState.storeKiller
  split
  · dsimp only
    split
    · rename_i h
      have h' : ((s.killers.getD ply #[]).getD 0 none == some mv) = true := h
      rw [if_pos h']
    · rename_i h
      have h' : ¬ ((s.killers.getD ply #[]).getD 0 none == some mv) = true := h
      rw [if_neg h']
      rfl
  · rfl

theorem SameButSeen.storeKiller {s t : SearchState} (h : SameButSeen s t) (mv : Move) (ply : Nat) :
    SameButSeen (s.storeKiller mv ply) (t.storeKiller mv ply) :=
  h.map (fun s => s.storeKiller mv ply) (fun s b n => ⟨b, n, storeKiller_withSN s b n mv ply⟩)

section
variable {P : Type} (G : Game P)

theorem SameButSeen.orderMoves {s t : SearchState} (h : SameButSeen s t) (p : P) (ms : List Move)
    (tm : Option Move) (ply : Nat) : orderMoves G t p ms tm ply = orderMoves G s p ms tm ply :=
  KeySim.orderMoves_congr (KeySim.SameRules.refl G) h.killers h.history p ms tm ply

/-! ### the probe -/

theorem probeCore_withSN (s : SearchState) (b : Bool) (n : Nat)
    (o : Option (Int × Option Move × Nat × Bounds)) (depth : Nat) (α β : Int) :
    KeySim.probeCore (withSN s b n) o depth α β =
      ((KeySim.probeCore s o depth α β).1, (KeySim.probeCore s o depth α β).2.1,
        withSN (KeySim.probeCore s o depth α β).2.2 b n) := by
  have hcount : ∀ dep : Nat,
      (if dep > depth then { withSN s b n with deeperHits := (withSN s b n).deeperHits + 1 }
        else { withSN s b n with sameDepthHits := (withSN s b n).sameDepthHits + 1 }) =
      withSN (if dep > depth then { s with deeperHits := s.deeperHits + 1 }
        else { s with sameDepthHits := s.sameDepthHits + 1 }) b n := by
    intro dep; split <;> rfl
  unfold KeySim.probeCore
  cases o with
  | none => rfl
  | some e =>
    obtain ⟨ev, bm, dep, bnd⟩ := e
    simp only
    by_cases hd : dep < depth
    · rw [if_pos hd, if_pos hd]
    · rw [if_neg hd, if_neg hd]
      cases bnd with
      | exact => simp only; rw [hcount]
      | lower =>
        simp only
        by_cases hc : max α ev ≥ β
        · rw [if_pos hc, if_pos hc, hcount]
        · rw [if_neg hc, if_neg hc]
      | upper =>
        simp only
        by_cases hc : α ≥ min β ev
        · rw [if_pos hc, if_pos hc, hcount]
        · rw [if_neg hc, if_neg hc]

theorem probeTT_seen {s t : SearchState} (h : SameButSeen s t) (p : P) (depth : Nat) (α β : Int) :
    (probeTT G t p depth α β).1 = (probeTT G s p depth α β).1 ∧
    (probeTT G t p depth α β).2.1 = (probeTT G s p depth α β).2.1 ∧
    SameButSeen (probeTT G s p depth α β).2.2 (probeTT G t p depth α β).2.2 := by
  obtain ⟨b, n, rfl⟩ := h
  rw [KeySim.probeTT_eq_core, KeySim.probeTT_eq_core]
  have e : (withSN s b n).tt = s.tt := rfl
  rw [e, probeCore_withSN]
  exact ⟨rfl, rfl, b, n, rfl⟩

/-! ### quiescence -/

theorem quiesceLoop_seen (rec : P → Int → Int → SearchState → Option Int × SearchState)
    (hrec : ∀ q a b s t, SameButSeen s t → SameRes (rec q a b s) (rec q a b t)) (p : P) (β : Int) :
    ∀ (ms : List Move) (α : Int) (s t : SearchState), SameButSeen s t →
      SameRes (quiesceLoop G rec p β ms α s) (quiesceLoop G rec p β ms α t) := by
  intro ms
  induction ms with
  | nil => intro α s t h; exact ⟨rfl, h⟩
  | cons mv rest ih =>
    intro α s t h
    rw [quiesceLoop_cons, quiesceLoop_cons, h.stopFlag]
    by_cases hs : stopFlag s = true
    · rw [if_pos hs, if_pos hs]; exact ⟨rfl, h.polled⟩
    · rw [if_neg hs, if_neg hs]
      have hr := hrec (G.play p mv) (-β) (-α) _ _ h.polled
      rcases e₁ : rec (G.play p mv) (-β) (-α) (polled s) with ⟨ro₁, u₁⟩
      rcases e₂ : rec (G.play p mv) (-β) (-α) (polled t) with ⟨ro₂, u₂⟩
      rw [e₁, e₂] at hr
      obtain ⟨hr1, hr2⟩ := hr
      simp only at hr1 hr2
      subst hr1
      cases ro₂ with
      | none => exact ⟨rfl, hr2⟩
      | some v =>
        simp only
        by_cases hc : -v ≥ β
        · rw [if_pos hc, if_pos hc]; exact ⟨rfl, hr2⟩
        · rw [if_neg hc, if_neg hc]; exact ih _ _ _ hr2

theorem quiesce_seen (fuel : Nat) : ∀ (p : P) (α β : Int) (s t : SearchState), SameButSeen s t →
    SameRes (quiesce G fuel p α β s) (quiesce G fuel p α β t) := by
  induction fuel with
  | zero => intro p α β s t h; exact ⟨rfl, h⟩
  | succ n ih =>
    intro p α β s t h
    rw [quiesce_succ, quiesce_succ]
    by_cases h1 : ((orderCaptures G p (qList G p)).isEmpty && G.inCheck p) = true
    · rw [if_pos h1, if_pos h1]; exact ⟨rfl, h.incrementNodes⟩
    · rw [if_neg h1, if_neg h1]
      by_cases h2 : G.eval p ≥ β
      · rw [if_pos h2, if_pos h2]; exact ⟨rfl, h.incrementNodes⟩
      · rw [if_neg h2, if_neg h2]
        exact quiesceLoop_seen G _ ih p β _ _ _ _ h.incrementNodes

theorem leafResult_seen (qfuel : Nat) (p : P) (α β : Int) {s t : SearchState} (h : SameButSeen s t) :
    SameRes (leafResult G qfuel p α β s) (leafResult G qfuel p α β t) := by
  unfold leafResult
  have hq := quiesce_seen G qfuel p α β s t h
  rcases e₁ : quiesce G qfuel p α β s with ⟨ro₁, u₁⟩
  rcases e₂ : quiesce G qfuel p α β t with ⟨ro₂, u₂⟩
  rw [e₁, e₂] at hq
  obtain ⟨hq1, hq2⟩ := hq
  simp only at hq1 hq2
  subst hq1
  cases ro₂ with
  | none => exact ⟨rfl, hq2⟩
  | some v => exact ⟨rfl, hq2⟩

/-! ### negamax -/

theorem negamaxLoop_seen (rec : P → Nat → Int → Int → SearchState → Option SearchResult × SearchState)
    (hrec : ∀ q ply a b s t, SameButSeen s t → SameRes (rec q ply a b s) (rec q ply a b t))
    (p : P) (depth ply : Nat) (β : Int) :
    ∀ (ms : List Move) (acc : LoopAcc) (s t : SearchState), SameButSeen s t →
      SameRes (negamaxLoop G rec p depth ply β ms acc s) (negamaxLoop G rec p depth ply β ms acc t) := by
  intro ms
  induction ms with
  | nil => intro acc s t h; exact ⟨rfl, h⟩
  | cons mv rest ih =>
    intro acc s t h
    rw [negamaxLoop_cons, negamaxLoop_cons, h.stopFlag]
    by_cases hs : stopFlag s = true
    · rw [if_pos hs, if_pos hs]; exact ⟨rfl, h.polled⟩
    · rw [if_neg hs, if_neg hs]
      have hr := hrec (G.play p mv) (ply + 1) (-β) (-acc.alpha) _ _ h.polled
      rcases e₁ : rec (G.play p mv) (ply + 1) (-β) (-acc.alpha) (polled s) with ⟨ro₁, u₁⟩
      rcases e₂ : rec (G.play p mv) (ply + 1) (-β) (-acc.alpha) (polled t) with ⟨ro₂, u₂⟩
      rw [e₁, e₂] at hr
      obtain ⟨hr1, hr2⟩ := hr
      simp only at hr1 hr2
      subst hr1
      cases ro₂ with
      | none => exact ⟨rfl, hr2⟩
      | some r =>
        simp only
        by_cases hc : max acc.alpha (-r.score) ≥ β
        · rw [if_pos hc, if_pos hc]
          refine ⟨rfl, ?_⟩
          simp only
          by_cases hq : mv.kind = .quiet
          · rw [if_pos hq, if_pos hq]; exact (hr2.storeKiller mv ply).recordCutoff mv depth
          · rw [if_neg hq, if_neg hq]; exact hr2
        · rw [if_neg hc, if_neg hc]
          exact ih _ _ _ hr2

theorem finishNode_seen (p : P) (d1 : Nat) (α β : Int) (acc : LoopAcc) {s t : SearchState}
    (h : SameButSeen s t) : SameRes (finishNode G p d1 α β acc s) (finishNode G p d1 α β acc t) := by
  unfold finishNode
  rw [h.stopFlag]
  by_cases hs : stopFlag s = true
  · rw [if_pos hs, if_pos hs]; exact ⟨rfl, h.polled⟩
  · rw [if_neg hs, if_neg hs]
    exact ⟨rfl, h.polled.store _ _ _ _ _⟩

theorem innerResult_seen (rec : P → Nat → Int → Int → SearchState → Option SearchResult × SearchState)
    (hrec : ∀ q ply a b s t, SameButSeen s t → SameRes (rec q ply a b s) (rec q ply a b t))
    (d : Nat) (p : P) (ply : Nat) (α β : Int) (ttMove : Option Move) {s t : SearchState}
    (h : SameButSeen s t) :
    SameRes (innerResult G rec d p ply α β ttMove s) (innerResult G rec d p ply α β ttMove t) := by
  cases hm : G.moves p with
  | nil =>
    rw [innerResult_nil G _ _ _ _ _ _ _ _ hm, innerResult_nil G _ _ _ _ _ _ _ _ hm]
    by_cases hc : G.inCheck p = true
    · rw [if_pos hc, if_pos hc]; exact ⟨rfl, h⟩
    · rw [if_neg hc, if_neg hc]; exact ⟨rfl, h⟩
  | cons m0 tl =>
    rw [innerResult_cons G _ _ _ _ _ _ _ _ m0 tl hm, innerResult_cons G _ _ _ _ _ _ _ _ m0 tl hm,
      h.orderMoves G p]
    have hl := negamaxLoop_seen G rec hrec p (d + 1) ply β (orderMoves G s p (G.moves p) ttMove ply)
      ⟨α, ⟨NEGATIVE_INFINITY, some ((orderMoves G s p (G.moves p) ttMove ply).headD m0)⟩⟩ s t h
    rcases e₁ : negamaxLoop G rec p (d + 1) ply β (orderMoves G s p (G.moves p) ttMove ply)
      ⟨α, ⟨NEGATIVE_INFINITY, some ((orderMoves G s p (G.moves p) ttMove ply).headD m0)⟩⟩ s with ⟨ro₁, u₁⟩
    rcases e₂ : negamaxLoop G rec p (d + 1) ply β (orderMoves G s p (G.moves p) ttMove ply)
      ⟨α, ⟨NEGATIVE_INFINITY, some ((orderMoves G s p (G.moves p) ttMove ply).headD m0)⟩⟩ t with ⟨ro₂, u₂⟩
    rw [e₁, e₂] at hl
    obtain ⟨hl1, hl2⟩ := hl
    simp only at hl1 hl2
    subst hl1
    cases ro₂ with
    | none => exact ⟨rfl, hl2⟩
    | some acc => exact finishNode_seen G p (d + 1) α β acc hl2

/-- **the search does not read its instrumentation**: two runs of `negamax` from states that differ only in
    `stopSeen` / `nodesAfterStop` return the same result and end in states that differ only there. -/
theorem negamax_seen (qfuel : Nat) : ∀ (d : Nat) (p : P) (ply : Nat) (α β : Int) (s t : SearchState),
    SameButSeen s t → SameRes (negamax G qfuel d p ply α β s) (negamax G qfuel d p ply α β t) := by
  intro d
  induction d with
  | zero =>
    intro p ply α β s t h
    rw [negamax_zero, negamax_zero, h.incrementNodes.isRepetition]
    by_cases hcond : (decide (ply > 0) && s.incrementNodes.isRepetition (G.hash p)) = true
    · rw [if_pos hcond, if_pos hcond]; exact ⟨rfl, h.incrementNodes⟩
    · rw [if_neg hcond, if_neg hcond]
      have hpr := probeTT_seen G h.incrementNodes p 0 α β
      rcases e₁ : probeTT G s.incrementNodes p 0 α β with ⟨c₁, m₁, u₁⟩
      rcases e₂ : probeTT G t.incrementNodes p 0 α β with ⟨c₂, m₂, u₂⟩
      rw [e₁, e₂] at hpr
      obtain ⟨hc1, hm1, hs1⟩ := hpr
      simp only at hc1 hm1 hs1
      subst hc1 hm1
      cases c₂ with
      | some r => exact ⟨rfl, hs1⟩
      | none => exact leafResult_seen G qfuel p α β hs1
  | succ d ih =>
    intro p ply α β s t h
    rw [negamax_succ, negamax_succ, h.incrementNodes.isRepetition]
    by_cases hcond : (decide (ply > 0) && s.incrementNodes.isRepetition (G.hash p)) = true
    · rw [if_pos hcond, if_pos hcond]; exact ⟨rfl, h.incrementNodes⟩
    · rw [if_neg hcond, if_neg hcond]
      have hpr := probeTT_seen G h.incrementNodes p (d + 1) α β
      rcases e₁ : probeTT G s.incrementNodes p (d + 1) α β with ⟨c₁, m₁, u₁⟩
      rcases e₂ : probeTT G t.incrementNodes p (d + 1) α β with ⟨c₂, m₂, u₂⟩
      rw [e₁, e₂] at hpr
      obtain ⟨hc1, hm1, hs1⟩ := hpr
      simp only at hc1 hm1 hs1
      subst hc1 hm1
      cases c₂ with
      | some r => exact ⟨rfl, hs1⟩
      | none =>
        exact innerResult_seen G (negamax G qfuel d) (fun q pl a b u v hu => ih q pl a b u v hu) d p ply
          α β m₂ hs1

/-- the form used by `negamax_preserves_ttsound`: clearing the flag before the run changes neither the
    result nor the table nor the reuse counter. -/
theorem negamax_seen_irrelevant (qfuel d : Nat) (p : P) (ply : Nat) (α β : Int) (s : SearchState) :
    (negamax G qfuel d p ply α β s).1 = (negamax G qfuel d p ply α β (withSN s false s.nodesAfterStop)).1 ∧
    (negamax G qfuel d p ply α β s).2.tt = (negamax G qfuel d p ply α β (withSN s false s.nodesAfterStop)).2.tt ∧
    (negamax G qfuel d p ply α β s).2.deeperHits =
      (negamax G qfuel d p ply α β (withSN s false s.nodesAfterStop)).2.deeperHits ∧
    (negamax G qfuel d p ply α β s).2.rep = (negamax G qfuel d p ply α β (withSN s false s.nodesAfterStop)).2.rep := by
  have h : SameButSeen (withSN s false s.nodesAfterStop) s := ⟨s.stopSeen, s.nodesAfterStop, rfl⟩
  obtain ⟨h1, h2⟩ := negamax_seen G qfuel d p ply α β _ _ h
  exact ⟨h1, h2.tt, h2.deeperHits, h2.rep⟩

end
end Flounder.Search
