/-
  C01, legality filter (layer F3): the engine's test for ordinary non-king moves (`is_legal_non_king_move`
  after the EnPassant/Castle dispatch, with its double-check guard) decides "the king is not attacked after
  the move" — on ANY consistent board with one king of the mover (the en-passant test reuses it on the
  board without the victim).
-/
import Flounder.Lemmas.FilterBits

namespace Flounder.Spec.NonKing
open Flounder Flounder.MoveGenerator

theorem isLegalOrdinary_eq (g : MoveGenerator) (mv : Move) (chk pin : UInt64) (k : Nat) :
    isLegalOrdinary g mv chk pin k =
      if countOnes chk == 1 then
        (if mv.dst == trailingZeros chk then !hasSq pin mv.src
         else !hasSq pin mv.src && hasSq (g.lookup.between (trailingZeros chk) k true) mv.dst)
      else if hasSq pin mv.src then hasSq (g.lookup.between mv.dst mv.src false) k else true := rfl

theorem bool_eq_not_of_iff {x y : Bool} (h : y = false ↔ x = true) : x = !y := by
  cases x <;> cases y <;> simp_all

/-- **the core lemma**: double-check guard + ordinary test = king safe afterwards. -/
theorem ordinary_ok {g : MoveGenerator} (hl : LookupExact g.lookup) (hAtt : AttacksToSpec g)
    {b : Board} {k : Nat} (h : KingCtx b k) {mv : Move} {bd' : Nat → Option Man}
    (hctx : MoveCtx (absBoard b) bd' b.active k mv.src mv.dst)
    (hpath : aligned mv.src mv.dst = true → pathClear (absBoard b) mv.src mv.dst = true) :
    (if countOnes (g.attacksTo b k) > 1 then false
     else isLegalOrdinary g mv (g.attacksTo b k) (g.getPinnedPieces b k) k) =
      !attacked bd' b.active.other k := by
  obtain ⟨pc, hsrc⟩ := hctx.src
  have hchk : ∀ a, a < 64 → (hasSq (g.attacksTo b k) a = true ↔ ∃ p, hctx.Chk a p) :=
    fun a ha => checkers_iff hAtt h ha
  have hpin : hasSq (g.getPinnedPieces b k) mv.src = true ↔ ∃ a, a < 64 ∧ ∃ p, hctx.Pnr a p :=
    pinned_iff hl h hctx.hs hsrc
  by_cases h2 : countOnes (g.attacksTo b k) > 1
  · -- double check
    rw [if_pos h2]
    obtain ⟨a, a', ha, ha', hne, hb, hb'⟩ := countOnes_two h2
    obtain ⟨p, c1⟩ := (hchk a ha).1 hb
    obtain ⟨p', c2⟩ := (hchk a' ha').1 hb'
    rw [hctx.attacked_of_two_chk ha ha' hne c1 c2]
    rfl
  · rw [if_neg h2, isLegalOrdinary_eq]
    by_cases h1 : countOnes (g.attacksTo b k) = 1
    · -- single check
      obtain ⟨a, ha, hb, hu, htz⟩ := countOnes_one h1
      obtain ⟨p, c1⟩ := (hchk a ha).1 hb
      have huniq : ∀ a' p', a' < 64 → hctx.Chk a' p' → a' = a :=
        fun a' p' ha' c' => hu a' ha' ((hchk a' ha').2 ⟨p', c'⟩)
      rw [h1, htz]
      simp only [beq_self_eq_true, if_true]
      cases hp : hasSq (g.getPinnedPieces b k) mv.src
      · -- not pinned
        have hnp : ∀ a' p', a' < 64 → ¬ hctx.Pnr a' p' := by
          intro a' p' ha' c'
          have := hpin.2 ⟨a', ha', p', c'⟩
          rw [hp] at this; cases this
        apply bool_eq_not_of_iff
        rw [hctx.safe_one_chk ha c1 huniq hnp, hl.segment a k mv.dst ha h.hk hctx.hd]
        by_cases e : mv.dst = a
        · simp [e]
        · simp [e]
      · -- pinned
        obtain ⟨a', ha', p', c2⟩ := hpin.1 hp
        rw [hctx.attacked_of_chk_pnr ha ha' c1 c2]
        simp
    · -- no check
      have h0 : countOnes (g.attacksTo b k) = 0 := by omega
      have hnc : ∀ a' p', a' < 64 → ¬ hctx.Chk a' p' := by
        intro a' p' ha' c'
        have := (hchk a' ha').2 ⟨p', c'⟩
        rw [(countOnes_eq_zero_iff _).1 h0 a' ha'] at this
        cases this
      rw [h0]
      simp only [show ((0 : Nat) == 1) = false from rfl, Bool.false_eq_true, if_false]
      cases hp : hasSq (g.getPinnedPieces b k) mv.src
      · -- not pinned
        have hnp : ∀ a' p', a' < 64 → ¬ hctx.Pnr a' p' := by
          intro a' p' ha' c'
          have := hpin.2 ⟨a', ha', p', c'⟩
          rw [hp] at this; cases this
        rw [hctx.safe_of_none hnc hnp]
        rfl
      · -- pinned
        obtain ⟨a', ha', p', c2⟩ := hpin.1 hp
        simp only [if_true]
        apply bool_eq_not_of_iff
        rw [hctx.safe_pinned ha' c2 hnc hpath, hl.line mv.dst mv.src k hctx.hd hctx.hs h.hk]

end Flounder.Spec.NonKing
