/-
  A generic invariant-propagation ("Hoare") theorem for the search model of Model/Search.lean.

  `Hyp G S Q Gd Inv` lists what an invariant `Inv` on search states must satisfy with respect to the PRIMITIVE
  steps of the search (a poll, a node entry, a counter/killer/history update, a TT probe, a TT store).  The
  guarded steps carry the guard the search actually establishes:
    * a node is entered only in a state with `stopSeen = false`;
    * a TT store is executed only in a state with `stopSeen = false`, for a position in `S`, with a move
      satisfying `Q`.
  The theorems below push such an invariant through `quiesce`, `negamax`, `searchPosition`, `iterate`
  and `findBestMove`, for every game, every limit, every fuel outcome.

  Two forms.  `HypR` / `HypTopR` and the `*_inv_ranked` theorems are stated for a depth-ranked family
  `S : Nat → P → Prop` (Lemmas/Ranked.lean): a `negamax` node of remaining depth `d` lies in `S d`, the
  table steps (probe, store) are guarded by `Ranked.U S p` only, and quiescence needs NO membership at all
  (it never probes or stores).  `Hyp` / `HypTop` and the un-suffixed theorems are the older closed-set
  form (`S` closed under `moves` and `qmoves`); they are corollaries for the constant family.
-/
import Flounder.Model.Search
import Flounder.Lemmas.Ranked

namespace Flounder.Stop
open Flounder Gen SearchState

/-- what the deadline oracle answers in state `s` (the first component of `shouldStop`). -/
def limitStop (s : SearchState) : Bool :=
  match s.limit with
  | .none => false
  | .nodes n => decide (s.nodes ≥ n)
  | .polls n => decide (s.polls ≥ n)

theorem shouldStop_fst (s : SearchState) : s.shouldStop.1 = limitStop s := rfl

theorem shouldStop_snd (s : SearchState) :
    s.shouldStop.2 = { s with polls := s.polls + 1, stopSeen := s.stopSeen || limitStop s } := rfl

/-- monotone oracle, as a state invariant: once some poll has returned true, a poll now returns true. -/
def StopMono (s : SearchState) : Prop := s.stopSeen = true → s.shouldStop.1 = true

/-- requirements on an invariant `Inv` w.r.t. the primitive steps of the search.  `Gd` is the guard known
    at node entries and TT stores; the search establishes it after every poll that answered `false`
    (`gd_poll`).  Standard choices: `Gd s := s.stopSeen = false` (see `Hyp.ofMono`) or `Gd s := True`. -/
structure Hyp {P : Type} (G : Game P) (S : P → Prop) (Q : P → Option Move → Prop)
    (Gd : SearchState → Prop) (Inv : SearchState → Prop) : Prop where
  closed_m : ∀ p m, S p → m ∈ G.moves p → S (G.play p m)
  closed_q : ∀ p m, S p → m ∈ G.qmoves p → S (G.play p m)
  q_none : ∀ p, Q p none
  q_move : ∀ p m, S p → m ∈ G.moves p → Q p (some m)
  gd_poll : ∀ s, Inv s → s.shouldStop.1 = false → Gd s.shouldStop.2
  gd_enter : ∀ s, Gd s → Gd s.incrementNodes
  gd_frame : ∀ s dh sh, Gd s → Gd { s with deeperHits := dh, sameDepthHits := sh }
  poll : ∀ s, Inv s → Inv s.shouldStop.2
  enter : ∀ s, Inv s → Gd s → Inv s.incrementNodes
  frame : ∀ s k h dh sh, Inv s →
    Inv { s with killers := k, history := h, deeperHits := dh, sameDepthHits := sh }
  probe : ∀ s p e, Inv s → S p → s.tt.retrieve (G.hash p) = some e → Q p e.bestMove
  store : ∀ s p ev mv d b, Inv s → S p → Gd s → Q p mv →
    Inv { s with tt := s.tt.store (G.hash p) ev mv d b }

/-- ranked form of `Hyp`: `S d` = positions that may be a `negamax` node of remaining depth `d`; the table
    steps are guarded by membership in `Ranked.U S = ⋃ d, S d`; nothing is asked about quiescence moves. -/
structure HypR {P : Type} (G : Game P) (S : Nat → P → Prop) (Q : P → Option Move → Prop)
    (Gd : SearchState → Prop) (Inv : SearchState → Prop) : Prop where
  ranked : Search.Ranked G S
  q_none : ∀ p, Q p none
  q_move : ∀ p m, Search.Ranked.U S p → m ∈ G.moves p → Q p (some m)
  gd_poll : ∀ s, Inv s → s.shouldStop.1 = false → Gd s.shouldStop.2
  gd_enter : ∀ s, Gd s → Gd s.incrementNodes
  gd_frame : ∀ s dh sh, Gd s → Gd { s with deeperHits := dh, sameDepthHits := sh }
  poll : ∀ s, Inv s → Inv s.shouldStop.2
  enter : ∀ s, Inv s → Gd s → Inv s.incrementNodes
  frame : ∀ s k h dh sh, Inv s →
    Inv { s with killers := k, history := h, deeperHits := dh, sameDepthHits := sh }
  probe : ∀ s p e, Inv s → Search.Ranked.U S p → s.tt.retrieve (G.hash p) = some e → Q p e.bestMove
  store : ∀ s p ev mv d b, Inv s → Search.Ranked.U S p → Gd s → Q p mv →
    Inv { s with tt := s.tt.store (G.hash p) ev mv d b }

/-- a closed-set `Hyp` is a `HypR` for the constant family (`closed_q` is not needed). -/
theorem Hyp.toR {P : Type} {G : Game P} {S : P → Prop} {Q : P → Option Move → Prop}
    {Gd Inv : SearchState → Prop} (H : Hyp G S Q Gd Inv) : HypR G (fun _ => S) Q Gd Inv where
  ranked := ⟨fun _ p m hp hm => H.closed_m p m hp hm, fun _ _ hp => hp⟩
  q_none := H.q_none
  q_move := fun p m ⟨_, hp⟩ hm => H.q_move p m hp hm
  gd_poll := H.gd_poll
  gd_enter := H.gd_enter
  gd_frame := H.gd_frame
  poll := H.poll
  enter := H.enter
  frame := H.frame
  probe := fun s p e hI ⟨_, hp⟩ he => H.probe s p e hI hp he
  store := fun s p ev mv d b hI ⟨_, hp⟩ hG hQ => H.store s p ev mv d b hI hp hG hQ

section
variable {P : Type} {G : Game P} {S : Nat → P → Prop} {Q : P → Option Move → Prop}
  {Gd Inv : SearchState → Prop}

/-- a poll that answers `false` leaves `stopSeen = false` (under the monotone-oracle invariant). -/
theorem poll_false_stopSeen {s : SearchState} (hm : StopMono s) (h : s.shouldStop.1 = false) :
    s.shouldStop.2.stopSeen = false := by
  have h1 : s.stopSeen = false := by
    cases hs : s.stopSeen with
    | false => rfl
    | true => rw [hm hs] at h; cases h
  rw [shouldStop_snd]
  rw [shouldStop_fst] at h
  simp [h1, h]

theorem HypR.storeKiller (H : HypR G S Q Gd Inv) {s : SearchState} (hI : Inv s) (mv : Move) (ply : Nat) :
    Inv (s.storeKiller mv ply) := by
  unfold SearchState.storeKiller
  split
  · simp only
    split
    · exact hI
    · exact H.frame s _ s.history s.deeperHits s.sameDepthHits hI
  · exact hI

theorem HypR.recordCutoff (H : HypR G S Q Gd Inv) {s : SearchState} (hI : Inv s) (mv : Move) (d : Nat) :
    Inv (s.recordCutoff mv d) :=
  H.frame s s.killers _ s.deeperHits s.sameDepthHits hI

@[simp] theorem storeKiller_stopSeen (s : SearchState) (mv : Move) (ply : Nat) :
    (s.storeKiller mv ply).stopSeen = s.stopSeen := by
  unfold SearchState.storeKiller
  split
  · simp only
    split <;> rfl
  · rfl

/-- what `probeTT` does: the state changes only in the two hit counters; a returned result is a table
    entry for this position's hash. -/
theorem probeTT_spec (s : SearchState) (p : P) (d : Nat) (α β : Int) :
    (∃ dh sh, (probeTT G s p d α β).2.2 = { s with deeperHits := dh, sameDepthHits := sh }) ∧
    (∀ r, (probeTT G s p d α β).1 = some r →
      ∃ e, s.tt.retrieve (G.hash p) = some e ∧ r = ⟨e.eval, e.bestMove⟩) := by
  rw [probeTT.eq_1]
  cases hr : s.tt.retrieve (G.hash p) with
  | none => exact ⟨⟨_, _, rfl⟩, fun r h => by cases h⟩
  | some e =>
    simp only
    have hcount : ∃ dh sh,
        (if e.depth > d then { s with deeperHits := s.deeperHits + 1 }
          else { s with sameDepthHits := s.sameDepthHits + 1 })
        = { s with deeperHits := dh, sameDepthHits := sh } := by
      split
      · exact ⟨_, _, rfl⟩
      · exact ⟨_, _, rfl⟩
    split
    · exact ⟨⟨_, _, rfl⟩, fun r h => by cases h⟩
    · split
      · exact ⟨hcount, fun r h => ⟨e, rfl, by cases h; rfl⟩⟩
      · split
        · exact ⟨hcount, fun r h => ⟨e, rfl, by cases h; rfl⟩⟩
        · exact ⟨⟨_, _, rfl⟩, fun r h => by cases h⟩
      · split
        · exact ⟨hcount, fun r h => ⟨e, rfl, by cases h; rfl⟩⟩
        · exact ⟨⟨_, _, rfl⟩, fun r h => by cases h⟩

theorem HypR.probeTT (H : HypR G S Q Gd Inv) {s : SearchState} (hI : Inv s) (hG : Gd s) {p : P}
    (hS : Search.Ranked.U S p) (d : Nat) (α β : Int) :
    Inv (probeTT G s p d α β).2.2 ∧ Gd (probeTT G s p d α β).2.2 ∧
    (∀ r, (probeTT G s p d α β).1 = some r → Q p r.bestMove) := by
  obtain ⟨⟨dh, sh, h1⟩, h2⟩ := probeTT_spec (G := G) s p d α β
  refine ⟨?_, ?_, ?_⟩
  · rw [h1]; exact H.frame s s.killers s.history dh sh hI
  · rw [h1]; exact H.gd_frame s dh sh hG
  · intro r hr
    obtain ⟨e, he, rfl⟩ := h2 r hr
    exact H.probe s p e hI hS he

/-! ### quiescence -/

theorem quiesceLoop_inv_ranked (H : HypR G S Q Gd Inv)
    (rec : P → Int → Int → SearchState → Option Int × SearchState)
    (hrec : ∀ p α β s, Inv s → Gd s → Inv (rec p α β s).2)
    (p : P) (β : Int) :
    ∀ (ms : List Move) (α : Int) (s : SearchState), Inv s →
      Inv (quiesceLoop G rec p β ms α s).2 := by
  intro ms
  induction ms with
  | nil => intro α s hI; exact hI
  | cons mv rest ih =>
    intro α s hI
    rw [quiesceLoop.eq_2]
    have hI1 := H.poll s hI
    have hf := H.gd_poll s hI
    revert hI1 hf
    cases s.shouldStop with
    | mk stop s1 =>
      intro hI1 hf
      cases stop with
      | true => exact hI1
      | false =>
        simp only [Bool.false_eq_true, ↓reduceIte]
        have hI2 := hrec (G.play p mv) (-β) (-α) s1 hI1 (hf rfl)
        revert hI2
        cases rec (G.play p mv) (-β) (-α) s1 with
        | mk r s2 =>
          intro hI2
          cases r with
          | none => exact hI2
          | some v =>
            simp only
            split
            · exact hI2
            · exact ih _ s2 hI2

theorem orderCaptures_mem (p : P) (ms : List Move) (m : Move) :
    m ∈ orderCaptures G p ms ↔ m ∈ ms :=
  (List.mergeSort_perm ms _).mem_iff

theorem orderMoves_mem (s : SearchState) (p : P) (ms : List Move) (tm : Option Move) (ply : Nat)
    (m : Move) : m ∈ orderMoves G s p ms tm ply ↔ m ∈ ms :=
  (List.mergeSort_perm ms _).mem_iff

/-- quiescence needs no membership of its position in any set: it never probes or stores. -/
theorem quiesce_inv_ranked (H : HypR G S Q Gd Inv) :
    ∀ (fuel : Nat) (p : P) (α β : Int) (s : SearchState), Inv s → Gd s →
      Inv (quiesce G fuel p α β s).2 := by
  intro fuel
  induction fuel with
  | zero => intro p α β s hI _; exact hI
  | succ fuel ih =>
    intro p α β s hI hst
    rw [quiesce.eq_2]
    have hI1 := H.enter s hI hst
    generalize orderCaptures G p (if G.inCheck p = true then G.moves p else G.qmoves p) = ms
    split
    · exact hI1
    · simp only
      split
      · exact hI1
      · exact quiesceLoop_inv_ranked H _ ih p β _ _ _ hI1

/-! ### negamax -/

theorem negamaxLoop_inv_ranked (H : HypR G S Q Gd Inv)
    (rec : P → Nat → Int → Int → SearchState → Option SearchResult × SearchState) (d : Nat)
    (hrec : ∀ p ply α β s, S d p → Inv s → Gd s → Inv (rec p ply α β s).2)
    (p : P) (hS : S (d + 1) p) (depth ply : Nat) (β : Int) :
    ∀ (ms : List Move) (acc : LoopAcc) (s : SearchState), (∀ m ∈ ms, m ∈ G.moves p) →
      Q p acc.best.bestMove → Inv s →
      Inv (negamaxLoop G rec p depth ply β ms acc s).2 ∧
      ∀ acc', (negamaxLoop G rec p depth ply β ms acc s).1 = some acc' → Q p acc'.best.bestMove := by
  intro ms
  induction ms with
  | nil =>
    intro acc s _ hQ hI
    exact ⟨hI, fun acc' h => by cases h; exact hQ⟩
  | cons mv rest ih =>
    intro acc s hms hQ hI
    rw [negamaxLoop.eq_2]
    have hI1 := H.poll s hI
    have hf := H.gd_poll s hI
    revert hI1 hf
    cases s.shouldStop with
    | mk stop s1 =>
      intro hI1 hf
      cases stop with
      | true => exact ⟨hI1, fun acc' h => by cases h; exact hQ⟩
      | false =>
        simp only [Bool.false_eq_true, ↓reduceIte]
        have hmv : mv ∈ G.moves p := hms mv (List.mem_cons_self ..)
        have hI2 := hrec (G.play p mv) (ply + 1) (-β) (-acc.alpha) s1 (H.ranked.step d p mv hS hmv) hI1 (hf rfl)
        revert hI2
        cases rec (G.play p mv) (ply + 1) (-β) (-acc.alpha) s1 with
        | mk r s2 =>
          intro hI2
          cases r with
          | none => exact ⟨hI2, fun acc' h => by cases h⟩
          | some r =>
            simp only
            have hQ' : Q p (if -r.score > acc.best.score then (⟨-r.score, some mv⟩ : SearchResult)
                else acc.best).bestMove := by
              split
              · exact H.q_move p mv ⟨_, hS⟩ hmv
              · exact hQ
            split
            · refine ⟨?_, fun acc' h => by cases h; exact hQ'⟩
              simp only
              split
              · exact H.recordCutoff (H.storeKiller hI2 _ _) _ _
              · exact hI2
            · exact ih _ s2 (fun m hm => hms m (List.mem_cons_of_mem _ hm)) hQ' hI2

theorem negamax_inv_ranked (H : HypR G S Q Gd Inv) (qfuel : Nat) :
    ∀ (depth : Nat) (p : P) (ply : Nat) (α β : Int) (s : SearchState), S depth p → Inv s →
      Gd s →
      Inv (negamax G qfuel depth p ply α β s).2 ∧
      ∀ r, (negamax G qfuel depth p ply α β s).1 = some r → Q p r.bestMove := by
  intro depth
  induction depth with
  | zero =>
    intro p ply α β s hS hI hst
    rw [negamax.eq_1]
    have hI1 := H.enter s hI hst
    have hst1 : Gd s.incrementNodes := H.gd_enter s hst
    split
    · exact ⟨hI1, fun r h => by cases h; exact H.q_none p⟩
    · obtain ⟨hI2, hst2, hQ2⟩ := H.probeTT hI1 hst1 ⟨_, hS⟩ 0 α β
      revert hI2 hst2 hQ2
      cases probeTT G s.incrementNodes p 0 α β with
      | mk c rest =>
        cases rest with
        | mk tm s2 =>
          intro hI2 hst2 hQ2
          cases c with
          | some cached => exact ⟨hI2, fun r h => by cases h; exact hQ2 _ rfl⟩
          | none =>
            simp only
            have hI3 := quiesce_inv_ranked H qfuel p α β s2 hI2 hst2
            revert hI3
            cases quiesce G qfuel p α β s2 with
            | mk v s3 =>
              intro hI3
              cases v with
              | none => exact ⟨hI3, fun r h => by cases h⟩
              | some v => exact ⟨hI3, fun r h => by cases h; exact H.q_none p⟩
  | succ d ih =>
    intro p ply α β s hS hI hst
    rw [negamax.eq_1]
    have hI1 := H.enter s hI hst
    have hst1 : Gd s.incrementNodes := H.gd_enter s hst
    split
    · exact ⟨hI1, fun r h => by cases h; exact H.q_none p⟩
    · obtain ⟨hI2, hst2, hQ2⟩ := H.probeTT hI1 hst1 ⟨_, hS⟩ (d + 1) α β
      revert hI2 hst2 hQ2
      cases probeTT G s.incrementNodes p (d + 1) α β with
      | mk c rest =>
        cases rest with
        | mk tm s2 =>
          intro hI2 hst2 hQ2
          cases c with
          | some cached => exact ⟨hI2, fun r h => by cases h; exact hQ2 _ rfl⟩
          | none =>
            simp only
            cases hmoves : G.moves p with
            | nil =>
              simp only
              split
              · exact ⟨hI2, fun r h => by cases h; exact H.q_none p⟩
              · exact ⟨hI2, fun r h => by cases h; exact H.q_none p⟩
            | cons m0 tail =>
              simp only
              have hfirst : (orderMoves G s2 p (m0 :: tail) tm ply).headD m0 ∈ G.moves p := by
                rw [hmoves]
                cases hord : orderMoves G s2 p (m0 :: tail) tm ply with
                | nil => exact List.mem_cons_self ..
                | cons a l =>
                  have : a ∈ orderMoves G s2 p (m0 :: tail) tm ply := by rw [hord]; exact List.mem_cons_self ..
                  exact (orderMoves_mem ..).1 this
              have hloop := negamaxLoop_inv_ranked H (negamax G qfuel d) d
                (fun p ply α β s hS hI hst => (ih p ply α β s hS hI hst).1) p hS (d + 1) ply β
                (orderMoves G s2 p (m0 :: tail) tm ply)
                ⟨α, ⟨NEGATIVE_INFINITY, some ((orderMoves G s2 p (m0 :: tail) tm ply).headD m0)⟩⟩ s2
                (fun m hm => by rw [hmoves]; exact (orderMoves_mem ..).1 hm)
                (H.q_move p _ ⟨_, hS⟩ hfirst) hI2
              revert hloop
              cases negamaxLoop G (negamax G qfuel d) p (d + 1) ply β
                (orderMoves G s2 p (m0 :: tail) tm ply)
                ⟨α, ⟨NEGATIVE_INFINITY, some ((orderMoves G s2 p (m0 :: tail) tm ply).headD m0)⟩⟩ s2 with
              | mk racc s3 =>
                intro hloop
                cases racc with
                | none => exact ⟨hloop.1, fun r h => by cases h⟩
                | some acc =>
                  simp only
                  have hQacc := hloop.2 acc rfl
                  have hI3 := hloop.1
                  simp only at hI3
                  have hI4 := H.poll s3 hI3
                  have hf := H.gd_poll s3 hI3
                  revert hI4 hf
                  cases s3.shouldStop with
                  | mk stop s4 =>
                    intro hI4 hf
                    cases stop with
                    | true => exact ⟨hI4, fun r h => by cases h; exact hQacc⟩
                    | false =>
                      simp only [Bool.false_eq_true, ↓reduceIte]
                      exact ⟨H.store s4 p _ _ _ _ hI4 ⟨_, hS⟩ (hf rfl) hQacc,
                        fun r h => by cases h; exact hQacc⟩

/-! ### searchPosition, iterate, findBestMove -/

/-- extra frame conditions needed above `negamax`: the repetition stack and the info lines. -/
structure HypTopR {P : Type} (G : Game P) (S : Nat → P → Prop) (Q : P → Option Move → Prop)
    (Gd Inv : SearchState → Prop) : Prop extends HypR G S Q Gd Inv where
  rep : ∀ s r, Inv s → Inv { s with rep := r }
  gd_rep : ∀ s r, Gd s → Gd { s with rep := r }
  info : ∀ s i, Inv s → Inv { s with info := i }

theorem searchPosition_inv_ranked (H : HypTopR G S Q Gd Inv) (qfuel : Nat) (p : P) (depth : Nat)
    (s : SearchState) (hS : S depth p) (hI : Inv s) (hst : Gd s) :
    Inv (searchPosition G qfuel p depth s).2 ∧
    ∀ r, (searchPosition G qfuel p depth s).1 = some r → Q p r.bestMove := by
  unfold searchPosition
  have h := negamax_inv_ranked H.toHypR qfuel depth p 0 NEGATIVE_INFINITY INFINITY
    { s with rep := G.hash p :: s.rep } hS (H.rep s _ hI) (H.gd_rep s _ hst)
  exact ⟨H.rep _ _ h.1, h.2⟩

/-- `iterate`, from a hypothesis on `searchPosition` (so that invariants which do NOT tolerate arbitrary
    changes of `rep` can be pushed through as well). -/
theorem iterate_inv'_ranked (H : HypR G S Q Gd Inv) (hinfo : ∀ s i, Inv s → Inv { s with info := i })
    (qfuel : Nat) (p : P) (hS : Search.Ranked.U S p) (maxDepth : Nat)
    (hsp : ∀ d s, d ≤ maxDepth → Inv s → Gd s →
      Inv (searchPosition G qfuel p d s).2 ∧
      ∀ r, (searchPosition G qfuel p d s).1 = some r → Q p r.bestMove) :
    ∀ (n cur : Nat) (best : Int × Option Move) (s : SearchState), Q p best.2 → Inv s →
      Inv (iterate G qfuel p maxDepth n cur best s).2 ∧
      ∀ b, (iterate G qfuel p maxDepth n cur best s).1 = some b → Q p b.2 := by
  intro n
  induction n with
  | zero => intro cur best s hQ hI; exact ⟨hI, fun b h => by cases h; exact hQ⟩
  | succ n ih =>
    intro cur best s hQ hI
    rw [iterate.eq_2]
    split
    · exact ⟨hI, fun b h => by cases h; exact hQ⟩
    · rename_i hcur
      have hI1 := H.poll s hI
      have hf := H.gd_poll s hI
      revert hI1 hf
      cases s.shouldStop with
      | mk stop s1 =>
        intro hI1 hf
        cases stop with
        | true => exact ⟨hI1, fun b h => by cases h; exact hQ⟩
        | false =>
          simp only [Bool.false_eq_true, ↓reduceIte]
          have hsp1 := hsp cur s1 (by omega) hI1 (hf rfl)
          revert hsp1
          cases searchPosition G qfuel p cur s1 with
          | mk r s2 =>
            intro hsp1
            cases r with
            | none => exact ⟨hsp1.1, fun b h => by cases h⟩
            | some r =>
              simp only
              have hQr := hsp1.2 r rfl
              have hI2 : Inv s2 := hsp1.1
              have hI3 := H.poll s2 hI2
              have hf2 := H.gd_poll s2 hI2
              revert hI3 hf2
              cases s2.shouldStop with
              | mk stop2 s3 =>
                intro hI3 hf2
                cases stop2 with
                | true =>
                  simp only [Bool.not_true, Bool.false_eq_true, ↓reduceIte]
                  exact ih _ _ _ hQ hI3
                | false =>
                  simp only [Bool.not_false, ↓reduceIte]
                  refine ih _ _ _ hQr ?_
                  exact hinfo _ _ (H.store s3 p r.score r.bestMove cur .exact hI3 hS (hf2 rfl) hQr)

/-- iterative deepening searches the root with every depth `≤ maxDepth`: the root lies in `S maxDepth`,
    hence (`Ranked.le`) in every `S d` that is searched. -/
theorem iterate_inv_ranked (H : HypTopR G S Q Gd Inv) (qfuel : Nat) (p : P) (maxDepth : Nat)
    (hS : S maxDepth p)
    (n cur : Nat) (best : Int × Option Move) (s : SearchState) (hQ : Q p best.2) (hI : Inv s) :
    Inv (iterate G qfuel p maxDepth n cur best s).2 ∧
    ∀ b, (iterate G qfuel p maxDepth n cur best s).1 = some b → Q p b.2 :=
  iterate_inv'_ranked H.toHypR H.info qfuel p ⟨_, hS⟩ maxDepth
    (fun d s hd hI hst => searchPosition_inv_ranked H qfuel p d s (H.ranked.le hd hS) hI hst) n cur best s hQ hI

/-- the state `findBestMove` starts its iteration from (`timer.start()` + `history.age()`). -/
def resetState (limit : Limit) (s : SearchState) : SearchState :=
  ({ s with nodes := 0, polls := 0, limit := limit, stopSeen := false, nodesAfterStop := 0,
            info := [] } : SearchState).ageHistory

theorem findBestMove_eq (qfuel : Nat) (p : P) (maxDepth : Nat) (limit : Limit) (s : SearchState) :
    findBestMove G qfuel p maxDepth limit s =
      match iterate G qfuel p maxDepth maxDepth 1 (NEGATIVE_INFINITY, none) (resetState limit s) with
      | (none, s) => (none, s)
      | (some (score, some mv), s) => (some (score, some mv), s)
      | (some (score, none), s) => (some (score, (G.moves p).head?), s) := rfl

theorem findBestMove_snd (qfuel : Nat) (p : P) (maxDepth : Nat) (limit : Limit) (s : SearchState) :
    (findBestMove G qfuel p maxDepth limit s).2 =
      (iterate G qfuel p maxDepth maxDepth 1 (NEGATIVE_INFINITY, none) (resetState limit s)).2 := by
  rw [findBestMove_eq]
  split <;> simp_all

theorem findBestMove_inv_ranked (H : HypTopR G S Q Gd Inv) (qfuel : Nat) (p : P) (maxDepth : Nat)
    (hS : S maxDepth p) (limit : Limit) (s : SearchState) (hI : Inv (resetState limit s)) :
    Inv (findBestMove G qfuel p maxDepth limit s).2 := by
  rw [findBestMove_snd]
  exact (iterate_inv_ranked H qfuel p maxDepth hS maxDepth 1 _ _ (H.q_none p) hI).1

end

/-! ## the closed-set form (constant family)

  Everything below is a corollary of the ranked theorems for `S d := S` (`Hyp.toR`); the names and
  signatures are those the instances in Lemmas/Stop*.lean and Props/C03, C06, C07 were written against. -/

/-- extra frame conditions needed above `negamax`: the repetition stack and the info lines. -/
structure HypTop {P : Type} (G : Game P) (S : P → Prop) (Q : P → Option Move → Prop)
    (Gd Inv : SearchState → Prop) : Prop extends Hyp G S Q Gd Inv where
  rep : ∀ s r, Inv s → Inv { s with rep := r }
  gd_rep : ∀ s r, Gd s → Gd { s with rep := r }
  info : ∀ s i, Inv s → Inv { s with info := i }

theorem HypTop.toR {P : Type} {G : Game P} {S : P → Prop} {Q : P → Option Move → Prop}
    {Gd Inv : SearchState → Prop} (H : HypTop G S Q Gd Inv) : HypTopR G (fun _ => S) Q Gd Inv where
  toHypR := H.toHyp.toR
  rep := H.rep
  gd_rep := H.gd_rep
  info := H.info

section
variable {P : Type} {G : Game P} {S : P → Prop} {Q : P → Option Move → Prop}
  {Gd Inv : SearchState → Prop}

theorem Hyp.storeKiller (H : Hyp G S Q Gd Inv) {s : SearchState} (hI : Inv s) (mv : Move) (ply : Nat) :
    Inv (s.storeKiller mv ply) := H.toR.storeKiller hI mv ply

theorem Hyp.recordCutoff (H : Hyp G S Q Gd Inv) {s : SearchState} (hI : Inv s) (mv : Move) (d : Nat) :
    Inv (s.recordCutoff mv d) := H.toR.recordCutoff hI mv d

theorem Hyp.probeTT (H : Hyp G S Q Gd Inv) {s : SearchState} (hI : Inv s) (hG : Gd s) {p : P} (hS : S p)
    (d : Nat) (α β : Int) :
    Inv (probeTT G s p d α β).2.2 ∧ Gd (probeTT G s p d α β).2.2 ∧
    (∀ r, (probeTT G s p d α β).1 = some r → Q p r.bestMove) :=
  H.toR.probeTT hI hG ⟨0, hS⟩ d α β

/-- (the recursive call may assume membership in `S`; kept with its own proof because its hypothesis on
    `rec` is weaker than that of `quiesceLoop_inv_ranked`.) -/
theorem quiesceLoop_inv (H : Hyp G S Q Gd Inv)
    (rec : P → Int → Int → SearchState → Option Int × SearchState)
    (hrec : ∀ p α β s, S p → Inv s → Gd s → Inv (rec p α β s).2)
    (p : P) (β : Int) :
    ∀ (ms : List Move) (α : Int) (s : SearchState), (∀ m ∈ ms, S (G.play p m)) → Inv s →
      Inv (quiesceLoop G rec p β ms α s).2 := by
  intro ms
  induction ms with
  | nil => intro α s _ hI; exact hI
  | cons mv rest ih =>
    intro α s hms hI
    rw [quiesceLoop.eq_2]
    have hI1 := H.poll s hI
    have hf := H.gd_poll s hI
    revert hI1 hf
    cases s.shouldStop with
    | mk stop s1 =>
      intro hI1 hf
      cases stop with
      | true => exact hI1
      | false =>
        simp only [Bool.false_eq_true, ↓reduceIte]
        have hI2 := hrec (G.play p mv) (-β) (-α) s1 (hms mv (List.mem_cons_self ..)) hI1 (hf rfl)
        revert hI2
        cases rec (G.play p mv) (-β) (-α) s1 with
        | mk r s2 =>
          intro hI2
          cases r with
          | none => exact hI2
          | some v =>
            simp only
            split
            · exact hI2
            · exact ih _ s2 (fun m hm => hms m (List.mem_cons_of_mem _ hm)) hI2

theorem quiesce_inv (H : Hyp G S Q Gd Inv) :
    ∀ (fuel : Nat) (p : P) (α β : Int) (s : SearchState), S p → Inv s → Gd s →
      Inv (quiesce G fuel p α β s).2 :=
  fun fuel p α β s _ hI hst => quiesce_inv_ranked H.toR fuel p α β s hI hst

theorem negamaxLoop_inv (H : Hyp G S Q Gd Inv)
    (rec : P → Nat → Int → Int → SearchState → Option SearchResult × SearchState)
    (hrec : ∀ p ply α β s, S p → Inv s → Gd s → Inv (rec p ply α β s).2)
    (p : P) (hS : S p) (depth ply : Nat) (β : Int) :
    ∀ (ms : List Move) (acc : LoopAcc) (s : SearchState), (∀ m ∈ ms, m ∈ G.moves p) →
      Q p acc.best.bestMove → Inv s →
      Inv (negamaxLoop G rec p depth ply β ms acc s).2 ∧
      ∀ acc', (negamaxLoop G rec p depth ply β ms acc s).1 = some acc' → Q p acc'.best.bestMove :=
  negamaxLoop_inv_ranked H.toR rec 0 hrec p hS depth ply β

theorem negamax_inv (H : Hyp G S Q Gd Inv) (qfuel : Nat) :
    ∀ (depth : Nat) (p : P) (ply : Nat) (α β : Int) (s : SearchState), S p → Inv s →
      Gd s →
      Inv (negamax G qfuel depth p ply α β s).2 ∧
      ∀ r, (negamax G qfuel depth p ply α β s).1 = some r → Q p r.bestMove :=
  negamax_inv_ranked H.toR qfuel

theorem searchPosition_inv (H : HypTop G S Q Gd Inv) (qfuel : Nat) (p : P) (depth : Nat) (s : SearchState)
    (hS : S p) (hI : Inv s) (hst : Gd s) :
    Inv (searchPosition G qfuel p depth s).2 ∧
    ∀ r, (searchPosition G qfuel p depth s).1 = some r → Q p r.bestMove :=
  searchPosition_inv_ranked H.toR qfuel p depth s hS hI hst

/-- `iterate`, from a hypothesis on `searchPosition` (so that invariants which do NOT tolerate arbitrary
    changes of `rep` can be pushed through as well). -/
theorem iterate_inv' (H : Hyp G S Q Gd Inv) (hinfo : ∀ s i, Inv s → Inv { s with info := i })
    (qfuel : Nat) (p : P) (hS : S p) (maxDepth : Nat)
    (hsp : ∀ d s, Inv s → Gd s →
      Inv (searchPosition G qfuel p d s).2 ∧
      ∀ r, (searchPosition G qfuel p d s).1 = some r → Q p r.bestMove) :
    ∀ (n cur : Nat) (best : Int × Option Move) (s : SearchState), Q p best.2 → Inv s →
      Inv (iterate G qfuel p maxDepth n cur best s).2 ∧
      ∀ b, (iterate G qfuel p maxDepth n cur best s).1 = some b → Q p b.2 :=
  iterate_inv'_ranked H.toR hinfo qfuel p ⟨0, hS⟩ maxDepth (fun d s _ hI hst => hsp d s hI hst)

theorem iterate_inv (H : HypTop G S Q Gd Inv) (qfuel : Nat) (p : P) (hS : S p) (maxDepth : Nat)
    (n cur : Nat) (best : Int × Option Move) (s : SearchState) (hQ : Q p best.2) (hI : Inv s) :
    Inv (iterate G qfuel p maxDepth n cur best s).2 ∧
    ∀ b, (iterate G qfuel p maxDepth n cur best s).1 = some b → Q p b.2 :=
  iterate_inv_ranked H.toR qfuel p maxDepth hS n cur best s hQ hI

theorem findBestMove_inv (H : HypTop G S Q Gd Inv) (qfuel : Nat) (p : P) (hS : S p) (maxDepth : Nat)
    (limit : Limit) (s : SearchState) (hI : Inv (resetState limit s)) :
    Inv (findBestMove G qfuel p maxDepth limit s).2 :=
  findBestMove_inv_ranked H.toR qfuel p maxDepth hS limit s hI

end
end Flounder.Stop
