/-
  XOR-sums over lists: `xsum l f = f a₁ ^^^ f a₂ ^^^ …`.  Every `hash ^= key` loop of the engine is a
  `List.foldl (fun h a => h ^^^ f a) h₀`, which is `h₀ ^^^ xsum l f`; XOR-sums are invariant under
  permutation, can be exchanged (Fubini), and a filtered sum is a sum of guarded terms.
-/
import Flounder.Lemmas.Bits
import Flounder.Model.Bitboard

namespace Flounder

/-- XOR of `f a` over the list `l`, written as the very loop the engine runs. -/
def xsum {α : Type} (l : List α) (f : α → UInt64) : UInt64 := l.foldl (fun h a => h ^^^ f a) 0

/-- XOR of a list of words. -/
def xorAll (l : List UInt64) : UInt64 := l.foldl (· ^^^ ·) 0

/-- a `hash ^= f a` loop started at `h` is `h ^^^` the XOR-sum. -/
theorem foldl_xor_eq {α : Type} (l : List α) (f : α → UInt64) (h : UInt64) :
    l.foldl (fun h a => h ^^^ f a) h = h ^^^ xsum l f := by
  unfold xsum
  induction l generalizing h with
  | nil => simp
  | cons a l ih =>
    simp only [List.foldl_cons]
    rw [ih, ih (0 ^^^ f a)]
    simp [UInt64.xor_assoc]

@[simp] theorem xsum_nil {α : Type} (f : α → UInt64) : xsum [] f = 0 := rfl

theorem xsum_cons {α : Type} (a : α) (l : List α) (f : α → UInt64) :
    xsum (a :: l) f = f a ^^^ xsum l f := by
  show (a :: l).foldl (fun h a => h ^^^ f a) 0 = _
  rw [List.foldl_cons, foldl_xor_eq]; simp

theorem xsum_append {α : Type} (l m : List α) (f : α → UInt64) :
    xsum (l ++ m) f = xsum l f ^^^ xsum m f := by
  induction l with
  | nil => simp
  | cons a l ih => rw [List.cons_append, xsum_cons, xsum_cons, ih, UInt64.xor_assoc]

theorem xsum_congr {α : Type} (l : List α) (f g : α → UInt64) (h : ∀ a ∈ l, f a = g a) :
    xsum l f = xsum l g := by
  induction l with
  | nil => rfl
  | cons a l ih =>
    rw [xsum_cons, xsum_cons, h a (by simp), ih (fun x hx => h x (by simp [hx]))]

@[simp] theorem xsum_zero {α : Type} (l : List α) : xsum l (fun _ => (0 : UInt64)) = 0 := by
  induction l with
  | nil => rfl
  | cons a l ih => rw [xsum_cons, ih]; simp

theorem xsum_xor {α : Type} (l : List α) (f g : α → UInt64) :
    xsum l (fun a => f a ^^^ g a) = xsum l f ^^^ xsum l g := by
  induction l with
  | nil => simp
  | cons a l ih => rw [xsum_cons, xsum_cons, xsum_cons, ih]; ac_rfl

theorem xsum_map {α β : Type} (l : List α) (g : α → β) (f : β → UInt64) :
    xsum (l.map g) f = xsum l (fun a => f (g a)) := by
  induction l with
  | nil => rfl
  | cons a l ih => rw [List.map_cons, xsum_cons, xsum_cons, ih]

theorem xorAll_map {α : Type} (l : List α) (f : α → UInt64) : xorAll (l.map f) = xsum l f := by
  unfold xorAll xsum; rw [List.foldl_map]

/-- a sum over the filtered list is the sum of guarded terms over the whole list. -/
theorem xsum_filter {α : Type} (l : List α) (p : α → Bool) (f : α → UInt64) :
    xsum (l.filter p) f = xsum l (fun a => if p a then f a else 0) := by
  induction l with
  | nil => rfl
  | cons a l ih =>
    rw [xsum_cons, List.filter_cons]
    cases hp : p a
    · simp [ih]
    · simp [xsum_cons, ih]

theorem xsum_flatMap {α β : Type} (l : List α) (g : α → List β) (f : β → UInt64) :
    xsum (l.flatMap g) f = xsum l (fun a => xsum (g a) f) := by
  induction l with
  | nil => rfl
  | cons a l ih => rw [List.flatMap_cons, xsum_append, xsum_cons, ih]

theorem xsum_filterMap_ite {α β : Type} (l : List α) (p : α → Bool) (g : α → β) (f : β → UInt64) :
    xsum (l.filterMap (fun a => if p a then some (g a) else none)) f
      = xsum l (fun a => if p a then f (g a) else 0) := by
  induction l with
  | nil => rfl
  | cons a l ih =>
    rw [xsum_cons, List.filterMap_cons]
    cases hp : p a
    · simp [ih]
    · simp [xsum_cons, ih]

/-- Fubini for XOR-sums: the nesting order of two loops does not matter. -/
theorem xsum_comm {α β : Type} (l : List α) (m : List β) (f : α → β → UInt64) :
    xsum l (fun a => xsum m (fun b => f a b)) = xsum m (fun b => xsum l (fun a => f a b)) := by
  induction l with
  | nil => simp
  | cons a l ih =>
    rw [xsum_cons, ih, ← xsum_xor]
    apply xsum_congr; intro b _; rw [xsum_cons]

/-- **XOR-sums are permutation invariant.** -/
theorem xsum_perm {α : Type} {l m : List α} (h : l.Perm m) (f : α → UInt64) : xsum l f = xsum m f := by
  induction h with
  | nil => rfl
  | cons a _ ih => rw [xsum_cons, xsum_cons, ih]
  | swap a b l => rw [xsum_cons, xsum_cons, xsum_cons, xsum_cons]; ac_rfl
  | trans _ _ ih1 ih2 => rw [ih1, ih2]

theorem xorAll_perm {l m : List UInt64} (h : l.Perm m) : xorAll l = xorAll m := by
  have := xsum_perm h id
  rwa [← xorAll_map, ← xorAll_map, List.map_id, List.map_id] at this

/-- a sum with a single non-zero term, over a duplicate-free list. -/
theorem xsum_single {α : Type} [DecidableEq α] (l : List α) (hl : l.Nodup) (s : α) (v : UInt64) :
    xsum l (fun a => if a = s then v else 0) = if s ∈ l then v else 0 := by
  induction l with
  | nil => simp
  | cons a l ih =>
    rw [xsum_cons, ih (List.nodup_cons.mp hl).2]
    by_cases h : a = s
    · subst h
      have : a ∉ l := (List.nodup_cons.mp hl).1
      simp [this]
    · have : ¬ s = a := fun h' => h h'.symm
      simp [h, this]

theorem xsum_range_single (s : Nat) (hs : s < 64) (v : UInt64) :
    xsum (List.range 64) (fun a => if a = s then v else 0) = v := by
  rw [xsum_single _ List.nodup_range]; simp [hs]

/-- the XOR over the squares of a bitboard, as a guarded sum over all 64 squares. -/
theorem xsum_squaresOf (bb : UInt64) (f : Nat → UInt64) :
    xsum (squaresOf bb) f = xsum (List.range 64) (fun s => if hasSq bb s then f s else 0) := by
  unfold squaresOf; rw [xsum_filter]

/-- setting a bit that was clear adds exactly that square's term. -/
theorem xsum_squaresOf_setBit (bb : UInt64) (s : Nat) (hs : s < 64) (h : hasSq bb s = false)
    (f : Nat → UInt64) : xsum (squaresOf (setBit bb s)) f = xsum (squaresOf bb) f ^^^ f s := by
  rw [xsum_squaresOf, xsum_squaresOf, ← xsum_range_single s hs (f s), ← xsum_xor]
  apply xsum_congr
  intro t ht
  have ht : t < 64 := List.mem_range.mp ht
  rw [hasSq_setBit _ _ _ hs ht]
  by_cases hts : t = s
  · subst hts; simp [h]
  · have : ¬ s = t := fun h' => hts h'.symm
    simp [hts, this]

/-- clearing a bit that was set removes (XORs again) exactly that square's term. -/
theorem xsum_squaresOf_removeBit (bb : UInt64) (s : Nat) (hs : s < 64) (h : hasSq bb s = true)
    (f : Nat → UInt64) : xsum (squaresOf (removeBit bb s)) f = xsum (squaresOf bb) f ^^^ f s := by
  rw [xsum_squaresOf, xsum_squaresOf, ← xsum_range_single s hs (f s), ← xsum_xor]
  apply xsum_congr
  intro t ht
  have ht : t < 64 := List.mem_range.mp ht
  rw [hasSq_removeBit _ _ _ hs ht]
  by_cases hts : t = s
  · subst hts; simp [h]
  · have : ¬ s = t := fun h' => hts h'.symm
    simp [hts, this]

end Flounder
