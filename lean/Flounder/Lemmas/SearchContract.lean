/-
  C05 helpers, part 5: the loop invariant of `negamaxLoop` and the main induction on depth.
  Everything is stated for an abstract score view `c` with `Clamp c` (see SearchBasic).
-/
import Flounder.Lemmas.SearchNegamax

namespace Flounder.Search
open Flounder Gen

section contract
variable {P : Type} (G : Game P)

/-- the best move's child value is the negated score (used for results strictly inside the window). -/
def PVMove (qf d : Nat) (p : P) (best : SearchResult) : Prop :=
  ∀ m x, best.bestMove = some m → Spec.V G qf d (G.play p m) = some x → -x = best.score

/-- what a completed `negamax d p α β` result `r` satisfies for the true value `v`. -/
structure ResultOK (c : Int → Int) (qf d : Nat) (p : P) (α β v : Int) (r : SearchResult) : Prop where
  contract : Contract (c v) (c r.score) α β
  move : 1 ≤ d → G.moves p ≠ [] → ∃ m, r.bestMove = some m ∧ m ∈ G.moves p
  pv : α < c r.score → c r.score < β → ∀ k, d = k + 1 → PVMove G qf k p r

/-- correctness of a `negamax d`-like function (the induction hypothesis handed to the loop). -/
def RecOK (c : Int → Int) (S : P → Prop) (qf d : Nat)
    (rec : P → Nat → Int → Int → SearchState → Option SearchResult × SearchState) : Prop :=
  ∀ (p : P) (ply : Nat) (α β : Int) (s : SearchState) (v : Int),
    S p → TTSound G c S qf s.tt → RepOK s → Spec.V G qf d p = some v →
    NEGATIVE_INFINITY ≤ α → α < β → β ≤ INFINITY →
    s.stopSeen = false → (rec p ply α β s).2.stopSeen = false →
    (rec p ply α β s).2.deeperHits = s.deeperHits →
    ∃ r, (rec p ply α β s).1 = some r ∧ ResultOK G c qf d p α β v r ∧
      TTSound G c S qf (rec p ply α β s).2.tt

/-- ranked form of `RecOK`: the node is required to lie in `N` ("may be searched with this remaining
    depth"), the table is sound on `U` (every position the search can touch). -/
def RecOKR (c : Int → Int) (N U : P → Prop) (qf d : Nat)
    (rec : P → Nat → Int → Int → SearchState → Option SearchResult × SearchState) : Prop :=
  ∀ (p : P) (ply : Nat) (α β : Int) (s : SearchState) (v : Int),
    N p → TTSound G c U qf s.tt → RepOK s → Spec.V G qf d p = some v →
    NEGATIVE_INFINITY ≤ α → α < β → β ≤ INFINITY →
    s.stopSeen = false → (rec p ply α β s).2.stopSeen = false →
    (rec p ply α β s).2.deeperHits = s.deeperHits →
    ∃ r, (rec p ply α β s).1 = some r ∧ ResultOK G c qf d p α β v r ∧
      TTSound G c U qf (rec p ply α β s).2.tt

theorem recOK_iff_recOKR (c : Int → Int) (S : P → Prop) (qf d : Nat)
    (rec : P → Nat → Int → Int → SearchState → Option SearchResult × SearchState) :
    RecOK G c S qf d rec ↔ RecOKR G c S S qf d rec := Iff.rfl

/-- one of the remaining moves attains the node value (kept opaque for `omega`). -/
def Attains (c : Int → Int) (qf d : Nat) (p : P) (rest : List Move) (t : Int) : Prop :=
  ∃ m ∈ rest, ∃ x, Spec.V G qf d (G.play p m) = some x ∧ -c x = t

theorem qframe_cut (s : SearchState) (mv : Move) (ply depth : Nat) :
    QFrame s (if mv.kind = MoveType.quiet then (s.storeKiller mv ply).recordCutoff mv depth else s) := by
  split
  · exact (qframe_storeKiller s mv ply).trans (qframe_recordCutoff _ mv depth)
  · exact QFrame.refl _

variable {c : Int → Int} {S : P → Prop} {qf : Nat}

/-- **loop invariant**: `alpha = max(α₀, best.score)`, everything seen so far is bounded by
    `best.score`, and a `best.score` above `α₀` is the exact value of `best.bestMove`.
    Ranked form: the children lie in `N` (the set the recursive call is correct on), the table is
    sound on `U`. -/
theorem negamaxLoop_ok_ranked {N U : P → Prop} (hc : Clamp c)
    (rec : P → Nat → Int → Int → SearchState → Option SearchResult × SearchState) (d : Nat)
    (hrecF : ∀ q ply a b s, Frame s (rec q ply a b s).2) (hrec : RecOKR G c N U qf d rec)
    (p : P) (hch : ∀ m ∈ G.moves p, N (G.play p m)) (depth ply : Nat) (α₀ β v : Int)
    (hα : NEGATIVE_INFINITY ≤ α₀) (hβ : β ≤ INFINITY) :
    ∀ (rest : List Move) (acc : LoopAcc) (s : SearchState),
      (∀ m ∈ rest, m ∈ G.moves p) →
      (∀ m ∈ rest, ∃ x, Spec.V G qf d (G.play p m) = some x) →
      (∀ m ∈ rest, ∀ x, Spec.V G qf d (G.play p m) = some x → -c x ≤ c v) →
      acc.alpha = max α₀ (c acc.best.score) → acc.alpha < β →
      (c v ≤ c acc.best.score ∨ Attains G c qf d p rest (c v)) →
      (α₀ < c acc.best.score → c acc.best.score ≤ c v ∧ PVMove G qf d p acc.best) →
      (∃ m, acc.best.bestMove = some m ∧ m ∈ G.moves p) →
      TTSound G c U qf s.tt → RepOK s → s.stopSeen = false →
      (negamaxLoop G rec p depth ply β rest acc s).2.stopSeen = false →
      (negamaxLoop G rec p depth ply β rest acc s).2.deeperHits = s.deeperHits →
      ∃ acc', (negamaxLoop G rec p depth ply β rest acc s).1 = some acc' ∧
        Contract (c v) (c acc'.best.score) α₀ β ∧
        (∃ m, acc'.best.bestMove = some m ∧ m ∈ G.moves p) ∧
        (α₀ < c acc'.best.score → c acc'.best.score < β → PVMove G qf d p acc'.best) ∧
        TTSound G c U qf (negamaxLoop G rec p depth ply β rest acc s).2.tt := by
  intro rest
  induction rest with
  | nil =>
    intro acc s _ _ _ hB hαβ hC hD hM hT _ _ _ _
    refine ⟨acc, rfl, ⟨?_, ?_, ?_⟩, hM, fun h _ => (hD h).2, hT⟩
    · intro _
      rcases hC with h' | ⟨m, hm, _⟩
      · exact h'
      · cases hm
    · intro h; omega
    · intro h1 _
      rcases hC with h' | ⟨m, hm, _⟩
      · have := (hD h1).1; omega
      · cases hm
  | cons mv rest ih =>
    intro acc s hmem hex hub hB hαβ hC hD hM hT hR hs hfin hdh
    have hni := negInf_eq
    have hin := inf_eq
    rw [negamaxLoop_cons] at hfin hdh ⊢
    have hsf : stopFlag s = false := by
      cases h : stopFlag s
      · rfl
      · rw [h] at hfin; simp [polled, h] at hfin
    rw [hsf] at hfin hdh ⊢
    simp only [Bool.false_eq_true, ↓reduceIte] at hfin hdh ⊢
    have hs1 : (polled s).stopSeen = false := by simp [polled, hs, hsf]
    have hmv : mv ∈ G.moves p := hmem mv List.mem_cons_self
    obtain ⟨x, hx⟩ := hex mv List.mem_cons_self
    have hubx := hub mv List.mem_cons_self x hx
    have hrec' := hrec (G.play p mv) (ply + 1) (-β) (-acc.alpha) (polled s) x (hch mv hmv) hT
      (hR.of_rep rfl) hx (by omega) (by omega) (by omega) hs1
    have hF := hrecF (G.play p mv) (ply + 1) (-β) (-acc.alpha) (polled s)
    have hLF := fun a s' => negamaxLoop_frame G rec hrecF p depth ply β rest a s'
    rcases hres : rec (G.play p mv) (ply + 1) (-β) (-acc.alpha) (polled s) with ⟨ro, s2⟩
    rw [hres] at hfin hdh hrec' hF
    -- the state after the child: no stop seen, counter unchanged
    have hs2 : s2.stopSeen = false ∧ s2.deeperHits = s.deeperHits := by
      have h1 : s.deeperHits ≤ s2.deeperHits := hF.deeper
      cases ro with
      | none => exact ⟨hfin, hdh⟩
      | some r =>
        simp only at hfin hdh
        by_cases hcut : max acc.alpha (-r.score) ≥ β
        · rw [if_pos hcut] at hfin hdh
          have f := qframe_cut s2 mv ply depth
          exact ⟨f.noStop hfin, by rw [← f.deeper]; exact hdh⟩
        · rw [if_neg hcut] at hfin hdh
          have f := hLF ⟨max acc.alpha (-r.score),
            if -r.score > acc.best.score then ⟨-r.score, some mv⟩ else acc.best⟩ s2
          refine ⟨f.noStop hfin, ?_⟩
          have := f.deeper
          omega
    obtain ⟨r, hr, hres2, hT2⟩ := hrec' hs2.1 hs2.2
    simp only at hr hT2
    subst hr
    simp only at hfin hdh ⊢
    have hcon := hres2.contract
    have hodd := hc.odd r.score
    -- the new best
    generalize hbest : (if -r.score > acc.best.score then (⟨-r.score, some mv⟩ : SearchResult) else acc.best)
      = best' at hfin hdh ⊢
    have hb' : (-r.score > acc.best.score ∧ best' = ⟨-r.score, some mv⟩) ∨
        (¬ -r.score > acc.best.score ∧ best' = acc.best) := by
      by_cases h : -r.score > acc.best.score
      · rw [if_pos h] at hbest; exact Or.inl ⟨h, hbest.symm⟩
      · rw [if_neg h] at hbest; exact Or.inr ⟨h, hbest.symm⟩
    have hR2 : RepOK s2 := hR.of_rep (by rw [hF.rep]; rfl)
    by_cases hcut : max acc.alpha (-r.score) ≥ β
    · -- beta cutoff
      rw [if_pos hcut]
      have hsc : β ≤ -r.score := by omega
      have hsc' : β ≤ c (-r.score) := (hc.ge_iff (-r.score) β (by omega) hβ).1 hsc
      have hchild := hcon.1 (by omega)
      have hnew : best' = ⟨-r.score, some mv⟩ := by
        rcases hb' with ⟨_, e⟩ | ⟨hn, _⟩
        · exact e
        · have := hc.mono (-r.score) acc.best.score (by omega)
          omega
      subst hnew
      refine ⟨_, rfl, ⟨fun h => by simp only at h; omega, fun _ => by simp only; omega,
        fun _ h => by simp only at h; omega⟩, ⟨mv, rfl, hmv⟩, fun _ h => by simp only at h; omega, ?_⟩
      simp only
      rw [(qframe_cut s2 mv ply depth).tt]; exact hT2
    · rw [if_neg hcut] at hfin hdh ⊢
      have hsc : -r.score < β := by omega
      apply ih ⟨max acc.alpha (-r.score), best'⟩ s2
        (fun m hm => hmem m (List.mem_cons_of_mem _ hm))
        (fun m hm => hex m (List.mem_cons_of_mem _ hm))
        (fun m hm => hub m (List.mem_cons_of_mem _ hm))
        ?_ (by simp only; omega) ?_ ?_ ?_ hT2 hR2 hs2.1 hfin (by rw [hdh, hs2.2])
      all_goals simp only
      all_goals by_cases hlow : -r.score ≤ acc.alpha
      · -- B, fail low
        have h1 := (hc.le_iff (-r.score) acc.alpha (by omega) (by omega)).1 hlow
        rcases hb' with ⟨hgt, e⟩ | ⟨hn, e⟩
        · subst e; simp only
          have := hc.mono acc.best.score (-r.score) (by omega)
          omega
        · subst e; omega
      · -- B, new alpha
        have h1 := hc.inside (-r.score) (by omega) (by omega)
        rcases hb' with ⟨hgt, e⟩ | ⟨hn, e⟩
        · subst e; simp only; omega
        · have := hc.mono (-r.score) acc.best.score (by omega)
          omega
      · -- C, fail low
        have h1 := (hc.le_iff (-r.score) acc.alpha (by omega) (by omega)).1 hlow
        have hchild := hcon.2.1 (by omega)
        have hbb : c acc.best.score ≤ c best'.score ∧ c (-r.score) ≤ c best'.score := by
          rcases hb' with ⟨hgt, e⟩ | ⟨hn, e⟩
          · subst e; simp only
            exact ⟨hc.mono _ _ (by omega), Int.le_refl _⟩
          · subst e; exact ⟨Int.le_refl _, hc.mono _ _ (by omega)⟩
        rcases hC with h' | ⟨m, hm, y, hy, e⟩
        · left; omega
        · rcases List.mem_cons.1 hm with e' | e'
          · subst e'; rw [hx] at hy; cases hy; left; omega
          · right; exact ⟨m, e', y, hy, e⟩
      · -- C, new alpha
        have h1 := hc.inside (-r.score) (by omega) (by omega)
        have hchild := hcon.2.2 (by omega) (by omega)
        have hnew : best' = ⟨-r.score, some mv⟩ := by
          rcases hb' with ⟨_, e⟩ | ⟨hn, _⟩
          · exact e
          · have := hc.mono (-r.score) acc.best.score (by omega)
            omega
        subst hnew; simp only
        rcases hC with h' | ⟨m, hm, y, hy, e⟩
        · left; omega
        · rcases List.mem_cons.1 hm with e' | e'
          · subst e'; rw [hx] at hy; cases hy; left; omega
          · right; exact ⟨m, e', y, hy, e⟩
      · -- D, fail low
        have h1 := (hc.le_iff (-r.score) acc.alpha (by omega) (by omega)).1 hlow
        intro hgt0
        rcases hb' with ⟨hgt, e⟩ | ⟨hn, e⟩
        · subst e; simp only at hgt0
          exfalso
          have h2 := hc.mono acc.best.score (-r.score) (by omega)
          have h3 : c acc.best.score = c (-r.score) := by omega
          have h4 := hc.inside' acc.best.score (by omega) (by omega)
          have h5 := hc.inside' (-r.score) (by omega) (by omega)
          omega
        · subst e; exact hD hgt0
      · -- D, new alpha
        have h1 := hc.inside (-r.score) (by omega) (by omega)
        have hchild := hcon.2.2 (by omega) (by omega)
        have hnew : best' = ⟨-r.score, some mv⟩ := by
          rcases hb' with ⟨_, e⟩ | ⟨hn, _⟩
          · exact e
          · have := hc.mono (-r.score) acc.best.score (by omega)
            omega
        subst hnew; simp only
        intro _
        refine ⟨by omega, ?_⟩
        intro m y hm hy
        simp only [Option.some.injEq] at hm
        subst hm
        obtain rfl : x = y := by rw [hx] at hy; exact Option.some.inj hy
        simp only
        have := hc.inside' x (by omega) (by omega)
        omega
      · -- M, fail low
        rcases hb' with ⟨_, e⟩ | ⟨_, e⟩
        · subst e; exact ⟨mv, rfl, hmv⟩
        · subst e; exact hM
      · -- M, new alpha
        rcases hb' with ⟨_, e⟩ | ⟨_, e⟩
        · subst e; exact ⟨mv, rfl, hmv⟩
        · subst e; exact hM

/-- the closed-set form of `negamaxLoop_ok_ranked`. -/
theorem negamaxLoop_ok (hc : Clamp c) (hcl : Closed G S)
    (rec : P → Nat → Int → Int → SearchState → Option SearchResult × SearchState) (d : Nat)
    (hrecF : ∀ q ply a b s, Frame s (rec q ply a b s).2) (hrec : RecOK G c S qf d rec)
    (p : P) (hSp : S p) (depth ply : Nat) (α₀ β v : Int) (hα : NEGATIVE_INFINITY ≤ α₀)
    (hβ : β ≤ INFINITY) :
    ∀ (rest : List Move) (acc : LoopAcc) (s : SearchState),
      (∀ m ∈ rest, m ∈ G.moves p) →
      (∀ m ∈ rest, ∃ x, Spec.V G qf d (G.play p m) = some x) →
      (∀ m ∈ rest, ∀ x, Spec.V G qf d (G.play p m) = some x → -c x ≤ c v) →
      acc.alpha = max α₀ (c acc.best.score) → acc.alpha < β →
      (c v ≤ c acc.best.score ∨ Attains G c qf d p rest (c v)) →
      (α₀ < c acc.best.score → c acc.best.score ≤ c v ∧ PVMove G qf d p acc.best) →
      (∃ m, acc.best.bestMove = some m ∧ m ∈ G.moves p) →
      TTSound G c S qf s.tt → RepOK s → s.stopSeen = false →
      (negamaxLoop G rec p depth ply β rest acc s).2.stopSeen = false →
      (negamaxLoop G rec p depth ply β rest acc s).2.deeperHits = s.deeperHits →
      ∃ acc', (negamaxLoop G rec p depth ply β rest acc s).1 = some acc' ∧
        Contract (c v) (c acc'.best.score) α₀ β ∧
        (∃ m, acc'.best.bestMove = some m ∧ m ∈ G.moves p) ∧
        (α₀ < c acc'.best.score → c acc'.best.score < β → PVMove G qf d p acc'.best) ∧
        TTSound G c S qf (negamaxLoop G rec p depth ply β rest acc s).2.tt :=
  negamaxLoop_ok_ranked G hc rec d hrecF hrec p (fun m hm => hcl p m hSp hm) depth ply α₀ β v hα hβ

/-! ### table hit / table store -/

/-- a usable entry of exactly the requested depth yields a correct result. -/
theorem hit_ok (hc : Clamp c) (p : P) (d : Nat) (α β v : Int) (hα : NEGATIVE_INFINITY ≤ α) (hαβ : α < β)
    (hβ : β ≤ INFINITY) (e : Entry) (hE : EntryOK G c qf p e) (hd : e.depth = d)
    (hv : Spec.V G qf d p = some v)
    (hb : e.bounds = .exact ∨ (e.bounds = .lower ∧ max α e.eval ≥ β) ∨ (e.bounds = .upper ∧ α ≥ min β e.eval)) :
    ResultOK G c qf d p α β v ⟨e.eval, e.bestMove⟩ := by
  subst hd
  have hni := negInf_eq
  have hin := inf_eq
  rcases hb with hb | ⟨hb, hcut⟩ | ⟨hb, hcut⟩
  · refine ⟨Contract.of_eq (hE.exact v hv hb) α β, hE.move, ?_⟩
    intro h1 h2 k hk m x hm hx
    exact hE.pv hb (by simp only at h1; omega) (by simp only at h2; omega) k m x hk hm hx
  · have h1 : β ≤ c e.eval := (hc.ge_iff e.eval β (by omega) hβ).1 (by omega)
    have h2 := hE.lower v hv hb
    exact ⟨⟨fun h => by simp only at h; omega, fun _ => h2, fun _ h => by simp only at h; omega⟩, hE.move,
      fun _ h => by simp only at h; omega⟩
  · have h1 : c e.eval ≤ α := (hc.le_iff e.eval α hα (by omega)).1 (by omega)
    have h2 := hE.upper v hv hb
    exact ⟨⟨fun _ => h2, fun h => by simp only at h; omega, fun h _ => by simp only at h; omega⟩, hE.move,
      fun h _ => by simp only at h; omega⟩

/-- what `negamax` stores at the end of a completed node is a sound entry. -/
theorem store_entry_ok (hc : Clamp c) (p : P) (d : Nat) (α β v : Int) (hα : NEGATIVE_INFINITY ≤ α)
    (hαβ : α < β) (hβ : β ≤ INFINITY) (r : SearchResult) (hv : Spec.V G qf (d + 1) p = some v)
    (hr : ResultOK G c qf (d + 1) p α β v r) :
    EntryOK G c qf p ⟨G.hash p, r.score, r.bestMove, d + 1, determineBound r.score α β⟩ := by
  have hni := negInf_eq
  have hin := inf_eq
  have hcon := hr.contract
  have hl := hc.le_iff r.score α hα (by omega)
  have hg := hc.ge_iff r.score β (by omega) hβ
  have hbd : (determineBound r.score α β = .upper ∧ r.score ≤ α) ∨
      (determineBound r.score α β = .lower ∧ ¬ r.score ≤ α ∧ r.score ≥ β) ∨
      (determineBound r.score α β = .exact ∧ ¬ r.score ≤ α ∧ ¬ r.score ≥ β) := by
    unfold determineBound
    by_cases h1 : r.score ≤ α
    · rw [if_pos h1]; exact Or.inl ⟨rfl, h1⟩
    · rw [if_neg h1]
      by_cases h2 : r.score ≥ β
      · rw [if_pos h2]; exact Or.inr (Or.inl ⟨rfl, h1, h2⟩)
      · rw [if_neg h2]; exact Or.inr (Or.inr ⟨rfl, h1, h2⟩)
  refine ⟨?_, ?_, ?_, ?_, ?_⟩
  · intro v' hv' hb
    simp only at hv' hb ⊢
    rw [hv] at hv'; cases hv'
    rcases hbd with ⟨e, _⟩ | ⟨e, _⟩ | ⟨_, h1, h2⟩
    · rw [e] at hb; cases hb
    · rw [e] at hb; cases hb
    · have := hc.inside r.score (by omega) (by omega)
      exact hcon.2.2 (by omega) (by omega)
  · intro v' hv' hb
    simp only at hv' hb ⊢
    rw [hv] at hv'; cases hv'
    rcases hbd with ⟨e, _⟩ | ⟨_, h1, h2⟩ | ⟨e, _⟩
    · rw [e] at hb; cases hb
    · have := hcon.2.1 (by omega); omega
    · rw [e] at hb; cases hb
  · intro v' hv' hb
    simp only at hv' hb ⊢
    rw [hv] at hv'; cases hv'
    rcases hbd with ⟨_, h1⟩ | ⟨e, _⟩ | ⟨e, _⟩
    · exact hcon.1 (by omega)
    · rw [e] at hb; cases hb
    · rw [e] at hb; cases hb
  · intro _ hm; exact hr.move (by omega) hm
  · intro hb h1 h2 k m x hk hm hx
    simp only at hb h1 h2 hk hm ⊢
    rcases hbd with ⟨e, _⟩ | ⟨e, _⟩ | ⟨_, h3, h4⟩
    · rw [e] at hb; cases hb
    · rw [e] at hb; cases hb
    · exact hr.pv (by omega) (by omega) k hk m x hm hx

theorem headD_mem {α : Type} (l : List α) (a : α) (h : l ≠ []) : l.headD a ∈ l := by
  cases l with
  | nil => exact absurd rfl h
  | cons b t => exact List.mem_cons_self

theorem innerResult_nil (rec : P → Nat → Int → Int → SearchState → Option SearchResult × SearchState)
    (d : Nat) (p : P) (ply : Nat) (α β : Int) (ttMove : Option Move) (s : SearchState) (h : G.moves p = []) :
    innerResult G rec d p ply α β ttMove s =
      if G.inCheck p then (some ⟨-CHECKMATE_SCORE + ((d + 1 : Nat) : Int), none⟩, s) else (some ⟨0, none⟩, s) := by
  unfold innerResult
  split
  · rfl
  · rename_i h'; rw [h] at h'; cases h'

theorem innerResult_cons (rec : P → Nat → Int → Int → SearchState → Option SearchResult × SearchState)
    (d : Nat) (p : P) (ply : Nat) (α β : Int) (ttMove : Option Move) (s : SearchState) (m0 : Move)
    (tl : List Move) (h : G.moves p = m0 :: tl) :
    innerResult G rec d p ply α β ttMove s =
      match negamaxLoop G rec p (d + 1) ply β (orderMoves G s p (G.moves p) ttMove ply)
          ⟨α, ⟨NEGATIVE_INFINITY, some ((orderMoves G s p (G.moves p) ttMove ply).headD m0)⟩⟩ s with
      | (none, s) => (none, s)
      | (some acc, s) => finishNode G p (d + 1) α β acc s := by
  unfold innerResult
  split
  · rename_i h'; rw [h] at h'; cases h'
  · rename_i m0' tl' h'; rw [h] at h'; cases h'; rfl

/-- an inner node after a table miss.  Ranked form: the node lies in `U` (it is stored in the table),
    its children in `N`. -/
theorem innerResult_ok_ranked {N U : P → Prop} (hc : Clamp c) (hinj : HashInj G U)
    (rec : P → Nat → Int → Int → SearchState → Option SearchResult × SearchState) (d : Nat)
    (hrecF : ∀ q ply a b s, Frame s (rec q ply a b s).2) (hrec : RecOKR G c N U qf d rec)
    (p : P) (ply : Nat) (α β : Int) (ttMove : Option Move) (s : SearchState) (v : Int)
    (hSp : U p) (hch : ∀ m ∈ G.moves p, N (G.play p m))
    (hT : TTSound G c U qf s.tt) (hR : RepOK s) (hv : Spec.V G qf (d + 1) p = some v)
    (hα : NEGATIVE_INFINITY ≤ α) (hαβ : α < β) (hβ : β ≤ INFINITY) (hs : s.stopSeen = false)
    (hfin : (innerResult G rec d p ply α β ttMove s).2.stopSeen = false)
    (hdh : (innerResult G rec d p ply α β ttMove s).2.deeperHits = s.deeperHits) :
    ∃ r, (innerResult G rec d p ply α β ttMove s).1 = some r ∧ ResultOK G c qf (d + 1) p α β v r ∧
      TTSound G c U qf (innerResult G rec d p ply α β ttMove s).2.tt := by
  cases hms : G.moves p with
  | nil =>
    rw [innerResult_nil G rec d p ply α β ttMove s hms]
    rw [V_succ_nil G qf d p hms] at hv
    by_cases hch : G.inCheck p = true
    · rw [if_pos hch] at hv ⊢
      cases hv
      exact ⟨_, rfl, ⟨Contract.of_eq rfl α β, fun _ h => absurd hms h,
        fun _ _ k _ m x hm _ => by cases hm⟩, hT⟩
    · rw [if_neg hch] at hv ⊢
      cases hv
      exact ⟨_, rfl, ⟨Contract.of_eq rfl α β, fun _ h => absurd hms h,
        fun _ _ k _ m x hm _ => by cases hm⟩, hT⟩
  | cons m0 tl =>
    have hne : G.moves p ≠ [] := by rw [hms]; simp
    obtain ⟨hex, hub, m1, hm1, x1, hx1, hach⟩ := V_children G qf d p v hne hv
    rw [innerResult_cons G rec d p ply α β ttMove s m0 tl hms] at hfin hdh ⊢
    have hperm := orderMoves_perm G s p (G.moves p) ttMove ply
    generalize orderMoves G s p (G.moves p) ttMove ply = ordered at hfin hdh hperm ⊢
    have hone : ordered ≠ [] := by
      intro h; rw [h] at hperm; exact hne (List.Perm.eq_nil hperm.symm)
    have hLF := negamaxLoop_frame G rec hrecF p (d + 1) ply β ordered
      ⟨α, ⟨NEGATIVE_INFINITY, some (ordered.headD m0)⟩⟩ s
    have hloop := negamaxLoop_ok_ranked G hc rec d hrecF hrec p hch (d + 1) ply α β v hα hβ ordered
      ⟨α, ⟨NEGATIVE_INFINITY, some (ordered.headD m0)⟩⟩ s
      (fun m hm => hperm.mem_iff.1 hm)
      (fun m hm => hex m (hperm.mem_iff.1 hm))
      (fun m hm x hx => by
        have h1 := hc.mono _ _ (hub m (hperm.mem_iff.1 hm) x hx)
        rw [hc.odd] at h1; exact h1)
      (by simp only; rw [hc.negInf]; omega) hαβ
      (Or.inr ⟨m1, hperm.mem_iff.2 hm1, x1, hx1, by rw [← hc.odd, hach]⟩)
      (fun h => by simp only at h; rw [hc.negInf] at h; omega)
      ⟨ordered.headD m0, rfl, hperm.mem_iff.1 (headD_mem ordered m0 hone)⟩
      hT hR hs
    rcases hl : negamaxLoop G rec p (d + 1) ply β ordered
      ⟨α, ⟨NEGATIVE_INFINITY, some (ordered.headD m0)⟩⟩ s with ⟨ro, s2⟩
    rw [hl] at hfin hdh hloop hLF
    have hs2 : s2.stopSeen = false ∧ s2.deeperHits = s.deeperHits := by
      cases ro with
      | none => exact ⟨hfin, hdh⟩
      | some acc =>
        simp only at hfin hdh
        have f := finishNode_frame G p (d + 1) α β acc s2
        refine ⟨f.noStop hfin, ?_⟩
        have h1 := f.deeper
        have h2 := hLF.deeper
        simp only at h2
        omega
    obtain ⟨acc, hacc, hcon, hM, hPV, hT2⟩ := hloop hs2.1 hs2.2
    simp only at hacc hT2
    subst hacc
    simp only at hfin hdh ⊢
    unfold finishNode at hfin hdh ⊢
    have hsf : stopFlag s2 = false := by
      cases h : stopFlag s2
      · rfl
      · rw [h] at hfin; simp [polled, h] at hfin
    rw [hsf] at hfin hdh ⊢
    simp only [Bool.false_eq_true, ↓reduceIte] at hfin hdh ⊢
    have hres : ResultOK G c qf (d + 1) p α β v acc.best :=
      ⟨hcon, fun _ _ => hM, fun h1 h2 k hk => by
        have : k = d := by omega
        subst this; exact hPV h1 h2⟩
    refine ⟨acc.best, rfl, hres, ?_⟩
    exact ttSound_store G hinj hT2 p hSp _ _ _ _ (store_entry_ok G hc p d α β v hα hαβ hβ acc.best hv hres)

/-- the closed-set form of `innerResult_ok_ranked`. -/
theorem innerResult_ok (hc : Clamp c) (hcl : Closed G S) (hinj : HashInj G S)
    (rec : P → Nat → Int → Int → SearchState → Option SearchResult × SearchState) (d : Nat)
    (hrecF : ∀ q ply a b s, Frame s (rec q ply a b s).2) (hrec : RecOK G c S qf d rec)
    (p : P) (ply : Nat) (α β : Int) (ttMove : Option Move) (s : SearchState) (v : Int)
    (hSp : S p) (hT : TTSound G c S qf s.tt) (hR : RepOK s) (hv : Spec.V G qf (d + 1) p = some v)
    (hα : NEGATIVE_INFINITY ≤ α) (hαβ : α < β) (hβ : β ≤ INFINITY) (hs : s.stopSeen = false)
    (hfin : (innerResult G rec d p ply α β ttMove s).2.stopSeen = false)
    (hdh : (innerResult G rec d p ply α β ttMove s).2.deeperHits = s.deeperHits) :
    ∃ r, (innerResult G rec d p ply α β ttMove s).1 = some r ∧ ResultOK G c qf (d + 1) p α β v r ∧
      TTSound G c S qf (innerResult G rec d p ply α β ttMove s).2.tt :=
  innerResult_ok_ranked G hc hinj rec d hrecF hrec p ply α β ttMove s v hSp
    (fun m hm => hcl p m hSp hm) hT hR hv hα hαβ hβ hs hfin hdh

/-- **main induction**: `negamax qfuel d` is correct for every depth. -/
theorem negamax_ok_ranked {S : Nat → P → Prop} (hc : Clamp c) (hr : Ranked G S)
    (hinj : HashInj G (Ranked.U S)) (qfuel : Nat) (hq : qf ≤ qfuel) :
    ∀ d, RecOKR G c (S d) (Ranked.U S) qf d (negamax G qfuel d) := by
  intro d
  induction d with
  | zero =>
    intro p ply α β s v hSp hT hR hv hα hαβ hβ hs hfin hdh
    rw [negamax_zero] at hfin hdh ⊢
    have hrep : (decide (ply > 0) && s.incrementNodes.isRepetition (G.hash p)) = false := by
      have hR0 : RepOK s.incrementNodes := hR.of_rep rfl
      rw [hR0.not_rep]; simp
    rw [hrep] at hfin hdh ⊢
    simp only [Bool.false_eq_true, ↓reduceIte] at hfin hdh ⊢
    rcases hp : probeTT G s.incrementNodes p 0 α β with ⟨ro, mvv, s1⟩
    rcases probeTT_cases G s.incrementNodes p 0 α β with ⟨h1, h2⟩ | ⟨e, he, hde, h1, hb, h2⟩
    all_goals rw [hp] at h1 h2 hfin hdh
    all_goals simp only at h1 h2
    all_goals subst h1
    all_goals subst h2
    all_goals simp only at hfin hdh ⊢
    · -- miss: quiescence
      unfold leafResult at hfin hdh ⊢
      have hQ := quiesce_ok G qf qfuel p α β v s.incrementNodes hαβ hv hq hs
      have hQF := quiesce_frame G qfuel p α β s.incrementNodes
      rcases hqr : quiesce G qfuel p α β s.incrementNodes with ⟨qo, s2⟩
      rw [hqr] at hQ hQF hfin hdh
      have hs2 : s2.stopSeen = false := by cases qo <;> exact hfin
      obtain ⟨r, hr, hcon⟩ := hQ hs2
      simp only at hr
      subst hr
      refine ⟨⟨r, none⟩, rfl, ⟨hc.contract hcon hα hαβ hβ, fun h => by omega,
        fun _ _ k hk => by omega⟩, ?_⟩
      simp only
      rw [hQF.tt]; exact hT
    · -- hit
      have hnd := counted_deeper _ _ _ hdh
      refine ⟨_, rfl, hit_ok G hc p 0 α β v hα hαβ hβ e (hT p (Ranked.mem_U hSp) e he) (by omega) hv hb, ?_⟩
      rw [counted_tt]; exact hT
  | succ d ih =>
    intro p ply α β s v hSp hT hR hv hα hαβ hβ hs hfin hdh
    rw [negamax_succ] at hfin hdh ⊢
    have hrep : (decide (ply > 0) && s.incrementNodes.isRepetition (G.hash p)) = false := by
      have hR0 : RepOK s.incrementNodes := hR.of_rep rfl
      rw [hR0.not_rep]; simp
    rw [hrep] at hfin hdh ⊢
    simp only [Bool.false_eq_true, ↓reduceIte] at hfin hdh ⊢
    rcases hp : probeTT G s.incrementNodes p (d + 1) α β with ⟨ro, mvv, s1⟩
    rcases probeTT_cases G s.incrementNodes p (d + 1) α β with ⟨h1, h2⟩ | ⟨e, he, hde, h1, hb, h2⟩
    all_goals rw [hp] at h1 h2 hfin hdh
    all_goals simp only at h1 h2
    all_goals subst h1
    all_goals subst h2
    all_goals simp only at hfin hdh ⊢
    · -- miss: the move loop
      exact innerResult_ok_ranked G hc hinj (negamax G qfuel d) d (negamax_frame G qfuel d) ih p ply α β mvv
        s.incrementNodes v (Ranked.mem_U hSp) (fun m hm => hr.step d p m hSp hm) hT (hR.of_rep rfl) hv hα hαβ hβ
        hs hfin hdh
    · -- hit
      have hnd := counted_deeper _ _ _ hdh
      refine ⟨_, rfl, hit_ok G hc p (d + 1) α β v hα hαβ hβ e (hT p (Ranked.mem_U hSp) e he) (by omega) hv hb, ?_⟩
      rw [counted_tt]; exact hT

/-- **main induction**, closed-set form: a closed set is a constant ranked family. -/
theorem negamax_ok (hc : Clamp c) (hcl : Closed G S) (hinj : HashInj G S) (qfuel : Nat) (hq : qf ≤ qfuel) :
    ∀ d, RecOK G c S qf d (negamax G qfuel d) := by
  intro d
  have h := negamax_ok_ranked G (S := fun _ => S) hc (Ranked.ofClosed hcl)
    (by rw [Ranked.U_const]; exact hinj) qfuel hq d
  rw [Ranked.U_const] at h
  exact h

end contract
end Flounder.Search
