/-
  Restriction of a game to an invariant.

  Several abstract hypotheses of the search theorems quantify over ALL positions of the game
  (`EvalBound G : ∀ p, -INFINITY < eval p < INFINITY`).  The chess instance does not satisfy them on arbitrary
  (inconsistent, 64-queen) bitboards, only on boards that can occur.  `Game.restrict G I hm hq` is the same game
  on the subtype `{p // I p}` of an invariant `I` that every generated move and every quiescence move preserves;
  `play` on a move that is NOT generated stays put (the search never does that).

  Transfer: the search on the restricted game IS the search on the original game — answer and final state are
  EQUAL (`quiesce_restrict`, `negamax_restrict`, `searchPosition_restrict`, `iterate_restrict`,
  `findBestMove_restrict`), and so are the reference values (`Q_restrict`, `V_restrict`).
-/
import Flounder.Lemmas.SearchIterate

namespace Flounder
open Gen Flounder.Search

variable {P : Type}

open Classical in
/-- the game `G` on the positions satisfying an invariant `I` of its generated moves.  (Membership in the move
    lists is decided classically: the definition is only reasoned about, never run.) -/
noncomputable def Game.restrict (G : Game P) (I : P → Prop)
    (hm : ∀ p m, I p → m ∈ G.moves p → I (G.play p m))
    (hq : ∀ p m, I p → m ∈ G.qmoves p → I (G.play p m)) : Game {p // I p} where
  moves := fun p => G.moves p.1
  qmoves := fun p => G.qmoves p.1
  play := fun p m =>
    if h : m ∈ G.moves p.1 then ⟨G.play p.1 m, hm p.1 m p.2 h⟩
    else if h' : m ∈ G.qmoves p.1 then ⟨G.play p.1 m, hq p.1 m p.2 h'⟩
    else p
  inCheck := fun p => G.inCheck p.1
  eval := fun p => G.eval p.1
  hash := fun p => G.hash p.1
  pieceAt := fun p => G.pieceAt p.1

namespace Restrict

variable (G : Game P) (I : P → Prop)
  (hm : ∀ p m, I p → m ∈ G.moves p → I (G.play p m))
  (hq : ∀ p m, I p → m ∈ G.qmoves p → I (G.play p m))

/-! ### the fields -/

@[simp] theorem moves_eq (p : {p // I p}) : (G.restrict I hm hq).moves p = G.moves p.1 := rfl
@[simp] theorem qmoves_eq (p : {p // I p}) : (G.restrict I hm hq).qmoves p = G.qmoves p.1 := rfl
@[simp] theorem inCheck_eq (p : {p // I p}) : (G.restrict I hm hq).inCheck p = G.inCheck p.1 := rfl
@[simp] theorem eval_eq (p : {p // I p}) : (G.restrict I hm hq).eval p = G.eval p.1 := rfl
@[simp] theorem hash_eq (p : {p // I p}) : (G.restrict I hm hq).hash p = G.hash p.1 := rfl
@[simp] theorem pieceAt_eq (p : {p // I p}) : (G.restrict I hm hq).pieceAt p = G.pieceAt p.1 := rfl

/-- a generated move is played as in `G`. -/
theorem play_moves (p : {p // I p}) (m : Move) (h : m ∈ G.moves p.1) :
    (G.restrict I hm hq).play p m = ⟨G.play p.1 m, hm p.1 m p.2 h⟩ := by
  simp only [Game.restrict, dif_pos h]

/-- so is a quiescence move. -/
theorem play_qmoves (p : {p // I p}) (m : Move) (h : m ∈ G.qmoves p.1) :
    (G.restrict I hm hq).play p m = ⟨G.play p.1 m, hq p.1 m p.2 h⟩ := by
  by_cases h1 : m ∈ G.moves p.1
  · simp only [Game.restrict, dif_pos h1]
  · simp only [Game.restrict, dif_neg h1, dif_pos h]

theorem play_val (p : {p // I p}) (m : Move) (h : m ∈ G.moves p.1 ∨ m ∈ G.qmoves p.1) :
    ((G.restrict I hm hq).play p m).1 = G.play p.1 m := by
  rcases h with h | h
  · rw [play_moves G I hm hq p m h]
  · rw [play_qmoves G I hm hq p m h]

/-- the move list of a quiescence node. -/
theorem qList_eq (p : {p // I p}) : qList (G.restrict I hm hq) p = qList G p.1 := rfl

theorem mem_qList {p : P} {m : Move} (h : m ∈ qList G p) : m ∈ G.moves p ∨ m ∈ G.qmoves p := by
  unfold qList at h
  split at h
  · exact Or.inl h
  · exact Or.inr h

/-! ### ordering, probing: read the position through the fields only -/

theorem orderMoves_eq (s : SearchState) (p : {p // I p}) (ms : List Move) (tt : Option Move) (ply : Nat) :
    orderMoves (G.restrict I hm hq) s p ms tt ply = orderMoves G s p.1 ms tt ply := rfl

theorem orderCaptures_eq (p : {p // I p}) (ms : List Move) :
    orderCaptures (G.restrict I hm hq) p ms = orderCaptures G p.1 ms := rfl

theorem probeTT_eq (s : SearchState) (p : {p // I p}) (depth : Nat) (α β : Int) :
    probeTT (G.restrict I hm hq) s p depth α β = probeTT G s p.1 depth α β := rfl

/-! ### quiescence -/

theorem quiesceLoop_restrict
    (rec' : {p // I p} → Int → Int → SearchState → Option Int × SearchState)
    (rec : P → Int → Int → SearchState → Option Int × SearchState)
    (hrec : ∀ q a b s, rec' q a b s = rec q.1 a b s) (p : {p // I p}) (β : Int) :
    ∀ (ms : List Move), (∀ m ∈ ms, m ∈ G.moves p.1 ∨ m ∈ G.qmoves p.1) → ∀ (α : Int) (s : SearchState),
      quiesceLoop (G.restrict I hm hq) rec' p β ms α s = quiesceLoop G rec p.1 β ms α s := by
  intro ms
  induction ms with
  | nil => intro _ α s; rfl
  | cons mv rest ih =>
    intro hmem α s
    rw [quiesceLoop_cons, quiesceLoop_cons]
    by_cases hst : stopFlag s = true
    · rw [if_pos hst, if_pos hst]
    · rw [if_neg hst, if_neg hst, hrec, play_val G I hm hq p mv (hmem mv List.mem_cons_self)]
      rcases rec (G.play p.1 mv) (-β) (-α) (polled s) with ⟨ro, s2⟩
      cases ro with
      | none => rfl
      | some v =>
        simp only
        rw [ih (fun m h => hmem m (List.mem_cons_of_mem _ h))]

theorem quiesce_restrict (fuel : Nat) : ∀ (p : {p // I p}) (α β : Int) (s : SearchState),
    quiesce (G.restrict I hm hq) fuel p α β s = quiesce G fuel p.1 α β s := by
  induction fuel with
  | zero => intro p α β s; rfl
  | succ fuel ih =>
    intro p α β s
    have e : quiesce (G.restrict I hm hq) (fuel + 1) p α β s =
        if ((orderCaptures G p.1 (qList G p.1)).isEmpty && G.inCheck p.1) = true then
          (some (-CHECKMATE_SCORE), s.incrementNodes)
        else if G.eval p.1 ≥ β then (some β, s.incrementNodes)
        else quiesceLoop (G.restrict I hm hq) (quiesce (G.restrict I hm hq) fuel) p β
          (orderCaptures G p.1 (qList G p.1)) (max α (G.eval p.1)) s.incrementNodes :=
      quiesce_succ (G.restrict I hm hq) fuel p α β s
    rw [e, quiesce_succ]
    rw [quiesceLoop_restrict G I hm hq (quiesce (G.restrict I hm hq) fuel) (quiesce G fuel) ih p β
      (orderCaptures G p.1 (qList G p.1))
      (fun m h => mem_qList G ((orderCaptures_perm G p.1 (qList G p.1)).mem_iff.1 h))]

/-! ### negamax -/

theorem negamaxLoop_restrict
    (rec' : {p // I p} → Nat → Int → Int → SearchState → Option SearchResult × SearchState)
    (rec : P → Nat → Int → Int → SearchState → Option SearchResult × SearchState)
    (hrec : ∀ q ply a b s, rec' q ply a b s = rec q.1 ply a b s) (p : {p // I p}) (depth ply : Nat) (β : Int) :
    ∀ (ms : List Move), (∀ m ∈ ms, m ∈ G.moves p.1) → ∀ (acc : LoopAcc) (s : SearchState),
      negamaxLoop (G.restrict I hm hq) rec' p depth ply β ms acc s = negamaxLoop G rec p.1 depth ply β ms acc s := by
  intro ms
  induction ms with
  | nil => intro _ acc s; rfl
  | cons mv rest ih =>
    intro hmem acc s
    rw [negamaxLoop_cons, negamaxLoop_cons]
    by_cases hst : stopFlag s = true
    · rw [if_pos hst, if_pos hst]
    · rw [if_neg hst, if_neg hst, hrec, play_val G I hm hq p mv (Or.inl (hmem mv List.mem_cons_self))]
      rcases rec (G.play p.1 mv) (ply + 1) (-β) (-acc.alpha) (polled s) with ⟨ro, s2⟩
      cases ro with
      | none => rfl
      | some r =>
        simp only
        rw [ih (fun m h => hmem m (List.mem_cons_of_mem _ h))]

theorem leafResult_restrict (qfuel : Nat) (p : {p // I p}) (α β : Int) (s : SearchState) :
    leafResult (G.restrict I hm hq) qfuel p α β s = leafResult G qfuel p.1 α β s := by
  unfold leafResult
  rw [quiesce_restrict]

theorem finishNode_restrict (p : {p // I p}) (d1 : Nat) (α β : Int) (acc : LoopAcc) (s : SearchState) :
    finishNode (G.restrict I hm hq) p d1 α β acc s = finishNode G p.1 d1 α β acc s := rfl

theorem innerResult_restrict
    (rec' : {p // I p} → Nat → Int → Int → SearchState → Option SearchResult × SearchState)
    (rec : P → Nat → Int → Int → SearchState → Option SearchResult × SearchState)
    (hrec : ∀ q ply a b s, rec' q ply a b s = rec q.1 ply a b s) (d : Nat) (p : {p // I p}) (ply : Nat)
    (α β : Int) (ttMove : Option Move) (s : SearchState) :
    innerResult (G.restrict I hm hq) rec' d p ply α β ttMove s = innerResult G rec d p.1 ply α β ttMove s := by
  have e : innerResult (G.restrict I hm hq) rec' d p ply α β ttMove s =
      match G.moves p.1 with
      | [] =>
        if G.inCheck p.1 then (some ⟨-CHECKMATE_SCORE + ((d + 1 : Nat) : Int), none⟩, s) else (some ⟨0, none⟩, s)
      | m0 :: _ =>
        match negamaxLoop (G.restrict I hm hq) rec' p (d + 1) ply β (orderMoves G s p.1 (G.moves p.1) ttMove ply)
            ⟨α, ⟨NEGATIVE_INFINITY, some ((orderMoves G s p.1 (G.moves p.1) ttMove ply).headD m0)⟩⟩ s with
        | (none, s) => (none, s)
        | (some acc, s) => finishNode G p.1 (d + 1) α β acc s := rfl
  rw [e]
  unfold innerResult
  cases hms : G.moves p.1 with
  | nil => rfl
  | cons m0 tl =>
    simp only
    rw [negamaxLoop_restrict G I hm hq rec' rec hrec p (d + 1) ply β _
      (fun m h => by
        have := (orderMoves_perm G s p.1 (m0 :: tl) ttMove ply).mem_iff.1 h
        rw [hms]; exact this)]
    rcases negamaxLoop G rec p.1 (d + 1) ply β (orderMoves G s p.1 (m0 :: tl) ttMove ply)
      ⟨α, ⟨NEGATIVE_INFINITY, some ((orderMoves G s p.1 (m0 :: tl) ttMove ply).headD m0)⟩⟩ s with ⟨ro, s2⟩
    cases ro with
    | none => rfl
    | some acc => rfl

theorem negamax_restrict (qfuel : Nat) (d : Nat) : ∀ (p : {p // I p}) (ply : Nat) (α β : Int) (s : SearchState),
    negamax (G.restrict I hm hq) qfuel d p ply α β s = negamax G qfuel d p.1 ply α β s := by
  induction d with
  | zero =>
    intro p ply α β s
    have e : negamax (G.restrict I hm hq) qfuel 0 p ply α β s =
        if (decide (ply > 0) && s.incrementNodes.isRepetition (G.hash p.1)) = true then
          (some ⟨0, none⟩, s.incrementNodes)
        else
          match probeTT G s.incrementNodes p.1 0 α β with
          | (some cached, _, s) => (some cached, s)
          | (none, _, s) => leafResult (G.restrict I hm hq) qfuel p α β s :=
      negamax_zero (G.restrict I hm hq) qfuel p ply α β s
    rw [e, negamax_zero]
    by_cases hrep : (decide (ply > 0) && s.incrementNodes.isRepetition (G.hash p.1)) = true
    · rw [if_pos hrep, if_pos hrep]
    · rw [if_neg hrep, if_neg hrep]
      rcases probeTT G s.incrementNodes p.1 0 α β with ⟨ro, mv, s1⟩
      cases ro with
      | some c => rfl
      | none => exact leafResult_restrict G I hm hq qfuel p α β s1
  | succ d ih =>
    intro p ply α β s
    have e : negamax (G.restrict I hm hq) qfuel (d + 1) p ply α β s =
        if (decide (ply > 0) && s.incrementNodes.isRepetition (G.hash p.1)) = true then
          (some ⟨0, none⟩, s.incrementNodes)
        else
          match probeTT G s.incrementNodes p.1 (d + 1) α β with
          | (some cached, _, s) => (some cached, s)
          | (none, ttMove, s) =>
            innerResult (G.restrict I hm hq) (negamax (G.restrict I hm hq) qfuel d) d p ply α β ttMove s :=
      negamax_succ (G.restrict I hm hq) qfuel d p ply α β s
    rw [e, negamax_succ]
    by_cases hrep : (decide (ply > 0) && s.incrementNodes.isRepetition (G.hash p.1)) = true
    · rw [if_pos hrep, if_pos hrep]
    · rw [if_neg hrep, if_neg hrep]
      rcases probeTT G s.incrementNodes p.1 (d + 1) α β with ⟨ro, mv, s1⟩
      cases ro with
      | some c => rfl
      | none => exact innerResult_restrict G I hm hq _ _ ih d p ply α β mv s1

/-! ### search_position, the iteration loop, find_best_move -/

theorem searchPosition_restrict (qfuel : Nat) (p : {p // I p}) (depth : Nat) (s : SearchState) :
    searchPosition (G.restrict I hm hq) qfuel p depth s = searchPosition G qfuel p.1 depth s := by
  rw [searchPosition_eq, searchPosition_eq, negamax_restrict]
  rfl

theorem iterate_restrict (qfuel : Nat) (p : {p // I p}) (maxDepth : Nat) :
    ∀ (n cur : Nat) (best : Int × Option Move) (s : SearchState),
      iterate (G.restrict I hm hq) qfuel p maxDepth n cur best s = iterate G qfuel p.1 maxDepth n cur best s := by
  intro n
  induction n with
  | zero => intro cur best s; rfl
  | succ n ih =>
    intro cur best s
    rw [iterate_succ, iterate_succ, searchPosition_restrict]
    by_cases h1 : cur > maxDepth
    · rw [if_pos h1, if_pos h1]
    · rw [if_neg h1, if_neg h1]
      by_cases h2 : stopFlag s = true
      · rw [if_pos h2, if_pos h2]
      · rw [if_neg h2, if_neg h2]
        rcases searchPosition G qfuel p.1 cur (polled s) with ⟨ro, s2⟩
        cases ro with
        | none => rfl
        | some r =>
          simp only
          rw [ih, ih]
          rfl

/-- **transfer**: `find_best_move` on the restricted game is `find_best_move` on the game — same answer, same
    final state. -/
theorem findBestMove_restrict (qfuel : Nat) (p : {p // I p}) (D : Nat) (limit : Limit) (s : SearchState) :
    findBestMove (G.restrict I hm hq) qfuel p D limit s = findBestMove G qfuel p.1 D limit s := by
  rw [findBestMove_eq, findBestMove_eq, iterate_restrict]
  rfl

/-- the same with the subtype element spelled out. -/
theorem findBestMove_restrict' (qfuel : Nat) (p : P) (hp : I p) (D : Nat) (limit : Limit) (s : SearchState) :
    findBestMove (G.restrict I hm hq) qfuel ⟨p, hp⟩ D limit s = findBestMove G qfuel p D limit s :=
  findBestMove_restrict G I hm hq qfuel ⟨p, hp⟩ D limit s

/-! ### the reference values -/

theorem qRelevant_restrict (p c : {p // I p}) :
    Spec.qRelevant (G.restrict I hm hq) p c = Spec.qRelevant G p.1 c.1 := rfl

theorem Q_restrict (n : Nat) : ∀ (p : {p // I p}), Spec.Q (G.restrict I hm hq) n p = Spec.Q G n p.1 := by
  induction n with
  | zero => intro p; rfl
  | succ n ih =>
    intro p
    have e : Spec.Q (G.restrict I hm hq) (n + 1) p =
        if (qList G p.1).isEmpty && G.inCheck p.1 then some (-CHECKMATE_SCORE)
        else (qList G p.1).foldl
          (relStep (fun m => Spec.Q (G.restrict I hm hq) n ((G.restrict I hm hq).play p m))
            (qRel (G.restrict I hm hq) p) (n == 0))
          (some (G.eval p.1)) := Q_succ (G.restrict I hm hq) n p
    rw [e, Q_succ]
    by_cases hc : ((qList G p.1).isEmpty && G.inCheck p.1) = true
    · rw [if_pos hc, if_pos hc]
    · rw [if_neg hc, if_neg hc]
      apply relFold_congr
      · intro m hmem
        show Spec.qRelevant (G.restrict I hm hq) p ((G.restrict I hm hq).play p m) =
          Spec.qRelevant G p.1 (G.play p.1 m)
        rw [qRelevant_restrict, play_val G I hm hq p m (mem_qList G hmem)]
      · intro m hmem
        rw [ih, play_val G I hm hq p m (mem_qList G hmem)]

theorem V_restrict (qf d : Nat) : ∀ (p : {p // I p}), Spec.V (G.restrict I hm hq) qf d p = Spec.V G qf d p.1 := by
  induction d with
  | zero => intro p; exact Q_restrict G I hm hq qf p
  | succ d ih =>
    intro p
    cases hms : G.moves p.1 with
    | nil =>
      rw [V_succ_nil (G.restrict I hm hq) qf d p hms, V_succ_nil G qf d p.1 hms]
      rfl
    | cons m0 ms =>
      have hmem : ∀ m ∈ m0 :: ms, m ∈ G.moves p.1 := fun m h => by rw [hms]; exact h
      rw [V_succ_cons (G.restrict I hm hq) qf d p m0 ms hms, V_succ_cons G qf d p.1 m0 ms hms, ih,
        play_val G I hm hq p m0 (Or.inl (hmem m0 List.mem_cons_self))]
      apply foldl_congr
      intro m h
      rw [ih, play_val G I hm hq p m (Or.inl (hmem m (List.mem_cons_of_mem _ h)))]

end Restrict
end Flounder
