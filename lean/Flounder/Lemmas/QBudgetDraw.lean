/-
  The budgeted evaluator `Spec.Vdb` (Spec/Budget.lean) is sound for the reference value with a draw
  predicate `Spec.Vd` (Spec/MinimaxDraw.lean): whenever it returns a value, it is the reference value.
-/
import Flounder.Lemmas.QBudget
import Flounder.Lemmas.DrawSpec

namespace Flounder.Spec
open Flounder Gen Flounder.Search

section spec
variable {P : Type} (G : Game P)

theorem Vdb_zero (drawn : P → Bool) (qf : Nat) (root : Bool) (p : P) (b : Nat) :
    Vdb G drawn qf 0 root p b = if (!root && drawn p) = true then (some 0, b) else Qb G qf p b := by
  rw [Vdb]

theorem Vdb_succ (drawn : P → Bool) (qf d : Nat) (root : Bool) (p : P) (b : Nat) :
    Vdb G drawn qf (d + 1) root p b =
      if (!root && drawn p) = true then (some 0, b)
      else
        match G.moves p with
        | [] => (if G.inCheck p then some (-CHECKMATE_SCORE + ((d + 1 : Nat) : Int)) else some 0, b)
        | m :: ms =>
          match Vdb G drawn qf d false (G.play p m) b with
          | (none, b) => (none, b)
          | (some v0, b) =>
            ms.foldl (bStep (fun mv b => Vdb G drawn qf d false (G.play p mv) b)) (some (-v0), b) := by
  rw [Vdb]; rfl

/-- whenever the budgeted evaluator with a draw predicate returns a value, it is the reference value. -/
theorem Vdb_sound (drawn : P → Bool) (qfuel : Nat) : ∀ (d : Nat) (root : Bool) (p : P) (b : Nat) (v : Int),
    (Vdb G drawn qfuel d root p b).1 = some v → Vd G drawn qfuel d root p = some v := by
  intro d
  induction d with
  | zero =>
    intro root p b v h
    rw [Vdb_zero] at h; rw [Vd_zero]
    split at h
    · rename_i hd; rw [if_pos hd]; exact h
    · rename_i hd; rw [if_neg hd]; exact Qb_sound G _ _ _ _ h
  | succ d ih =>
    intro root p b v h
    rw [Vdb_succ] at h; rw [Vd_succ]
    split at h
    · rename_i hd; rw [if_pos hd]; exact h
    · rename_i hd
      rw [if_neg hd]
      cases hmv : G.moves p with
      | nil => rw [hmv] at h; exact h
      | cons m ms =>
        rw [hmv] at h
        simp only at h ⊢
        cases hq : Vdb G drawn qfuel d false (G.play p m) b with
        | mk o b' =>
          rw [hq] at h
          cases o with
          | none => cases h
          | some v0 =>
            have e : Vd G drawn qfuel d false (G.play p m) = some v0 := ih _ _ b v0 (by rw [hq])
            rw [e]
            exact bFold_sound _ _ _ (fun mv _ b v hv => ih _ _ b v hv) _ _ _ h

end spec

end Flounder.Spec

#print axioms Flounder.Spec.Vdb_sound
