/-
  C01, layers L4/L5 — king moves and castling: the engine's tests (`attacks_to(dst) == 0`, `is_legal_castle`)
  against the rules (`castleSafe`, `kingSafeAfter`), and the corresponding cases of `is_legal`.
-/
import Flounder.Lemmas.Attacks

namespace Flounder.Spec
open Flounder Flounder.Gen Flounder.MoveGenerator

/-! ### the king after a move -/

/-- if the mover's only king stood on `src`, then after the move a king of the mover can only stand on `dst`
    (a king found elsewhere would have been a second king before the move). -/
theorem play_king_unique {p : Pos} {m : Move} (hu : ∀ s, s < 64 → p.board s = some (p.turn, .king) → s = m.src) :
    ∀ s, s < 64 → playBoard p m s = some (p.turn, .king) → s = m.dst := by
  intro s hs h
  apply Classical.byContradiction
  intro hne
  rcases playBoard_some p m hne h with ⟨h1, h2⟩ | ⟨_, hx⟩
  · exact h2 (hu s hs h1)
  · cases hx

theorem kingSafeAfter_eq {p : Pos} {m : Move} (hd : m.dst < 64) (hp : m.piece = .king)
    (hu : ∀ s, s < 64 → p.board s = some (p.turn, .king) → s = m.src) :
    kingSafeAfter p m = !attacked (playBoard p m) p.turn.other m.dst := by
  unfold kingSafeAfter
  show (!inCheckOf (playBoard p m) p.turn) = _
  rw [inCheckOf_unique hd (by rw [playBoard_dst, hp]) (play_king_unique hu)]

/-! ### goal 4: king moves -/

theorem king_step_attacked {p : Pos} (hv : ValidPos p) {m : Move} (hps : pseudo p m = true)
    (hp : m.piece = .king) (hk : m.kind ≠ .castle) :
    m.dst < 64 ∧ (∀ s, s < 64 → p.board s = some (p.turn, .king) → s = m.src) ∧
    attacked (liftKing p.board p.turn) p.turn.other m.dst = attacked (playBoard p m) p.turn.other m.dst := by
  obtain ⟨pc, hf⟩ := playFacts hv hps
  have hpc : pc = .king := hf.king_iff.1 hp
  subst hpc
  have hsrc := hf.src
  obtain ⟨k, _, hbk, huk⟩ := hv.king p.turn
  have hks : m.src = k := huk _ hf.hs hsrc
  have hu : ∀ s, s < 64 → p.board s = some (p.turn, .king) → s = m.src := fun s hs h => by rw [hks]; exact huk s hs h
  have hkep : m.kind ≠ .enPassant := fun h => by
    have := (hf.pieceEp h).2
    rw [hp] at this; cases this
  have hoth : ∀ u, u ≠ m.dst → u ≠ m.src → playBoard p m u = p.board u := fun u h1 h2 =>
    playBoard_other p m h1 h2 (fun h => hkep h.1) (fun h => hk h.1) (fun h => hk h.1)
  have hsd := hf.src_ne_dst
  have hd := hf.hd
  refine ⟨hd, hu, bool_eq_of_imp ?_ ?_⟩
  · refine attacked_mono (fun s hs q h1 h2 => ?_)
    have hbs := liftKing_some h1
    have hsd' : s ≠ m.dst := manAttacks_ne hs h2
    have hss : s ≠ m.src := fun h => by
      rw [h, hsrc] at hbs
      exact Color.other_ne _ (congrArg Prod.fst (Option.some.inj hbs)).symm
    refine ⟨by rw [hoth s hsd' hss]; exact hbs, manAttacks_mono h2 ?_⟩
    intro _ hc u hu'
    have hud : u ≠ m.dst := between_ne_right hu'
    have hu64 := strictlyBetween_lt hs hd hu'
    by_cases hus : u = m.src
    · rw [hus]; exact playBoard_src p m hsd
    · rw [hoth u hud hus]
      have := hc u hu'
      rwa [liftKing_of_ne (fun h' => hus (hu u hu64 h'))] at this
  · refine attacked_mono (fun s hs q h1 h2 => ?_)
    have hsd' : s ≠ m.dst := manAttacks_ne hs h2
    rcases playBoard_some p m hsd' h1 with ⟨hbs, _⟩ | ⟨hk', _⟩
    · refine ⟨liftKing_other hbs, manAttacks_mono h2 ?_⟩
      intro _ hc u hu'
      have hud : u ≠ m.dst := between_ne_right hu'
      by_cases hus : u = m.src
      · rw [hus]; exact liftKing_king hsrc
      · have := hc u hu'
        rw [hoth u hud hus] at this
        exact liftKing_none this
    · exact absurd hk' hk

/-- **king moves**: the engine's test `attacks_to(board, to) == 0` is "the king is safe afterwards". -/
theorem king_move_exact {g : MoveGenerator} (hl : LookupExact g.lookup) {b : Board} (hv : valid b = true)
    {m : Move} (hg : pseudoGeom (abs b) m = true) (hp : m.piece = .king) (hk : m.kind ≠ .castle) :
    (g.attacksTo b m.dst == 0) = kingSafeAfter (abs b) m := by
  obtain ⟨hb, hvp⟩ := (valid_iff b).1 hv
  have hps : pseudo (abs b) m = true := by rw [← pseudoGeom_of_ne_castle hk]; exact hg
  obtain ⟨hd, hu, he⟩ := king_step_attacked hvp hps hp hk
  rw [attacksTo_eq_zero hl hb hd, kingSafeAfter_eq hd hp hu]
  exact congrArg (!·) he

/-! ### goal 5: castling -/

theorem pseudoGeom_castle {p : Pos} {m : Move} (hk : m.kind = .castle) (h : pseudoGeom p m = true) :
    m.src < 64 ∧ m.dst < 64 ∧ m.piece = .king ∧ p.board m.src = some (p.turn, .king) ∧ m.src = kingHome p.turn ∧
    (m.dst = kingHome p.turn + 2 ∨ m.dst + 2 = kingHome p.turn) ∧
    p.board (rookHome p.turn (m.dst == kingHome p.turn + 2)) = some (p.turn, .rook) ∧
    pathClear p.board m.src (rookHome p.turn (m.dst == kingHome p.turn + 2)) = true := by
  obtain ⟨s, d, mp, kind⟩ := m
  simp only at hk
  subst hk
  unfold pseudoGeom at h
  simp only [Bool.and_eq_true, decide_eq_true_eq] at h
  obtain ⟨⟨hs, hd⟩, h⟩ := h
  split at h
  · cases h
  · rename_i c' pc' hsrc
    simp only [Bool.and_eq_true, Bool.or_eq_true, beq_iff_eq] at h
    obtain ⟨h1, ⟨⟨⟨h2, h3⟩, h4⟩, h5⟩, ⟨⟨h6, h7⟩, h8⟩⟩ := h
    subst h1 h2 h3
    exact ⟨hs, hd, rfl, hsrc, h4, h5, h7, h8⟩

/-- the squares `is_legal_castle` examines. -/
def castleSquares (c : Color) (dst : Nat) : List Nat :=
  match c with
  | .white => if dst == G1 then CASTLE_CHECK_WK else CASTLE_CHECK_WQ
  | .black => if dst == G8 then CASTLE_CHECK_BK else CASTLE_CHECK_BQ

theorem isLegalCastle_eq (g : MoveGenerator) (b : Board) (m : Move) (n : Nat) :
    g.isLegalCastle b m n =
      (if n != 0 then false else (castleSquares b.active m.dst).all fun s => g.attacksTo b s == 0) := by
  unfold isLegalCastle castleSquares
  cases b.active <;> rfl

/-- the square the king passes over. -/
def transit (c : Color) (d : Nat) : Nat := if d == kingHome c + 2 then kingHome c + 1 else kingHome c - 1

theorem castleSquares_all (c : Color) {d : Nat} (hd : d = kingHome c + 2 ∨ d + 2 = kingHome c) (f : Nat → Bool) :
    (castleSquares c d).all f = (f (transit c d) && f d) ∧ transit c d < 64 := by
  cases c <;> rcases hd with hd | hd
  · subst hd
    exact ⟨by simp [castleSquares, transit, kingHome, G1, CASTLE_CHECK_WK], by decide⟩
  · have hd' : d = 2 := by simp only [kingHome] at hd; omega
    subst hd'
    exact ⟨by simp [castleSquares, transit, kingHome, G1, CASTLE_CHECK_WQ, Bool.and_comm], by decide⟩
  · subst hd
    exact ⟨by simp [castleSquares, transit, kingHome, G8, CASTLE_CHECK_BK], by decide⟩
  · have hd' : d = 58 := by simp only [kingHome] at hd; omega
    subst hd'
    exact ⟨by simp [castleSquares, transit, kingHome, G8, CASTLE_CHECK_BQ, Bool.and_comm], by decide⟩

theorem countOnes_eq_zero (x : UInt64) : (countOnes x != 0) = (x != 0) := by
  by_cases h : x = 0
  · subst h
    unfold countOnes
    rw [squaresOf_zero]; rfl
  · obtain ⟨s, hs, hh⟩ := exists_hasSq_of_ne_zero x h
    have : 0 < countOnes x := List.length_pos_of_mem ((mem_squaresOf x s).2 ⟨hs, hh⟩)
    have h1 : (countOnes x != 0) = true := by simp; omega
    have h2 : (x != 0) = true := by simpa using h
    rw [h1, h2]

/-- finite facts about the four castlings. -/
def castleWalkCheck (c : Color) (d : Nat) : Bool :=
  (strictlyBetween (kingHome c) d).contains (rookTo d) &&
  rookTo d != d && rookTo d != kingHome c && rookTo d != rookHome c (file d == 6) &&
  (List.range 64).all fun s =>
    !(diagonal s d || orthogonal s d) || !(strictlyBetween s d).contains (rookHome c (file d == 6))

theorem castleWalkCheck_ok : castleWalkCheck .white 6 && castleWalkCheck .white 2 &&
    castleWalkCheck .black 62 && castleWalkCheck .black 58 = true := by decide +kernel

theorem castle_walk (c : Color) {d : Nat} (hd : d = kingHome c + 2 ∨ d + 2 = kingHome c) :
    rookTo d ∈ strictlyBetween (kingHome c) d ∧ rookTo d ≠ d ∧ rookTo d ≠ kingHome c ∧
    rookTo d ≠ rookHome c (file d == 6) ∧
    ∀ s, s < 64 → (diagonal s d || orthogonal s d) = true →
      rookHome c (file d == 6) ∉ strictlyBetween s d := by
  have h := castleWalkCheck_ok
  simp only [Bool.and_eq_true] at h
  obtain ⟨⟨⟨h1, h2⟩, h3⟩, h4⟩ := h
  have key : castleWalkCheck c d = true := by
    cases c <;> rcases hd with hd | hd
    · subst hd; exact h1
    · have hd' : d = 2 := by simp only [kingHome] at hd; omega
      subst hd'; exact h2
    · subst hd; exact h3
    · have hd' : d = 58 := by simp only [kingHome] at hd; omega
      subst hd'; exact h4
  unfold castleWalkCheck at key
  simp only [Bool.and_eq_true, List.contains_iff_mem, bne_iff_ne, ne_eq, List.all_eq_true, List.mem_range,
    Bool.or_eq_true, Bool.not_eq_true'] at key
  obtain ⟨⟨⟨⟨k1, k2⟩, k3⟩, k4⟩, k5⟩ := key
  refine ⟨k1, k2, k3, k4, fun s hs ha hm => ?_⟩
  rcases k5 s hs with h | h
  · simp only [Bool.or_eq_false_iff] at h
    simp only [Bool.or_eq_true] at ha
    rcases ha with ha | ha
    · rw [h.1] at ha; cases ha
    · rw [h.2] at ha; cases ha
  · have : (strictlyBetween s d).contains (rookHome c (file d == 6)) = true := List.contains_iff_mem.2 hm
    rw [h] at this; cases this

/-- a castling whose target square is not attacked leaves the king safe: the rook's move opens no line. -/
theorem castle_target_safe {p : Pos} (hv : ValidPos p) {m : Move} (hk : m.kind = .castle)
    (hg : pseudoGeom p m = true) (hsafe : attacked p.board p.turn.other m.dst = false) :
    kingSafeAfter p m = true := by
  obtain ⟨hs, hd, hp, hsrc, hhome, hdd, hrook, hpath⟩ := pseudoGeom_castle hk hg
  obtain ⟨k, _, hbk, huk⟩ := hv.king p.turn
  have hks : m.src = k := huk _ hs hsrc
  have hu : ∀ s, s < 64 → p.board s = some (p.turn, .king) → s = m.src := fun s hs h => by rw [hks]; exact huk s hs h
  rw [hhome] at hpath
  obtain ⟨hdn, hrn, hfile⟩ := pathClear_castle hdd hpath
  obtain ⟨w1, w2, w3, w4, w5⟩ := castle_walk p.turn hdd
  have hbd : ∀ u, playBoard p m u =
      if u = m.dst then some (p.turn, m.piece) else if u = m.src then none
      else if u = rookHome p.turn (file m.dst == 6) then none
      else if u = rookTo m.dst then some (p.turn, .rook) else p.board u := by
    intro u
    rw [playBoard_eq]
    simp only [hk, reduceCtorEq, false_and, if_false, true_and]
  rw [kingSafeAfter_eq hd hp hu]
  cases hatt : attacked (playBoard p m) p.turn.other m.dst
  · rfl
  · have : attacked p.board p.turn.other m.dst = true := by
      refine attacked_mono (fun s hs' q h1 h2 => ?_) hatt
      have hsd' : s ≠ m.dst := manAttacks_ne hs' h2
      rcases playBoard_some p m hsd' h1 with ⟨hbs, _⟩ | ⟨_, hx⟩
      · refine ⟨hbs, manAttacks_mono h2 ?_⟩
        intro ha hc u hu'
        have hud : u ≠ m.dst := between_ne_right hu'
        have h' := hc u hu'
        rw [hbd, if_neg hud] at h'
        split at h'
        · rename_i hus
          exfalso
          have wf := (walk_facts hs' hd ha).2 u hu'
          have hrt : rookTo m.dst ∈ strictlyBetween s m.dst := wf.suf _ (by rw [hus, hhome]; exact w1)
          have := hc _ hrt
          rw [hbd, if_neg w2, if_neg (by rw [hhome]; exact w3), if_neg w4, if_pos rfl] at this
          cases this
        · split at h'
          · rename_i hur
            exact absurd (hur ▸ hu') (w5 s hs' ha)
          · split at h'
            · cases h'
            · exact h'
      · exact absurd (congrArg Prod.fst hx) (Color.other_ne _)
    rw [hsafe] at this; cases this

/-- **castling**: `is_legal_castle` with the number of checkers of the position. -/
theorem castle_exact {g : MoveGenerator} (hl : LookupExact g.lookup) {b : Board} (hv : valid b = true)
    {m : Move} (hg : pseudoGeom (abs b) m = true) (hk : m.kind = .castle) :
    g.isLegalCastle b m (countOnes (g.attacksTo b (kingSquare b))) =
      (castleSafe (abs b) m && kingSafeAfter (abs b) m) := by
  obtain ⟨hb, hvp⟩ := (valid_iff b).1 hv
  obtain ⟨hs, hd, hp, hsrc, hhome, hdd, hrook, hpath⟩ := pseudoGeom_castle hk hg
  obtain ⟨hk64, hbk, _⟩ := kingSquare_spec hv
  have hu := kingSquare_unique hv
  have hsk : m.src = kingSquare b := hu _ hs hsrc
  have hhome' : kingSquare b = kingHome b.active := by rw [← hsk]; exact hhome
  obtain ⟨hall, ht64⟩ := castleSquares_all b.active hdd (fun s => g.attacksTo b s == 0)
  -- the engine's value is `castleSafe`
  have heng : g.isLegalCastle b m (countOnes (g.attacksTo b (kingSquare b))) = castleSafe (abs b) m := by
    rw [isLegalCastle_eq, countOnes_eq_zero, attacksTo_bne_zero hl hb hk64, attacked_lift_king hu hk64, hall]
    unfold castleSafe
    have hkb : (m.kind != MoveType.castle) = false := by rw [hk]; rfl
    rw [hkb, Bool.false_or]
    show _ = (!attacked (absBoard b) b.active.other m.src &&
      !attacked (absBoard b) b.active.other (if m.dst == kingHome b.active + 2 then m.src + 1 else m.src - 1) &&
      !attacked (absBoard b) b.active.other m.dst)
    rw [hsk, hhome']
    cases hchk : attacked (absBoard b) b.active.other (kingHome b.active)
    · have hchk' : attacked (absBoard b) b.active.other (kingSquare b) = false := by rw [hhome']; exact hchk
      simp only [Bool.false_eq_true, if_false, Bool.not_false, Bool.true_and]
      rw [attacksTo_eq_zero hl hb ht64, attacksTo_eq_zero hl hb hd,
        attacked_lift_of_safe hu hchk' ht64, attacked_lift_of_safe hu hchk' hd]
      rfl
    · simp
  rw [heng]
  cases hcs : castleSafe (abs b) m
  · rfl
  · have hsafe : attacked (abs b).board (abs b).turn.other m.dst = false := by
      unfold castleSafe at hcs
      have hkb : (m.kind != MoveType.castle) = false := by rw [hk]; rfl
      rw [hkb, Bool.false_or] at hcs
      simp only [Bool.and_eq_true, Bool.not_eq_true'] at hcs
      exact hcs.2
    rw [castle_target_safe hvp hk hg hsafe]; rfl

/-! ### the two cases of `is_legal` -/

theorem isLegal_king {g : MoveGenerator} (hl : LookupExact g.lookup) {b : Board} (hv : valid b = true)
    {m : Move} (hg : pseudoGeom (abs b) m = true) (hp : m.piece = .king) (hk : m.kind ≠ .castle)
    (checkers pinned : UInt64) (ksq : Nat) :
    g.isLegal b m checkers pinned ksq = (castleSafe (abs b) m && kingSafeAfter (abs b) m) := by
  have h1 : (decide (m.piece = .king) && m.kind != .castle) = true := by simp [hp, hk]
  have h2 : castleSafe (abs b) m = true := by unfold castleSafe; simp [hk]
  unfold isLegal
  rw [if_pos h1, h2, Bool.true_and]
  exact king_move_exact hl hv hg hp hk

theorem isLegal_castle {g : MoveGenerator} (hl : LookupExact g.lookup) {b : Board} (hv : valid b = true)
    {m : Move} (hg : pseudoGeom (abs b) m = true) (hk : m.kind = .castle) (pinned : UInt64) (ksq : Nat) :
    g.isLegal b m (g.attacksTo b (kingSquare b)) pinned ksq = (castleSafe (abs b) m && kingSafeAfter (abs b) m) := by
  have h1 : ¬ (decide (m.piece = .king) && m.kind != .castle) = true := by simp [hk]
  unfold isLegal
  rw [if_neg h1, ← castle_exact hl hv hg hk]
  unfold isLegalNonKingMove
  simp only [hk, reduceCtorEq, if_false, if_true]
  split
  · rename_i hgt
    rw [isLegalCastle_eq]
    have : (countOnes (g.attacksTo b (kingSquare b)) != 0) = true := by simp; omega
    rw [if_pos this]
  · rfl

end Flounder.Spec
