/-
  Depth-ranked families of positions.

  A search to depth `D` only ever probes / stores / hashes positions within `D` plies of its root.  The
  "no hash collision" hypothesis of the search theorems is therefore stated for a family `S d` ("positions
  that may be searched with remaining depth `d`") instead of a set closed under ALL moves: for real chess the
  closure of the start position under legal moves has more than 2^64 elements, so no 64-bit key table is
  injective on it, while the positions within a few plies of a root are few.
-/
import Flounder.Model.Search

namespace Flounder.Search
open Flounder

variable {P : Type}

/-- `S d` = positions that may occur as a `negamax` node with remaining depth `d`. -/
structure Ranked (G : Game P) (S : Nat → P → Prop) : Prop where
  /-- a node searched with remaining depth `d + 1` has its children searched with depth `d` -/
  step : ∀ d p m, S (d + 1) p → m ∈ G.moves p → S d (G.play p m)
  /-- iterative deepening searches the root at every smaller depth as well -/
  anti : ∀ d p, S (d + 1) p → S d p

/-- every position the main search can touch. -/
def Ranked.U (S : Nat → P → Prop) (p : P) : Prop := ∃ d, S d p

theorem Ranked.le {G : Game P} {S : Nat → P → Prop} (h : Ranked G S) {d e : Nat} (hde : d ≤ e) {p : P}
    (hp : S e p) : S d p := by
  induction e with
  | zero => have : d = 0 := by omega
            subst this; exact hp
  | succ n ih =>
    by_cases hd : d = n + 1
    · subst hd; exact hp
    · exact ih (by omega) (h.anti n p hp)

/-- the hash separates the positions of `U`. -/
def HashInjOn (G : Game P) (U : P → Prop) : Prop := ∀ p q, U p → U q → G.hash p = G.hash q → p = q

/-- `q` is reachable from `root` in at most `n` plies of generated moves. -/
inductive Within (G : Game P) (root : P) : Nat → P → Prop where
  | root (n : Nat) : Within G root n root
  | step {n : Nat} {q : P} {m : Move} : Within G root n q → m ∈ G.moves q → Within G root (n + 1) (G.play q m)

theorem Within.mono {G : Game P} {root : P} {n k : Nat} {q : P} (h : Within G root n q) (hnk : n ≤ k) :
    Within G root k q := by
  induction h generalizing k with
  | root n => exact Within.root k
  | step hq hm ih =>
    obtain ⟨k', rfl⟩ : ∃ k', k = k' + 1 := ⟨k - 1, by omega⟩
    exact Within.step (ih (by omega)) hm

/-- the canonical family of a depth-`D` search of `root`: with remaining depth `d` the node is within
    `D - d` plies of the root. -/
def horizon (G : Game P) (root : P) (D : Nat) : Nat → P → Prop := fun d q => d ≤ D ∧ Within G root (D - d) q

theorem horizon_root (G : Game P) (root : P) (D : Nat) : horizon G root D D root := ⟨Nat.le_refl _, Within.root _⟩

theorem horizon_ranked (G : Game P) (root : P) (D : Nat) : Ranked G (horizon G root D) where
  step := by
    intro d p m ⟨hd, hw⟩ hm
    refine ⟨by omega, ?_⟩
    have : D - d = (D - (d + 1)) + 1 := by omega
    rw [this]
    exact Within.step hw hm
  anti := by
    intro d p ⟨hd, hw⟩
    exact ⟨by omega, hw.mono (by omega)⟩

end Flounder.Search
