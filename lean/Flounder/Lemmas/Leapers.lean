/-
  C10 — knight / king tables: Boolean checker (one `UInt64 → Nat` conversion per square, then `Nat`
  bit tests) and its soundness.
-/
import Flounder.Lemmas.MagicSound
import Flounder.Spec.Geometry

namespace Flounder.MagicProof
open Flounder Flounder.Spec

def leaperCheck (f : Nat → UInt64) (g : Nat → Nat → Bool) : Bool :=
  (List.range 64).all fun s => force (f s).toNat fun n =>
    (List.range 64).all fun t => n.testBit t == g s t

theorem leaperCheck_sound (f : Nat → UInt64) (g : Nat → Nat → Bool) (h : leaperCheck f g = true)
    (s t : Nat) (hs : s < 64) (ht : t < 64) : hasSq (f s) t = g s t := by
  unfold leaperCheck at h
  simp only [List.all_eq_true, List.mem_range, force_eq, beq_iff_eq] at h
  rw [hasSq_eq_testBit, Nat.mod_eq_of_lt ht]
  exact h s hs t ht

end Flounder.MagicProof
