/-
  C08 helpers, part 8: toy games for part (b).

      0 --avA--> 1 --avR--> 3 (mated)          `avA` allows a mate in one
      0 --avB--> 2 --avR--> 4 (quiet, no moves)  `avB` does not

  `avGameE e2 e4` has static evaluation `e2` in position 2, `e4` in position 4 and 0 elsewhere.
  * `avGame = avGameE 0 0` meets every hypothesis of part (b) (non-vacuity);
  * `avBad = avGameE 5 (-40000)` violates only `EvalBound`: iteration 1 answers `avA` (the unique
    minimax-optimal move at depth 1), in iteration 2 BOTH moves lose (`avA` to the mate, `avB` to the
    out-of-range evaluation), `best` is never replaced and the engine repeats `avA`.
  The games are trees (`PlyRanked`), so no run reuses a deeper record (`findBestMove_deeperHits_ranked`);
  everything else is `decide` on the reference values plus the general theorems — no replay.
-/
import Flounder.Lemmas.MateAvoid
import Flounder.Lemmas.MateGraded
import Flounder.Lemmas.MateCex

namespace Flounder.Search
open Flounder Gen

def avA : Move := ⟨0, 1, .pawn, .capture⟩
def avB : Move := ⟨0, 2, .pawn, .capture⟩
def avR : Move := ⟨1, 3, .pawn, .capture⟩

def avMoves (p : Nat) : List Move := if p = 0 then [avA, avB] else if p = 1 ∨ p = 2 then [avR] else []
def avPlay (p : Nat) (m : Move) : Nat := if p = 0 then (if m = avA then 1 else 2) else if p = 1 then 3 else 4
def avInCheck (p : Nat) : Bool := p = 3

def avGameE (e2 e4 : Int) : Game Nat where
  moves := avMoves
  qmoves := fun _ => []
  play := avPlay
  inCheck := avInCheck
  eval := fun p => if p = 2 then e2 else if p = 4 then e4 else 0
  hash := fun p => p.toUInt64
  pieceAt := fun _ _ => some .pawn

def avS (q : Nat) : Prop := q ≤ 4
def avRank (q : Nat) : Nat := if q = 0 then 0 else if q ≤ 2 then 1 else 2

theorem av_closed (e2 e4 : Int) : Closed (avGameE e2 e4) avS := by
  intro q m _ _
  show (if q = 0 then (if m = avA then 1 else 2) else if q = 1 then 3 else 4) ≤ 4
  split
  · split <;> omega
  · split <;> omega

theorem av_hashInj (e2 e4 : Int) : HashInj (avGameE e2 e4) avS := by
  have h : ∀ p, p ≤ 4 → ∀ q, q ≤ 4 → p.toUInt64 = q.toUInt64 → p = q := by decide
  intro p q hp hq e
  exact h p hp q hq e

theorem av_ranked (e2 e4 : Int) : PlyRanked (avGameE e2 e4) avS avRank := by
  have h : ∀ q, q ≤ 4 → ∀ m ∈ avMoves q, avRank (avPlay q m) = avRank q + 1 := by decide
  intro q m hq hm
  exact h q hq m hm

theorem av_deeperHits (e2 e4 : Int) (qfuel D : Nat) (limit : Limit) :
    (findBestMove (avGameE e2 e4) qfuel 0 D limit {}).2.deeperHits = 0 :=
  findBestMove_deeperHits_ranked (av_closed e2 e4) (av_hashInj e2 e4) (av_ranked e2 e4) qfuel 0
    (Nat.zero_le _) rfl D limit

theorem av_completed (e2 e4 : Int) (qfuel D : Nat) :
    (findBestMove (avGameE e2 e4) qfuel 0 D .none {}).2.stopSeen = false := by
  rw [findBestMove_snd]
  exact ((iterate_frame (avGameE e2 e4) qfuel 0 D D 1 _ (started .none {})).calm rfl rfl).2

/-- which root moves allow a mate in one: `avA` does, `avB` does not (whatever the evaluation). -/
theorem av_allows_A (e2 e4 : Int) : Allows (avGameE e2 e4) 0 avA := by
  have h : avMoves (avPlay (avPlay 0 avA) avR) = [] ∧ avInCheck (avPlay (avPlay 0 avA) avR) = true := by
    decide
  exact ⟨avR, List.mem_cons_self, h⟩

theorem av_not_allows_B (e2 e4 : Int) : ¬ Allows (avGameE e2 e4) 0 avB := by
  rintro ⟨r, hr, hm⟩
  have : (avGameE e2 e4).inCheck ((avGameE e2 e4).play ((avGameE e2 e4).play 0 avB) r) = false := rfl
  rw [hm.2] at this
  cases this

theorem av_moves (e2 e4 : Int) (m : Move) (h : m ∈ (avGameE e2 e4).moves 0) : m = avA ∨ m = avB := by
  have : m ∈ [avA, avB] := h
  simpa using this

/-! ### non-vacuity of part (b) -/

def avGame : Game Nat := avGameE 0 0

theorem av_evalBound : EvalBound avGame := fun p => by
  show -INFINITY < (if p = 2 then (0 : Int) else if p = 4 then 0 else 0) ∧
    (if p = 2 then (0 : Int) else if p = 4 then 0 else 0) < INFINITY
  have := inf_eq
  split
  · omega
  · split <;> omega

theorem av_values : ∀ d, 1 ≤ d → d ≤ 3 → ∃ w, Spec.V avGame 1 d 0 = some w := by
  intro d _ hd
  have h : ∀ d, d ≤ 3 → (Spec.V avGame 1 d 0).isSome = true := by decide
  exact Option.isSome_iff_exists.1 (h d hd)

/-! ### `EvalBound` cannot be dropped in part (b) -/

def avBad : Game Nat := avGameE 5 (-40000)

theorem avBad_values : ∀ d, 1 ≤ d → d ≤ 2 → ∃ w, Spec.V avBad 1 d 0 = some w := by
  intro d _ hd
  have h : ∀ d, d ≤ 2 → (Spec.V avBad 1 d 0).isSome = true := by decide
  exact Option.isSome_iff_exists.1 (h d hd)

/-- a completed depth-2 search of `avBad` from a fresh engine answers `avA`, which allows a mate in
    one, although `avB` does not. -/
theorem avBad_answer (limit : Limit) (hfin : (findBestMove avBad 1 0 2 limit {}).2.stopSeen = false) :
    ∃ score, (findBestMove avBad 1 0 2 limit {}).1 = some (score, some avA) := by
  have hEst : ∀ r v, Spec.V avBad 1 1 0 = some v →
      ResultOK avBad Spec.clampClass 1 1 0 NEGATIVE_INFINITY INFINITY v r →
      ((∀ m ∈ avBad.moves 0, Loses avBad 1 (1 - 1) 0 m) ∨
        ∃ m, r.bestMove = some m ∧ m ∈ avBad.moves 0 ∧ Holds avBad 1 (1 - 1) 0 m) →
      ∃ m, r.bestMove = some m ∧ m ∈ avBad.moves 0 ∧ m = avA := by
    -- iteration 1: `avA` is the unique optimal move (values 0 against -5)
    intro r v hv hres _
    have hv0 : Spec.V avBad 1 1 0 = some 0 := by decide
    rw [hv0] at hv
    cases hv
    have hex : Spec.clampClass r.score = Spec.clampClass 0 :=
      rootExact_class avBad (qf := 1) 1 1 0 1 0 (Nat.le_refl _) (Nat.le_refl _) hv0 r.score hres.contract
    have h0 : Spec.clampClass 0 = 0 := by decide
    rw [h0] at hex
    have hr0 : r.score = 0 := by
      have := clamp_clampClass.inside' r.score (by rw [hex]; decide) (by rw [hex]; decide)
      omega
    obtain ⟨m, hm, hmem⟩ := hres.move (Nat.le_refl _) (by decide)
    refine ⟨m, hm, hmem, ?_⟩
    rcases av_moves _ _ m hmem with e | e
    · exact e
    · subst e
      have hx : Spec.V avBad 1 0 (avBad.play 0 avB) = some 5 := by decide
      have := hres.pv (by rw [hex]; decide) (by rw [hex]; decide) 0 rfl avB 5 hm hx
      omega
  have hKeep : ∀ d m, 1 ≤ d → d + 1 ≤ 2 → m ∈ avBad.moves 0 → Holds avBad 1 d 0 m → m = avA := by
    -- iteration 2: no move holds
    intro d m hd hdD hmem hh
    obtain rfl : d = 1 := by omega
    obtain ⟨x, hx, hlt⟩ := hh
    exfalso
    rcases av_moves _ _ m hmem with e | e
    · subst e
      have : Spec.V avBad 1 1 (avBad.play 0 avA) = some CHECKMATE_SCORE := by decide
      rw [this] at hx; cases hx
      revert hlt; decide
    · subst e
      have : Spec.V avBad 1 1 (avBad.play 0 avB) = some 40000 := by decide
      rw [this] at hx; cases hx
      revert hlt; decide
  obtain ⟨score, m, hrun, _, hg⟩ := findBestMove_track avBad (S := avS) (qf := 1) (av_closed _ _)
    (av_hashInj _ _) 1 (Nat.le_refl _) 0 (Nat.zero_le _) 2 (by decide) (fun m => m = avA) 1 (Nat.le_refl _)
    (by omega) hEst hKeep avBad_values limit hfin (av_deeperHits _ _ 1 2 limit)
  subst hg
  exact ⟨score, hrun⟩

end Flounder.Search
