/-
  C05 helpers, part 3: quiescence (`search_until_quiet`, fail-hard) satisfies the fail-soft contract
  for the reference value `Spec.Q` (stand-pat minimax over the children that can matter), never runs out of
  fuel when `Spec.Q` exists with no more fuel, and touches neither the table nor the repetition stack nor the reuse counters.
-/
import Flounder.Lemmas.SearchSpec

namespace Flounder.Search
open Flounder Gen

theorem perm_isEmpty {α : Type} {l l' : List α} (h : l.Perm l') : l.isEmpty = l'.isEmpty := by
  cases l with
  | nil => rw [List.Perm.eq_nil h.symm]
  | cons a t =>
    cases l' with
    | nil => exact absurd (List.Perm.eq_nil h) (by simp)
    | cons b t' => rfl

section quiesce
variable {P : Type} (G : Game P)

theorem quiesceLoop_nil (rec : P → Int → Int → SearchState → Option Int × SearchState) (p : P)
    (β α : Int) (s : SearchState) : quiesceLoop G rec p β [] α s = (some α, s) := rfl

theorem quiesceLoop_cons (rec : P → Int → Int → SearchState → Option Int × SearchState) (p : P)
    (β α : Int) (mv : Move) (rest : List Move) (s : SearchState) :
    quiesceLoop G rec p β (mv :: rest) α s =
      if stopFlag s = true then (some α, polled s)
      else
        match rec (G.play p mv) (-β) (-α) (polled s) with
        | (none, s) => (none, s)
        | (some v, s) =>
          if -v ≥ β then (some β, s) else quiesceLoop G rec p β rest (max α (-v)) s := rfl

theorem quiesce_zero (p : P) (α β : Int) (s : SearchState) : quiesce G 0 p α β s = (none, s) := rfl

theorem quiesce_succ (fuel : Nat) (p : P) (α β : Int) (s : SearchState) :
    quiesce G (fuel + 1) p α β s =
      if ((orderCaptures G p (qList G p)).isEmpty && G.inCheck p) = true then
        (some (-CHECKMATE_SCORE), s.incrementNodes)
      else if G.eval p ≥ β then (some β, s.incrementNodes)
      else quiesceLoop G (quiesce G fuel) p β (orderCaptures G p (qList G p)) (max α (G.eval p))
            s.incrementNodes := rfl

theorem quiesceLoop_frame (rec : P → Int → Int → SearchState → Option Int × SearchState)
    (hrec : ∀ q a b s, QFrame s (rec q a b s).2) (p : P) (β : Int) :
    ∀ (ms : List Move) (α : Int) (s : SearchState), QFrame s (quiesceLoop G rec p β ms α s).2 := by
  intro ms
  induction ms with
  | nil => intro α s; exact QFrame.refl _
  | cons mv rest ih =>
    intro α s
    rw [quiesceLoop_cons]
    split
    · exact qframe_polled s
    · have h := hrec (G.play p mv) (-β) (-α) (polled s)
      rcases hres : rec (G.play p mv) (-β) (-α) (polled s) with ⟨ro, s2⟩
      rw [hres] at h
      cases ro with
      | none => exact (qframe_polled s).trans h
      | some v =>
        simp only
        split
        · exact (qframe_polled s).trans h
        · exact ((qframe_polled s).trans h).trans (ih _ _)

theorem quiesce_frame (fuel : Nat) : ∀ (p : P) (α β : Int) (s : SearchState),
    QFrame s (quiesce G fuel p α β s).2 := by
  induction fuel with
  | zero => intro p α β s; exact QFrame.refl _
  | succ n ih =>
    intro p α β s
    rw [quiesce_succ]
    split
    · exact qframe_incrementNodes s
    · split
      · exact qframe_incrementNodes s
      · exact (qframe_incrementNodes s).trans (quiesceLoop_frame G _ ih p β _ _ _)

/-- a node that is not mated and whose static score is at least `b` returns `b` at its stand-pat test,
    whatever else the window and the state are — one unit of fuel. -/
theorem quiesce_standpat (f : Nat) (c : P) (a b : Int) (s : SearchState)
    (hm : Spec.qMated G c = false) (hb : b ≤ G.eval c) :
    quiesce G (f + 1) c a b s = (some b, s.incrementNodes) := by
  have hemp := perm_isEmpty (orderCaptures_perm G c (qList G c))
  rw [quiesce_succ, hemp, ← qMated_eq, hm]
  simp only [Bool.false_eq_true, ↓reduceIte]
  rw [if_pos (show G.eval c ≥ b from hb)]

/-- the loop invariant of quiescence: `α` is `max(α₀, stand-pat, scores so far)`.  A move whose child cannot
    matter (`qRel = false`) is answered by `-α` at the child's stand-pat test (`hnr`) and leaves `α` alone. -/
theorem quiesceLoop_ok (rec : P → Int → Int → SearchState → Option Int × SearchState) (n : Nat)
    (hrecF : ∀ q a b s, QFrame s (rec q a b s).2)
    (hrec : ∀ p' a b s x, a < b → Spec.Q G n p' = some x → s.stopSeen = false →
      (rec p' a b s).2.stopSeen = false → ∃ r, (rec p' a b s).1 = some r ∧ Contract x r a b)
    (p : P) (β α₀ q : Int) :
    ∀ (rest : List Move) (α : Int) (s : SearchState),
      (∀ m ∈ rest, qRel G p m = false → ∀ a b s', b ≤ G.eval (G.play p m) →
        rec (G.play p m) a b s' = (some b, s'.incrementNodes)) →
      (∀ m ∈ rest, qRel G p m = true → ∃ x, Spec.Q G n (G.play p m) = some x) →
      (∀ m ∈ rest, qRel G p m = true → ∀ x, Spec.Q G n (G.play p m) = some x → -x ≤ q) →
      α₀ ≤ α → α < β → G.eval p ≤ α →
      (q ≤ α ∨ ∃ m ∈ rest, qRel G p m = true ∧ ∃ x, Spec.Q G n (G.play p m) = some x ∧ -x = q) →
      (α₀ < α → α ≤ q) →
      s.stopSeen = false → (quiesceLoop G rec p β rest α s).2.stopSeen = false →
      ∃ r, (quiesceLoop G rec p β rest α s).1 = some r ∧ Contract q r α₀ β := by
  intro rest
  induction rest with
  | nil =>
    intro α s _ _ _ hα0 hαβ _ hC hD _ _
    refine ⟨α, rfl, ?_, ?_, ?_⟩
    · intro h
      rcases hC with h' | ⟨m, hm, _⟩
      · exact h'
      · cases hm
    · intro h; omega
    · intro h1 _
      rcases hC with h' | ⟨m, hm, _⟩
      · have := hD h1; omega
      · cases hm
  | cons mv rest ih =>
    intro α s hnr hex hub hα0 hαβ hev hC hD hs hfin
    rw [quiesceLoop_cons] at hfin ⊢
    have hsf : stopFlag s = false := by
      cases h : stopFlag s
      · rfl
      · rw [h] at hfin; simp [polled, h] at hfin
    rw [hsf] at hfin ⊢
    simp only [Bool.false_eq_true, ↓reduceIte] at hfin ⊢
    have hs1 : (polled s).stopSeen = false := by simp [polled, hs, hsf]
    cases hrel : qRel G p mv
    · -- the child cannot matter: it answers `-α` at its stand-pat test
      obtain ⟨_, hle⟩ := qRel_false G hrel
      have hcall := hnr mv List.mem_cons_self hrel (-β) (-α) (polled s) (by omega)
      rw [hcall] at hfin ⊢
      simp only at hfin ⊢
      have hcut : ¬ (-(-α) ≥ β) := by omega
      have hmax : max α (-(-α)) = α := by omega
      rw [if_neg hcut, hmax] at hfin ⊢
      apply ih α _
      · exact fun m hm => hnr m (List.mem_cons_of_mem _ hm)
      · exact fun m hm => hex m (List.mem_cons_of_mem _ hm)
      · exact fun m hm => hub m (List.mem_cons_of_mem _ hm)
      · exact hα0
      · exact hαβ
      · exact hev
      · rcases hC with h' | ⟨m, hm, hr, y, hy, e⟩
        · exact Or.inl h'
        · rcases List.mem_cons.1 hm with e' | e'
          · subst e'; rw [hrel] at hr; cases hr
          · exact Or.inr ⟨m, e', hr, y, hy, e⟩
      · exact hD
      · exact hs1
      · exact hfin
    · obtain ⟨x, hx⟩ := hex mv List.mem_cons_self hrel
      have hrec' := hrec (G.play p mv) (-β) (-α) (polled s) x (by omega) hx hs1
      have hF := hrecF (G.play p mv) (-β) (-α) (polled s)
      have hLF := fun a s' => quiesceLoop_frame G rec hrecF p β rest a s'
      have hubx := hub mv List.mem_cons_self hrel x hx
      rcases hres : rec (G.play p mv) (-β) (-α) (polled s) with ⟨ro, s2⟩
      rw [hres] at hfin hrec' hF
      have hs2 : s2.stopSeen = false := by
        cases ro with
        | none => exact hfin
        | some v =>
          simp only at hfin
          split at hfin
          · exact hfin
          · exact (hLF _ _).noStop hfin
      obtain ⟨r, hr, hcon⟩ := hrec' hs2
      simp only at hr
      subst hr
      simp only at hfin ⊢
      by_cases hcut : -r ≥ β
      · rw [if_pos hcut]
        refine ⟨β, rfl, ?_, ?_, ?_⟩
        · intro h; omega
        · intro _
          have := hcon.1 (by omega)
          omega
        · intro _ h; omega
      · rw [if_neg hcut] at hfin ⊢
        apply ih (max α (-r)) s2
        · exact fun m hm => hnr m (List.mem_cons_of_mem _ hm)
        · exact fun m hm => hex m (List.mem_cons_of_mem _ hm)
        · exact fun m hm => hub m (List.mem_cons_of_mem _ hm)
        · omega
        · omega
        · omega
        · -- C
          by_cases hlow : -r ≤ α
          · have := hcon.2.1 (by omega)
            rcases hC with h' | ⟨m, hm, hmr, y, hy, e⟩
            · left; omega
            · rcases List.mem_cons.1 hm with e' | e'
              · subst e'; rw [hx] at hy; cases hy; left; omega
              · right; exact ⟨m, e', hmr, y, hy, e⟩
          · have := hcon.2.2 (by omega) (by omega)
            rcases hC with h' | ⟨m, hm, hmr, y, hy, e⟩
            · left; omega
            · rcases List.mem_cons.1 hm with e' | e'
              · subst e'; rw [hx] at hy; cases hy; left; omega
              · right; exact ⟨m, e', hmr, y, hy, e⟩
        · -- D
          intro h
          by_cases hlow : -r ≤ α
          · have := hD (by omega); omega
          · have := hcon.2.2 (by omega) (by omega)
            omega
        · exact hs2
        · exact hfin

/-- **quiescence contract**, state-projection form. -/
theorem quiesce_ok (n : Nat) : ∀ (fuel : Nat) (p : P) (α β q : Int) (s : SearchState),
    α < β → Spec.Q G n p = some q → n ≤ fuel → s.stopSeen = false →
    (quiesce G fuel p α β s).2.stopSeen = false →
    ∃ r, (quiesce G fuel p α β s).1 = some r ∧ Contract q r α β := by
  induction n with
  | zero => intro fuel p α β q s _ h; cases h
  | succ n ih =>
    intro fuel p α β q s hαβ hq hfuel hs hfin
    obtain ⟨f, rfl⟩ : ∃ f, fuel = f + 1 := ⟨fuel - 1, by omega⟩
    have hperm := orderCaptures_perm G p (qList G p)
    have hemp : (orderCaptures G p (qList G p)).isEmpty = (qList G p).isEmpty := perm_isEmpty hperm
    rw [quiesce_succ] at hfin ⊢
    rw [hemp] at hfin ⊢
    cases hm : ((qList G p).isEmpty && G.inCheck p)
    · rw [hm] at hfin
      simp only [Bool.false_eq_true, ↓reduceIte] at hfin ⊢
      obtain ⟨hz, hex, hev, hub, hach⟩ := Q_children G n p q hm hq
      by_cases hsp : G.eval p ≥ β
      · rw [if_pos hsp]
        exact ⟨β, rfl, fun h => by omega, fun _ => by omega, fun _ h => by omega⟩
      · rw [if_neg hsp] at hfin ⊢
        apply quiesceLoop_ok G (quiesce G f) n (quiesce_frame G f)
          (fun p' a b s' x hab hx hs' hf' => ih f p' a b x s' hab hx (by omega) hs' hf')
          p β α q _ _ s.incrementNodes ?_
          (fun m hm' => hex m (hperm.mem_iff.1 hm'))
          (fun m hm' => hub m (hperm.mem_iff.1 hm'))
          (by omega) (by omega) (by omega) ?_ ?_ (show s.incrementNodes.stopSeen = false from hs) hfin
        · intro m hm' hr a b s' hb
          have hn0 := hz m (hperm.mem_iff.1 hm') hr
          obtain ⟨f', rfl⟩ : ∃ f', f = f' + 1 := ⟨f - 1, by omega⟩
          exact quiesce_standpat G f' _ a b s' (qRel_false G hr).1 hb
        · rcases hach with e | ⟨m, hm', hr, y, hy, e⟩
          · left; omega
          · right; exact ⟨m, hperm.mem_iff.2 hm', hr, y, hy, e⟩
        · intro h; omega
    · have hq' : q = -CHECKMATE_SCORE := by
        rw [Q_succ, hm] at hq; simp only [↓reduceIte, Option.some.injEq] at hq; exact hq.symm
      simp only [↓reduceIte]
      exact ⟨_, rfl, Contract.of_eq hq'.symm α β⟩

end quiesce
end Flounder.Search
