/-
  C01, legality filter (layer F2): what the engine's `checkers` (`attacks_to(king)`) and `pinned`
  (`get_pinned_pieces`) bitboards contain, in mailbox terms, on any consistent board with exactly one king
  of the mover on `k`.
-/
import Flounder.Lemmas.C01Interfaces
import Flounder.Lemmas.BitIter
import Flounder.Lemmas.FilterMailbox

namespace Flounder.Spec.NonKing
open Flounder Flounder.Spec Flounder.MoveGenerator

/-! ### `countOnes` -/

theorem countOnes_eq_zero_iff (x : UInt64) : countOnes x = 0 ↔ ∀ s, s < 64 → hasSq x s = false := by
  unfold countOnes
  rw [List.length_eq_zero_iff]
  unfold squaresOf
  rw [List.filter_eq_nil_iff]
  constructor
  · intro h s hs
    have := h s (List.mem_range.2 hs)
    simpa using this
  · intro h s hs
    rw [h s (List.mem_range.1 hs)]
    simp

theorem countOnes_one {x : UInt64} (h : countOnes x = 1) :
    ∃ a, a < 64 ∧ hasSq x a = true ∧ (∀ s, s < 64 → hasSq x s = true → s = a) ∧ trailingZeros x = a := by
  unfold countOnes at h
  match hl : squaresOf x, h with
  | [a], _ =>
    have hm : ∀ s, s ∈ squaresOf x ↔ s = a := by intro s; rw [hl]; simp
    have ha := (mem_squaresOf x a).1 ((hm a).2 rfl)
    have hu : ∀ s, s < 64 → hasSq x s = true → s = a := fun s hs hb => (hm s).1 ((mem_squaresOf x s).2 ⟨hs, hb⟩)
    refine ⟨a, ha.1, ha.2, hu, ?_⟩
    apply trailingZeros_unique x a ha.1 ha.2
    intro j hj
    cases hb : hasSq x j with
    | false => rfl
    | true =>
      have := hu j (by omega) hb
      omega

theorem countOnes_two {x : UInt64} (h : 1 < countOnes x) :
    ∃ a a', a < 64 ∧ a' < 64 ∧ a ≠ a' ∧ hasSq x a = true ∧ hasSq x a' = true := by
  unfold countOnes at h
  match hl : squaresOf x, h with
  | a :: a' :: r, _ =>
    have hnd := squaresOf_nodup x
    rw [hl] at hnd
    have h1 := (mem_squaresOf x a).1 (by rw [hl]; simp)
    have h2 := (mem_squaresOf x a').1 (by rw [hl]; simp)
    refine ⟨a, a', h1.1, h2.1, ?_, h1.2, h2.2⟩
    intro e
    subst e
    simp at hnd

theorem countOnes_eq_one_of {x : UInt64} {a : Nat} (ha : a < 64) (hb : hasSq x a = true)
    (hu : ∀ s, s < 64 → hasSq x s = true → s = a) : countOnes x = 1 := by
  unfold countOnes squaresOf
  have h1 : ((List.range 64).filter (hasSq x)).length ≤ 1 :=
    filter_length_le_one_of_unique List.nodup_range (fun p q hp hq pp pq => by
      rw [hu p (List.mem_range.1 hp) pp, hu q (List.mem_range.1 hq) pq])
  have h2 : 0 < ((List.range 64).filter (hasSq x)).length :=
    List.length_pos_of_mem (List.mem_filter.2 ⟨List.mem_range.2 ha, hb⟩)
  omega

/-! ### the accumulating fold of `get_pinned_pieces` -/

theorem hasSq_foldl_or (P : Nat → Bool) (f : Nat → UInt64) (t : Nat) (ht : t < 64) :
    ∀ (l : List Nat) (init : UInt64),
    hasSq (l.foldl (fun acc x => if P x then acc ||| f x else acc) init) t =
      (hasSq init t || l.any fun x => P x && hasSq (f x) t) := by
  intro l
  induction l with
  | nil => intro init; simp
  | cons x xs ih =>
    intro init
    rw [List.foldl_cons, ih, List.any_cons]
    cases hp : P x
    · simp
    · simp [hasSq_or _ _ _ ht, Bool.or_assoc]


/-- a consistent board with exactly one king of the side to move, on `k`. -/
structure KingCtx (b : Board) (k : Nat) : Prop where
  cons : consistent b = true
  hk : k < 64
  king : absBoard b k = some (b.active, .king)
  uniq : ∀ x, x < 64 → absBoard b x = some (b.active, .king) → x = k

theorem hasSq_bb_false {b : Board} (hb : consistent b = true) {s : Nat} (hs : s < 64) {c : Color} {p : Piece}
    (h : absBoard b s ≠ some (c, p)) : hasSq (b.bb c p) s = false := by
  cases hh : hasSq (b.bb c p) s with
  | false => rfl
  | true => exact absurd ((hasSq_bb hb hs).1 hh) h

theorem KingCtx.kingBB {b : Board} {k : Nat} (h : KingCtx b k) {f : Nat} (hf : f < 64) :
    hasSq (b.bb b.active .king) f = decide (f = k) := by
  by_cases e : f = k
  · subst e
    rw [(hasSq_bb h.cons hf).2 h.king]; simp
  · rw [hasSq_bb_false h.cons hf (fun hh => e (h.uniq f hf hh))]; simp [e]

/-! ### checkers -/

theorem liftKing_manAttacks {b : Board} {k : Nat} (h : KingCtx b k) (c' : Color) (p : Piece) {a : Nat}
    (ha : a < 64) :
    manAttacks (liftKing (absBoard b) b.active) c' p a k = manAttacks (absBoard b) c' p a k := by
  cases hsl : isSlider p
  · exact manAttacks_leaper hsl _ _ _ _ _
  · rw [manAttacks_slider hsl, manAttacks_slider hsl]
    cases hg : sliderGeom p a k
    · rfl
    · have hal := sliderGeom_aligned hg
      congr 1
      unfold pathClear
      apply all_congr_mem
      intro u hu
      have hu64 := strictlyBetween_lt ha h.hk hu
      have huk := (seg_facts ha h.hk hal hu).2.1
      unfold liftKing
      rw [if_neg (fun hh => huk (h.uniq u hu64 hh))]

/-- **the checkers**: bit `a` of `attacks_to(board, k)` says an enemy man on `a` attacks `k`. -/
theorem checkers_iff {g : MoveGenerator} (hAtt : AttacksToSpec g) {b : Board} {k : Nat} (h : KingCtx b k)
    {a : Nat} (ha : a < 64) :
    hasSq (g.attacksTo b k) a = true ↔
      ∃ p, absBoard b a = some (b.active.other, p) ∧ manAttacks (absBoard b) b.active.other p a k = true := by
  rw [hAtt b h.cons k a h.hk ha]
  cases hm : absBoard b a with
  | none => simp
  | some x =>
    obtain ⟨c', p⟩ := x
    simp only [Bool.and_eq_true, beq_iff_eq, liftKing_manAttacks h c' p ha]
    constructor
    · rintro ⟨e, hatt⟩
      subst e
      exact ⟨p, rfl, hatt⟩
    · rintro ⟨p', e, hatt⟩
      cases e
      exact ⟨rfl, hatt⟩

/-! ### pinned men -/

/-- the candidate pinners of `get_pinned_pieces`. -/
def pinnersBB (g : MoveGenerator) (b : Board) (k : Nat) : UInt64 :=
  (g.lookup.slidingMoves k (b.bb b.active.other .bishop) .bishop &&& b.bb b.active.other .bishop) |||
  (g.lookup.slidingMoves k (b.bb b.active.other .rook) .rook &&& b.bb b.active.other .rook) |||
  (g.lookup.slidingMoves k (b.bb b.active.other .queen) .queen &&& b.bb b.active.other .queen)

/-- the men between pinner `a` and the king. -/
def pinCand (g : MoveGenerator) (b : Board) (k a : Nat) : UInt64 :=
  g.lookup.between a k true &&& b.bbAll &&& ~~~(sqBB a ||| b.bb b.active .king)

theorem getPinnedPieces_eq (g : MoveGenerator) (b : Board) (k : Nat) :
    g.getPinnedPieces b k =
      (squaresOf (pinnersBB g b k)).foldl
        (fun acc a => if countOnes (pinCand g b k a) == 1 then acc ||| pinCand g b k a else acc) 0 := rfl

theorem hasSq_pinned {g : MoveGenerator} {b : Board} {k : Nat} {t : Nat} (ht : t < 64) :
    hasSq (g.getPinnedPieces b k) t = true ↔
      ∃ a, a < 64 ∧ hasSq (pinnersBB g b k) a = true ∧ countOnes (pinCand g b k a) = 1 ∧
        hasSq (pinCand g b k a) t = true := by
  rw [getPinnedPieces_eq, hasSq_foldl_or (fun a => countOnes (pinCand g b k a) == 1) (pinCand g b k) t ht]
  simp only [hasSq_zero, Bool.false_or, List.any_eq_true, mem_squaresOf, Bool.and_eq_true, beq_iff_eq]
  constructor
  · rintro ⟨a, ⟨h1, h2⟩, h3, h4⟩
    exact ⟨a, h1, h2, h3, h4⟩
  · rintro ⟨a, h1, h2, h3, h4⟩
    exact ⟨a, ⟨h1, h2⟩, h3, h4⟩

theorem sliderReach_iff {diag : Bool} {occ : UInt64} {s t : Nat} :
    sliderReach diag occ s t = true ↔
      (if diag then diagonal s t else orthogonal s t) = true ∧ ∀ u, u ∈ strictlyBetween s t → hasSq occ u = false := by
  unfold sliderReach
  rw [Bool.and_eq_true, List.all_eq_true]
  simp only [Bool.not_eq_true']

/-- a bit of `pinCand`: a man strictly between `a` and the king. -/
theorem hasSq_pinCand {g : MoveGenerator} (hl : LookupExact g.lookup) {b : Board} {k : Nat} (h : KingCtx b k)
    {a : Nat} (ha : a < 64) (hal : aligned a k = true) {f : Nat} (hf : f < 64) :
    hasSq (pinCand g b k a) f = true ↔ f ∈ strictlyBetween a k ∧ absBoard b f ≠ none := by
  unfold pinCand
  rw [hasSq_and _ _ _ hf, hasSq_and _ _ _ hf, hasSq_not _ _ hf, hasSq_or _ _ _ hf, hl.segment a k f ha h.hk hf,
    hasSq_bbAll h.cons hf, hasSq_sqBB a f ha hf, h.kingBB hf]
  unfold onSegment
  rw [hal]
  simp only [Bool.true_and, Bool.and_eq_true, Bool.or_eq_true, beq_iff_eq, List.contains_iff_mem,
    Bool.not_eq_true', Bool.or_eq_false_iff, decide_eq_false_iff_not, Option.isSome_iff_ne_none, ne_eq]
  constructor
  · rintro ⟨⟨(e | e) | e, h2⟩, h3, h4⟩
    · exact absurd e.symm h3
    · exact absurd e h4
    · exact ⟨e, h2⟩
  · rintro ⟨h1, h2⟩
    have hf' := seg_facts ha h.hk hal h1
    exact ⟨⟨Or.inr h1, h2⟩, fun e => hf'.1 e.symm, hf'.2.1⟩

/-- a bit of `pinnersBB`: an enemy slider on `a` whose own kind of line leads to `k` (in particular). -/
theorem pinners_sound {g : MoveGenerator} (hl : LookupExact g.lookup) {b : Board} {k : Nat} (h : KingCtx b k)
    {a : Nat} (ha : a < 64) (hp : hasSq (pinnersBB g b k) a = true) :
    ∃ p, isSlider p = true ∧ absBoard b a = some (b.active.other, p) ∧ sliderGeom p a k = true := by
  unfold pinnersBB at hp
  rw [hasSq_or _ _ _ ha, hasSq_or _ _ _ ha, hasSq_and _ _ _ ha, hasSq_and _ _ _ ha, hasSq_and _ _ _ ha,
    hl.bishop k a _ h.hk ha, hl.rook k a _ h.hk ha, hl.queen k a _ h.hk ha] at hp
  simp only [Bool.or_eq_true, Bool.and_eq_true] at hp
  rcases hp with (⟨h1, h2⟩ | ⟨h1, h2⟩) | ⟨h1, h2⟩
  · refine ⟨.bishop, rfl, (hasSq_bb h.cons ha).1 h2, ?_⟩
    have := (sliderReach_iff.1 h1).1
    simp only [if_true] at this
    show diagonal a k = true
    rw [diagonal_symm ha h.hk]; exact this
  · refine ⟨.rook, rfl, (hasSq_bb h.cons ha).1 h2, ?_⟩
    have := (sliderReach_iff.1 h1).1
    simp only [Bool.false_eq_true, if_false] at this
    show orthogonal a k = true
    rw [orthogonal_symm ha h.hk]; exact this
  · refine ⟨.queen, rfl, (hasSq_bb h.cons ha).1 h2, ?_⟩
    show (diagonal a k || orthogonal a k) = true
    rw [Bool.or_eq_true]
    rcases h1 with h1 | h1
    · have := (sliderReach_iff.1 h1).1
      simp only [Bool.false_eq_true, if_false] at this
      right; rw [orthogonal_symm ha h.hk]; exact this
    · have := (sliderReach_iff.1 h1).1
      simp only [if_true] at this
      left; rw [diagonal_symm ha h.hk]; exact this

/-- an enemy slider aligned with `k` with no enemy man strictly between is a candidate pinner. -/
theorem pinners_complete {g : MoveGenerator} (hl : LookupExact g.lookup) {b : Board} {k : Nat} (h : KingCtx b k)
    {a : Nat} (ha : a < 64) {p : Piece} (hsl : isSlider p = true) (hm : absBoard b a = some (b.active.other, p))
    (hg : sliderGeom p a k = true)
    (hno : ∀ u, u ∈ strictlyBetween a k → ∀ q, absBoard b u ≠ some (b.active.other, q)) :
    hasSq (pinnersBB g b k) a = true := by
  have hal := sliderGeom_aligned hg
  have hclear : ∀ q u, u ∈ strictlyBetween k a → hasSq (b.bb b.active.other q) u = false := by
    intro q u hu
    have hu' := (seg_mem_symm ha h.hk hal).1 hu
    exact hasSq_bb_false h.cons (strictlyBetween_lt ha h.hk hu') (hno u hu' q)
  unfold pinnersBB
  rw [hasSq_or _ _ _ ha, hasSq_or _ _ _ ha, hasSq_and _ _ _ ha, hasSq_and _ _ _ ha, hasSq_and _ _ _ ha,
    hl.bishop k a _ h.hk ha, hl.rook k a _ h.hk ha, hl.queen k a _ h.hk ha]
  simp only [Bool.or_eq_true, Bool.and_eq_true]
  have hbit := (hasSq_bb h.cons ha).2 hm
  cases p
  · exact absurd hsl (by decide)
  · exact absurd hsl (by decide)
  · left; left
    refine ⟨sliderReach_iff.2 ⟨?_, hclear _⟩, hbit⟩
    simp only [if_true]
    rw [diagonal_symm h.hk ha]; exact hg
  · left; right
    refine ⟨sliderReach_iff.2 ⟨?_, hclear _⟩, hbit⟩
    simp only [Bool.false_eq_true, if_false]
    rw [orthogonal_symm h.hk ha]; exact hg
  · right
    refine ⟨?_, hbit⟩
    have hg' : (diagonal a k || orthogonal a k) = true := hg
    rw [Bool.or_eq_true] at hg'
    rcases hg' with hg' | hg'
    · right
      refine sliderReach_iff.2 ⟨?_, hclear _⟩
      simp only [if_true]
      rw [diagonal_symm h.hk ha]; exact hg'
    · left
      refine sliderReach_iff.2 ⟨?_, hclear _⟩
      simp only [Bool.false_eq_true, if_false]
      rw [orthogonal_symm h.hk ha]; exact hg'
  · exact absurd hsl (by decide)

/-- **the pinned men**: for a man of the mover on `s`, bit `s` of `get_pinned_pieces` says that some enemy
    slider is aligned with the king in its own way with exactly the man on `s` strictly between. -/
theorem pinned_iff {g : MoveGenerator} (hl : LookupExact g.lookup) {b : Board} {k : Nat} (h : KingCtx b k)
    {s : Nat} (hs : s < 64) {pc : Piece} (hsrc : absBoard b s = some (b.active, pc)) :
    hasSq (g.getPinnedPieces b k) s = true ↔
      ∃ a, a < 64 ∧ ∃ p, isSlider p = true ∧ absBoard b a = some (b.active.other, p) ∧ sliderGeom p a k = true ∧
        s ∈ strictlyBetween a k ∧ ∀ u, u ∈ strictlyBetween a k → u ≠ s → absBoard b u = none := by
  rw [hasSq_pinned hs]
  constructor
  · rintro ⟨a, ha, hp, hone, hbit⟩
    obtain ⟨p, hsl, hm, hg⟩ := pinners_sound hl h ha hp
    have hal := sliderGeom_aligned hg
    refine ⟨a, ha, p, hsl, hm, hg, ((hasSq_pinCand hl h ha hal hs).1 hbit).1, ?_⟩
    intro u hu hus
    apply Classical.byContradiction
    intro hne
    have hu64 := strictlyBetween_lt ha h.hk hu
    have hbu := (hasSq_pinCand hl h ha hal hu64).2 ⟨hu, hne⟩
    obtain ⟨x, _, _, hux, _⟩ := countOnes_one hone
    exact hus ((hux u hu64 hbu).trans (hux s hs hbit).symm)
  · rintro ⟨a, ha, p, hsl, hm, hg, hin, hfree⟩
    have hal := sliderGeom_aligned hg
    have hbit : hasSq (pinCand g b k a) s = true :=
      (hasSq_pinCand hl h ha hal hs).2 ⟨hin, by rw [hsrc]; simp⟩
    refine ⟨a, ha, ?_, ?_, hbit⟩
    · apply pinners_complete hl h ha hsl hm hg
      intro u hu q hq
      by_cases hus : u = s
      · rw [hus, hsrc] at hq
        exact Color.other_ne _ (congrArg Prod.fst (Option.some.inj hq)).symm
      · rw [hfree u hu hus] at hq; cases hq
    · apply countOnes_eq_one_of hs hbit
      intro f hf hbf
      obtain ⟨h1, h2⟩ := (hasSq_pinCand hl h ha hal hf).1 hbf
      apply Classical.byContradiction
      intro hfs
      exact h2 (hfree f h1 hfs)

end Flounder.Spec.NonKing
