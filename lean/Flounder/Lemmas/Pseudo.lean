/-
  C01 layer L3: **the seven pseudo-legal generators produce exactly the geometrically possible moves,
  each exactly once** (`PseudoExact g`, for every generator whose tables satisfy `LookupExact`).

  Each generator is characterised as "`pseudoGeom` and a tag on (kind, piece)"; the tags are exhaustive and
  mutually exclusive, which gives membership in the concatenation and disjointness of the parts.
    castles              kind = castle                      (PseudoCastle)
    pawn moves           quiet/capture with piece = pawn, en passant, promotion   (PseudoPawnGen)
    king … queen         quiet/capture with piece = that piece                     (PseudoPieces)
-/
import Flounder.Lemmas.PseudoCastle
import Flounder.Lemmas.PseudoPawnGen
import Flounder.Lemmas.PseudoPieces

namespace Flounder.Spec
open Flounder Flounder.MoveGenerator

/-- the part of the move list a move belongs to, read off its kind and piece: 0 castles, 1 pawn moves,
    2 king, 3 knight, 4 bishop, 5 rook, 6 queen. -/
def genTag (m : Move) : Nat :=
  match m.kind, m.piece with
  | .castle, _ => 0
  | .enPassant, _ => 1
  | .promotion, _ => 1
  | _, .pawn => 1
  | _, .king => 2
  | _, .knight => 3
  | _, .bishop => 4
  | _, .rook => 5
  | _, .queen => 6

theorem genTag_castle (m : Move) : m.kind = .castle ↔ genTag m = 0 := by
  obtain ⟨s, t, pc, k⟩ := m
  cases k <;> cases pc <;> simp [genTag]

theorem genTag_pawn (m : Move) :
    ((m.kind = .quiet ∧ m.piece = .pawn) ∨ (m.kind = .capture ∧ m.piece = .pawn) ∨
      m.kind = .enPassant ∨ m.kind = .promotion) ↔ genTag m = 1 := by
  obtain ⟨s, t, pc, k⟩ := m
  cases k <;> cases pc <;> simp [genTag]

/-- the tag of a non-pawn piece. -/
def pieceTag : Piece → Nat
  | .pawn => 1 | .king => 2 | .knight => 3 | .bishop => 4 | .rook => 5 | .queen => 6

theorem genTag_piece (m : Move) (piece : Piece) (hp : piece ≠ .pawn) :
    (m.piece = piece ∧ (m.kind = .quiet ∨ m.kind = .capture)) ↔ genTag m = pieceTag piece := by
  obtain ⟨s, t, pc, k⟩ := m
  cases k <;> cases pc <;> cases piece <;> simp [genTag, pieceTag] at hp ⊢

theorem genTag_le (m : Move) : genTag m ≤ 6 := by
  obtain ⟨s, t, pc, k⟩ := m
  cases k <;> cases pc <;> simp [genTag]

section
variable {g : MoveGenerator} (hl : LookupExact g.lookup) {b : Board} (hv : valid b = true)
include hv

theorem mem_castles_tag (m : Move) :
    m ∈ generatePseudoLegalCastles b ↔ pseudoGeom (abs b) m = true ∧ genTag m = 0 := by
  rw [mem_generatePseudoLegalCastles hv, genTag_castle]

theorem mem_pawns_tag (m : Move) :
    m ∈ generatePseudoLegalPawnMoves b ↔ pseudoGeom (abs b) m = true ∧ genTag m = 1 := by
  rw [mem_generatePseudoLegalPawnMoves hv, genTag_pawn]

include hl in
theorem mem_pieces_tag {piece : Piece} (hp : piece ≠ .pawn) (m : Move) :
    m ∈ g.generatePseudoLegalMoves b piece ↔ pseudoGeom (abs b) m = true ∧ genTag m = pieceTag piece := by
  rw [mem_generatePseudoLegalMoves hl hv hp, genTag_piece m piece hp]

include hl in
/-- membership in the whole pseudo-legal list. -/
theorem mem_pseudoLegalMoves (m : Move) : m ∈ g.pseudoLegalMoves b ↔ pseudoGeom (abs b) m = true := by
  unfold pseudoLegalMoves
  simp only [List.mem_append, mem_castles_tag hv, mem_pawns_tag hv,
    mem_pieces_tag hl hv (by decide : Piece.king ≠ .pawn), mem_pieces_tag hl hv (by decide : Piece.knight ≠ .pawn),
    mem_pieces_tag hl hv (by decide : Piece.bishop ≠ .pawn), mem_pieces_tag hl hv (by decide : Piece.rook ≠ .pawn),
    mem_pieces_tag hl hv (by decide : Piece.queen ≠ .pawn), pieceTag]
  constructor
  · rintro ((((((h | h) | h) | h) | h) | h) | h) <;> exact h.1
  · intro h
    have := genTag_le m
    have : genTag m = 0 ∨ genTag m = 1 ∨ genTag m = 2 ∨ genTag m = 3 ∨ genTag m = 4 ∨ genTag m = 5 ∨
        genTag m = 6 := by omega
    rcases this with k | k | k | k | k | k | k
    · exact Or.inl (Or.inl (Or.inl (Or.inl (Or.inl (Or.inl ⟨h, k⟩)))))
    · exact Or.inl (Or.inl (Or.inl (Or.inl (Or.inl (Or.inr ⟨h, k⟩)))))
    · exact Or.inl (Or.inl (Or.inl (Or.inl (Or.inr ⟨h, k⟩))))
    · exact Or.inl (Or.inl (Or.inl (Or.inr ⟨h, k⟩)))
    · exact Or.inl (Or.inl (Or.inr ⟨h, k⟩))
    · exact Or.inl (Or.inr ⟨h, k⟩)
    · exact Or.inr ⟨h, k⟩

include hl in
/-- no move is generated twice. -/
theorem nodup_pseudoLegalMoves : (g.pseudoLegalMoves b).Nodup := by
  unfold pseudoLegalMoves
  have hK := mem_pieces_tag hl hv (by decide : Piece.king ≠ .pawn)
  have hN := mem_pieces_tag hl hv (by decide : Piece.knight ≠ .pawn)
  have hB := mem_pieces_tag hl hv (by decide : Piece.bishop ≠ .pawn)
  have hR := mem_pieces_tag hl hv (by decide : Piece.rook ≠ .pawn)
  have hQ := mem_pieces_tag hl hv (by decide : Piece.queen ≠ .pawn)
  have hC := mem_castles_tag hv
  have hP := mem_pawns_tag hv
  simp only [pieceTag] at hK hN hB hR hQ
  -- a move of the part with tag `k` is not in a concatenation of parts with tags `< k`
  refine nodup_append_of (nodup_append_of (nodup_append_of (nodup_append_of (nodup_append_of (nodup_append_of
    (nodup_generatePseudoLegalCastles b) (nodup_generatePseudoLegalPawnMoves hv) ?_)
    (nodup_generatePseudoLegalMoves g b .king) ?_) (nodup_generatePseudoLegalMoves g b .knight) ?_)
    (nodup_generatePseudoLegalMoves g b .bishop) ?_) (nodup_generatePseudoLegalMoves g b .rook) ?_)
    (nodup_generatePseudoLegalMoves g b .queen) ?_
  · intro m h1 h2
    have := ((hC m).1 h1).2; have := ((hP m).1 h2).2; omega
  · intro m h1 h2
    have k2 := ((hK m).1 h2).2
    simp only [List.mem_append, hC, hP] at h1
    rcases h1 with h | h <;> have := h.2 <;> omega
  · intro m h1 h2
    have k2 := ((hN m).1 h2).2
    simp only [List.mem_append, hC, hP, hK] at h1
    rcases h1 with (h | h) | h <;> have := h.2 <;> omega
  · intro m h1 h2
    have k2 := ((hB m).1 h2).2
    simp only [List.mem_append, hC, hP, hK, hN] at h1
    rcases h1 with ((h | h) | h) | h <;> have := h.2 <;> omega
  · intro m h1 h2
    have k2 := ((hR m).1 h2).2
    simp only [List.mem_append, hC, hP, hK, hN, hB] at h1
    rcases h1 with (((h | h) | h) | h) | h <;> have := h.2 <;> omega
  · intro m h1 h2
    have k2 := ((hQ m).1 h2).2
    simp only [List.mem_append, hC, hP, hK, hN, hB, hR] at h1
    rcases h1 with ((((h | h) | h) | h) | h) | h <;> have := h.2 <;> omega

end

/-- **C01 / L3.** For every generator with exact lookup tables, on every valid board, the concatenation of
    the seven pseudo-legal generators lists exactly the moves satisfying `pseudoGeom`, without repetition. -/
theorem pseudo_exact {g : MoveGenerator} (hl : LookupExact g.lookup) : PseudoExact g :=
  fun _ hv => ⟨nodup_pseudoLegalMoves hl hv, mem_pseudoLegalMoves hl hv⟩

end Flounder.Spec

#print axioms Flounder.Spec.pseudo_exact
