/-
  C08 helpers, part 9: why part (a) needs "no hash collision between the root and its children".

  `colGame`: 0 --colA--> 1 (quiet, no moves, evaluation 0);  0 --colB--> 2 (mated), and position 2 has
  the SAME hash key as the root.  Depth 2, fresh engine, no deadline:
  * iteration 1 finds the mate and caches `⟨key 0, CHECKMATE_SCORE, colB, depth 1, exact⟩` for the root;
  * iteration 2 tries the table move `colB` first; its child (position 2, depth 1) probes key 0, finds
    the ROOT's record (key-verified, same depth, exact) and returns `CHECKMATE_SCORE` as its own value;
    the root sees `-CHECKMATE_SCORE`, keeps looking, `colA` scores 0 and becomes the answer.
  Iteration 1 is covered by `root_mate`; iteration 2 is replayed with the equation lemmas.
-/
import Flounder.Lemmas.MateCex

namespace Flounder.Search
open Flounder Gen

section two
variable {P : Type} (G : Game P)

/-- a probe that finds an exact record of at least the requested depth returns it. -/
theorem negamax_succ_hit_exact (qfuel d : Nat) (q : P) (ply : Nat) (a b : Int) (s : SearchState) (e : Entry)
    (hrep : s.isRepetition (G.hash q) = false) (hr : s.tt.retrieve (G.hash q) = some e)
    (hd : d + 1 ≤ e.depth) (hb : e.bounds = .exact) :
    negamax G qfuel (d + 1) q ply a b s =
      (some ⟨e.eval, e.bestMove⟩, counted s.incrementNodes e (d + 1)) := by
  have hrep' : s.incrementNodes.isRepetition (G.hash q) = false := hrep
  have hp : probeTT G s.incrementNodes q (d + 1) a b =
      (some ⟨e.eval, e.bestMove⟩, e.bestMove, counted s.incrementNodes e (d + 1)) := by
    unfold probeTT
    have : s.incrementNodes.tt = s.tt := rfl
    rw [this, hr]
    simp only
    rw [if_neg (by omega), hb]
    rfl
  rw [negamax_succ, hp, hrep']
  simp

/-- a depth-2 `find_best_move` without a deadline hands back the root result of its second iteration. -/
theorem findBestMove_two_none (qfuel : Nat) (p : P) (s : SearchState) (r1 r2 : SearchResult) (m : Move)
    (h1 : (searchPosition G qfuel p 1 (polled (started .none s))).1 = some r1)
    (h2 : (searchPosition G qfuel p 2 (polled (cached G p 1 r1
      (polled (searchPosition G qfuel p 1 (polled (started .none s))).2)))).1 = some r2)
    (hm : r2.bestMove = some m) :
    (findBestMove G qfuel p 2 .none s).1 = some (r2.score, some m) := by
  rw [findBestMove_eq, iterate_succ]
  have h0 : stopFlag (started .none s) = false := rfl
  rw [if_neg (by omega), h0]
  simp only [Bool.false_eq_true, ↓reduceIte]
  have hF := searchPosition_frame G qfuel p 1 (polled (started .none s))
  rcases hsp : searchPosition G qfuel p 1 (polled (started .none s)) with ⟨ro, s1⟩
  rw [hsp] at h1 h2 hF
  simp only at h1 h2 hF
  subst h1
  simp only
  have hl1 : s1.limit = .none := (hF.calm rfl rfl).1
  have hsf1 : stopFlag s1 = false := by simp [stopFlag, hl1]
  rw [hsf1]
  simp only [Bool.not_false, ↓reduceIte]
  rw [iterate_succ]
  have hlc : (cached G p 1 r1 (polled s1)).limit = .none := hl1
  have hsfc : stopFlag (cached G p 1 r1 (polled s1)) = false := by simp [stopFlag, hlc]
  rw [if_neg (by omega), hsfc]
  simp only [Bool.false_eq_true, ↓reduceIte]
  have hF2 := searchPosition_frame G qfuel p 2 (polled (cached G p 1 r1 (polled s1)))
  rcases hsp2 : searchPosition G qfuel p 2 (polled (cached G p 1 r1 (polled s1))) with ⟨ro2, s2⟩
  rw [hsp2] at h2 hF2
  simp only at h2 hF2
  subst h2
  simp only
  have hs1 : (polled (cached G p 1 r1 (polled s1))).stopSeen = false := by
    have := (hF.calm rfl rfl).2
    simp [polled, cached, stopFlag, hl1, this]
  have hl2 : s2.limit = .none := (hF2.calm hl1 hs1).1
  have hsf2 : stopFlag s2 = false := by simp [stopFlag, hl2]
  rw [hsf2]
  simp only [Bool.not_false, ↓reduceIte, iterate_zero, hm]

end two

/-! ### the game -/

def colA : Move := ⟨0, 1, .pawn, .capture⟩
def colB : Move := ⟨0, 2, .pawn, .capture⟩

def colMoves (p : Nat) : List Move := if p = 0 then [colA, colB] else []
def colPlay (_ : Nat) (m : Move) : Nat := if m = colA then 1 else 2
def colHash (p : Nat) : UInt64 := if p = 2 then 0 else p.toUInt64

def colGame : Game Nat where
  moves := colMoves
  qmoves := fun _ => []
  play := colPlay
  inCheck := fun p => p = 2
  eval := fun _ => 0
  hash := colHash
  pieceAt := fun _ _ => some .pawn

theorem col_evalBound : EvalBound colGame := fun _ => by simp [colGame, INFINITY]

theorem col_mate : colB ∈ colGame.moves 0 ∧ Mated colGame (colGame.play 0 colB) :=
  ⟨List.mem_cons_of_mem _ List.mem_cons_self, by decide⟩

theorem col_only_mate : ∀ m, m ∈ colGame.moves 0 → Mated colGame (colGame.play 0 m) → m = colB := by decide

theorem col_collision : colGame.hash (colGame.play 0 colB) = colGame.hash 0 := by decide

/-- iteration 2 at the root, on any state whose table knows only the root with iteration 1's record. -/
theorem col_run2 (s : SearchState) (hrep : s.rep = [colGame.hash 0]) (hH : HistOK s) (hl : s.limit = .none)
    (he : s.tt.table[(0 : UInt64)]? = some ⟨0, CHECKMATE_SCORE, some colB, 1, .exact⟩)
    (hoth : ∀ k : UInt64, k ≠ 0 → s.tt.table[k]? = none) :
    (negamax colGame 1 2 0 0 NEGATIVE_INFINITY INFINITY s).1 = some ⟨0, some colA⟩ := by
  have hk0 : colGame.hash 0 = 0 := by decide
  have hret : s.tt.retrieve (colGame.hash 0) = some ⟨0, CHECKMATE_SCORE, some colB, 1, .exact⟩ := by
    rw [hk0]; exact retrieve_of_get_some _ _ _ he rfl
  rw [negamax_succ_shallow colGame 1 1 0 _ _ s _ hret (by decide),
    innerResult_cons colGame _ 1 0 0 _ _ _ _ colA [colB] rfl]
  simp only
  -- the table move first
  have hms : colGame.moves 0 = [colA, colB] := rfl
  obtain ⟨tl, hord⟩ := orderMoves_tt_first colGame s.incrementNodes hH 0 (colGame.moves 0) colB
    col_mate.1 0
  have htl : tl = [colA] := by
    have hperm := orderMoves_perm colGame s.incrementNodes 0 (colGame.moves 0) (some colB) 0
    rw [hord, hms] at hperm
    have h2 : (colB :: tl).Perm (colB :: [colA]) := hperm.trans (List.Perm.swap colB colA [])
    exact List.perm_singleton.1 h2.cons_inv
  rw [hord, htl]
  -- first move: `colB`, whose child hits the root's record
  rw [negamaxLoop_cons]
  have h3 : stopFlag s.incrementNodes = false := by simp [stopFlag, SearchState.incrementNodes, hl]
  rw [h3]
  simp only [Bool.false_eq_true, ↓reduceIte]
  have h4 : colGame.play 0 colB = 2 := rfl
  have hk2 : colGame.hash 2 = 0 := by decide
  rw [h4, negamax_succ_hit_exact colGame 1 0 2 (0 + 1) _ _ (polled s.incrementNodes)
    ⟨0, CHECKMATE_SCORE, some colB, 1, .exact⟩
    (isRepetition_single _ (colGame.hash 0) _ hrep)
    (by rw [hk2]; exact retrieve_of_get_some _ _ _ he rfl) (Nat.le_refl _) rfl]
  simp only
  have h5 : ¬ (max NEGATIVE_INFINITY (-CHECKMATE_SCORE) ≥ INFINITY) := by decide
  have h6 : ¬ (-CHECKMATE_SCORE > NEGATIVE_INFINITY) := by decide
  rw [if_neg h5, if_neg h6]
  -- second move: `colA`, a quiet dead end worth 0
  rw [negamaxLoop_cons]
  have h7 : stopFlag (counted (polled s.incrementNodes).incrementNodes
      ⟨0, CHECKMATE_SCORE, some colB, 1, .exact⟩ (0 + 1)) = false := by
    unfold counted; split <;> simp [stopFlag, polled, SearchState.incrementNodes, hl]
  rw [h7]
  simp only [Bool.false_eq_true, ↓reduceIte]
  have h8 : colGame.play 0 colA = 1 := rfl
  have hk1 : colGame.hash 1 ≠ 0 := by decide
  have hrep1 : (polled (counted (polled s.incrementNodes).incrementNodes
      ⟨0, CHECKMATE_SCORE, some colB, 1, .exact⟩ (0 + 1))).rep = [colGame.hash 0] := by
    unfold counted; split <;> exact hrep
  have htt1 : (polled (counted (polled s.incrementNodes).incrementNodes
      ⟨0, CHECKMATE_SCORE, some colB, 1, .exact⟩ (0 + 1))).tt = s.tt := by
    unfold counted; split <;> rfl
  rw [h8, negamax_succ_miss colGame 1 0 1 (0 + 1) _ _ _
      (isRepetition_single _ (colGame.hash 0) _ hrep1)
      (by rw [htt1]; exact retrieve_of_get_none _ _ (hoth _ hk1)),
    innerResult_nil colGame _ 0 1 (0 + 1) _ _ none _ rfl]
  have h9 : colGame.inCheck 1 = false := rfl
  rw [h9]
  simp only [Bool.false_eq_true, ↓reduceIte]
  have h10 : ¬ (max (max NEGATIVE_INFINITY (-CHECKMATE_SCORE)) (-(0 : Int)) ≥ INFINITY) := by decide
  have h11 : -(0 : Int) > NEGATIVE_INFINITY := by decide
  rw [if_neg h10, if_pos h11, negamaxLoop_nil]
  simp only
  rw [finishNode_fst]
  rfl

/-- a depth-2 search of `colGame` from a fresh engine without a deadline answers the NON-mating `colA`. -/
theorem col_findBestMove : (findBestMove colGame 1 0 2 .none {}).1 = some (0, some colA) := by
  -- iteration 1
  have hN1F := negamax_frame colGame 1 1 0 0 NEGATIVE_INFINITY INFINITY
    (pushed colGame 0 (polled (started .none {})))
  have hv1 : Spec.V colGame 1 1 0 = some CHECKMATE_SCORE := by decide
  obtain ⟨r1, hr1⟩ := negamax_some colGame 1 1 (Nat.le_refl _) 1 0 0 NEGATIVE_INFINITY INFINITY
    (pushed colGame 0 (polled (started .none {}))) _ hv1
  have hcalm := hN1F.calm rfl rfl
  rcases hn1 : negamax colGame 1 1 0 0 NEGATIVE_INFINITY INFINITY
    (pushed colGame 0 (polled (started .none {}))) with ⟨ro, s1'⟩
  rw [hn1] at hN1F hr1 hcalm
  simp only at hr1 hcalm
  subst hr1
  have hk0 : colGame.hash 0 = 0 := by decide
  obtain ⟨⟨m, hm, hmem, hmM⟩, hH1, hRT, hsc⟩ := root_mate colGame col_evalBound 1 0 1 (fun h => by omega)
    ⟨colB, col_mate⟩ (by decide) (pushed colGame 0 (polled (started .none {}))) rfl
    (histOK_ageHistory (histOK_of_history histOK_fresh rfl))
    (fun k _ => tt_empty_get k) (Or.inl ⟨rfl, tt_empty_get _⟩) r1 s1' hn1 hcalm.2
  have hmB : m = colB := col_only_mate m hmem hmM
  subst hmB
  have hr1 : r1 = ⟨CHECKMATE_SCORE, some colB⟩ := by
    have hsc' := hsc rfl
    rcases r1 with ⟨sc, bm⟩
    simp only at hm hsc'
    rw [hm, hsc']
  subst hr1
  have hsp1 : searchPosition colGame 1 0 1 (polled (started .none {})) =
      (some ⟨CHECKMATE_SCORE, some colB⟩, { s1' with rep := s1'.rep.drop 1 }) := by
    rw [searchPosition_eq, hn1]
  -- the state handed to the root of iteration 2
  have hrep1 : s1'.rep = [colGame.hash 0] := hN1F.rep
  rw [hk0] at hRT
  have he : ((polled (cached colGame 0 1 ⟨CHECKMATE_SCORE, some colB⟩
      (polled { s1' with rep := s1'.rep.drop 1 }))).tt.table)[(0 : UInt64)]? =
      some ⟨0, CHECKMATE_SCORE, some colB, 1, .exact⟩ :=
    store_get_self _ _ _ _ _ _ hRT.2
  have hoth : ∀ k : UInt64, k ≠ 0 → ((polled (cached colGame 0 1 ⟨CHECKMATE_SCORE, some colB⟩
      (polled { s1' with rep := s1'.rep.drop 1 }))).tt.table)[k]? = none := by
    intro k hk
    have : ((polled (cached colGame 0 1 ⟨CHECKMATE_SCORE, some colB⟩
        (polled { s1' with rep := s1'.rep.drop 1 }))).tt.table)[k]? = s1'.tt.table[k]? :=
      store_get_other _ _ _ _ _ _ k hk
    rw [this]; exact hRT.1 k hk
  have h2 := col_run2 (pushed colGame 0 (polled (cached colGame 0 1 ⟨CHECKMATE_SCORE, some colB⟩
      (polled { s1' with rep := s1'.rep.drop 1 }))))
    (by simp [pushed, polled, cached, hrep1]) hH1 hcalm.1 he hoth
  exact findBestMove_two_none colGame 1 0 {} ⟨CHECKMATE_SCORE, some colB⟩ ⟨0, some colA⟩ colA
    (by rw [hsp1]) (by rw [hsp1, searchPosition_eq]; exact h2) rfl

theorem col_completed : (findBestMove colGame 1 0 2 .none {}).2.stopSeen = false := by
  rw [findBestMove_snd]
  exact ((iterate_frame colGame 1 0 2 2 1 _ (started .none {})).calm rfl rfl).2

end Flounder.Search
