/-
  Hypothesis-free bounds on every accumulator of the evaluation (any eight bitboards whatsoever): each
  (colour, piece) bitboard has at most 64 squares and every table cell lies between its row's extrema.
  Used by Props/C14Bound.lean (`eval_no_overflow`).
-/
import Flounder.Lemmas.EvalBound

namespace Flounder
open Gen

/-- `x` lies in `[-B, B]`. -/
def Within (x B : Int) : Prop := -B ≤ x ∧ x ≤ B

/-- `x` is representable as a Rust `i32`. -/
def FitsI32 (x : Int) : Prop := -2147483648 ≤ x ∧ x ≤ 2147483647

theorem Within.fits {x B : Int} (h : Within x B) (hB : B ≤ 2147483647) : FitsI32 x := by
  unfold Within at h; unfold FitsI32; omega

theorem Within.mono {x B C : Int} (h : Within x B) (hBC : B ≤ C) : Within x C := by
  unfold Within at *; omega

/-! ### row extrema -/

def rowMax0 (T : List (List Int)) (i : Nat) : Int := listMax0 (T.getD i [])
def rowMin0 (T : List (List Int)) (i : Nat) : Int := listMin0 (T.getD i [])
/-- spread of one table row around 0. -/
def rowSpan (T : List (List Int)) (i : Nat) : Int := rowMax0 T i - rowMin0 T i

/-- every cell lies between its row's extrema, which straddle 0. -/
def RowsOK (T : List (List Int)) : Prop :=
  ∀ i < 6, (∀ sq < 64, rowMin0 T i ≤ pst T i sq ∧ pst T i sq ≤ rowMax0 T i) ∧ rowMin0 T i ≤ 0 ∧ 0 ≤ rowMax0 T i

instance (T : List (List Int)) : Decidable (RowsOK T) := by unfold RowsOK; infer_instance

theorem opening_rowsOK : RowsOK OPENING_TABLES := by decide +kernel
theorem endgame_rowsOK : RowsOK ENDGAME_TABLES := by decide +kernel

theorem Piece.index_lt (p : Piece) : p.index < 6 := by cases p <;> decide

/-! ### one loop (one side, one piece type), including every prefix of the loop -/

/-- after any number `k` of iterations of a table loop, the running sum is within `64 * row extrema`. -/
theorem loop_prefix_bounds {T : List (List Int)} (hT : RowsOK T) (b : Board) (c : Color) (p : Piece) (k : Nat) :
    64 * rowMin0 T p.index ≤ (((squaresOf (b.bb c p)).take k).map (fun s => pst T p.index (pstSquare c 56 s))).sum ∧
    (((squaresOf (b.bb c p)).take k).map (fun s => pst T p.index (pstSquare c 56 s))).sum ≤ 64 * rowMax0 T p.index := by
  have hp := hT p.index p.index_lt
  have h := sum_bounds_le (((squaresOf (b.bb c p)).take k).map (fun s => pst T p.index (pstSquare c 56 s))) 64
    (rowMin0 T p.index) (rowMax0 T p.index)
    (by
      intro x hx
      simp only [List.mem_map] at hx
      obtain ⟨s, hs, rfl⟩ := hx
      exact hp.1 _ (pstSquare_lt c (mem_squaresOf_lt (List.mem_of_mem_take hs))))
    (by
      rw [List.length_map, List.length_take]
      have := squaresOf_length_le (b.bb c p)
      omega)
    hp.2.1 hp.2.2
  have e64 : ((64 : Nat) : Int) = 64 := rfl
  rw [e64] at h
  exact h

theorem sideVal_bounds {T : List (List Int)} (hT : RowsOK T) (b : Board) (c : Color) (p : Piece) :
    64 * rowMin0 T p.index ≤ sideVal T b c 56 p ∧ sideVal T b c 56 p ≤ 64 * rowMax0 T p.index := by
  have h := loop_prefix_bounds hT b c p 64
  rw [List.take_of_length_le (squaresOf_length_le _)] at h
  exact h

/-- after any number `k` of iterations of a phase-count loop. -/
theorem cnt_prefix_bounds (b : Board) (c : Color) (p : Piece) (k : Nat) :
    0 ≤ (((squaresOf (b.bb c p)).take k).map (fun _ => PHASE_INCREMENTS.getD p.index 0)).sum ∧
    (((squaresOf (b.bb c p)).take k).map (fun _ => PHASE_INCREMENTS.getD p.index 0)).sum
      ≤ 64 * PHASE_INCREMENTS.getD p.index 0 := by
  have h := sum_bounds_le (((squaresOf (b.bb c p)).take k).map (fun _ => PHASE_INCREMENTS.getD p.index 0)) 64
    0 (PHASE_INCREMENTS.getD p.index 0)
    (by
      intro x hx
      simp only [List.mem_map] at hx
      obtain ⟨_, _, rfl⟩ := hx
      exact ⟨phaseInc_nonneg p, Int.le_refl _⟩)
    (by
      rw [List.length_map, List.length_take]
      have := squaresOf_length_le (b.bb c p)
      omega)
    (Int.le_refl _) (phaseInc_nonneg p)
  have e64 : ((64 : Nat) : Int) = 64 := rfl
  rw [e64] at h
  omega

theorem sideCnt_bounds (b : Board) (c : Color) (p : Piece) :
    0 ≤ sideCnt b c p ∧ sideCnt b c p ≤ 64 * PHASE_INCREMENTS.getD p.index 0 := by
  have h := cnt_prefix_bounds b c p 64
  rw [List.take_of_length_le (squaresOf_length_le _)] at h
  exact h

/-! ### per-piece increments -/

theorem dOpening_within (b : Board) (c : Color) (p : Piece) :
    Within (dOpening b c p) (64 * rowSpan OPENING_TABLES p.index) := by
  have h1 := sideVal_bounds opening_rowsOK b c p
  have h2 := sideVal_bounds opening_rowsOK b c.other p
  simp only [Within, dOpening, FLIP_PLAYER_eq, FLIP_OPP_eq, rowSpan]
  omega

theorem dEndgame_within (b : Board) (c : Color) (p : Piece) :
    Within (dEndgame b c p) (64 * rowSpan ENDGAME_TABLES p.index) := by
  have h1 := sideVal_bounds endgame_rowsOK b c p
  have h2 := sideVal_bounds endgame_rowsOK b c.other p
  simp only [Within, dEndgame, FLIP_PLAYER_eq, FLIP_OPP_eq, rowSpan]
  omega

theorem dPhase_bounds (b : Board) (c : Color) (p : Piece) :
    0 ≤ dPhase b c p ∧ dPhase b c p ≤ 128 * PHASE_INCREMENTS.getD p.index 0 := by
  have h1 := sideCnt_bounds b c p
  have h2 := sideCnt_bounds b c.other p
  simp only [dPhase]
  omega

theorem rowSpan_nonneg {T : List (List Int)} (hT : RowsOK T) (p : Piece) : 0 ≤ rowSpan T p.index := by
  have := hT p.index p.index_lt
  unfold rowSpan; omega

/-! ### the accumulators, after any number of `eval_piece_type` calls -/

/-- accumulator bound for one table: `64 * Σ_piece rowSpan`. -/
def accBound (T : List (List Int)) : Int := 64 * (Piece.all.map (fun p => rowSpan T p.index)).sum

/-- phase-counter bound: `2 * 64 * Σ_piece phase_inc`. -/
def phaseBound : Int := 128 * (Piece.all.map (fun p => PHASE_INCREMENTS.getD p.index 0)).sum

theorem rowSpan_le_acc {T : List (List Int)} (hT : RowsOK T) (p : Piece) : 64 * rowSpan T p.index ≤ accBound T := by
  have so := fun p => rowSpan_nonneg hT p
  have so0 := so .pawn; have so1 := so .knight; have so2 := so .bishop; have so3 := so .rook
  have so4 := so .queen; have so5 := so .king
  simp only [accBound, Piece.all, List.map_cons, List.map_nil, List.sum_cons, List.sum_nil]
  cases p <;> omega

theorem phaseInc_le (p : Piece) : 128 * PHASE_INCREMENTS.getD p.index 0 ≤ phaseBound := by
  have gi := fun p => phaseInc_nonneg p
  have gi0 := gi .pawn; have gi1 := gi .knight; have gi2 := gi .bishop; have gi3 := gi .rook
  have gi4 := gi .queen; have gi5 := gi .king
  simp only [phaseBound, Piece.all, List.map_cons, List.map_nil, List.sum_cons, List.sum_nil]
  cases p <;> omega

/-- the evaluator after the first `k` of the six `eval_piece_type` calls. -/
def accumulateUpTo (b : Board) (k : Nat) : Evaluator :=
  (Piece.all.take k).foldl (fun e p => evalPieceType e b.active p b) {}

theorem accumulateUpTo_six (b : Board) : accumulateUpTo b 6 = accumulate b := rfl

theorem accumulateUpTo_bounds (b : Board) (k : Nat) :
    Within (accumulateUpTo b k).opening (accBound OPENING_TABLES) ∧
    Within (accumulateUpTo b k).endgame (accBound ENDGAME_TABLES) ∧
    0 ≤ (accumulateUpTo b k).gamephase ∧ (accumulateUpTo b k).gamephase ≤ phaseBound := by
  have o := fun p => dOpening_within b b.active p
  have e := fun p => dEndgame_within b b.active p
  have g := fun p => dPhase_bounds b b.active p
  have so := fun p => rowSpan_nonneg opening_rowsOK p
  have se := fun p => rowSpan_nonneg endgame_rowsOK p
  have gi := fun p => phaseInc_nonneg p
  have o0 := o .pawn; have o1 := o .knight; have o2 := o .bishop; have o3 := o .rook; have o4 := o .queen; have o5 := o .king
  have e0 := e .pawn; have e1 := e .knight; have e2 := e .bishop; have e3 := e .rook; have e4 := e .queen; have e5 := e .king
  have g0 := g .pawn; have g1 := g .knight; have g2 := g .bishop; have g3 := g .rook; have g4 := g .queen; have g5 := g .king
  have so0 := so .pawn; have so1 := so .knight; have so2 := so .bishop; have so3 := so .rook; have so4 := so .queen; have so5 := so .king
  have se0 := se .pawn; have se1 := se .knight; have se2 := se .bishop; have se3 := se .rook; have se4 := se .queen; have se5 := se .king
  have gi0 := gi .pawn; have gi1 := gi .knight; have gi2 := gi .bishop; have gi3 := gi .rook; have gi4 := gi .queen; have gi5 := gi .king
  clear o e g so se gi
  unfold Within at *
  unfold accumulateUpTo
  rw [foldl_evalPieceType]
  simp only [accBound, phaseBound, Piece.all, List.map_cons, List.map_nil, List.sum_cons, List.sum_nil]
  match k with
  | 0 => simp only [List.take_zero, List.map_nil, List.sum_nil]; omega
  | 1 => simp only [List.take_succ_cons, List.take_zero, List.map_cons, List.map_nil, List.sum_cons, List.sum_nil]; omega
  | 2 => simp only [List.take_succ_cons, List.take_zero, List.map_cons, List.map_nil, List.sum_cons, List.sum_nil]; omega
  | 3 => simp only [List.take_succ_cons, List.take_zero, List.map_cons, List.map_nil, List.sum_cons, List.sum_nil]; omega
  | 4 => simp only [List.take_succ_cons, List.take_zero, List.map_cons, List.map_nil, List.sum_cons, List.sum_nil]; omega
  | 5 => simp only [List.take_succ_cons, List.take_zero, List.map_cons, List.map_nil, List.sum_cons, List.sum_nil]; omega
  | k + 6 =>
    simp only [List.take_succ_cons, List.take_nil, List.map_cons, List.map_nil, List.sum_cons, List.sum_nil]; omega

/-! ### products in the taper -/

theorem mul_within24 (o op B : Int) (h0 : 0 ≤ op) (h24 : op ≤ 24) (ho : Within o B) : Within (o * op) (24 * B) := by
  unfold Within at *
  have a1 := Int.mul_le_mul_of_nonneg_right ho.1 h0
  have a2 := Int.mul_le_mul_of_nonneg_right ho.2 h0
  have hB : 0 ≤ B := by omega
  have a3 := Int.mul_le_mul_of_nonneg_left h24 hB
  grind

end Flounder
