/-
  Search with a game history, part 3: the alpha-beta contract of `negamax` on an ARBITRARY fixed repetition
  stack, against the reference value `Spec.Vd` (minimax in which a repetition met below the root is a leaf
  of value 0).

  * `RepIs drawn s`      : `is_repetition` on the state `s` is the predicate `drawn` (preserved: the search
                            never changes `rep`); `repIs_of_rep`: true of `drawn = Spec.drawnOn G s.rep`.
  * `EntryOKD`, `TTSoundD`: a record for `q` is a true Exact / Lower / Upper claim about `Vd drawn qf depth TRUE q`
                            — a record is only ever written / read at a node where the draw test did not fire,
                            and there `Vd … (ply = 0) q = Vd … true q` (`Vd_live`).
  * `ResultOKD`           : what a completed node where the test did not fire returns.
  * `RecOKD`              : the induction hypothesis; `negamaxD_ok` the main induction on depth.  The only new
                            case is "ply > 0 ∧ drawn p": result `⟨0, none⟩`, table untouched, value `some 0`.
  The probe analysis, `determineBound`, the frames and the loop (`negamaxLoop_ok_val`) are shared with the
  empty-stack development.
-/
import Flounder.Lemmas.DrawLoop
import Flounder.Lemmas.DrawSpec

namespace Flounder.Search
open Flounder Gen

section dcontract
variable {P : Type} (G : Game P)

/-! ### the stack -/

/-- the repetition test of the state `s` is the predicate `drawn`. -/
def RepIs (drawn : P → Bool) (s : SearchState) : Prop := ∀ q, s.isRepetition (G.hash q) = drawn q

theorem RepIs.of_rep {drawn : P → Bool} {s s' : SearchState} (h : RepIs G drawn s) (e : s'.rep = s.rep) :
    RepIs G drawn s' := by
  intro q
  rw [← h q]
  unfold SearchState.isRepetition
  rw [e]

/-- a state carrying the stack `R` tests `Spec.drawnOn G R`. -/
theorem repIs_of_rep (R : List UInt64) (s : SearchState) (hs : s.rep = R) : RepIs G (Spec.drawnOn G R) s :=
  fun q => isRepetition_drawnOn G R s hs q

/-- a stack on which no hash stands twice (`RepOK`) tests the empty predicate. -/
theorem repIs_of_repOK (s : SearchState) (h : RepOK s) : RepIs G (fun _ => false) s :=
  fun q => h.not_rep (G.hash q)

/-! ### table -/

/-- soundness of one entry for position `p` (as a node where the draw test does not fire), exact-depth
    semantics, scores seen through `c`. -/
structure EntryOKD (c : Int → Int) (drawn : P → Bool) (qf : Nat) (p : P) (e : Entry) : Prop where
  exact : ∀ v, Spec.Vd G drawn qf e.depth true p = some v → e.bounds = .exact → c e.eval = c v
  lower : ∀ v, Spec.Vd G drawn qf e.depth true p = some v → e.bounds = .lower → c e.eval ≤ c v
  upper : ∀ v, Spec.Vd G drawn qf e.depth true p = some v → e.bounds = .upper → c v ≤ c e.eval
  /-- an entry of depth ≥ 1 for a position with moves carries one of its moves -/
  move : 1 ≤ e.depth → G.moves p ≠ [] → ∃ m, e.bestMove = some m ∧ m ∈ G.moves p
  /-- the move of an exact entry inside the root window is a minimax-optimal move -/
  pv : e.bounds = .exact → NEGATIVE_INFINITY < c e.eval → c e.eval < INFINITY →
    ∀ k m x, e.depth = k + 1 → e.bestMove = some m →
      Spec.Vd G drawn qf k false (G.play p m) = some x → -x = e.eval

/-- every key-verified record of a position of `S` is sound w.r.t. `Vd drawn`. -/
def TTSoundD (c : Int → Int) (drawn : P → Bool) (S : P → Prop) (qf : Nat) (t : TT) : Prop :=
  ∀ p, S p → ∀ e, t.retrieve (G.hash p) = some e → EntryOKD G c drawn qf p e

theorem ttSoundD_new (c : Int → Int) (drawn : P → Bool) (S : P → Prop) (qf : Nat) :
    TTSoundD G c drawn S qf {} := by
  intro p _ e h
  simp [TT.retrieve] at h

/-- storing a sound record for `p` keeps the table sound. -/
theorem ttSoundD_store {c : Int → Int} {drawn : P → Bool} {S : P → Prop} {qf : Nat} {t : TT}
    (hinj : HashInj G S) (ht : TTSoundD G c drawn S qf t) (p : P) (hp : S p) (ev : Int) (mv : Option Move)
    (d : Nat) (b : Bounds) (he : EntryOKD G c drawn qf p ⟨G.hash p, ev, mv, d, b⟩) :
    TTSoundD G c drawn S qf (t.store (G.hash p) ev mv d b) := by
  intro q hq e hr
  rcases retrieve_store t (G.hash p) (G.hash q) ev mv d b with h | ⟨hk, h⟩
  · rw [h] at hr; exact ht q hq e hr
  · rw [h] at hr
    have : q = p := hinj q p hq hp hk
    subst this
    cases hr
    exact he

theorem TTSoundD.mono {c : Int → Int} {drawn : P → Bool} {S S' : P → Prop} {qf : Nat} {t : TT}
    (h : TTSoundD G c drawn S' qf t) (hs : ∀ p, S p → S' p) : TTSoundD G c drawn S qf t :=
  fun p hp e he => h p (hs p hp) e he

/-- without draws `EntryOKD` / `TTSoundD` are `EntryOK` / `TTSound`. -/
theorem entryOKD_no_draw_iff (c : Int → Int) (qf : Nat) (p : P) (e : Entry) :
    EntryOKD G c (fun _ => false) qf p e ↔ EntryOK G c qf p e := by
  constructor
  · intro h
    refine ⟨fun v hv => h.exact v ?_, fun v hv => h.lower v ?_, fun v hv => h.upper v ?_, h.move,
      fun hb h1 h2 k m x hk hm hx => h.pv hb h1 h2 k m x hk hm ?_⟩
    all_goals rw [Spec.Vd_no_draw]; assumption
  · intro h
    refine ⟨fun v hv => h.exact v ?_, fun v hv => h.lower v ?_, fun v hv => h.upper v ?_, h.move,
      fun hb h1 h2 k m x hk hm hx => h.pv hb h1 h2 k m x hk hm ?_⟩
    all_goals (rw [Spec.Vd_no_draw] at *; assumption)

theorem ttSoundD_no_draw_iff (c : Int → Int) (S : P → Prop) (qf : Nat) (t : TT) :
    TTSoundD G c (fun _ => false) S qf t ↔ TTSound G c S qf t :=
  ⟨fun h p hp e he => (entryOKD_no_draw_iff G c qf p e).1 (h p hp e he),
   fun h p hp e he => (entryOKD_no_draw_iff G c qf p e).2 (h p hp e he)⟩

/-! ### results -/

/-- the best move's child value (the child taken as a non-root) is the negated score. -/
def PVMoveD (drawn : P → Bool) (qf d : Nat) (p : P) (best : SearchResult) : Prop :=
  ∀ m x, best.bestMove = some m → Spec.Vd G drawn qf d false (G.play p m) = some x → -x = best.score

/-- what a completed `negamax d p α β` returns at a node where the draw test did not fire; `v` is the value
    of `p` taken as a root. -/
structure ResultOKD (c : Int → Int) (drawn : P → Bool) (qf d : Nat) (p : P) (α β v : Int)
    (r : SearchResult) : Prop where
  contract : Contract (c v) (c r.score) α β
  move : 1 ≤ d → G.moves p ≠ [] → ∃ m, r.bestMove = some m ∧ m ∈ G.moves p
  pv : α < c r.score → c r.score < β → ∀ k, d = k + 1 → PVMoveD G drawn qf k p r

/-- correctness of a `negamax d`-like function on a fixed stack (ranked form: the node lies in `N`, the table
    is sound on `U`).  The value is the one of `p` as a root exactly when `ply = 0`. -/
def RecOKD (c : Int → Int) (drawn : P → Bool) (N U : P → Prop) (qf d : Nat)
    (rec : P → Nat → Int → Int → SearchState → Option SearchResult × SearchState) : Prop :=
  ∀ (p : P) (ply : Nat) (α β : Int) (s : SearchState) (v : Int),
    N p → TTSoundD G c drawn U qf s.tt → RepIs G drawn s →
    Spec.Vd G drawn qf d (decide (ply = 0)) p = some v →
    NEGATIVE_INFINITY ≤ α → α < β → β ≤ INFINITY →
    s.stopSeen = false → (rec p ply α β s).2.stopSeen = false →
    (rec p ply α β s).2.deeperHits = s.deeperHits →
    ∃ r, (rec p ply α β s).1 = some r ∧ Contract (c v) (c r.score) α β ∧
      ((ply = 0 ∨ drawn p = false) → ResultOKD G c drawn qf d p α β v r) ∧
      TTSoundD G c drawn U qf (rec p ply α β s).2.tt

variable {c : Int → Int} {drawn : P → Bool} {qf : Nat}

/-- the induction hypothesis, as the loop wants it. -/
theorem childOK_of_recOKD {N U : P → Prop} (rec : P → Nat → Int → Int → SearchState → Option SearchResult × SearchState)
    (d : Nat) (hrec : RecOKD G c drawn N U qf d rec) (p : P) (hch : ∀ m ∈ G.moves p, N (G.play p m)) :
    ChildOK G c (TTSoundD G c drawn U qf) (RepIs G drawn) rec p
      (fun m => Spec.Vd G drawn qf d false (G.play p m)) := by
  intro m hm ply α β s x hT hR hx hα hαβ hβ hs hfin hdh
  have hply : decide (ply + 1 = 0) = false := by simp
  obtain ⟨r, hr, hcon, _, hT2⟩ := hrec (G.play p m) (ply + 1) α β s x (hch m hm) hT hR
    (by rw [hply]; exact hx) hα hαβ hβ hs hfin hdh
  exact ⟨r, hr, hcon, hT2⟩

/-! ### table hit / table store -/

/-- a usable entry of exactly the requested depth yields a correct result. -/
theorem hitD_ok (hc : Clamp c) (p : P) (d : Nat) (α β v : Int) (hα : NEGATIVE_INFINITY ≤ α) (hαβ : α < β)
    (hβ : β ≤ INFINITY) (e : Entry) (hE : EntryOKD G c drawn qf p e) (hd : e.depth = d)
    (hv : Spec.Vd G drawn qf d true p = some v)
    (hb : e.bounds = .exact ∨ (e.bounds = .lower ∧ max α e.eval ≥ β) ∨ (e.bounds = .upper ∧ α ≥ min β e.eval)) :
    ResultOKD G c drawn qf d p α β v ⟨e.eval, e.bestMove⟩ := by
  subst hd
  have hni := negInf_eq
  have hin := inf_eq
  rcases hb with hb | ⟨hb, hcut⟩ | ⟨hb, hcut⟩
  · refine ⟨Contract.of_eq (hE.exact v hv hb) α β, hE.move, ?_⟩
    intro h1 h2 k hk m x hm hx
    exact hE.pv hb (by simp only at h1; omega) (by simp only at h2; omega) k m x hk hm hx
  · have h1 : β ≤ c e.eval := (hc.ge_iff e.eval β (by omega) hβ).1 (by omega)
    have h2 := hE.lower v hv hb
    exact ⟨⟨fun h => by simp only at h; omega, fun _ => h2, fun _ h => by simp only at h; omega⟩, hE.move,
      fun _ h => by simp only at h; omega⟩
  · have h1 : c e.eval ≤ α := (hc.le_iff e.eval α hα (by omega)).1 (by omega)
    have h2 := hE.upper v hv hb
    exact ⟨⟨fun _ => h2, fun h => by simp only at h; omega, fun h _ => by simp only at h; omega⟩, hE.move,
      fun h _ => by simp only at h; omega⟩

/-- what `negamax` stores at the end of a completed node is a sound entry. -/
theorem storeD_entry_ok (hc : Clamp c) (p : P) (d : Nat) (α β v : Int) (hα : NEGATIVE_INFINITY ≤ α)
    (hαβ : α < β) (hβ : β ≤ INFINITY) (r : SearchResult) (hv : Spec.Vd G drawn qf (d + 1) true p = some v)
    (hr : ResultOKD G c drawn qf (d + 1) p α β v r) :
    EntryOKD G c drawn qf p ⟨G.hash p, r.score, r.bestMove, d + 1, determineBound r.score α β⟩ := by
  have hni := negInf_eq
  have hin := inf_eq
  have hcon := hr.contract
  have hl := hc.le_iff r.score α hα (by omega)
  have hg := hc.ge_iff r.score β (by omega) hβ
  have hbd : (determineBound r.score α β = .upper ∧ r.score ≤ α) ∨
      (determineBound r.score α β = .lower ∧ ¬ r.score ≤ α ∧ r.score ≥ β) ∨
      (determineBound r.score α β = .exact ∧ ¬ r.score ≤ α ∧ ¬ r.score ≥ β) := by
    unfold determineBound
    by_cases h1 : r.score ≤ α
    · rw [if_pos h1]; exact Or.inl ⟨rfl, h1⟩
    · rw [if_neg h1]
      by_cases h2 : r.score ≥ β
      · rw [if_pos h2]; exact Or.inr (Or.inl ⟨rfl, h1, h2⟩)
      · rw [if_neg h2]; exact Or.inr (Or.inr ⟨rfl, h1, h2⟩)
  refine ⟨?_, ?_, ?_, ?_, ?_⟩
  · intro v' hv' hb
    simp only at hv' hb ⊢
    rw [hv] at hv'; cases hv'
    rcases hbd with ⟨e, _⟩ | ⟨e, _⟩ | ⟨_, h1, h2⟩
    · rw [e] at hb; cases hb
    · rw [e] at hb; cases hb
    · have := hc.inside r.score (by omega) (by omega)
      exact hcon.2.2 (by omega) (by omega)
  · intro v' hv' hb
    simp only at hv' hb ⊢
    rw [hv] at hv'; cases hv'
    rcases hbd with ⟨e, _⟩ | ⟨_, h1, h2⟩ | ⟨e, _⟩
    · rw [e] at hb; cases hb
    · have := hcon.2.1 (by omega); omega
    · rw [e] at hb; cases hb
  · intro v' hv' hb
    simp only at hv' hb ⊢
    rw [hv] at hv'; cases hv'
    rcases hbd with ⟨_, h1⟩ | ⟨e, _⟩ | ⟨e, _⟩
    · exact hcon.1 (by omega)
    · rw [e] at hb; cases hb
    · rw [e] at hb; cases hb
  · intro _ hm; exact hr.move (by omega) hm
  · intro hb h1 h2 k m x hk hm hx
    simp only at hb h1 h2 hk hm ⊢
    rcases hbd with ⟨e, _⟩ | ⟨e, _⟩ | ⟨_, h3, h4⟩
    · rw [e] at hb; cases hb
    · rw [e] at hb; cases hb
    · exact hr.pv (by omega) (by omega) k hk m x hm hx

/-! ### an inner node after a table miss -/

/-- the node lies in `U` (it is stored in the table), its children in `N`; the draw test did not fire at
    the node (`hv` is about the node as a root). -/
theorem innerResultD_ok {N U : P → Prop} (hc : Clamp c) (hinj : HashInj G U)
    (rec : P → Nat → Int → Int → SearchState → Option SearchResult × SearchState) (d : Nat)
    (hrecF : ∀ q ply a b s, Frame s (rec q ply a b s).2) (hrec : RecOKD G c drawn N U qf d rec)
    (p : P) (ply : Nat) (α β : Int) (ttMove : Option Move) (s : SearchState) (v : Int)
    (hSp : U p) (hch : ∀ m ∈ G.moves p, N (G.play p m))
    (hT : TTSoundD G c drawn U qf s.tt) (hR : RepIs G drawn s)
    (hv : Spec.Vd G drawn qf (d + 1) true p = some v)
    (hα : NEGATIVE_INFINITY ≤ α) (hαβ : α < β) (hβ : β ≤ INFINITY) (hs : s.stopSeen = false)
    (hfin : (innerResult G rec d p ply α β ttMove s).2.stopSeen = false)
    (hdh : (innerResult G rec d p ply α β ttMove s).2.deeperHits = s.deeperHits) :
    ∃ r, (innerResult G rec d p ply α β ttMove s).1 = some r ∧ ResultOKD G c drawn qf (d + 1) p α β v r ∧
      TTSoundD G c drawn U qf (innerResult G rec d p ply α β ttMove s).2.tt := by
  cases hms : G.moves p with
  | nil =>
    rw [innerResult_nil G rec d p ply α β ttMove s hms]
    rw [Vd_root_succ_nil G drawn qf d p hms] at hv
    by_cases hch : G.inCheck p = true
    · rw [if_pos hch] at hv ⊢
      cases hv
      exact ⟨_, rfl, ⟨Contract.of_eq rfl α β, fun _ h => absurd hms h,
        fun _ _ k _ m x hm _ => by cases hm⟩, hT⟩
    · rw [if_neg hch] at hv ⊢
      cases hv
      exact ⟨_, rfl, ⟨Contract.of_eq rfl α β, fun _ h => absurd hms h,
        fun _ _ k _ m x hm _ => by cases hm⟩, hT⟩
  | cons m0 tl =>
    have hne : G.moves p ≠ [] := by rw [hms]; simp
    obtain ⟨hex, hub, m1, hm1, x1, hx1, hach⟩ := Vd_children G drawn qf d p v hne hv
    rw [innerResult_cons G rec d p ply α β ttMove s m0 tl hms] at hfin hdh ⊢
    have hperm := orderMoves_perm G s p (G.moves p) ttMove ply
    generalize orderMoves G s p (G.moves p) ttMove ply = ordered at hfin hdh hperm ⊢
    have hone : ordered ≠ [] := by
      intro h; rw [h] at hperm; exact hne (List.Perm.eq_nil hperm.symm)
    have hLF := negamaxLoop_frame G rec hrecF p (d + 1) ply β ordered
      ⟨α, ⟨NEGATIVE_INFINITY, some (ordered.headD m0)⟩⟩ s
    have hloop := negamaxLoop_ok_val G hc (TTSoundD G c drawn U qf) (RepIs G drawn)
      (fun _ _ e h => h.of_rep G e) rec hrecF p
      (fun m => Spec.Vd G drawn qf d false (G.play p m)) (childOK_of_recOKD G rec d hrec p hch)
      (d + 1) ply α β v hα hβ ordered
      ⟨α, ⟨NEGATIVE_INFINITY, some (ordered.headD m0)⟩⟩ s
      (fun m hm => hperm.mem_iff.1 hm)
      (fun m hm => hex m (hperm.mem_iff.1 hm))
      (fun m hm x hx => by
        have h1 := hc.mono _ _ (hub m (hperm.mem_iff.1 hm) x hx)
        rw [hc.odd] at h1; exact h1)
      (by simp only; rw [hc.negInf]; omega) hαβ
      (Or.inr ⟨m1, hperm.mem_iff.2 hm1, x1, hx1, by rw [← hc.odd, hach]⟩)
      (fun h => by simp only at h; rw [hc.negInf] at h; omega)
      ⟨ordered.headD m0, rfl, hperm.mem_iff.1 (headD_mem ordered m0 hone)⟩
      hT hR hs
    rcases hl : negamaxLoop G rec p (d + 1) ply β ordered
      ⟨α, ⟨NEGATIVE_INFINITY, some (ordered.headD m0)⟩⟩ s with ⟨ro, s2⟩
    rw [hl] at hfin hdh hloop hLF
    have hs2 : s2.stopSeen = false ∧ s2.deeperHits = s.deeperHits := by
      cases ro with
      | none => exact ⟨hfin, hdh⟩
      | some acc =>
        simp only at hfin hdh
        have f := finishNode_frame G p (d + 1) α β acc s2
        refine ⟨f.noStop hfin, ?_⟩
        have h1 := f.deeper
        have h2 := hLF.deeper
        simp only at h2
        omega
    obtain ⟨acc, hacc, hcon, hM, hPV, hT2⟩ := hloop hs2.1 hs2.2
    simp only at hacc hT2
    subst hacc
    simp only at hfin hdh ⊢
    unfold finishNode at hfin hdh ⊢
    have hsf : stopFlag s2 = false := by
      cases h : stopFlag s2
      · rfl
      · rw [h] at hfin; simp [polled, h] at hfin
    rw [hsf] at hfin hdh ⊢
    simp only [Bool.false_eq_true, ↓reduceIte] at hfin hdh ⊢
    have hres : ResultOKD G c drawn qf (d + 1) p α β v acc.best :=
      ⟨hcon, fun _ _ => hM, fun h1 h2 k hk => by
        have : k = d := by omega
        subst this; exact hPV h1 h2⟩
    refine ⟨acc.best, rfl, hres, ?_⟩
    exact ttSoundD_store G hinj hT2 p hSp _ _ _ _ (storeD_entry_ok G hc p d α β v hα hαβ hβ acc.best hv hres)

/-! ### the main induction -/

/-- the head of `negamax` on a state that tests `drawn`. -/
theorem repTest_eq {s : SearchState} (hR : RepIs G drawn s) (ply : Nat) (p : P) :
    (decide (ply > 0) && s.incrementNodes.isRepetition (G.hash p)) = (decide (ply > 0) && drawn p) := by
  rw [← hR p]; rfl

/-- the new case: below the root, at a repetition. -/
theorem drawn_node_ok {U : P → Prop} (d ply : Nat) (p : P) (α β v : Int) (s : SearchState)
    (hT : TTSoundD G c drawn U qf s.tt) (hrep : (decide (ply > 0) && drawn p) = true)
    (hv : Spec.Vd G drawn qf d (decide (ply = 0)) p = some v) :
    ∃ r, (some (⟨0, none⟩ : SearchResult), s.incrementNodes).1 = some r ∧ Contract (c v) (c r.score) α β ∧
      ((ply = 0 ∨ drawn p = false) → ResultOKD G c drawn qf d p α β v r) ∧
      TTSoundD G c drawn U qf (some (⟨0, none⟩ : SearchResult), s.incrementNodes).2.tt := by
  rw [(Vd_head G drawn qf d ply p).1 hrep] at hv
  cases hv
  simp only [Bool.and_eq_true, decide_eq_true_eq] at hrep
  refine ⟨⟨0, none⟩, rfl, Contract.of_eq rfl α β, fun h => ?_, hT⟩
  rcases h with h | h
  · omega
  · rw [hrep.2] at h; cases h

/-- **main induction**: `negamax qfuel d` on a fixed stack is correct for every depth. -/
theorem negamaxD_ok {S : Nat → P → Prop} (hc : Clamp c) (hr : Ranked G S)
    (hinj : HashInj G (Ranked.U S)) (qfuel : Nat) (hq : qf ≤ qfuel) :
    ∀ d, RecOKD G c drawn (S d) (Ranked.U S) qf d (negamax G qfuel d) := by
  intro d
  induction d with
  | zero =>
    intro p ply α β s v hSp hT hR hv hα hαβ hβ hs hfin hdh
    rw [negamax_zero, repTest_eq G hR] at hfin hdh ⊢
    rcases Bool.eq_false_or_eq_true (decide (ply > 0) && drawn p) with hrep | hrep
    · rw [hrep] at hfin hdh ⊢
      simp only [↓reduceIte] at hfin hdh ⊢
      exact drawn_node_ok G 0 ply p α β v s hT hrep hv
    rw [hrep] at hfin hdh ⊢
    rw [(Vd_head G drawn qf 0 ply p).2 hrep] at hv
    simp only [Bool.false_eq_true, ↓reduceIte] at hfin hdh ⊢
    suffices h : ∃ r, (match probeTT G s.incrementNodes p 0 α β with
          | (some cached, _, s) => (some cached, s)
          | (none, _, s) => leafResult G qfuel p α β s).1 = some r ∧
        ResultOKD G c drawn qf 0 p α β v r ∧
        TTSoundD G c drawn (Ranked.U S) qf (match probeTT G s.incrementNodes p 0 α β with
          | (some cached, _, s) => (some cached, s)
          | (none, _, s) => leafResult G qfuel p α β s).2.tt by
      obtain ⟨r, h1, h2, h3⟩ := h
      exact ⟨r, h1, h2.contract, fun _ => h2, h3⟩
    rcases hp : probeTT G s.incrementNodes p 0 α β with ⟨ro, mvv, s1⟩
    rcases probeTT_cases G s.incrementNodes p 0 α β with ⟨h1, h2⟩ | ⟨e, he, hde, h1, hb, h2⟩
    all_goals rw [hp] at h1 h2 hfin hdh
    all_goals simp only at h1 h2
    all_goals subst h1
    all_goals subst h2
    all_goals simp only at hfin hdh ⊢
    · -- miss: quiescence
      unfold leafResult at hfin hdh ⊢
      rw [Vd_root_zero] at hv
      have hQ := quiesce_ok G qf qfuel p α β v s.incrementNodes hαβ hv hq hs
      have hQF := quiesce_frame G qfuel p α β s.incrementNodes
      rcases hqr : quiesce G qfuel p α β s.incrementNodes with ⟨qo, s2⟩
      rw [hqr] at hQ hQF hfin hdh
      have hs2 : s2.stopSeen = false := by cases qo <;> exact hfin
      obtain ⟨r, hr, hcon⟩ := hQ hs2
      simp only at hr
      subst hr
      refine ⟨⟨r, none⟩, rfl, ⟨hc.contract hcon hα hαβ hβ, fun h => by omega,
        fun _ _ k hk => by omega⟩, ?_⟩
      simp only
      rw [hQF.tt]; exact hT
    · -- hit
      have hnd := counted_deeper _ _ _ hdh
      refine ⟨_, rfl, hitD_ok G hc p 0 α β v hα hαβ hβ e (hT p (Ranked.mem_U hSp) e he) (by omega) hv hb, ?_⟩
      rw [counted_tt]; exact hT
  | succ d ih =>
    intro p ply α β s v hSp hT hR hv hα hαβ hβ hs hfin hdh
    rw [negamax_succ, repTest_eq G hR] at hfin hdh ⊢
    rcases Bool.eq_false_or_eq_true (decide (ply > 0) && drawn p) with hrep | hrep
    · rw [hrep] at hfin hdh ⊢
      simp only [↓reduceIte] at hfin hdh ⊢
      exact drawn_node_ok G (d + 1) ply p α β v s hT hrep hv
    rw [hrep] at hfin hdh ⊢
    rw [(Vd_head G drawn qf (d + 1) ply p).2 hrep] at hv
    simp only [Bool.false_eq_true, ↓reduceIte] at hfin hdh ⊢
    suffices h : ∃ r, (match probeTT G s.incrementNodes p (d + 1) α β with
          | (some cached, _, s) => (some cached, s)
          | (none, ttMove, s) => innerResult G (negamax G qfuel d) d p ply α β ttMove s).1 = some r ∧
        ResultOKD G c drawn qf (d + 1) p α β v r ∧
        TTSoundD G c drawn (Ranked.U S) qf (match probeTT G s.incrementNodes p (d + 1) α β with
          | (some cached, _, s) => (some cached, s)
          | (none, ttMove, s) => innerResult G (negamax G qfuel d) d p ply α β ttMove s).2.tt by
      obtain ⟨r, h1, h2, h3⟩ := h
      exact ⟨r, h1, h2.contract, fun _ => h2, h3⟩
    rcases hp : probeTT G s.incrementNodes p (d + 1) α β with ⟨ro, mvv, s1⟩
    rcases probeTT_cases G s.incrementNodes p (d + 1) α β with ⟨h1, h2⟩ | ⟨e, he, hde, h1, hb, h2⟩
    all_goals rw [hp] at h1 h2 hfin hdh
    all_goals simp only at h1 h2
    all_goals subst h1
    all_goals subst h2
    all_goals simp only at hfin hdh ⊢
    · -- miss: the move loop
      exact innerResultD_ok G hc hinj (negamax G qfuel d) d (negamax_frame G qfuel d) ih p ply α β mvv
        s.incrementNodes v (Ranked.mem_U hSp) (fun m hm => hr.step d p m hSp hm) hT (hR.of_rep G rfl) hv
        hα hαβ hβ hs hfin hdh
    · -- hit
      have hnd := counted_deeper _ _ _ hdh
      refine ⟨_, rfl, hitD_ok G hc p (d + 1) α β v hα hαβ hβ e (hT p (Ranked.mem_U hSp) e he) (by omega) hv hb, ?_⟩
      rw [counted_tt]; exact hT

end dcontract
end Flounder.Search
