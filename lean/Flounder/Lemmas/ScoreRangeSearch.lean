/-
  C05 range helpers, part 2: the arithmetic-site predicates of the search functions and the induction that
  establishes them (fuel for quiescence, depth for `negamax`, list recursion for the two move loops).

  Reading a `…Sites` predicate: it is the model function with every result replaced by `True` and every
  arithmetic expression `e` of the Rust source replaced by the conjunct `I32 e` (resp. `I8`, `U8`); recursive
  calls become the callee's predicate AT THE SAME ARGUMENTS AND STATE, and the values that flow onwards are
  taken from the model itself (`match rec … with | (some v, s') => …`).  The equation lemmas `…Sites_cons`,
  `…Sites_succ` are `rfl`.
-/
import Flounder.Lemmas.ScoreRange

namespace Flounder.Range
open Flounder Gen Flounder.Search

section sites
variable {P : Type} (G : Game P)

/-- the evaluator returns an `i32` (for chess: `eval_no_overflow_i32`, every board). -/
def EvalI32 : Prop := ∀ p, I32 (G.eval p)

/-! ### quiescence -/

/-- sites of the move loop of `search_until_quiet`: `-beta`, `-alpha`, the callee's sites, the returned
    `v` and `-v`, `max(alpha, score)`. -/
def quiesceLoopSites (rec : P → Int → Int → SearchState → Option Int × SearchState)
    (recS : P → Int → Int → SearchState → Prop) (p : P) (β : Int) :
    List Move → Int → SearchState → Prop
  | [], _, _ => True
  | mv :: rest, α, s =>
    if stopFlag s = true then True
    else
      I32 (-β) ∧ I32 (-α) ∧ recS (G.play p mv) (-β) (-α) (polled s) ∧
      match rec (G.play p mv) (-β) (-α) (polled s) with
      | (none, _) => True
      | (some v, s') =>
        I32 v ∧ I32 (-v) ∧
        if -v ≥ β then True
        else I32 (max α (-v)) ∧ quiesceLoopSites rec recS p β rest (max α (-v)) s'

/-- sites of `search_until_quiet`: the `i8` keys of `order_captures`, `-CHECKMATE_SCORE`, the stand-pat
    score, `max(alpha, stand_pat)`, the loop. -/
def quiesceSites : Nat → P → Int → Int → SearchState → Prop
  | 0, _, _, _, _ => True
  | fuel + 1, p, α, β, s =>
    (∀ mv ∈ qList G p, captureKeySites G p mv) ∧
    if ((orderCaptures G p (qList G p)).isEmpty && G.inCheck p) = true then I32 (-CHECKMATE_SCORE)
    else
      I32 (G.eval p) ∧
      if G.eval p ≥ β then True
      else
        I32 (max α (G.eval p)) ∧
        quiesceLoopSites G (quiesce G fuel) (quiesceSites fuel) p β (orderCaptures G p (qList G p))
          (max α (G.eval p)) s.incrementNodes

theorem quiesceLoopSites_cons (rec : P → Int → Int → SearchState → Option Int × SearchState)
    (recS : P → Int → Int → SearchState → Prop) (p : P) (β α : Int) (mv : Move) (rest : List Move)
    (s : SearchState) :
    quiesceLoopSites G rec recS p β (mv :: rest) α s =
      if stopFlag s = true then True
      else
        I32 (-β) ∧ I32 (-α) ∧ recS (G.play p mv) (-β) (-α) (polled s) ∧
        match rec (G.play p mv) (-β) (-α) (polled s) with
        | (none, _) => True
        | (some v, s') =>
          I32 v ∧ I32 (-v) ∧
          if -v ≥ β then True
          else I32 (max α (-v)) ∧ quiesceLoopSites G rec recS p β rest (max α (-v)) s' := rfl

theorem quiesceSites_succ (fuel : Nat) (p : P) (α β : Int) (s : SearchState) :
    quiesceSites G (fuel + 1) p α β s =
      ((∀ mv ∈ qList G p, captureKeySites G p mv) ∧
      if ((orderCaptures G p (qList G p)).isEmpty && G.inCheck p) = true then I32 (-CHECKMATE_SCORE)
      else
        I32 (G.eval p) ∧
        if G.eval p ≥ β then True
        else
          I32 (max α (G.eval p)) ∧
          quiesceLoopSites G (quiesce G fuel) (quiesceSites G fuel) p β (orderCaptures G p (qList G p))
            (max α (G.eval p)) s.incrementNodes) := rfl

/-- what a score-returning call guarantees: its sites, a returned score in `[-B, B]`, the state invariant. -/
structure QPost (B : Int) (sites : Prop) (out : Option Int × SearchState) : Prop where
  sites : sites
  score : ∀ v, out.1 = some v → Sym B v
  state : StateOK B out.2

theorem quiesceLoop_range {B : Int} (hB : BoundOK B)
    (rec : P → Int → Int → SearchState → Option Int × SearchState)
    (recS : P → Int → Int → SearchState → Prop)
    (hrec : ∀ q a b s, Sym B a → Sym B b → StateOK B s → QPost B (recS q a b s) (rec q a b s))
    (p : P) (β : Int) (hβ : Sym B β) :
    ∀ (ms : List Move) (α : Int) (s : SearchState), Sym B α → StateOK B s →
      QPost B (quiesceLoopSites G rec recS p β ms α s) (quiesceLoop G rec p β ms α s) := by
  intro ms
  induction ms with
  | nil =>
    intro α s hα hs
    rw [quiesceLoop_nil]
    exact ⟨trivial, fun v h => by cases h; exact hα, hs⟩
  | cons mv rest ih =>
    intro α s hα hs
    rw [quiesceLoop_cons, quiesceLoopSites_cons]
    by_cases hstop : stopFlag s = true
    · rw [if_pos hstop, if_pos hstop]
      exact ⟨trivial, fun v h => by cases h; exact hα, stateOK_polled hs⟩
    · rw [if_neg hstop, if_neg hstop]
      have h := hrec (G.play p mv) (-β) (-α) (polled s) hβ.neg hα.neg (stateOK_polled hs)
      rcases hres : rec (G.play p mv) (-β) (-α) (polled s) with ⟨ro, s2⟩
      rw [hres] at h
      obtain ⟨h1, h2, h3⟩ := h
      cases ro with
      | none =>
        exact ⟨⟨hβ.neg_i32 hB, hα.neg_i32 hB, h1, trivial⟩, (fun v h => by cases h), h3⟩
      | some v =>
        have hv : Sym B v := h2 v rfl
        simp only
        by_cases hc : -v ≥ β
        · rw [if_pos hc, if_pos hc]
          exact ⟨⟨hβ.neg_i32 hB, hα.neg_i32 hB, h1, hv.i32 hB, hv.neg_i32 hB, trivial⟩,
            fun v h => by cases h; exact hβ, h3⟩
        · rw [if_neg hc, if_neg hc]
          have hm : Sym B (max α (-v)) := hα.max hv.neg
          obtain ⟨i1, i2, i3⟩ := ih (max α (-v)) s2 hm h3
          exact ⟨⟨hβ.neg_i32 hB, hα.neg_i32 hB, h1, hv.i32 hB, hv.neg_i32 hB, hm.i32 hB, i1⟩, i2, i3⟩

/-- **quiescence**: window and state in range ⟹ every site representable, returned score in `[-B, B]`
    (in fact inside the window or `-CHECKMATE_SCORE`), state invariant kept. -/
theorem quiesce_range {B : Int} (hB : BoundOK B) (hE : EvalI32 G) (fuel : Nat) :
    ∀ (p : P) (α β : Int) (s : SearchState), Sym B α → Sym B β → StateOK B s →
      QPost B (quiesceSites G fuel p α β s) (quiesce G fuel p α β s) := by
  induction fuel with
  | zero =>
    intro p α β s _ _ hs
    exact ⟨trivial, (fun v h => by cases h), hs⟩
  | succ n ih =>
    intro p α β s hα hβ hs
    rw [quiesce_succ, quiesceSites_succ]
    have hk : ∀ mv ∈ qList G p, captureKeySites G p mv := fun mv _ => captureKeySites_of G p mv
    have hs1 := stateOK_incrementNodes hs
    by_cases hm : ((orderCaptures G p (qList G p)).isEmpty && G.inCheck p) = true
    · rw [if_pos hm, if_pos hm]
      exact ⟨⟨hk, (sym_negCm hB).i32 hB⟩, fun v h => by cases h; exact sym_negCm hB, hs1⟩
    · rw [if_neg hm, if_neg hm]
      by_cases hc : G.eval p ≥ β
      · rw [if_pos hc, if_pos hc]
        exact ⟨⟨hk, hE p, trivial⟩, fun v h => by cases h; exact hβ, hs1⟩
      · rw [if_neg hc, if_neg hc]
        -- the stand-pat score is below beta, so `max alpha stand_pat` stays in range whatever the evaluator says
        have hm' : Sym B (max α (G.eval p)) := by
          unfold Sym at *; omega
        obtain ⟨i1, i2, i3⟩ := quiesceLoop_range G hB (quiesce G n) (quiesceSites G n)
          (fun q a b s ha hb hs => ih q a b s ha hb hs) p β hβ
          (orderCaptures G p (qList G p)) (max α (G.eval p)) s.incrementNodes hm' hs1
        exact ⟨⟨hk, hE p, hm'.i32 hB, i1⟩, i2, i3⟩

/-! ### `negamax` -/

/-- sites of the move loop of `negamax`: `ply + 1` (in `u8`), `-beta`, `-alpha`, the callee's sites, the
    returned score and its negation, `max(alpha, score)`, and at a quiet cutoff `record_cutoff`. -/
def negamaxLoopSites (rec : P → Nat → Int → Int → SearchState → Option SearchResult × SearchState)
    (recS : P → Nat → Int → Int → SearchState → Prop) (p : P) (depth ply : Nat) (β : Int) :
    List Move → LoopAcc → SearchState → Prop
  | [], _, _ => True
  | mv :: rest, acc, s =>
    if stopFlag s = true then True
    else
      U8 (ply + 1) ∧ I32 (-β) ∧ I32 (-acc.alpha) ∧
      recS (G.play p mv) (ply + 1) (-β) (-acc.alpha) (polled s) ∧
      match rec (G.play p mv) (ply + 1) (-β) (-acc.alpha) (polled s) with
      | (none, _) => True
      | (some r, s') =>
        I32 r.score ∧ I32 (-r.score) ∧ I32 (max acc.alpha (-r.score)) ∧
        if max acc.alpha (-r.score) ≥ β then
          (mv.kind = .quiet → cutoffSites (s'.storeKiller mv ply) mv depth)
        else negamaxLoopSites rec recS p depth ply β rest
          ⟨max acc.alpha (-r.score), if -r.score > acc.best.score then ⟨-r.score, some mv⟩ else acc.best⟩ s'

theorem negamaxLoopSites_cons (rec : P → Nat → Int → Int → SearchState → Option SearchResult × SearchState)
    (recS : P → Nat → Int → Int → SearchState → Prop) (p : P) (depth ply : Nat) (β : Int) (mv : Move)
    (rest : List Move) (acc : LoopAcc) (s : SearchState) :
    negamaxLoopSites G rec recS p depth ply β (mv :: rest) acc s =
      if stopFlag s = true then True
      else
        U8 (ply + 1) ∧ I32 (-β) ∧ I32 (-acc.alpha) ∧
        recS (G.play p mv) (ply + 1) (-β) (-acc.alpha) (polled s) ∧
        match rec (G.play p mv) (ply + 1) (-β) (-acc.alpha) (polled s) with
        | (none, _) => True
        | (some r, s') =>
          I32 r.score ∧ I32 (-r.score) ∧ I32 (max acc.alpha (-r.score)) ∧
          if max acc.alpha (-r.score) ≥ β then
            (mv.kind = .quiet → cutoffSites (s'.storeKiller mv ply) mv depth)
          else negamaxLoopSites G rec recS p depth ply β rest
            ⟨max acc.alpha (-r.score), if -r.score > acc.best.score then ⟨-r.score, some mv⟩ else acc.best⟩
            s' := rfl

/-- what a `SearchResult`-returning call guarantees. -/
structure NPost (B : Int) (sites : Prop) (out : Option SearchResult × SearchState) : Prop where
  sites : sites
  score : ∀ r, out.1 = some r → Sym B r.score
  state : StateOK B out.2

/-- what the move loop guarantees: `alpha` and the best score so far in `[-B, B]`. -/
structure LPost (B : Int) (sites : Prop) (out : Option LoopAcc × SearchState) : Prop where
  sites : sites
  score : ∀ acc, out.1 = some acc → Sym B acc.alpha ∧ Sym B acc.best.score
  state : StateOK B out.2

theorem negamaxLoop_range {B : Int} (hB : BoundOK B)
    (rec : P → Nat → Int → Int → SearchState → Option SearchResult × SearchState)
    (recS : P → Nat → Int → Int → SearchState → Prop) (ply : Nat) (hply : ply + 1 ≤ 255)
    (hrec : ∀ q a b s, Sym B a → Sym B b → StateOK B s → NPost B (recS q (ply + 1) a b s) (rec q (ply + 1) a b s))
    (p : P) (depth : Nat) (hdepth : depth ≤ 255) (β : Int) (hβ : Sym B β) :
    ∀ (ms : List Move) (acc : LoopAcc) (s : SearchState), Sym B acc.alpha → Sym B acc.best.score → StateOK B s →
      LPost B (negamaxLoopSites G rec recS p depth ply β ms acc s) (negamaxLoop G rec p depth ply β ms acc s) := by
  intro ms
  induction ms with
  | nil =>
    intro acc s hα hb hs
    rw [negamaxLoop_nil]
    exact ⟨trivial, fun a h => by cases h; exact ⟨hα, hb⟩, hs⟩
  | cons mv rest ih =>
    intro acc s hα hb hs
    rw [negamaxLoop_cons, negamaxLoopSites_cons]
    by_cases hstop : stopFlag s = true
    · rw [if_pos hstop, if_pos hstop]
      exact ⟨trivial, fun a h => by cases h; exact ⟨hα, hb⟩, stateOK_polled hs⟩
    · rw [if_neg hstop, if_neg hstop]
      have h := hrec (G.play p mv) (-β) (-acc.alpha) (polled s) hβ.neg hα.neg (stateOK_polled hs)
      rcases hres : rec (G.play p mv) (ply + 1) (-β) (-acc.alpha) (polled s) with ⟨ro, s2⟩
      rw [hres] at h
      obtain ⟨h1, h2, h3⟩ := h
      have hu : U8 (ply + 1) := hply
      cases ro with
      | none =>
        exact ⟨⟨hu, hβ.neg_i32 hB, hα.neg_i32 hB, h1, trivial⟩, (fun a h => by cases h), h3⟩
      | some r =>
        have hv : Sym B r.score := h2 r rfl
        have hm : Sym B (max acc.alpha (-r.score)) := hα.max hv.neg
        have hbest : Sym B (if -r.score > acc.best.score then (⟨-r.score, some mv⟩ : SearchResult)
            else acc.best).score := by
          split
          · exact hv.neg
          · exact hb
        simp only
        by_cases hc : max acc.alpha (-r.score) ≥ β
        · rw [if_pos hc, if_pos hc]
          refine ⟨⟨hu, hβ.neg_i32 hB, hα.neg_i32 hB, h1, hv.i32 hB, hv.neg_i32 hB, hm.i32 hB, ?_⟩,
            fun a h => by cases h; exact ⟨hm, hbest⟩, stateOK_cut h3 mv ply depth⟩
          intro _
          exact cutoffSites_of (histSym_of_history h3.hist (storeKiller_history s2 mv ply)) mv hdepth
        · rw [if_neg hc, if_neg hc]
          obtain ⟨i1, i2, i3⟩ := ih ⟨max acc.alpha (-r.score),
            if -r.score > acc.best.score then ⟨-r.score, some mv⟩ else acc.best⟩ s2 hm hbest h3
          exact ⟨⟨hu, hβ.neg_i32 hB, hα.neg_i32 hB, h1, hv.i32 hB, hv.neg_i32 hB, hm.i32 hB, i1⟩, i2, i3⟩

/-- sites of an inner node after a table miss: the terminal score `-CHECKMATE_SCORE + depth as i32`, the
    `order_moves` keys of every generated move, the loop. (`finishNode` — poll, `determine_bound`, store — has
    no arithmetic; the stored score is covered by `StateOK` of the final state.) -/
def innerSites (rec : P → Nat → Int → Int → SearchState → Option SearchResult × SearchState)
    (recS : P → Nat → Int → Int → SearchState → Prop)
    (d : Nat) (p : P) (ply : Nat) (α β : Int) (ttMove : Option Move) (s : SearchState) : Prop :=
  match G.moves p with
  | [] =>
    if G.inCheck p then
      I32 ((d + 1 : Nat) : Int) ∧ I32 (-CHECKMATE_SCORE) ∧ I32 (-CHECKMATE_SCORE + ((d + 1 : Nat) : Int))
    else True
  | m0 :: _ =>
    (∀ mv ∈ G.moves p, orderKeySites G s p mv) ∧
    negamaxLoopSites G rec recS p (d + 1) ply β (orderMoves G s p (G.moves p) ttMove ply)
      ⟨α, ⟨NEGATIVE_INFINITY, some ((orderMoves G s p (G.moves p) ttMove ply).headD m0)⟩⟩ s

theorem innerSites_nil (rec : P → Nat → Int → Int → SearchState → Option SearchResult × SearchState)
    (recS : P → Nat → Int → Int → SearchState → Prop)
    (d : Nat) (p : P) (ply : Nat) (α β : Int) (ttMove : Option Move) (s : SearchState) (h : G.moves p = []) :
    innerSites G rec recS d p ply α β ttMove s =
      if G.inCheck p then
        I32 ((d + 1 : Nat) : Int) ∧ I32 (-CHECKMATE_SCORE) ∧ I32 (-CHECKMATE_SCORE + ((d + 1 : Nat) : Int))
      else True := by
  unfold innerSites
  split
  · rfl
  · rename_i h'; rw [h] at h'; cases h'

theorem innerSites_cons (rec : P → Nat → Int → Int → SearchState → Option SearchResult × SearchState)
    (recS : P → Nat → Int → Int → SearchState → Prop)
    (d : Nat) (p : P) (ply : Nat) (α β : Int) (ttMove : Option Move) (s : SearchState) (m0 : Move)
    (tl : List Move) (h : G.moves p = m0 :: tl) :
    innerSites G rec recS d p ply α β ttMove s =
      ((∀ mv ∈ G.moves p, orderKeySites G s p mv) ∧
      negamaxLoopSites G rec recS p (d + 1) ply β (orderMoves G s p (G.moves p) ttMove ply)
        ⟨α, ⟨NEGATIVE_INFINITY, some ((orderMoves G s p (G.moves p) ttMove ply).headD m0)⟩⟩ s) := by
  unfold innerSites
  split
  · rename_i h'; rw [h] at h'; cases h'
  · rename_i m0' tl' h'; rw [h] at h'; cases h'; rfl

/-- sites of `negamax`: a cached score is an `i32`; otherwise quiescence (depth 0) or the inner node. -/
def negamaxSites (qfuel : Nat) : Nat → P → Nat → Int → Int → SearchState → Prop
  | 0, p, ply, α, β, s =>
    if (decide (ply > 0) && s.incrementNodes.isRepetition (G.hash p)) = true then True
    else
      match probeTT G s.incrementNodes p 0 α β with
      | (some cached, _, _) => I32 cached.score
      | (none, _, s1) => quiesceSites G qfuel p α β s1
  | d + 1, p, ply, α, β, s =>
    if (decide (ply > 0) && s.incrementNodes.isRepetition (G.hash p)) = true then True
    else
      match probeTT G s.incrementNodes p (d + 1) α β with
      | (some cached, _, _) => I32 cached.score
      | (none, ttMove, s1) => innerSites G (negamax G qfuel d) (negamaxSites qfuel d) d p ply α β ttMove s1

theorem negamaxSites_zero (qfuel : Nat) (p : P) (ply : Nat) (α β : Int) (s : SearchState) :
    negamaxSites G qfuel 0 p ply α β s =
      if (decide (ply > 0) && s.incrementNodes.isRepetition (G.hash p)) = true then True
      else
        match probeTT G s.incrementNodes p 0 α β with
        | (some cached, _, _) => I32 cached.score
        | (none, _, s1) => quiesceSites G qfuel p α β s1 := rfl

theorem negamaxSites_succ (qfuel d : Nat) (p : P) (ply : Nat) (α β : Int) (s : SearchState) :
    negamaxSites G qfuel (d + 1) p ply α β s =
      if (decide (ply > 0) && s.incrementNodes.isRepetition (G.hash p)) = true then True
      else
        match probeTT G s.incrementNodes p (d + 1) α β with
        | (some cached, _, _) => I32 cached.score
        | (none, ttMove, s1) =>
          innerSites G (negamax G qfuel d) (negamaxSites G qfuel d) d p ply α β ttMove s1 := rfl

/-- a probe returns a stored score (in `[-B, B]` by `TTBound`) and only touches counters. -/
theorem probeTT_range {B : Int} {s : SearchState} (hs : StateOK B s) (p : P) (depth : Nat) (α β : Int) :
    (∀ r, (probeTT G s p depth α β).1 = some r → Sym B r.score) ∧ StateOK B (probeTT G s p depth α β).2.2 := by
  rcases probeTT_cases G s p depth α β with ⟨h1, h2⟩ | ⟨e, hr, _, h1, _, h2⟩
  · rw [h1, h2]; exact ⟨(fun r h => by cases h), hs⟩
  · rw [h1, h2]
    exact ⟨fun r h => by cases h; exact hs.tt.retrieve hr, stateOK_counted hs e depth⟩

theorem finishNode_range {B : Int} (p : P) (d1 : Nat) (α β : Int) (acc : LoopAcc) (s : SearchState)
    (hb : Sym B acc.best.score) (hs : StateOK B s) :
    (∀ r, (finishNode G p d1 α β acc s).1 = some r → Sym B r.score) ∧ StateOK B (finishNode G p d1 α β acc s).2 := by
  unfold finishNode
  split
  · exact ⟨fun r h => by cases h; exact hb, stateOK_polled hs⟩
  · exact ⟨fun r h => by cases h; exact hb, stateOK_store (stateOK_polled hs) _ hb _ _ _⟩

theorem inner_range {B : Int} (hB : BoundOK B)
    (rec : P → Nat → Int → Int → SearchState → Option SearchResult × SearchState)
    (recS : P → Nat → Int → Int → SearchState → Prop) (d ply : Nat) (hd : ply + (d + 1) ≤ 255)
    (hrec : ∀ q a b s, Sym B a → Sym B b → StateOK B s → NPost B (recS q (ply + 1) a b s) (rec q (ply + 1) a b s))
    (p : P) (α β : Int) (ttMove : Option Move) (s : SearchState) (hα : Sym B α) (hβ : Sym B β)
    (hs : StateOK B s) :
    NPost B (innerSites G rec recS d p ply α β ttMove s) (innerResult G rec d p ply α β ttMove s) := by
  rcases hmv : G.moves p with _ | ⟨m0, tl⟩
  · rw [innerResult_nil G rec d p ply α β ttMove s hmv, innerSites_nil G rec recS d p ply α β ttMove s hmv]
    by_cases hc : G.inCheck p = true
    · rw [if_pos hc, if_pos hc]
      have hm : Sym B (-CHECKMATE_SCORE + ((d + 1 : Nat) : Int)) := sym_mate hB (by omega)
      refine ⟨⟨?_, (sym_negCm hB).i32 hB, hm.i32 hB⟩, fun r h => by cases h; exact hm, hs⟩
      unfold I32; omega
    · rw [if_neg hc, if_neg hc]
      exact ⟨trivial, fun r h => by cases h; exact sym_zero hB, hs⟩
  · rw [innerResult_cons G rec d p ply α β ttMove s m0 tl hmv,
      innerSites_cons G rec recS d p ply α β ttMove s m0 tl hmv]
    have hk : ∀ mv ∈ G.moves p, orderKeySites G s p mv := fun mv _ => orderKeySites_of G hs.hist p mv
    have h := negamaxLoop_range G hB rec recS ply (by omega) hrec p (d + 1) (by omega) β hβ
      (orderMoves G s p (G.moves p) ttMove ply)
      ⟨α, ⟨NEGATIVE_INFINITY, some ((orderMoves G s p (G.moves p) ttMove ply).headD m0)⟩⟩ s hα (sym_negInf hB) hs
    rcases hl : negamaxLoop G rec p (d + 1) ply β (orderMoves G s p (G.moves p) ttMove ply)
      ⟨α, ⟨NEGATIVE_INFINITY, some ((orderMoves G s p (G.moves p) ttMove ply).headD m0)⟩⟩ s with ⟨ro, s2⟩
    rw [hl] at h
    obtain ⟨h1, h2, h3⟩ := h
    cases ro with
    | none => exact ⟨⟨hk, h1⟩, (fun r h => by cases h), h3⟩
    | some acc =>
      have := finishNode_range G p (d + 1) α β acc s2 (h2 acc rfl).2 h3
      exact ⟨⟨hk, h1⟩, this.1, this.2⟩

/-- **`negamax`**: window and state in range and `ply + depth ≤ 255` (both are `u8` in Rust and
    `ply + depth` is the root depth) ⟹ every site representable, returned score in `[-B, B]`, state
    invariant kept.  Any game, any limit, any fuel outcome, any table contents within the bound. -/
theorem negamax_range {B : Int} (hB : BoundOK B) (hE : EvalI32 G) (qfuel : Nat) :
    ∀ (d : Nat) (p : P) (ply : Nat) (α β : Int) (s : SearchState), ply + d ≤ 255 →
      Sym B α → Sym B β → StateOK B s →
      NPost B (negamaxSites G qfuel d p ply α β s) (negamax G qfuel d p ply α β s) := by
  intro d
  induction d with
  | zero =>
    intro p ply α β s _ hα hβ hs
    rw [negamax_zero, negamaxSites_zero]
    have hs1 := stateOK_incrementNodes hs
    by_cases hr : (decide (ply > 0) && s.incrementNodes.isRepetition (G.hash p)) = true
    · rw [if_pos hr, if_pos hr]
      exact ⟨trivial, fun r h => by cases h; exact sym_zero hB, hs1⟩
    · rw [if_neg hr, if_neg hr]
      have h := probeTT_range G hs1 p 0 α β
      rcases hp : probeTT G s.incrementNodes p 0 α β with ⟨ro, mv, s1⟩
      rw [hp] at h
      cases ro with
      | some r => exact ⟨(h.1 r rfl).i32 hB, fun r' h' => by cases h'; exact h.1 r rfl, h.2⟩
      | none =>
        simp only
        unfold leafResult
        have hq := quiesce_range G hB hE qfuel p α β s1 hα hβ h.2
        rcases hqr : quiesce G qfuel p α β s1 with ⟨qo, s2⟩
        rw [hqr] at hq
        obtain ⟨q1, q2, q3⟩ := hq
        cases qo with
        | none => exact ⟨q1, (fun r h => by cases h), q3⟩
        | some v => exact ⟨q1, fun r h => by cases h; exact q2 v rfl, q3⟩
  | succ d ih =>
    intro p ply α β s hd hα hβ hs
    rw [negamax_succ, negamaxSites_succ]
    have hs1 := stateOK_incrementNodes hs
    by_cases hr : (decide (ply > 0) && s.incrementNodes.isRepetition (G.hash p)) = true
    · rw [if_pos hr, if_pos hr]
      exact ⟨trivial, fun r h => by cases h; exact sym_zero hB, hs1⟩
    · rw [if_neg hr, if_neg hr]
      have h := probeTT_range G hs1 p (d + 1) α β
      rcases hp : probeTT G s.incrementNodes p (d + 1) α β with ⟨ro, mv, s1⟩
      rw [hp] at h
      cases ro with
      | some r => exact ⟨(h.1 r rfl).i32 hB, fun r' h' => by cases h'; exact h.1 r rfl, h.2⟩
      | none =>
        exact inner_range G hB (negamax G qfuel d) (negamaxSites G qfuel d) d ply (by omega)
          (fun q a b s ha hb hs => ih q (ply + 1) a b s (by omega) ha hb hs) p α β mv s1 hα hβ h.2

/-! ### `search_position`, the iteration loop, `find_best_move` -/

/-- sites of `search_position`: those of the root `negamax` with the full window
    (`INFINITY = -NEGATIVE_INFINITY` is a compile-time constant). -/
def searchPositionSites (qfuel : Nat) (p : P) (depth : Nat) (s : SearchState) : Prop :=
  negamaxSites G qfuel depth p 0 NEGATIVE_INFINITY INFINITY (pushed G p s)

theorem searchPosition_range {B : Int} (hB : BoundOK B) (hE : EvalI32 G) (qfuel : Nat) (p : P) (depth : Nat)
    (hd : depth ≤ 255) (s : SearchState) (hs : StateOK B s) :
    NPost B (searchPositionSites G qfuel p depth s) (searchPosition G qfuel p depth s) := by
  rw [searchPosition_eq]
  have h := negamax_range G hB hE qfuel depth p 0 NEGATIVE_INFINITY INFINITY (pushed G p s) (by omega)
    (sym_negInf hB) (sym_inf hB) ⟨hs.tt, hs.hist, hs.info⟩
  exact ⟨h.sites, h.score, ⟨h.state.tt, h.state.hist, h.state.info⟩⟩

/-- sites of the iteration loop: each `search_position`, and the score that is cached and printed. -/
def iterateSites (qfuel : Nat) (p : P) (maxDepth : Nat) : Nat → Nat → SearchState → Prop
  | 0, _, _ => True
  | n + 1, cur, s =>
    if cur > maxDepth then True
    else if stopFlag s = true then True
    else
      searchPositionSites G qfuel p cur (polled s) ∧
      match searchPosition G qfuel p cur (polled s) with
      | (none, _) => True
      | (some r, s') =>
        I32 r.score ∧
        if (!stopFlag s') = true then iterateSites qfuel p maxDepth n (cur + 1) (cached G p cur r (polled s'))
        else iterateSites qfuel p maxDepth n (cur + 1) (polled s')

theorem iterateSites_succ (qfuel : Nat) (p : P) (maxDepth n cur : Nat) (s : SearchState) :
    iterateSites G qfuel p maxDepth (n + 1) cur s =
      if cur > maxDepth then True
      else if stopFlag s = true then True
      else
        searchPositionSites G qfuel p cur (polled s) ∧
        match searchPosition G qfuel p cur (polled s) with
        | (none, _) => True
        | (some r, s') =>
          I32 r.score ∧
          if (!stopFlag s') = true then
            iterateSites G qfuel p maxDepth n (cur + 1) (cached G p cur r (polled s'))
          else iterateSites G qfuel p maxDepth n (cur + 1) (polled s') := rfl

theorem stateOK_cached {B : Int} {s : SearchState} (hs : StateOK B s) (p : P) (cur : Nat) (r : SearchResult)
    (hr : Sym B r.score) : StateOK B (cached G p cur r s) := by
  refine ⟨hs.tt.store _ hr _ _ _, hs.hist, ?_⟩
  intro e he
  rcases List.mem_cons.1 he with e1 | e1
  · subst e1; exact hr
  · exact hs.info e e1

/-- what the iteration loop guarantees: the reported best score in `[-B, B]`. -/
structure IPost (B : Int) (sites : Prop) (out : Option (Int × Option Move) × SearchState) : Prop where
  sites : sites
  score : ∀ b, out.1 = some b → Sym B b.1
  state : StateOK B out.2

theorem iterate_range {B : Int} (hB : BoundOK B) (hE : EvalI32 G) (qfuel : Nat) (p : P) (maxDepth : Nat)
    (hmax : maxDepth ≤ 255) :
    ∀ (n cur : Nat) (best : Int × Option Move) (s : SearchState), Sym B best.1 → StateOK B s →
      IPost B (iterateSites G qfuel p maxDepth n cur s) (iterate G qfuel p maxDepth n cur best s) := by
  intro n
  induction n with
  | zero =>
    intro cur best s hb hs
    exact ⟨trivial, fun b h => by cases h; exact hb, hs⟩
  | succ n ih =>
    intro cur best s hb hs
    rw [iterate_succ, iterateSites_succ]
    by_cases h1 : cur > maxDepth
    · rw [if_pos h1, if_pos h1]
      exact ⟨trivial, fun b h => by cases h; exact hb, hs⟩
    · rw [if_neg h1, if_neg h1]
      by_cases h2 : stopFlag s = true
      · rw [if_pos h2, if_pos h2]
        exact ⟨trivial, fun b h => by cases h; exact hb, stateOK_polled hs⟩
      · rw [if_neg h2, if_neg h2]
        have h := searchPosition_range G hB hE qfuel p cur (by omega) (polled s) (stateOK_polled hs)
        rcases hsp : searchPosition G qfuel p cur (polled s) with ⟨ro, s2⟩
        rw [hsp] at h
        obtain ⟨g1, g2, g3⟩ := h
        cases ro with
        | none => exact ⟨⟨g1, trivial⟩, (fun b h => by cases h), g3⟩
        | some r =>
          have hr : Sym B r.score := g2 r rfl
          simp only
          by_cases h3 : (!stopFlag s2) = true
          · rw [if_pos h3, if_pos h3]
            obtain ⟨i1, i2, i3⟩ := ih (cur + 1) (r.score, r.bestMove) (cached G p cur r (polled s2)) hr
              (stateOK_cached G (stateOK_polled g3) p cur r hr)
            exact ⟨⟨g1, hr.i32 hB, i1⟩, i2, i3⟩
          · rw [if_neg h3, if_neg h3]
            obtain ⟨i1, i2, i3⟩ := ih (cur + 1) best (polled s2) hb (stateOK_polled g3)
            exact ⟨⟨g1, hr.i32 hB, i1⟩, i2, i3⟩

/-- sites of `find_best_move`: `history.age()` (`/= 2` on every `i32` entry) and the iteration loop from
    `best_score = NEGATIVE_INFINITY`. -/
def findBestMoveSites (qfuel : Nat) (p : P) (maxDepth : Nat) (limit : Limit) (s : SearchState) : Prop :=
  (∀ i, I32 (s.history.getD i 0) ∧ I32 ((s.history.getD i 0).tdiv 2)) ∧
  iterateSites G qfuel p maxDepth maxDepth 1 (started limit s)

theorem stateOK_started {B : Int} {s : SearchState} (hs : StateOK B s) (limit : Limit) :
    StateOK B (started limit s) := by
  refine ⟨hs.tt, ?_, fun e he => by cases he⟩
  unfold started
  apply histSym_ageHistory
  exact hs.hist

/-- **`find_best_move`**: from a state within the bound, for every `u8` depth, every limit, every fuel:
    all sites representable, the returned score in `[-B, B]`, the final state within the bound again. -/
theorem findBestMove_range {B : Int} (hB : BoundOK B) (hE : EvalI32 G) (qfuel : Nat) (p : P) (maxDepth : Nat)
    (hmax : maxDepth ≤ 255) (limit : Limit) (s : SearchState) (hs : StateOK B s) :
    IPost B (findBestMoveSites G qfuel p maxDepth limit s) (findBestMove G qfuel p maxDepth limit s) := by
  have h := iterate_range G hB hE qfuel p maxDepth hmax maxDepth 1 (NEGATIVE_INFINITY, none) (started limit s)
    (sym_negInf hB) (stateOK_started hs limit)
  have hage : ∀ i, I32 (s.history.getD i 0) ∧ I32 ((s.history.getD i 0).tdiv 2) := by
    intro i
    have h1 := hs.hist i
    rw [i32Max_eq'] at h1
    have h2 := tdiv2_sym _ h1
    unfold Sym at h1 h2; unfold I32; omega
  rw [findBestMove_eq]
  rcases hit : iterate G qfuel p maxDepth maxDepth 1 (NEGATIVE_INFINITY, none) (started limit s) with ⟨ro, s2⟩
  rw [hit] at h
  obtain ⟨h1, h2, h3⟩ := h
  rcases ro with _ | ⟨sc, _ | mv⟩
  · exact ⟨⟨hage, h1⟩, (fun b h => by cases h), h3⟩
  · exact ⟨⟨hage, h1⟩, fun b h => by cases h; exact h2 (sc, none) rfl, h3⟩
  · exact ⟨⟨hage, h1⟩, fun b h => by cases h; exact h2 (sc, some mv) rfl, h3⟩

end sites

end Flounder.Range
