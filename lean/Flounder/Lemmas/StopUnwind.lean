/-
  Bounded unwinding.  Under `Limit.polls n` the polls number `0 … n-1` answer false and every later one
  answers true, so in a state `s` exactly `s.polls - n` polls have answered true so far.  We bound the
  poll counter at the end of every function of the search:

      entered with `polls ≤ n` (no true poll yet)  ⟹  at the end `polls ≤ n + B`,

  i.e. at most `B` polls answer true — the first one included — where `B` is the nesting depth of loops:
  `fuel` for quiescence, `qfuel + 2·depth` for negamax (one loop poll and one post-loop poll per frame),
  `qfuel + 2·maxDepth + 2` for the whole `findBestMove`.
-/
import Flounder.Lemmas.StopTrace

namespace Flounder.Stop
open Flounder Gen SearchState

theorem shouldStop_fst_polls {s : SearchState} {n : Nat} (hl : s.limit = .polls n) :
    s.shouldStop.1 = decide (s.polls ≥ n) := by
  rw [shouldStop_fst]; unfold limitStop; rw [hl]

@[simp] theorem storeKiller_polls (s : SearchState) (mv : Move) (ply : Nat) :
    (s.storeKiller mv ply).polls = s.polls := by
  unfold SearchState.storeKiller
  split
  · simp only
    split <;> rfl
  · rfl

@[simp] theorem storeKiller_limit (s : SearchState) (mv : Move) (ply : Nat) :
    (s.storeKiller mv ply).limit = s.limit := by
  unfold SearchState.storeKiller
  split
  · simp only
    split <;> rfl
  · rfl

section
variable {P : Type} (G : Game P)

theorem probeTT_polls_limit (s : SearchState) (p : P) (d : Nat) (α β : Int) :
    (probeTT G s p d α β).2.2.polls = s.polls ∧ (probeTT G s p d α β).2.2.limit = s.limit := by
  obtain ⟨⟨dh, sh, h1⟩, _⟩ := probeTT_spec (G := G) s p d α β
  rw [h1]; exact ⟨rfl, rfl⟩

/-- the effect of a poll, as three facts that survive `cases s.shouldStop`. -/
theorem poll_facts {s : SearchState} {n : Nat} (hl : s.limit = .polls n) :
    s.shouldStop.2.polls = s.polls + 1 ∧ s.shouldStop.2.limit = .polls n ∧
    s.shouldStop.1 = decide (s.polls ≥ n) :=
  ⟨rfl, hl, shouldStop_fst_polls hl⟩

/-- postcondition shape used throughout: limit kept; unstopped entry gives the bound `B`. -/
def Unw (n B : Nat) (s s' : SearchState) : Prop :=
  s'.limit = .polls n ∧ (s.polls ≤ n → s'.polls ≤ n + B)

theorem quiesceLoop_unwind (n B : Nat)
    (rec : P → Int → Int → SearchState → Option Int × SearchState)
    (hrec : ∀ p α β s, s.limit = .polls n → Unw n B s (rec p α β s).2)
    (p : P) (β : Int) :
    ∀ (ms : List Move) (α : Int) (s : SearchState), s.limit = .polls n →
      Unw n (B + 1) s (quiesceLoop G rec p β ms α s).2 ∧
      (n < s.polls → (quiesceLoop G rec p β ms α s).2.polls ≤ s.polls + 1) := by
  intro ms
  induction ms with
  | nil => intro α s hl; exact ⟨⟨hl, fun h => by simp only [quiesceLoop]; omega⟩, fun _ => by simp [quiesceLoop]⟩
  | cons mv rest ih =>
    intro α s hl
    rw [quiesceLoop.eq_2]
    obtain ⟨h1, h2, h3⟩ := poll_facts hl
    revert h1 h2 h3
    cases s.shouldStop with
    | mk stop s1 =>
      intro h1 h2 h3
      simp only at h1 h2 h3
      cases stop with
      | true =>
        have : s.polls ≥ n := of_decide_eq_true h3.symm
        exact ⟨⟨h2, fun h => by simp only [↓reduceIte]; omega⟩, fun _ => by simp only [↓reduceIte]; omega⟩
      | false =>
        have hlt : ¬ s.polls ≥ n := of_decide_eq_false h3.symm
        simp only [Bool.false_eq_true, ↓reduceIte]
        have hr := hrec (G.play p mv) (-β) (-α) s1 h2
        revert hr
        cases rec (G.play p mv) (-β) (-α) s1 with
        | mk r s2 =>
          intro hr
          obtain ⟨hr1, hr2⟩ := hr
          simp only at hr1 hr2
          have hs2 : s2.polls ≤ n + B := hr2 (by omega)
          cases r with
          | none => exact ⟨⟨hr1, fun _ => by simp only; omega⟩, fun h => by omega⟩
          | some v =>
            simp only
            split
            · exact ⟨⟨hr1, fun _ => by simp only; omega⟩, fun h => by omega⟩
            · obtain ⟨⟨i1, i2⟩, i3⟩ := ih (max α (-v)) s2 hr1
              refine ⟨⟨i1, fun _ => ?_⟩, fun h => by omega⟩
              by_cases hc : s2.polls ≤ n
              · exact i2 hc
              · have := i3 (by omega); omega

theorem quiesce_unwind (n : Nat) :
    ∀ (fuel : Nat) (p : P) (α β : Int) (s : SearchState), s.limit = .polls n →
      Unw n fuel s (quiesce G fuel p α β s).2 := by
  intro fuel
  induction fuel with
  | zero => intro p α β s hl; exact ⟨hl, fun h => by simp only [quiesce]; omega⟩
  | succ fuel ih =>
    intro p α β s hl
    rw [quiesce.eq_2]
    generalize orderCaptures G p (if G.inCheck p = true then G.moves p else G.qmoves p) = ms
    have hl1 : s.incrementNodes.limit = .polls n := hl
    have hp1 : s.incrementNodes.polls = s.polls := rfl
    split
    · exact ⟨hl1, fun h => by simp only; omega⟩
    · simp only
      split
      · exact ⟨hl1, fun h => by simp only; omega⟩
      · obtain ⟨⟨i1, i2⟩, _⟩ := quiesceLoop_unwind G n fuel (quiesce G fuel) ih p β ms
          (max α (G.eval p)) s.incrementNodes hl1
        exact ⟨i1, fun h => i2 (by omega)⟩

theorem negamaxLoop_unwind (n B : Nat)
    (rec : P → Nat → Int → Int → SearchState → Option SearchResult × SearchState)
    (hrec : ∀ p ply α β s, s.limit = .polls n → Unw n B s (rec p ply α β s).2)
    (p : P) (depth ply : Nat) (β : Int) :
    ∀ (ms : List Move) (acc : LoopAcc) (s : SearchState), s.limit = .polls n →
      Unw n (B + 1) s (negamaxLoop G rec p depth ply β ms acc s).2 ∧
      (n < s.polls → (negamaxLoop G rec p depth ply β ms acc s).2.polls ≤ s.polls + 1) := by
  intro ms
  induction ms with
  | nil =>
    intro acc s hl
    exact ⟨⟨hl, fun h => by simp only [negamaxLoop]; omega⟩, fun _ => by simp [negamaxLoop]⟩
  | cons mv rest ih =>
    intro acc s hl
    rw [negamaxLoop.eq_2]
    obtain ⟨h1, h2, h3⟩ := poll_facts hl
    revert h1 h2 h3
    cases s.shouldStop with
    | mk stop s1 =>
      intro h1 h2 h3
      simp only at h1 h2 h3
      cases stop with
      | true =>
        have : s.polls ≥ n := of_decide_eq_true h3.symm
        exact ⟨⟨h2, fun h => by simp only [↓reduceIte]; omega⟩, fun _ => by simp only [↓reduceIte]; omega⟩
      | false =>
        have hlt : ¬ s.polls ≥ n := of_decide_eq_false h3.symm
        simp only [Bool.false_eq_true, ↓reduceIte]
        have hr := hrec (G.play p mv) (ply + 1) (-β) (-acc.alpha) s1 h2
        revert hr
        cases rec (G.play p mv) (ply + 1) (-β) (-acc.alpha) s1 with
        | mk r s2 =>
          intro hr
          obtain ⟨hr1, hr2⟩ := hr
          simp only at hr1 hr2
          have hs2 : s2.polls ≤ n + B := hr2 (by omega)
          cases r with
          | none => exact ⟨⟨hr1, fun _ => by simp only; omega⟩, fun h => by omega⟩
          | some r =>
            simp only
            split
            · have hk : (if mv.kind = MoveType.quiet then (s2.storeKiller mv ply).recordCutoff mv depth
                  else s2).polls = s2.polls ∧
                (if mv.kind = MoveType.quiet then (s2.storeKiller mv ply).recordCutoff mv depth
                  else s2).limit = s2.limit := by
                split
                · exact ⟨by simp [SearchState.recordCutoff], by simp [SearchState.recordCutoff]⟩
                · exact ⟨rfl, rfl⟩
              refine ⟨⟨?_, fun _ => ?_⟩, fun h => by omega⟩
              · simp only; rw [hk.2]; exact hr1
              · simp only; rw [hk.1]; omega
            · obtain ⟨⟨i1, i2⟩, i3⟩ := ih ⟨max acc.alpha (-r.score),
                if -r.score > acc.best.score then ⟨-r.score, some mv⟩ else acc.best⟩ s2 hr1
              refine ⟨⟨i1, fun _ => ?_⟩, fun h => by omega⟩
              by_cases hc : s2.polls ≤ n
              · exact i2 hc
              · have := i3 (by omega); omega

theorem negamax_unwind (n qfuel : Nat) :
    ∀ (depth : Nat) (p : P) (ply : Nat) (α β : Int) (s : SearchState), s.limit = .polls n →
      Unw n (qfuel + 2 * depth) s (negamax G qfuel depth p ply α β s).2 := by
  intro depth
  induction depth with
  | zero =>
    intro p ply α β s hl
    rw [negamax.eq_1]
    have hl1 : s.incrementNodes.limit = .polls n := hl
    have hp1 : s.incrementNodes.polls = s.polls := rfl
    split
    · exact ⟨hl1, fun h => by simp only; omega⟩
    · obtain ⟨hp2, hl2⟩ := probeTT_polls_limit G s.incrementNodes p 0 α β
      revert hp2 hl2
      cases probeTT G s.incrementNodes p 0 α β with
      | mk c rest =>
        cases rest with
        | mk tm s2 =>
          intro hp2 hl2
          simp only at hp2 hl2
          cases c with
          | some cached => exact ⟨hl2.trans hl1, fun h => by simp only; omega⟩
          | none =>
            simp only
            have hq := quiesce_unwind G n qfuel p α β s2 (hl2.trans hl1)
            revert hq
            cases quiesce G qfuel p α β s2 with
            | mk v s3 =>
              intro hq
              obtain ⟨hq1, hq2⟩ := hq
              simp only at hq1 hq2
              cases v with
              | none => exact ⟨hq1, fun h => by have := hq2 (by omega); simp only; omega⟩
              | some v => exact ⟨hq1, fun h => by have := hq2 (by omega); simp only; omega⟩
  | succ d ih =>
    intro p ply α β s hl
    rw [negamax.eq_1]
    have hl1 : s.incrementNodes.limit = .polls n := hl
    have hp1 : s.incrementNodes.polls = s.polls := rfl
    split
    · exact ⟨hl1, fun h => by simp only; omega⟩
    · obtain ⟨hp2, hl2⟩ := probeTT_polls_limit G s.incrementNodes p (d + 1) α β
      revert hp2 hl2
      cases probeTT G s.incrementNodes p (d + 1) α β with
      | mk c rest =>
        cases rest with
        | mk tm s2 =>
          intro hp2 hl2
          simp only at hp2 hl2
          have hl2' : s2.limit = .polls n := hl2.trans hl1
          cases c with
          | some cached => exact ⟨hl2', fun h => by simp only; omega⟩
          | none =>
            simp only
            cases G.moves p with
            | nil =>
              simp only
              split
              · exact ⟨hl2', fun h => by simp only; omega⟩
              · exact ⟨hl2', fun h => by simp only; omega⟩
            | cons m0 tail =>
              simp only
              have hloop := (negamaxLoop_unwind G n (qfuel + 2 * d) (negamax G qfuel d) ih p (d + 1) ply β
                (orderMoves G s2 p (m0 :: tail) tm ply)
                ⟨α, ⟨NEGATIVE_INFINITY, some ((orderMoves G s2 p (m0 :: tail) tm ply).headD m0)⟩⟩ s2
                hl2').1
              revert hloop
              cases negamaxLoop G (negamax G qfuel d) p (d + 1) ply β
                (orderMoves G s2 p (m0 :: tail) tm ply)
                ⟨α, ⟨NEGATIVE_INFINITY, some ((orderMoves G s2 p (m0 :: tail) tm ply).headD m0)⟩⟩ s2 with
              | mk racc s3 =>
                intro hloop
                obtain ⟨hk1, hk2⟩ := hloop
                simp only at hk1 hk2
                cases racc with
                | none => exact ⟨hk1, fun h => by have := hk2 (by omega); simp only; omega⟩
                | some acc =>
                  simp only
                  obtain ⟨g1, g2, _⟩ := poll_facts hk1
                  revert g1 g2
                  cases s3.shouldStop with
                  | mk stop s4 =>
                    intro g1 g2
                    simp only at g1 g2
                    cases stop with
                    | true =>
                      exact ⟨g2, fun h => by have := hk2 (by omega); simp only [↓reduceIte]; omega⟩
                    | false =>
                      simp only [Bool.false_eq_true, ↓reduceIte]
                      exact ⟨g2, fun h => by have := hk2 (by omega); simp only; omega⟩

theorem searchPosition_unwind (n qfuel : Nat) (p : P) (depth : Nat) (s : SearchState)
    (hl : s.limit = .polls n) :
    Unw n (qfuel + 2 * depth) s (searchPosition G qfuel p depth s).2 := by
  unfold searchPosition
  simp only
  exact negamax_unwind G n qfuel depth p 0 NEGATIVE_INFINITY INFINITY
    { s with rep := G.hash p :: s.rep } hl

theorem iterate_unwind (n qfuel : Nat) (p : P) (maxDepth : Nat) :
    ∀ (k cur : Nat) (best : Int × Option Move) (s : SearchState), s.limit = .polls n →
      Unw n (qfuel + 2 * maxDepth + 2) s (iterate G qfuel p maxDepth k cur best s).2 ∧
      (n < s.polls → (iterate G qfuel p maxDepth k cur best s).2.polls ≤ s.polls + 1) := by
  intro k
  induction k with
  | zero =>
    intro cur best s hl
    exact ⟨⟨hl, fun h => by simp only [iterate]; omega⟩, fun _ => by simp [iterate]⟩
  | succ k ih =>
    intro cur best s hl
    rw [iterate.eq_2]
    split
    · exact ⟨⟨hl, fun h => by simp only; omega⟩, fun _ => by simp⟩
    · rename_i hcur
      obtain ⟨h1, h2, h3⟩ := poll_facts hl
      revert h1 h2 h3
      cases s.shouldStop with
      | mk stop s1 =>
        intro h1 h2 h3
        simp only at h1 h2 h3
        cases stop with
        | true =>
          have : s.polls ≥ n := of_decide_eq_true h3.symm
          exact ⟨⟨h2, fun h => by simp only [↓reduceIte]; omega⟩,
            fun _ => by simp only [↓reduceIte]; omega⟩
        | false =>
          have hlt : ¬ s.polls ≥ n := of_decide_eq_false h3.symm
          simp only [Bool.false_eq_true, ↓reduceIte]
          have hsp := searchPosition_unwind G n qfuel p cur s1 h2
          revert hsp
          cases searchPosition G qfuel p cur s1 with
          | mk r s2 =>
            intro hsp
            obtain ⟨hs1, hs2⟩ := hsp
            simp only at hs1 hs2
            have hs2' : s2.polls ≤ n + (qfuel + 2 * cur) := hs2 (by omega)
            cases r with
            | none => exact ⟨⟨hs1, fun _ => by simp only; omega⟩, fun h => by omega⟩
            | some r =>
              simp only
              obtain ⟨g1, g2, g3⟩ := poll_facts hs1
              revert g1 g2 g3
              cases s2.shouldStop with
              | mk stop2 s3 =>
                intro g1 g2 g3
                simp only at g1 g2 g3
                cases stop2 with
                | true =>
                  have hge : s2.polls ≥ n := of_decide_eq_true g3.symm
                  simp only [Bool.not_true, Bool.false_eq_true, ↓reduceIte]
                  obtain ⟨⟨i1, _⟩, i3⟩ := ih (cur + 1) best s3 g2
                  refine ⟨⟨i1, fun _ => ?_⟩, fun h => by omega⟩
                  have := i3 (by omega)
                  omega
                | false =>
                  have hlt2 : ¬ s2.polls ≥ n := of_decide_eq_false g3.symm
                  simp only [Bool.not_false, ↓reduceIte]
                  obtain ⟨⟨i1, i2⟩, _⟩ := ih (cur + 1) (r.score, r.bestMove)
                    { s3 with tt := s3.tt.store (G.hash p) r.score r.bestMove cur .exact,
                              info := (cur, r.score, s3.nodes, r.bestMove) :: s3.info } g2
                  exact ⟨⟨i1, fun _ => i2 (by simp only; omega)⟩, fun h => by omega⟩

/-- under `Limit.polls n` the whole search makes at most `n + qfuel + 2·maxDepth + 2` polls: at most
    `qfuel + 2·maxDepth + 1` after the first one that answered true. -/
theorem findBestMove_unwind (n qfuel : Nat) (p : P) (maxDepth : Nat) (s : SearchState) :
    (findBestMove G qfuel p maxDepth (.polls n) s).2.polls ≤ n + (qfuel + 2 * maxDepth + 2) := by
  rw [findBestMove_snd]
  exact (iterate_unwind G n qfuel p maxDepth maxDepth 1 (NEGATIVE_INFINITY, none)
    (resetState (.polls n) s) rfl).1.2 (Nat.zero_le n)

end
end Flounder.Stop
