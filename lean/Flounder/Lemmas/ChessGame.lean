/-
  The chess instance `chessGame MoveGenerator.new k` of the abstract search game, read through the rules of
  chess (`Spec.legal`, `Spec.play`, `Spec.inCheck`) on valid boards.  Everything here is a corollary of
  C01 (`generate_moves_exact`), C02 (`make_move_refines`) and C17 (`quiescence_sublist`):

    * `mem_moves_iff`   : the moves of the game at a valid board are exactly the rules-legal moves;
    * `play_spec`       : a generated move is played without panic, the result is valid and abstracts to
                          `Spec.play`;
    * `valid_play_moves`, `valid_play_qmoves` : validity is an invariant of the game (what `Game.restrict` needs);
    * `inCheck_eq`, `moves_nil_iff`, `mates_iff`, `allowsMate_iff` : check, "no move", "mates", "allows a mate in
      one" in terms of the rules;
    * `within_valid`    : every board within `n` plies of a valid board is valid;
    * `Good`            : the invariant "valid and at most 16 men a side", preserved by every generated and every
                          quiescence move (`good_play_moves`, `good_play_qmoves`, `within_good`; men count:
                          Lemmas/MenCount.lean), true of the start position (`good_startpos`), and strong enough for
                          the evaluation bound of C14 (`good_eval_bound`);
    * `cgGood k`        : the game restricted to `Good` boards (Lemmas/GameRestrict.lean) — it satisfies the
                          abstract `EvalBound` (`evalBound_cgGood`).
-/
import Flounder.Model.Engine
import Flounder.Props.C01
import Flounder.Props.C02
import Flounder.Props.C04Gen
import Flounder.Props.C17
import Flounder.Props.C08
import Flounder.Props.C14Bound
import Flounder.Lemmas.Ranked
import Flounder.Lemmas.MenCount
import Flounder.Lemmas.SpecMate
import Flounder.Lemmas.GameRestrict

namespace Flounder.Chess
open Flounder Flounder.Spec Flounder.Search Flounder.Props.C04

/-- the game the engine's search plays (generator with the tables of the source, any key table). -/
abbrev cg (k : ZKeys) : Game Board := chessGame MoveGenerator.new k

theorem moves_eq (k : ZKeys) (b : Board) : (cg k).moves b = MoveGenerator.new.generateMoves b := rfl
theorem qmoves_eq (k : ZKeys) (b : Board) : (cg k).qmoves b = MoveGenerator.new.generateQuiescenceMoves b := rfl
theorem play_eq (k : ZKeys) (b : Board) (m : Move) : (cg k).play b m = (b.makeMove m).getD b := rfl
theorem eval_eq (k : ZKeys) (b : Board) : (cg k).eval b = evalFn b := rfl
theorem hash_eq (k : ZKeys) (b : Board) : (cg k).hash b = hash k b := rfl

/-- the moves of the game at a valid board are exactly the moves that are legal under the rules. -/
theorem mem_moves_iff (k : ZKeys) {b : Board} (hv : Spec.valid b = true) (m : Move) :
    m ∈ (cg k).moves b ↔ Spec.legal (Spec.abs b) m = true :=
  (Props.C01.generate_moves_exact b hv).2.1 m

theorem moves_nodup (k : ZKeys) {b : Board} (hv : Spec.valid b = true) : ((cg k).moves b).Nodup :=
  (Props.C01.generate_moves_exact b hv).1

/-- quiescence moves are generated moves. -/
theorem qmoves_subset (k : ZKeys) (b : Board) {m : Move} (h : m ∈ (cg k).qmoves b) : m ∈ (cg k).moves b :=
  (Props.C17.quiescence_sublist MoveGenerator.new b).subset h

/-- the check test of the game is the rules' check test. -/
theorem inCheck_eq (k : ZKeys) {b : Board} (hv : Spec.valid b = true) :
    (cg k).inCheck b = Spec.inCheck (Spec.abs b) :=
  Props.C01.is_in_check_exact b hv

/-- "no generated move" is "no legal move". -/
theorem moves_nil_iff (k : ZKeys) {b : Board} (hv : Spec.valid b = true) :
    (cg k).moves b = [] ↔ ∀ m, Spec.legal (Spec.abs b) m = false :=
  Props.C01.no_moves_iff b hv

/-- a rules-legal move on a valid board is played without panic; the successor is valid and is the
    position the rules prescribe. -/
theorem play_legal (k : ZKeys) {b : Board} (hv : Spec.valid b = true) {m : Move}
    (hl : Spec.legal (Spec.abs b) m = true) :
    b.makeMove m = some ((cg k).play b m) ∧ Spec.valid ((cg k).play b m) = true ∧
      PosAgree (Spec.abs ((cg k).play b m)) (Spec.play (Spec.abs b) m) := by
  obtain ⟨b', hmk, h1, h2, h3, h4, hv'⟩ := Props.C02.make_move_refines b m hv hl
  have e : (cg k).play b m = b' := by rw [play_eq, hmk]; rfl
  rw [e]
  exact ⟨hmk, hv', h1, h2, h3, h4⟩

/-- the same for a generated move. -/
theorem play_spec (k : ZKeys) {b : Board} (hv : Spec.valid b = true) {m : Move} (hm : m ∈ (cg k).moves b) :
    b.makeMove m = some ((cg k).play b m) ∧ Spec.valid ((cg k).play b m) = true ∧
      PosAgree (Spec.abs ((cg k).play b m)) (Spec.play (Spec.abs b) m) :=
  play_legal k hv ((mem_moves_iff k hv m).1 hm)

/-- **validity is an invariant of the game**: generated moves … -/
theorem valid_play_moves (k : ZKeys) (b : Board) (m : Move) (hv : Spec.valid b = true)
    (hm : m ∈ (cg k).moves b) : Spec.valid ((cg k).play b m) = true :=
  (play_spec k hv hm).2.1

/-- … and quiescence moves keep the board valid. -/
theorem valid_play_qmoves (k : ZKeys) (b : Board) (m : Move) (hv : Spec.valid b = true)
    (hm : m ∈ (cg k).qmoves b) : Spec.valid ((cg k).play b m) = true :=
  valid_play_moves k b m hv (qmoves_subset k b hm)

/-- every board within `n` plies of a valid board is valid. -/
theorem within_valid (k : ZKeys) {b : Board} (hv : Spec.valid b = true) {n : Nat} {q : Board}
    (h : Search.Within (cg k) b n q) : Spec.valid q = true := by
  induction h with
  | root n => exact hv
  | step _ hm ih => exact valid_play_moves k _ _ ih hm

/-! ### mate, in terms of the rules -/

/-- the rules' notion: after `m` the opponent is in check and has no legal move. -/
def MatesByRules (p : Pos) (m : Move) : Prop :=
  Spec.inCheck (Spec.play p m) = true ∧ ∀ r, Spec.legal (Spec.play p m) r = false

/-- `m` allows a mate in one under the rules: some legal reply mates. -/
def AllowsMateByRules (p : Pos) (m : Move) : Prop :=
  ∃ r, Spec.legal (Spec.play p m) r = true ∧ MatesByRules (Spec.play p m) r

/-- in the vocabulary of Spec/Chess.lean: the successor position is a mate. -/
theorem matesByRules_iff_isMate (p : Pos) (m : Move) : MatesByRules p m ↔ Spec.isMate (Spec.play p m) = true :=
  (isMate_iff _).symm

theorem inCheck_agree {p q : Pos} (h : PosAgree p q) : Spec.inCheck p = Spec.inCheck q := by
  unfold Spec.inCheck
  rw [inCheckOf_congr h.1, h.2.1]

theorem matesByRules_agree {p q : Pos} (h : PosAgree p q) (m : Move) (hs : m.src < 64) :
    MatesByRules p m ↔ MatesByRules q m := by
  have h' := h.play m hs
  unfold MatesByRules
  rw [inCheck_agree h']
  constructor
  · rintro ⟨a, b⟩; exact ⟨a, fun r => by rw [← legal_congr h' r]; exact b r⟩
  · rintro ⟨a, b⟩; exact ⟨a, fun r => by rw [legal_congr h' r]; exact b r⟩

/-- for a generated move on a valid board, the game's "mates" (`C08.Mates`: the successor has no generated
    move and its check test fires) is the rules' mate. -/
theorem mates_iff (k : ZKeys) {b : Board} (hv : Spec.valid b = true) {m : Move} (hm : m ∈ (cg k).moves b) :
    Props.C08.Mates (cg k) b m ↔ MatesByRules (Spec.abs b) m := by
  obtain ⟨_, hv', hag⟩ := play_spec k hv hm
  unfold Props.C08.Mates MatesByRules
  rw [moves_nil_iff k hv', inCheck_eq k hv', inCheck_agree hag]
  constructor
  · rintro ⟨a, c⟩; exact ⟨c, fun r => by rw [← legal_congr hag r]; exact a r⟩
  · rintro ⟨c, a⟩; exact ⟨fun r => by rw [legal_congr hag r]; exact a r, c⟩

/-- likewise "allows a mate in one". -/
theorem allowsMate_iff (k : ZKeys) {b : Board} (hv : Spec.valid b = true) {m : Move} (hm : m ∈ (cg k).moves b) :
    Props.C08.AllowsMate (cg k) b m ↔ AllowsMateByRules (Spec.abs b) m := by
  obtain ⟨_, hv', hag⟩ := play_spec k hv hm
  unfold Props.C08.AllowsMate AllowsMateByRules
  constructor
  · rintro ⟨r, hr, hmt⟩
    have hl := (mem_moves_iff k hv' r).1 hr
    refine ⟨r, by rw [← legal_congr hag r]; exact hl, ?_⟩
    exact (matesByRules_agree hag r (pseudo_squares (legal_pseudo hl)).1).1 ((mates_iff k hv' hr).1 hmt)
  · rintro ⟨r, hl, hmt⟩
    have hl' : Spec.legal (Spec.abs ((cg k).play b m)) r = true := by rw [legal_congr hag r]; exact hl
    have hr := (mem_moves_iff k hv' r).2 hl'
    exact ⟨r, hr, (mates_iff k hv' hr).2
      ((matesByRules_agree hag r (pseudo_squares (legal_pseudo hl')).1).2 hmt)⟩

/-! ### the invariant: valid, at most 16 men a side -/

/-- a board that can occur: valid (consistent bitboards, one king each, …) with at most 16 men a side. -/
def Good (b : Board) : Prop := Spec.valid b = true ∧ ∀ c, menCount b c ≤ 16

instance (b : Board) : Decidable (Good b) := by
  have : Decidable (∀ c : Color, menCount b c ≤ 16) :=
    decidable_of_iff (menCount b .white ≤ 16 ∧ menCount b .black ≤ 16)
      ⟨fun h c => by cases c; exact h.1; exact h.2, fun h => ⟨h _, h _⟩⟩
  unfold Good; infer_instance

theorem Good.valid {b : Board} (h : Good b) : Spec.valid b = true := h.1

/-- a good board satisfies the hypothesis of the evaluation bound (one king bit and at most 16 men a side). -/
theorem Good.kingAndCount {b : Board} (h : Good b) : Props.C14.KingAndCountOK b :=
  fun c => ⟨king_count_of_valid h.1 c, h.2 c⟩

/-- C14 on a good board: the static score is strictly inside the search window. -/
theorem good_eval_bound {b : Board} (h : Good b) : -Gen.INFINITY < evalFn b ∧ evalFn b < Gen.INFINITY := by
  have h1 := Props.C14.eval_bounded' b h.kingAndCount
  have h2 := Props.C14.bound_lt_infinity
  omega

/-- a rules-legal move from a valid board never increases either side's number of men. -/
theorem menCount_play_le (k : ZKeys) {b : Board} (hv : Spec.valid b = true) {m : Move}
    (hl : Spec.legal (Spec.abs b) m = true) (c : Color) : menCount ((cg k).play b m) c ≤ menCount b c := by
  obtain ⟨_, hv', hag⟩ := play_legal k hv hl
  obtain ⟨hb, hvp⟩ := (valid_iff b).1 hv
  obtain ⟨hb', _⟩ := (valid_iff _).1 hv'
  rw [menCount_eq_menAt hb' c, menCount_eq_menAt hb c]
  have e : menAt (absBoard ((cg k).play b m)) c = menAt (playBoard (Spec.abs b) m) c := menAt_congr hag.1 c
  rw [e]
  exact menAt_play_le hvp (legal_pseudo hl) c

/-- **`Good` is an invariant of the game**: generated moves … -/
theorem good_play_moves (k : ZKeys) (b : Board) (m : Move) (h : Good b) (hm : m ∈ (cg k).moves b) :
    Good ((cg k).play b m) :=
  ⟨valid_play_moves k b m h.1 hm,
    fun c => Nat.le_trans (menCount_play_le k h.1 ((mem_moves_iff k h.1 m).1 hm) c) (h.2 c)⟩

/-- … and quiescence moves keep the board good. -/
theorem good_play_qmoves (k : ZKeys) (b : Board) (m : Move) (h : Good b) (hm : m ∈ (cg k).qmoves b) :
    Good ((cg k).play b m) :=
  good_play_moves k b m h (qmoves_subset k b hm)

/-- every board within `n` plies of a good board is good. -/
theorem within_good (k : ZKeys) {b : Board} (h : Good b) {n : Nat} {q : Board} (hw : Search.Within (cg k) b n q) :
    Good q := by
  induction hw with
  | root n => exact h
  | step _ hm ih => exact good_play_moves k _ _ ih hm

/-- the start position is good. -/
theorem good_startpos : Good Board.startpos := by decide +kernel

/-! ### the game on good boards -/

/-- the chess game restricted to good boards. -/
noncomputable abbrev cgGood (k : ZKeys) : Game {b // Good b} :=
  (cg k).restrict Good (good_play_moves k) (good_play_qmoves k)

/-- **`EvalBound` for chess**: on the boards that can occur the static score never reaches ±INFINITY. -/
theorem evalBound_cgGood (k : ZKeys) : EvalBound (cgGood k) := fun p => good_eval_bound p.2

end Flounder.Chess
