/-
  Ghost-instrumented search: `negamaxG`, `searchPositionG`, `iterateG`, `findBestMoveG` are the model's
  functions, statement by statement, that additionally return a LOG with one record
  `(store arguments, stopSeen at the moment of the store)` per executed `tt.store` (in execution order).

    * `*_erase`  : forgetting the log gives exactly the model's function (result and state);
    * `*_replay` : the log is complete: the final table is the initial table with the logged stores
                   applied in order (from ANY state);
    * `*_flags`  : from any state satisfying the monotone-oracle invariant `StopMono`, every recorded flag
                   is `false`: no store is ever executed after a poll has returned true.

  (Quiescence never stores, so `quiesce` itself is used unchanged.)
-/
import Flounder.Lemmas.StopTrace

namespace Flounder.Stop
open Flounder Gen SearchState

/-- one record per executed `tt.store`: its arguments and the value of `stopSeen` at that moment. -/
structure StoreRec where
  key : UInt64
  eval : Int
  bestMove : Option Move
  depth : Nat
  bounds : Bounds
  stopSeen : Bool

abbrev Log := List StoreRec

/-- forget the log. -/
def erase {α β : Type} (x : α × β × Log) : α × β := (x.1, x.2.1)

@[simp] theorem erase_mk {α β : Type} (a : α) (b : β) (l : Log) : erase (a, b, l) = (a, b) := rfl

section defs
variable {P : Type} (G : Game P)

/-- `negamaxLoop` with the logs of the recursive calls concatenated. -/
def negamaxLoopG (rec : P → Nat → Int → Int → SearchState → Option SearchResult × SearchState × Log)
    (p : P) (depth ply : Nat) (beta : Int) :
    List Move → LoopAcc → SearchState → Option LoopAcc × SearchState × Log
  | [], acc, s => (some acc, s, [])
  | mv :: rest, acc, s =>
    let (stop, s) := s.shouldStop
    if stop then (some acc, s, [])
    else
      match rec (G.play p mv) (ply + 1) (-beta) (-acc.alpha) s with
      | (none, s, l) => (none, s, l)
      | (some r, s, l) =>
        let score := -r.score
        let best := if score > acc.best.score then ⟨score, some mv⟩ else acc.best
        let alpha := max acc.alpha score
        if alpha ≥ beta then
          let s := if mv.kind = .quiet then (s.storeKiller mv ply).recordCutoff mv depth else s
          (some ⟨alpha, best⟩, s, l)
        else
          match negamaxLoopG rec p depth ply beta rest ⟨alpha, best⟩ s with
          | (r', s', l') => (r', s', l ++ l')

/-- `negamax` with a log record at its (only) `tt.store`. -/
def negamaxG (qfuel : Nat) :
    Nat → P → Nat → Int → Int → SearchState → Option SearchResult × SearchState × Log
  | depth, p, ply, alpha, beta, s =>
    let s := s.incrementNodes
    let originalAlpha := alpha
    if ply > 0 && s.isRepetition (G.hash p) then (some ⟨0, none⟩, s, [])
    else
      match probeTT G s p depth alpha beta with
      | (some cached, _, s) => (some cached, s, [])
      | (none, ttMove, s) =>
        match depth with
        | 0 =>
          match quiesce G qfuel p alpha beta s with
          | (none, s) => (none, s, [])
          | (some v, s) => (some ⟨v, none⟩, s, [])
        | d + 1 =>
          let moves := G.moves p
          match moves with
          | [] =>
            if G.inCheck p then (some ⟨-CHECKMATE_SCORE + ((d + 1 : Nat) : Int), none⟩, s, [])
            else (some ⟨0, none⟩, s, [])
          | m0 :: _ =>
            let ordered := orderMoves G s p moves ttMove ply
            let first := ordered.headD m0
            match negamaxLoopG G (negamaxG qfuel d) p (d + 1) ply beta ordered
                    ⟨alpha, ⟨NEGATIVE_INFINITY, some first⟩⟩ s with
            | (none, s, l) => (none, s, l)
            | (some acc, s, l) =>
              let (stop, s) := s.shouldStop
              if stop then (some acc.best, s, l)
              else
                let bound := determineBound acc.best.score originalAlpha beta
                let s' := { s with tt := s.tt.store (G.hash p) acc.best.score acc.best.bestMove (d + 1) bound }
                (some acc.best, s', l ++ [⟨G.hash p, acc.best.score, acc.best.bestMove, d + 1, bound, s.stopSeen⟩])

def searchPositionG (qfuel : Nat) (p : P) (depth : Nat) (s : SearchState) :
    Option SearchResult × SearchState × Log :=
  let s := { s with rep := G.hash p :: s.rep }
  match negamaxG G qfuel depth p 0 NEGATIVE_INFINITY INFINITY s with
  | (r, s, l) => (r, { s with rep := s.rep.drop 1 }, l)

/-- `iterate` with a log record at the root cache store. -/
def iterateG (qfuel : Nat) (p : P) (maxDepth : Nat) :
    Nat → Nat → (Int × Option Move) → SearchState → Option (Int × Option Move) × SearchState × Log
  | 0, _, best, s => (some best, s, [])
  | n + 1, cur, best, s =>
    if cur > maxDepth then (some best, s, [])
    else
      let (stop, s) := s.shouldStop
      if stop then (some best, s, [])
      else
        match searchPositionG G qfuel p cur s with
        | (none, s, l) => (none, s, l)
        | (some r, s, l) =>
          let (stop2, s) := s.shouldStop
          if !stop2 then
            let s' := { s with tt := s.tt.store (G.hash p) r.score r.bestMove cur .exact,
                               info := (cur, r.score, s.nodes, r.bestMove) :: s.info }
            match iterateG qfuel p maxDepth n (cur + 1) (r.score, r.bestMove) s' with
            | (b, s'', l') => (b, s'', l ++ ⟨G.hash p, r.score, r.bestMove, cur, .exact, s.stopSeen⟩ :: l')
          else
            match iterateG qfuel p maxDepth n (cur + 1) best s with
            | (b, s'', l') => (b, s'', l ++ l')

def findBestMoveG (qfuel : Nat) (p : P) (maxDepth : Nat) (limit : Limit) (s : SearchState) :
    Option (Int × Option Move) × SearchState × Log :=
  match iterateG G qfuel p maxDepth maxDepth 1 (NEGATIVE_INFINITY, none) (resetState limit s) with
  | (none, s, l) => (none, s, l)
  | (some (score, some mv), s, l) => (some (score, some mv), s, l)
  | (some (score, none), s, l) => (some (score, (G.moves p).head?), s, l)

end defs

/-! ### forgetting the log gives the model -/

section erase
variable {P : Type} (G : Game P)

theorem negamaxLoopG_erase
    (recG : P → Nat → Int → Int → SearchState → Option SearchResult × SearchState × Log)
    (rec : P → Nat → Int → Int → SearchState → Option SearchResult × SearchState)
    (hrec : ∀ p ply α β s, erase (recG p ply α β s) = rec p ply α β s)
    (p : P) (depth ply : Nat) (β : Int) :
    ∀ (ms : List Move) (acc : LoopAcc) (s : SearchState),
      erase (negamaxLoopG G recG p depth ply β ms acc s) = negamaxLoop G rec p depth ply β ms acc s := by
  intro ms
  induction ms with
  | nil => intro acc s; rfl
  | cons mv rest ih =>
    intro acc s
    rw [negamaxLoopG.eq_2, negamaxLoop.eq_2]
    cases s.shouldStop with
    | mk stop s1 =>
      cases stop with
      | true => rfl
      | false =>
        simp only [Bool.false_eq_true, ↓reduceIte]
        rw [← hrec]
        cases recG (G.play p mv) (ply + 1) (-β) (-acc.alpha) s1 with
        | mk r rest2 =>
          cases rest2 with
          | mk s2 l =>
            cases r with
            | none => rfl
            | some r =>
              simp only [erase_mk]
              split
              · rfl
              · rw [← ih]
                cases negamaxLoopG G recG p depth ply β rest _ s2 with
                | mk r' rest3 => cases rest3 with | mk s' l' => rfl

theorem negamaxG_erase (qfuel : Nat) :
    ∀ (depth : Nat) (p : P) (ply : Nat) (α β : Int) (s : SearchState),
      erase (negamaxG G qfuel depth p ply α β s) = negamax G qfuel depth p ply α β s := by
  intro depth
  induction depth with
  | zero =>
    intro p ply α β s
    rw [negamaxG.eq_1, negamax.eq_1]
    split
    · rfl
    · cases probeTT G s.incrementNodes p 0 α β with
      | mk c rest =>
        cases rest with
        | mk tm s2 =>
          cases c with
          | some cached => rfl
          | none =>
            simp only
            cases quiesce G qfuel p α β s2 with
            | mk v s3 => cases v <;> rfl
  | succ d ih =>
    intro p ply α β s
    rw [negamaxG.eq_1, negamax.eq_1]
    split
    · rfl
    · cases probeTT G s.incrementNodes p (d + 1) α β with
      | mk c rest =>
        cases rest with
        | mk tm s2 =>
          cases c with
          | some cached => rfl
          | none =>
            simp only
            cases G.moves p with
            | nil =>
              simp only
              split <;> rfl
            | cons m0 tail =>
              simp only
              rw [← negamaxLoopG_erase G (negamaxG G qfuel d) (negamax G qfuel d) ih]
              cases negamaxLoopG G (negamaxG G qfuel d) p (d + 1) ply β
                (orderMoves G s2 p (m0 :: tail) tm ply)
                ⟨α, ⟨NEGATIVE_INFINITY, some ((orderMoves G s2 p (m0 :: tail) tm ply).headD m0)⟩⟩ s2 with
              | mk racc rest3 =>
                cases rest3 with
                | mk s3 l =>
                  cases racc with
                  | none => rfl
                  | some acc =>
                    simp only [erase_mk]
                    cases s3.shouldStop with
                    | mk stop s4 => cases stop <;> rfl

theorem searchPositionG_erase (qfuel : Nat) (p : P) (depth : Nat) (s : SearchState) :
    erase (searchPositionG G qfuel p depth s) = searchPosition G qfuel p depth s := by
  unfold searchPositionG searchPosition
  simp only
  rw [← negamaxG_erase]
  cases negamaxG G qfuel depth p 0 NEGATIVE_INFINITY INFINITY _ with
  | mk r rest => cases rest with | mk s2 l => rfl

theorem iterateG_erase (qfuel : Nat) (p : P) (maxDepth : Nat) :
    ∀ (n cur : Nat) (best : Int × Option Move) (s : SearchState),
      erase (iterateG G qfuel p maxDepth n cur best s) = iterate G qfuel p maxDepth n cur best s := by
  intro n
  induction n with
  | zero => intro cur best s; rfl
  | succ n ih =>
    intro cur best s
    rw [iterateG.eq_2, iterate.eq_2]
    split
    · rfl
    · cases s.shouldStop with
      | mk stop s1 =>
        cases stop with
        | true => rfl
        | false =>
          simp only [Bool.false_eq_true, ↓reduceIte]
          rw [← searchPositionG_erase]
          cases searchPositionG G qfuel p cur s1 with
          | mk r rest =>
            cases rest with
            | mk s2 l =>
              cases r with
              | none => rfl
              | some r =>
                simp only [erase_mk]
                cases s2.shouldStop with
                | mk stop2 s3 =>
                  cases stop2 with
                  | true =>
                    simp only [Bool.not_true, Bool.false_eq_true, ↓reduceIte]
                    rw [← ih]
                    cases iterateG G qfuel p maxDepth n (cur + 1) best s3 with
                    | mk b rest2 => cases rest2 with | mk s4 l' => rfl
                  | false =>
                    simp only [Bool.not_false, ↓reduceIte]
                    rw [← ih]
                    cases iterateG G qfuel p maxDepth n (cur + 1) (r.score, r.bestMove) _ with
                    | mk b rest2 => cases rest2 with | mk s4 l' => rfl

theorem findBestMoveG_erase (qfuel : Nat) (p : P) (maxDepth : Nat) (limit : Limit) (s : SearchState) :
    erase (findBestMoveG G qfuel p maxDepth limit s) = findBestMove G qfuel p maxDepth limit s := by
  rw [findBestMove_eq, ← iterateG_erase]
  unfold findBestMoveG
  cases iterateG G qfuel p maxDepth maxDepth 1 (NEGATIVE_INFINITY, none) (resetState limit s) with
  | mk r rest =>
    cases rest with
    | mk s2 l =>
      cases r with
      | none => rfl
      | some b =>
        obtain ⟨sc, bm⟩ := b
        cases bm <;> rfl

end erase

/-! ### every recorded flag is `false` -/

/-- all flags of a log are `false`. -/
def AllFalse (l : Log) : Prop := ∀ e ∈ l, e.stopSeen = false

theorem AllFalse.nil : AllFalse [] := fun _ h => by cases h

theorem AllFalse.append {l l' : Log} (h : AllFalse l) (h' : AllFalse l') : AllFalse (l ++ l') := by
  intro e he
  rcases List.mem_append.1 he with h1 | h1
  · exact h e h1
  · exact h' e h1

theorem AllFalse.single (r : StoreRec) (hr : r.stopSeen = false) : AllFalse [r] := by
  intro e he
  rw [List.mem_singleton] at he
  rw [he]; exact hr

theorem AllFalse.cons (r : StoreRec) (hr : r.stopSeen = false) {l : Log} (h : AllFalse l) :
    AllFalse (r :: l) :=
  AllFalse.append (AllFalse.single r hr) h

theorem StopMono.storeKiller {s : SearchState} (h : StopMono s) (mv : Move) (ply : Nat) :
    StopMono (s.storeKiller mv ply) := by
  unfold SearchState.storeKiller
  split
  · simp only
    split
    · exact h
    · exact h.congr rfl rfl rfl rfl
  · exact h

theorem StopMono.recordCutoff {s : SearchState} (h : StopMono s) (mv : Move) (d : Nat) :
    StopMono (s.recordCutoff mv d) := h.congr rfl rfl rfl rfl

section flags
variable {P : Type} (G : Game P)

theorem negamaxLoopG_flags
    (recG : P → Nat → Int → Int → SearchState → Option SearchResult × SearchState × Log)
    (hrec : ∀ p ply α β s, StopMono s →
      StopMono (recG p ply α β s).2.1 ∧ AllFalse (recG p ply α β s).2.2)
    (p : P) (depth ply : Nat) (β : Int) :
    ∀ (ms : List Move) (acc : LoopAcc) (s : SearchState), StopMono s →
      StopMono (negamaxLoopG G recG p depth ply β ms acc s).2.1 ∧
      AllFalse (negamaxLoopG G recG p depth ply β ms acc s).2.2 := by
  intro ms
  induction ms with
  | nil => intro acc s hm; exact ⟨hm, AllFalse.nil⟩
  | cons mv rest ih =>
    intro acc s hm
    rw [negamaxLoopG.eq_2]
    have hm1 := hm.poll
    revert hm1
    cases s.shouldStop with
    | mk stop s1 =>
      intro hm1
      cases stop with
      | true => exact ⟨hm1, AllFalse.nil⟩
      | false =>
        simp only [Bool.false_eq_true, ↓reduceIte]
        have h2 := hrec (G.play p mv) (ply + 1) (-β) (-acc.alpha) s1 hm1
        revert h2
        cases recG (G.play p mv) (ply + 1) (-β) (-acc.alpha) s1 with
        | mk r rest2 =>
          cases rest2 with
          | mk s2 l =>
            intro h2
            cases r with
            | none => exact h2
            | some r =>
              simp only
              split
              · refine ⟨?_, h2.2⟩
                simp only
                split
                · exact (h2.1.storeKiller mv ply).recordCutoff mv depth
                · exact h2.1
              · have h3 := ih ⟨max acc.alpha (-r.score),
                  if -r.score > acc.best.score then ⟨-r.score, some mv⟩ else acc.best⟩ s2 h2.1
                revert h3
                cases negamaxLoopG G recG p depth ply β rest _ s2 with
                | mk r' rest3 =>
                  cases rest3 with
                  | mk s' l' => intro h3; exact ⟨h3.1, h2.2.append h3.2⟩

theorem stopMono_quiesce' (fuel : Nat) (p : P) (α β : Int) (s : SearchState) (h : StopMono s) :
    StopMono (quiesce G fuel p α β s).2 := by
  have H : Hyp G (fun _ => True) (fun _ _ => True) (fun _ => True) StopMono :=
    { closed_m := fun _ _ _ _ => trivial, closed_q := fun _ _ _ _ => trivial,
      q_none := fun _ => trivial, q_move := fun _ _ _ _ => trivial,
      gd_poll := fun _ _ _ => trivial, gd_enter := fun _ _ => trivial,
      gd_frame := fun _ _ _ _ => trivial,
      poll := fun _ h => h.poll, enter := fun _ h _ => h.enter,
      frame := fun _ _ _ _ _ h => h.congr rfl rfl rfl rfl,
      probe := fun _ _ _ _ _ _ => trivial,
      store := fun _ _ _ _ _ _ h _ _ _ => h.congr rfl rfl rfl rfl }
  exact quiesce_inv H fuel p α β s trivial h trivial

theorem probeTT_stopMono (s : SearchState) (p : P) (d : Nat) (α β : Int) (h : StopMono s) :
    StopMono (probeTT G s p d α β).2.2 := by
  obtain ⟨⟨dh, sh, h1⟩, _⟩ := probeTT_spec (G := G) s p d α β
  rw [h1]
  exact h.congr rfl rfl rfl rfl

theorem negamaxG_flags (qfuel : Nat) :
    ∀ (depth : Nat) (p : P) (ply : Nat) (α β : Int) (s : SearchState), StopMono s →
      StopMono (negamaxG G qfuel depth p ply α β s).2.1 ∧
      AllFalse (negamaxG G qfuel depth p ply α β s).2.2 := by
  intro depth
  induction depth with
  | zero =>
    intro p ply α β s hm
    rw [negamaxG.eq_1]
    have hm1 := hm.enter
    split
    · exact ⟨hm1, AllFalse.nil⟩
    · have hm2 := probeTT_stopMono G s.incrementNodes p 0 α β hm1
      revert hm2
      cases probeTT G s.incrementNodes p 0 α β with
      | mk c rest =>
        cases rest with
        | mk tm s2 =>
          intro hm2
          cases c with
          | some cached => exact ⟨hm2, AllFalse.nil⟩
          | none =>
            simp only
            have hm3 := stopMono_quiesce' G qfuel p α β s2 hm2
            revert hm3
            cases quiesce G qfuel p α β s2 with
            | mk v s3 =>
              intro hm3
              cases v with
              | none => exact ⟨hm3, AllFalse.nil⟩
              | some v => exact ⟨hm3, AllFalse.nil⟩
  | succ d ih =>
    intro p ply α β s hm
    rw [negamaxG.eq_1]
    have hm1 := hm.enter
    split
    · exact ⟨hm1, AllFalse.nil⟩
    · have hm2 := probeTT_stopMono G s.incrementNodes p (d + 1) α β hm1
      revert hm2
      cases probeTT G s.incrementNodes p (d + 1) α β with
      | mk c rest =>
        cases rest with
        | mk tm s2 =>
          intro hm2
          cases c with
          | some cached => exact ⟨hm2, AllFalse.nil⟩
          | none =>
            simp only
            cases G.moves p with
            | nil =>
              simp only
              split
              · exact ⟨hm2, AllFalse.nil⟩
              · exact ⟨hm2, AllFalse.nil⟩
            | cons m0 tail =>
              simp only
              have hloop := negamaxLoopG_flags G (negamaxG G qfuel d) ih p (d + 1) ply β
                (orderMoves G s2 p (m0 :: tail) tm ply)
                ⟨α, ⟨NEGATIVE_INFINITY, some ((orderMoves G s2 p (m0 :: tail) tm ply).headD m0)⟩⟩ s2 hm2
              revert hloop
              cases negamaxLoopG G (negamaxG G qfuel d) p (d + 1) ply β
                (orderMoves G s2 p (m0 :: tail) tm ply)
                ⟨α, ⟨NEGATIVE_INFINITY, some ((orderMoves G s2 p (m0 :: tail) tm ply).headD m0)⟩⟩ s2 with
              | mk racc rest3 =>
                cases rest3 with
                | mk s3 l =>
                  intro hloop
                  cases racc with
                  | none => exact hloop
                  | some acc =>
                    simp only
                    have hm3 : StopMono s3 := hloop.1
                    have hm4 := hm3.poll
                    have hf := poll_false_stopSeen hm3
                    revert hm4 hf
                    cases s3.shouldStop with
                    | mk stop s4 =>
                      intro hm4 hf
                      cases stop with
                      | true => exact ⟨hm4, hloop.2⟩
                      | false =>
                        simp only [Bool.false_eq_true, ↓reduceIte]
                        exact ⟨hm4.congr rfl rfl rfl rfl, hloop.2.append (AllFalse.single _ (hf rfl))⟩

theorem searchPositionG_flags (qfuel : Nat) (p : P) (depth : Nat) (s : SearchState) (hm : StopMono s) :
    StopMono (searchPositionG G qfuel p depth s).2.1 ∧
    AllFalse (searchPositionG G qfuel p depth s).2.2 := by
  unfold searchPositionG
  simp only
  have h := negamaxG_flags G qfuel depth p 0 NEGATIVE_INFINITY INFINITY
    { s with rep := G.hash p :: s.rep } (hm.congr rfl rfl rfl rfl)
  revert h
  cases negamaxG G qfuel depth p 0 NEGATIVE_INFINITY INFINITY { s with rep := G.hash p :: s.rep } with
  | mk r rest =>
    cases rest with
    | mk s2 l => intro h; exact ⟨h.1.congr rfl rfl rfl rfl, h.2⟩

theorem iterateG_flags (qfuel : Nat) (p : P) (maxDepth : Nat) :
    ∀ (n cur : Nat) (best : Int × Option Move) (s : SearchState), StopMono s →
      StopMono (iterateG G qfuel p maxDepth n cur best s).2.1 ∧
      AllFalse (iterateG G qfuel p maxDepth n cur best s).2.2 := by
  intro n
  induction n with
  | zero => intro cur best s hm; exact ⟨hm, AllFalse.nil⟩
  | succ n ih =>
    intro cur best s hm
    rw [iterateG.eq_2]
    split
    · exact ⟨hm, AllFalse.nil⟩
    · have hm1 := hm.poll
      revert hm1
      cases s.shouldStop with
      | mk stop s1 =>
        intro hm1
        cases stop with
        | true => exact ⟨hm1, AllFalse.nil⟩
        | false =>
          simp only [Bool.false_eq_true, ↓reduceIte]
          have h2 := searchPositionG_flags G qfuel p cur s1 hm1
          revert h2
          cases searchPositionG G qfuel p cur s1 with
          | mk r rest =>
            cases rest with
            | mk s2 l =>
              intro h2
              cases r with
              | none => exact h2
              | some r =>
                simp only
                have hm2 : StopMono s2 := h2.1
                have hm3 := hm2.poll
                have hf := poll_false_stopSeen hm2
                revert hm3 hf
                cases s2.shouldStop with
                | mk stop2 s3 =>
                  intro hm3 hf
                  cases stop2 with
                  | true =>
                    simp only [Bool.not_true, Bool.false_eq_true, ↓reduceIte]
                    have h4 := ih (cur + 1) best s3 hm3
                    revert h4
                    cases iterateG G qfuel p maxDepth n (cur + 1) best s3 with
                    | mk b rest2 =>
                      cases rest2 with
                      | mk s4 l' => intro h4; exact ⟨h4.1, h2.2.append h4.2⟩
                  | false =>
                    simp only [Bool.not_false, ↓reduceIte]
                    have h4 := ih (cur + 1) (r.score, r.bestMove)
                      { s3 with tt := s3.tt.store (G.hash p) r.score r.bestMove cur .exact,
                                info := (cur, r.score, s3.nodes, r.bestMove) :: s3.info }
                      (hm3.congr rfl rfl rfl rfl)
                    revert h4
                    cases iterateG G qfuel p maxDepth n (cur + 1) (r.score, r.bestMove)
                      { s3 with tt := s3.tt.store (G.hash p) r.score r.bestMove cur .exact,
                                info := (cur, r.score, s3.nodes, r.bestMove) :: s3.info } with
                    | mk b rest2 =>
                      cases rest2 with
                      | mk s4 l' =>
                        intro h4
                        exact ⟨h4.1, h2.2.append (AllFalse.cons _ (hf rfl) h4.2)⟩

theorem findBestMoveG_flags (qfuel : Nat) (p : P) (maxDepth : Nat) (limit : Limit) (s : SearchState) :
    AllFalse (findBestMoveG G qfuel p maxDepth limit s).2.2 := by
  have h := (iterateG_flags G qfuel p maxDepth maxDepth 1 (NEGATIVE_INFINITY, none)
    (resetState limit s) (resetState_stopMono limit s)).2
  unfold findBestMoveG
  revert h
  cases iterateG G qfuel p maxDepth maxDepth 1 (NEGATIVE_INFINITY, none) (resetState limit s) with
  | mk r rest =>
    cases rest with
    | mk s2 l =>
      intro h
      cases r with
      | none => exact h
      | some b =>
        obtain ⟨sc, bm⟩ := b
        cases bm <;> exact h

end flags

/-! ### the log is complete: replaying it on the initial table gives the final table -/

/-- apply the logged stores in order. -/
def replay (t : TT) (l : Log) : TT :=
  l.foldl (fun t r => t.store r.key r.eval r.bestMove r.depth r.bounds) t

@[simp] theorem replay_nil (t : TT) : replay t [] = t := rfl

theorem replay_append (t : TT) (l l' : Log) : replay t (l ++ l') = replay (replay t l) l' :=
  List.foldl_append

@[simp] theorem storeKiller_tt (s : SearchState) (mv : Move) (ply : Nat) :
    (s.storeKiller mv ply).tt = s.tt := by
  unfold SearchState.storeKiller
  split
  · simp only
    split <;> rfl
  · rfl

section replay
variable {P : Type} (G : Game P)

theorem quiesceLoop_tt (rec : P → Int → Int → SearchState → Option Int × SearchState)
    (hrec : ∀ p α β s, (rec p α β s).2.tt = s.tt) (p : P) (β : Int) :
    ∀ (ms : List Move) (α : Int) (s : SearchState), (quiesceLoop G rec p β ms α s).2.tt = s.tt := by
  intro ms
  induction ms with
  | nil => intro α s; rfl
  | cons mv rest ih =>
    intro α s
    rw [quiesceLoop.eq_2]
    have h1 : s.shouldStop.2.tt = s.tt := rfl
    revert h1
    cases s.shouldStop with
    | mk stop s1 =>
      intro h1
      cases stop with
      | true => exact h1
      | false =>
        simp only [Bool.false_eq_true, ↓reduceIte]
        have h2 := hrec (G.play p mv) (-β) (-α) s1
        revert h2
        cases rec (G.play p mv) (-β) (-α) s1 with
        | mk r s2 =>
          intro h2
          cases r with
          | none => exact h2.trans h1
          | some v =>
            simp only
            split
            · exact h2.trans h1
            · exact (ih _ s2).trans (h2.trans h1)

/-- quiescence never writes the table. -/
theorem quiesce_tt : ∀ (fuel : Nat) (p : P) (α β : Int) (s : SearchState),
    (quiesce G fuel p α β s).2.tt = s.tt := by
  intro fuel
  induction fuel with
  | zero => intro p α β s; rfl
  | succ fuel ih =>
    intro p α β s
    rw [quiesce.eq_2]
    generalize orderCaptures G p (if G.inCheck p = true then G.moves p else G.qmoves p) = ms
    split
    · rfl
    · simp only
      split
      · rfl
      · exact quiesceLoop_tt G _ ih p β ms _ _

theorem probeTT_tt (s : SearchState) (p : P) (d : Nat) (α β : Int) :
    (probeTT G s p d α β).2.2.tt = s.tt := by
  obtain ⟨⟨dh, sh, h1⟩, _⟩ := probeTT_spec (G := G) s p d α β
  rw [h1]

theorem negamaxLoopG_replay
    (recG : P → Nat → Int → Int → SearchState → Option SearchResult × SearchState × Log)
    (hrec : ∀ p ply α β s, (recG p ply α β s).2.1.tt = replay s.tt (recG p ply α β s).2.2)
    (p : P) (depth ply : Nat) (β : Int) :
    ∀ (ms : List Move) (acc : LoopAcc) (s : SearchState),
      (negamaxLoopG G recG p depth ply β ms acc s).2.1.tt =
        replay s.tt (negamaxLoopG G recG p depth ply β ms acc s).2.2 := by
  intro ms
  induction ms with
  | nil => intro acc s; rfl
  | cons mv rest ih =>
    intro acc s
    rw [negamaxLoopG.eq_2]
    have h1 : s.shouldStop.2.tt = s.tt := rfl
    revert h1
    cases s.shouldStop with
    | mk stop s1 =>
      intro h1
      cases stop with
      | true => exact h1
      | false =>
        simp only [Bool.false_eq_true, ↓reduceIte]
        have h2 := hrec (G.play p mv) (ply + 1) (-β) (-acc.alpha) s1
        revert h2
        cases recG (G.play p mv) (ply + 1) (-β) (-acc.alpha) s1 with
        | mk r rest2 =>
          cases rest2 with
          | mk s2 l =>
            intro h2
            simp only at h1 h2
            rw [h1] at h2
            cases r with
            | none => exact h2
            | some r =>
              simp only
              split
              · simp only
                split
                · simp only [SearchState.recordCutoff, storeKiller_tt]
                  exact h2
                · exact h2
              · have h3 := ih ⟨max acc.alpha (-r.score),
                  if -r.score > acc.best.score then ⟨-r.score, some mv⟩ else acc.best⟩ s2
                revert h3
                cases negamaxLoopG G recG p depth ply β rest _ s2 with
                | mk r' rest3 =>
                  cases rest3 with
                  | mk s' l' =>
                    intro h3
                    simp only at h3 ⊢
                    rw [replay_append, ← h2, h3]

theorem negamaxG_replay (qfuel : Nat) :
    ∀ (depth : Nat) (p : P) (ply : Nat) (α β : Int) (s : SearchState),
      (negamaxG G qfuel depth p ply α β s).2.1.tt =
        replay s.tt (negamaxG G qfuel depth p ply α β s).2.2 := by
  intro depth
  induction depth with
  | zero =>
    intro p ply α β s
    rw [negamaxG.eq_1]
    split
    · rfl
    · have h2 := probeTT_tt G s.incrementNodes p 0 α β
      revert h2
      cases probeTT G s.incrementNodes p 0 α β with
      | mk c rest =>
        cases rest with
        | mk tm s2 =>
          intro h2
          cases c with
          | some cached => exact h2
          | none =>
            simp only
            have h3 := quiesce_tt G qfuel p α β s2
            revert h3
            cases quiesce G qfuel p α β s2 with
            | mk v s3 =>
              intro h3
              cases v with
              | none => exact h3.trans h2
              | some v => exact h3.trans h2
  | succ d ih =>
    intro p ply α β s
    rw [negamaxG.eq_1]
    split
    · rfl
    · have h2 := probeTT_tt G s.incrementNodes p (d + 1) α β
      revert h2
      cases probeTT G s.incrementNodes p (d + 1) α β with
      | mk c rest =>
        cases rest with
        | mk tm s2 =>
          intro h2
          have h2' : s2.tt = s.tt := h2
          cases c with
          | some cached => exact h2
          | none =>
            simp only
            cases G.moves p with
            | nil =>
              simp only
              split
              · exact h2
              · exact h2
            | cons m0 tail =>
              simp only
              have hloop := negamaxLoopG_replay G (negamaxG G qfuel d) ih p (d + 1) ply β
                (orderMoves G s2 p (m0 :: tail) tm ply)
                ⟨α, ⟨NEGATIVE_INFINITY, some ((orderMoves G s2 p (m0 :: tail) tm ply).headD m0)⟩⟩ s2
              revert hloop
              cases negamaxLoopG G (negamaxG G qfuel d) p (d + 1) ply β
                (orderMoves G s2 p (m0 :: tail) tm ply)
                ⟨α, ⟨NEGATIVE_INFINITY, some ((orderMoves G s2 p (m0 :: tail) tm ply).headD m0)⟩⟩ s2 with
              | mk racc rest3 =>
                cases rest3 with
                | mk s3 l =>
                  intro hloop
                  simp only at hloop
                  rw [h2'] at hloop
                  cases racc with
                  | none => exact hloop
                  | some acc =>
                    simp only
                    have h4 : s3.shouldStop.2.tt = s3.tt := rfl
                    revert h4
                    cases s3.shouldStop with
                    | mk stop s4 =>
                      intro h4
                      simp only at h4
                      cases stop with
                      | true => exact h4.trans hloop
                      | false =>
                        simp only [Bool.false_eq_true, ↓reduceIte]
                        rw [replay_append, ← hloop, h4]
                        rfl

theorem searchPositionG_replay (qfuel : Nat) (p : P) (depth : Nat) (s : SearchState) :
    (searchPositionG G qfuel p depth s).2.1.tt = replay s.tt (searchPositionG G qfuel p depth s).2.2 := by
  unfold searchPositionG
  simp only
  have h := negamaxG_replay G qfuel depth p 0 NEGATIVE_INFINITY INFINITY
    { s with rep := G.hash p :: s.rep }
  revert h
  cases negamaxG G qfuel depth p 0 NEGATIVE_INFINITY INFINITY { s with rep := G.hash p :: s.rep } with
  | mk r rest =>
    cases rest with
    | mk s2 l => intro h; exact h

theorem iterateG_replay (qfuel : Nat) (p : P) (maxDepth : Nat) :
    ∀ (n cur : Nat) (best : Int × Option Move) (s : SearchState),
      (iterateG G qfuel p maxDepth n cur best s).2.1.tt =
        replay s.tt (iterateG G qfuel p maxDepth n cur best s).2.2 := by
  intro n
  induction n with
  | zero => intro cur best s; rfl
  | succ n ih =>
    intro cur best s
    rw [iterateG.eq_2]
    split
    · rfl
    · have h1 : s.shouldStop.2.tt = s.tt := rfl
      revert h1
      cases s.shouldStop with
      | mk stop s1 =>
        intro h1
        simp only at h1
        cases stop with
        | true => exact h1
        | false =>
          simp only [Bool.false_eq_true, ↓reduceIte]
          have h2 := searchPositionG_replay G qfuel p cur s1
          revert h2
          cases searchPositionG G qfuel p cur s1 with
          | mk r rest =>
            cases rest with
            | mk s2 l =>
              intro h2
              simp only at h2
              rw [h1] at h2
              cases r with
              | none => exact h2
              | some r =>
                simp only
                have h3 : s2.shouldStop.2.tt = s2.tt := rfl
                revert h3
                cases s2.shouldStop with
                | mk stop2 s3 =>
                  intro h3
                  simp only at h3
                  cases stop2 with
                  | true =>
                    simp only [Bool.not_true, Bool.false_eq_true, ↓reduceIte]
                    have h4 := ih (cur + 1) best s3
                    revert h4
                    cases iterateG G qfuel p maxDepth n (cur + 1) best s3 with
                    | mk b rest2 =>
                      cases rest2 with
                      | mk s4 l' =>
                        intro h4
                        simp only at h4 ⊢
                        rw [replay_append, ← h2, ← h3, h4]
                  | false =>
                    simp only [Bool.not_false, ↓reduceIte]
                    have h4 := ih (cur + 1) (r.score, r.bestMove)
                      { s3 with tt := s3.tt.store (G.hash p) r.score r.bestMove cur .exact,
                                info := (cur, r.score, s3.nodes, r.bestMove) :: s3.info }
                    revert h4
                    cases iterateG G qfuel p maxDepth n (cur + 1) (r.score, r.bestMove)
                      { s3 with tt := s3.tt.store (G.hash p) r.score r.bestMove cur .exact,
                                info := (cur, r.score, s3.nodes, r.bestMove) :: s3.info } with
                    | mk b rest2 =>
                      cases rest2 with
                      | mk s4 l' =>
                        intro h4
                        simp only at h4 ⊢
                        rw [replay_append, ← h2, ← h3, h4]
                        rfl

theorem findBestMoveG_replay (qfuel : Nat) (p : P) (maxDepth : Nat) (limit : Limit) (s : SearchState) :
    (findBestMoveG G qfuel p maxDepth limit s).2.1.tt =
      replay s.tt (findBestMoveG G qfuel p maxDepth limit s).2.2 := by
  have h := iterateG_replay G qfuel p maxDepth maxDepth 1 (NEGATIVE_INFINITY, none) (resetState limit s)
  unfold findBestMoveG
  revert h
  cases iterateG G qfuel p maxDepth maxDepth 1 (NEGATIVE_INFINITY, none) (resetState limit s) with
  | mk r rest =>
    cases rest with
    | mk s2 l =>
      intro h
      cases r with
      | none => exact h
      | some b =>
        obtain ⟨sc, bm⟩ := b
        cases bm <;> exact h

end replay
end Flounder.Stop
