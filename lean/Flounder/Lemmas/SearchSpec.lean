/-
  C05 helpers, part 2: order-free reading of the reference values `Spec.Q` / `Spec.V`
  (every child has a value, each negated child value is a lower bound, one attains it),
  and fuel monotonicity.
-/
import Flounder.Lemmas.SearchBasic

namespace Flounder.Search
open Flounder Gen

/-- the step of the two reference folds. -/
def foldStep (g : Move → Option Int) (acc : Option Int) (m : Move) : Option Int :=
  match acc, g m with
  | some a, some v => some (max a (-v))
  | _, _ => none

theorem foldl_none (g : Move → Option Int) (ms : List Move) : ms.foldl (foldStep g) none = none := by
  induction ms with
  | nil => rfl
  | cons m ms ih => simpa [List.foldl_cons, foldStep] using ih

/-- the value of the fold, read without the order of the moves. -/
theorem foldl_some (g : Move → Option Int) (ms : List Move) (a q : Int)
    (h : ms.foldl (foldStep g) (some a) = some q) :
    (∀ m ∈ ms, ∃ x, g m = some x) ∧ a ≤ q ∧ (∀ m ∈ ms, ∀ x, g m = some x → -x ≤ q) ∧
    (q = a ∨ ∃ m ∈ ms, ∃ x, g m = some x ∧ -x = q) := by
  induction ms generalizing a with
  | nil =>
    simp only [List.foldl_nil, Option.some.injEq] at h
    subst h
    exact ⟨by simp, Int.le_refl _, by simp, Or.inl rfl⟩
  | cons m ms ih =>
    rw [List.foldl_cons] at h
    cases hg : g m with
    | none =>
      have : foldStep g (some a) m = none := by simp [foldStep, hg]
      rw [this, foldl_none] at h; cases h
    | some x =>
      have : foldStep g (some a) m = some (max a (-x)) := by simp [foldStep, hg]
      rw [this] at h
      obtain ⟨h1, h2, h3, h4⟩ := ih _ h
      refine ⟨?_, by omega, ?_, ?_⟩
      · intro m' hm'
        rcases List.mem_cons.1 hm' with e | e
        · subst e; exact ⟨x, hg⟩
        · exact h1 _ e
      · intro m' hm' y hy
        rcases List.mem_cons.1 hm' with e | e
        · subst e; rw [hg] at hy; cases hy; omega
        · exact h3 _ e _ hy
      · rcases h4 with e | ⟨m', hm', y, hy, e⟩
        · by_cases hax : a ≤ -x
          · right; exact ⟨m, List.mem_cons_self, x, hg, by omega⟩
          · left; omega
        · right; exact ⟨m', List.mem_cons_of_mem _ hm', y, hy, e⟩

/-- converse of `foldl_some`: existence of all child values gives a fold value. -/
theorem foldl_isSome (g : Move → Option Int) (ms : List Move) (a : Int)
    (h : ∀ m ∈ ms, ∃ x, g m = some x) : ∃ q, ms.foldl (foldStep g) (some a) = some q := by
  induction ms generalizing a with
  | nil => exact ⟨a, rfl⟩
  | cons m ms ih =>
    obtain ⟨x, hx⟩ := h m List.mem_cons_self
    have : foldStep g (some a) m = some (max a (-x)) := by simp [foldStep, hx]
    rw [List.foldl_cons, this]
    exact ih _ (fun m' hm' => h m' (List.mem_cons_of_mem _ hm'))

/-- the fold only depends on the child values of the listed moves. -/
theorem foldl_congr (g g' : Move → Option Int) (ms : List Move) (a : Option Int)
    (h : ∀ m ∈ ms, g m = g' m) : ms.foldl (foldStep g) a = ms.foldl (foldStep g') a := by
  induction ms generalizing a with
  | nil => rfl
  | cons m ms ih =>
    rw [List.foldl_cons, List.foldl_cons]
    have : foldStep g a m = foldStep g' a m := by simp [foldStep, h m List.mem_cons_self]
    rw [this]
    exact ih _ (fun m' hm' => h m' (List.mem_cons_of_mem _ hm'))

section spec
variable {P : Type} (G : Game P)

/-- the move list of a quiescence node. -/
def qList (p : P) : List Move := if G.inCheck p then G.moves p else G.qmoves p

theorem Q_zero (p : P) : Spec.Q G 0 p = none := rfl

theorem Q_succ (n : Nat) (p : P) :
    Spec.Q G (n + 1) p =
      if (qList G p).isEmpty && G.inCheck p then some (-CHECKMATE_SCORE)
      else (qList G p).foldl (foldStep (fun m => Spec.Q G n (G.play p m))) (some (G.eval p)) := rfl

theorem V_zero (qf : Nat) (p : P) : Spec.V G qf 0 p = Spec.Q G qf p := rfl

theorem V_succ_nil (qf d : Nat) (p : P) (h : G.moves p = []) :
    Spec.V G qf (d + 1) p =
      if G.inCheck p then some (-CHECKMATE_SCORE + ((d + 1 : Nat) : Int)) else some 0 := by
  rw [Spec.V, h]

theorem V_succ_cons (qf d : Nat) (p : P) (m : Move) (ms : List Move) (h : G.moves p = m :: ms) :
    Spec.V G qf (d + 1) p =
      ms.foldl (foldStep (fun mv => Spec.V G qf d (G.play p mv)))
        ((Spec.V G qf d (G.play p m)).map (fun v => -v)) := by
  rw [Spec.V, h]; rfl

/-- a non-terminal quiescence node: stand-pat and every child are lower bounds, one attains `q`. -/
theorem Q_children (n : Nat) (p : P) (q : Int)
    (hm : ((qList G p).isEmpty && G.inCheck p) = false) (h : Spec.Q G (n + 1) p = some q) :
    (∀ m ∈ qList G p, ∃ x, Spec.Q G n (G.play p m) = some x) ∧ G.eval p ≤ q ∧
    (∀ m ∈ qList G p, ∀ x, Spec.Q G n (G.play p m) = some x → -x ≤ q) ∧
    (q = G.eval p ∨ ∃ m ∈ qList G p, ∃ x, Spec.Q G n (G.play p m) = some x ∧ -x = q) := by
  rw [Q_succ, hm] at h
  exact foldl_some _ _ _ _ h

/-- a node with moves: every child has a value, each is a lower bound, one attains `v`. -/
theorem V_children (qf d : Nat) (p : P) (v : Int) (hm : G.moves p ≠ [])
    (h : Spec.V G qf (d + 1) p = some v) :
    (∀ m ∈ G.moves p, ∃ x, Spec.V G qf d (G.play p m) = some x) ∧
    (∀ m ∈ G.moves p, ∀ x, Spec.V G qf d (G.play p m) = some x → -x ≤ v) ∧
    (∃ m ∈ G.moves p, ∃ x, Spec.V G qf d (G.play p m) = some x ∧ -x = v) := by
  cases hms : G.moves p with
  | nil => exact absurd hms hm
  | cons m ms =>
    rw [V_succ_cons G qf d p m ms hms] at h
    cases h0 : Spec.V G qf d (G.play p m) with
    | none => rw [h0] at h; simp only [Option.map_none] at h; rw [foldl_none] at h; cases h
    | some x0 =>
      rw [h0] at h
      simp only [Option.map_some] at h
      obtain ⟨h1, h2, h3, h4⟩ := foldl_some _ _ _ _ h
      refine ⟨?_, ?_, ?_⟩
      · intro m' hm'
        rcases List.mem_cons.1 hm' with e | e
        · subst e; exact ⟨x0, h0⟩
        · exact h1 _ e
      · intro m' hm' y hy
        rcases List.mem_cons.1 hm' with e | e
        · subst e; rw [h0] at hy; cases hy; exact h2
        · exact h3 _ e _ hy
      · rcases h4 with e | ⟨m', hm', y, hy, e⟩
        · exact ⟨m, List.mem_cons_self, x0, h0, e.symm⟩
        · exact ⟨m', List.mem_cons_of_mem _ hm', y, hy, e⟩

/-- more fuel never changes a quiescence value. -/
theorem Q_mono (n m : Nat) (p : P) (v : Int) (h : Spec.Q G n p = some v) (hnm : n ≤ m) :
    Spec.Q G m p = some v := by
  induction n generalizing m p v with
  | zero => cases h
  | succ n ih =>
    obtain ⟨m', rfl⟩ : ∃ m', m = m' + 1 := ⟨m - 1, by omega⟩
    rw [Q_succ] at h ⊢
    split
    · rename_i hc; rw [if_pos hc] at h; exact h
    · rename_i hc
      rw [if_neg hc] at h
      rw [← h]
      have hall := (foldl_some _ _ _ _ h).1
      apply foldl_congr
      intro mv hmv
      obtain ⟨x, hx⟩ := hall mv hmv
      rw [hx]
      exact ih m' _ x hx (by omega)

/-- more quiescence fuel never changes a depth-limited value. -/
theorem V_mono (n m d : Nat) (p : P) (v : Int) (h : Spec.V G n d p = some v) (hnm : n ≤ m) :
    Spec.V G m d p = some v := by
  induction d generalizing p v with
  | zero => exact Q_mono G n m p v h hnm
  | succ d ih =>
    cases hms : G.moves p with
    | nil => rw [V_succ_nil G _ d p hms] at h ⊢; exact h
    | cons m0 ms =>
      have hne : G.moves p ≠ [] := by rw [hms]; simp
      obtain ⟨hall, _, _⟩ := V_children G n d p v hne h
      rw [V_succ_cons G _ d p m0 ms hms] at h ⊢
      rw [← h]
      obtain ⟨x0, hx0⟩ := hall m0 (by rw [hms]; exact List.mem_cons_self)
      rw [hx0, ih _ _ hx0]
      apply foldl_congr
      intro mv hmv
      obtain ⟨x, hx⟩ := hall mv (by rw [hms]; exact List.mem_cons_of_mem _ hmv)
      rw [hx]
      exact ih _ x hx

end spec
end Flounder.Search
