/-
  C05 helpers, part 2: order-free reading of the reference values `Spec.Q` / `Spec.V`
  (every child has a value, each negated child value is a lower bound, one attains it),
  and fuel monotonicity.
-/
import Flounder.Lemmas.SearchBasic

namespace Flounder.Search
open Flounder Gen

/-- the step of the two reference folds. -/
def foldStep (g : Move → Option Int) (acc : Option Int) (m : Move) : Option Int :=
  match acc, g m with
  | some a, some v => some (max a (-v))
  | _, _ => none

theorem foldl_none (g : Move → Option Int) (ms : List Move) : ms.foldl (foldStep g) none = none := by
  induction ms with
  | nil => rfl
  | cons m ms ih => simpa [List.foldl_cons, foldStep] using ih

/-- the value of the fold, read without the order of the moves. -/
theorem foldl_some (g : Move → Option Int) (ms : List Move) (a q : Int)
    (h : ms.foldl (foldStep g) (some a) = some q) :
    (∀ m ∈ ms, ∃ x, g m = some x) ∧ a ≤ q ∧ (∀ m ∈ ms, ∀ x, g m = some x → -x ≤ q) ∧
    (q = a ∨ ∃ m ∈ ms, ∃ x, g m = some x ∧ -x = q) := by
  induction ms generalizing a with
  | nil =>
    simp only [List.foldl_nil, Option.some.injEq] at h
    subst h
    exact ⟨by simp, Int.le_refl _, by simp, Or.inl rfl⟩
  | cons m ms ih =>
    rw [List.foldl_cons] at h
    cases hg : g m with
    | none =>
      have : foldStep g (some a) m = none := by simp [foldStep, hg]
      rw [this, foldl_none] at h; cases h
    | some x =>
      have : foldStep g (some a) m = some (max a (-x)) := by simp [foldStep, hg]
      rw [this] at h
      obtain ⟨h1, h2, h3, h4⟩ := ih _ h
      refine ⟨?_, by omega, ?_, ?_⟩
      · intro m' hm'
        rcases List.mem_cons.1 hm' with e | e
        · subst e; exact ⟨x, hg⟩
        · exact h1 _ e
      · intro m' hm' y hy
        rcases List.mem_cons.1 hm' with e | e
        · subst e; rw [hg] at hy; cases hy; omega
        · exact h3 _ e _ hy
      · rcases h4 with e | ⟨m', hm', y, hy, e⟩
        · by_cases hax : a ≤ -x
          · right; exact ⟨m, List.mem_cons_self, x, hg, by omega⟩
          · left; omega
        · right; exact ⟨m', List.mem_cons_of_mem _ hm', y, hy, e⟩

/-- converse of `foldl_some`: existence of all child values gives a fold value. -/
theorem foldl_isSome (g : Move → Option Int) (ms : List Move) (a : Int)
    (h : ∀ m ∈ ms, ∃ x, g m = some x) : ∃ q, ms.foldl (foldStep g) (some a) = some q := by
  induction ms generalizing a with
  | nil => exact ⟨a, rfl⟩
  | cons m ms ih =>
    obtain ⟨x, hx⟩ := h m List.mem_cons_self
    have : foldStep g (some a) m = some (max a (-x)) := by simp [foldStep, hx]
    rw [List.foldl_cons, this]
    exact ih _ (fun m' hm' => h m' (List.mem_cons_of_mem _ hm'))

/-- the fold only depends on the child values of the listed moves. -/
theorem foldl_congr (g g' : Move → Option Int) (ms : List Move) (a : Option Int)
    (h : ∀ m ∈ ms, g m = g' m) : ms.foldl (foldStep g) a = ms.foldl (foldStep g') a := by
  induction ms generalizing a with
  | nil => rfl
  | cons m ms ih =>
    rw [List.foldl_cons, List.foldl_cons]
    have : foldStep g a m = foldStep g' a m := by simp [foldStep, h m List.mem_cons_self]
    rw [this]
    exact ih _ (fun m' hm' => h m' (List.mem_cons_of_mem _ hm'))

/-! ### the fold of `Spec.Q`: only the relevant moves are folded; a skipped move needs `z = false` -/

/-- the step of the fold of `Spec.Q`: `rel m` = the child can matter, `z` = no fuel is left for a child. -/
def relStep (g : Move → Option Int) (rel : Move → Bool) (z : Bool) (acc : Option Int) (m : Move) :
    Option Int :=
  if rel m then foldStep g acc m else if z then none else acc

theorem relFold_none (g : Move → Option Int) (rel : Move → Bool) (z : Bool) (ms : List Move) :
    ms.foldl (relStep g rel z) none = none := by
  induction ms with
  | nil => rfl
  | cons m ms ih =>
    rw [List.foldl_cons]
    have : relStep g rel z none m = none := by
      unfold relStep foldStep; cases rel m <;> cases z <;> simp
    rw [this]; exact ih

/-- the fold of `Spec.Q` is the plain fold over the relevant moves, unless a move is skipped with no fuel. -/
theorem relFold_eq (g : Move → Option Int) (rel : Move → Bool) (z : Bool) (ms : List Move)
    (acc : Option Int) :
    ms.foldl (relStep g rel z) acc =
      if (z && !ms.all rel) = true then none else (ms.filter rel).foldl (foldStep g) acc := by
  induction ms generalizing acc with
  | nil => simp
  | cons m ms ih =>
    rw [List.foldl_cons]
    cases hr : rel m
    · cases z
      · have : relStep g rel false acc m = acc := by simp [relStep, hr]
        rw [this, ih]; simp [hr]
      · have : relStep g rel true acc m = none := by simp [relStep, hr]
        rw [this, relFold_none]; simp [hr]
    · have : relStep g rel z acc m = foldStep g acc m := by simp [relStep, hr]
      rw [this, ih]; simp [hr]

/-- no move is skipped without fuel. -/
theorem relFold_some (g : Move → Option Int) (rel : Move → Bool) (z : Bool) (ms : List Move)
    (acc : Option Int) (q : Int) (h : ms.foldl (relStep g rel z) acc = some q) :
    (∀ m ∈ ms, rel m = false → z = false) ∧ (ms.filter rel).foldl (foldStep g) acc = some q := by
  rw [relFold_eq] at h
  split at h
  · cases h
  · rename_i hc
    refine ⟨fun m hm hr => ?_, h⟩
    cases z
    · rfl
    · exfalso; apply hc
      simp only [Bool.true_and, Bool.not_eq_true', List.all_eq_false]
      exact ⟨m, hm, by simp [hr]⟩

theorem relFold_of (g : Move → Option Int) (rel : Move → Bool) (z : Bool) (ms : List Move)
    (acc : Option Int) (h : ∀ m ∈ ms, rel m = false → z = false) :
    ms.foldl (relStep g rel z) acc = (ms.filter rel).foldl (foldStep g) acc := by
  rw [relFold_eq, if_neg]
  intro hc
  simp only [Bool.and_eq_true, Bool.not_eq_true', List.all_eq_false] at hc
  obtain ⟨hz, m, hm, hr⟩ := hc
  have := h m hm (by simpa using hr)
  rw [hz] at this; cases this

/-- the fold only depends on relevance and child values of the listed moves. -/
theorem relFold_congr (g g' : Move → Option Int) (rel rel' : Move → Bool) (z : Bool) (ms : List Move)
    (a : Option Int) (hr : ∀ m ∈ ms, rel m = rel' m) (h : ∀ m ∈ ms, g m = g' m) :
    ms.foldl (relStep g rel z) a = ms.foldl (relStep g' rel' z) a := by
  induction ms generalizing a with
  | nil => rfl
  | cons m ms ih =>
    rw [List.foldl_cons, List.foldl_cons]
    have : relStep g rel z a m = relStep g' rel' z a m := by
      simp [relStep, foldStep, h m List.mem_cons_self, hr m List.mem_cons_self]
    rw [this]
    exact ih _ (fun m' hm' => hr m' (List.mem_cons_of_mem _ hm')) (fun m' hm' => h m' (List.mem_cons_of_mem _ hm'))

section spec
variable {P : Type} (G : Game P)

/-- the move list of a quiescence node. -/
def qList (p : P) : List Move := if G.inCheck p then G.moves p else G.qmoves p

/-- the move `m` from `p` leads to a child that can change the value of `p` (`Spec.qRelevant`). -/
def qRel (p : P) (m : Move) : Bool := Spec.qRelevant G p (G.play p m)

theorem qMated_eq (p : P) : Spec.qMated G p = ((qList G p).isEmpty && G.inCheck p) := rfl

theorem qRel_eq (p : P) (m : Move) :
    qRel G p m = (Spec.qMated G (G.play p m) || decide (G.eval p < -(G.eval (G.play p m)))) := rfl

/-- a move that is not relevant: the child is not mated and stands at least as well (for its side) as
    minus the parent's static score. -/
theorem qRel_false {p : P} {m : Move} (h : qRel G p m = false) :
    Spec.qMated G (G.play p m) = false ∧ -(G.eval (G.play p m)) ≤ G.eval p := by
  rw [qRel_eq] at h
  simp only [Bool.or_eq_false_iff, decide_eq_false_iff_not] at h
  exact ⟨h.1, by omega⟩

theorem Q_zero (p : P) : Spec.Q G 0 p = none := rfl

theorem Qplain_zero (p : P) : Spec.Qplain G 0 p = none := rfl

theorem Qplain_succ (n : Nat) (p : P) :
    Spec.Qplain G (n + 1) p =
      if (qList G p).isEmpty && G.inCheck p then some (-CHECKMATE_SCORE)
      else (qList G p).foldl (foldStep (fun m => Spec.Qplain G n (G.play p m))) (some (G.eval p)) := rfl

/-- unfolding, as defined: relevant moves are folded, a skipped move needs a unit of fuel (`n ≠ 0`). -/
theorem Q_succ (n : Nat) (p : P) :
    Spec.Q G (n + 1) p =
      if (qList G p).isEmpty && G.inCheck p then some (-CHECKMATE_SCORE)
      else (qList G p).foldl
        (relStep (fun m => Spec.Q G n (G.play p m)) (qRel G p) (n == 0)) (some (G.eval p)) := rfl

/-- unfolding with fuel to spare: the plain fold over the relevant moves. -/
theorem Q_succ_succ (n : Nat) (p : P) :
    Spec.Q G (n + 2) p =
      if (qList G p).isEmpty && G.inCheck p then some (-CHECKMATE_SCORE)
      else ((qList G p).filter (qRel G p)).foldl
        (foldStep (fun m => Spec.Q G (n + 1) (G.play p m))) (some (G.eval p)) := by
  rw [Q_succ, relFold_of]
  intro m _ _
  simp

theorem V_zero (qf : Nat) (p : P) : Spec.V G qf 0 p = Spec.Q G qf p := rfl

theorem V_succ_nil (qf d : Nat) (p : P) (h : G.moves p = []) :
    Spec.V G qf (d + 1) p =
      if G.inCheck p then some (-CHECKMATE_SCORE + ((d + 1 : Nat) : Int)) else some 0 := by
  rw [Spec.V, h]

theorem V_succ_cons (qf d : Nat) (p : P) (m : Move) (ms : List Move) (h : G.moves p = m :: ms) :
    Spec.V G qf (d + 1) p =
      ms.foldl (foldStep (fun mv => Spec.V G qf d (G.play p mv)))
        ((Spec.V G qf d (G.play p m)).map (fun v => -v)) := by
  rw [Spec.V, h]; rfl

/-- a non-terminal quiescence node: a skipped child has a unit of fuel, every relevant child has a value,
    stand-pat and every relevant child are lower bounds, one of them attains `q`. -/
theorem Q_children (n : Nat) (p : P) (q : Int)
    (hm : ((qList G p).isEmpty && G.inCheck p) = false) (h : Spec.Q G (n + 1) p = some q) :
    (∀ m ∈ qList G p, qRel G p m = false → n ≠ 0) ∧
    (∀ m ∈ qList G p, qRel G p m = true → ∃ x, Spec.Q G n (G.play p m) = some x) ∧ G.eval p ≤ q ∧
    (∀ m ∈ qList G p, qRel G p m = true → ∀ x, Spec.Q G n (G.play p m) = some x → -x ≤ q) ∧
    (q = G.eval p ∨
      ∃ m ∈ qList G p, qRel G p m = true ∧ ∃ x, Spec.Q G n (G.play p m) = some x ∧ -x = q) := by
  rw [Q_succ, hm] at h
  obtain ⟨hz, hf⟩ := relFold_some _ _ _ _ _ _ h
  obtain ⟨h1, h2, h3, h4⟩ := foldl_some _ _ _ _ hf
  refine ⟨?_, ?_, h2, ?_, ?_⟩
  · intro m hm' hr; simpa using hz m hm' hr
  · exact fun m hm' hr => h1 m (List.mem_filter.2 ⟨hm', hr⟩)
  · exact fun m hm' hr => h3 m (List.mem_filter.2 ⟨hm', hr⟩)
  · rcases h4 with e | ⟨m, hm', x, hx, e⟩
    · exact Or.inl e
    · have := List.mem_filter.1 hm'
      exact Or.inr ⟨m, this.1, this.2, x, hx, e⟩

/-- converse of `Q_children`: a non-terminal node has a value as soon as its relevant children have one
    (and a skipped child a unit of fuel). -/
theorem Q_isSome (n : Nat) (p : P) (hm : ((qList G p).isEmpty && G.inCheck p) = false)
    (hz : ∀ m ∈ qList G p, qRel G p m = false → n ≠ 0)
    (hex : ∀ m ∈ qList G p, qRel G p m = true → ∃ x, Spec.Q G n (G.play p m) = some x) :
    ∃ q, Spec.Q G (n + 1) p = some q := by
  rw [Q_succ, hm, relFold_of _ _ _ _ _ (fun m hm' hr => by simpa using hz m hm' hr)]
  simp only [Bool.false_eq_true, ↓reduceIte]
  exact foldl_isSome _ _ _ (fun m hm' => hex m (List.mem_filter.1 hm').1 (List.mem_filter.1 hm').2)

/-- a node with moves: every child has a value, each is a lower bound, one attains `v`. -/
theorem V_children (qf d : Nat) (p : P) (v : Int) (hm : G.moves p ≠ [])
    (h : Spec.V G qf (d + 1) p = some v) :
    (∀ m ∈ G.moves p, ∃ x, Spec.V G qf d (G.play p m) = some x) ∧
    (∀ m ∈ G.moves p, ∀ x, Spec.V G qf d (G.play p m) = some x → -x ≤ v) ∧
    (∃ m ∈ G.moves p, ∃ x, Spec.V G qf d (G.play p m) = some x ∧ -x = v) := by
  cases hms : G.moves p with
  | nil => exact absurd hms hm
  | cons m ms =>
    rw [V_succ_cons G qf d p m ms hms] at h
    cases h0 : Spec.V G qf d (G.play p m) with
    | none => rw [h0] at h; simp only [Option.map_none] at h; rw [foldl_none] at h; cases h
    | some x0 =>
      rw [h0] at h
      simp only [Option.map_some] at h
      obtain ⟨h1, h2, h3, h4⟩ := foldl_some _ _ _ _ h
      refine ⟨?_, ?_, ?_⟩
      · intro m' hm'
        rcases List.mem_cons.1 hm' with e | e
        · subst e; exact ⟨x0, h0⟩
        · exact h1 _ e
      · intro m' hm' y hy
        rcases List.mem_cons.1 hm' with e | e
        · subst e; rw [h0] at hy; cases hy; exact h2
        · exact h3 _ e _ hy
      · rcases h4 with e | ⟨m', hm', y, hy, e⟩
        · exact ⟨m, List.mem_cons_self, x0, h0, e.symm⟩
        · exact ⟨m', List.mem_cons_of_mem _ hm', y, hy, e⟩

/-- more fuel never changes a quiescence value. -/
theorem Q_mono (n m : Nat) (p : P) (v : Int) (h : Spec.Q G n p = some v) (hnm : n ≤ m) :
    Spec.Q G m p = some v := by
  induction n generalizing m p v with
  | zero => cases h
  | succ n ih =>
    obtain ⟨m', rfl⟩ : ∃ m', m = m' + 1 := ⟨m - 1, by omega⟩
    rw [Q_succ] at h ⊢
    split
    · rename_i hc; rw [if_pos hc] at h; exact h
    · rename_i hc
      rw [if_neg hc] at h
      obtain ⟨hz, hf⟩ := relFold_some _ _ _ _ _ _ h
      rw [relFold_of _ _ _ _ _ (fun mv hmv hr => by have := hz mv hmv hr; simp at this ⊢; omega), ← hf]
      have hall := (foldl_some _ _ _ _ hf).1
      apply foldl_congr
      intro mv hmv
      obtain ⟨x, hx⟩ := hall mv hmv
      rw [hx]
      exact ih m' _ x hx (by omega)

/-- more fuel never changes a plain quiescence value. -/
theorem Qplain_mono (n m : Nat) (p : P) (v : Int) (h : Spec.Qplain G n p = some v) (hnm : n ≤ m) :
    Spec.Qplain G m p = some v := by
  induction n generalizing m p v with
  | zero => cases h
  | succ n ih =>
    obtain ⟨m', rfl⟩ : ∃ m', m = m' + 1 := ⟨m - 1, by omega⟩
    rw [Qplain_succ] at h ⊢
    split
    · rename_i hc; rw [if_pos hc] at h; exact h
    · rename_i hc
      rw [if_neg hc] at h
      rw [← h]
      have hall := (foldl_some _ _ _ _ h).1
      apply foldl_congr
      intro mv hmv
      obtain ⟨x, hx⟩ := hall mv hmv
      rw [hx]
      exact ih m' _ x hx (by omega)

/-- more quiescence fuel never changes a depth-limited value. -/
theorem V_mono (n m d : Nat) (p : P) (v : Int) (h : Spec.V G n d p = some v) (hnm : n ≤ m) :
    Spec.V G m d p = some v := by
  induction d generalizing p v with
  | zero => exact Q_mono G n m p v h hnm
  | succ d ih =>
    cases hms : G.moves p with
    | nil => rw [V_succ_nil G _ d p hms] at h ⊢; exact h
    | cons m0 ms =>
      have hne : G.moves p ≠ [] := by rw [hms]; simp
      obtain ⟨hall, _, _⟩ := V_children G n d p v hne h
      rw [V_succ_cons G _ d p m0 ms hms] at h ⊢
      rw [← h]
      obtain ⟨x0, hx0⟩ := hall m0 (by rw [hms]; exact List.mem_cons_self)
      rw [hx0, ih _ _ hx0]
      apply foldl_congr
      intro mv hmv
      obtain ⟨x, hx⟩ := hall mv (by rw [hms]; exact List.mem_cons_of_mem _ hmv)
      rw [hx]
      exact ih _ x hx

end spec
end Flounder.Search
