/-
  Parsing the printed placement field: `splitOnChar` undoes `joinSlash`, `parseRank` on an encoded rank
  places exactly the encoded men.
-/
import Flounder.Lemmas.FenPrint
import Flounder.Lemmas.Bits

namespace Flounder.Lemmas.FenPlacement
open Flounder Flounder.Lemmas.FenDec Flounder.Lemmas.FenPrint

/-! ### split / join -/

theorem splitOnChar_ne_nil (sep : Char) (s : List Char) : splitOnChar sep s ≠ [] := by
  induction s with
  | nil => simp [splitOnChar]
  | cons c cs ih =>
    unfold splitOnChar
    split
    · simp
    · split <;> simp

theorem splitOnChar_no_sep (sep : Char) (r : List Char) (h : ∀ c ∈ r, c ≠ sep) : splitOnChar sep r = [r] := by
  induction r with
  | nil => rfl
  | cons c cs ih =>
    have hc : c ≠ sep := h c List.mem_cons_self
    have := ih (fun d hd => h d (List.mem_cons_of_mem _ hd))
    simp [splitOnChar, this, hc]

theorem splitOnChar_append_sep (sep : Char) (r t : List Char) (h : ∀ c ∈ r, c ≠ sep) :
    splitOnChar sep (r ++ sep :: t) = r :: splitOnChar sep t := by
  induction r with
  | nil =>
    simp only [List.nil_append, splitOnChar]
    cases hs : splitOnChar sep t with
    | nil => exact absurd hs (splitOnChar_ne_nil sep t)
    | cons hd tl => simp
  | cons c cs ih =>
    have hc : c ≠ sep := h c List.mem_cons_self
    have := ih (fun d hd => h d (List.mem_cons_of_mem _ hd))
    simp only [List.cons_append, splitOnChar, this, hc, if_false]

theorem splitOnChar_joinSlash (rs : List (List Char)) (hne : rs ≠ [])
    (h : ∀ r ∈ rs, ∀ c ∈ r, c ≠ '/') : splitOnChar '/' (joinSlash rs) = rs := by
  induction rs with
  | nil => exact absurd rfl hne
  | cons r rest ih =>
    cases rest with
    | nil => exact splitOnChar_no_sep '/' r (h r List.mem_cons_self)
    | cons r' rs =>
      simp only [joinSlash]
      rw [splitOnChar_append_sep '/' r _ (h r List.mem_cons_self),
        ih (by simp) (fun x hx => h x (List.mem_cons_of_mem _ hx))]

/-! ### characters -/

theorem pieceChar_props (c : Color) (p : Piece) :
    isPieceLetter (pieceChar c p) = true ∧ charToPiece (pieceChar c p) = some p ∧
    charToColor (pieceChar c p) = c ∧ pieceChar c p ≠ '/' := by
  cases c <;> cases p <;> decide

theorem runDigit_props' : ∀ run, run < 9 → 1 ≤ run →
    isPieceLetter (digitChar run) = false ∧ ('1' ≤ digitChar run ∧ digitChar run ≤ '8') ∧
    (digitChar run).toNat - '0'.toNat = run ∧ digitChar run ≠ '/' := by
  decide

theorem runDigit_props (run : Nat) (h1 : 1 ≤ run) (h8 : run ≤ 8) :
    isPieceLetter (digitChar run) = false ∧ ('1' ≤ digitChar run ∧ digitChar run ≤ '8') ∧
    (digitChar run).toNat - '0'.toNat = run ∧ digitChar run ≠ '/' :=
  runDigit_props' run (by omega) h1

/-! ### one rank -/

/-- put the men of the cells on consecutive squares from `sq` on. -/
def placeFrom : Board → Nat → List (Option Spec.Man) → Board
  | b, _, [] => b
  | b, sq, none :: rest => placeFrom b (sq + 1) rest
  | b, sq, some (c, p) :: rest => placeFrom (b.addPiece c p sq) (sq + 1) rest

theorem parseRank_flush (rank : Nat) (run f : Nat) (cs : List Char) (b : Board) (h1 : run ≤ 8) :
    parseRank rank (flushRun run ++ cs) b f = parseRank rank cs b (f + run) := by
  unfold flushRun
  by_cases h0 : run = 0
  · simp [h0]
  · obtain ⟨a, b', c, _⟩ := runDigit_props run (by omega) h1
    simp only [h0, if_false, List.cons_append, List.nil_append]
    rw [parseRank]
    simp only [a, Bool.false_eq_true, if_false, b', and_self, if_true, c]

theorem parseRank_encode (rank : Nat) (hr : rank ≤ 7) (cells : List (Option Spec.Man)) (run f : Nat) (b : Board)
    (h : f + run + cells.length ≤ 8) :
    parseRank rank (encodeCells cells run) b f = some (some (placeFrom b (rank * 8 + (f + run)) cells)) := by
  induction cells generalizing run f b with
  | nil =>
    have := parseRank_flush rank run f [] b (by omega)
    simp only [List.append_nil] at this
    simp only [encodeCells, this, parseRank, placeFrom]
  | cons cell rest ih =>
    cases cell with
    | none =>
      simp only [List.length_cons] at h
      simp only [encodeCells, placeFrom]
      rw [ih (run + 1) f b (by omega)]
      congr 3
    | some m =>
      obtain ⟨c, p⟩ := m
      simp only [List.length_cons] at h
      obtain ⟨h1, h2, h3, _⟩ := pieceChar_props c p
      simp only [encodeCells, placeFrom]
      rw [parseRank_flush rank run f _ b (by omega), parseRank]
      have hsq : rank * 8 + (f + run) < 64 := by omega
      simp only [h1, if_true, hsq, h2, h3]
      rw [ih 0 (f + run + 1) _ (by omega)]
      congr 3

/-- no rank text contains the separator. -/
theorem encodeCells_no_slash (cells : List (Option Spec.Man)) (run : Nat) (h : run + cells.length ≤ 8) :
    ∀ ch ∈ encodeCells cells run, ch ≠ '/' := by
  induction cells generalizing run with
  | nil =>
    intro ch hch
    unfold encodeCells flushRun at hch
    by_cases h0 : run = 0
    · simp [h0] at hch
    · simp only [h0, if_false, List.mem_cons, List.not_mem_nil, or_false] at hch
      subst hch
      exact (runDigit_props run (by omega) (by simpa using h)).2.2.2
  | cons cell rest ih =>
    simp only [List.length_cons] at h
    cases cell with
    | none => exact ih (run + 1) (by omega)
    | some m =>
      obtain ⟨c, p⟩ := m
      intro ch hch
      simp only [encodeCells, List.mem_append, List.mem_cons] at hch
      rcases hch with hch | hch | hch
      · unfold flushRun at hch
        by_cases h0 : run = 0
        · simp [h0] at hch
        · simp only [h0, if_false, List.mem_cons, List.not_mem_nil, or_false] at hch
          subst hch
          exact (runDigit_props run (by omega) (by omega)).2.2.2
      · subst hch; exact (pieceChar_props c p).2.2.2
      · exact ih 0 (by omega) ch hch

theorem cellsFrom_length (g : Nat → Option Spec.Man) (sq n : Nat) : (cellsFrom g sq n).length = n := by
  induction n generalizing sq with
  | zero => rfl
  | succ n ih => simp [cellsFrom, ih]

theorem rankText_no_slash (b : Board) (rank : Nat) : ∀ ch ∈ rankText b rank, ch ≠ '/' :=
  encodeCells_no_slash _ 0 (by rw [cellsFrom_length]; omega)

theorem parseRank_rankText (b : Board) (rank : Nat) (hr : rank ≤ 7) (acc : Board) :
    parseRank rank (rankText b rank) acc 0 =
      some (some (placeFrom acc (rank * 8) (cellsFrom (Spec.absBoard b) (rank * 8) 8))) := by
  unfold rankText
  rw [parseRank_encode rank hr _ 0 0 acc (by rw [cellsFrom_length]; omega)]
  rfl

/-- the board the printed placement parses to: the ranks placed one after the other, rank 8 first. -/
def placedBoard (b : Board) : Board :=
  let g := Spec.absBoard b
  let p (r : Nat) (acc : Board) := placeFrom acc (r * 8) (cellsFrom g (r * 8) 8)
  p 0 (p 1 (p 2 (p 3 (p 4 (p 5 (p 6 (p 7 Board.empty)))))))

theorem parsePlacement_placementText (b : Board) :
    parsePlacement (placementText b) = some (some (placedBoard b)) := by
  unfold parsePlacement placementText
  rw [splitOnChar_joinSlash _ (by simp) (by
    intro r hr
    simp only [List.mem_cons, List.not_mem_nil, or_false] at hr
    rcases hr with rfl | rfl | rfl | rfl | rfl | rfl | rfl | rfl <;> exact rankText_no_slash b _)]
  have hrange : List.range 8 = [0, 1, 2, 3, 4, 5, 6, 7] := by decide
  simp only [List.length_cons, List.length_nil, hrange, List.zip_cons_cons, List.zip_nil_right, List.foldl_cons,
    List.foldl_nil]
  simp only [Nat.reduceAdd, ne_eq, not_true_eq_false, if_false, Nat.reduceSub, Nat.sub_zero]
  rw [parseRank_rankText b 7 (by omega)]; simp only
  rw [parseRank_rankText b 6 (by omega)]; simp only
  rw [parseRank_rankText b 5 (by omega)]; simp only
  rw [parseRank_rankText b 4 (by omega)]; simp only
  rw [parseRank_rankText b 3 (by omega)]; simp only
  rw [parseRank_rankText b 2 (by omega)]; simp only
  rw [parseRank_rankText b 1 (by omega)]; simp only
  rw [parseRank_rankText b 0 (by omega)]
  rfl

end Flounder.Lemmas.FenPlacement
