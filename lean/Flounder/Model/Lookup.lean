/-
  Model of src/lookup.rs: knight / king tables via edge-masked shifts, the two "between" tables,
  `sliding_moves` / `non_sliding_moves` / `between`.
-/
import Flounder.Model.Magic

namespace Flounder
open Gen

/-- `generate_knight_lookup_table()[square]`. -/
def knightAttacksGen (square : Nat) : UInt64 :=
  let b := sqBB square
  shift b (NORTH + NORTH + EAST) ||| shift b (NORTH + NORTH + WEST) |||
  shift b (SOUTH + SOUTH + EAST) ||| shift b (SOUTH + SOUTH + WEST) |||
  shift b (NORTH + WEST + WEST) ||| shift b (NORTH + EAST + EAST) |||
  shift b (SOUTH + WEST + WEST) ||| shift b (SOUTH + EAST + EAST)

/-- `generate_king_lookup_table()[square]`. -/
def kingAttacksGen (square : Nat) : UInt64 :=
  let b := sqBB square
  shift b NORTH ||| shift b SOUTH ||| shift b EAST ||| shift b WEST |||
  shift b (NORTH + EAST) ||| shift b (NORTH + WEST) ||| shift b (SOUTH + EAST) ||| shift b (SOUTH + WEST)

/-- one cell of `generate_inclusive_between_rays_table` (the two `if`s in source order: rook overrides). -/
def inclusiveBetweenGen (m : Magic) (frm to : Nat) : UInt64 :=
  let fromBB := sqBB frm
  let toBB := sqBB to
  let fb := m.getBishopAttacks frm toBB
  let fr := m.getRookAttacks frm toBB
  let tb := m.getBishopAttacks to fromBB
  let tr := m.getRookAttacks to fromBB
  let v : UInt64 := 0
  let v := if fb &&& toBB != 0 then (fb &&& tb) ||| fromBB ||| toBB else v
  if fr &&& toBB != 0 then (fr &&& tr) ||| fromBB ||| toBB else v

/-- one cell of `generate_exclusive_between_rays_table` (whole line through both squares). -/
def exclusiveBetweenGen (m : Magic) (frm to : Nat) : UInt64 :=
  let fromBB := sqBB frm
  let toBB := sqBB to
  let fb := m.getBishopAttacks frm 0
  let fr := m.getRookAttacks frm 0
  let tb := m.getBishopAttacks to 0
  let tr := m.getRookAttacks to 0
  let v : UInt64 := 0
  let v := if fb &&& toBB != 0 then (fb &&& tb) ||| fromBB ||| toBB else v
  if fr &&& toBB != 0 then (fr &&& tr) ||| fromBB ||| toBB else v

/-- `struct LookupTable`. -/
structure LookupTable where
  knight : Array UInt64
  king : Array UInt64
  magic : Magic
  inclusiveBetween : Array (Array UInt64)
  exclusiveBetween : Array (Array UInt64)

/-- `LookupTable::init()`. -/
def LookupTable.init : LookupTable :=
  let magic := Magic.new
  { knight := ((List.range 64).map knightAttacksGen).toArray
    king := ((List.range 64).map kingAttacksGen).toArray
    magic := magic
    inclusiveBetween := ((List.range 64).map fun f => ((List.range 64).map fun t => inclusiveBetweenGen magic f t).toArray).toArray
    exclusiveBetween := ((List.range 64).map fun f => ((List.range 64).map fun t => exclusiveBetweenGen magic f t).toArray).toArray }

namespace LookupTable

/-- `non_sliding_moves(square, piece)`. -/
def nonSlidingMoves (l : LookupTable) (square : Nat) (piece : Piece) : UInt64 :=
  match piece with
  | .knight => l.knight.getD square 0
  | .king => l.king.getD square 0
  | _ => 0

/-- `sliding_moves(square, occupancy, piece)`. -/
def slidingMoves (l : LookupTable) (square : Nat) (occ : UInt64) (piece : Piece) : UInt64 :=
  match piece with
  | .bishop => l.magic.getBishopAttacks square occ
  | .rook => l.magic.getRookAttacks square occ
  | .queen => l.magic.getBishopAttacks square occ ||| l.magic.getRookAttacks square occ
  | _ => 0

/-- `between(from, to, inclusive)`. -/
def between (l : LookupTable) (frm to : Nat) (inclusive : Bool) : UInt64 :=
  if inclusive then (l.inclusiveBetween.getD frm #[]).getD to 0
  else (l.exclusiveBetween.getD frm #[]).getD to 0

end LookupTable
end Flounder
