/-
  Model of `Board::make_move` and its helpers (src/board.rs).  `unwrap()` on `get_piece_at` is a
  model-level panic: `makeMove` returns `none` exactly where the Rust code would panic.
-/
import Flounder.Model.Bitboard

namespace Flounder
open Gen

namespace Castle
/-- `remove_all_rights(color)`. -/
def removeAll (c : Castle) : Color → Castle
  | .white => { c with wk := false, wq := false }
  | .black => { c with bk := false, bq := false }
/-- `remove_side_rights(color, side)`; `kingSide = true` is `Piece::King`, `false` is `Piece::Queen`. -/
def removeSide (c : Castle) (color : Color) (kingSide : Bool) : Castle :=
  match color, kingSide with
  | .white, true => { c with wk := false }
  | .white, false => { c with wq := false }
  | .black, true => { c with bk := false }
  | .black, false => { c with bq := false }
end Castle

namespace Board

/-- the "rook captured on its corner" block shared by the Capture and Promotion branches. -/
def removeCapturedRookRights (b : Board) (color : Color) (dst : Nat) : Board :=
  let (ks, qs) := b.castlingAbility color.other
  let (onK, onQ) := match color with
    | .white => (dst == H8, dst == A8)
    | .black => (dst == H1, dst == A1)
  let b := if onK && ks then { b with castle := b.castle.removeSide color.other true } else b
  if onQ && qs then { b with castle := b.castle.removeSide color.other false } else b

/-- `change_castling_rights(mv)`; `none` = the `unwrap()` on a Capture to an empty square panics. -/
def changeCastlingRights (b : Board) (mv : Move) : Option Board :=
  let color := b.active
  let b := if mv.piece = .king then { b with castle := b.castle.removeAll color } else b
  let b :=
    if mv.piece = .rook then
      let (ks, qs) := b.castlingAbility color
      let (onK, onQ) := match color with
        | .white => (mv.src == H1, mv.src == A1)
        | .black => (mv.src == H8, mv.src == A8)
      let b := if onK && ks then { b with castle := b.castle.removeSide color true } else b
      if onQ && qs then { b with castle := b.castle.removeSide color false } else b
    else b
  let b? : Option Board :=
    if mv.kind = .capture then
      match b.getPieceAt mv.dst with
      | none => none
      | some captured => if captured = .rook then some (b.removeCapturedRookRights color mv.dst) else some b
    else some b
  match b? with
  | none => none
  | some b =>
    if mv.kind = .promotion then
      match b.getPieceAt mv.dst with
      | some .rook => some (b.removeCapturedRookRights color mv.dst)
      | _ => some b
    else some b

/-- `is_double_pawn_push`. -/
def isDoublePawnPush (b : Board) (mv : Move) : Bool :=
  let offset : Int := match b.active with | .white => 16 | .black => -16
  ((mv.src : Int) + offset == (mv.dst : Int)) && mv.piece == .pawn

def makeQuiet (b : Board) (mv : Move) : Board :=
  let color := b.active
  let offset : Int := match color with | .white => 8 | .black => -8
  let b := if b.isDoublePawnPush mv then { b with ep := some ((mv.src : Int) + offset).toNat } else b
  (b.removePiece color mv.piece mv.src).addPiece color mv.piece mv.dst

def makeCapture (b : Board) (mv : Move) : Option Board :=
  let color := b.active
  match b.getPieceAt mv.dst with
  | none => none
  | some captured =>
    some (((b.removePiece color.other captured mv.dst).removePiece color mv.piece mv.src).addPiece color mv.piece mv.dst)

def makeEnPassant (b : Board) (mv : Move) : Board :=
  let color := b.active
  let offset : Int := match color with | .white => 8 | .black => -8
  let capturedSq := ((mv.dst : Int) - offset).toNat
  ((b.removePiece color.other .pawn capturedSq).removePiece color .pawn mv.src).addPiece color .pawn mv.dst

def makeCastle (b : Board) (mv : Move) : Board :=
  let color := b.active
  let kingSide := match color with | .white => G1 == mv.dst | .black => G8 == mv.dst
  let (rookFrom, rookTo) := match kingSide, color with
    | true, .white => (H1, F1) | true, .black => (H8, F8)
    | false, .white => (A1, D1) | false, .black => (A8, D8)
  (((b.removePiece color .king mv.src).addPiece color .king mv.dst).removePiece color .rook rookFrom).addPiece color .rook rookTo

def makePromotion (b : Board) (mv : Move) : Board :=
  let color := b.active
  let b := match b.getPieceAt mv.dst with
    | some piece => b.removePiece color.other piece mv.dst
    | none => b
  (b.removePiece color .pawn mv.src).addPiece color mv.piece mv.dst

/-- `Board::make_move` (`none` = Rust panics on `unwrap`). -/
def makeMove (b : Board) (mv : Move) : Option Board :=
  let b := { b with ep := none }
  match b.changeCastlingRights mv with
  | none => none
  | some b =>
    let b? : Option Board := match mv.kind with
      | .quiet => some (b.makeQuiet mv)
      | .capture => b.makeCapture mv
      | .enPassant => some (b.makeEnPassant mv)
      | .castle => some (b.makeCastle mv)
      | .promotion => some (b.makePromotion mv)
    b?.map fun b => { b with active := b.active.other }

/-- `Board::default()`. -/
def startpos : Board :=
  { pawns := u64 START_PAWN, knights := u64 START_KNIGHT, bishops := u64 START_BISHOP,
    rooks := u64 START_ROOK, queens := u64 START_QUEEN, kings := u64 START_KING,
    white := u64 START_WHITE, black := u64 START_BLACK, active := .white,
    castle := ⟨true, true, true, true⟩, ep := none, halfmove := 0, fullmove := 1 }

end Board
end Flounder
