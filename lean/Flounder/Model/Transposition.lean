/-
  Model of src/transposition.rs.  `std::collections::HashMap<u64, Entry>` is modelled by
  `Std.HashMap UInt64 Entry` (trusted: both behave as a finite map under get/insert).
  `i32 eval` is `Int`, `u8 depth` is `Nat` (no arithmetic is done on either here).
-/
import Std.Data.HashMap
import Flounder.Model.Basic

namespace Flounder

/-- `transposition.rs: enum Bounds`. -/
inductive Bounds where
  | exact | lower | upper
  deriving DecidableEq, Repr, Inhabited, BEq

/-- `transposition.rs: struct Entry`. -/
structure Entry where
  hashKey : UInt64
  eval : Int
  bestMove : Option Move
  depth : Nat
  bounds : Bounds
  deriving DecidableEq, Repr, Inhabited, BEq

/-- `struct TranspositionTable { table: HashMap<u64, Entry> }`. -/
structure TT where
  table : Std.HashMap UInt64 Entry := {}

namespace TT

def new : TT := {}

/-- `TranspositionTable::store`: depth-preferred replacement, exactly the code's three-way condition. -/
def store (t : TT) (hashKey : UInt64) (eval : Int) (bestMove : Option Move) (depth : Nat)
    (bounds : Bounds) : TT :=
  let entry : Entry := { hashKey, eval, bestMove, depth, bounds }
  match t.table[hashKey]? with
  | none => { table := t.table.insert hashKey entry }
  | some prev =>
    if prev.depth ≤ depth then { table := t.table.insert hashKey entry } else t

/-- `TranspositionTable::retrieve`: map lookup guarded by `entry.hash_key == key`. -/
def retrieve (t : TT) (key : UInt64) : Option Entry :=
  match t.table[key]? with
  | some e => if e.hashKey == key then some e else none
  | none => none

end TT
end Flounder
