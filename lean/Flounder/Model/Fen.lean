/-
  Model of src/fen.rs, src/square.rs and `Move::to_algebraic` over `List Char` (so that everything
  reduces in the kernel).  Outcomes: `ok board`, `err` (the parser returned `Err`: `Board::new` prints two
  lines and falls back to the default board), `panic` (an `expect`/`unwrap`/index panics: the process
  aborts), `undef` (behaviour depends on wrapping u8 arithmetic that is not modelled; never reached by
  valid FEN text).
-/
import Flounder.Model.MakeMove
import Flounder.Gen.Fen

namespace Flounder

inductive FenResult where
  | ok (b : Board)
  | err
  | panic
  | undef
  deriving Repr, DecidableEq

/-- `str::split(sep)` on characters. -/
def splitOnChar (sep : Char) : List Char → List (List Char)
  | [] => [[]]
  | c :: cs =>
    match splitOnChar sep cs with
    | [] => [[]]   -- unreachable
    | hd :: tl => if c = sep then [] :: hd :: tl else (c :: hd) :: tl

/-- `char_to_piece` on a piece letter. -/
def charToPiece (c : Char) : Option Piece :=
  match c.toLower with
  | 'p' => some .pawn | 'n' => some .knight | 'b' => some .bishop
  | 'r' => some .rook | 'q' => some .queen | 'k' => some .king | _ => none

/-- `char_to_color`: lowercase is black. -/
def charToColor (c : Char) : Color := if c.isLower then .black else .white

def isPieceLetter (c : Char) : Bool := ['p','n','b','r','q','k','P','N','B','R','Q','K'].contains c

/-- one rank string of the placement field: (board, file) threaded; `none` = invalid character (Err);
    a square index ≥ 64 cannot be shifted in Rust (debug panic / release wrap): `undef`. -/
def parseRank (rank : Nat) : List Char → Board → Nat → Option (Option Board)
  | [], b, _ => some (some b)
  | c :: cs, b, file =>
    if isPieceLetter c then
      let sq := rank * 8 + file
      if sq < 64 then
        match charToPiece c with
        | some p => parseRank rank cs (b.addPiece (charToColor c) p sq) (file + 1)
        | none => none
      else some none
    else if '1' ≤ c ∧ c ≤ '8' then parseRank rank cs b (file + (c.toNat - '0'.toNat))
    else none

/-- `parse_piece_placement`. outer `none` = Err, inner `none` = undef. -/
def parsePlacement (s : List Char) : Option (Option Board) :=
  let ranks := splitOnChar '/' s
  if ranks.length ≠ 8 then none
  else
    (ranks.zip (List.range 8)).foldl (fun acc (r, idx) =>
      match acc with
      | some (some b) => parseRank (7 - idx) r b 0
      | other => other) (some (some Board.empty))

/-- `algebraic_to_square` for text in a..h / 1..8 (anything else depends on wrapping arithmetic). -/
def algebraicToSquare (s : List Char) : Option Nat :=
  match s with
  | f :: r :: _ =>
    if 'a' ≤ f ∧ f ≤ 'h' ∧ '1' ≤ r ∧ r ≤ '8' then some ((r.toNat - '1'.toNat) * 8 + (f.toNat - 'a'.toNat))
    else none
  | _ => none

/-- decimal `str::parse::<uN>()` without sign handling beyond an optional `+`. -/
def parseDec (s : List Char) (bound : Nat) : Option Nat :=
  let body := match s with | '+' :: rest => rest | _ => s
  match body with
  | [] => none
  | _ =>
    if body.all Char.isDigit then
      let n := body.foldl (fun acc c => acc * 10 + (c.toNat - 48)) 0
      if n < bound then some n else none
    else none

/-- `fen_to_board` on the six fields (the caller joined exactly six whitespace-free tokens with spaces). -/
def fenToBoard (fields : List (List Char)) : FenResult :=
  match fields with
  | [placement, active, castling, ep, half, full] =>
    match parsePlacement placement with
    | none => .err
    | some none => .undef
    | some (some b) =>
      match active with
      | [] => .panic
      | c :: _ =>
        if c ≠ 'w' ∧ c ≠ 'b' then .err
        else
          let color := if c = 'w' then Color.white else Color.black
          if castling.length > 4 then .err
          else
            let cs : Castle := ⟨castling.contains 'K', castling.contains 'Q', castling.contains 'k', castling.contains 'q'⟩
            if ep.length > 2 then .err
            else
              match ep with
              | [] => .panic
              | '-' :: _ =>
                finish b color cs none
              | _ =>
                if ep.length < 2 then .panic
                else match algebraicToSquare ep with
                  | some sq => finish b color cs (some sq)
                  | none => .undef
  | _ => .panic
where
  finish (b : Board) (color : Color) (cs : Castle) (epSq : Option Nat) : FenResult :=
    match fields with
    | [_, _, _, _, half, full] =>
      match parseDec half Gen.FEN_HALFMOVE_BOUND, parseDec full Gen.FEN_FULLMOVE_BOUND with
      | some h, some f => .ok { b with active := color, castle := cs, ep := epSq, halfmove := h, fullmove := f }
      | _, _ => .panic
    | _ => .panic

/-- `square_to_algebraic`. -/
def squareToAlgebraic (s : Nat) : List Char :=
  [Char.ofNat ('a'.toNat + s % 8), Char.ofNat ('1'.toNat + s / 8)]

/-- `Move::to_algebraic`. -/
def Move.toAlgebraic (m : Move) : List Char :=
  squareToAlgebraic m.src ++ squareToAlgebraic m.dst ++
    (if m.kind = .promotion then
      match m.piece with
      | .bishop => ['b'] | .knight => ['n'] | .rook => ['r'] | .queen => ['q'] | _ => []
     else [])

end Flounder
