/-
  Model of src/zobrist.rs.  The 837 random keys are a PARAMETER (`ZKeys`): every theorem quantifies over
  all key tables, nothing is assumed about `rand::thread_rng()`.
-/
import Flounder.Model.Bitboard

namespace Flounder

/-- the four key arrays of `struct ZobristTable` as functions. `castle c 0` = king side, `castle c 1` = queen side. -/
structure ZKeys where
  piece : Color → Piece → Nat → UInt64
  whiteToMove : UInt64
  castle : Color → Nat → UInt64
  ep : Nat → UInt64

/-- "Hash pieces": `for color { for piece { for square in bb_iter { hash ^= table_keys[c][p][sq] } } }`. -/
def hashPieces (k : ZKeys) (b : Board) (h : UInt64) : UInt64 :=
  [Color.white, Color.black].foldl (fun h c =>
    Piece.all.foldl (fun h p =>
      (squaresOf (b.bb c p)).foldl (fun h s => h ^^^ k.piece c p s) h) h) h

/-- "Hash castling rights". -/
def hashCastle (k : ZKeys) (b : Board) (h : UInt64) : UInt64 :=
  [Color.white, Color.black].foldl (fun h c =>
    let (ks, qs) := b.castlingAbility c
    let h := if ks then h ^^^ k.castle c 0 else h
    if qs then h ^^^ k.castle c 1 else h) h

/-- `ZobristTable::hash`. -/
def hash (k : ZKeys) (b : Board) : UInt64 :=
  let h := hashPieces k b 0
  let h := hashCastle k b h
  let h := match b.ep with
    | some s => h ^^^ k.ep s
    | none => h
  if b.active = Color.white then h ^^^ k.whiteToMove else h

end Flounder
