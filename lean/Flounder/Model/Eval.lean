/-
  Model of src/eval.rs.  `i32` arithmetic is `Int` (Props/C14 proves every intermediate fits i32 for
  EVERY input, so `Int` is faithful); Rust `/` on i32 truncates toward zero = `Int.tdiv`.
-/
import Flounder.Model.Bitboard
import Flounder.Gen.Eval

namespace Flounder
open Gen

/-- `struct Evaluator` (the accumulators live in the struct between calls). -/
structure Evaluator where
  gamephase : Int := 0
  opening : Int := 0
  endgame : Int := 0
  deriving Repr, DecidableEq

/-- `TABLE[piece_idx][square]` (indices are always in range: piece_idx < 6, square < 64). -/
def pst (tables : List (List Int)) (pieceIdx sq : Nat) : Int := (tables.getD pieceIdx []).getD sq 0

/-- PST square of a bit: white squares are flipped with `^ 56`. `flip` is the literal of that use site. -/
def pstSquare (c : Color) (flip : Nat) (bit : Nat) : Nat :=
  if c = Color.white then bit ^^^ flip else bit

/-- one of the two `for bit in bitboard_iter` loops of `eval_piece_type`: (opening, endgame, count). -/
def sideSums (b : Board) (c : Color) (flip : Nat) (piece : Piece) : Int × Int × Int :=
  let sqs := (squaresOf (b.bb c piece)).map (pstSquare c flip)
  (sqs.foldl (fun acc sq => acc + pst OPENING_TABLES piece.index sq) 0,
   sqs.foldl (fun acc sq => acc + pst ENDGAME_TABLES piece.index sq) 0,
   sqs.foldl (fun acc _ => acc + PHASE_INCREMENTS.getD piece.index 0) 0)

/-- `Evaluator::eval_piece_type`. -/
def evalPieceType (e : Evaluator) (color : Color) (piece : Piece) (b : Board) : Evaluator :=
  let (po, pe, pc) := sideSums b color FLIP_PLAYER piece
  let (oo, oe, oc) := sideSums b color.other FLIP_OPP piece
  { opening := e.opening + (po - oo), endgame := e.endgame + (pe - oe), gamephase := e.gamephase + (pc + oc) }

/-- the accumulators after `reset()` and the six `eval_piece_type` calls. -/
def accumulate (b : Board) : Evaluator :=
  Piece.all.foldl (fun e p => evalPieceType e b.active p b) {}

/-- the tapered result computed from the accumulators. -/
def taper (e : Evaluator) : Int :=
  let openingPhase := min e.gamephase PHASE_CAP
  let endgamePhase := PHASE_TOTAL - openingPhase
  (e.opening * openingPhase + e.endgame * endgamePhase).tdiv PHASE_DIV

/-- `Evaluator::evaluate(&mut self, board)`: returns the score and the mutated evaluator. The incoming
    evaluator state `_e` is overwritten by `reset()` before anything is read. -/
def evaluate (_e : Evaluator) (b : Board) : Int × Evaluator :=
  let e := accumulate b
  (taper e, e)

/-- the score as a function of the board alone. -/
def evalFn (b : Board) : Int := taper (accumulate b)

end Flounder
