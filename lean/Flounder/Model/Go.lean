/-
  Model of `handle_go_command` / `calculate_move_time` of src/uci.rs (token loops with the same index
  arithmetic, including the `i += 8` skip and the rescans).  `u64` milliseconds are `Nat`; the only
  arithmetic is `saturating_sub`, `/`, `+`; `base + increment` overflows u64 only above 2^63 ms
  (modelled by `goOverflows`, proved impossible below that in Props/C12).
-/
import Flounder.Model.Basic
import Flounder.Gen.Uci

namespace Flounder
open Gen

/-- a whitespace-separated token of a command line, as its characters (`List Char` so that every
    function here is structurally recursive and reduces in the kernel). -/
abbrev Tok := List Char

def kwDepth : Tok := ['d','e','p','t','h']
def kwMovetime : Tok := ['m','o','v','e','t','i','m','e']
def kwWtime : Tok := ['w','t','i','m','e']
def kwBtime : Tok := ['b','t','i','m','e']
def kwWinc : Tok := ['w','i','n','c']
def kwBinc : Tok := ['b','i','n','c']
def kwInfinite : Tok := ['i','n','f','i','n','i','t','e']
def kwGo : Tok := ['g','o']

/-- decimal value of a digit string (no sign), `none` if a non-digit occurs. -/
def digitsVal : List Char → Nat → Option Nat
  | [], acc => some acc
  | c :: cs, acc => if c.isDigit then digitsVal cs (acc * 10 + (c.toNat - 48)) else none

/-- `str::parse::<u64>()`: ASCII digits, an optional leading `+`, non-empty, value < 2^64. -/
def parseU64 (s : Tok) : Option Nat :=
  let body := match s with
    | '+' :: rest => rest
    | _ => s
  match body with
  | [] => none
  | _ => match digitsVal body 0 with
    | some n => if n < 2^64 then some n else none
    | none => none

/-- `str::parse::<u8>()`. -/
def parseU8 (s : Tok) : Option Nat :=
  match parseU64 s with
  | some n => if n < 256 then some n else none
  | none => none

/-- the four clock values collected by the scan loop of `calculate_move_time`. -/
structure Clocks where
  wtime : Nat := 0
  btime : Nat := 0
  winc : Nat := 0
  binc : Nat := 0
  deriving Repr, DecidableEq

/-- the `while i < parts.len()` loop of `calculate_move_time`, from index `i`, with fuel. -/
def scanClocks : Nat → List Tok → Nat → Clocks → Clocks
  | 0, _, _, c => c
  | fuel + 1, parts, i, c =>
    if i < parts.length then
      let tok := parts.getD i []
      let val := if i + 1 < parts.length then some ((parseU64 (parts.getD (i + 1) [])).getD 0) else none
      if tok = kwWtime then scanClocks fuel parts (i + 2) (match val with | some v => { c with wtime := v } | none => c)
      else if tok = kwBtime then scanClocks fuel parts (i + 2) (match val with | some v => { c with btime := v } | none => c)
      else if tok = kwWinc then scanClocks fuel parts (i + 2) (match val with | some v => { c with winc := v } | none => c)
      else if tok = kwBinc then scanClocks fuel parts (i + 2) (match val with | some v => { c with binc := v } | none => c)
      else scanClocks fuel parts (i + 1) c
    else c

/-- the allocation formula:
    `((time_left.saturating_sub(reserve)) / 25 + increment).min(time_left.saturating_sub(1))`. -/
def allocate (timeLeft increment : Nat) : Nat :=
  min ((timeLeft - GO_RESERVE) / GO_DIVISOR + increment) (timeLeft - GO_MARGIN)

/-- `calculate_move_time(parts, start_idx)` in milliseconds. -/
def calculateMoveTime (active : Color) (parts : List Tok) (startIdx : Nat) : Nat :=
  let c := scanClocks (parts.length + 1) parts startIdx {}
  match active with
  | .white => allocate c.wtime c.winc
  | .black => allocate c.btime c.binc

/-- parsed parameters of a `go` command: (depth, time limit in ms). -/
structure GoParams where
  depth : Nat
  timeLimit : Option Nat
  deriving Repr, DecidableEq

/-- the `while i < parts.len()` loop of `handle_go_command`. -/
def goLoop (active : Color) : Nat → List Tok → Nat → GoParams → GoParams
  | 0, _, _, g => g
  | fuel + 1, parts, i, g =>
    if i < parts.length then
      let tok := parts.getD i []
      if tok = kwDepth then
        if i + 1 < parts.length then
          match parseU8 (parts.getD (i + 1) []) with
          | some d => goLoop active fuel parts (i + 2) { g with depth := min d GO_DEPTH_CAP }
          | none => goLoop active fuel parts (i + 2) g
        else goLoop active fuel parts (i + 1) g
      else if tok = kwMovetime then
        if i + 1 < parts.length then
          match parseU64 (parts.getD (i + 1) []) with
          | some ms => goLoop active fuel parts (i + 2) { g with timeLimit := some ms }
          | none => goLoop active fuel parts (i + 2) g
        else goLoop active fuel parts (i + 1) g
      else if tok = kwWtime ∨ tok = kwBtime ∨ tok = kwWinc ∨ tok = kwBinc then
        goLoop active fuel parts (i + GO_CLOCK_SKIP) { g with timeLimit := some (calculateMoveTime active parts i) }
      else if tok = kwInfinite then
        goLoop active fuel parts (i + 1) { depth := GO_INFINITE_DEPTH, timeLimit := none }
      else goLoop active fuel parts (i + 1) g
    else g

/-- parameters handed to `find_best_move` by `handle_go_command(parts)` (`parts[0]` = "go"). -/
def goParams (active : Color) (parts : List Tok) : GoParams :=
  goLoop active (parts.length + 1) parts 1 { depth := GO_DEFAULT_DEPTH, timeLimit := none }

end Flounder
