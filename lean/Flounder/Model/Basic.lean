/-
  Basic data types of the engine, mirroring src/pieces.rs, src/moves.rs, src/board.rs.
  Import-free (core Lean only) so the driver executable links.
-/
namespace Flounder

/-- `pieces.rs: enum Piece` (same order, `index()` = constructor index). -/
inductive Piece where
  | pawn | knight | bishop | rook | queen | king
  deriving DecidableEq, Repr, Inhabited, BEq

/-- `pieces.rs: enum Color`. -/
inductive Color where
  | white | black
  deriving DecidableEq, Repr, Inhabited, BEq

/-- `moves.rs: enum MoveType`. -/
inductive MoveType where
  | quiet | capture | enPassant | castle | promotion
  deriving DecidableEq, Repr, Inhabited, BEq

namespace Piece
def index : Piece → Nat
  | pawn => 0 | knight => 1 | bishop => 2 | rook => 3 | queen => 4 | king => 5

def ofIndex : Nat → Piece
  | 0 => pawn | 1 => knight | 2 => bishop | 3 => rook | 4 => queen | _ => king

/-- `PieceIterator` order. -/
def all : List Piece := [pawn, knight, bishop, rook, queen, king]

/-- `PromotionPieceIterator` order: knight, bishop, rook, queen. -/
def promotions : List Piece := [knight, bishop, rook, queen]
end Piece

namespace Color
def index : Color → Nat
  | white => 0 | black => 1

/-- `impl Not for Color`. -/
def other : Color → Color
  | white => black | black => white

@[simp] theorem other_other (c : Color) : c.other.other = c := by cases c <;> rfl
@[simp] theorem other_ne (c : Color) : c.other ≠ c := by cases c <;> decide
end Color

/-- `moves.rs: struct Move`. `src`/`dst` are the Rust fields `from`/`to` (`from` is a Lean keyword).
    Squares are `Nat` (Rust `u8`); every use site carries a `< 64` side condition in the theorems. -/
structure Move where
  src : Nat
  dst : Nat
  piece : Piece
  kind : MoveType
  deriving DecidableEq, Repr, Inhabited, BEq

/-- `board.rs: struct Castle`. -/
structure Castle where
  wk : Bool
  wq : Bool
  bk : Bool
  bq : Bool
  deriving DecidableEq, Repr, Inhabited, BEq

/-- `board.rs: struct Board` with `Position` inlined: six piece bitboards, two colour bitboards. -/
structure Board where
  pawns : UInt64
  knights : UInt64
  bishops : UInt64
  rooks : UInt64
  queens : UInt64
  kings : UInt64
  white : UInt64
  black : UInt64
  active : Color
  castle : Castle
  ep : Option Nat
  halfmove : Nat
  fullmove : Nat
  deriving DecidableEq, Repr, Inhabited, BEq

namespace Board

/-- `Position::bb_piece`. -/
def bbPiece (b : Board) : Piece → UInt64
  | .pawn => b.pawns | .knight => b.knights | .bishop => b.bishops
  | .rook => b.rooks | .queen => b.queens | .king => b.kings

/-- `Position::bb_color`. -/
def bbColor (b : Board) : Color → UInt64
  | .white => b.white | .black => b.black

/-- `Position::bb`. -/
def bb (b : Board) (c : Color) (p : Piece) : UInt64 := b.bbPiece p &&& b.bbColor c

def bbAll (b : Board) : UInt64 := b.white ||| b.black
def bbEmpty (b : Board) : UInt64 := ~~~(b.white ||| b.black)

/-- `Board::castling_ability(color)` = (king side, queen side). -/
def castlingAbility (b : Board) : Color → Bool × Bool
  | .white => (b.castle.wk, b.castle.wq)
  | .black => (b.castle.bk, b.castle.bq)

def setPiece (b : Board) (p : Piece) (v : UInt64) : Board :=
  match p with
  | .pawn => { b with pawns := v } | .knight => { b with knights := v }
  | .bishop => { b with bishops := v } | .rook => { b with rooks := v }
  | .queen => { b with queens := v } | .king => { b with kings := v }

def setColor (b : Board) (c : Color) (v : UInt64) : Board :=
  match c with
  | .white => { b with white := v } | .black => { b with black := v }

end Board

/-- `Bitboard::square_to_bitboard` : `1 << square` (callers guarantee `square < 64`). -/
@[inline] def sqBB (s : Nat) : UInt64 := (1 : UInt64) <<< s.toUInt64

/-- bit test: square `s` is a member of bitboard `bb`. -/
@[inline] def hasSq (bb : UInt64) (s : Nat) : Bool := bb &&& sqBB s != 0

/-- `set_bit`. -/
@[inline] def setBit (bb : UInt64) (s : Nat) : UInt64 := bb ||| sqBB s
/-- `remove_bit`. -/
@[inline] def removeBit (bb : UInt64) (s : Nat) : UInt64 := bb &&& ~~~(sqBB s)

namespace Board
/-- `Position::add_piece`. -/
def addPiece (b : Board) (c : Color) (p : Piece) (s : Nat) : Board :=
  (b.setColor c (setBit (b.bbColor c) s)).setPiece p (setBit (b.bbPiece p) s)

/-- `Position::remove_piece`. -/
def removePiece (b : Board) (c : Color) (p : Piece) (s : Nat) : Board :=
  (b.setColor c (removeBit (b.bbColor c) s)).setPiece p (removeBit (b.bbPiece p) s)

/-- `Board::get_piece_at`: first piece type (in `PieceIterator` order) whose board has the bit. -/
def getPieceAt (b : Board) (s : Nat) : Option Piece :=
  Piece.all.find? fun p => hasSq (b.bbPiece p) s

/-- `Board::get_color_at`. -/
def getColorAt (b : Board) (s : Nat) : Option Color :=
  [Color.white, Color.black].find? fun c => hasSq (b.bbColor c) s

/-- `Position::new()` + default flags of an otherwise empty board (used by FEN parsing). -/
def empty : Board :=
  { pawns := 0, knights := 0, bishops := 0, rooks := 0, queens := 0, kings := 0,
    white := 0, black := 0, active := .white, castle := ⟨false, false, false, false⟩,
    ep := none, halfmove := 0, fullmove := 1 }
end Board

end Flounder
