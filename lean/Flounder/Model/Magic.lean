/-
  Model of src/magic.rs: ray-walk mask generators (the `while` loops with their own loop conditions),
  `generate_occupancy_board`, `init_slider_attacks` (table build, last write wins) and the two lookups
  (`&` mask, wrapping `*` magic, `>>` (64 - bits), index).  Magics / relevant bits / table sizes are
  GENERATED from the source.
-/
import Flounder.Model.Bitboard
import Flounder.Gen.Magic

namespace Flounder
open Gen

/-- one `while cond(r,f) { mask |= bb(r,f); if block && blockers & bb != 0 { break }; r += dr; f += df }`. -/
def walkRay (cond : Int → Int → Bool) (dr df : Int) (blockers : UInt64) (block : Bool) :
    Nat → Int → Int → UInt64 → UInt64
  | 0, _, _, mask => mask
  | fuel + 1, r, f, mask =>
    if cond r f then
      let sq := sqBB (r * 8 + f).toNat
      let mask := mask ||| sq
      if block && (blockers &&& sq != 0) then mask
      else walkRay cond dr df blockers block fuel (r + dr) (f + df) mask
    else mask

/-- `generate_rook_attack_mask` (loop conditions exactly as written in the source). -/
def rookAttackMask (square : Nat) (blockers : UInt64) (block : Bool) : UInt64 :=
  let rank : Int := square / 8
  let file : Int := square % 8
  let m := walkRay (fun r _ => r ≥ 0) (-1) 0 blockers block 8 (rank - 1) file 0
  let m := walkRay (fun _ f => f ≥ 0) 0 (-1) blockers block 8 rank (file - 1) m
  let m := walkRay (fun r f => f ≥ 0 && r < 8) 1 0 blockers block 8 (rank + 1) file m
  let m := walkRay (fun r f => f < 8 && r < 8) 0 1 blockers block 8 rank (file + 1) m
  if !block then m &&& ~~~(edgeMask (square / 8) (square % 8)) else m

/-- `generate_bishop_attack_mask`. -/
def bishopAttackMask (square : Nat) (blockers : UInt64) (block : Bool) : UInt64 :=
  let rank : Int := square / 8
  let file : Int := square % 8
  let m := walkRay (fun r f => f ≥ 0 && r ≥ 0) (-1) (-1) blockers block 8 (rank - 1) (file - 1) 0
  let m := walkRay (fun r f => f < 8 && r ≥ 0) (-1) 1 blockers block 8 (rank - 1) (file + 1) m
  let m := walkRay (fun r f => f ≥ 0 && r < 8) 1 (-1) blockers block 8 (rank + 1) (file - 1) m
  let m := walkRay (fun r f => f < 8 && r < 8) 1 1 blockers block 8 (rank + 1) (file + 1) m
  if !block then m &&& ~~~(edgeMask (square / 8) (square % 8)) else m

/-- `generate_attack_mask(piece, ..)`: bishop for `Piece::Bishop`, rook otherwise. -/
def attackMask (bishop : Bool) (square : Nat) (blockers : UInt64) (block : Bool) : UInt64 :=
  if bishop then bishopAttackMask square blockers block else rookAttackMask square blockers block

/-- `generate_occupancy_board(index, attack_mask)`: the `index`-th subset of the mask's bits. -/
def occupancyBoard (index : Nat) (attackMask : UInt64) : UInt64 :=
  ((List.range 64).foldl (fun (acc : UInt64 × Nat) sq =>
    if attackMask &&& sqBB sq != 0 then
      (if index &&& (1 <<< acc.2) == 0 then acc.1 &&& ~~~(sqBB sq) else acc.1, acc.2 + 1)
    else acc) (attackMask, 0)).1

def relevantBits (bishop : Bool) (sq : Nat) : Nat :=
  if bishop then BISHOP_RELEVANT_BITS.getD sq 0 else ROOK_RELEVANT_BITS.getD sq 0
def magicOf (bishop : Bool) (sq : Nat) : UInt64 :=
  u64 (if bishop then BISHOP_MAGICS.getD sq 0 else ROOK_MAGICS.getD sq 0)
def tableSize (bishop : Bool) : Nat := if bishop then BISHOP_TABLE_SIZE else ROOK_TABLE_SIZE

/-- the magic index: `(occ.wrapping_mul(magic)) >> (64 - bits)`. -/
def magicIndex (bishop : Bool) (sq : Nat) (occ : UInt64) : Nat :=
  ((occ * magicOf bishop sq) >>> (64 - relevantBits bishop sq).toUInt64).toNat

/-- the per-square table built by `init_slider_attacks`: `vec![0; size]`, then for `i in 0..1<<bits`
    write `table[magic_index(occupancy_i)] = walk(occupancy_i)` (later writes overwrite). An
    out-of-range index would panic in Rust; here it is dropped (`Array.setIfInBounds`) and
    Props/C10 proves it never happens for the constants in the source. -/
def buildSquareTable (bishop : Bool) (sq : Nat) : Array UInt64 :=
  let mask := attackMask bishop sq 0 false
  (List.range (1 <<< relevantBits bishop sq)).foldl (fun (t : Array UInt64) i =>
    let occ := occupancyBoard i mask
    t.setIfInBounds (magicIndex bishop sq occ) (attackMask bishop sq occ true))
    (Array.replicate (tableSize bishop) 0)

/-- `struct Magic` (masks and attack tables for both pieces). -/
structure Magic where
  rookMasks : Array UInt64
  bishopMasks : Array UInt64
  rookAttacks : Array (Array UInt64)
  bishopAttacks : Array (Array UInt64)

/-- `Magic::new()`. -/
def Magic.new : Magic :=
  { rookMasks := ((List.range 64).map fun s => attackMask false s 0 false).toArray
    bishopMasks := ((List.range 64).map fun s => attackMask true s 0 false).toArray
    rookAttacks := ((List.range 64).map fun s => buildSquareTable false s).toArray
    bishopAttacks := ((List.range 64).map fun s => buildSquareTable true s).toArray }

/-- `get_bishop_attacks`. -/
def Magic.getBishopAttacks (m : Magic) (sq : Nat) (occ : UInt64) : UInt64 :=
  let occ := occ &&& m.bishopMasks.getD sq 0
  (m.bishopAttacks.getD sq #[]).getD (magicIndex true sq occ) 0

/-- `get_rook_attacks`. -/
def Magic.getRookAttacks (m : Magic) (sq : Nat) (occ : UInt64) : UInt64 :=
  let occ := occ &&& m.rookMasks.getD sq 0
  (m.rookAttacks.getD sq #[]).getD (magicIndex false sq occ) 0

end Flounder
