/-
  Model of src/bitboard.rs: constants (generated), `shift`, the edge mask, and `BitboardIterator`.
-/
import Flounder.Model.Basic
import Flounder.Gen.Bitboard

namespace Flounder
open Gen

def u64 (n : Nat) : UInt64 := n.toUInt64

def FILE_A' : UInt64 := u64 FILE_A
def FILE_B' : UInt64 := u64 FILE_B
def FILE_G' : UInt64 := u64 FILE_G
def FILE_H' : UInt64 := u64 FILE_H

/-- `shift_left`: `checked_shl(i).unwrap_or(0)`. -/
def shiftLeft (bb : UInt64) (i : Nat) : UInt64 := if i < 64 then bb <<< i.toUInt64 else 0
/-- `shift_right`: `checked_shr(i).unwrap_or(0)`. -/
def shiftRight (bb : UInt64) (i : Nat) : UInt64 := if i < 64 then bb >>> i.toUInt64 else 0

/-- `BitboardOperations::shift(dir)`: the if-chain of bitboard.rs, in the same order, on `i8` directions. -/
def shift (bb : UInt64) (dir : Int) : UInt64 :=
  if dir = NORTH then shiftLeft bb 8
  else if dir = SOUTH then shiftRight bb 8
  else if dir = EAST then shiftLeft (bb &&& ~~~FILE_H') 1
  else if dir = WEST then shiftRight (bb &&& ~~~FILE_A') 1
  else if dir = NORTH + EAST then shiftLeft (bb &&& ~~~FILE_H') 9
  else if dir = NORTH + WEST then shiftLeft (bb &&& ~~~FILE_A') 7
  else if dir = SOUTH + EAST then shiftRight (bb &&& ~~~FILE_H') 7
  else if dir = SOUTH + WEST then shiftRight (bb &&& ~~~FILE_A') 9
  else if dir = NORTH + NORTH + EAST then shiftLeft (bb &&& ~~~FILE_H') 17
  else if dir = NORTH + NORTH + WEST then shiftLeft (bb &&& ~~~FILE_A') 15
  else if dir = SOUTH + SOUTH + EAST then shiftRight (bb &&& ~~~FILE_H') 15
  else if dir = SOUTH + SOUTH + WEST then shiftRight (bb &&& ~~~FILE_A') 17
  else if dir = NORTH + EAST + EAST then shiftLeft (bb &&& ~~~(FILE_G' ||| FILE_H')) 10
  else if dir = NORTH + WEST + WEST then shiftLeft (bb &&& ~~~(FILE_A' ||| FILE_B')) 6
  else if dir = SOUTH + EAST + EAST then shiftRight (bb &&& ~~~(FILE_G' ||| FILE_H')) 6
  else if dir = SOUTH + WEST + WEST then shiftRight (bb &&& ~~~(FILE_A' ||| FILE_B')) 10
  else if dir > 0 then shiftLeft bb dir.toNat
  else shiftRight bb (-dir).toNat

/-- `rank_file_to_edge_mask`. -/
def edgeMask (rank file : Nat) : UInt64 :=
  (match rank with
   | 0 => u64 RANK_8
   | 7 => u64 RANK_1
   | _ => u64 RANK_1 ||| u64 RANK_8) |||
  (match file with
   | 0 => u64 FILE_H
   | 7 => u64 FILE_A
   | _ => u64 FILE_A ||| u64 FILE_H)

/-- `BitboardIterator`: the set bits in ascending order (what the lsb-extraction loop yields;
    `Lemmas/BitIter.lean` proves the loop model `bitIterLoop` equal to this). -/
def squaresOf (bb : UInt64) : List Nat := (List.range 64).filter (hasSq bb)

/-- `u64::trailing_zeros` (64 for 0). -/
def trailingZeros (bb : UInt64) : Nat := ((List.range 64).find? (hasSq bb)).getD 64

/-- `u64::count_ones`. -/
def countOnes (bb : UInt64) : Nat := (squaresOf bb).length

/-- faithful loop model of `BitboardIterator::next`: `lsb = bb & (!bb + 1)`, yield its index, `bb ^= lsb`. -/
def bitIterLoop : Nat → UInt64 → List Nat
  | 0, _ => []
  | fuel + 1, bb =>
    if bb == 0 then [] else
      let lsb := bb &&& (~~~bb + 1)
      trailingZeros lsb :: bitIterLoop fuel (bb ^^^ lsb)

end Flounder
