/-
  Model of src/search.rs (+ killer_moves.rs, history.rs, repetition.rs, timer.rs' node counter and
  `should_stop`), statement by statement, GENERIC over an abstract game so that the soundness theorems
  need no chess.  The chess instance is `chessGame` at the end of Model/Engine.lean.

  Time: `should_stop()` is an oracle.  `Limit.polls n` makes the (n+1)-th poll and every later one
  return true — every way a monotone clock can interleave with the search; `Limit.nodes n` is the
  node-budget deadline of the harness hook.  Scores are `Int` (range lemmas in Props/C05*).
  Quiescence takes fuel and reports `none` when it runs out (never a default value).
-/
import Flounder.Model.Transposition
import Flounder.Gen.Search

namespace Flounder
open Gen

/-- what the search needs from the game. `P` = positions; moves are the engine's `Move`. -/
structure Game (P : Type) where
  moves : P → List Move            -- generate_moves, in generation order
  qmoves : P → List Move           -- generate_quiescence_moves
  play : P → Move → P              -- clone_with_move
  inCheck : P → Bool               -- is_in_check
  eval : P → Int                   -- evaluator.evaluate
  hash : P → UInt64                -- zobrist.hash
  pieceAt : P → Nat → Option Piece -- board.get_piece_at

/-- deadline oracle. -/
inductive Limit where
  | none
  | nodes (n : Nat)   -- should_stop() = nodes_searched >= n   (hook `verif_node_limit`)
  | polls (n : Nat)   -- the first n polls return false, all later ones true
  deriving Repr, DecidableEq

/-- `struct SearchResult`. -/
structure SearchResult where
  score : Int
  bestMove : Option Move
  deriving Repr, DecidableEq, Inhabited

/-- mutable state of `struct Searcher` (tables, stacks, counters). -/
structure SearchState where
  tt : TT := {}
  killers : Array (Array (Option Move)) := Array.replicate MAX_DEPTH (Array.replicate KILLERS_PER_PLY none)
  history : Array Int := Array.replicate 4096 0
  rep : List UInt64 := []          -- RepetitionTable.hashes, most recent FIRST
  nodes : Nat := 0                 -- timer.nodes_searched
  polls : Nat := 0
  limit : Limit := .none
  stopSeen : Bool := false         -- some poll has returned true
  nodesAfterStop : Nat := 0        -- nodes entered after the first true poll
  deeperHits : Nat := 0            -- probes that returned a result from an entry deeper than requested
  sameDepthHits : Nat := 0
  info : List (Nat × Int × Nat × Option Move) := []   -- print_info lines, newest first: depth, score, nodes, pv

namespace SearchState

/-- `timer.should_stop()` (the poll counter and `stopSeen` are instrumentation, mirrored by the hook). -/
def shouldStop (s : SearchState) : Bool × SearchState :=
  let stop := match s.limit with
    | .none => false
    | .nodes n => decide (s.nodes ≥ n)
    | .polls n => decide (s.polls ≥ n)
  (stop, { s with polls := s.polls + 1, stopSeen := s.stopSeen || stop })

/-- `timer.increment_nodes()`. -/
def incrementNodes (s : SearchState) : SearchState :=
  { s with nodes := s.nodes + 1, nodesAfterStop := if s.stopSeen then s.nodesAfterStop + 1 else s.nodesAfterStop }

/-- `RepetitionTable::is_repetition`: at least two occurrences on the stack. -/
def isRepetition (s : SearchState) (h : UInt64) : Bool := (s.rep.filter (· == h)).length ≥ 2

/-- `KillerMoves::store`. -/
def storeKiller (s : SearchState) (mv : Move) (ply : Nat) : SearchState :=
  if ply < MAX_DEPTH then
    let row := s.killers.getD ply #[]
    if row.getD 0 none == some mv then s
    else
      -- shift_and_insert: for i in (1..KILLERS_PER_PLY).rev() { row[i] = row[i-1] }; row[0] = mv
      let row' := (List.range KILLERS_PER_PLY).foldr (fun i (r : Array (Option Move)) =>
        if i = 0 then r else r.setIfInBounds i (row.getD (i - 1) none)) row
      { s with killers := s.killers.setIfInBounds ply (row'.setIfInBounds 0 (some mv)) }
  else s

/-- `KillerMoves::is_killer`. -/
def isKiller (s : SearchState) (mv : Move) (ply : Nat) : Bool :=
  ply < MAX_DEPTH && (s.killers.getD ply #[]).contains (some mv)

def i32Max : Int := 2147483647

/-- `HistoryTable::record_cutoff`: `saturating_add(depth * depth)`. -/
def recordCutoff (s : SearchState) (mv : Move) (depth : Nat) : SearchState :=
  let i := mv.src * 64 + mv.dst
  let v := s.history.getD i 0 + (depth : Int) * (depth : Int)
  { s with history := s.history.setIfInBounds i (if v > i32Max then i32Max else v) }

/-- `HistoryTable::get_score`. -/
def historyScore (s : SearchState) (mv : Move) : Int := s.history.getD (mv.src * 64 + mv.dst) 0

/-- `HistoryTable::age`: every score `/= 2`. -/
def ageHistory (s : SearchState) : SearchState := { s with history := s.history.map (fun v => v.tdiv 2) }

end SearchState

section generic
variable {P : Type} (G : Game P)

/-- `calculate_capture_score`: `MVV_LVA_SCORES[victim][attacker]`, `None` if either square is empty. -/
def captureScore (p : P) (mv : Move) : Option Int :=
  match G.pieceAt p mv.src, G.pieceAt p mv.dst with
  | some attacker, some victim => some ((MVV_LVA_SCORES.getD victim.index []).getD attacker.index 0)
  | _, _ => none

/-- the sort key of `order_moves`. -/
def orderKey (s : SearchState) (p : P) (ttMove : Option Move) (ply : Nat) (mv : Move) : Int :=
  if ttMove = some mv then ORDER_TT
  else
    match (if mv.kind = .capture ∨ mv.kind = .enPassant then captureScore G p mv else none) with
    | some score => -score - ORDER_CAPTURE_BASE
    | none =>
      if s.isKiller mv ply then ORDER_KILLER
      else if mv.kind = .promotion then ORDER_PROMO
      else if mv.kind = .quiet then -(s.historyScore mv)
      else 0

/-- `order_moves`: `sort_by_cached_key` is a STABLE sort; so is `List.mergeSort`. -/
def orderMoves (s : SearchState) (p : P) (ms : List Move) (ttMove : Option Move) (ply : Nat) : List Move :=
  ms.mergeSort fun a b => decide (orderKey G s p ttMove ply a ≤ orderKey G s p ttMove ply b)

/-- the sort key of `order_captures`. -/
def captureKey (p : P) (mv : Move) : Int :=
  if mv.kind = .enPassant then ORDER_EP_Q
  else match captureScore G p mv with
    | some score => -score
    | none => 0

def orderCaptures (p : P) (ms : List Move) : List Move :=
  ms.mergeSort fun a b => decide (captureKey G p a ≤ captureKey G p b)

/-- `determine_bound`. -/
def determineBound (score originalAlpha beta : Int) : Bounds :=
  if score ≤ originalAlpha then .upper else if score ≥ beta then .lower else .exact

/-- `probe_transposition_table`: returns (cached result if usable, tt move for ordering, state with counters). -/
def probeTT (s : SearchState) (p : P) (depth : Nat) (alpha beta : Int) :
    Option SearchResult × Option Move × SearchState :=
  match s.tt.retrieve (G.hash p) with
  | none => (none, none, s)
  | some entry =>
    if entry.depth < depth then (none, entry.bestMove, s)
    else
      let count (s : SearchState) : SearchState :=
        if entry.depth > depth then { s with deeperHits := s.deeperHits + 1 }
        else { s with sameDepthHits := s.sameDepthHits + 1 }
      match entry.bounds with
      | .exact => (some ⟨entry.eval, entry.bestMove⟩, entry.bestMove, count s)
      | .lower =>
        if max alpha entry.eval ≥ beta then (some ⟨entry.eval, entry.bestMove⟩, entry.bestMove, count s)
        else (none, entry.bestMove, s)
      | .upper =>
        if alpha ≥ min beta entry.eval then (some ⟨entry.eval, entry.bestMove⟩, entry.bestMove, count s)
        else (none, entry.bestMove, s)

/-- the `for mv in moves` loop of `search_until_quiet`; `rec` is the recursive call (one fuel less).
    Returns `none` when the recursion ran out of fuel. -/
def quiesceLoop (rec : P → Int → Int → SearchState → Option Int × SearchState)
    (p : P) (beta : Int) : List Move → Int → SearchState → Option Int × SearchState
  | [], alpha, s => (some alpha, s)
  | mv :: rest, alpha, s =>
    let (stop, s) := s.shouldStop
    if stop then (some alpha, s)
    else
      match rec (G.play p mv) (-beta) (-alpha) s with
      | (none, s) => (none, s)
      | (some v, s) =>
        let score := -v
        if score ≥ beta then (some beta, s)
        else quiesceLoop rec p beta rest (max alpha score) s

/-- `search_until_quiet`. -/
def quiesce : Nat → P → Int → Int → SearchState → Option Int × SearchState
  | 0, _, _, _, s => (none, s)
  | fuel + 1, p, alpha, beta, s =>
    let s := s.incrementNodes
    let inCheck := G.inCheck p
    let moves := if inCheck then G.moves p else G.qmoves p
    let moves := orderCaptures G p moves
    if moves.isEmpty && inCheck then (some (-CHECKMATE_SCORE), s)
    else
      let standPat := G.eval p
      if standPat ≥ beta then (some beta, s)
      else quiesceLoop G (quiesce fuel) p beta moves (max alpha standPat) s

/-- accumulator of the `for current_move in moves` loop of `negamax`. -/
structure LoopAcc where
  alpha : Int
  best : SearchResult

/-- the move loop of `negamax`; `rec` is `negamax (depth-1)`. `none` = out of quiescence fuel below. -/
def negamaxLoop (rec : P → Nat → Int → Int → SearchState → Option SearchResult × SearchState)
    (p : P) (depth ply : Nat) (beta : Int) :
    List Move → LoopAcc → SearchState → Option LoopAcc × SearchState
  | [], acc, s => (some acc, s)
  | mv :: rest, acc, s =>
    let (stop, s) := s.shouldStop
    if stop then (some acc, s)
    else
      match rec (G.play p mv) (ply + 1) (-beta) (-acc.alpha) s with
      | (none, s) => (none, s)
      | (some r, s) =>
        let score := -r.score
        let best := if score > acc.best.score then ⟨score, some mv⟩ else acc.best
        let alpha := max acc.alpha score
        if alpha ≥ beta then
          let s := if mv.kind = .quiet then (s.storeKiller mv ply).recordCutoff mv depth else s
          (some ⟨alpha, best⟩, s)
        else negamaxLoop rec p depth ply beta rest ⟨alpha, best⟩ s

/-- `negamax(board, depth, ply, alpha, beta, context)`; `qfuel` bounds the quiescence recursion. -/
def negamax (qfuel : Nat) : Nat → P → Nat → Int → Int → SearchState → Option SearchResult × SearchState
  | depth, p, ply, alpha, beta, s =>
    let s := s.incrementNodes
    let originalAlpha := alpha
    if ply > 0 && s.isRepetition (G.hash p) then (some ⟨0, none⟩, s)
    else
      match probeTT G s p depth alpha beta with
      | (some cached, _, s) => (some cached, s)
      | (none, ttMove, s) =>
        match depth with
        | 0 =>
          match quiesce G qfuel p alpha beta s with
          | (none, s) => (none, s)
          | (some v, s) => (some ⟨v, none⟩, s)
        | d + 1 =>
          let moves := G.moves p
          match moves with
          | [] =>
            -- handle_terminal_position
            if G.inCheck p then (some ⟨-CHECKMATE_SCORE + ((d + 1 : Nat) : Int), none⟩, s)
            else (some ⟨0, none⟩, s)
          | m0 :: _ =>
            let ordered := orderMoves G s p moves ttMove ply
            -- SearchResult::worst(moves[0]) takes the first move AFTER ordering
            let first := ordered.headD m0
            match negamaxLoop G (negamax qfuel d) p (d + 1) ply beta ordered
                    ⟨alpha, ⟨NEGATIVE_INFINITY, some first⟩⟩ s with
            | (none, s) => (none, s)
            | (some acc, s) =>
              -- "An interrupted node has not examined all of its moves: do not cache its result"
              let (stop, s) := s.shouldStop
              if stop then (some acc.best, s)
              else
                let bound := determineBound acc.best.score originalAlpha beta
                let s := { s with tt := s.tt.store (G.hash p) acc.best.score acc.best.bestMove (d + 1) bound }
                (some acc.best, s)

/-- `search_position`: push the root hash, search with the full window, pop. -/
def searchPosition (qfuel : Nat) (p : P) (depth : Nat) (s : SearchState) : Option SearchResult × SearchState :=
  let s := { s with rep := G.hash p :: s.rep }
  let (r, s) := negamax G qfuel depth p 0 NEGATIVE_INFINITY INFINITY s
  (r, { s with rep := s.rep.drop 1 })

/-- the iteration loop of `find_best_move` from `current_depth` to `max_depth`. -/
def iterate (qfuel : Nat) (p : P) (maxDepth : Nat) :
    Nat → Nat → (Int × Option Move) → SearchState → Option (Int × Option Move) × SearchState
  | 0, _, best, s => (some best, s)
  | n + 1, cur, best, s =>
    if cur > maxDepth then (some best, s)
    else
      let (stop, s) := s.shouldStop
      if stop then (some best, s)
      else
        match searchPosition G qfuel p cur s with
        | (none, s) => (none, s)
        | (some r, s) =>
          let (stop2, s) := s.shouldStop
          if !stop2 then
            -- cache_search_result + print_info
            let s := { s with tt := s.tt.store (G.hash p) r.score r.bestMove cur .exact,
                              info := (cur, r.score, s.nodes, r.bestMove) :: s.info }
            iterate qfuel p maxDepth n (cur + 1) (r.score, r.bestMove) s
          else iterate qfuel p maxDepth n (cur + 1) best s

/-- `find_best_move(board, max_depth, time_limit)`; the time limit is the oracle `limit`. -/
def findBestMove (qfuel : Nat) (p : P) (maxDepth : Nat) (limit : Limit) (s : SearchState) :
    Option (Int × Option Move) × SearchState :=
  -- timer.start(): nodes := 0 (and the hook's instrumentation counters), history.age()
  let s := { s with nodes := 0, polls := 0, limit := limit, stopSeen := false, nodesAfterStop := 0, info := [] }
  let s := s.ageHistory
  match iterate G qfuel p maxDepth maxDepth 1 (NEGATIVE_INFINITY, none) s with
  | (none, s) => (none, s)
  | (some (score, some mv), s) => (some (score, some mv), s)
  | (some (score, none), s) =>
    -- no iteration completed: fall back to the first generated legal move (none if there is none)
    (some (score, (G.moves p).head?), s)

end generic
end Flounder
