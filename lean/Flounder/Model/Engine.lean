/-
  Model of src/uci.rs (`struct Flounder`, `uci_loop`, `handle_command`, position / go / ucinewgame) and
  the chess instance of the generic search.  Output is a list of lines (time/nps fields of `info` lines
  are not modelled: the canonical form drops them).
-/
import Flounder.Model.Search
import Flounder.Model.MoveGen
import Flounder.Model.Eval
import Flounder.Model.Zobrist
import Flounder.Model.Fen
import Flounder.Model.Go

namespace Flounder
open Gen

/-- the game the search plays: the engine's own move generator, make-move, evaluator and hash. -/
def chessGame (g : MoveGenerator) (k : ZKeys) : Game Board :=
  { moves := g.generateMoves
    qmoves := g.generateQuiescenceMoves
    play := fun b m => (b.makeMove m).getD b     -- clone_with_move (panics where makeMove is none; never for generated moves)
    inCheck := g.isInCheck
    eval := evalFn
    hash := hash k
    pieceAt := Board.getPieceAt }

/-- `struct Flounder` (+ the stream of key tables drawn by successive `Searcher::new()` calls). -/
structure Engine where
  board : Board := Board.startpos
  search : SearchState := {}
  newGames : Nat := 0                  -- number of `ucinewgame` so far = index of the current key draw
  /-- instrumentation: the oracle used by the next `go` that carries a time limit (`none` = derive it:
      a zero budget stops at the first poll, any other budget is "never" — the wall clock is not modelled). -/
  nextLimit : Option Limit := none

/-- fixed context: tables and the key draws (`keys i` = the table drawn by the i-th `Searcher::new()`). -/
structure EngineCtx where
  mg : MoveGenerator
  keys : Nat → ZKeys
  qfuel : Nat := 100000

inductive Outcome where
  | running
  | exited (status : Nat)     -- `std::process::exit(status)` / `main` returned
  | panicked                  -- an unwrap/expect/index panicked: the process aborts
  | outOfFuel                 -- the MODEL ran out of quiescence fuel (not an engine behaviour)
  deriving Repr, DecidableEq

def isWs (c : Char) : Bool := c = ' ' ∨ c = '\t' ∨ c = '\n' ∨ c = '\r' ∨ c.toNat = 11 ∨ c.toNat = 12

/-- `str::split_whitespace` (ASCII white space; other Unicode white space is not modelled). -/
def splitWs (s : List Char) : List (List Char) :=
  let rec go : List Char → List Char → List (List Char)
    | [], cur => if cur.isEmpty then [] else [cur.reverse]
    | c :: cs, cur =>
      if isWs c then (if cur.isEmpty then go cs [] else cur.reverse :: go cs [])
      else go cs (c :: cur)
  go s []

def str (s : String) : List Char := s.toList

def kwUci : Tok := ['u','c','i']
def kwIsready : Tok := ['i','s','r','e','a','d','y']
def kwUcinewgame : Tok := ['u','c','i','n','e','w','g','a','m','e']
def kwPosition : Tok := ['p','o','s','i','t','i','o','n']
def kwQuit : Tok := ['q','u','i','t']
def kwStartpos : Tok := ['s','t','a','r','t','p','o','s']
def kwFen : Tok := ['f','e','n']
def kwMoves : Tok := ['m','o','v','e','s']

def lineIdName : List Char := ['i','d',' ','n','a','m','e',' ','F','l','o','u','n','d','e','r']
def lineIdAuthor : List Char :=
  ['i','d',' ','a','u','t','h','o','r',' ','Z','a','c','h','a','r','y',' ','G','a','r','w','o','o','d']
def lineUciok : List Char := ['u','c','i','o','k']
def lineReadyok : List Char := ['r','e','a','d','y','o','k']
def lineFenErr : List Char := str "Error constructing FEN: "
def lineFenDefault : List Char := str "Setting board to default values"

def natChars (n : Nat) : List Char := (toString n).toList
def intChars (i : Int) : List Char := (toString i).toList

namespace Engine

/-- `make_moves`: resolve each token against the generated moves by its text, record the position being
    left, play it. `none` = `unwrap()` on no match (or make_move) panics. -/
def makeMoves (ctx : EngineCtx) (k : ZKeys) : List Tok → Board → SearchState → Option (Board × SearchState)
  | [], b, s => some (b, s)
  | t :: ts, b, s =>
    match (ctx.mg.generateMoves b).find? (fun m => m.toAlgebraic = t) with
    | none => none
    | some m =>
      let s := { s with rep := hash k b :: s.rep }      -- searcher.push_position(&self.board)
      match b.makeMove m with
      | none => none
      | some b' => makeMoves ctx k ts b' s

/-- the tokens after the first `moves` token (`parts.iter().position(|x| x == "moves")`). -/
def movesAfter (parts : List Tok) : Option (List Tok) :=
  match parts.dropWhile (· ≠ kwMoves) with
  | [] => none
  | _ :: rest => some rest

/-- `handle_position_command`. Returns printed lines, new engine, outcome. -/
def handlePosition (ctx : EngineCtx) (e : Engine) (parts : List Tok) : List (List Char) × Engine × Outcome :=
  let k := ctx.keys e.newGames
  if parts.length < 2 then ([], e, .running)
  else
    let ty := parts.getD 1 []
    let withMoves (out : List (List Char)) (b : Board) : List (List Char) × Engine × Outcome :=
      let s := { e.search with rep := [] }               -- searcher.clear_positions()
      match movesAfter parts with
      | none => (out, { e with board := b, search := s }, .running)
      | some ms =>
        match makeMoves ctx k ms b s with
        | some (b', s') => (out, { e with board := b', search := s' }, .running)
        | none => (out, e, .panicked)
    if ty = kwStartpos then withMoves [] Board.startpos
    else if ty = kwFen then
      if parts.length < 8 then ([], e, .running)
      else
        match fenToBoard ((parts.drop 2).take 6) with
        | .ok b => withMoves [] b
        | .err =>
          -- Board::new prints the error and falls back to the default board. The error text itself is
          -- one of several messages; the canonical form keeps only its fixed prefix.
          withMoves [lineFenErr, lineFenDefault] Board.startpos
        | .panic => ([], e, .panicked)
        | .undef => ([], e, .outOfFuel)
    else ([], e, .running)

def infoLine (d : Nat) (score : Int) (nodes : Nat) (pv : Option Move) : List Char :=
  str "info depth " ++ natChars d ++ str " score cp " ++ intChars score ++ str " nodes " ++ natChars nodes ++
    (match pv with | some m => str " pv " ++ m.toAlgebraic | none => [])

/-- `handle_go_command`. -/
def handleGo (ctx : EngineCtx) (e : Engine) (parts : List Tok) : List (List Char) × Engine × Outcome :=
  let k := ctx.keys e.newGames
  let gp := goParams e.board.active parts
  let limit : Limit := match gp.timeLimit with
    | none => .none
    | some ms => match e.nextLimit with
      | some l => l
      | none => if ms = 0 then .polls 0 else .none
  let G := chessGame ctx.mg k
  match findBestMove G ctx.qfuel e.board gp.depth limit e.search with
  | (none, s) => ([], { e with search := s, nextLimit := none }, .outOfFuel)
  | (some (_, best), s) =>
    let infos := s.info.reverse.map fun (d, sc, n, pv) => infoLine d sc n pv
    let bm := match best with
      | some m => str "bestmove " ++ m.toAlgebraic
      | none => str "bestmove 0000"
    (infos ++ [bm], { e with search := s, nextLimit := none }, .running)

/-- `handle_command(command)` on the tokens of a trimmed, non-empty line. -/
def handleCommand (ctx : EngineCtx) (e : Engine) (parts : List Tok) : List (List Char) × Engine × Outcome :=
  match parts with
  | [] => ([], e, .running)
  | cmd :: _ =>
    if cmd = kwUci then ([lineIdName, lineIdAuthor, lineUciok], e, .running)
    else if cmd = kwIsready then ([lineReadyok], e, .running)
    else if cmd = kwUcinewgame then
      ([], { e with board := Board.startpos, search := {}, newGames := e.newGames + 1 }, .running)
    else if cmd = kwPosition then handlePosition ctx e parts
    else if cmd = kwGo then handleGo ctx e parts
    else if cmd = kwQuit then ([], e, .exited 0)
    else ([], e, .running)

/-- `uci_loop` on a finite input (list of lines) followed by end of input: all printed lines + how it ended.
    After the fix the loop breaks at end of input and `main` returns: exit status 0. -/
def uciLoop (ctx : EngineCtx) : List (List Char) → Engine → List (List Char) × Outcome
  | [], _ => ([], .exited 0)
  | line :: rest, e =>
    let parts := splitWs line
    let (out, e', oc) := handleCommand ctx e parts
    match oc with
    | .running =>
      let (out', oc') := uciLoop ctx rest e'
      (out ++ out', oc')
    | other => (out, other)

end Engine
end Flounder
