/-
  Model of src/move_gen.rs, function for function, same order of generation (the order of the
  returned list is the order of the Rust `Vec`).
-/
import Flounder.Model.Lookup
import Flounder.Model.MakeMove

namespace Flounder
open Gen

/-- `struct PawnDirection`. -/
structure PawnDirection where
  rank7 : UInt64
  rank3 : UInt64
  north : Int

def PawnDirection.new : Color → PawnDirection
  | .white => { rank7 := u64 RANK_7, rank3 := u64 RANK_3, north := NORTH }
  | .black => { rank7 := u64 RANK_2, rank3 := u64 RANK_6, north := SOUTH }

/-- `extract_pawn_moves`: from = `(square as i8 - offset) as u8`. -/
def extractPawnMoves (bb : UInt64) (offset : Int) (kind : MoveType) : List Move :=
  (squaresOf bb).map fun (sq : Nat) => { src := (Int.ofNat sq - offset).toNat, dst := sq, piece := .pawn, kind }

/-- `extract_promotions`: four moves per target square, knight, bishop, rook, queen. -/
def extractPromotions (bb : UInt64) (offset : Int) (kind : MoveType) : List Move :=
  (squaresOf bb).flatMap fun (sq : Nat) =>
    Piece.promotions.map fun p => { src := (Int.ofNat sq - offset).toNat, dst := sq, piece := p, kind }

/-- `extract_moves`. -/
def extractMoves (bb : UInt64) (src : Nat) (piece : Piece) (kind : MoveType) : List Move :=
  (squaresOf bb).map fun sq => { src, dst := sq, piece, kind }

structure MoveGenerator where
  lookup : LookupTable

namespace MoveGenerator

def new : MoveGenerator := { lookup := LookupTable.init }

def generateQuietPawnPushes (b : Board) (pawns : UInt64) (d : PawnDirection) : List Move :=
  let pawns := pawns &&& ~~~d.rank7
  let empty := b.bbEmpty
  let single := shift pawns d.north &&& empty
  let doublePawns := single &&& d.rank3
  let double := shift doublePawns d.north &&& empty
  extractPawnMoves single d.north .quiet ++ extractPawnMoves double (d.north + d.north) .quiet

def generatePawnCaptures (b : Board) (pawns : UInt64) (d : PawnDirection) : List Move :=
  let pawns := pawns &&& ~~~d.rank7
  let enemy := b.bbColor b.active.other
  let left := shift pawns (d.north + WEST) &&& enemy
  let right := shift pawns (d.north + EAST) &&& enemy
  extractPawnMoves left (d.north + WEST) .capture ++ extractPawnMoves right (d.north + EAST) .capture

def generateEnPassants (b : Board) (pawns : UInt64) (d : PawnDirection) : List Move :=
  let target : UInt64 := match b.ep with | some s => sqBB s | none => 0
  let left := shift pawns (d.north + WEST) &&& target
  let right := shift pawns (d.north + EAST) &&& target
  extractPawnMoves left (d.north + WEST) .enPassant ++ extractPawnMoves right (d.north + EAST) .enPassant

def generatePromotions (b : Board) (pawns : UInt64) (d : PawnDirection) : List Move :=
  let pawns := pawns &&& d.rank7
  let enemy := b.bbColor b.active.other
  let empty := b.bbEmpty
  let single := shift pawns d.north &&& empty
  let left := shift pawns (d.north + WEST) &&& enemy
  let right := shift pawns (d.north + EAST) &&& enemy
  extractPromotions single d.north .promotion ++ extractPromotions left (d.north + WEST) .promotion ++
    extractPromotions right (d.north + EAST) .promotion

def generatePseudoLegalPawnMoves (b : Board) : List Move :=
  let color := b.active
  let pawns := b.bb color .pawn
  let d := PawnDirection.new color
  generateQuietPawnPushes b pawns d ++ generatePawnCaptures b pawns d ++ generateEnPassants b pawns d ++
    generatePromotions b pawns d

def generatePseudoLegalCastles (b : Board) : List Move :=
  let color := b.active
  let all := b.bbAll
  let (ksRights, qsRights) := b.castlingAbility color
  let (ksMask, qsMask) := match color with
    | .white => (u64 WHITE_KING_SIDE, u64 WHITE_QUEEN_SIDE)
    | .black => (u64 BLACK_KING_SIDE, u64 BLACK_QUEEN_SIDE)
  let (start, ksSq, qsSq) := match color with
    | .white => (E1, G1, C1)
    | .black => (E8, G8, C8)
  (if ksRights && (ksMask &&& all == 0) then [{ src := start, dst := ksSq, piece := .king, kind := .castle }] else []) ++
  (if qsRights && (qsMask &&& all == 0) then [{ src := start, dst := qsSq, piece := .king, kind := .castle }] else [])

def generatePseudoLegalMoves (g : MoveGenerator) (b : Board) (piece : Piece) : List Move :=
  let color := b.active
  let pieces := b.bb color piece
  let enemy := b.bbColor color.other
  let empty := b.bbEmpty
  (squaresOf pieces).flatMap fun sq =>
    let dest := match piece with
      | .knight | .king => g.lookup.nonSlidingMoves sq piece
      | _ => g.lookup.slidingMoves sq b.bbAll piece
    extractMoves (dest &&& empty) sq piece .quiet ++ extractMoves (dest &&& enemy) sq piece .capture

/-- `king_square`: `trailing_zeros` of the mover's king board (64 when there is none). -/
def kingSquare (b : Board) : Nat := trailingZeros (b.bb b.active .king)

/-- `attacks_to(board, square)`: enemy men attacking `square`, the mover's king lifted off the board. -/
def attacksTo (g : MoveGenerator) (b : Board) (square : Nat) : UInt64 :=
  let color := b.active
  let sq := sqBB square
  let occ := b.bbAll &&& ~~~(b.bb color .king)
  let pawnAttacks := match color with
    | .white => shift sq (NORTH + WEST) ||| shift sq (NORTH + EAST)
    | .black => shift sq (SOUTH + WEST) ||| shift sq (SOUTH + EAST)
  let knightAttacks := g.lookup.nonSlidingMoves square .knight
  let bishopAttacks := g.lookup.slidingMoves square occ .bishop
  let rookAttacks := g.lookup.slidingMoves square occ .rook
  let queenAttacks := g.lookup.slidingMoves square occ .queen
  let kingAttacks := g.lookup.nonSlidingMoves square .king
  let opp := color.other
  (pawnAttacks &&& b.bb opp .pawn) ||| (knightAttacks &&& b.bb opp .knight) |||
  (bishopAttacks &&& b.bb opp .bishop) ||| (rookAttacks &&& b.bb opp .rook) |||
  (kingAttacks &&& b.bb opp .king) ||| (queenAttacks &&& b.bb opp .queen)

def getPinnedPieces (g : MoveGenerator) (b : Board) (kingSq : Nat) : UInt64 :=
  let color := b.active
  let occ := b.bbAll
  let kingBB := b.bb color .king
  let eb := b.bb color.other .bishop
  let er := b.bb color.other .rook
  let eq := b.bb color.other .queen
  let pinners := (g.lookup.slidingMoves kingSq eb .bishop &&& eb) |||
                 (g.lookup.slidingMoves kingSq er .rook &&& er) |||
                 (g.lookup.slidingMoves kingSq eq .queen &&& eq)
  (squaresOf pinners).foldl (fun pinned pinner =>
    let ignore := sqBB pinner ||| kingBB
    let cand := g.lookup.between pinner kingSq true &&& occ &&& ~~~ignore
    if countOnes cand == 1 then pinned ||| cand else pinned) 0

def isPinned (mv : Move) (pinned : UInt64) : Bool := pinned &&& sqBB mv.src != 0

def isLegalPinnedMove (g : MoveGenerator) (mv : Move) (kingSq : Nat) : Bool :=
  g.lookup.between mv.dst mv.src false &&& sqBB kingSq != 0

def isLegalCastle (g : MoveGenerator) (b : Board) (mv : Move) (numChecks : Nat) : Bool :=
  if numChecks != 0 then false else
  let (ksSq, ksChecks, qsChecks) := match b.active with
    | .white => (G1, CASTLE_CHECK_WK, CASTLE_CHECK_WQ)
    | .black => (G8, CASTLE_CHECK_BK, CASTLE_CHECK_BQ)
  let squares := if mv.dst == ksSq then ksChecks else qsChecks
  squares.all fun s => g.attacksTo b s == 0

/-- the part of `is_legal_non_king_move` after the EnPassant/Castle dispatch. -/
def isLegalOrdinary (g : MoveGenerator) (mv : Move) (checkers pinned : UInt64) (kingSq : Nat) : Bool :=
  let numChecks := countOnes checkers
  let pin := isPinned mv pinned
  if numChecks == 1 then
    let attacker := trailingZeros checkers
    if mv.dst == attacker then !pin
    else !pin && (g.lookup.between attacker kingSq true &&& sqBB mv.dst != 0)
  else if pin then isLegalPinnedMove g mv kingSq else true

/-- `is_legal_en_passant`: remove the victim, recompute pins and checkers, test as an ordinary capture. -/
def isLegalEnPassant (g : MoveGenerator) (b : Board) (mv : Move) (kingSq : Nat) : Bool :=
  let color := b.active
  let victimSq := match color with | .white => mv.dst - 8 | .black => mv.dst + 8
  let tmp : Move := { src := mv.src, dst := mv.dst, piece := .pawn, kind := .capture }
  let b' := b.removePiece color.other .pawn victimSq
  let pinned := g.getPinnedPieces b' kingSq
  let checkers := g.attacksTo b' kingSq
  if countOnes checkers > 1 then false else isLegalOrdinary g tmp checkers pinned kingSq

/-- `is_legal_non_king_move`. -/
def isLegalNonKingMove (g : MoveGenerator) (b : Board) (mv : Move) (checkers pinned : UInt64) (kingSq : Nat) : Bool :=
  let numChecks := countOnes checkers
  if numChecks > 1 then false
  else if mv.kind = .enPassant then g.isLegalEnPassant b mv kingSq
  else if mv.kind = .castle then g.isLegalCastle b mv numChecks
  else isLegalOrdinary g mv checkers pinned kingSq

/-- `is_legal`. -/
def isLegal (g : MoveGenerator) (b : Board) (mv : Move) (checkers pinned : UInt64) (kingSq : Nat) : Bool :=
  if mv.piece = .king && mv.kind != .castle then g.attacksTo b mv.dst == 0
  else g.isLegalNonKingMove b mv checkers pinned kingSq

def pseudoLegalMoves (g : MoveGenerator) (b : Board) : List Move :=
  generatePseudoLegalCastles b ++ generatePseudoLegalPawnMoves b ++
  g.generatePseudoLegalMoves b .king ++ g.generatePseudoLegalMoves b .knight ++
  g.generatePseudoLegalMoves b .bishop ++ g.generatePseudoLegalMoves b .rook ++
  g.generatePseudoLegalMoves b .queen

/-- `generate_moves`. -/
def generateMoves (g : MoveGenerator) (b : Board) : List Move :=
  let kingSq := kingSquare b
  let pinned := g.getPinnedPieces b kingSq
  let checkers := g.attacksTo b kingSq
  (g.pseudoLegalMoves b).filter fun mv => g.isLegal b mv checkers pinned kingSq

/-- `is_in_check`. -/
def isInCheck (g : MoveGenerator) (b : Board) : Bool := g.attacksTo b (kingSquare b) != 0

def isCapture (mv : Move) : Bool := mv.kind == .capture || mv.kind == .enPassant
def isPromotion (mv : Move) : Bool := mv.kind == .promotion

/-- `is_check(board, mv)`: after the move, is the side now to move attacked on its king square.
    (`clone_with_move` panics where `makeMove` is `none`; for generated moves that never happens.) -/
def isCheck (g : MoveGenerator) (b : Board) (mv : Move) : Bool :=
  match b.makeMove mv with
  | some nb => g.attacksTo nb (kingSquare nb) != 0
  | none => false

/-- `generate_quiescence_moves`. -/
def generateQuiescenceMoves (g : MoveGenerator) (b : Board) : List Move :=
  (g.generateMoves b).filter fun mv => isCapture mv || isPromotion mv || g.isCheck b mv

/-- the move list `search_until_quiet` examines: every legal move when in check, the tactical ones otherwise. -/
def quiescenceMoveSet (g : MoveGenerator) (b : Board) : List Move :=
  if g.isInCheck b then g.generateMoves b else g.generateQuiescenceMoves b

end MoveGenerator
end Flounder
