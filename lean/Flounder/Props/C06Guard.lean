/-
  C06, part 5 — why the guard matters.

  Model/Search.lean `negamax` ends with "an interrupted node has not examined all of its moves: do not cache
  its result" (`if stop then (some acc.best, s)`).  `Search.negamaxU` … `Search.findBestMoveU`
  (Lemmas/SearchUnguarded.lean) are the model WITHOUT these lines — the pinned engine before its `fix:`
  commit.  On the three-position game `Search.guardGame` (root 0; `mateA` leads to a position worth -5 for
  the root, `mateB` to one worth +9; the depth-1 minimax value of the root is 9):

      find_best_move(0, depth 1, Limit.polls 2)   -- the clock fires between the two root moves
      find_best_move(0, depth 1, no deadline)     -- completes, reuses no deeper record

  * unguarded engine (`unguarded_interruption_spoils_later_search`): the interrupted search leaves the FALSE
    record "root: value -5, exact, depth 1" in the table, and the later COMPLETED search reports -5 with the
    losing move `mateA` instead of 9 with `mateB`;
  * every other hypothesis of `C06Full.later_search_true_value` holds for this game and this sequence
    (`guard_family`: a closed set with an injective hash, reference values exist, fresh table, empty stack,
    completed second run, no deeper reuse) — so the theorem is false for the unguarded engine, and what fails
    is exactly `findBestMove_preserves_ttsound` (`unguarded_table_unsound`);
  * the model, i.e. the engine WITH the guard (`guarded_same_sequence_correct`): the same sequence of calls
    answers 9 with `mateB` — by `later_search_true_value`, all hypotheses discharged.
-/
import Flounder.Lemmas.SearchUnguarded
import Flounder.Props.C06Full

namespace Flounder.Props.C06Guard
open Flounder Gen Flounder.Search

/-! ### the unguarded engine -/

/-- the first (interrupted) search of the unguarded engine, from any state with an empty table and an empty
    stack: it is cut off (`stopSeen`), answers with the fall-back move, and has cached the false record. -/
theorem unguarded_first (s : SearchState) (ht : ∀ k, s.tt.retrieve k = none) (hr : s.rep = []) :
    (findBestMoveU guardGame 1 0 1 (.polls 2) s).2.stopSeen = true ∧
    (findBestMoveU guardGame 1 0 1 (.polls 2) s).1 = some (NEGATIVE_INFINITY, some mateA) ∧
    (findBestMoveU guardGame 1 0 1 (.polls 2) s).2.tt = s.tt.store (guardGame.hash 0) (-5) (some mateA) 1 .exact ∧
    (findBestMoveU guardGame 1 0 1 (.polls 2) s).2.rep = [] ∧
    (findBestMoveU guardGame 1 0 1 (.polls 2) s).2.deeperHits = s.deeperHits := by
  have h2 : ∀ t : SearchState, t.limit = .polls 2 → t.polls = 3 → stopFlag t = true := by
    intro t a b; simp [stopFlag, a, b]
  have hit : ∃ t : SearchState,
      iterateU guardGame 1 0 1 1 1 (NEGATIVE_INFINITY, none) (started (.polls 2) s) =
        (some (NEGATIVE_INFINITY, none), polled t) ∧ stopFlag t = true ∧
      t.tt = s.tt.store (guardGame.hash 0) (-5) (some mateA) 1 .exact ∧ t.rep = [] ∧
      t.deeperHits = s.deeperHits := by
    rw [iterateU_succ]
    have h0 : ¬ (1 > 1) := by omega
    rw [if_neg h0]
    have h1 : stopFlag (started (.polls 2) s) = false := by simp [stopFlag, started, SearchState.ageHistory]
    rw [h1]
    simp only [Bool.false_eq_true, ↓reduceIte]
    rw [searchPositionU_eq,
      guardU_root (pushed guardGame 0 (polled (started (.polls 2) s))) ht
        (by simp [pushed, polled, started, SearchState.ageHistory, hr]) rfl rfl]
    simp only
    rw [h2 _ rfl rfl]
    simp only [Bool.not_true, Bool.false_eq_true, ↓reduceIte]
    rw [iterateU_zero]
    refine ⟨_, rfl, h2 _ rfl rfl, rfl, ?_, rfl⟩
    simp [pushed, polled, started, SearchState.ageHistory, SearchState.incrementNodes, hr]
  obtain ⟨t, hrun, hst, htt, hrep, hdh⟩ := hit
  refine ⟨?_, ?_, ?_, ?_, ?_⟩
  · rw [findBestMoveU_snd, hrun]
    show (polled t).stopSeen = true
    rw [polled_stopSeen, hst]
    exact Bool.or_true _
  · rw [findBestMoveU_eq, hrun]; rfl
  · rw [findBestMoveU_snd, hrun]; exact htt
  · rw [findBestMoveU_snd, hrun]; exact hrep
  · rw [findBestMoveU_snd, hrun]; exact hdh

/-- the second (completed) search of the unguarded engine, from any state whose table answers the root with
    the false record: it completes, reuses no deeper record — and reports the false value. -/
theorem unguarded_second (s : SearchState) (he : s.tt.retrieve (guardGame.hash 0) = some badEntry) :
    (findBestMoveU guardGame 1 0 1 .none s).1 = some (-5, some mateA) ∧
    (findBestMoveU guardGame 1 0 1 .none s).2.stopSeen = false ∧
    (findBestMoveU guardGame 1 0 1 .none s).2.deeperHits = s.deeperHits := by
  have h2 : ∀ t : SearchState, t.limit = .none → stopFlag t = false := by
    intro t a; simp [stopFlag, a]
  have hit : ∃ t : SearchState,
      iterateU guardGame 1 0 1 1 1 (NEGATIVE_INFINITY, none) (started .none s) =
        (some (-5, some mateA), t) ∧ t.stopSeen = false ∧ t.deeperHits = s.deeperHits := by
    rw [iterateU_succ]
    have h0 : ¬ (1 > 1) := by omega
    rw [if_neg h0, h2 _ rfl]
    simp only [Bool.false_eq_true, ↓reduceIte]
    rw [searchPositionU_eq,
      negamaxU_root_hit_exact guardGame 1 0 0 _ _ (pushed guardGame 0 (polled (started .none s))) badEntry he
        rfl rfl]
    simp only
    rw [h2 _ rfl]
    simp only [Bool.not_false, ↓reduceIte]
    rw [iterateU_zero]
    refine ⟨_, rfl, ?_, rfl⟩
    simp [cached, polled, pushed, started, SearchState.ageHistory, SearchState.incrementNodes, stopFlag]
  obtain ⟨t, hrun, hst, hdh⟩ := hit
  refine ⟨?_, ?_, ?_⟩
  · rw [findBestMoveU_eq, hrun]
  · rw [findBestMoveU_snd, hrun]; exact hst
  · rw [findBestMoveU_snd, hrun]; exact hdh

/-- the record the unguarded engine left behind is false: it claims that the depth-1 value of the root is
    exactly -5, the value is 9. -/
theorem badEntry_false : ¬ EntryOK guardGame Spec.clampClass 1 0 badEntry := by
  intro h
  have := h.exact 9 guard_value rfl
  revert this
  decide

/-- the family: all three positions; closed under the moves, hash injective. -/
def guardSet (p : Nat) : Prop := p ≤ 2

theorem guard_closed : Closed guardGame guardSet := by
  intro p m _ _
  show (if m = mateA then 1 else 2) ≤ 2
  split <;> omega

theorem guard_hashInj : HashInj guardGame guardSet := by
  intro p q hp hq h
  have h' : p.toUInt64 = q.toUInt64 := h
  have := congrArg UInt64.toNat h'
  simp only [Nat.toUInt64_eq, UInt64.toNat_ofNat', Nat.reducePow] at this
  unfold guardSet at hp hq
  omega

/-- **without the guard an interrupted search spoils a later one.**  The pinned engine before its fix, on
    `guardGame`, from the fresh state: the first search is cut off by its deadline and leaves a false record;
    the second search COMPLETES, reuses NO deeper record, starts from an empty repetition stack — every
    hypothesis of `later_search_true_value` except the soundness of the table it inherited — and reports -5
    with the losing move although the minimax value is 9. -/
theorem unguarded_interruption_spoils_later_search :
    let s₁ := (findBestMoveU guardGame 1 0 1 (.polls 2) {}).2
    let r₂ := findBestMoveU guardGame 1 0 1 .none s₁
    -- the first search was interrupted, the stack is balanced, but the table holds a false record
    s₁.stopSeen = true ∧ s₁.rep = [] ∧
    s₁.tt.retrieve (guardGame.hash 0) = some badEntry ∧
    ¬ EntryOK guardGame Spec.clampClass 1 0 badEntry ∧
    -- the later search completes without deeper reuse
    r₂.2.stopSeen = false ∧ r₂.2.deeperHits = ({} : SearchState).deeperHits ∧
    -- and is wrong
    r₂.1 = some (-5, some mateA) ∧ Spec.V guardGame 1 1 0 = some 9 := by
  intro s₁ r₂
  have ht : ∀ k, ({} : SearchState).tt.retrieve k = none := fun k => KeySim.retrieve_empty k
  obtain ⟨a1, _, a3, a4, a5⟩ := unguarded_first {} ht rfl
  have he : s₁.tt.retrieve (guardGame.hash 0) = some badEntry := by
    show (findBestMoveU guardGame 1 0 1 (.polls 2) {}).2.tt.retrieve (guardGame.hash 0) = some badEntry
    rw [a3, KeySim.retrieve_store_wf KeySim.tableWF_empty, if_pos rfl, KeySim.retrieve_empty]
    rfl
  obtain ⟨b1, b2, b3⟩ := unguarded_second s₁ he
  exact ⟨a1, a4, he, badEntry_false, b2, b3.trans a5, b1, guard_value⟩

/-- in the vocabulary of C05: the table the interrupted unguarded search leaves is not sound — for ANY set
    of positions containing the root. -/
theorem unguarded_table_unsound (S : Nat → Prop) (h0 : S 0) :
    ¬ C05.TTSoundClass guardGame S 1 (findBestMoveU guardGame 1 0 1 (.polls 2) {}).2.tt := by
  intro h
  exact badEntry_false (h 0 h0 badEntry unguarded_interruption_spoils_later_search.2.2.1)

/-! ### the model: the engine with the guard, same game, same sequence of calls -/

/-- the first (interrupted) search of the MODEL from any state with an empty table and an empty stack: it is
    cut off at the same poll, and leaves the table exactly as it was. -/
theorem guarded_first (s : SearchState) (ht : ∀ k, s.tt.retrieve k = none) (hr : s.rep = []) :
    (findBestMove guardGame 1 0 1 (.polls 2) s).2.stopSeen = true ∧
    (findBestMove guardGame 1 0 1 (.polls 2) s).2.tt = s.tt ∧
    (findBestMove guardGame 1 0 1 (.polls 2) s).2.deeperHits = s.deeperHits := by
  have h2 : ∀ t : SearchState, t.limit = .polls 2 → t.polls = 4 → stopFlag t = true := by
    intro t a b; simp [stopFlag, a, b]
  have hit : ∃ t : SearchState,
      iterate guardGame 1 0 1 1 1 (NEGATIVE_INFINITY, none) (started (.polls 2) s) =
        (some (NEGATIVE_INFINITY, none), polled t) ∧ stopFlag t = true ∧ t.tt = s.tt ∧
      t.deeperHits = s.deeperHits := by
    rw [iterate_succ]
    have h0 : ¬ (1 > 1) := by omega
    rw [if_neg h0]
    have h1 : stopFlag (started (.polls 2) s) = false := by simp [stopFlag, started, SearchState.ageHistory]
    rw [h1]
    simp only [Bool.false_eq_true, ↓reduceIte]
    rw [searchPosition_eq,
      guard_root_interrupted (pushed guardGame 0 (polled (started (.polls 2) s))) ht
        (by simp [pushed, polled, started, SearchState.ageHistory, hr]) rfl rfl]
    simp only
    rw [h2 _ rfl rfl]
    simp only [Bool.not_true, Bool.false_eq_true, ↓reduceIte]
    rw [iterate_zero]
    exact ⟨_, rfl, h2 _ rfl rfl, rfl, rfl⟩
  obtain ⟨t, hrun, hst, htt, hdh⟩ := hit
  refine ⟨?_, ?_, ?_⟩
  · rw [Search.findBestMove_snd, hrun]
    show (polled t).stopSeen = true
    rw [polled_stopSeen, hst]
    exact Bool.or_true _
  · rw [Search.findBestMove_snd, hrun]; exact htt
  · rw [Search.findBestMove_snd, hrun]; exact hdh

/-- the second search of the MODEL (no deadline) from any state with an empty table and an empty stack reuses
    no deeper record. -/
theorem guarded_second_no_deeper (s : SearchState) (ht : ∀ k, s.tt.retrieve k = none) (hr : s.rep = []) :
    (findBestMove guardGame 1 0 1 .none s).2.deeperHits = s.deeperHits := by
  have h2 : ∀ t : SearchState, t.limit = .none → stopFlag t = false := by
    intro t a; simp [stopFlag, a]
  rw [Search.findBestMove_snd, iterate_succ]
  have h0 : ¬ (1 > 1) := by omega
  rw [if_neg h0, h2 _ rfl]
  simp only [Bool.false_eq_true, ↓reduceIte]
  obtain ⟨t, hrun, hdh, hl, _⟩ := guard_root_complete (pushed guardGame 0 (polled (started .none s))) ht
    (by simp [pushed, polled, started, SearchState.ageHistory, hr]) rfl
  rw [searchPosition_eq, hrun]
  simp only
  rw [h2 { t with rep := t.rep.drop 1 } hl]
  simp only [Bool.not_false, ↓reduceIte]
  rw [iterate_zero]
  exact hdh

/-- **with the guard the same sequence is harmless**: `later_search_true_value` applies to `guardGame` and the
    calls of `unguarded_interruption_spoils_later_search` — every hypothesis discharged — and the completed
    search reports the minimax value 9 with the winning move. -/
theorem guarded_same_sequence_correct :
    let s₁ := (findBestMove guardGame 1 0 1 (.polls 2) {}).2
    let r₂ := findBestMove guardGame 1 0 1 .none s₁
    s₁.stopSeen = true ∧ r₂.2.stopSeen = false ∧ r₂.1 = some (9, some mateB) ∧ r₂.2.rep = [] ∧
    C05.TTSoundClass guardGame guardSet 1 r₂.2.tt := by
  intro s₁ r₂
  have ht : ∀ k, ({} : SearchState).tt.retrieve k = none := fun k => KeySim.retrieve_empty k
  obtain ⟨a1, a2, a3⟩ := guarded_first {} ht rfl
  have ht1 : ∀ k, s₁.tt.retrieve k = none := by
    intro k
    show (findBestMove guardGame 1 0 1 (.polls 2) {}).2.tt.retrieve k = none
    rw [a2]; exact ht k
  have hr1 : s₁.rep = [] := C06.repetition_balanced_findBestMove guardGame 1 0 1 (.polls 2) {}
  have b1 := guarded_second_no_deeper s₁ ht1 hr1
  have hfin := C05.findBestMove_completes_of_no_deadline guardGame 1 0 1 s₁
  have hV : ∀ d, 1 ≤ d → d ≤ 1 → ∃ w, Spec.V guardGame 1 d 0 = some w := by
    intro d h1 h2
    obtain rfl : d = 1 := by omega
    exact ⟨_, guard_value⟩
  obtain ⟨score, mv, hro, _, hsc, hmv, hpv, hT, hrep⟩ :=
    C06Full.later_search_true_value guardGame (fun _ => guardSet) (Ranked.ofClosed guard_closed)
      (by rw [Ranked.U_const]; exact guard_hashInj) 1 1 (Nat.le_refl _)
      [⟨0, 1, .polls 2⟩] {} (ttSound_new guardGame _ _ 1) rfl
      (fun j hj => by
        simp only [List.mem_singleton] at hj
        subst hj
        exact ⟨show guardSet 0 from Nat.zero_le _, hV⟩)
      0 1 .none (show guardSet 0 from Nat.zero_le _) (Nat.le_refl _) 9 hV guard_value r₂.1 r₂.2 rfl hfin
      (b1.trans a3)
  have hs : score = 9 := hsc (by decide) (by decide)
  subst hs
  -- the move: the one whose child has value -9
  obtain ⟨m, hm, hmem⟩ := hmv (by simp [guardGame])
  have hmB : m = mateB := by
    have hmem' : m = mateA ∨ m = mateB := by simpa [guardGame] using hmem
    rcases hmem' with rfl | rfl
    · exfalso
      have := hpv (by decide) (by decide) 0 mateA 5 rfl hm (by decide)
      revert this; decide
    · rfl
  subst hmB hm
  rw [Ranked.U_const] at hT
  exact ⟨a1, hfin, hro, hrep, hT⟩

end Flounder.Props.C06Guard
