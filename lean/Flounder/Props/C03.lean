/-
  C03 — the answer of the search is a legal move.

  Abstract game `G`; `S` is any set of positions that is closed under playing generated moves and on which
  the hash is injective (for chess: e.g. the positions reachable in the current search tree, under the
  usual "no Zobrist collision" assumption — stated explicitly, never assumed silently).

    C1  `TTMoveOK S tt` (every move the table holds for a position of `S` is a generated move of that
        position) is preserved by `negamax`, `searchPosition`, `iterate`, `findBestMove`, for every limit,
        completed or interrupted or out of fuel, and every move they return is legal;
    C2  `bestmove_legal`: the move returned by `findBestMove` is a generated move of the root, and there
        IS a move whenever the root has one — for every limit (also a zero budget) and every depth
        (also 0);
    C3  `bestmove_none_iff`: no move is returned iff the root has no move.

  Ranked form (`*_ranked`, second half of the file).  For real chess no set that is closed under all moves
  has an injective 64-bit hash from most positions, so each theorem is ALSO proved for a depth-ranked family
  `S : Nat → P → Prop` (Lemmas/Ranked.lean): `S d` = positions that may be a `negamax` node of remaining
  depth `d`, root of `findBestMove … D` in `S D`, the hash injective on `Ranked.U S = ⋃ d, S d` only, the
  table invariant `TTMoveOK` ranging over `Ranked.U S`; quiescence positions need not lie in the family
  (no closure under `qmoves`).  The closed-set theorems are the instances for the constant family (through
  `Hyp.toR` in Lemmas/StopHoare.lean).  Props/SearchRanked.lean instantiates `S` with the positions within
  `D` plies of the root.
-/
import Flounder.Lemmas.StopTrace

namespace Flounder.Props.C03
open Flounder Gen SearchState Flounder.Stop

/-- what a lookup can return after a store: the new record (only under the stored key) or what was
    there before.  Holds for every table (no key invariant needed). -/
theorem retrieve_store_cases (t : TT) (k : UInt64) (ev : Int) (mv : Option Move) (d : Nat) (b : Bounds)
    (k' : UInt64) (e : Entry) (h : (t.store k ev mv d b).retrieve k' = some e) :
    (k' = k ∧ e = { hashKey := k, eval := ev, bestMove := mv, depth := d, bounds := b }) ∨
    t.retrieve k' = some e := by
  have hins : ∀ e0 : Entry, e0.hashKey = k →
      (TT.mk (t.table.insert k e0)).retrieve k' = some e → (k' = k ∧ e = e0) ∨ t.retrieve k' = some e := by
    intro e0 hk0 h
    unfold TT.retrieve at h ⊢
    simp only [Std.HashMap.getElem?_insert] at h
    by_cases hk : k = k'
    · subst hk
      simp only [beq_self_eq_true, ↓reduceIte, hk0] at h
      left
      exact ⟨rfl, (Option.some.inj h).symm⟩
    · have : (k == k') = false := by simpa using hk
      rw [this] at h
      right
      simpa using h
  unfold TT.store at h
  split at h
  · exact hins _ rfl h
  · split at h
    · exact hins _ rfl h
    · right; exact h

section
variable {P : Type} (G : Game P)

/-- a move (if any) is a generated move of `p`. -/
def Legal (p : P) (mv : Option Move) : Prop := ∀ m, mv = some m → m ∈ G.moves p

/-- every best-move the table holds for a position of `S` is a generated move of that position. -/
def TTMoveOK (S : P → Prop) (tt : TT) : Prop :=
  ∀ p, S p → ∀ e, tt.retrieve (G.hash p) = some e → ∀ m, e.bestMove = some m → m ∈ G.moves p

/-- no two positions of `S` share a hash. -/
def HashInj (S : P → Prop) : Prop := ∀ p q, S p → S q → G.hash p = G.hash q → p = q

/-- `S` is closed under playing generated (full or quiescence) moves. -/
def Closed (S : P → Prop) : Prop :=
  (∀ p m, S p → m ∈ G.moves p → S (G.play p m)) ∧ (∀ p m, S p → m ∈ G.qmoves p → S (G.play p m))

theorem ttMoveOK_empty (S : P → Prop) : TTMoveOK G S {} := by
  intro p _ e h
  simp [TT.retrieve] at h

theorem ttMoveOK_store {S : P → Prop} (hinj : HashInj G S) {tt : TT} (h : TTMoveOK G S tt) {p : P}
    (hS : S p) (ev : Int) {mv : Option Move} (hmv : Legal G p mv) (d : Nat) (b : Bounds) :
    TTMoveOK G S (tt.store (G.hash p) ev mv d b) := by
  intro q hq e he m hm
  rcases retrieve_store_cases tt _ ev mv d b _ e he with ⟨hk, rfl⟩ | hold
  · have : q = p := hinj q p hq hS hk
    subst this
    exact hmv m hm
  · exact h q hq e hold m hm

/-- the invariant as a `Hyp`, with the trivial guard: no assumption on the stop flags at all. -/
theorem ttHyp {S : P → Prop} (hcl : Closed G S) (hinj : HashInj G S) :
    HypTop G S (Legal G) (fun _ => True) (fun s => TTMoveOK G S s.tt) where
  closed_m := hcl.1
  closed_q := hcl.2
  q_none := fun _ _ h => by cases h
  q_move := fun _ _ _ hm m' h => by cases h; exact hm
  gd_poll := fun _ _ _ => trivial
  gd_enter := fun _ _ => trivial
  gd_frame := fun _ _ _ _ => trivial
  poll := fun _ h => h
  enter := fun _ h _ => h
  frame := fun _ _ _ _ _ h => h
  probe := fun _ p e h hS he => h p hS e he
  store := fun _ _ ev _ d b h hS _ hmv => ttMoveOK_store G hinj h hS ev hmv d b
  rep := fun _ _ h => h
  gd_rep := fun _ _ _ => trivial
  info := fun _ _ h => h

/-- the fallback of `findBestMove`: if every move the iteration loop hands back is legal, so is the
    reported one, and one is reported whenever the root has a move. -/
theorem bestmove_of_iterate (qfuel : Nat) (p : P) (D : Nat) (limit : Limit) (s : SearchState)
    (score : Int) (mv : Option Move) (s' : SearchState)
    (hres : findBestMove G qfuel p D limit s = (some (score, mv), s'))
    (hit : ∀ b, (iterate G qfuel p D D 1 (NEGATIVE_INFINITY, none) (resetState limit s)).1 = some b →
      Legal G p b.2) :
    (∀ m, mv = some m → m ∈ G.moves p) ∧ (G.moves p ≠ [] → mv ≠ none) := by
  rw [findBestMove_eq] at hres
  revert hres hit
  cases iterate G qfuel p D D 1 (NEGATIVE_INFINITY, none) (resetState limit s) with
  | mk r s2 =>
    intro hres hit
    cases r with
    | none => cases hres
    | some b =>
      obtain ⟨sc, bm⟩ := b
      cases bm with
      | some m0 =>
        simp only [Prod.mk.injEq, Option.some.injEq] at hres
        obtain ⟨⟨_, rfl⟩, _⟩ := hres
        exact ⟨hit (sc, some m0) rfl, fun _ h => by cases h⟩
      | none =>
        simp only [Prod.mk.injEq, Option.some.injEq] at hres
        obtain ⟨⟨_, rfl⟩, _⟩ := hres
        refine ⟨fun m hm => List.mem_of_mem_head? hm, fun hne hnone => ?_⟩
        cases hmv : G.moves p with
        | nil => exact hne hmv
        | cons a l => rw [hmv] at hnone; cases hnone

theorem none_iff_of_legal (p : P) (mv : Option Move)
    (h : (∀ m, mv = some m → m ∈ G.moves p) ∧ (G.moves p ≠ [] → mv ≠ none)) :
    mv = none ↔ G.moves p = [] := by
  obtain ⟨h1, h2⟩ := h
  constructor
  · intro hnone
    cases hmv : G.moves p with
    | nil => rfl
    | cons a l => exact absurd hnone (h2 (by rw [hmv]; exact List.cons_ne_nil _ _))
  · intro hnil
    cases hm : mv with
    | none => rfl
    | some m =>
      have := h1 m hm
      rw [hnil] at this
      cases this

variable {S : P → Prop} (hcl : Closed G S) (hinj : HashInj G S)
include hcl hinj

/-! ## C1 — the table invariant is preserved, and returned moves are legal -/

theorem tt_move_legal_quiesce (fuel : Nat) (p : P) (hS : S p) (α β : Int) (s : SearchState)
    (h : TTMoveOK G S s.tt) : TTMoveOK G S (quiesce G fuel p α β s).2.tt :=
  quiesce_inv (ttHyp G hcl hinj).toHyp fuel p α β s hS h trivial

theorem tt_move_legal_negamax (qfuel depth : Nat) (p : P) (hS : S p) (ply : Nat) (α β : Int)
    (s : SearchState) (h : TTMoveOK G S s.tt) :
    TTMoveOK G S (negamax G qfuel depth p ply α β s).2.tt ∧
    ∀ r, (negamax G qfuel depth p ply α β s).1 = some r → Legal G p r.bestMove :=
  negamax_inv (ttHyp G hcl hinj).toHyp qfuel depth p ply α β s hS h trivial

theorem tt_move_legal_searchPosition (qfuel : Nat) (p : P) (hS : S p) (depth : Nat)
    (s : SearchState) (h : TTMoveOK G S s.tt) :
    TTMoveOK G S (searchPosition G qfuel p depth s).2.tt ∧
    ∀ r, (searchPosition G qfuel p depth s).1 = some r → Legal G p r.bestMove :=
  searchPosition_inv (ttHyp G hcl hinj) qfuel p depth s hS h trivial

theorem tt_move_legal_iterate (qfuel : Nat) (p : P) (hS : S p) (maxDepth n cur : Nat)
    (best : Int × Option Move) (hb : Legal G p best.2) (s : SearchState) (h : TTMoveOK G S s.tt) :
    TTMoveOK G S (iterate G qfuel p maxDepth n cur best s).2.tt ∧
    ∀ b, (iterate G qfuel p maxDepth n cur best s).1 = some b → Legal G p b.2 :=
  iterate_inv (ttHyp G hcl hinj) qfuel p hS maxDepth n cur best s hb h

/-- **C1.**  Whatever the limit, whether the search completed, was interrupted at any poll, or ran out
    of quiescence fuel: the table still holds only generated moves for the positions of `S`. -/
theorem tt_move_legal_invariant (qfuel : Nat) (p : P) (hS : S p) (D : Nat) (limit : Limit)
    (s : SearchState) (h : TTMoveOK G S s.tt) :
    TTMoveOK G S (findBestMove G qfuel p D limit s).2.tt :=
  findBestMove_inv (ttHyp G hcl hinj) qfuel p hS D limit s h

/-! ## C2, C3 — the returned move -/

/-- **C2.**  The reported best move is a generated move of the root position; and whenever the root has
    a move, one is reported — for EVERY limit (a zero budget `Limit.polls 0` included: the fallback to the
    first generated move) and every depth (0 included). -/
theorem bestmove_legal (qfuel : Nat) (p : P) (hS : S p) (D : Nat) (limit : Limit) (s : SearchState)
    (h : TTMoveOK G S s.tt) (score : Int) (mv : Option Move) (s' : SearchState)
    (hres : findBestMove G qfuel p D limit s = (some (score, mv), s')) :
    (∀ m, mv = some m → m ∈ G.moves p) ∧ (G.moves p ≠ [] → mv ≠ none) :=
  bestmove_of_iterate G qfuel p D limit s score mv s' hres
    (tt_move_legal_iterate G hcl hinj qfuel p hS D D 1 (NEGATIVE_INFINITY, none)
      (fun _ h => by cases h) (resetState limit s) h).2

/-- **C3.**  No move is reported exactly when the root position has none (mate / stalemate). -/
theorem bestmove_none_iff (qfuel : Nat) (p : P) (hS : S p) (D : Nat) (limit : Limit) (s : SearchState)
    (h : TTMoveOK G S s.tt) (score : Int) (mv : Option Move) (s' : SearchState)
    (hres : findBestMove G qfuel p D limit s = (some (score, mv), s')) :
    mv = none ↔ G.moves p = [] :=
  none_iff_of_legal G p mv (bestmove_legal G hcl hinj qfuel p hS D limit s h score mv s' hres)

end

/-! ## the ranked form: hash injective only on the positions a depth-`D` search can touch -/

section ranked
variable {P : Type} (G : Game P)

/-- `HashInj` of this file and `HashInjOn` of Lemmas/Ranked.lean are the same statement. -/
theorem hashInj_iff_hashInjOn (U : P → Prop) : HashInj G U ↔ Search.HashInjOn G U := Iff.rfl

/-- a closed set (in the sense of this file) is a constant ranked family. -/
theorem ranked_of_closed {S : P → Prop} (hcl : Closed G S) : Search.Ranked G (fun _ => S) :=
  ⟨fun _ p m hp hm => hcl.1 p m hp hm, fun _ _ hp => hp⟩

/-- the invariant as a `HypR`: the table holds only generated moves for the positions of `Ranked.U S`. -/
theorem ttHypR {S : Nat → P → Prop} (hr : Search.Ranked G S) (hinj : HashInj G (Search.Ranked.U S)) :
    HypTopR G S (Legal G) (fun _ => True) (fun s => TTMoveOK G (Search.Ranked.U S) s.tt) where
  ranked := hr
  q_none := fun _ _ h => by cases h
  q_move := fun _ _ _ hm m' h => by cases h; exact hm
  gd_poll := fun _ _ _ => trivial
  gd_enter := fun _ _ => trivial
  gd_frame := fun _ _ _ _ => trivial
  poll := fun _ h => h
  enter := fun _ h _ => h
  frame := fun _ _ _ _ _ h => h
  probe := fun _ p e h hS he => h p hS e he
  store := fun _ _ ev _ d b h hS _ hmv => ttMoveOK_store G hinj h hS ev hmv d b
  rep := fun _ _ h => h
  gd_rep := fun _ _ _ => trivial
  info := fun _ _ h => h

variable {S : Nat → P → Prop} (hr : Search.Ranked G S) (hinj : HashInj G (Search.Ranked.U S))
include hr hinj

/-- quiescence: NO membership hypothesis on `p` (positions below the horizon are outside the family). -/
theorem tt_move_legal_quiesce_ranked (fuel : Nat) (p : P) (α β : Int) (s : SearchState)
    (h : TTMoveOK G (Search.Ranked.U S) s.tt) :
    TTMoveOK G (Search.Ranked.U S) (quiesce G fuel p α β s).2.tt :=
  quiesce_inv_ranked (ttHypR G hr hinj).toHypR fuel p α β s h trivial

theorem tt_move_legal_negamax_ranked (qfuel depth : Nat) (p : P) (hS : S depth p) (ply : Nat) (α β : Int)
    (s : SearchState) (h : TTMoveOK G (Search.Ranked.U S) s.tt) :
    TTMoveOK G (Search.Ranked.U S) (negamax G qfuel depth p ply α β s).2.tt ∧
    ∀ r, (negamax G qfuel depth p ply α β s).1 = some r → Legal G p r.bestMove :=
  negamax_inv_ranked (ttHypR G hr hinj).toHypR qfuel depth p ply α β s hS h trivial

theorem tt_move_legal_searchPosition_ranked (qfuel : Nat) (p : P) (depth : Nat) (hS : S depth p)
    (s : SearchState) (h : TTMoveOK G (Search.Ranked.U S) s.tt) :
    TTMoveOK G (Search.Ranked.U S) (searchPosition G qfuel p depth s).2.tt ∧
    ∀ r, (searchPosition G qfuel p depth s).1 = some r → Legal G p r.bestMove :=
  searchPosition_inv_ranked (ttHypR G hr hinj) qfuel p depth s hS h trivial

theorem tt_move_legal_iterate_ranked (qfuel : Nat) (p : P) (maxDepth : Nat) (hS : S maxDepth p)
    (n cur : Nat) (best : Int × Option Move) (hb : Legal G p best.2) (s : SearchState)
    (h : TTMoveOK G (Search.Ranked.U S) s.tt) :
    TTMoveOK G (Search.Ranked.U S) (iterate G qfuel p maxDepth n cur best s).2.tt ∧
    ∀ b, (iterate G qfuel p maxDepth n cur best s).1 = some b → Legal G p b.2 :=
  iterate_inv_ranked (ttHypR G hr hinj) qfuel p maxDepth hS n cur best s hb h

/-- **C1, ranked.**  The root lies in `S D`; the hash is injective on `Ranked.U S` only. -/
theorem tt_move_legal_invariant_ranked (qfuel : Nat) (p : P) (D : Nat) (hS : S D p) (limit : Limit)
    (s : SearchState) (h : TTMoveOK G (Search.Ranked.U S) s.tt) :
    TTMoveOK G (Search.Ranked.U S) (findBestMove G qfuel p D limit s).2.tt :=
  findBestMove_inv_ranked (ttHypR G hr hinj) qfuel p D hS limit s h

/-- **C2, ranked.** -/
theorem bestmove_legal_ranked (qfuel : Nat) (p : P) (D : Nat) (hS : S D p) (limit : Limit)
    (s : SearchState) (h : TTMoveOK G (Search.Ranked.U S) s.tt) (score : Int) (mv : Option Move)
    (s' : SearchState) (hres : findBestMove G qfuel p D limit s = (some (score, mv), s')) :
    (∀ m, mv = some m → m ∈ G.moves p) ∧ (G.moves p ≠ [] → mv ≠ none) :=
  bestmove_of_iterate G qfuel p D limit s score mv s' hres
    (tt_move_legal_iterate_ranked G hr hinj qfuel p D hS D 1 (NEGATIVE_INFINITY, none)
      (fun _ h => by cases h) (resetState limit s) h).2

/-- **C3, ranked.** -/
theorem bestmove_none_iff_ranked (qfuel : Nat) (p : P) (D : Nat) (hS : S D p) (limit : Limit)
    (s : SearchState) (h : TTMoveOK G (Search.Ranked.U S) s.tt) (score : Int) (mv : Option Move)
    (s' : SearchState) (hres : findBestMove G qfuel p D limit s = (some (score, mv), s')) :
    mv = none ↔ G.moves p = [] :=
  none_iff_of_legal G p mv (bestmove_legal_ranked G hr hinj qfuel p D hS limit s h score mv s' hres)

end ranked

/-- the closed-set theorems ARE the ranked ones for the constant family: e.g. C1. -/
theorem tt_move_legal_invariant_of_ranked {P : Type} (G : Game P) {S : P → Prop} (hcl : Closed G S)
    (hinj : HashInj G S) (qfuel : Nat) (p : P) (hS : S p) (D : Nat) (limit : Limit)
    (s : SearchState) (h : TTMoveOK G S s.tt) :
    TTMoveOK G S (findBestMove G qfuel p D limit s).2.tt := by
  have hU : ∀ q, Search.Ranked.U (fun _ : Nat => S) q ↔ S q := fun q => ⟨fun ⟨_, h⟩ => h, fun h => ⟨0, h⟩⟩
  have h' := tt_move_legal_invariant_ranked G (S := fun _ => S) (ranked_of_closed G hcl)
    (fun a b ha hb e => hinj a b ((hU a).1 ha) ((hU b).1 hb) e) qfuel p D hS limit s
    (fun q hq e he m hm => h q ((hU q).1 hq) e he m hm)
  exact fun q hq e he m hm => h' q ((hU q).2 hq) e he m hm

/-! ## zero budget, concretely: the fallback move -/

section
variable {P : Type} (G : Game P)

/-- with a zero poll budget and depth ≥ 1 the search answers at once with the first generated move
    (no node searched, nothing stored) — independent of any table or hash assumption. -/
theorem zero_budget_answer (qfuel : Nat) (p : P) (D : Nat) (s : SearchState) :
    (findBestMove G qfuel p (D + 1) (.polls 0) s).1 = some (NEGATIVE_INFINITY, (G.moves p).head?) := by
  rw [findBestMove_eq, iterate.eq_2]
  have : ¬ (1 > D + 1) := by omega
  simp only [this, ↓reduceIte]
  rfl

/-- and with depth 0 no iteration runs at all: same answer. -/
theorem zero_depth_answer (qfuel : Nat) (p : P) (limit : Limit) (s : SearchState) :
    (findBestMove G qfuel p 0 limit s).1 = some (NEGATIVE_INFINITY, (G.moves p).head?) := rfl

end
end Flounder.Props.C03
