/-
  C11 (continued) — the Zobrist hash is the XOR of the keys of the features present, and every
  single-component edit of a position XORs exactly the keys of the features that change.
  All theorems hold for EVERY key table `k : ZKeys`.
-/
import Flounder.Lemmas.XorBoard
import Flounder.Lemmas.XorDiff
import Flounder.Props.C11

namespace Flounder.Props.C11
open Flounder Flounder.Spec

/-! ## 1. the code computes the XOR of the feature keys -/

/-- **The four XOR loops of `ZobristTable::hash` compute the XOR of the keys of the features present**
    (no consistency hypothesis on the board). -/
theorem hash_eq_xor_features (k : ZKeys) (b : Board) : hash k b = Spec.hashSpec k b := by
  rw [hash_decomp, hashSpec_decomp]

/-- order-independent form: the hash is the XOR of the keys over ANY enumeration of the features. -/
theorem hash_eq_xor_any_order (k : ZKeys) (b : Board) (l : List Feature) (h : l.Perm (features b)) :
    hash k b = xorAll (l.map (ZKeys.key k)) := by
  rw [hash_eq_xor_features, xorAll_map, xsum_perm h]; rfl

/-! ## 2. single-component sensitivity -/

/-- well-formed features: squares `< 64`, castling sides `< 2`. -/
def WF : Feature → Prop
  | .man _ _ s => s < 64
  | .whiteToMove => True
  | .right _ side => side < 2
  | .epSquare s => s < 64

/-- the drawn keys are non-zero and pairwise distinct (837 words). -/
def KeysGood (k : ZKeys) : Prop :=
  (∀ f, WF f → ZKeys.key k f ≠ 0) ∧ (∀ f g, WF f → WF g → f ≠ g → ZKeys.key k f ≠ ZKeys.key k g)

/-- **2a.** adding a man on an empty square XORs exactly that man's key. -/
theorem hash_add_piece (k : ZKeys) (b : Board) (c : Color) (p : Piece) (s : Nat) (hs : s < 64)
    (he : EmptyAt b s) : hash k (b.addPiece c p s) = hash k b ^^^ k.piece c p s := by
  obtain ⟨h1, h2, h3⟩ := addPiece_rest b c p s
  rw [hash_decomp, hash_decomp, menSum_addPiece k b c p s hs he, h1, h2, h3]
  ac_rfl

/-- **2b.** removing the man that stands on `s` XORs exactly that man's key. -/
theorem hash_remove_piece (k : ZKeys) (b : Board) (c : Color) (p : Piece) (s : Nat) (hs : s < 64)
    (hx : HoldsExactly b c p s) : hash k (b.removePiece c p s) = hash k b ^^^ k.piece c p s := by
  obtain ⟨h1, h2, h3⟩ := removePiece_rest b c p s
  rw [hash_decomp, hash_decomp, menSum_removePiece k b c p s hs hx, h1, h2, h3]
  ac_rfl

/-- 2b with the hypothesis on the eight stored bitboards. -/
theorem hash_remove_piece' (k : ZKeys) (b : Board) (c : Color) (p : Piece) (s : Nat) (hs : s < 64)
    (hm : ManAt b c p s) : hash k (b.removePiece c p s) = hash k b ^^^ k.piece c p s :=
  hash_remove_piece k b c p s hs (hm.holdsExactly hs)

/-- replacing all rights at once XORs the keys of the old and of the new rights. -/
theorem hash_change_castle (k : ZKeys) (b : Board) (cr : Castle) :
    hash k { b with castle := cr } = hash k b ^^^ castleSum k b.castle ^^^ castleSum k cr := by
  rw [hash_decomp, hash_decomp]
  show menSum k b ^^^ castleSum k cr ^^^ epKey k b.ep ^^^ sideKey k b.active = _
  generalize castleSum k b.castle = w
  have hw : w ^^^ w = 0 := UInt64.xor_self
  calc menSum k b ^^^ castleSum k cr ^^^ epKey k b.ep ^^^ sideKey k b.active
      = menSum k b ^^^ (w ^^^ w) ^^^ castleSum k cr ^^^ epKey k b.ep ^^^ sideKey k b.active := by
        rw [hw]; simp
    _ = _ := by ac_rfl

/-- the rights with exactly one of them toggled; `side` 0 = king side, otherwise queen side. -/
def toggleRight (cr : Castle) : Color → Nat → Castle
  | .white, 0 => { cr with wk := !cr.wk }
  | .white, _ => { cr with wq := !cr.wq }
  | .black, 0 => { cr with bk := !cr.bk }
  | .black, _ => { cr with bq := !cr.bq }

theorem ite_not_xor (x : Bool) (v : UInt64) :
    (if (!x) = true then v else 0) = (if x = true then v else 0) ^^^ v := by
  cases x <;> simp

theorem castleSum_toggle (k : ZKeys) (cr : Castle) (c : Color) (side : Nat) (h : side < 2) :
    castleSum k (toggleRight cr c side) = castleSum k cr ^^^ k.castle c side := by
  have hside : side = 0 ∨ side = 1 := by omega
  cases c <;> rcases hside with rfl | rfl <;>
    simp only [castleSum, toggleRight, ite_not_xor] <;> ac_rfl

/-- **2c.** changing exactly one castling right XORs exactly that right's key. -/
theorem hash_toggle_right (k : ZKeys) (b : Board) (c : Color) (side : Nat) (h : side < 2) :
    hash k { b with castle := toggleRight b.castle c side } = hash k b ^^^ k.castle c side := by
  rw [hash_decomp, hash_decomp]
  show menSum k b ^^^ castleSum k (toggleRight b.castle c side) ^^^ epKey k b.ep ^^^ sideKey k b.active = _
  rw [castleSum_toggle k _ c side h]
  ac_rfl

/-- 2c, the four cases spelled out. -/
theorem hash_toggle_right_cases (k : ZKeys) (b : Board) :
    hash k { b with castle := { b.castle with wk := !b.castle.wk } } = hash k b ^^^ k.castle .white 0 ∧
    hash k { b with castle := { b.castle with wq := !b.castle.wq } } = hash k b ^^^ k.castle .white 1 ∧
    hash k { b with castle := { b.castle with bk := !b.castle.bk } } = hash k b ^^^ k.castle .black 0 ∧
    hash k { b with castle := { b.castle with bq := !b.castle.bq } } = hash k b ^^^ k.castle .black 1 :=
  ⟨hash_toggle_right k b .white 0 (by omega), hash_toggle_right k b .white 1 (by omega),
   hash_toggle_right k b .black 0 (by omega), hash_toggle_right k b .black 1 (by omega)⟩

/-- **2d.** changing the en-passant square XORs the old and the new en-passant key. -/
theorem hash_change_ep (k : ZKeys) (b : Board) (e' : Option Nat) :
    hash k { b with ep := e' } = hash k b ^^^ epKey k b.ep ^^^ epKey k e' := by
  rw [hash_decomp, hash_decomp]
  show menSum k b ^^^ castleSum k b.castle ^^^ epKey k e' ^^^ sideKey k b.active = _
  generalize epKey k b.ep = w
  have hw : w ^^^ w = 0 := UInt64.xor_self
  calc menSum k b ^^^ castleSum k b.castle ^^^ epKey k e' ^^^ sideKey k b.active
      = menSum k b ^^^ castleSum k b.castle ^^^ (w ^^^ w) ^^^ epKey k e' ^^^ sideKey k b.active := by
        rw [hw]; simp
    _ = _ := by ac_rfl

/-! ### 2e. the hash changes -/

theorem xor_xor_ne_self (h x y : UInt64) (hxy : x ≠ y) : h ^^^ x ^^^ y ≠ h := by
  rw [UInt64.xor_assoc]
  apply xor_ne_self
  intro h0
  exact hxy (UInt64.xor_eq_zero_iff.mp h0)

theorem hash_add_changes (k : ZKeys) (hk : KeysGood k) (b : Board) (c : Color) (p : Piece) (s : Nat)
    (hs : s < 64) (he : EmptyAt b s) : hash k (b.addPiece c p s) ≠ hash k b := by
  rw [hash_add_piece k b c p s hs he]
  exact xor_ne_self _ _ (hk.1 (.man c p s) hs)

theorem hash_remove_changes (k : ZKeys) (hk : KeysGood k) (b : Board) (c : Color) (p : Piece) (s : Nat)
    (hs : s < 64) (hx : HoldsExactly b c p s) : hash k (b.removePiece c p s) ≠ hash k b := by
  rw [hash_remove_piece k b c p s hs hx]
  exact xor_ne_self _ _ (hk.1 (.man c p s) hs)

/-- a man replaced by a man of another colour or type on the same square: the two keys are XORed in. -/
theorem hash_replace_piece (k : ZKeys) (b : Board) (c c' : Color) (p p' : Piece) (s : Nat) (hs : s < 64)
    (hm : ManAt b c p s) :
    hash k ((b.removePiece c p s).addPiece c' p' s) = hash k b ^^^ k.piece c p s ^^^ k.piece c' p' s := by
  rw [hash_add_piece k _ c' p' s hs (emptyAt_removePiece_self b c p s hs hm),
    hash_remove_piece' k b c p s hs hm]

theorem hash_replace_changes (k : ZKeys) (hk : KeysGood k) (b : Board) (c c' : Color) (p p' : Piece)
    (s : Nat) (hs : s < 64) (hm : ManAt b c p s) (hne : ¬ (c' = c ∧ p' = p)) :
    hash k ((b.removePiece c p s).addPiece c' p' s) ≠ hash k b := by
  rw [hash_replace_piece k b c c' p p' s hs hm]
  apply xor_xor_ne_self
  apply hk.2 (.man c p s) (.man c' p' s) hs hs
  intro h; injection h with h1 h2 _; exact hne ⟨h1.symm, h2.symm⟩

/-- a man moved to an empty square: the keys of the two squares are XORed in. -/
theorem hash_move_piece (k : ZKeys) (b : Board) (c : Color) (p : Piece) (s t : Nat) (hs : s < 64)
    (ht : t < 64) (hm : ManAt b c p s) (he : EmptyAt b t) :
    hash k ((b.removePiece c p s).addPiece c p t) = hash k b ^^^ k.piece c p s ^^^ k.piece c p t := by
  rw [hash_add_piece k _ c p t ht (emptyAt_removePiece_other b c p s t hs ht he),
    hash_remove_piece' k b c p s hs hm]

theorem hash_move_changes (k : ZKeys) (hk : KeysGood k) (b : Board) (c : Color) (p : Piece) (s t : Nat)
    (hs : s < 64) (ht : t < 64) (hst : s ≠ t) (hm : ManAt b c p s) (he : EmptyAt b t) :
    hash k ((b.removePiece c p s).addPiece c p t) ≠ hash k b := by
  rw [hash_move_piece k b c p s t hs ht hm he]
  apply xor_xor_ne_self
  apply hk.2 (.man c p s) (.man c p t) hs ht
  intro h; injection h with _ _ h3; exact hst h3

theorem hash_toggle_right_changes (k : ZKeys) (hk : KeysGood k) (b : Board) (c : Color) (side : Nat)
    (h : side < 2) : hash k { b with castle := toggleRight b.castle c side } ≠ hash k b := by
  rw [hash_toggle_right k b c side h]
  exact xor_ne_self _ _ (hk.1 (.right c side) h)

/-- the en-passant square changed: `none ↔ some s`, or `some s ↦ some t` with `s ≠ t` (squares `< 64`). -/
theorem hash_ep_changes (k : ZKeys) (hk : KeysGood k) (b : Board) (e' : Option Nat) (hne : e' ≠ b.ep)
    (hold : ∀ s, b.ep = some s → s < 64) (hnew : ∀ s, e' = some s → s < 64) :
    hash k { b with ep := e' } ≠ hash k b := by
  rw [hash_change_ep]
  cases hb : b.ep with
  | none =>
    cases e' with
    | none => exact absurd hb.symm hne
    | some t =>
      simp only [epKey, UInt64.xor_zero]
      exact xor_ne_self _ _ (hk.1 (.epSquare t) (hnew t rfl))
  | some s =>
    cases e' with
    | none =>
      simp only [epKey, UInt64.xor_zero]
      exact xor_ne_self _ _ (hk.1 (.epSquare s) (hold s hb))
    | some t =>
      apply xor_xor_ne_self
      apply hk.2 (.epSquare s) (.epSquare t) (hold s hb) (hnew t rfl)
      intro h; injection h with h1
      apply hne; rw [hb, h1]

/-- **2e. Every single-component change of a position changes the hash**, for every key table whose
    837 keys are non-zero and pairwise distinct. -/
theorem single_component_changes (k : ZKeys) (hk : KeysGood k) (b : Board) :
    -- one man added on an empty square
    (∀ c p s, s < 64 → EmptyAt b s → hash k (b.addPiece c p s) ≠ hash k b) ∧
    -- one man removed
    (∀ c p s, s < 64 → HoldsExactly b c p s → hash k (b.removePiece c p s) ≠ hash k b) ∧
    -- one man replaced by a man of another colour or type on the same square
    (∀ c p c' p' s, s < 64 → ManAt b c p s → ¬ (c' = c ∧ p' = p) →
      hash k ((b.removePiece c p s).addPiece c' p' s) ≠ hash k b) ∧
    -- one man moved to an empty square
    (∀ c p s t, s < 64 → t < 64 → s ≠ t → ManAt b c p s → EmptyAt b t →
      hash k ((b.removePiece c p s).addPiece c p t) ≠ hash k b) ∧
    -- side to move flipped
    (hash k (flipSide b) ≠ hash k b) ∧
    -- one castling right toggled
    (∀ c side, side < 2 → hash k { b with castle := toggleRight b.castle c side } ≠ hash k b) ∧
    -- en-passant square changed
    (∀ e', e' ≠ b.ep → (∀ s, b.ep = some s → s < 64) → (∀ s, e' = some s → s < 64) →
      hash k { b with ep := e' } ≠ hash k b) :=
  ⟨fun c p s hs he => hash_add_changes k hk b c p s hs he,
   fun c p s hs hx => hash_remove_changes k hk b c p s hs hx,
   fun c p c' p' s hs hm hne => hash_replace_changes k hk b c c' p p' s hs hm hne,
   fun c p s t hs ht hst hm he => hash_move_changes k hk b c p s t hs ht hst hm he,
   hash_side_changes k b (hk.1 .whiteToMove trivial),
   fun c side h => hash_toggle_right_changes k hk b c side h,
   fun e' hne hold hnew => hash_ep_changes k hk b e' hne hold hnew⟩

/-! ### non-vacuity of the hypotheses -/

/-- the initial position. -/
def startBoard : Board :=
  { pawns := 0x00FF00000000FF00, knights := 0x4200000000000042, bishops := 0x2400000000000024,
    rooks := 0x8100000000000081, queens := 0x0800000000000008, kings := 0x1000000000000010,
    white := 0x000000000000FFFF, black := 0xFFFF000000000000, active := .white,
    castle := ⟨true, true, true, true⟩, ep := none, halfmove := 0, fullmove := 1 }

/-- hypotheses of 2a hold: e4 (square 28) is empty in the initial position. -/
example : 28 < 64 ∧ EmptyAt startBoard 28 := by decide

/-- hypotheses of 2b / "moved" hold: a white pawn stands on e2 (square 12) in the initial position. -/
example : ManAt startBoard .white .pawn 12 :=
  ⟨by decide, by decide, by decide, fun p' h => by cases p' <;> first | exact absurd rfl h | decide⟩

/-! ### `KeysGood` is satisfiable (so 2e is not vacuous) -/

/-- an injective numbering of the 837 well-formed features by 1 … 837. -/
def enc : Feature → Nat
  | .man c p s => 1 + (c.index * 6 + p.index) * 64 + s
  | .whiteToMove => 769
  | .right c side => 770 + c.index * 2 + side
  | .epSquare s => 774 + s

/-- the key table whose keys are 1, 2, …, 837. -/
def demoKeys : ZKeys :=
  ⟨fun c p s => (enc (.man c p s)).toUInt64, (enc .whiteToMove).toUInt64,
   fun c side => (enc (.right c side)).toUInt64, fun s => (enc (.epSquare s)).toUInt64⟩

theorem key_demoKeys (f : Feature) : ZKeys.key demoKeys f = (enc f).toUInt64 := by cases f <;> rfl

theorem enc_bounds (f : Feature) (h : WF f) : 0 < enc f ∧ enc f < 1000 := by
  cases f with
  | man c p s => cases c <;> cases p <;> simp only [enc, Color.index, Piece.index, WF] at * <;> omega
  | whiteToMove => simp [enc]
  | right c side => cases c <;> simp only [enc, Color.index, WF] at * <;> omega
  | epSquare s => simp only [enc, WF] at *; omega

theorem enc_inj (f g : Feature) (hf : WF f) (hg : WF g) (h : enc f = enc g) : f = g := by
  cases f with
  | man c p s =>
    cases g with
    | man c' p' s' =>
      have hcp : c.index * 6 + p.index = c'.index * 6 + p'.index ∧ s = s' := by
        simp only [enc, WF] at *; omega
      obtain ⟨h1, rfl⟩ := hcp
      have : c = c' ∧ p = p' := by
        cases c <;> cases c' <;> cases p <;> cases p' <;>
          simp only [Color.index, Piece.index] at h1 <;> first | exact ⟨rfl, rfl⟩ | omega
      rw [this.1, this.2]
    | whiteToMove => cases c <;> cases p <;> simp only [enc, Color.index, Piece.index, WF] at * <;> omega
    | right c' side => cases c <;> cases p <;> cases c' <;> simp only [enc, Color.index, Piece.index, WF] at * <;> omega
    | epSquare t => cases c <;> cases p <;> simp only [enc, Color.index, Piece.index, WF] at * <;> omega
  | whiteToMove =>
    cases g with
    | man c p s => cases c <;> cases p <;> simp only [enc, Color.index, Piece.index, WF] at * <;> omega
    | whiteToMove => rfl
    | right c' side => cases c' <;> simp only [enc, Color.index, WF] at * <;> omega
    | epSquare t => simp only [enc, WF] at *; omega
  | right c side =>
    cases g with
    | man c' p s => cases c <;> cases c' <;> cases p <;> simp only [enc, Color.index, Piece.index, WF] at * <;> omega
    | whiteToMove => cases c <;> simp only [enc, Color.index, WF] at * <;> omega
    | right c' side' =>
      cases c <;> cases c' <;> simp only [enc, Color.index, WF] at * <;>
        first | omega | ((have : side = side' := by omega); rw [this])
    | epSquare t => cases c <;> simp only [enc, Color.index, WF] at * <;> omega
  | epSquare s =>
    cases g with
    | man c p t => cases c <;> cases p <;> simp only [enc, Color.index, Piece.index, WF] at * <;> omega
    | whiteToMove => simp only [enc, WF] at *; omega
    | right c' side => cases c' <;> simp only [enc, Color.index, WF] at * <;> omega
    | epSquare t => simp only [enc, WF] at *; (have : s = t := by omega); rw [this]

theorem toUInt64_toNat (n : Nat) (h : n < 1000) : n.toUInt64.toNat = n := by
  simp only [Nat.toUInt64, UInt64.toNat_ofNat']
  omega

/-- **`KeysGood` is satisfiable**: the keys 1 … 837 are non-zero and pairwise distinct. -/
theorem keysGood_demoKeys : KeysGood demoKeys := by
  constructor
  · intro f hf h0
    rw [key_demoKeys] at h0
    have := congrArg UInt64.toNat h0
    rw [toUInt64_toNat _ (enc_bounds f hf).2] at this
    have := (enc_bounds f hf).1
    simp_all
  · intro f g hf hg hne h
    rw [key_demoKeys, key_demoKeys] at h
    have := congrArg UInt64.toNat h
    rw [toUInt64_toNat _ (enc_bounds f hf).2, toUInt64_toNat _ (enc_bounds g hg).2] at this
    exact hne (enc_inj f g hf hg this)

theorem keysGood_satisfiable : ∃ k, KeysGood k := ⟨demoKeys, keysGood_demoKeys⟩

/-! ## 3. the XOR of two hashes -/

/-- **The XOR of the hashes of two boards is the XOR of the keys of the features that exactly one of
    them has** (`mem_symmDiff`, `mem_features` say which those are). -/
theorem hash_diff (k : ZKeys) (a b : Board) :
    hash k a ^^^ hash k b = xorAll ((symmDiff (features a) (features b)).map (ZKeys.key k)) := by
  rw [hash_eq_xor_features, hash_eq_xor_features, xorAll_map]
  exact xsum_symmDiff _ _ (features_nodup a) (features_nodup b) _

/-- boards with the same feature set hash equal; the hash differs only through differing features. -/
theorem hash_eq_of_same_features (k : ZKeys) (a b : Board)
    (h : ∀ f, f ∈ features a ↔ f ∈ features b) : hash k a = hash k b := by
  rw [hash_eq_xor_features, hash_eq_xor_features]
  exact xsum_perm ((List.perm_ext_iff_of_nodup (features_nodup a) (features_nodup b)).mpr h) _

end Flounder.Props.C11
