/-
  Non-vacuity of the end-to-end chess theorems (Props/ChessSearch.lean) on concrete boards.

  `rookBoard` : White Kb6, Rh1; Black Ka8; White to move.  `Rh1-h8` mates.
  `matedBoard`: the position after `Rh8#` (Black to move, mated).
  Key table `keyW 1`: only the side-to-move key is non-zero — every successor of a board hashes differently from
  the board itself, which is all `chess_mate_in_one_played` asks of the keys.

    * `rook_mate_in_one` : every hypothesis of `chess_mate_in_one_played` holds for `rookBoard`, every depth
      `1..64`, every fuel, no deadline (so the run completes); the one thing left as a hypothesis is that the MODEL
      did not run out of quiescence fuel (`findBestMove … = (some _, _)`).  Conclusion: the answer is a legal
      mating move.
    * `mated_bestmove_none` : every hypothesis of `chess_bestmove_legal` holds for `matedBoard` at EVERY depth
      (the root has no legal move, so the only board within `D` plies is the root and the hash hypothesis is
      trivially true), every limit, fresh table; conclusion: no move is reported, because the position is mate.
    * `check_bestmove` : a NON-degenerate instance of the hash hypothesis.  `checkBoard` (White Kb6, Ra1; Black Ka8
      in check, Black to move) has exactly one legal move, `Ka8-b8`; the boards within 1 ply are the root and its
      one successor, which `keyW 1` separates.  Every hypothesis of `chess_bestmove_legal` holds at depth 1 for
      every limit (also a zero budget) and fuel; conclusion: the reported move is `Kb8`.
-/
import Flounder.Props.ChessSearch
import Flounder.Lemmas.KeySimExample

namespace Flounder.Props.ChessSearch.Example
open Flounder Gen Flounder.Search Flounder.Chess Flounder.KeySim.Example

/-- White Kb6 (41), Rh1 (7); Black Ka8 (56); White to move. -/
def rookBoard : Board :=
  { pawns := 0, knights := 0, bishops := 0, rooks := u64 (2^7), queens := 0, kings := u64 (2^41 + 2^56),
    white := u64 (2^41 + 2^7), black := u64 (2^56), active := .white, castle := ⟨false, false, false, false⟩,
    ep := none, halfmove := 0, fullmove := 1 }

/-- Rh1-h8. -/
def rh8 : Move := ⟨7, 63, .rook, .quiet⟩

theorem rookBoard_good : Good rookBoard := by decide +kernel

theorem rh8_legal : Spec.legal (Spec.abs rookBoard) rh8 = true := by decide +kernel

theorem rh8_mates : MatesByRules (Spec.abs rookBoard) rh8 := by
  rw [matesByRules_iff_isMate]
  decide +kernel

/-- with `keyW 1` a board and its successor never share a key (the side to move differs). -/
theorem keyW_no_child_collision (b b' : Board) (m : Move) (h : b.makeMove m = some b') :
    hash (keyW 1) b' ≠ hash (keyW 1) b := by
  have ha := (Props.C02.make_move_flips_side b b' m h).1
  rw [hash_keyW, hash_keyW, ha]
  cases b.active <;> decide

/-- **`chess_mate_in_one_played` applies**: White mates in one from `rookBoard` at every depth the engine
    accepts. -/
theorem rook_mate_in_one (D qfuel : Nat) (hD1 : 1 ≤ D) (hD64 : D ≤ 64) (score : Int) (mv : Option Move)
    (s' : SearchState)
    (hrun : findBestMove (cg (keyW 1)) qfuel rookBoard D .none {} = (some (score, mv), s')) :
    ∃ m, mv = some m ∧ Spec.legal (Spec.abs rookBoard) m = true ∧ MatesByRules (Spec.abs rookBoard) m := by
  have hfin : s'.stopSeen = false := by
    have := C05.findBestMove_completes_of_no_deadline (cg (keyW 1)) qfuel rookBoard D {}
    rw [hrun] at this
    exact this
  exact chess_mate_in_one_played (keyW 1) rookBoard rookBoard_good D qfuel .none hD1 hD64
    (fun m b' _ h => keyW_no_child_collision rookBoard b' m h) ⟨rh8, rh8_legal, rh8_mates⟩ score mv s' hrun hfin

/-- the position after `Rh8#`: Black to move. -/
def matedBoard : Board :=
  { pawns := 0, knights := 0, bishops := 0, rooks := u64 (2^63), queens := 0, kings := u64 (2^41 + 2^56),
    white := u64 (2^41 + 2^63), black := u64 (2^56), active := .black, castle := ⟨false, false, false, false⟩,
    ep := none, halfmove := 0, fullmove := 1 }

theorem matedBoard_valid : Spec.valid matedBoard = true := by decide +kernel

theorem matedBoard_isMate : Spec.isMate (Spec.abs matedBoard) = true := by decide +kernel

theorem matedBoard_no_moves (k : ZKeys) : (cg k).moves matedBoard = [] :=
  (moves_nil_iff k matedBoard_valid).2 ((Spec.isMate_iff _).1 matedBoard_isMate).2

/-- a root without moves is the only board within any number of plies of itself. -/
theorem within_of_no_moves {P : Type} {G : Game P} {root : P} (h : G.moves root = []) {n : Nat} {q : P}
    (hw : Search.Within G root n q) : q = root := by
  induction hw with
  | root n => rfl
  | step _ hm ih =>
    subst ih
    rw [h] at hm
    cases hm

/-- **`chess_bestmove_legal` applies** at every depth, limit and fuel, for every key table, from the fresh
    state: on the mated board the engine reports no move — and only because the position is mate. -/
theorem mated_bestmove_none (k : ZKeys) (D qfuel : Nat) (limit : Limit) (score : Int) (mv : Option Move)
    (s' : SearchState) (hres : findBestMove (cg k) qfuel matedBoard D limit {} = (some (score, mv), s')) :
    mv = none := by
  have hinj : HashInjOn (cg k) (Search.Within (cg k) matedBoard D) := by
    intro a b ha hb _
    rw [within_of_no_moves (matedBoard_no_moves k) ha, within_of_no_moves (matedBoard_no_moves k) hb]
  exact (chess_bestmove_none_iff_mate_or_stalemate k matedBoard matedBoard_valid D qfuel limit {}
    (C03.ttMoveOK_empty (cg k) _) hinj score mv s' hres).2 (Or.inl matedBoard_isMate)

/-- White Kb6 (41), Ra1 (0); Black Ka8 (56), in check; Black to move. -/
def checkBoard : Board :=
  { pawns := 0, knights := 0, bishops := 0, rooks := u64 (2^0), queens := 0, kings := u64 (2^41 + 2^56),
    white := u64 (2^41 + 2^0), black := u64 (2^56), active := .black, castle := ⟨false, false, false, false⟩,
    ep := none, halfmove := 0, fullmove := 1 }

/-- Ka8-b8. -/
def kb8 : Move := ⟨56, 57, .king, .quiet⟩

theorem checkBoard_valid : Spec.valid checkBoard = true := by decide +kernel

theorem checkBoard_legalMoves : Spec.legalMoves (Spec.abs checkBoard) = [kb8] := by decide +kernel

theorem checkBoard_legal_iff (m : Move) : Spec.legal (Spec.abs checkBoard) m = true ↔ m = kb8 := by
  rw [← Spec.mem_legalMoves, checkBoard_legalMoves, List.mem_singleton]

/-- the boards within one ply of `checkBoard`: the root and its one successor. -/
theorem checkBoard_within (k : ZKeys) {q : Board} (h : Search.Within (cg k) checkBoard 1 q) :
    q = checkBoard ∨ q = (cg k).play checkBoard kb8 := by
  generalize hn : 1 = n at h
  cases h with
  | root n => exact Or.inl rfl
  | step hq hm =>
    rename_i n' q' m
    have : n' = 0 := by omega
    subst this
    have hq' : q' = checkBoard := within_zero hq
    subst hq'
    have := (checkBoard_legal_iff m).1 ((mem_moves_iff k checkBoard_valid m).1 hm)
    subst this
    exact Or.inr rfl

/-- the hash hypothesis holds: `keyW 1` separates the two boards within one ply of `checkBoard`. -/
theorem checkBoard_hashInj : HashInjOn (cg (keyW 1)) (Search.Within (cg (keyW 1)) checkBoard 1) := by
  have hmk : checkBoard.makeMove kb8 = some ((cg (keyW 1)).play checkBoard kb8) :=
    (play_legal (keyW 1) checkBoard_valid ((checkBoard_legal_iff kb8).2 rfl)).1
  have hne := keyW_no_child_collision checkBoard _ kb8 hmk
  intro a b ha hb e
  rcases checkBoard_within (keyW 1) ha with rfl | rfl <;> rcases checkBoard_within (keyW 1) hb with rfl | rfl
  · rfl
  · exact absurd e.symm hne
  · exact absurd e hne
  · rfl

/-- **`chess_bestmove_legal` applies** with a non-trivial horizon: depth 1, any limit (a zero budget included),
    any fuel, fresh state — whatever the engine reports on `checkBoard` is the one legal move `Kb8`. -/
theorem check_bestmove (qfuel : Nat) (limit : Limit) (score : Int) (mv : Option Move) (s' : SearchState)
    (hres : findBestMove (cg (keyW 1)) qfuel checkBoard 1 limit {} = (some (score, mv), s')) :
    mv = some kb8 := by
  obtain ⟨h1, h2⟩ := chess_bestmove_legal (keyW 1) checkBoard checkBoard_valid 1 qfuel limit {}
    (C03.ttMoveOK_empty (cg (keyW 1)) _) checkBoard_hashInj score mv s' hres
  cases hm : mv with
  | none =>
    have := h2.1 hm kb8
    rw [(checkBoard_legal_iff kb8).2 rfl] at this
    cases this
  | some m => rw [(checkBoard_legal_iff m).1 (h1 m hm)]

end Flounder.Props.ChessSearch.Example
