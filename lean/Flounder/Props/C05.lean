/-
  C05 — the search computes minimax.

  Fail-soft alpha-beta negamax with transposition table, move ordering, fail-hard quiescence and
  iterative deepening (Model/Search.lean, generic over an abstract `Game`) returns the value of the
  plain, un-pruned, table-free reference `Spec.V` / `Spec.Q` (Spec/Minimax.lean).  `Spec.Q` is stand-pat
  minimax over the children that can matter; it equals the plain quiescence minimax `Spec.Qplain` wherever
  that is finite, solves the plain minimax equations wherever it is defined, and is defined on every
  position of a game with a quiescence rank — every good chess board (Lemmas/QSpec.lean,
  Props/QSpecChess.lean), so the hypotheses `Spec.V … = some v` below exclude nothing there.

  Vocabulary (Lemmas/SearchBasic.lean):
  * `Contract v r α β`  : r ≤ α → v ≤ r,  r ≥ β → v ≥ r,  α < r < β → r = v.
  * `NoStop s s'`       : `stopSeen` is false before and after; `stopSeen` is sticky (`stopSeen_sticky`),
                          so every poll in between returned false — for ANY `Limit`.
  * `Closed S`, `HashInj S` : `S` is a set of positions closed under the moves of the main search on
                          which the 64-bit hash is injective (what "key-verified entry" assumes).
  * `RepOK s`           : no hash occurs twice on the repetition stack (preserved: the search never
                          changes `rep`), so `is_repetition` never fires.
  * `TTSound c S qf tt` : every key-verified entry of a position of `S` is sound for the reference
                          value of EXACTLY its own depth (`exact` → equal, `lower`/`upper` → bound),
                          it carries a legal move when it has depth ≥ 1 and the position has moves,
                          and the move of an exact in-window entry is minimax-optimal.
                          Scores are compared through a view `c`:
                            `c = id`               strict reading  (`TTSoundStrict`),
                            `c = Spec.clampClass`  won / lost beyond ±INFINITY (`TTSoundClass`).
  * "no deeper reuse"   : `s'.deeperHits = s.deeperHits`; the counter is monotone (`deeperHits_mono`),
                          so every accepted entry had exactly the requested depth.

  Why two views.  `find_best_move` caches the root result of every completed iteration as `.exact`.
  With the full window (-32767, 32767) the result is exact only when the true value lies strictly
  inside; a mate-class value v ≥ 32767 only yields some r with 32767 ≤ r ≤ v (first cutoff wins), and
  that r is stored as "exact".  So the STRICT table invariant is not preserved by `iterate`, while the
  CLASS invariant is: the whole proof is done once for an abstract view `c` (`Search.Clamp`) and
  instantiated twice.  `find_best_move_value` (class view) needs no assumption on the values;
  `find_best_move_exact` (strict view) assumes every iteration's value is strictly inside the window.
  `EvalBound` turned out to be unnecessary for all statements (it is defined in SearchBasic for
  reference only): "v strictly inside the window forces score = v" follows from `Contract` alone.

  Ranked families (Lemmas/Ranked.lean).  `Closed S ∧ HashInj S` is unsatisfiable for real chess from
  most positions (the closure of the start position has more than 2^64 elements).  Every theorem below
  therefore exists in a `_ranked` form for a depth-ranked family `S : Nat → P → Prop` with
  `Ranked G S` (children of a node of `S (d+1)` lie in `S d`; `S (d+1) ⊆ S d`), the node hypothesis
  `S d p` (`d` = remaining depth; root of `find_best_move … D`: `S D p`), the hash injective on
  `Ranked.U S = ⋃ d, S d` only, and the table invariant ranging over `Ranked.U S`.  Positions below the
  horizon (quiescence) need not lie in the family.  The closed-set theorems are the corollaries for
  the constant family `S d := S`.  Props/SearchRanked.lean instantiates the family with the positions
  within `D` plies of the root and shows on a toy game what was gained.

  Extra hypothesis found necessary: `NEGATIVE_INFINITY ≤ α` and `β ≤ INFINITY` in `negamax_contract`.
  `SearchResult::worst` is -32767, not -∞; `contract_fails_below_window` is the two-position
  counterexample for α = -50000.  Every window reachable from the root satisfies the hypothesis.
-/
import Flounder.Lemmas.SearchIterate
import Flounder.Lemmas.SearchTotal
import Flounder.Lemmas.SearchCex

namespace Flounder.Props.C05
open Flounder Gen Flounder.Search

variable {P : Type} (G : Game P)

abbrev TTSoundStrict (S : P → Prop) (qf : Nat) (t : TT) : Prop := TTSound G id S qf t
abbrev TTSoundClass (S : P → Prop) (qf : Nat) (t : TT) : Prop := TTSound G Spec.clampClass S qf t

/-! ## 3. ordering is a permutation -/

/-- `order_moves` / `order_captures` never add, drop or duplicate a move — for every killer table,
    history table, table move and ply. -/
theorem order_is_permutation (s : SearchState) (p : P) (ms : List Move) (tt : Option Move) (ply : Nat) :
    (orderMoves G s p ms tt ply).Perm ms ∧ (orderCaptures G p ms).Perm ms :=
  ⟨orderMoves_perm G s p ms tt ply, orderCaptures_perm G p ms⟩

/-! ## frames: what the search never does -/

/-- `stopSeen` is sticky and `deeperHits` monotone across `negamax`; the repetition stack is untouched. -/
theorem stopSeen_sticky (qfuel d : Nat) (p : P) (ply : Nat) (α β : Int) (s : SearchState) :
    s.stopSeen = true → (negamax G qfuel d p ply α β s).2.stopSeen = true :=
  (negamax_frame G qfuel d p ply α β s).stop

theorem deeperHits_mono (qfuel d : Nat) (p : P) (ply : Nat) (α β : Int) (s : SearchState) :
    s.deeperHits ≤ (negamax G qfuel d p ply α β s).2.deeperHits :=
  (negamax_frame G qfuel d p ply α β s).deeper

theorem rep_unchanged (qfuel d : Nat) (p : P) (ply : Nat) (α β : Int) (s : SearchState) :
    (negamax G qfuel d p ply α β s).2.rep = s.rep :=
  (negamax_frame G qfuel d p ply α β s).rep

/-- the same for a whole `find_best_move` (which resets `stopSeen` first). -/
theorem findBestMove_deeperHits_mono (qfuel : Nat) (p : P) (D : Nat) (limit : Limit) (s : SearchState) :
    s.deeperHits ≤ (findBestMove G qfuel p D limit s).2.deeperHits := by
  rw [findBestMove_snd]
  exact (iterate_frame G qfuel p D D 1 _ (started limit s)).deeper

/-- quiescence touches neither table nor stack nor counters — with or without a deadline. -/
theorem quiesce_untouched (fuel : Nat) (p : P) (α β : Int) (s : SearchState) :
    (quiesce G fuel p α β s).2.tt = s.tt ∧ (quiesce G fuel p α β s).2.rep = s.rep ∧
    (quiesce G fuel p α β s).2.deeperHits = s.deeperHits ∧
    (s.stopSeen = true → (quiesce G fuel p α β s).2.stopSeen = true) :=
  let h := quiesce_frame G fuel p α β s
  ⟨h.tt, h.rep, h.deeper, h.stop⟩

/-- the `NoStop` / "completed" hypotheses are automatic without a deadline: with `Limit.none` no poll
    ever returns true, in `negamax` and in a whole `find_best_move`. -/
theorem negamax_noStop_of_no_deadline (qfuel d : Nat) (p : P) (ply : Nat) (α β : Int) (s : SearchState)
    (hl : s.limit = .none) (hs : s.stopSeen = false) :
    NoStop s (negamax G qfuel d p ply α β s).2 :=
  ⟨hs, ((negamax_frame G qfuel d p ply α β s).calm hl hs).2⟩

theorem findBestMove_completes_of_no_deadline (qfuel : Nat) (p : P) (D : Nat) (s : SearchState) :
    (findBestMove G qfuel p D .none s).2.stopSeen = false := by
  rw [findBestMove_snd]
  exact ((iterate_frame G qfuel p D D 1 _ (started .none s)).calm rfl rfl).2

/-! ## fuel -/

theorem Q_fuel_mono (n m : Nat) (p : P) (v : Int) (h : Spec.Q G n p = some v) (hnm : n ≤ m) :
    Spec.Q G m p = some v := Q_mono G n m p v h hnm

theorem V_fuel_mono (n m d : Nat) (p : P) (v : Int) (h : Spec.V G n d p = some v) (hnm : n ≤ m) :
    Spec.V G m d p = some v := V_mono G n m d p v h hnm

/-- out-of-fuel is impossible: the pruned quiescence succeeds whenever the reference value exists with no
    more fuel (any window, any deadline). -/
theorem quiesce_never_out_of_fuel (qf fuel : Nat) (p : P) (α β q : Int) (s : SearchState)
    (hq : Spec.Q G qf p = some q) (hf : qf ≤ fuel) : ∃ r, (quiesce G fuel p α β s).1 = some r :=
  quiesce_some G qf fuel p α β q s hq hf

/-- `negamax` (hence `negamaxLoop`) never returns `none` when the reference value exists — any table,
    window, stack, ply and deadline. -/
theorem negamax_never_out_of_fuel (qf qfuel d : Nat) (p : P) (ply : Nat) (α β v : Int) (s : SearchState)
    (hv : Spec.V G qf d p = some v) (hq : qf ≤ qfuel) : ∃ r, (negamax G qfuel d p ply α β s).1 = some r :=
  negamax_some G qf qfuel hq d p ply α β s v hv

/-! ## 1. quiescence -/

/-- **quiesce_contract**: a completed fail-hard quiescence satisfies the fail-soft contract for the
    stand-pat minimax `Spec.Q`, and leaves table, stack and reuse counter alone. -/
theorem quiesce_contract (fuel qf : Nat) (p : P) (α β q : Int) (s s' : SearchState) (ro : Option Int)
    (hαβ : α < β) (hq : Spec.Q G qf p = some q) (hf : qf ≤ fuel)
    (hrun : quiesce G fuel p α β s = (ro, s')) (hns : NoStop s s') :
    ∃ r, ro = some r ∧ Contract q r α β ∧ s'.tt = s.tt ∧ s'.rep = s.rep ∧
      s'.deeperHits = s.deeperHits := by
  have h1 := quiesce_ok G qf fuel p α β q s hαβ hq hf hns.1
  have h2 := quiesce_frame G fuel p α β s
  rw [hrun] at h1 h2
  obtain ⟨r, hr, hc⟩ := h1 hns.2
  exact ⟨r, hr, hc, h2.tt, h2.rep, h2.deeper⟩

/-! ## 2. negamax -/

/-- generic form for a score view `c`, ranked family: the node lies in `S d` where `d` is the remaining
    depth, the hash is injective on `Ranked.U S` only. -/
theorem negamax_contract_view_ranked {c : Int → Int} (hc : Clamp c) (S : Nat → P → Prop)
    (hr : Ranked G S) (hinj : HashInj G (Ranked.U S)) (qfuel qf d : Nat) (p : P) (ply : Nat)
    (α β v : Int) (s s' : SearchState) (ro : Option SearchResult)
    (hα : NEGATIVE_INFINITY ≤ α) (hαβ : α < β) (hβ : β ≤ INFINITY) (hSp : S d p)
    (hT : TTSound G c (Ranked.U S) qf s.tt) (hR : RepOK s) (hv : Spec.V G qf d p = some v)
    (hq : qf ≤ qfuel)
    (hrun : negamax G qfuel d p ply α β s = (ro, s')) (hns : NoStop s s')
    (hdh : s'.deeperHits = s.deeperHits) :
    ∃ r, ro = some r ∧ Contract (c v) (c r.score) α β ∧ TTSound G c (Ranked.U S) qf s'.tt ∧
      s'.rep = s.rep ∧
      (1 ≤ d → G.moves p ≠ [] → ∃ m, r.bestMove = some m ∧ m ∈ G.moves p) ∧
      (α < c r.score → c r.score < β → ∀ k m x, d = k + 1 → r.bestMove = some m →
        Spec.V G qf k (G.play p m) = some x → -x = r.score) := by
  have h1 := negamax_ok_ranked G hc hr hinj qfuel hq d p ply α β s v hSp hT hR hv hα hαβ hβ hns.1
  have h2 := negamax_frame G qfuel d p ply α β s
  rw [hrun] at h1 h2
  obtain ⟨r, hr, hres, hT'⟩ := h1 hns.2 hdh
  exact ⟨r, hr, hres.contract, hT', h2.rep, hres.move,
    fun a b k m x hk hm hx => hres.pv a b k hk m x hm hx⟩

/-- generic form for a score view `c` (closed set = constant family). -/
theorem negamax_contract_view {c : Int → Int} (hc : Clamp c) (S : P → Prop) (hcl : Closed G S)
    (hinj : HashInj G S) (qfuel qf d : Nat) (p : P) (ply : Nat) (α β v : Int) (s s' : SearchState)
    (ro : Option SearchResult)
    (hα : NEGATIVE_INFINITY ≤ α) (hαβ : α < β) (hβ : β ≤ INFINITY) (hSp : S p)
    (hT : TTSound G c S qf s.tt) (hR : RepOK s) (hv : Spec.V G qf d p = some v) (hq : qf ≤ qfuel)
    (hrun : negamax G qfuel d p ply α β s = (ro, s')) (hns : NoStop s s')
    (hdh : s'.deeperHits = s.deeperHits) :
    ∃ r, ro = some r ∧ Contract (c v) (c r.score) α β ∧ TTSound G c S qf s'.tt ∧ s'.rep = s.rep ∧
      (1 ≤ d → G.moves p ≠ [] → ∃ m, r.bestMove = some m ∧ m ∈ G.moves p) ∧
      (α < c r.score → c r.score < β → ∀ k m x, d = k + 1 → r.bestMove = some m →
        Spec.V G qf k (G.play p m) = some x → -x = r.score) := by
  have h := negamax_contract_view_ranked G hc (fun _ => S) (Ranked.ofClosed hcl)
    (by rw [Ranked.U_const]; exact hinj) qfuel qf d p ply α β v s s' ro hα hαβ hβ hSp
    (by rw [Ranked.U_const]; exact hT) hR hv hq hrun hns hdh
  rw [Ranked.U_const] at h
  exact h

/-- **negamax_contract** (strict view).  A completed `negamax` that reused no deeper entry returns a
    score satisfying the fail-soft contract for the depth-`d` minimax value, keeps the table sound and
    the stack unchanged.  For `d ≥ 1` at a position with moves the result carries a legal move, and a
    score strictly inside the window is the exact value AND the negated value of that move's child. -/
theorem negamax_contract_ranked (S : Nat → P → Prop) (hr : Ranked G S)
    (hinj : HashInj G (Ranked.U S)) (qfuel qf d : Nat)
    (p : P) (ply : Nat) (α β v : Int) (s s' : SearchState) (ro : Option SearchResult)
    (hα : NEGATIVE_INFINITY ≤ α) (hαβ : α < β) (hβ : β ≤ INFINITY) (hSp : S d p)
    (hT : TTSoundStrict G (Ranked.U S) qf s.tt) (hR : RepOK s) (hv : Spec.V G qf d p = some v)
    (hq : qf ≤ qfuel)
    (hrun : negamax G qfuel d p ply α β s = (ro, s')) (hns : NoStop s s')
    (hdh : s'.deeperHits = s.deeperHits) :
    ∃ r, ro = some r ∧ Contract v r.score α β ∧ TTSoundStrict G (Ranked.U S) qf s'.tt ∧
      s'.rep = s.rep ∧
      (1 ≤ d → G.moves p ≠ [] → ∃ m, r.bestMove = some m ∧ m ∈ G.moves p) ∧
      (α < r.score → r.score < β → r.score = v ∧ ∀ k m x, d = k + 1 → r.bestMove = some m →
        Spec.V G qf k (G.play p m) = some x → -x = v) := by
  obtain ⟨r, hr, hc, hT', hrep, hm, hpv⟩ := negamax_contract_view_ranked G clamp_id S hr hinj qfuel qf d
    p ply α β v s s' ro hα hαβ hβ hSp hT hR hv hq hrun hns hdh
  refine ⟨r, hr, hc, hT', hrep, hm, fun a b => ?_⟩
  have e : r.score = v := hc.2.2 a b
  exact ⟨e, fun k m x hk hm' hx => by rw [← e]; exact hpv a b k m x hk hm' hx⟩

/-- **negamax_contract** for a closed set (the constant family). -/
theorem negamax_contract (S : P → Prop) (hcl : Closed G S) (hinj : HashInj G S) (qfuel qf d : Nat)
    (p : P) (ply : Nat) (α β v : Int) (s s' : SearchState) (ro : Option SearchResult)
    (hα : NEGATIVE_INFINITY ≤ α) (hαβ : α < β) (hβ : β ≤ INFINITY) (hSp : S p)
    (hT : TTSoundStrict G S qf s.tt) (hR : RepOK s) (hv : Spec.V G qf d p = some v) (hq : qf ≤ qfuel)
    (hrun : negamax G qfuel d p ply α β s = (ro, s')) (hns : NoStop s s')
    (hdh : s'.deeperHits = s.deeperHits) :
    ∃ r, ro = some r ∧ Contract v r.score α β ∧ TTSoundStrict G S qf s'.tt ∧ s'.rep = s.rep ∧
      (1 ≤ d → G.moves p ≠ [] → ∃ m, r.bestMove = some m ∧ m ∈ G.moves p) ∧
      (α < r.score → r.score < β → r.score = v ∧ ∀ k m x, d = k + 1 → r.bestMove = some m →
        Spec.V G qf k (G.play p m) = some x → -x = v) := by
  have h := negamax_contract_ranked G (fun _ => S) (Ranked.ofClosed hcl)
    (by rw [Ranked.U_const]; exact hinj) qfuel qf d p ply α β v s s' ro hα hαβ hβ hSp
    (by rw [Ranked.U_const]; exact hT) hR hv hq hrun hns hdh
  rw [Ranked.U_const] at h
  exact h

/-- **negamax_contract**, won / lost view: the same with every score seen through `clampClass`;
    this is the invariant that survives `cache_search_result`. -/
theorem negamax_contract_class_ranked (S : Nat → P → Prop) (hr : Ranked G S)
    (hinj : HashInj G (Ranked.U S))
    (qfuel qf d : Nat) (p : P) (ply : Nat) (α β v : Int) (s s' : SearchState) (ro : Option SearchResult)
    (hα : NEGATIVE_INFINITY ≤ α) (hαβ : α < β) (hβ : β ≤ INFINITY) (hSp : S d p)
    (hT : TTSoundClass G (Ranked.U S) qf s.tt) (hR : RepOK s) (hv : Spec.V G qf d p = some v)
    (hq : qf ≤ qfuel)
    (hrun : negamax G qfuel d p ply α β s = (ro, s')) (hns : NoStop s s')
    (hdh : s'.deeperHits = s.deeperHits) :
    ∃ r, ro = some r ∧ Contract (Spec.clampClass v) (Spec.clampClass r.score) α β ∧
      TTSoundClass G (Ranked.U S) qf s'.tt ∧ s'.rep = s.rep ∧
      (1 ≤ d → G.moves p ≠ [] → ∃ m, r.bestMove = some m ∧ m ∈ G.moves p) :=
  let ⟨r, hr, hc, hT', hrep, hm, _⟩ := negamax_contract_view_ranked G clamp_clampClass S hr hinj qfuel qf
    d p ply α β v s s' ro hα hαβ hβ hSp hT hR hv hq hrun hns hdh
  ⟨r, hr, hc, hT', hrep, hm⟩

/-- **negamax_contract**, won / lost view, for a closed set (the constant family). -/
theorem negamax_contract_class (S : P → Prop) (hcl : Closed G S) (hinj : HashInj G S)
    (qfuel qf d : Nat) (p : P) (ply : Nat) (α β v : Int) (s s' : SearchState) (ro : Option SearchResult)
    (hα : NEGATIVE_INFINITY ≤ α) (hαβ : α < β) (hβ : β ≤ INFINITY) (hSp : S p)
    (hT : TTSoundClass G S qf s.tt) (hR : RepOK s) (hv : Spec.V G qf d p = some v) (hq : qf ≤ qfuel)
    (hrun : negamax G qfuel d p ply α β s = (ro, s')) (hns : NoStop s s')
    (hdh : s'.deeperHits = s.deeperHits) :
    ∃ r, ro = some r ∧ Contract (Spec.clampClass v) (Spec.clampClass r.score) α β ∧
      TTSoundClass G S qf s'.tt ∧ s'.rep = s.rep ∧
      (1 ≤ d → G.moves p ≠ [] → ∃ m, r.bestMove = some m ∧ m ∈ G.moves p) := by
  have h := negamax_contract_class_ranked G (fun _ => S) (Ranked.ofClosed hcl)
    (by rw [Ranked.U_const]; exact hinj) qfuel qf d p ply α β v s s' ro hα hαβ hβ hSp
    (by rw [Ranked.U_const]; exact hT) hR hv hq hrun hns hdh
  rw [Ranked.U_const] at h
  exact h

/-- the window hypothesis of `negamax_contract` cannot be dropped: fresh state (empty table, empty
    stack, no deadline — so no poll fires and nothing is reused), two positions, window (-50000, 0);
    the true value is -40000, the search answers -32767 strictly inside the window. -/
theorem contract_fails_below_window :
    ∃ (r : SearchResult) (s' : SearchState),
      negamax cexGame 1 1 0 0 (-50000) 0 {} = (some r, s') ∧ NoStop {} s' ∧ s'.deeperHits = 0 ∧
      Spec.V cexGame 1 1 0 = some (-40000) ∧ ¬ Contract (-40000) r.score (-50000) 0 := by
  have ht : ∀ k, ({} : SearchState).tt.retrieve k = none := fun k => by simp [TT.retrieve]
  have h1 := cex_run_fst {} ht rfl rfl
  have h2 := cex_run_snd {} ht rfl rfl
  refine ⟨⟨-32767, some cexMove⟩, (negamax cexGame 1 1 0 0 (-50000) 0 {}).2, ?_, ⟨rfl, h2.1⟩, h2.2,
    cex_value, ?_⟩
  · rw [← h1]
  · intro h
    have := h.2.2 (by decide) (by decide)
    revert this; decide

/-- why theorem 4 is stated up to `clampClass`: a game with evaluation 0 everywhere (`EvalBound`
    holds), root value CHECKMATE_SCORE at depth 2, and the full-window root search on a fresh state
    (empty table, root on the stack, no deadline) returns CHECKMATE_SCORE - 1.  `iterate` stores that
    result as `.exact`. -/
theorem root_result_only_class_exact (s : SearchState) (ht : ∀ k, s.tt.retrieve k = none)
    (hr : s.rep = [mateGame.hash 0]) (hl : s.limit = .none) :
    EvalBound mateGame ∧ Spec.V mateGame 2 2 0 = some CHECKMATE_SCORE ∧
    (negamax mateGame 2 2 0 0 NEGATIVE_INFINITY INFINITY s).1 = some ⟨CHECKMATE_SCORE - 1, some mateA⟩ ∧
    Spec.clampClass (CHECKMATE_SCORE - 1) = Spec.clampClass CHECKMATE_SCORE ∧
    CHECKMATE_SCORE - 1 ≠ CHECKMATE_SCORE :=
  ⟨mate_evalBound, mate_value, mate_run s ht hr hl, by decide, by decide⟩

/-! ## 4. find_best_move -/

/-- a strictly sound table is class-sound (so "fresh or strictly sound" are both covered below). -/
theorem ttSound_strict_class (S : P → Prop) (qf : Nat) (t : TT) (h : TTSoundStrict G S qf t) :
    TTSoundClass G S qf t := by
  intro p hp e he
  have := h p hp e he
  refine ⟨fun v hv hb => ?_, fun v hv hb => ?_, fun v hv hb => ?_, this.move, fun hb h1 h2 => ?_⟩
  · have := this.exact v hv hb; simp only [id] at this; rw [this]
  · exact clamp_clampClass.mono _ _ (this.lower v hv hb)
  · exact clamp_clampClass.mono _ _ (this.upper v hv hb)
  · have e' := clamp_clampClass.inside' e.eval h1 h2
    exact this.pv hb (by simp only [id]; omega) (by simp only [id]; omega)

theorem ttSound_fresh (S : P → Prop) (qf : Nat) : TTSoundClass G S qf ({} : SearchState).tt :=
  ttSound_new G _ S qf

/-- **find_best_move_value**.  A completed `find_best_move` to depth `D ≥ 1` (any `Limit`; completed =
    the final `stopSeen` is false) from an empty repetition stack, on a fresh or any class-sound
    table, with no deeper reuse: the returned score is the depth-`D` minimax value up to the won/lost
    class — hence EQUAL to it whenever that value lies strictly inside (-32767, 32767) — the
    returned move is a legal move if there is one, it is a minimax-optimal move when the score is
    inside the window, and the table is still sound. -/
theorem find_best_move_value_ranked (S : Nat → P → Prop) (hr : Ranked G S)
    (hinj : HashInj G (Ranked.U S)) (qfuel qf : Nat)
    (hq : qf ≤ qfuel) (p : P) (D : Nat) (hSp : S D p) (hD : 1 ≤ D) (limit : Limit) (s s' : SearchState)
    (ro : Option (Int × Option Move)) (v : Int)
    (hV : ∀ d, 1 ≤ d → d ≤ D → ∃ w, Spec.V G qf d p = some w) (hv : Spec.V G qf D p = some v)
    (hT : TTSoundClass G (Ranked.U S) qf s.tt) (hrep : s.rep = [])
    (hrun : findBestMove G qfuel p D limit s = (ro, s')) (hfin : s'.stopSeen = false)
    (hdh : s'.deeperHits = s.deeperHits) :
    ∃ score mv, ro = some (score, mv) ∧
      Spec.clampClass score = Spec.clampClass v ∧
      (NEGATIVE_INFINITY < v → v < INFINITY → score = v) ∧
      (G.moves p ≠ [] → ∃ m, mv = some m ∧ m ∈ G.moves p) ∧
      (NEGATIVE_INFINITY < v → v < INFINITY → ∀ k m x, D = k + 1 → mv = some m →
        Spec.V G qf k (G.play p m) = some x → -x = v) ∧
      TTSoundClass G (Ranked.U S) qf s'.tt := by
  have hRE : RootExact G Spec.clampClass qf 1 D p := by
    intro d w _ _ _ r hc
    have h1 := clampClass_range w
    have h2 := clampClass_range r
    have hni := negInf_eq
    have hin := inf_eq
    by_cases a : Spec.clampClass r ≤ NEGATIVE_INFINITY
    · have := hc.1 a; omega
    · by_cases b : Spec.clampClass r ≥ INFINITY
      · have := hc.2.1 b; omega
      · exact hc.2.2 (by omega) (by omega)
  have h := findBestMove_ok_ranked G clamp_clampClass hr hinj qfuel hq p D hSp hD limit s hV hRE hT hrep
  rw [hrun] at h
  obtain ⟨⟨score, mv⟩, hb, hok, hT'⟩ := h hfin hdh
  have hval : Spec.clampClass score = Spec.clampClass v := hok.value v hv
  have hin : NEGATIVE_INFINITY < v → v < INFINITY → score = v := by
    intro a b
    have e := clamp_clampClass.inside v a b
    rw [e] at hval
    have := clamp_clampClass.inside' score (by rw [hval]; exact a) (by rw [hval]; exact b)
    rw [← this, hval]
  refine ⟨score, mv, hb, hval, hin, hok.move, ?_, hT'⟩
  intro a b k m x hk hm hx
  have e := hin a b
  have e2 := clamp_clampClass.inside v a b
  rw [← e]
  exact hok.pv (by rw [hval, e2]; exact a) (by rw [hval, e2]; exact b) k m x hk hm hx

/-- **find_best_move_value** for a closed set (the constant family). -/
theorem find_best_move_value (S : P → Prop) (hcl : Closed G S) (hinj : HashInj G S) (qfuel qf : Nat)
    (hq : qf ≤ qfuel) (p : P) (hSp : S p) (D : Nat) (hD : 1 ≤ D) (limit : Limit) (s s' : SearchState)
    (ro : Option (Int × Option Move)) (v : Int)
    (hV : ∀ d, 1 ≤ d → d ≤ D → ∃ w, Spec.V G qf d p = some w) (hv : Spec.V G qf D p = some v)
    (hT : TTSoundClass G S qf s.tt) (hrep : s.rep = [])
    (hrun : findBestMove G qfuel p D limit s = (ro, s')) (hfin : s'.stopSeen = false)
    (hdh : s'.deeperHits = s.deeperHits) :
    ∃ score mv, ro = some (score, mv) ∧
      Spec.clampClass score = Spec.clampClass v ∧
      (NEGATIVE_INFINITY < v → v < INFINITY → score = v) ∧
      (G.moves p ≠ [] → ∃ m, mv = some m ∧ m ∈ G.moves p) ∧
      (NEGATIVE_INFINITY < v → v < INFINITY → ∀ k m x, D = k + 1 → mv = some m →
        Spec.V G qf k (G.play p m) = some x → -x = v) ∧
      TTSoundClass G S qf s'.tt := by
  have h := find_best_move_value_ranked G (fun _ => S) (Ranked.ofClosed hcl)
    (by rw [Ranked.U_const]; exact hinj) qfuel qf hq p D hSp hD limit s s' ro v hV hv
    (by rw [Ranked.U_const]; exact hT) hrep hrun hfin hdh
  rw [Ranked.U_const] at h
  exact h

/-- **find_best_move_exact** (strict view): when the value of every iteration lies strictly inside the
    root window, a strictly sound table stays strictly sound and the score is the minimax value. -/
theorem find_best_move_exact_ranked (S : Nat → P → Prop) (hr : Ranked G S)
    (hinj : HashInj G (Ranked.U S)) (qfuel qf : Nat)
    (hq : qf ≤ qfuel) (p : P) (D : Nat) (hSp : S D p) (hD : 1 ≤ D) (limit : Limit) (s s' : SearchState)
    (ro : Option (Int × Option Move)) (v : Int)
    (hV : ∀ d, 1 ≤ d → d ≤ D → ∃ w, Spec.V G qf d p = some w)
    (hin : ∀ d w, 1 ≤ d → d ≤ D → Spec.V G qf d p = some w → NEGATIVE_INFINITY < w ∧ w < INFINITY)
    (hv : Spec.V G qf D p = some v)
    (hT : TTSoundStrict G (Ranked.U S) qf s.tt) (hrep : s.rep = [])
    (hrun : findBestMove G qfuel p D limit s = (ro, s')) (hfin : s'.stopSeen = false)
    (hdh : s'.deeperHits = s.deeperHits) :
    ∃ mv, ro = some (v, mv) ∧ (G.moves p ≠ [] → ∃ m, mv = some m ∧ m ∈ G.moves p) ∧
      (∀ k m x, D = k + 1 → mv = some m → Spec.V G qf k (G.play p m) = some x → -x = v) ∧
      TTSoundStrict G (Ranked.U S) qf s'.tt := by
  have hRE : RootExact G id qf 1 D p := by
    intro d w h1 h2 hw r hc
    have := hin d w h1 h2 hw
    simp only [id] at hc ⊢
    by_cases a : r ≤ NEGATIVE_INFINITY
    · have := hc.1 a; omega
    · by_cases b : r ≥ INFINITY
      · have := hc.2.1 b; omega
      · exact hc.2.2 (by omega) (by omega)
  have h := findBestMove_ok_ranked G clamp_id hr hinj qfuel hq p D hSp hD limit s hV hRE hT hrep
  rw [hrun] at h
  obtain ⟨⟨score, mv⟩, hb, hok, hT'⟩ := h hfin hdh
  have hval : score = v := hok.value v hv
  subst hval
  have hb' := hin D score hD (Nat.le_refl _) hv
  exact ⟨mv, hb, hok.move, fun k m x hk hm hx => hok.pv hb'.1 hb'.2 k m x hk hm hx, hT'⟩

/-- **find_best_move_exact** for a closed set (the constant family). -/
theorem find_best_move_exact (S : P → Prop) (hcl : Closed G S) (hinj : HashInj G S) (qfuel qf : Nat)
    (hq : qf ≤ qfuel) (p : P) (hSp : S p) (D : Nat) (hD : 1 ≤ D) (limit : Limit) (s s' : SearchState)
    (ro : Option (Int × Option Move)) (v : Int)
    (hV : ∀ d, 1 ≤ d → d ≤ D → ∃ w, Spec.V G qf d p = some w)
    (hin : ∀ d w, 1 ≤ d → d ≤ D → Spec.V G qf d p = some w → NEGATIVE_INFINITY < w ∧ w < INFINITY)
    (hv : Spec.V G qf D p = some v)
    (hT : TTSoundStrict G S qf s.tt) (hrep : s.rep = [])
    (hrun : findBestMove G qfuel p D limit s = (ro, s')) (hfin : s'.stopSeen = false)
    (hdh : s'.deeperHits = s.deeperHits) :
    ∃ mv, ro = some (v, mv) ∧ (G.moves p ≠ [] → ∃ m, mv = some m ∧ m ∈ G.moves p) ∧
      (∀ k m x, D = k + 1 → mv = some m → Spec.V G qf k (G.play p m) = some x → -x = v) ∧
      TTSoundStrict G S qf s'.tt := by
  have h := find_best_move_exact_ranked G (fun _ => S) (Ranked.ofClosed hcl)
    (by rw [Ranked.U_const]; exact hinj) qfuel qf hq p D hSp hD limit s s' ro v hV hin hv
    (by rw [Ranked.U_const]; exact hT) hrep hrun hfin hdh
  rw [Ranked.U_const] at h
  exact h

end Flounder.Props.C05
