/-
  Termination of the engine's search on every good chess position (valid, at most 16 men a side).

  `search_until_quiet` follows every capture, promotion and check with no depth limit, and the plain
  (unpruned) quiescence tree of a chess position is usually INFINITE (any perpetual check).  Until now the
  model's fuel parameter was therefore backed by a hypothesis (`Spec.QplainFinite`) that only a narrow class of
  positions satisfies, and C03 listed "termination of an unlimited search" as an assumption.

  The engine's own recursion is finite on EVERY position, for a reason that is specific to its window
  arithmetic: a child node is searched with the window `(-beta, -max alpha standPat)`, so it returns at its
  stand-pat test unless the move strictly improved the mover's static score; captures and promotions can
  happen at most 62 times, and between them every such improving move strictly increases the mover's own
  tapered piece-square total while leaving the opponent's unchanged — a bounded quantity
  (`Lemmas/QTermChess.lean: qRank`, `chess_qrank`, `qRank_le`).  `Lemmas/QTerm.lean` turns any such rank
  into termination of `quiesce`, `negamax`, `iterate`, `find_best_move`, for every window, table, history,
  depth and deadline oracle, and shows that the result does not depend on the fuel once it suffices.

  Consequences stated here in chess terms:
    * `chess_quiesce_terminates`, `chess_findBestMove_terminates`  — no out-of-fuel outcome with
      `QRANK_BOUND + 2` units of fuel (the recursion depth of quiescence is at most that, on any board);
    * `chess_findBestMove_fuel_irrelevant`, `chess_findBestMove_of_small_fuel` — fuel is a proof device, not
      behaviour: whatever a run with less fuel returns (if it returns) is what every larger fuel returns;
    * `chess_handleGo_answers`, `chess_handleGo_small_fuel` — at the engine level `go` never ends in the
      model-only outcome `outOfFuel`; the run of the driver (default fuel 100000) is the run with full fuel
      whenever it answers;
    * `chess_go_bestmove_total` — C03's engine-level statement WITHOUT the side condition "unless the model
      runs out of fuel".
-/
import Flounder.Lemmas.QTerm
import Flounder.Lemmas.QTermChess
import Flounder.Props.ChessSearch

namespace Flounder.Props.QTerm
open Flounder Gen Flounder.Search Flounder.Chess Flounder.Engine

/-- fuel that suffices on every good board. -/
def QFUEL : Nat := QRANK_BOUND + 2

theorem QFUEL_eq : QFUEL = 49502944 := by decide

/-- **Quiescence terminates (chess).**  On every good board, with `QFUEL` units of fuel (or more),
    `search_until_quiet` returns a value — for every window, search state (table, history, counters) and
    deadline oracle. -/
theorem chess_quiesce_terminates (k : ZKeys) (b : Board) (hg : Good b) (fuel : Nat) (hf : QFUEL ≤ fuel)
    (α β : Int) (s : SearchState) : ∃ r, (quiesce (cg k) fuel b α β s).1 = some r :=
  quiesce_terminates (cg k) (chess_qrank k) b hg fuel (by have := qRank_le b hg; unfold QFUEL at hf; omega) α β s

/-- the negamax search terminates at every depth, ply and window. -/
theorem chess_negamax_terminates (k : ZKeys) (qfuel : Nat) (hq : QFUEL ≤ qfuel) (depth : Nat) (b : Board)
    (hg : Good b) (ply : Nat) (α β : Int) (s : SearchState) :
    ∃ r, (negamax (cg k) qfuel depth b ply α β s).1 = some r :=
  negamax_terminates (cg k) (chess_qrank k) (good_movesClosed k) QRANK_BOUND qRank_le qfuel hq depth b hg ply α β s

/-- **`find_best_move` terminates (chess)**: every depth limit, every deadline oracle (including none at
    all: an unlimited search), every prior search state. -/
theorem chess_findBestMove_terminates (k : ZKeys) (b : Board) (hg : Good b) (qfuel : Nat) (hq : QFUEL ≤ qfuel)
    (D : Nat) (limit : Limit) (s : SearchState) : ∃ r, (findBestMove (cg k) qfuel b D limit s).1 = some r :=
  findBestMove_terminates (cg k) (chess_qrank k) (good_movesClosed k) QRANK_BOUND qRank_le qfuel hq b hg D limit s

/-- the result (value, move AND final search state) is the same for all sufficient fuels. -/
theorem chess_findBestMove_fuel_irrelevant (k : ZKeys) (b : Board) (hg : Good b) (q₁ q₂ : Nat)
    (h₁ : QFUEL ≤ q₁) (h₂ : QFUEL ≤ q₂) (D : Nat) (limit : Limit) (s : SearchState) :
    findBestMove (cg k) q₁ b D limit s = findBestMove (cg k) q₂ b D limit s :=
  findBestMove_fuel_irrelevant (cg k) (chess_qrank k) (good_movesClosed k) QRANK_BOUND qRank_le q₁ q₂ h₁ h₂ b hg D limit s

/-- a run with ANY fuel that returns is the run with full fuel (this is how the compiled driver, which
    runs with fuel 100000, is related to the statements above: it never reports a value the full-fuel model
    would not report). -/
theorem chess_findBestMove_of_small_fuel (k : ZKeys) (b : Board) (q : Nat) (D : Nat) (limit : Limit)
    (s : SearchState) (r : Int × Option Move) (h : (findBestMove (cg k) q b D limit s).1 = some r) :
    findBestMove (cg k) (max q QFUEL) b D limit s = findBestMove (cg k) q b D limit s :=
  findBestMove_fuel_mono (cg k) q (max q QFUEL) (Nat.le_max_left _ _) b D limit s r h

/-! ### engine level -/

/-- **`go` always answers (chess, engine level).**  With the source's generator tables, a good current
    board and `QFUEL` units of fuel, `handle_go_command` never ends in the model-only outcome `outOfFuel`. -/
theorem chess_handleGo_answers (ctx : EngineCtx) (hmg : ctx.mg = MoveGenerator.new) (hq : QFUEL ≤ ctx.qfuel)
    (e : Engine) (hg : Good e.board) (parts : List Tok) : (handleGo ctx e parts).2.2 ≠ .outOfFuel := by
  rw [KeySim.handleGo_eq, hmg]
  obtain ⟨r, hr⟩ := chess_findBestMove_terminates (ctx.keys e.newGames) e.board hg ctx.qfuel hq
    (goParams e.board.active parts).depth (KeySim.goLimit e parts) e.search
  rcases hres : findBestMove (chessGame MoveGenerator.new (ctx.keys e.newGames)) ctx.qfuel e.board
      (goParams e.board.active parts).depth (KeySim.goLimit e parts) e.search with ⟨ro, s'⟩
  have hr' : ro = some r := by
    have : (findBestMove (cg (ctx.keys e.newGames)) ctx.qfuel e.board
      (goParams e.board.active parts).depth (KeySim.goLimit e parts) e.search).1 = ro := by
      show (findBestMove (chessGame MoveGenerator.new (ctx.keys e.newGames)) _ _ _ _ _).1 = ro
      rw [hres]
    rw [this] at hr; exact hr
  subst hr'
  obtain ⟨sc, mv⟩ := r
  simp only [KeySim.goResult]
  intro h
  cases h

/-- a `go` of the engine run with less fuel, when it answers, is the `go` of the engine with full fuel:
    printed lines, new engine state and outcome are identical. -/
theorem chess_handleGo_small_fuel (mg : MoveGenerator) (keys : Nat → ZKeys) (q : Nat) (e : Engine) (parts : List Tok)
    (h : (handleGo ⟨mg, keys, q⟩ e parts).2.2 ≠ .outOfFuel) :
    handleGo ⟨mg, keys, max q QFUEL⟩ e parts = handleGo ⟨mg, keys, q⟩ e parts := by
  rw [KeySim.handleGo_eq, KeySim.handleGo_eq] at *
  dsimp only at h ⊢
  rcases hres : findBestMove (chessGame mg (keys e.newGames)) q e.board
      (goParams e.board.active parts).depth (KeySim.goLimit e parts) e.search with ⟨ro, s'⟩
  rw [hres] at h
  cases ro with
  | none => exact absurd rfl h
  | some r =>
    have := findBestMove_fuel_mono (chessGame mg (keys e.newGames)) q (max q QFUEL) (Nat.le_max_left _ _) e.board
      (goParams e.board.active parts).depth (KeySim.goLimit e parts) e.search r (by rw [hres])
    rw [this, hres]

/-- **C03 at the engine level without the fuel side condition.**  A good current board, a table holding only
    generated moves for the boards within the search horizon, the hash separating those boards, full fuel:
    the `go` command prints its `info` lines followed by exactly one `bestmove` line carrying a rules-legal move,
    or `0000` exactly when there is none; the board is unchanged and the engine keeps running. -/
theorem chess_go_bestmove_total (ctx : EngineCtx) (hmg : ctx.mg = MoveGenerator.new) (hq : QFUEL ≤ ctx.qfuel)
    (e : Engine) (parts : List Tok) (hg : Good e.board)
    (hT : C03.TTMoveOK (cg (ctx.keys e.newGames))
      (Search.Within (cg (ctx.keys e.newGames)) e.board (goParams e.board.active parts).depth) e.search.tt)
    (hinj : HashInjOn (cg (ctx.keys e.newGames))
      (Search.Within (cg (ctx.keys e.newGames)) e.board (goParams e.board.active parts).depth)) :
    ∃ infos text, (handleGo ctx e parts).1 = infos ++ [str "bestmove " ++ text] ∧
      (∀ l ∈ infos, ¬ (str "bestmove").isPrefixOf l = true) ∧
      ((∃ m, Spec.legal (Spec.abs e.board) m = true ∧ text = m.toAlgebraic) ∨
        (text = ['0', '0', '0', '0'] ∧ ∀ m, Spec.legal (Spec.abs e.board) m = false)) ∧
      (text = ['0', '0', '0', '0'] ↔ ∀ m, Spec.legal (Spec.abs e.board) m = false) ∧
      (handleGo ctx e parts).2.1.board = e.board ∧ (handleGo ctx e parts).2.2 = .running :=
  ChessSearch.chess_handleGo_bestmove ctx hmg e parts hg.1 hT hinj (chess_handleGo_answers ctx hmg hq e hg parts)

/-! ### non-vacuity -/

/-- the start position is good: the theorems above apply to it (and to every position of every game,
    `Chess.good_play_moves`). -/
example (k : ZKeys) (D : Nat) (limit : Limit) (s : SearchState) :
    ∃ r, (findBestMove (cg k) QFUEL Board.startpos D limit s).1 = some r :=
  chess_findBestMove_terminates k Board.startpos good_startpos QFUEL (Nat.le_refl _) D limit s

end Flounder.Props.QTerm
