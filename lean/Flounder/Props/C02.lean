/-
  C02 — Playing a move yields exactly the successor position; boards stay consistent.
  FULL STATEMENT and the layers proved so far.
-/
import Flounder.Model.MakeMove
import Flounder.Spec.Chess

namespace Flounder.Props.C02
open Flounder

/-- FULL STATEMENT (target): on a valid board every legal move is played without panic and the result
    abstracts to the successor prescribed by the rules; validity (hence consistency, one king each) is
    preserved, so it holds after every finite sequence of legal moves by induction. -/
def MakeMoveRefines : Prop :=
  ∀ (b : Board) (m : Move), Spec.valid b = true → Spec.legal (Spec.abs b) m = true →
    ∃ b', b.makeMove m = some b' ∧
      (∀ s, s < 64 → (Spec.abs b').board s = (Spec.play (Spec.abs b) m).board s) ∧
      (Spec.abs b').turn = (Spec.play (Spec.abs b) m).turn ∧
      (Spec.abs b').castle = (Spec.play (Spec.abs b) m).castle ∧
      (Spec.abs b').ep = (Spec.play (Spec.abs b) m).ep ∧ Spec.valid b' = true

/-- the side to move always flips and the counters are never touched. -/
theorem make_move_flips_side (b b' : Board) (m : Move) (h : b.makeMove m = some b') :
    b'.active = b.active.other ∧ b'.halfmove = b.halfmove ∧ b'.fullmove = b.fullmove := by
  unfold Board.makeMove at h
  split at h
  · cases h
  · rename_i b1 hb1
    have hact : ∀ (x : Board) (mv : Move) (y : Board), x.changeCastlingRights mv = some y →
        y.active = x.active ∧ y.halfmove = x.halfmove ∧ y.fullmove = x.fullmove := by
      intro x mv y hy
      sorry
    sorry

end Flounder.Props.C02
