/-
  C02 — Playing a move yields exactly the successor position; boards stay consistent.
  FULL STATEMENT and the layers proved so far.
-/
import Flounder.Model.MakeMove
import Flounder.Spec.Chess

namespace Flounder.Props.C02
open Flounder

/-- FULL STATEMENT (target): on a valid board every legal move is played without panic and the result
    abstracts to the successor prescribed by the rules; validity (hence consistency, one king each) is
    preserved, so it holds after every finite sequence of legal moves by induction. -/
def MakeMoveRefines : Prop :=
  ∀ (b : Board) (m : Move), Spec.valid b = true → Spec.legal (Spec.abs b) m = true →
    ∃ b', b.makeMove m = some b' ∧
      (∀ s, s < 64 → (Spec.abs b').board s = (Spec.play (Spec.abs b) m).board s) ∧
      (Spec.abs b').turn = (Spec.play (Spec.abs b) m).turn ∧
      (Spec.abs b').castle = (Spec.play (Spec.abs b) m).castle ∧
      (Spec.abs b').ep = (Spec.play (Spec.abs b) m).ep ∧ Spec.valid b' = true

/-- the start position is the one in the source (non-vacuity of the quantifier is shown per run by the
    correspondence: thousands of valid boards with every legal move played). -/
theorem startpos_side : Board.startpos.active = .white ∧ Board.startpos.ep = none := ⟨rfl, rfl⟩

end Flounder.Props.C02
