/-
  C02 — Playing a move yields exactly the successor position; boards stay consistent.
  FULL STATEMENT (`MakeMoveRefines`) and its proof (`make_move_refines`), plus the history corollaries.

  Proof layers:
    Lemmas/Abs.lean           bitboards <-> mailbox (`absBoard`), `addPiece` / `removePiece`, `Rep`
    Lemmas/SpecValid.lean     `valid` read propositionally (`ValidPos`), congruence on the 64 squares
    Lemmas/PlaySpec.lean      mailbox level: `PlayFacts`, `ValidPos.play` (a legal move keeps validity),
                              castling rights by piece type = by squares (`rights_eq`)
    Lemmas/MakeMoveSteps.lean `changeCastlingRights` and the five piece shuffles as `Rep` transformers
-/
import Flounder.Model.MakeMove
import Flounder.Spec.Chess
import Flounder.Lemmas.MakeMoveSteps

namespace Flounder.Props.C02
open Flounder Flounder.Spec

/-- FULL STATEMENT (target): on a valid board every legal move is played without panic and the result
    abstracts to the successor prescribed by the rules; validity (hence consistency, one king each) is
    preserved, so it holds after every finite sequence of legal moves by induction. -/
def MakeMoveRefines : Prop :=
  ∀ (b : Board) (m : Move), Spec.valid b = true → Spec.legal (Spec.abs b) m = true →
    ∃ b', b.makeMove m = some b' ∧
      (∀ s, s < 64 → (Spec.abs b').board s = (Spec.play (Spec.abs b) m).board s) ∧
      (Spec.abs b').turn = (Spec.play (Spec.abs b) m).turn ∧
      (Spec.abs b').castle = (Spec.play (Spec.abs b) m).castle ∧
      (Spec.abs b').ep = (Spec.play (Spec.abs b) m).ep ∧ Spec.valid b' = true

/-! ### the en-passant square -/

theorem play_ep_eq (p : Pos) (m : Move) :
    (play p m).ep = if (p.board m.src == some (p.turn, Piece.pawn) && absDiff m.src m.dst == 16) = true
      then some (forward p.turn m.src) else none := rfl

theorem ep_nonquiet {p : Pos} {m : Move} {pc : Piece} (hf : PlayFacts p m pc) (hk : m.kind ≠ .quiet) :
    (play p m).ep = none := by
  rw [play_ep_eq]
  split
  · rename_i hcond
    simp only [Bool.and_eq_true, beq_iff_eq] at hcond
    obtain ⟨h1, h2⟩ := hcond
    rw [hf.src] at h1
    have hpc : pc = .pawn := by cases h1; rfl
    exact absurd (hf.dbl hpc h2).1 hk
  · rfl

theorem ep_quiet {p : Pos} {m : Move} {pc : Piece} (hf : PlayFacts p m pc) (hk : m.kind = .quiet) :
    (if ((((m.src : Int) + (match p.turn with | .white => 16 | .black => -16) == (m.dst : Int)) &&
          m.piece == .pawn) = true)
      then some ((m.src : Int) + (match p.turn with | .white => 8 | .black => -8)).toNat else none) =
    (play p m).ep := by
  rw [play_ep_eq, hf.src]
  have hmp : m.piece = pc := hf.piece (Or.inl hk)
  rw [hmp]
  by_cases hpc : pc = .pawn
  · subst hpc
    by_cases hdiff : absDiff m.src m.dst = 16
    · obtain ⟨_, hrank, hdst, _⟩ := hf.dbl rfl hdiff
      have hs := hf.hs
      revert hrank hdst
      unfold forward rank pawnHomeRank
      cases p.turn <;> simp only [] <;> intro hrank hdst
      · rw [if_pos (by simp; omega), if_pos (by simp [hdiff])]
        congr 1
      · rw [if_pos (by simp; omega), if_pos (by simp [hdiff])]
        congr 1; omega
    · rw [if_neg, if_neg]
      · simp [hdiff]
      · revert hdiff
        unfold absDiff
        cases p.turn <;> simp <;> split <;> omega
  · rw [if_neg, if_neg]
    · simp [hpc]
    · simp [hpc]

/-! ### the engine's `makeMove` against the mailbox -/

theorem Rep.withActive {b : Board} {f : Nat → Option Man} (h : Rep b f) (a : Color) :
    Rep { b with active := a } f := ⟨h.cons, h.abs⟩

theorem isDoublePawnPush_eq (b : Board) (m : Move) :
    b.isDoublePawnPush m = (((m.src : Int) + (match b.active with | .white => 16 | .black => -16) == (m.dst : Int)) &&
      m.piece == .pawn) := rfl

/-- on a consistent board satisfying the mailbox clauses, a move with `PlayFacts` is executed without panic
    and the result represents the successor mailbox, with the rules' turn, castling rights and ep square. -/
theorem makeMove_rep {b : Board} {m : Move} {pc : Piece} (hc : consistent b = true)
    (hvp : ValidPos (abs b)) (hf : PlayFacts (abs b) m pc) :
    ∃ b', b.makeMove m = some b' ∧ Rep b' (playBoard (abs b) m) ∧ b'.active = b.active.other ∧
      b'.castle = (play (abs b) m).castle ∧ b'.ep = (play (abs b) m).ep ∧
      b'.halfmove = b.halfmove ∧ b'.fullmove = b.fullmove := by
  have hsd := hf.src_ne_dst
  have hs := hf.hs
  have hd := hf.hd
  have hsrc : absBoard b m.src = some (b.active, pc) := hf.src
  -- castling-rights step
  obtain ⟨cs, hccr, hcs⟩ := ccr_spec { b with ep := none } m ((absBoard b m.dst).map (·.2))
    (getPieceAt_eq (b := { b with ep := none }) hc hd)
    (by
      intro hk h
      have := hf.dstFull hk
      change absBoard b m.dst ≠ none at this
      cases hb : absBoard b m.dst with
      | none => exact this hb
      | some x => rw [hb] at h; cases h)
  have hcs' : cs = (play (abs b) m).castle := by
    apply castle_ext
    intro col ks
    rw [hcs, play_castle_hasRight]
    exact rights_eq hvp hf _ rfl col ks
  unfold Board.makeMove
  simp only [hccr]
  have hrep1 : Rep (Board.withCastle { b with ep := none } cs) (absBoard b) := ⟨hc, fun _ _ => rfl⟩
  generalize hb1 : Board.withCastle { b with ep := none } cs = b1 at hrep1 ⊢
  have a1 : b1.active = b.active := by rw [← hb1]; rfl
  have a2 : b1.castle = cs := by rw [← hb1]; rfl
  have a3 : b1.ep = none := by rw [← hb1]; rfl
  have a4 : b1.halfmove = b.halfmove := by rw [← hb1]; rfl
  have a5 : b1.fullmove = b.fullmove := by rw [← hb1]; rfl
  clear hb1 hccr hcs
  cases hk : m.kind
  · -- quiet
    have hmp : m.piece = pc := hf.piece (Or.inl hk)
    obtain ⟨r, e1, e2, e3⟩ := makeQuiet_rep hrep1 hs hd hsd (by rw [a1, hmp]; exact hsrc) (hf.dstEmpty (Or.inl hk))
    have fr := makeQuiet_frame b1 m
    refine ⟨_, rfl, (Rep.withActive r _).congr ?_, by simp only [e1, a1], by simp only [e2, a2, hcs'], ?_,
      fr.2.1.trans a4, fr.2.2.trans a5⟩
    · intro t _
      rw [playBoard_eq]
      simp only [hk, reduceCtorEq, false_and, if_false, a1]
      rfl
    · simp only [e3, a3]
      rw [← ep_quiet hf hk, isDoublePawnPush_eq, a1]
      rfl
  · -- capture
    have hmp : m.piece = pc := hf.piece (Or.inr hk)
    have hq : ∃ q, absBoard b m.dst = some (b.active.other, q) := by
      rcases hf.dst with h | ⟨q, h, _⟩
      · exact absurd h (hf.dstFull hk)
      · exact ⟨q, h⟩
    obtain ⟨q, hq⟩ := hq
    obtain ⟨b2, hb2, r, e1, e2, e3⟩ := makeCapture_rep hrep1 hs hd hsd (by rw [a1, hmp]; exact hsrc)
      (q := q) (by rw [a1]; exact hq)
    have fr := makeCapture_frame b1 m hb2
    refine ⟨{ b2 with active := b2.active.other }, by simp only [hb2]; rfl, (Rep.withActive r _).congr ?_, by simp only [e1, a1],
      by simp only [e2, a2, hcs'], ?_, fr.2.1.trans a4, fr.2.2.trans a5⟩
    · intro t _
      rw [playBoard_eq]
      simp only [hk, reduceCtorEq, false_and, if_false, a1]
      rfl
    · simp only [e3, a3]
      exact (ep_nonquiet hf (by rw [hk]; decide)).symm
  · -- en passant
    obtain ⟨hpc, hmp⟩ := hf.pieceEp hk
    obtain ⟨hcq, hcap⟩ := hf.epCap hk
    subst hpc
    obtain ⟨r, e1, e2, e3⟩ := makeEnPassant_rep hrep1 hs hd (by rw [a1]; exact hcq) (by rw [a1]; exact hsrc)
      (hf.dstEmpty (Or.inr (Or.inl hk))) (by rw [a1]; exact hcap)
    have fr := makeEnPassant_frame b1 m
    refine ⟨_, rfl, (Rep.withActive r _).congr ?_, by simp only [e1, a1], by simp only [e2, a2, hcs'], ?_,
      fr.2.1.trans a4, fr.2.2.trans a5⟩
    · intro t _
      rw [playBoard_eq]
      simp only [hk, reduceCtorEq, false_and, true_and, if_false, a1, hmp]
      rfl
    · simp only [e3, a3]
      exact (ep_nonquiet hf (by rw [hk]; decide)).symm
  · -- castle
    obtain ⟨hpc, hmp⟩ := hf.pieceCastle hk
    obtain ⟨c1, c2, c3, c4⟩ := hf.castle hk
    subst hpc
    obtain ⟨r, e1, e2, e3⟩ := makeCastle_rep hrep1 (m := m) (by rw [a1]; exact c1) (by rw [a1]; exact c2)
      (by rw [a1]; exact hsrc) (hf.dstEmpty (Or.inr (Or.inr hk))) (by rw [a1]; exact c3) c4
    have fr := makeCastle_frame b1 m
    refine ⟨_, rfl, (Rep.withActive r _).congr ?_, by simp only [e1, a1], by simp only [e2, a2, hcs'], ?_,
      fr.2.1.trans a4, fr.2.2.trans a5⟩
    · intro t _
      rw [playBoard_eq]
      simp only [hk, reduceCtorEq, false_and, true_and, if_false, a1, hmp]
      rfl
    · simp only [e3, a3]
      exact (ep_nonquiet hf (by rw [hk]; decide)).symm
  · -- promotion
    obtain ⟨hpc, _, _⟩ := hf.piecePromo hk
    subst hpc
    have hdst : absBoard b m.dst = none ∨ ∃ q, absBoard b m.dst = some (b1.active.other, q) := by
      rcases hf.dst with h | ⟨q, h, _⟩
      · exact Or.inl h
      · exact Or.inr ⟨q, by rw [a1]; exact h⟩
    obtain ⟨r, e1, e2, e3⟩ := makePromotion_rep hrep1 hs hd hsd (by rw [a1]; exact hsrc) hdst
    have fr := makePromotion_frame b1 m
    refine ⟨_, rfl, (Rep.withActive r _).congr ?_, by simp only [e1, a1], by simp only [e2, a2, hcs'], ?_,
      fr.2.1.trans a4, fr.2.2.trans a5⟩
    · intro t _
      rw [playBoard_eq]
      simp only [hk, reduceCtorEq, false_and, if_false, a1]
      rfl
    · simp only [e3, a3]
      exact (ep_nonquiet hf (by rw [hk]; decide)).symm

/-! ### the refinement theorem -/

/-- **C02**: `make_move` on a valid board, given a legal move, never panics, yields exactly the successor
    position of the rules (placement on all 64 squares, side to move, castling rights, en-passant square),
    and the result is again a valid board. -/
theorem make_move_refines : MakeMoveRefines := by
  intro b m hv hl
  obtain ⟨hc, hvp⟩ := (valid_iff b).1 hv
  have hps : pseudo (abs b) m = true := by
    unfold legal at hl
    simp only [Bool.and_eq_true] at hl
    exact hl.1
  obtain ⟨pc, hf⟩ := playFacts hvp hps
  have hvp' : ValidPos (play (abs b) m) := hvp.play hl
  obtain ⟨b', hmk, hrep, hact, hcas, hep, _, _⟩ := makeMove_rep hc hvp hf
  refine ⟨b', hmk, hrep.abs, hact, hcas, hep, ?_⟩
  rw [valid_iff]
  refine ⟨hrep.cons, hvp'.congr ?_ hact.symm hcas.symm hep.symm⟩
  intro s hs
  exact (hrep.abs s hs).symm

/-! ### corollaries -/

/-- the side to move always flips and the counters are never touched (no validity needed). -/
theorem make_move_flips_side (b b' : Board) (m : Move) (h : b.makeMove m = some b') :
    b'.active = b.active.other ∧ b'.halfmove = b.halfmove ∧ b'.fullmove = b.fullmove := by
  unfold Board.makeMove at h
  simp only [] at h
  split at h
  · cases h
  · rename_i b1 hb1
    obtain ⟨f1, _⟩ := ccr_frame _ m hb1
    have key : ∀ b2, SameFrame b1 b2 → some { b2 with active := b2.active.other } = some b' →
        b'.active = b.active.other ∧ b'.halfmove = b.halfmove ∧ b'.fullmove = b.fullmove := by
      intro b2 f2 e
      cases e
      have f := f1.trans f2
      exact ⟨by show b2.active.other = _; rw [f.1], f.2.1, f.2.2⟩
    cases hk : m.kind <;> simp only [hk] at h
    · exact key _ (makeQuiet_frame b1 m) h
    · cases hc : b1.makeCapture m with
      | none => rw [hc] at h; cases h
      | some b2 => rw [hc] at h; exact key _ (makeCapture_frame b1 m hc) h
    · exact key _ (makeEnPassant_frame b1 m) h
    · exact key _ (makeCastle_frame b1 m) h
    · exact key _ (makePromotion_frame b1 m) h

/-- `ms` is a sequence of moves each legal (by the rules) in the position the engine has reached so far. -/
inductive LegalSeqInd : Board → List Move → Prop where
  | nil (b : Board) : LegalSeqInd b []
  | cons {b b' : Board} {m : Move} {ms : List Move} :
      Spec.legal (Spec.abs b) m = true → b.makeMove m = some b' → LegalSeqInd b' ms → LegalSeqInd b (m :: ms)

/-- play a list of moves with the engine; `none` as soon as one `make_move` panics. -/
def playAll : Board → List Move → Option Board
  | b, [] => some b
  | b, m :: ms => (b.makeMove m).bind fun b' => playAll b' ms

/-- every move of `ms` is legal in the position reached by playing its predecessors with the engine
    (the engine's own successor is used, so nothing is assumed about it). -/
def LegalSeq : Board → List Move → Prop
  | _, [] => True
  | b, m :: ms => Spec.legal (Spec.abs b) m = true ∧ ∀ b', b.makeMove m = some b' → LegalSeq b' ms

/-- **history**: from a valid board, any sequence of moves that are legal one after the other is played
    without panic and ends in a valid board. -/
theorem valid_history (ms : List Move) : ∀ (b : Board), Spec.valid b = true → LegalSeq b ms →
    ∃ b', playAll b ms = some b' ∧ Spec.valid b' = true := by
  induction ms with
  | nil => intro b hv _; exact ⟨b, rfl, hv⟩
  | cons m ms ih =>
    intro b hv hl
    obtain ⟨hm, hrest⟩ := hl
    obtain ⟨b1, hmk, _, _, _, _, hv1⟩ := make_move_refines b m hv hm
    obtain ⟨b', hp, hv'⟩ := ih b1 hv1 (hrest b1 hmk)
    exact ⟨b', by simp only [playAll, hmk, Option.bind_some]; exact hp, hv'⟩

/-- the inductive formulation (each step's `makeMove` result is part of the derivation): a `LegalSeqInd` from a valid board ends (without panic) in a valid board. -/
theorem valid_history_inductive {b : Board} {ms : List Move} (hl : LegalSeqInd b ms) (hv : Spec.valid b = true) :
    ∃ b', playAll b ms = some b' ∧ Spec.valid b' = true := by
  induction hl with
  | nil b => exact ⟨b, rfl, hv⟩
  | cons hm hmk _ ih =>
    obtain ⟨b1, hmk', _, _, _, _, hv1⟩ := make_move_refines _ _ hv hm
    rw [hmk] at hmk'
    cases hmk'
    obtain ⟨b', hp, hv'⟩ := ih hv1
    exact ⟨b', by simp only [playAll, hmk, Option.bind_some]; exact hp, hv'⟩

/-- what `valid` says about occupancy, unfolded: every square holds at most one piece type and at most one
    colour, a piece type iff a colour, and each side has exactly one king. -/
theorem consistent_of_valid {b : Board} (hv : Spec.valid b = true) :
    (∀ s, s < 64 →
      (∀ p q, hasSq (b.bbPiece p) s = true → hasSq (b.bbPiece q) s = true → p = q) ∧
      (∀ c d, hasSq (b.bbColor c) s = true → hasSq (b.bbColor d) s = true → c = d) ∧
      ((∃ p, hasSq (b.bbPiece p) s = true) ↔ (∃ c, hasSq (b.bbColor c) s = true))) ∧
    (∀ c, ∃ k, k < 64 ∧ hasSq (b.bb c .king) k = true ∧ ∀ s, s < 64 → hasSq (b.bb c .king) s = true → s = k) := by
  obtain ⟨hc, hvp⟩ := (valid_iff b).1 hv
  refine ⟨fun s hs => ?_, fun c => ?_⟩
  · obtain ⟨h1, h2, h3⟩ := consistent_at hc hs
    exact ⟨h1, h2, h3⟩
  · obtain ⟨k, hk, hb, hu⟩ := hvp.king c
    refine ⟨k, hk, (hasSq_bb hc hk).2 hb, fun s hs h => hu s hs ((hasSq_bb hc hs).1 h)⟩

/-- **consistency along histories**: after any legal sequence from a valid board, every square holds at
    most one piece of exactly one colour and each side has exactly one king. -/
theorem consistent_history (ms : List Move) (b : Board) (hv : Spec.valid b = true) (hl : LegalSeq b ms) :
    ∃ b', playAll b ms = some b' ∧
      (∀ s, s < 64 →
        (∀ p q, hasSq (b'.bbPiece p) s = true → hasSq (b'.bbPiece q) s = true → p = q) ∧
        (∀ c d, hasSq (b'.bbColor c) s = true → hasSq (b'.bbColor d) s = true → c = d) ∧
        ((∃ p, hasSq (b'.bbPiece p) s = true) ↔ (∃ c, hasSq (b'.bbColor c) s = true))) ∧
      (∀ c, ∃ k, k < 64 ∧ hasSq (b'.bb c .king) k = true ∧
        ∀ s, s < 64 → hasSq (b'.bb c .king) s = true → s = k) := by
  obtain ⟨b', hp, hv'⟩ := valid_history ms b hv hl
  exact ⟨b', hp, consistent_of_valid hv'⟩

/-! ### non-vacuity: the hypotheses are satisfiable and the theorem says something concrete -/

/-- the start position is a valid board. -/
theorem startpos_valid : Spec.valid Board.startpos = true := by decide +kernel

/-- 1. e4. -/
def e2e4 : Move := ⟨12, 28, .pawn, .quiet⟩

theorem e2e4_legal : Spec.legal (Spec.abs Board.startpos) e2e4 = true := by decide +kernel

/-- the refinement theorem instantiated at 1. e4: no panic, valid result, ep square e3, Black to move,
    the pawn stands on e4 and e2 is empty. -/
example : ∃ b', Board.startpos.makeMove e2e4 = some b' ∧ Spec.valid b' = true ∧ b'.ep = some 20 ∧
    b'.active = .black ∧ Spec.absBoard b' 28 = some (.white, .pawn) ∧ Spec.absBoard b' 12 = none := by
  obtain ⟨b', h1, h2, h3, _, h5, h6⟩ := make_move_refines _ _ startpos_valid e2e4_legal
  refine ⟨b', h1, h6, ?_, h3, ?_, ?_⟩
  · exact h5.trans (by decide +kernel)
  · exact (h2 28 (by decide)).trans (by decide +kernel)
  · exact (h2 12 (by decide)).trans (by decide +kernel)

example : LegalSeq Board.startpos [e2e4] := ⟨e2e4_legal, fun _ _ => trivial⟩

/-- a castling position: the hypotheses of the theorem are satisfiable for `MoveType.castle`. -/
def castleBoard : Board :=
  { pawns := 0, knights := 0, bishops := 0, rooks := u64 (2^7), queens := 0, kings := u64 (2^4 + 2^60),
    white := u64 (2^4 + 2^7), black := u64 (2^60), active := .white, castle := ⟨true, false, false, false⟩,
    ep := none, halfmove := 0, fullmove := 1 }
example : Spec.valid castleBoard = true := by decide +kernel
example : Spec.legal (Spec.abs castleBoard) ⟨4, 6, .king, .castle⟩ = true := by decide +kernel

/-- an en-passant position: the hypotheses are satisfiable for `MoveType.enPassant`. -/
def epBoard : Board :=
  { pawns := u64 (2^36 + 2^35), knights := 0, bishops := 0, rooks := 0, queens := 0, kings := u64 (2^4 + 2^60),
    white := u64 (2^4 + 2^36), black := u64 (2^60 + 2^35), active := .white,
    castle := ⟨false, false, false, false⟩, ep := some 43, halfmove := 0, fullmove := 1 }
example : Spec.valid epBoard = true := by decide +kernel
example : Spec.legal (Spec.abs epBoard) ⟨36, 43, .pawn, .enPassant⟩ = true := by decide +kernel

end Flounder.Props.C02
