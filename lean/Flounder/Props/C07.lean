/-
  C07 — the search stops promptly.

  For EVERY game `G`, every deadline oracle `Limit`, every initial searcher state, every position, every
  depth and every fuel outcome:
    A1  the oracle is monotone: once a poll has returned true, every later poll of the same
        `findBestMove` returns true            (`StopMono` is an invariant of every primitive step);
    A2  after the first poll that returned true NO further node is entered, neither in negamax nor in
        quiescence                              (`no_new_work_after_stop`, `nodes_frozen_after_stop`);
    A3  every loop that is reached after a true poll breaks at its own next poll, without calling anything;
        hence, for `Limit.polls n` (every way a monotone clock can interleave with the search), at most
        `qfuel + 2·depth + 2` polls answer true in the whole search (`bounded_unwinding`).
-/
import Flounder.Lemmas.StopTrace
import Flounder.Lemmas.StopUnwind

namespace Flounder.Props.C07
open Flounder Gen SearchState Flounder.Stop

/-! ## A1 — monotone oracle -/

/-- "once a poll has returned true (`stopSeen`), a poll executed now returns true". -/
abbrev StopMono (s : SearchState) : Prop := s.stopSeen = true → s.shouldStop.1 = true

example (s : SearchState) : StopMono s = Flounder.Stop.StopMono s := rfl

/-- what it says for the three kinds of limit: a seen stop means the budget is exhausted NOW. -/
theorem stopMono_iff (s : SearchState) :
    StopMono s ↔ (s.stopSeen = true →
      match s.limit with
      | .none => False
      | .nodes n => n ≤ s.nodes
      | .polls n => n ≤ s.polls) := by
  unfold StopMono
  rw [shouldStop_fst]
  unfold limitStop
  cases s.limit <;> simp

/-- it holds after `findBestMove`'s reset … -/
theorem stopMono_reset (limit : Limit) (s : SearchState) : StopMono (resetState limit s) :=
  resetState_stopMono limit s

/-- … and is preserved by every primitive step of the search: a poll, -/
theorem stopMono_shouldStop (s : SearchState) (h : StopMono s) : StopMono s.shouldStop.2 :=
  Stop.StopMono.poll h
/-- a node entry, -/
theorem stopMono_incrementNodes (s : SearchState) (h : StopMono s) : StopMono s.incrementNodes :=
  Stop.StopMono.enter h
/-- a transposition-table store, -/
theorem stopMono_ttStore (s : SearchState) (h : StopMono s) (k : UInt64) (ev : Int) (mv : Option Move)
    (d : Nat) (b : Bounds) : StopMono { s with tt := s.tt.store k ev mv d b } :=
  Stop.StopMono.congr h rfl rfl rfl rfl
/-- killer / history / counter / repetition-stack / info updates. -/
theorem stopMono_frame (s : SearchState) (h : StopMono s) (k : Array (Array (Option Move)))
    (hi : Array Int) (dh sh : Nat) (rep : List UInt64) (info : List (Nat × Int × Nat × Option Move)) :
    StopMono { s with killers := k, history := hi, deeperHits := dh, sameDepthHits := sh,
                      rep := rep, info := info } :=
  Stop.StopMono.congr h rfl rfl rfl rfl

/-- `StopMono` as a `Hyp` with the trivial guard: it is preserved from ANY state (stopped or not). -/
theorem stopMonoHyp {P : Type} (G : Game P) :
    HypTop G (fun _ => True) (fun _ _ => True) (fun _ => True) Stop.StopMono where
  closed_m := fun _ _ _ _ => trivial
  closed_q := fun _ _ _ _ => trivial
  q_none := fun _ => trivial
  q_move := fun _ _ _ _ => trivial
  gd_poll := fun _ _ _ => trivial
  gd_enter := fun _ _ => trivial
  gd_frame := fun _ _ _ _ => trivial
  poll := fun _ h => h.poll
  enter := fun _ h _ => h.enter
  frame := fun _ _ _ _ _ h => h.congr rfl rfl rfl rfl
  probe := fun _ _ _ _ _ _ => trivial
  store := fun _ _ _ _ _ _ h _ _ _ => h.congr rfl rfl rfl rfl
  rep := fun _ _ h => h.congr rfl rfl rfl rfl
  gd_rep := fun _ _ _ => trivial
  info := fun _ _ h => h.congr rfl rfl rfl rfl

section
variable {P : Type} (G : Game P)

theorem stopMono_quiesce (fuel : Nat) (p : P) (α β : Int) (s : SearchState) (h : StopMono s) :
    StopMono (quiesce G fuel p α β s).2 :=
  quiesce_inv (stopMonoHyp G).toHyp fuel p α β s trivial h trivial

theorem stopMono_negamax (qfuel depth : Nat) (p : P) (ply : Nat) (α β : Int) (s : SearchState)
    (h : StopMono s) : StopMono (negamax G qfuel depth p ply α β s).2 :=
  (negamax_inv (stopMonoHyp G).toHyp qfuel depth p ply α β s trivial h trivial).1

theorem stopMono_searchPosition (qfuel : Nat) (p : P) (depth : Nat) (s : SearchState)
    (h : StopMono s) : StopMono (searchPosition G qfuel p depth s).2 :=
  (searchPosition_inv (stopMonoHyp G) qfuel p depth s trivial h trivial).1

theorem stopMono_iterate (qfuel : Nat) (p : P) (maxDepth n cur : Nat) (best : Int × Option Move)
    (s : SearchState) (h : StopMono s) : StopMono (iterate G qfuel p maxDepth n cur best s).2 :=
  (iterate_inv (stopMonoHyp G) qfuel p trivial maxDepth n cur best s trivial h).1

/-- the state `findBestMove` returns satisfies the invariant — for every initial state whatsoever. -/
theorem stopMono_findBestMove (qfuel : Nat) (p : P) (maxDepth : Nat) (limit : Limit)
    (s : SearchState) : StopMono (findBestMove G qfuel p maxDepth limit s).2 :=
  findBestMove_inv (stopMonoHyp G) qfuel p trivial maxDepth limit s (stopMono_reset limit s)

end

/-- **A1, monotone oracle.**  From a state of the search in which a poll has already returned true,
    whatever the search does afterwards (`Trace`), a poll returns true. -/
theorem monotone_oracle {s t : SearchState} (hm : StopMono s) (hs : s.stopSeen = true)
    (h : Trace s t) : t.shouldStop.1 = true :=
  h.stopMono hm (h.stopSeen_sticky hs)

/-- the flag itself is sticky. -/
theorem stopSeen_sticky {s t : SearchState} (hs : s.stopSeen = true) (h : Trace s t) :
    t.stopSeen = true := h.stopSeen_sticky hs

/-! ## A2 — no new work after the stop -/

section
variable {P : Type} (G : Game P)

/-- every run of `findBestMove` is a sequence of primitive steps in which nodes are entered and
    table entries stored only in states where no poll has returned true yet (see `Stop.Step`). -/
theorem findBestMove_is_trace (qfuel : Nat) (p : P) (maxDepth : Nat) (limit : Limit)
    (s : SearchState) : Trace (resetState limit s) (findBestMove G qfuel p maxDepth limit s).2 :=
  findBestMove_trace G qfuel p maxDepth limit s

/-- **A2.**  No node — negamax or quiescence — is entered after the first poll that returned true:
    the instrumentation counter `nodesAfterStop` (incremented by `incrementNodes` exactly when
    `stopSeen` is set) is zero at the end, in every position, for every deadline point, whether or
    not the quiescence fuel ran out. -/
theorem no_new_work_after_stop (qfuel : Nat) (p : P) (D : Nat) (limit : Limit) (s : SearchState) :
    (findBestMove G qfuel p D limit s).2.nodesAfterStop = 0 :=
  (findBestMove_trace G qfuel p D limit s).nodesAfterStop_eq

/-- the counter really counts: `incrementNodes` bumps it exactly in stopped states. -/
theorem nodesAfterStop_counts (s : SearchState) :
    s.incrementNodes.nodesAfterStop = if s.stopSeen then s.nodesAfterStop + 1 else s.nodesAfterStop :=
  rfl

/-- the same for the pieces (any state satisfying the invariant and not yet stopped). -/
theorem negamax_nodesAfterStop (qfuel depth : Nat) (p : P) (ply : Nat) (α β : Int) (s : SearchState)
    (hm : StopMono s) (hs : s.stopSeen = false) :
    (negamax G qfuel depth p ply α β s).2.nodesAfterStop = s.nodesAfterStop :=
  (negamax_trace G qfuel depth p ply α β s hm hs).nodesAfterStop_eq

theorem quiesce_nodesAfterStop (fuel : Nat) (p : P) (α β : Int) (s : SearchState)
    (hm : StopMono s) (hs : s.stopSeen = false) :
    (quiesce G fuel p α β s).2.nodesAfterStop = s.nodesAfterStop :=
  (quiesce_trace G fuel p α β s hm hs).nodesAfterStop_eq

theorem iterate_nodesAfterStop (qfuel : Nat) (p : P) (maxDepth n cur : Nat)
    (best : Int × Option Move) (s : SearchState) (hm : StopMono s) :
    (iterate G qfuel p maxDepth n cur best s).2.nodesAfterStop = s.nodesAfterStop :=
  (iterate_trace G qfuel p maxDepth n cur best s hm).nodesAfterStop_eq

end

/-- counter-free form of A2: from a stopped state on, the node counter never moves again and the
    transposition table is never written again. -/
theorem nodes_frozen_after_stop {s t : SearchState} (hs : s.stopSeen = true) (h : Trace s t) :
    t.nodes = s.nodes ∧ t.tt = s.tt := h.frozen hs

/-! ## A3 — building blocks of prompt unwinding: a loop reached after a true poll breaks at once -/

section
variable {P : Type} (G : Game P)

theorem poll_true_of_stopped {s : SearchState} (hm : StopMono s) (hs : s.stopSeen = true) :
    s.shouldStop = (true, s.shouldStop.2) := by
  have := hm hs
  cases h : s.shouldStop with
  | mk a b => rw [h] at this; simp only at this; subst this; rfl

/-- the move loop of `negamax`: one poll, no recursive call, accumulator returned unchanged. -/
theorem negamaxLoop_breaks_at_next_poll
    (rec : P → Nat → Int → Int → SearchState → Option SearchResult × SearchState)
    (p : P) (depth ply : Nat) (β : Int) (mv : Move) (rest : List Move) (acc : LoopAcc)
    (s : SearchState) (hm : StopMono s) (hs : s.stopSeen = true) :
    negamaxLoop G rec p depth ply β (mv :: rest) acc s = (some acc, s.shouldStop.2) := by
  rw [negamaxLoop.eq_2, poll_true_of_stopped hm hs]
  rfl

/-- the capture loop of quiescence. -/
theorem quiesceLoop_breaks_at_next_poll
    (rec : P → Int → Int → SearchState → Option Int × SearchState)
    (p : P) (β : Int) (mv : Move) (rest : List Move) (α : Int)
    (s : SearchState) (hm : StopMono s) (hs : s.stopSeen = true) :
    quiesceLoop G rec p β (mv :: rest) α s = (some α, s.shouldStop.2) := by
  rw [quiesceLoop.eq_2, poll_true_of_stopped hm hs]
  rfl

/-- the iteration loop: at most one further poll, no further search, best-so-far returned. -/
theorem iterate_breaks_at_next_poll (qfuel : Nat) (p : P) (maxDepth n cur : Nat)
    (best : Int × Option Move) (s : SearchState) (hm : StopMono s) (hs : s.stopSeen = true) :
    iterate G qfuel p maxDepth n cur best s = (some best, s) ∨
    iterate G qfuel p maxDepth n cur best s = (some best, s.shouldStop.2) := by
  cases n with
  | zero => left; rfl
  | succ n =>
    rw [iterate.eq_2]
    split
    · left; rfl
    · right
      rw [poll_true_of_stopped hm hs]
      rfl

/-- **A3, bounded unwinding.**  Under `Limit.polls n` poll number `n` (0-based) is the first to answer
    true.  The whole search executes at most `n + (qfuel + 2·D + 2)` polls, i.e. after the first true
    answer there are at most `qfuel + 2·D + 1` further polls (one per enclosing loop plus one post-loop
    poll per negamax frame), and — by A2 — no node is entered any more. -/
theorem bounded_unwinding (qfuel : Nat) (p : P) (D n : Nat) (s : SearchState) :
    (findBestMove G qfuel p D (.polls n) s).2.polls ≤ n + (qfuel + 2 * D + 2) :=
  findBestMove_unwind G n qfuel p D s

/-- the same for one `negamax` call entered before the stop (`polls ≤ n`). -/
theorem bounded_unwinding_negamax (qfuel depth : Nat) (p : P) (ply : Nat) (α β : Int) (n : Nat)
    (s : SearchState) (hl : s.limit = .polls n) (hp : s.polls ≤ n) :
    (negamax G qfuel depth p ply α β s).2.polls ≤ n + (qfuel + 2 * depth) :=
  (negamax_unwind G n qfuel depth p ply α β s hl).2 hp

/-- and for one quiescence call. -/
theorem bounded_unwinding_quiesce (fuel : Nat) (p : P) (α β : Int) (n : Nat)
    (s : SearchState) (hl : s.limit = .polls n) (hp : s.polls ≤ n) :
    (quiesce G fuel p α β s).2.polls ≤ n + fuel :=
  (quiesce_unwind G n fuel p α β s hl).2 hp

end
end Flounder.Props.C07
