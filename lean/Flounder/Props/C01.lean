/-
  C01 — Generated moves are exactly the legal moves of chess; the check test agrees with the rules.

  `generate_moves_exact` is the property for the engine's generator with the tables built from the
  constants in the source (`MoveGenerator.new`, tables proved exact in Props/C10): for EVERY valid
  position, no legal move is missing, none illegal is produced, none is duplicated, and the check test is
  the rules' check test.  Layers: Lemmas/Attacks* (attack sets, king moves, castling), Lemmas/Pseudo*
  (the seven pseudo-legal generators), Lemmas/Filter* (pins, checkers, double check, en passant).
-/
import Flounder.Lemmas.AttacksKing
import Flounder.Lemmas.Pseudo
import Flounder.Lemmas.Filter
import Flounder.Props.C10

namespace Flounder.Props.C01
open Flounder Flounder.MoveGenerator Flounder.Spec

/-- FULL STATEMENT of the property for a generator `g`. -/
def GenerateMovesExact (g : MoveGenerator) : Prop :=
  ∀ b, Spec.valid b = true →
    (g.generateMoves b).Nodup ∧ (∀ m, m ∈ g.generateMoves b ↔ Spec.legal (Spec.abs b) m = true) ∧
    g.isInCheck b = Spec.inCheck (Spec.abs b)

/-- every generated move is pseudo-legal by the engine's own generators and passed its legality filter
    with the pins and checkers computed for THIS position (nothing is added after filtering). -/
theorem generated_passed_filter (g : MoveGenerator) (b : Board) (m : Move) :
    m ∈ g.generateMoves b ↔
      m ∈ g.pseudoLegalMoves b ∧
      g.isLegal b m (g.attacksTo b (kingSquare b)) (g.getPinnedPieces b (kingSquare b)) (kingSquare b) = true := by
  simp [generateMoves, List.mem_filter]

/-- L4–L7 assembled: the legality filter is exact on geometrically possible moves. -/
theorem filter_exact (g : MoveGenerator) (hl : LookupExact g.lookup) : FilterExact g := by
  intro b hv m hg
  by_cases hc : m.kind = .castle
  · exact isLegal_castle hl hv hg hc _ _
  · by_cases hk : m.piece = .king
    · exact isLegal_king hl hv hg hk hc _ _ _
    · exact filter_nonking_isLegal hl (attacksTo_spec hl) b hv m hg (fun h => hk h.1) hc

/-- the property for every generator whose tables are exact. -/
theorem generate_moves_exact_of (g : MoveGenerator) (hl : LookupExact g.lookup) : GenerateMovesExact g := by
  intro b hv
  obtain ⟨hnd, hmem⟩ := pseudo_exact hl b hv
  refine ⟨?_, ?_, is_in_check_exact hl hv⟩
  · unfold generateMoves
    exact hnd.filter _
  · intro m
    rw [generated_passed_filter, hmem]
    unfold Spec.legal
    rw [pseudo_split (abs b) m]
    constructor
    · rintro ⟨hg, hf⟩
      rw [filter_exact g hl b hv m hg] at hf
      simp only [Bool.and_eq_true] at hf ⊢
      exact ⟨⟨hg, hf.1⟩, hf.2⟩
    · intro h
      simp only [Bool.and_eq_true] at h
      refine ⟨h.1.1, ?_⟩
      rw [filter_exact g hl b hv m h.1.1]
      simp only [Bool.and_eq_true]
      exact ⟨h.1.2, h.2⟩

/-- **C01 for the engine**: the generator built from the magic numbers in the source. -/
theorem generate_moves_exact : GenerateMovesExact MoveGenerator.new :=
  generate_moves_exact_of MoveGenerator.new Props.C10.lookup_exact

/-- the check test agrees with the rules on every valid position. -/
theorem is_in_check_exact (b : Board) (hv : Spec.valid b = true) :
    MoveGenerator.new.isInCheck b = Spec.inCheck (Spec.abs b) :=
  (generate_moves_exact b hv).2.2

/-- corollary: "no generated move" (how the search detects mate and stalemate) means no legal move exists. -/
theorem no_moves_iff (b : Board) (hv : Spec.valid b = true) :
    MoveGenerator.new.generateMoves b = [] ↔ ∀ m, Spec.legal (Spec.abs b) m = false := by
  obtain ⟨_, hmem, _⟩ := generate_moves_exact b hv
  constructor
  · intro he m
    cases hl : Spec.legal (Spec.abs b) m with
    | false => rfl
    | true =>
      have := (hmem m).2 hl
      rw [he] at this
      cases this
  · intro h
    cases hgm : MoveGenerator.new.generateMoves b with
    | nil => rfl
    | cons m ms =>
      have hm : m ∈ MoveGenerator.new.generateMoves b := by rw [hgm]; exact List.mem_cons_self
      have hl := (hmem m).1 hm
      rw [h m] at hl
      cases hl

/-- with two or more checkers no non-king move survives the filter. -/
theorem double_check_only_king_moves (g : MoveGenerator) (b : Board) (m : Move)
    (hm : m ∈ g.generateMoves b) (h2 : countOnes (g.attacksTo b (kingSquare b)) > 1) :
    m.piece = .king ∧ m.kind ≠ .castle := by
  have h := (generated_passed_filter g b m).1 hm
  have hl := h.2
  unfold isLegal at hl
  by_cases hk : (m.piece = .king && m.kind != .castle) = true
  · simp only [Bool.and_eq_true, decide_eq_true_eq] at hk
    exact ⟨hk.1, fun h => by rw [h] at hk; exact absurd hk.2 (by decide)⟩
  · rw [if_neg hk] at hl
    unfold isLegalNonKingMove at hl
    simp [h2] at hl

end Flounder.Props.C01
