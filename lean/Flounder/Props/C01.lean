/-
  C01 — Generated moves are exactly the legal moves of chess; the check test agrees with the rules.
  FULL STATEMENT and the layers proved so far.
-/
import Flounder.Model.MoveGen
import Flounder.Spec.Chess

namespace Flounder.Props.C01
open Flounder Flounder.MoveGenerator

/-- FULL STATEMENT of the property for the model (target of the L1–L7 development of DESIGN.md). -/
def GenerateMovesExact (g : MoveGenerator) : Prop :=
  ∀ b, Spec.valid b = true →
    (g.generateMoves b).Nodup ∧ (∀ m, m ∈ g.generateMoves b ↔ Spec.legal (Spec.abs b) m = true) ∧
    g.isInCheck b = Spec.inCheck (Spec.abs b)

/-- every generated move is pseudo-legal by the engine's own generators and passed its legality filter
    with the pins and checkers computed for THIS position (nothing is added after filtering). -/
theorem generated_passed_filter (g : MoveGenerator) (b : Board) (m : Move) :
    m ∈ g.generateMoves b ↔
      m ∈ g.pseudoLegalMoves b ∧
      g.isLegal b m (g.attacksTo b (kingSquare b)) (g.getPinnedPieces b (kingSquare b)) (kingSquare b) = true := by
  simp [generateMoves, List.mem_filter]

/-- with two or more checkers no non-king move survives the filter. -/
theorem double_check_only_king_moves (g : MoveGenerator) (b : Board) (m : Move)
    (hm : m ∈ g.generateMoves b) (h2 : countOnes (g.attacksTo b (kingSquare b)) > 1) :
    m.piece = .king ∧ m.kind ≠ .castle := by
  have h := (generated_passed_filter g b m).1 hm
  have hl := h.2
  unfold isLegal at hl
  by_cases hk : (m.piece = .king && m.kind != .castle) = true
  · simp only [Bool.and_eq_true, decide_eq_true_eq] at hk
    exact ⟨hk.1, fun h => by rw [h] at hk; exact absurd hk.2 (by decide)⟩
  · rw [if_neg hk] at hl
    unfold isLegalNonKingMove at hl
    simp [h2] at hl

/-- the check test is "some enemy man attacks the king square" as computed by `attacksTo`. -/
theorem is_in_check_def (g : MoveGenerator) (b : Board) :
    g.isInCheck b = (g.attacksTo b (kingSquare b) != 0) := rfl

end Flounder.Props.C01
