/-
  C16 — The UCI handshake, silence on unknown input, and clean termination.
  Everything is for every context (`ctx : EngineCtx`: move generator tables, key draws, fuel) and every
  engine state `e`.
-/
import Flounder.Lemmas.Uci

namespace Flounder.Props.C16
open Flounder Flounder.Engine Flounder.Lemmas.Uci

/-- the six command words `handle_command` knows. -/
def commandWords : List Tok := [kwUci, kwIsready, kwUcinewgame, kwPosition, kwGo, kwQuit]

/-! ### single commands -/

/-- **`uci`**: exactly `id name`, `id author`, `uciok`, in that order; engine unchanged; still running. -/
theorem handshake_uci (ctx : EngineCtx) (e : Engine) (line : List Char) (h : firstTok line = some kwUci) :
    handleCommand ctx e (splitWs line) = ([lineIdName, lineIdAuthor, lineUciok], e, .running) := by
  unfold firstTok at h
  cases hp : splitWs line with
  | nil => rw [hp] at h; cases h
  | cons c rest =>
    rw [hp] at h; simp only [List.head?_cons, Option.some.injEq] at h; subst h
    simp [handleCommand]

/-- **`isready`**: exactly `readyok`; engine unchanged; still running. -/
theorem handshake_isready (ctx : EngineCtx) (e : Engine) (line : List Char) (h : firstTok line = some kwIsready) :
    handleCommand ctx e (splitWs line) = ([lineReadyok], e, .running) := by
  unfold firstTok at h
  cases hp : splitWs line with
  | nil => rw [hp] at h; cases h
  | cons c rest =>
    rw [hp] at h; simp only [List.head?_cons, Option.some.injEq] at h; subst h
    have : kwIsready ≠ kwUci := by decide
    simp [handleCommand, this]

/-- **`quit`**: nothing printed, engine unchanged, exit status 0. -/
theorem handle_quit (ctx : EngineCtx) (e : Engine) (line : List Char) (h : firstTok line = some kwQuit) :
    handleCommand ctx e (splitWs line) = ([], e, .exited 0) := by
  unfold firstTok at h
  cases hp : splitWs line with
  | nil => rw [hp] at h; cases h
  | cons c rest =>
    rw [hp] at h; simp only [List.head?_cons, Option.some.injEq] at h; subst h
    have h1 : kwQuit ≠ kwUci := by decide
    have h2 : kwQuit ≠ kwIsready := by decide
    have h3 : kwQuit ≠ kwUcinewgame := by decide
    have h4 : kwQuit ≠ kwPosition := by decide
    have h5 : kwQuit ≠ kwGo := by decide
    simp [handleCommand, h1, h2, h3, h4, h5]

/-- **`ucinewgame`**: nothing printed; still running. -/
theorem handle_ucinewgame (ctx : EngineCtx) (e : Engine) (line : List Char) (h : firstTok line = some kwUcinewgame) :
    handleCommand ctx e (splitWs line) =
      ([], { e with board := Board.startpos, search := {}, newGames := e.newGames + 1 }, .running) := by
  unfold firstTok at h
  cases hp : splitWs line with
  | nil => rw [hp] at h; cases h
  | cons c rest =>
    rw [hp] at h; simp only [List.head?_cons, Option.some.injEq] at h; subst h
    have h1 : kwUcinewgame ≠ kwUci := by decide
    have h2 : kwUcinewgame ≠ kwIsready := by decide
    simp [handleCommand, h1, h2]

/-- **unknown input is ignored silently**: a blank line (no token) or a line whose first token is none of
    the six command words prints nothing, changes nothing, and the loop keeps running. -/
theorem unknown_silent (ctx : EngineCtx) (e : Engine) (line : List Char)
    (h : splitWs line = [] ∨ ∃ t, firstTok line = some t ∧ t ∉ commandWords) :
    handleCommand ctx e (splitWs line) = ([], e, .running) := by
  rcases h with h | ⟨t, ht, hn⟩
  · rw [h]; rfl
  · unfold firstTok at ht
    cases hp : splitWs line with
    | nil => rw [hp] at ht; cases ht
    | cons c rest =>
      rw [hp] at ht; simp only [List.head?_cons, Option.some.injEq] at ht; subst ht
      simp only [commandWords, List.mem_cons, List.not_mem_nil, or_false, not_or] at hn
      obtain ⟨h1, h2, h3, h4, h5, h6⟩ := hn
      simp [handleCommand, h1, h2, h3, h4, h5, h6]

/-- white space only ⇒ no token. -/
theorem splitWs_go_blank (s : List Char) (h : ∀ c ∈ s, isWs c = true) : splitWs.go s [] = [] := by
  induction s with
  | nil => rfl
  | cons c cs ih =>
    have hc := h c (List.mem_cons_self)
    have := ih (fun d hd => h d (List.mem_cons_of_mem _ hd))
    simp [splitWs.go, hc, this]

theorem splitWs_blank (s : List Char) (h : ∀ c ∈ s, isWs c = true) : splitWs s = [] :=
  splitWs_go_blank s h

/-- a line consisting of white space only is ignored silently. -/
theorem blank_silent (ctx : EngineCtx) (e : Engine) (line : List Char) (h : ∀ c ∈ line, isWs c = true) :
    handleCommand ctx e (splitWs line) = ([], e, .running) :=
  unknown_silent ctx e line (Or.inl (splitWs_blank line h))

/-- the only lines that can print, change the state or stop the loop are the six commands. -/
theorem only_commands_act (ctx : EngineCtx) (e : Engine) (line : List Char)
    (h : handleCommand ctx e (splitWs line) ≠ ([], e, .running)) :
    ∃ t ∈ commandWords, firstTok line = some t := by
  cases hp : splitWs line with
  | nil => exact absurd (unknown_silent ctx e line (Or.inl hp)) h
  | cons c rest =>
    by_cases hc : c ∈ commandWords
    · exact ⟨c, hc, by simp [firstTok, hp]⟩
    · exact absurd (unknown_silent ctx e line (Or.inr ⟨c, by simp [firstTok, hp], hc⟩)) h

/-! ### the loop -/

/-- the loop never "ends running": its outcome is an exit, a panic, or the model's fuel marker. -/
theorem uciLoop_ne_running (ctx : EngineCtx) (lines : List (List Char)) (e : Engine) :
    (uciLoop ctx lines e).2 ≠ .running := by
  rw [uciLoop_eq_runLines]
  by_cases h : (runLines ctx lines e).2.2 = .running
  · simp [h]
  · simp [h]

/-- **`quit` exits with status 0, and nothing after it is read**: if the lines before the `quit` line all
    keep the loop running (printing `out`), the whole run prints exactly `out` and ends with exit status 0 —
    whatever follows the `quit` line. -/
theorem quit_exits_zero (ctx : EngineCtx) (e : Engine) (pre post : List (List Char)) (q : List Char)
    (hq : firstTok q = some kwQuit) (hpre : (runLines ctx pre e).2.2 = .running) :
    uciLoop ctx (pre ++ q :: post) e = ((runLines ctx pre e).1, .exited 0) := by
  have hq' := handle_quit ctx (runLines ctx pre e).2.1 q hq
  have h2 : runLines ctx (q :: post) (runLines ctx pre e).2.1 = ([], (runLines ctx pre e).2.1, .exited 0) :=
    runLines_cons_stop ctx _ _ q post [] (.exited 0) hq' (by decide)
  rw [uciLoop_eq_runLines, runLines_append, if_pos hpre, h2]
  simp

/-- the lines after `quit` are not read: two inputs that agree up to and including the `quit` line give
    the same transcript and the same exit status. -/
theorem quit_ignores_rest (ctx : EngineCtx) (e : Engine) (pre post post' : List (List Char)) (q : List Char)
    (hq : firstTok q = some kwQuit) (hpre : (runLines ctx pre e).2.2 = .running) :
    uciLoop ctx (pre ++ q :: post) e = uciLoop ctx (pre ++ q :: post') e := by
  rw [quit_exits_zero ctx e pre post q hq hpre, quit_exits_zero ctx e pre post' q hq hpre]

/-- **end of input ⇒ exit status 0** (general form): if handling the lines one after the other never
    leaves the state `running` (no `quit`, no panic), the loop ends at end of input with status 0 and
    the transcript is everything those lines printed. -/
theorem eof_exits_zero (ctx : EngineCtx) (e : Engine) (lines : List (List Char))
    (h : (runLines ctx lines e).2.2 = .running) :
    uciLoop ctx lines e = ((runLines ctx lines e).1, .exited 0) := by
  rw [uciLoop_eq_runLines, if_pos h]

/-- the same, with the hypothesis line by line: every line keeps every engine state running. -/
theorem runLines_running_of_forall (ctx : EngineCtx) (lines : List (List Char))
    (h : ∀ line ∈ lines, ∀ e', (handleCommand ctx e' (splitWs line)).2.2 = .running) (e : Engine) :
    (runLines ctx lines e).2.2 = .running := by
  induction lines generalizing e with
  | nil => rfl
  | cons line rest ih =>
    rcases hh : handleCommand ctx e (splitWs line) with ⟨out, e', oc⟩
    have h1 := h line List.mem_cons_self e
    rw [hh] at h1; simp only at h1; subst h1
    rw [runLines_cons_running ctx e e' line rest out hh]
    exact ih (fun l hl => h l (List.mem_cons_of_mem _ hl)) e'

theorem eof_exits_zero_of_forall (ctx : EngineCtx) (e : Engine) (lines : List (List Char))
    (h : ∀ line ∈ lines, ∀ e', (handleCommand ctx e' (splitWs line)).2.2 = .running) :
    (uciLoop ctx lines e).2 = .exited 0 := by
  rw [eof_exits_zero ctx e lines (runLines_running_of_forall ctx lines h e)]

/-- a line that is neither a `position` nor a `go` command is handled with outcome `running` or
    `exited 0` (the latter only for `quit`), for every engine state. -/
theorem handle_outcome_of_not_position_go (ctx : EngineCtx) (e : Engine) (line : List Char)
    (hp : firstTok line ≠ some kwPosition) (hg : firstTok line ≠ some kwGo) :
    (handleCommand ctx e (splitWs line)).2.2 = .running ∨ (handleCommand ctx e (splitWs line)).2.2 = .exited 0 := by
  unfold firstTok at hp hg
  cases hs : splitWs line with
  | nil => left; rfl
  | cons c rest =>
    rw [hs] at hp hg
    simp only [List.head?_cons, ne_eq, Option.some.injEq] at hp hg
    simp only [handleCommand, hp, hg, if_false]
    split
    · left; rfl
    · split
      · left; rfl
      · split
        · left; rfl
        · split
          · right; rfl
          · left; rfl

/-- **unconditional over the handshake fragment**: an input without `position` and `go` commands (any mix
    of `uci`, `isready`, `ucinewgame`, `quit`, unknown words, blank lines, any length, with or without a
    final `quit`) always ends with exit status 0 — in particular when the input simply ends. -/
theorem handshake_fragment_exits_zero (ctx : EngineCtx) (lines : List (List Char))
    (h : ∀ line ∈ lines, firstTok line ≠ some kwPosition ∧ firstTok line ≠ some kwGo) (e : Engine) :
    (uciLoop ctx lines e).2 = .exited 0 := by
  induction lines generalizing e with
  | nil => rfl
  | cons line rest ih =>
    rcases hh : handleCommand ctx e (splitWs line) with ⟨out, e', oc⟩
    have h1 := handle_outcome_of_not_position_go ctx e line (h line List.mem_cons_self).1 (h line List.mem_cons_self).2
    rw [hh] at h1
    rcases h1 with h1 | h1 <;> simp only at h1 <;> subst h1
    · rw [uciLoop_cons_running ctx e e' line rest out hh]
      exact ih (fun l hl => h l (List.mem_cons_of_mem _ hl)) e'
    · rw [uciLoop_cons_stop ctx e e' line rest out _ hh (by decide)]

/-- **the transcript is compositional**: if the first script ends running, the transcript of
    `l₁ ++ l₂` is the transcript of `l₁` followed by the transcript of `l₂` run from the state `l₁` left. -/
theorem transcript_compositional (ctx : EngineCtx) (e : Engine) (l₁ l₂ : List (List Char))
    (h : (runLines ctx l₁ e).2.2 = .running) :
    uciLoop ctx (l₁ ++ l₂) e =
      ((runLines ctx l₁ e).1 ++ (uciLoop ctx l₂ (runLines ctx l₁ e).2.1).1,
        (uciLoop ctx l₂ (runLines ctx l₁ e).2.1).2) := by
  rw [uciLoop_eq_runLines, runLines_append, if_pos h, uciLoop_eq_runLines]

/-- and if the first script stops (quit / panic), the second one is never looked at. -/
theorem transcript_stops (ctx : EngineCtx) (e : Engine) (l₁ l₂ : List (List Char))
    (h : (runLines ctx l₁ e).2.2 ≠ .running) :
    uciLoop ctx (l₁ ++ l₂) e = uciLoop ctx l₁ e := by
  rw [uciLoop_eq_runLines, runLines_append, if_neg h, uciLoop_eq_runLines]

/-! ### non-vacuity: a concrete script, evaluated by the kernel, for every context and engine state -/

def script : List (List Char) :=
  [ ['u','c','i'],
    [],
    [' ','\t',' '],
    ['i','s','r','e','a','d','y'],
    ['h','e','l','l','o',' ','w','o','r','l','d'],
    [' ',' ','i','s','r','e','a','d','y',' ','n','o','w','\r'],
    ['U','C','I'],
    ['q','u','i','t'],
    ['i','s','r','e','a','d','y'] ]

/-- the handshake script prints exactly five lines and exits 0 at `quit`; the `isready` after it is not answered. -/
example (ctx : EngineCtx) (e : Engine) :
    uciLoop ctx script e = ([lineIdName, lineIdAuthor, lineUciok, lineReadyok, lineReadyok], .exited 0) := by
  rfl

/-- the same script without `quit`: end of input ends the run with status 0. -/
example (ctx : EngineCtx) (e : Engine) :
    uciLoop ctx (script.take 7) e = ([lineIdName, lineIdAuthor, lineUciok, lineReadyok, lineReadyok], .exited 0) := by
  rfl

def ctx0 : EngineCtx := { mg := MoveGenerator.new, keys := fun _ => ⟨fun _ _ _ => 0, 0, fun _ _ => 0, fun _ => 0⟩ }

example : uciLoop ctx0 script {} = ([lineIdName, lineIdAuthor, lineUciok, lineReadyok, lineReadyok], .exited 0) := by
  decide +kernel

example : splitWs [' ',' ','i','s','r','e','a','d','y',' ','n','o','w','\r'] = [kwIsready, ['n','o','w']] := by decide
example : firstTok ['U','C','I'] = some ['U','C','I'] ∧ ['U','C','I'] ∉ commandWords := by decide
example : (uciLoop ctx0 [] {}) = ([], .exited 0) := by decide

end Flounder.Props.C16
