/-
  C17 — Moves searched past the horizon are exactly captures, promotions and checks.
  Structure theorems about the model (what the selection IS); the semantic identification of
  `isCheck` with "gives check under the rules" is the C01/C02 development (see FULL STATEMENT below).
-/
import Flounder.Model.MoveGen
import Flounder.Spec.Chess

namespace Flounder.Props.C17
open Flounder Flounder.MoveGenerator

/-- the quiescence list is exactly the generated (legal) moves that capture, promote or give check —
    nothing added, nothing else dropped, order and multiplicity preserved. -/
theorem quiescence_is_filter (g : MoveGenerator) (b : Board) (m : Move) :
    m ∈ g.generateQuiescenceMoves b ↔
      m ∈ g.generateMoves b ∧ (isCapture m = true ∨ isPromotion m = true ∨ g.isCheck b m = true) := by
  simp [generateQuiescenceMoves, List.mem_filter, Bool.or_eq_true, or_assoc]

theorem quiescence_sublist (g : MoveGenerator) (b : Board) :
    (g.generateQuiescenceMoves b).Sublist (g.generateMoves b) := List.filter_sublist

/-- when the side to move is in check the search examines every generated (legal) move. -/
theorem in_check_all_moves (g : MoveGenerator) (b : Board) (h : g.isInCheck b = true) :
    g.quiescenceMoveSet b = g.generateMoves b := by simp [quiescenceMoveSet, h]

/-- when it is not in check it examines exactly the filtered list. -/
theorem not_in_check_tactical (g : MoveGenerator) (b : Board) (h : g.isInCheck b = false) :
    g.quiescenceMoveSet b = g.generateQuiescenceMoves b := by simp [quiescenceMoveSet, h]

/-- `is_capture` is "Capture or EnPassant"; a promotion that takes something is in the set through `is_promotion`. -/
theorem capture_kinds (m : Move) : isCapture m = true ↔ m.kind = .capture ∨ m.kind = .enPassant := by
  cases m with | mk s d p k => cases k <;> simp [isCapture] <;> decide

/-- FULL STATEMENT (target; proved from C01 `generate_moves_exact` + C02 `make_move_refines` +
    `is_in_check_exact` once those are closed; until then it is decided per position by the three-way
    correspondence against `Spec.legalMoves`/`Spec.tactical`):
      Spec.valid b → ∀ m, m ∈ g.quiescenceMoveSet b ↔
        Spec.legal (Spec.abs b) m ∧ (Spec.inCheck (Spec.abs b) ∨ Spec.tactical (Spec.abs b) m)            -/
def FullStatement (g : MoveGenerator) : Prop :=
  ∀ b, Spec.valid b = true → ∀ m, m ∈ g.quiescenceMoveSet b ↔
    (Spec.legal (Spec.abs b) m = true ∧ (Spec.inCheck (Spec.abs b) = true ∨ Spec.tactical (Spec.abs b) m = true))

end Flounder.Props.C17
