/-
  C17 — Moves searched past the horizon are exactly captures, promotions and checks.
  Structure theorems about the model (what the selection IS); the semantic identification of
  `isCheck` with "gives check under the rules" is the C01/C02 development (see FULL STATEMENT below).
-/
import Flounder.Model.MoveGen
import Flounder.Spec.Chess
import Flounder.Props.C01
import Flounder.Props.C02

namespace Flounder.Props.C17
open Flounder Flounder.MoveGenerator

/-- the quiescence list is exactly the generated (legal) moves that capture, promote or give check —
    nothing added, nothing else dropped, order and multiplicity preserved. -/
theorem quiescence_is_filter (g : MoveGenerator) (b : Board) (m : Move) :
    m ∈ g.generateQuiescenceMoves b ↔
      m ∈ g.generateMoves b ∧ (isCapture m = true ∨ isPromotion m = true ∨ g.isCheck b m = true) := by
  simp [generateQuiescenceMoves, List.mem_filter, Bool.or_eq_true, or_assoc]

theorem quiescence_sublist (g : MoveGenerator) (b : Board) :
    (g.generateQuiescenceMoves b).Sublist (g.generateMoves b) := List.filter_sublist

/-- when the side to move is in check the search examines every generated (legal) move. -/
theorem in_check_all_moves (g : MoveGenerator) (b : Board) (h : g.isInCheck b = true) :
    g.quiescenceMoveSet b = g.generateMoves b := by simp [quiescenceMoveSet, h]

/-- when it is not in check it examines exactly the filtered list. -/
theorem not_in_check_tactical (g : MoveGenerator) (b : Board) (h : g.isInCheck b = false) :
    g.quiescenceMoveSet b = g.generateQuiescenceMoves b := by simp [quiescenceMoveSet, h]

/-- `is_capture` is "Capture or EnPassant"; a promotion that takes something is in the set through `is_promotion`. -/
theorem capture_kinds (m : Move) : isCapture m = true ↔ m.kind = .capture ∨ m.kind = .enPassant := by
  cases m with | mk s d p k => cases k <;> simp [isCapture] <;> decide

/-- FULL STATEMENT (target; proved from C01 `generate_moves_exact` + C02 `make_move_refines` +
    `is_in_check_exact` once those are closed; until then it is decided per position by the three-way
    correspondence against `Spec.legalMoves`/`Spec.tactical`):
      Spec.valid b → ∀ m, m ∈ g.quiescenceMoveSet b ↔
        Spec.legal (Spec.abs b) m ∧ (Spec.inCheck (Spec.abs b) ∨ Spec.tactical (Spec.abs b) m)            -/
def FullStatement (g : MoveGenerator) : Prop :=
  ∀ b, Spec.valid b = true → ∀ m, m ∈ g.quiescenceMoveSet b ↔
    (Spec.legal (Spec.abs b) m = true ∧ (Spec.inCheck (Spec.abs b) = true ∨ Spec.tactical (Spec.abs b) m = true))

/-! ### the full statement, from C01 (`generate_moves_exact`) and C02 (`make_move_refines`) -/

open Flounder.Spec in
/-- (i) for a legal move on a valid board, the engine's "gives check" test is the rules' check test on
    the successor position. -/
theorem isCheck_exact (b : Board) (hv : Spec.valid b = true) (m : Move)
    (hl : Spec.legal (Spec.abs b) m = true) :
    MoveGenerator.new.isCheck b m = Spec.inCheck (Spec.play (Spec.abs b) m) := by
  obtain ⟨b', hmk, hbd, htn, _, _, hv'⟩ := Props.C02.make_move_refines b m hv hl
  have h1 : MoveGenerator.new.isCheck b m = MoveGenerator.new.isInCheck b' := by
    unfold isCheck isInCheck
    rw [hmk]
  rw [h1, Props.C01.is_in_check_exact b' hv']
  unfold Spec.inCheck
  rw [htn]
  exact inCheckOf_congr hbd _

open Flounder.Spec in
/-- (ii) for a pseudo-legal move on a valid position, "capture/en-passant kind or promotion kind" is
    "takes something by the rules, or promotes". -/
theorem capture_or_promotion_exact {p : Spec.Pos} (hvp : Spec.ValidPos p) {m : Move}
    (hps : Spec.pseudo p m = true) :
    (isCapture m || isPromotion m) = (Spec.captures p m || m.kind == .promotion) := by
  obtain ⟨pc, hf⟩ := playFacts hvp hps
  unfold isCapture isPromotion Spec.captures
  cases hk : m.kind
  · rw [hf.dstEmpty (Or.inl hk)]; rfl
  · have := hf.dstFull hk
    cases hd : p.board m.dst with
    | none => exact absurd hd this
    | some x => rfl
  · simp
  · rw [hf.dstEmpty (Or.inr (Or.inr hk))]; rfl
  · simp

/-- for a legal move on a valid board the engine's selection predicate is the rules' `tactical`. -/
theorem selection_exact (b : Board) (hv : Spec.valid b = true) (m : Move)
    (hl : Spec.legal (Spec.abs b) m = true) :
    (isCapture m || isPromotion m || MoveGenerator.new.isCheck b m) = Spec.tactical (Spec.abs b) m := by
  have hps : Spec.pseudo (Spec.abs b) m = true := by
    unfold Spec.legal at hl
    simp only [Bool.and_eq_true] at hl
    exact hl.1
  unfold Spec.tactical
  rw [isCheck_exact b hv m hl, capture_or_promotion_exact ((Spec.valid_iff b).1 hv).2 hps]

/-- **C17**: on every valid board the moves `search_until_quiet` examines are exactly the legal moves
    when the side to move is in check, and exactly the legal captures, promotions and checking moves
    (by the rules of chess) otherwise. -/
theorem quiescence_moves_exact : FullStatement MoveGenerator.new := by
  intro b hv m
  obtain ⟨_, hmem, hchk⟩ := Props.C01.generate_moves_exact b hv
  unfold quiescenceMoveSet
  rw [hchk]
  cases hic : Spec.inCheck (Spec.abs b) with
  | true =>
    simp only [if_true, true_or, and_true]
    exact hmem m
  | false =>
    simp only [Bool.false_eq_true, if_false, false_or]
    unfold generateQuiescenceMoves
    rw [List.mem_filter, hmem m]
    constructor
    · rintro ⟨hl, ht⟩
      exact ⟨hl, by rw [← selection_exact b hv m hl]; exact ht⟩
    · rintro ⟨hl, ht⟩
      exact ⟨hl, by rw [selection_exact b hv m hl]; exact ht⟩

/-- in check: the examined set is exactly the legal moves. -/
theorem in_check_examines_all_legal (b : Board) (hv : Spec.valid b = true)
    (hc : Spec.inCheck (Spec.abs b) = true) (m : Move) :
    m ∈ MoveGenerator.new.quiescenceMoveSet b ↔ Spec.legal (Spec.abs b) m = true := by
  rw [quiescence_moves_exact b hv m, hc]
  simp

/-- not in check: the examined set is exactly the legal moves that capture, promote or give check. -/
theorem not_in_check_examines_tactical (b : Board) (hv : Spec.valid b = true)
    (hc : Spec.inCheck (Spec.abs b) = false) (m : Move) :
    m ∈ MoveGenerator.new.quiescenceMoveSet b ↔
      (Spec.legal (Spec.abs b) m = true ∧ Spec.tactical (Spec.abs b) m = true) := by
  rw [quiescence_moves_exact b hv m, hc]
  simp

/-- the examined list has no duplicates (it is a sublist of the generated list). -/
theorem quiescence_nodup (b : Board) (hv : Spec.valid b = true) :
    (MoveGenerator.new.quiescenceMoveSet b).Nodup := by
  obtain ⟨hnd, _, _⟩ := Props.C01.generate_moves_exact b hv
  unfold quiescenceMoveSet
  split
  · exact hnd
  · exact hnd.sublist (quiescence_sublist _ _)

end Flounder.Props.C17
