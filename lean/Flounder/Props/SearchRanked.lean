/-
  The "no hash collision" hypothesis of C03 / C05, made satisfiable.

  The closed-set theorems of Props/C03.lean and Props/C05.lean assume a set `S` of positions that is closed
  under ALL generated moves and on which the 64-bit hash is injective.  From most chess positions no such
  set exists (the closure has more than 2^64 elements), so those statements are vacuous where it matters.
  Their `_ranked` forms only need the hash to be injective on the positions the search can touch.  Here
  they are specialised to the canonical family of a depth-`D` search,

      horizon G root D d q  :=  d ≤ D ∧ q is within D - d plies of root          (Lemmas/Ranked.lean)

  whose union is `Within G root D` = the positions within `D` plies of the root:

    * `tt_move_legal_invariant_horizon`, `bestmove_legal_horizon`, `bestmove_none_iff_horizon`   (C03)
    * `negamax_contract_horizon`, `find_best_move_value_horizon`, `find_best_move_exact_horizon`  (C05)

  all under the single hash hypothesis `HashInjOn G (Within G root D)`.

  What was gained, machine-checked on a toy game (`toyGame`: an infinite chain `p ↦ p + 1` whose hash keeps
  the low three bits of the position):
    * `toy_no_closed_injective`   : from NO root is there a closed set with an injective hash — the closed-set
                                    theorems say nothing about this game;
    * `toy_horizon_injective`     : the hash IS injective on the positions within `D ≤ 7` plies of any root;
    * `toy_bestmove_legal`, `toy_find_best_move_value` : the ranked theorems apply for `D = 3`, every
                                    hypothesis discharged (the latter: a complete run on a fresh state returns
                                    the depth-3 minimax value `Spec.V`).
-/
import Flounder.Props.C03
import Flounder.Props.C05

namespace Flounder.Props.SearchRanked
open Flounder Gen Flounder.Search

section horizon
variable {P : Type} (G : Game P)

/-! ## the horizon family -/

/-- the positions a depth-`D` search of `root` can touch are those within `D` plies of `root`. -/
theorem horizon_U_iff (root : P) (D : Nat) (q : P) :
    Ranked.U (horizon G root D) q ↔ Within G root D q := by
  constructor
  · rintro ⟨d, _, hw⟩
    exact hw.mono (Nat.sub_le _ _)
  · intro hw
    exact ⟨0, Nat.zero_le _, hw⟩

theorem horizon_U (root : P) (D : Nat) : Ranked.U (horizon G root D) = Within G root D := by
  funext q
  exact propext (horizon_U_iff G root D q)

/-- the hash hypothesis of this file, in the vocabulary of C05 (`Search.HashInj`). -/
theorem hashInj_horizon {root : P} {D : Nat} (h : HashInjOn G (Within G root D)) :
    Search.HashInj G (Ranked.U (horizon G root D)) := by
  rw [horizon_U]; exact h

/-- … and in the vocabulary of C03 (`C03.HashInj`). -/
theorem hashInj_horizon_C03 {root : P} {D : Nat} (h : HashInjOn G (Within G root D)) :
    C03.HashInj G (Ranked.U (horizon G root D)) := by
  rw [horizon_U]; exact h

/-! ## C03 within the horizon -/

/-- **C1.**  The table keeps holding only generated moves for the positions within `D` plies of the root —
    for every limit, completed or interrupted or out of fuel. -/
theorem tt_move_legal_invariant_horizon (root : P) (D : Nat) (hinj : HashInjOn G (Within G root D))
    (qfuel : Nat) (limit : Limit) (s : SearchState) (h : C03.TTMoveOK G (Within G root D) s.tt) :
    C03.TTMoveOK G (Within G root D) (findBestMove G qfuel root D limit s).2.tt := by
  have h' := C03.tt_move_legal_invariant_ranked G (horizon_ranked G root D) (hashInj_horizon_C03 G hinj)
    qfuel root D (horizon_root G root D) limit s (by rw [horizon_U]; exact h)
  rw [horizon_U] at h'
  exact h'

/-- **C2.**  The reported move is a generated move of the root, and one is reported whenever there is one. -/
theorem bestmove_legal_horizon (root : P) (D : Nat) (hinj : HashInjOn G (Within G root D))
    (qfuel : Nat) (limit : Limit) (s : SearchState) (h : C03.TTMoveOK G (Within G root D) s.tt)
    (score : Int) (mv : Option Move) (s' : SearchState)
    (hres : findBestMove G qfuel root D limit s = (some (score, mv), s')) :
    (∀ m, mv = some m → m ∈ G.moves root) ∧ (G.moves root ≠ [] → mv ≠ none) :=
  C03.bestmove_legal_ranked G (horizon_ranked G root D) (hashInj_horizon_C03 G hinj) qfuel root D
    (horizon_root G root D) limit s (by rw [horizon_U]; exact h) score mv s' hres

/-- **C3.** -/
theorem bestmove_none_iff_horizon (root : P) (D : Nat) (hinj : HashInjOn G (Within G root D))
    (qfuel : Nat) (limit : Limit) (s : SearchState) (h : C03.TTMoveOK G (Within G root D) s.tt)
    (score : Int) (mv : Option Move) (s' : SearchState)
    (hres : findBestMove G qfuel root D limit s = (some (score, mv), s')) :
    mv = none ↔ G.moves root = [] :=
  C03.bestmove_none_iff_ranked G (horizon_ranked G root D) (hashInj_horizon_C03 G hinj) qfuel root D
    (horizon_root G root D) limit s (by rw [horizon_U]; exact h) score mv s' hres

/-! ## C05 within the horizon -/

/-- **negamax_contract** for a node `p` searched with remaining depth `d ≤ D` that lies within `D - d`
    plies of the root. -/
theorem negamax_contract_horizon (root : P) (D : Nat) (hinj : HashInjOn G (Within G root D))
    (qfuel qf d : Nat) (p : P) (ply : Nat) (α β v : Int) (s s' : SearchState) (ro : Option SearchResult)
    (hα : NEGATIVE_INFINITY ≤ α) (hαβ : α < β) (hβ : β ≤ INFINITY)
    (hd : d ≤ D) (hp : Within G root (D - d) p)
    (hT : C05.TTSoundStrict G (Within G root D) qf s.tt) (hR : RepOK s)
    (hv : Spec.V G qf d p = some v) (hq : qf ≤ qfuel)
    (hrun : negamax G qfuel d p ply α β s = (ro, s')) (hns : NoStop s s')
    (hdh : s'.deeperHits = s.deeperHits) :
    ∃ r, ro = some r ∧ Contract v r.score α β ∧ C05.TTSoundStrict G (Within G root D) qf s'.tt ∧
      s'.rep = s.rep ∧
      (1 ≤ d → G.moves p ≠ [] → ∃ m, r.bestMove = some m ∧ m ∈ G.moves p) ∧
      (α < r.score → r.score < β → r.score = v ∧ ∀ k m x, d = k + 1 → r.bestMove = some m →
        Spec.V G qf k (G.play p m) = some x → -x = v) := by
  have h := C05.negamax_contract_ranked G (horizon G root D) (horizon_ranked G root D)
    (hashInj_horizon G hinj) qfuel qf d p ply α β v s s' ro hα hαβ hβ ⟨hd, hp⟩
    (by rw [horizon_U]; exact hT) hR hv hq hrun hns hdh
  rw [horizon_U] at h
  exact h

/-- **negamax_contract**, won / lost view, within the horizon. -/
theorem negamax_contract_class_horizon (root : P) (D : Nat) (hinj : HashInjOn G (Within G root D))
    (qfuel qf d : Nat) (p : P) (ply : Nat) (α β v : Int) (s s' : SearchState) (ro : Option SearchResult)
    (hα : NEGATIVE_INFINITY ≤ α) (hαβ : α < β) (hβ : β ≤ INFINITY)
    (hd : d ≤ D) (hp : Within G root (D - d) p)
    (hT : C05.TTSoundClass G (Within G root D) qf s.tt) (hR : RepOK s)
    (hv : Spec.V G qf d p = some v) (hq : qf ≤ qfuel)
    (hrun : negamax G qfuel d p ply α β s = (ro, s')) (hns : NoStop s s')
    (hdh : s'.deeperHits = s.deeperHits) :
    ∃ r, ro = some r ∧ Contract (Spec.clampClass v) (Spec.clampClass r.score) α β ∧
      C05.TTSoundClass G (Within G root D) qf s'.tt ∧ s'.rep = s.rep ∧
      (1 ≤ d → G.moves p ≠ [] → ∃ m, r.bestMove = some m ∧ m ∈ G.moves p) := by
  have h := C05.negamax_contract_class_ranked G (horizon G root D) (horizon_ranked G root D)
    (hashInj_horizon G hinj) qfuel qf d p ply α β v s s' ro hα hαβ hβ ⟨hd, hp⟩
    (by rw [horizon_U]; exact hT) hR hv hq hrun hns hdh
  rw [horizon_U] at h
  exact h

/-- **find_best_move_value**: the only hash hypothesis is injectivity on the positions within `D` plies of
    the root. -/
theorem find_best_move_value_horizon (root : P) (D : Nat) (hinj : HashInjOn G (Within G root D))
    (qfuel qf : Nat) (hq : qf ≤ qfuel) (hD : 1 ≤ D) (limit : Limit) (s s' : SearchState)
    (ro : Option (Int × Option Move)) (v : Int)
    (hV : ∀ d, 1 ≤ d → d ≤ D → ∃ w, Spec.V G qf d root = some w) (hv : Spec.V G qf D root = some v)
    (hT : C05.TTSoundClass G (Within G root D) qf s.tt) (hrep : s.rep = [])
    (hrun : findBestMove G qfuel root D limit s = (ro, s')) (hfin : s'.stopSeen = false)
    (hdh : s'.deeperHits = s.deeperHits) :
    ∃ score mv, ro = some (score, mv) ∧
      Spec.clampClass score = Spec.clampClass v ∧
      (NEGATIVE_INFINITY < v → v < INFINITY → score = v) ∧
      (G.moves root ≠ [] → ∃ m, mv = some m ∧ m ∈ G.moves root) ∧
      (NEGATIVE_INFINITY < v → v < INFINITY → ∀ k m x, D = k + 1 → mv = some m →
        Spec.V G qf k (G.play root m) = some x → -x = v) ∧
      C05.TTSoundClass G (Within G root D) qf s'.tt := by
  have h := C05.find_best_move_value_ranked G (horizon G root D) (horizon_ranked G root D)
    (hashInj_horizon G hinj) qfuel qf hq root D (horizon_root G root D) hD limit s s' ro v hV hv
    (by rw [horizon_U]; exact hT) hrep hrun hfin hdh
  rw [horizon_U] at h
  exact h

/-- **find_best_move_exact** within the horizon. -/
theorem find_best_move_exact_horizon (root : P) (D : Nat) (hinj : HashInjOn G (Within G root D))
    (qfuel qf : Nat) (hq : qf ≤ qfuel) (hD : 1 ≤ D) (limit : Limit) (s s' : SearchState)
    (ro : Option (Int × Option Move)) (v : Int)
    (hV : ∀ d, 1 ≤ d → d ≤ D → ∃ w, Spec.V G qf d root = some w)
    (hin : ∀ d w, 1 ≤ d → d ≤ D → Spec.V G qf d root = some w → NEGATIVE_INFINITY < w ∧ w < INFINITY)
    (hv : Spec.V G qf D root = some v)
    (hT : C05.TTSoundStrict G (Within G root D) qf s.tt) (hrep : s.rep = [])
    (hrun : findBestMove G qfuel root D limit s = (ro, s')) (hfin : s'.stopSeen = false)
    (hdh : s'.deeperHits = s.deeperHits) :
    ∃ mv, ro = some (v, mv) ∧ (G.moves root ≠ [] → ∃ m, mv = some m ∧ m ∈ G.moves root) ∧
      (∀ k m x, D = k + 1 → mv = some m → Spec.V G qf k (G.play root m) = some x → -x = v) ∧
      C05.TTSoundStrict G (Within G root D) qf s'.tt := by
  have h := C05.find_best_move_exact_ranked G (horizon G root D) (horizon_ranked G root D)
    (hashInj_horizon G hinj) qfuel qf hq root D (horizon_root G root D) hD limit s s' ro v hV hin hv
    (by rw [horizon_U]; exact hT) hrep hrun hfin hdh
  rw [horizon_U] at h
  exact h

end horizon

/-! ## what was gained: a game on which only the ranked theorems say anything -/

def toyMove : Move := ⟨0, 1, .pawn, .quiet⟩

/-- an infinite chain: every position `p` has exactly one move, to `p + 1`; no quiescence moves, never in
    check; the evaluation alternates in sign and grows; the hash keeps the low three bits. -/
def toyGame : Game Nat where
  moves := fun _ => [toyMove]
  qmoves := fun _ => []
  play := fun p _ => p + 1
  inCheck := fun _ => false
  eval := fun p => if p % 2 = 0 then (p : Int) + 10 else -(p : Int) - 7
  hash := fun p => (p % 8).toUInt64
  pieceAt := fun _ _ => none

theorem toy_hash_period (p : Nat) : toyGame.hash (p + 8) = toyGame.hash p := by
  show ((p + 8) % 8).toUInt64 = (p % 8).toUInt64
  rw [Nat.add_mod_right]

/-- every set that contains `r` and is closed under the generated moves contains all later positions. -/
theorem toy_closed_up {S : Nat → Prop} (hcl : Search.Closed toyGame S) {r : Nat} (hr : S r) :
    ∀ n, S (r + n) := by
  intro n
  induction n with
  | zero => exact hr
  | succ n ih => exact hcl (r + n) toyMove ih List.mem_cons_self

/-- **the closed-set hypothesis is unsatisfiable** on the toy game, from every root: no set containing the
    root is closed under the moves AND has an injective hash.  (`C03.Closed` asks for even more — closure
    under quiescence moves as well — so it is unsatisfiable too: `toy_no_closed_injective_C03`.) -/
theorem toy_no_closed_injective (root : Nat) :
    ¬ ∃ S : Nat → Prop, S root ∧ Search.Closed toyGame S ∧ Search.HashInj toyGame S := by
  rintro ⟨S, hr, hcl, hinj⟩
  have h8 : S (root + 8) := toy_closed_up hcl hr 8
  have := hinj (root + 8) root h8 hr (toy_hash_period root)
  omega

theorem toy_no_closed_injective_C03 (root : Nat) :
    ¬ ∃ S : Nat → Prop, S root ∧ C03.Closed toyGame S ∧ C03.HashInj toyGame S := by
  rintro ⟨S, hr, hcl, hinj⟩
  exact toy_no_closed_injective root ⟨S, hr, hcl.1, hinj⟩

/-- the positions within `n` plies of `root` are `root, …, root + n`. -/
theorem toy_within {root n q : Nat} (h : Within toyGame root n q) : root ≤ q ∧ q ≤ root + n := by
  induction h with
  | root n => omega
  | step _ _ ih =>
    show root ≤ _ + 1 ∧ _ + 1 ≤ root + (_ + 1)
    omega

theorem toy_within_iff (root n q : Nat) : Within toyGame root n q ↔ root ≤ q ∧ q ≤ root + n := by
  refine ⟨toy_within, ?_⟩
  rintro ⟨h1, h2⟩
  obtain ⟨k, rfl⟩ : ∃ k, q = root + k := ⟨q - root, by omega⟩
  have hk : k ≤ n := by omega
  clear h1 h2
  induction k generalizing n with
  | zero => exact Within.root n
  | succ k ih =>
    obtain ⟨n', rfl⟩ : ∃ n', n = n' + 1 := ⟨n - 1, by omega⟩
    exact Within.step (m := toyMove) (ih n' (by omega)) List.mem_cons_self

/-- **the ranked hypothesis is satisfiable**: the hash is injective on the positions within `D ≤ 7` plies
    of any root. -/
theorem toy_horizon_injective (root D : Nat) (hD : D ≤ 7) : HashInjOn toyGame (Within toyGame root D) := by
  intro p q hp hq h
  have hp' := toy_within hp
  have hq' := toy_within hq
  have h' : (p % 8).toUInt64 = (q % 8).toUInt64 := h
  have := congrArg UInt64.toNat h'
  simp only [Nat.toUInt64_eq, UInt64.toNat_ofNat', Nat.reducePow] at this
  omega

/-- the hash is NOT injective one ply further. -/
theorem toy_horizon_not_injective (root : Nat) : ¬ HashInjOn toyGame (Within toyGame root 8) := by
  intro h
  have := h (root + 8) root ((toy_within_iff root 8 _).2 ⟨by omega, by omega⟩) (Within.root 8)
    (toy_hash_period root)
  omega

/-- **C03 applies** (D = 3, any root, any fuel, any limit, fresh table): whatever `findBestMove` reports is
    the generated move.  Every hypothesis of `bestmove_legal_horizon` is discharged. -/
theorem toy_bestmove_legal (root qfuel : Nat) (limit : Limit) (score : Int) (mv : Option Move)
    (s' : SearchState) (hres : findBestMove toyGame qfuel root 3 limit {} = (some (score, mv), s')) :
    mv = some toyMove := by
  have h := bestmove_legal_horizon toyGame root 3 (toy_horizon_injective root 3 (by omega)) qfuel limit {}
    (C03.ttMoveOK_empty toyGame _) score mv s' hres
  cases hm : mv with
  | none => exact absurd hm (h.2 (by simp [toyGame]))
  | some m =>
    have := h.1 m hm
    simp only [toyGame, List.mem_cons, List.not_mem_nil, or_false] at this
    rw [this]

/-! ### C05 applies: a complete run, every hypothesis discharged

  The table is a `Std.HashMap`, which the kernel cannot evaluate, so "no deeper entry was reused" is proved,
  not computed: on the chain, position `j` is searched with remaining depth `cur - j` in iteration `cur`, so
  every entry the table holds for `j` during that iteration has depth at most `cur - j` (`Low cur`). -/

/-- every entry for chain position `j ≤ 7` has depth at most `c - j`. -/
def Low (c : Nat) (t : TT) : Prop :=
  ∀ j e, j ≤ 7 → t.retrieve (toyGame.hash j) = some e → e.depth + j ≤ c

theorem Low.mono {c c' : Nat} {t : TT} (h : Low c t) (hc : c ≤ c') : Low c' t := fun j e hj he => by
  have := h j e hj he; omega

theorem low_empty (c : Nat) : Low c ({} : TT) := by
  intro j e _ he
  simp [TT.retrieve] at he

theorem toy_hash_inj {j k : Nat} (hj : j ≤ 7) (hk : k ≤ 7) (h : toyGame.hash j = toyGame.hash k) : j = k := by
  have h' : (j % 8).toUInt64 = (k % 8).toUInt64 := h
  have := congrArg UInt64.toNat h'
  simp only [Nat.toUInt64_eq, UInt64.toNat_ofNat', Nat.reducePow] at this
  omega

theorem Low.store {c : Nat} {t : TT} (h : Low c t) (k : Nat) (hk : k ≤ 7) (ev : Int) (mv : Option Move)
    (d : Nat) (b : Bounds) (hd : d + k ≤ c) : Low c (t.store (toyGame.hash k) ev mv d b) := by
  intro j e hj he
  rcases retrieve_store t (toyGame.hash k) (toyGame.hash j) ev mv d b with h1 | ⟨hk', h1⟩
  · rw [h1] at he; exact h j e hj he
  · rw [h1] at he
    have : j = k := toy_hash_inj hj hk hk'
    subst this
    cases he
    exact hd

theorem toy_finishNode (k d1 : Nat) (α β : Int) (acc : LoopAcc) (s : SearchState) (c : Nat) (hk : k ≤ 7)
    (hd : d1 + k ≤ c) (hL : Low c s.tt) :
    (finishNode toyGame k d1 α β acc s).2.deeperHits = s.deeperHits ∧
    Low c (finishNode toyGame k d1 α β acc s).2.tt := by
  unfold finishNode
  split
  · exact ⟨rfl, hL⟩
  · exact ⟨rfl, hL.store k hk _ _ _ _ hd⟩

theorem toy_negamaxLoop (rec : Nat → Nat → Int → Int → SearchState → Option SearchResult × SearchState)
    (k c : Nat)
    (hrec : ∀ ply a b s, Low c s.tt →
      (rec (k + 1) ply a b s).2.deeperHits = s.deeperHits ∧ Low c (rec (k + 1) ply a b s).2.tt)
    (depth ply : Nat) (β : Int) (acc : LoopAcc) (s : SearchState) (hL : Low c s.tt) :
    (negamaxLoop toyGame rec k depth ply β [toyMove] acc s).2.deeperHits = s.deeperHits ∧
    Low c (negamaxLoop toyGame rec k depth ply β [toyMove] acc s).2.tt := by
  rw [negamaxLoop_cons]
  split
  · exact ⟨rfl, hL⟩
  · have hplay : toyGame.play k toyMove = k + 1 := rfl
    rw [hplay]
    have h := hrec (ply + 1) (-β) (-acc.alpha) (polled s) hL
    rcases hres : rec (k + 1) (ply + 1) (-β) (-acc.alpha) (polled s) with ⟨ro, s2⟩
    rw [hres] at h
    cases ro with
    | none => exact h
    | some r =>
      simp only
      split
      · have f := qframe_cut s2 toyMove ply depth
        exact ⟨by rw [f.deeper]; exact h.1, by rw [f.tt]; exact h.2⟩
      · rw [negamaxLoop_nil]; exact h

/-- `negamax` on the chain: a node at position `k` with remaining depth `d = c - k` reuses no deeper entry
    and keeps the table `Low c`. -/
theorem toy_negamax (qfuel c : Nat) (hc : c ≤ 7) :
    ∀ (d k ply : Nat) (α β : Int) (s : SearchState), k + d = c → Low c s.tt →
      (negamax toyGame qfuel d k ply α β s).2.deeperHits = s.deeperHits ∧
      Low c (negamax toyGame qfuel d k ply α β s).2.tt := by
  intro d
  induction d with
  | zero =>
    intro k ply α β s hkd hL
    rw [negamax_zero]
    split
    · exact ⟨rfl, hL⟩
    · rcases hp : probeTT toyGame s.incrementNodes k 0 α β with ⟨ro, mvv, s1⟩
      rcases probeTT_cases toyGame s.incrementNodes k 0 α β with ⟨h1, h2⟩ | ⟨e, he, hde, h1, hb, h2⟩
      all_goals rw [hp] at h1 h2
      all_goals simp only at h1 h2
      all_goals subst h1
      all_goals subst h2
      all_goals simp only
      · have f := leafResult_qframe toyGame qfuel k α β s.incrementNodes
        exact ⟨f.deeper, by rw [f.tt]; exact hL⟩
      · have hle := hL k e (by omega) he
        refine ⟨?_, by rw [counted_tt]; exact hL⟩
        unfold counted
        rw [if_neg (by omega)]
        rfl
  | succ d ih =>
    intro k ply α β s hkd hL
    rw [negamax_succ]
    split
    · exact ⟨rfl, hL⟩
    · rcases hp : probeTT toyGame s.incrementNodes k (d + 1) α β with ⟨ro, mvv, s1⟩
      rcases probeTT_cases toyGame s.incrementNodes k (d + 1) α β with ⟨h1, h2⟩ | ⟨e, he, hde, h1, hb, h2⟩
      all_goals rw [hp] at h1 h2
      all_goals simp only at h1 h2
      all_goals subst h1
      all_goals subst h2
      all_goals simp only
      · rw [innerResult_cons toyGame _ d k ply α β mvv _ toyMove [] rfl]
        have hm : toyGame.moves k = [toyMove] := rfl
        have ho : orderMoves toyGame s.incrementNodes k [toyMove] mvv ply = [toyMove] := by
          simp [orderMoves]
        rw [hm, ho]
        generalize (⟨α, ⟨NEGATIVE_INFINITY, some ([toyMove].headD toyMove)⟩⟩ : LoopAcc) = acc0
        have hl := toy_negamaxLoop (negamax toyGame qfuel d) k c
          (fun ply a b s hL => ih (k + 1) ply a b s (by omega) hL) (d + 1) ply β acc0 s.incrementNodes hL
        rcases hlr : negamaxLoop toyGame (negamax toyGame qfuel d) k (d + 1) ply β [toyMove] acc0
          s.incrementNodes with ⟨ro, s2⟩
        rw [hlr] at hl
        cases ro with
        | none => exact hl
        | some acc =>
          simp only
          have f := toy_finishNode k (d + 1) α β acc s2 c (by omega) (by omega) hl.2
          exact ⟨by rw [f.1]; exact hl.1, f.2⟩
      · have hle := hL k e (by omega) he
        refine ⟨?_, by rw [counted_tt]; exact hL⟩
        unfold counted
        rw [if_neg (by omega)]
        rfl

theorem toy_iterate (qfuel maxDepth : Nat) (hD : maxDepth ≤ 7) :
    ∀ (n cur : Nat) (best : Int × Option Move) (s : SearchState), Low cur s.tt →
      (iterate toyGame qfuel 0 maxDepth n cur best s).2.deeperHits = s.deeperHits := by
  intro n
  induction n with
  | zero => intro cur best s _; rfl
  | succ n ih =>
    intro cur best s hL
    rw [iterate_succ]
    split
    · rfl
    · split
      · rfl
      · rename_i hcur _
        have hN := toy_negamax qfuel cur (by omega) cur 0 0 NEGATIVE_INFINITY INFINITY
          (pushed toyGame 0 (polled s)) (by omega) hL
        rw [searchPosition_eq]
        generalize negamax toyGame qfuel cur 0 0 NEGATIVE_INFINITY INFINITY (pushed toyGame 0 (polled s)) = R
          at hN
        obtain ⟨ro, s2⟩ := R
        cases ro with
        | none => exact hN.1
        | some r =>
          simp only
          split
          · rw [ih]
            · exact hN.1
            · exact (hN.2.store 0 (by omega) r.score r.bestMove cur .exact (by omega)).mono (by omega)
          · rw [ih]
            · exact hN.1
            · exact hN.2.mono (by omega)

/-- **no deeper entry is reused** by a search of the chain from position 0 to depth `D ≤ 7` — any fuel, any
    limit, any starting state whose table is `Low 1` (e.g. the empty one). -/
theorem toy_no_deeper_hits (qfuel D : Nat) (hD : D ≤ 7) (limit : Limit) (s : SearchState) (hL : Low 1 s.tt) :
    (findBestMove toyGame qfuel 0 D limit s).2.deeperHits = s.deeperHits := by
  rw [Search.findBestMove_snd]
  exact toy_iterate qfuel D hD D 1 _ (started limit s) hL

theorem toy_values : Spec.V toyGame 1 1 0 = some 8 ∧ Spec.V toyGame 1 2 0 = some 12 ∧
    Spec.V toyGame 1 3 0 = some 10 := by decide

/-- **C05 applies** (D = 3, root 0, fresh state, no deadline): every hypothesis of
    `find_best_move_value_horizon` is discharged — hash injective within the horizon
    (`toy_horizon_injective`), reference values exist (`toy_values`), fresh table, empty stack, the run
    completes (`findBestMove_completes_of_no_deadline`) and reuses no deeper entry (`toy_no_deeper_hits`) —
    and the search returns the depth-3 minimax value 10 with the generated move, leaving a sound table.
    By `toy_no_closed_injective` the closed-set theorem `C05.find_best_move_value` cannot be applied here. -/
theorem toy_find_best_move_value :
    (findBestMove toyGame 1 0 3 .none {}).1 = some (10, some toyMove) ∧
    Spec.V toyGame 1 3 0 = some 10 ∧
    C05.TTSoundClass toyGame (Within toyGame 0 3) 1 (findBestMove toyGame 1 0 3 .none {}).2.tt := by
  obtain ⟨v1, v2, v3⟩ := toy_values
  have hV : ∀ d, 1 ≤ d → d ≤ 3 → ∃ w, Spec.V toyGame 1 d 0 = some w := by
    intro d h1 h3
    obtain rfl | rfl | rfl : d = 1 ∨ d = 2 ∨ d = 3 := by omega
    · exact ⟨_, v1⟩
    · exact ⟨_, v2⟩
    · exact ⟨_, v3⟩
  obtain ⟨score, mv, hro, _, hsc, hmv, _, hT⟩ :=
    find_best_move_value_horizon toyGame 0 3 (toy_horizon_injective 0 3 (by omega)) 1 1 (Nat.le_refl _)
      (by omega) .none {} (findBestMove toyGame 1 0 3 .none {}).2 (findBestMove toyGame 1 0 3 .none {}).1 10
      hV v3 (C05.ttSound_fresh toyGame _ 1) rfl rfl
      (C05.findBestMove_completes_of_no_deadline toyGame 1 0 3 {})
      (toy_no_deeper_hits 1 3 (by omega) .none {} (low_empty 1))
  have hs : score = 10 := hsc (by decide) (by decide)
  obtain ⟨m, hm, hmem⟩ := hmv (by simp [toyGame])
  have hm' : m = toyMove := by
    simpa [toyGame] using hmem
  subst hs hm hm'
  exact ⟨hro, v3, hT⟩

/-- `find_best_move_exact_horizon` applies as well (all iteration values 8, 12, 10 lie inside the window). -/
theorem toy_find_best_move_exact :
    ∃ mv, (findBestMove toyGame 1 0 3 .none {}).1 = some (10, mv) ∧
      C05.TTSoundStrict toyGame (Within toyGame 0 3) 1 (findBestMove toyGame 1 0 3 .none {}).2.tt := by
  obtain ⟨v1, v2, v3⟩ := toy_values
  have hV : ∀ d w, 1 ≤ d → d ≤ 3 → Spec.V toyGame 1 d 0 = some w → w = 8 ∨ w = 12 ∨ w = 10 := by
    intro d w h1 h3 hw
    obtain rfl | rfl | rfl : d = 1 ∨ d = 2 ∨ d = 3 := by omega
    · rw [v1] at hw; cases hw; omega
    · rw [v2] at hw; cases hw; omega
    · rw [v3] at hw; cases hw; omega
  obtain ⟨mv, hro, _, _, hT⟩ :=
    find_best_move_exact_horizon toyGame 0 3 (toy_horizon_injective 0 3 (by omega)) 1 1 (Nat.le_refl _)
      (by omega) .none {} (findBestMove toyGame 1 0 3 .none {}).2 (findBestMove toyGame 1 0 3 .none {}).1 10
      (fun d h1 h3 => by
        obtain rfl | rfl | rfl : d = 1 ∨ d = 2 ∨ d = 3 := by omega
        · exact ⟨_, v1⟩
        · exact ⟨_, v2⟩
        · exact ⟨_, v3⟩)
      (fun d w h1 h3 hw => by
        have := hV d w h1 h3 hw
        simp only [negInf_eq, inf_eq]
        omega)
      v3 (ttSound_new toyGame id _ 1) rfl rfl
      (C05.findBestMove_completes_of_no_deadline toyGame 1 0 3 {})
      (toy_no_deeper_hits 1 3 (by omega) .none {} (low_empty 1))
  exact ⟨mv, hro, hT⟩

/-- `negamax_contract_horizon` applies: one full-window `negamax` of depth 3 at the root on a fresh state
    returns exactly the minimax value. -/
theorem toy_negamax_contract :
    ∃ r, (negamax toyGame 1 3 0 0 NEGATIVE_INFINITY INFINITY {}).1 = some r ∧ r.score = 10 := by
  have hN := toy_negamax 1 3 (by omega) 3 0 0 NEGATIVE_INFINITY INFINITY {} rfl (low_empty 3)
  have hR : RepOK ({} : SearchState) := fun h => by
    show (List.filter (· == h) []).length < 2
    simp
  obtain ⟨r, hr, hc, _⟩ :=
    negamax_contract_horizon toyGame 0 3 (toy_horizon_injective 0 3 (by omega)) 1 1 3 0 0
      NEGATIVE_INFINITY INFINITY 10 {} (negamax toyGame 1 3 0 0 NEGATIVE_INFINITY INFINITY {}).2
      (negamax toyGame 1 3 0 0 NEGATIVE_INFINITY INFINITY {}).1 (Int.le_refl _) (by decide) (Int.le_refl _)
      (Nat.le_refl _) (Within.root _) (ttSound_new toyGame id _ 1) hR toy_values.2.2 (Nat.le_refl _) rfl
      (C05.negamax_noStop_of_no_deadline toyGame 1 3 0 0 _ _ {} rfl rfl) hN.1
  refine ⟨r, hr, ?_⟩
  have hni := negInf_eq
  have hin := inf_eq
  by_cases a : r.score ≤ NEGATIVE_INFINITY
  · have := hc.1 a; omega
  · by_cases b : r.score ≥ INFINITY
    · have := hc.2.1 b; omega
    · exact hc.2.2 (by omega) (by omega)

/-- `tt_move_legal_invariant_horizon` applies (any root, fuel, limit; fresh table). -/
theorem toy_tt_move_legal (root qfuel : Nat) (limit : Limit) :
    C03.TTMoveOK toyGame (Within toyGame root 3) (findBestMove toyGame qfuel root 3 limit {}).2.tt :=
  tt_move_legal_invariant_horizon toyGame root 3 (toy_horizon_injective root 3 (by omega)) qfuel limit {}
    (C03.ttMoveOK_empty toyGame _)

end Flounder.Props.SearchRanked
