/-
  C04 — The `position` command reconstructs the position: move text identifies from/to/promotion, square
  and FEN text round trips, `position startpos|fen … [moves …]` sets the board by replaying the moves found
  by text, only the most recent `position` command counts, and large move counters are accepted.
-/
import Flounder.Lemmas.UciPosition
import Flounder.Lemmas.FenRoundtrip
import Flounder.Lemmas.FenInv

namespace Flounder.Props.C04
open Flounder Flounder.Engine Flounder.Lemmas.UciPosition Flounder.Lemmas.FenAlg Flounder.Lemmas.FenDec
  Flounder.Lemmas.FenPrint Flounder.Lemmas.FenInv

/-! ### move and square text -/

/-- **square text round trip**: `algebraic_to_square(square_to_algebraic(s)) = s` on the 64 squares. -/
theorem squareToAlgebraic_roundtrip (s : Nat) (h : s < 64) : algebraicToSquare (squareToAlgebraic s) = some s :=
  Flounder.Lemmas.FenAlg.squareToAlgebraic_roundtrip s h

/-- **equal move texts ⇒ same from-square, to-square and promotion letter** (all squares on the board;
    `promoSuffix` is the letter `to_algebraic` appends: b/n/r/q for promotions, nothing otherwise). -/
theorem to_algebraic_injective_on_generated (m₁ m₂ : Move) (h : m₁.toAlgebraic = m₂.toAlgebraic)
    (h1s : m₁.src < 64) (h1d : m₁.dst < 64) (h2s : m₂.src < 64) (h2d : m₂.dst < 64) :
    m₁.src = m₂.src ∧ m₁.dst = m₂.dst ∧ promoSuffix m₁ = promoSuffix m₂ :=
  to_algebraic_injective m₁ m₂ h h1s h1d h2s h2d

/-- for two promotions (to one of the four promotion pieces) the same letter is the same piece. -/
theorem promotion_letter_injective (m₁ m₂ : Move) (h : promoSuffix m₁ = promoSuffix m₂)
    (k1 : m₁.kind = .promotion) (k2 : m₂.kind = .promotion)
    (p1 : m₁.piece ∈ Piece.promotions) (p2 : m₂.piece ∈ Piece.promotions) : m₁.piece = m₂.piece :=
  promoSuffix_inj m₁ m₂ h k1 k2 p1 p2

/-- the move `make_moves` picks for a token: a generated move with exactly that text. -/
theorem resolve_sound (mg : MoveGenerator) (b : Board) (t : Tok) (m : Move) (h : resolve mg b t = some m) :
    m ∈ mg.generateMoves b ∧ m.toAlgebraic = t := by
  unfold resolve at h
  exact ⟨List.mem_of_find?_eq_some h, by simpa using List.find?_some h⟩

/-- a token resolves iff some generated move has that text. -/
theorem resolve_isSome_iff (mg : MoveGenerator) (b : Board) (t : Tok) :
    (resolve mg b t).isSome = true ↔ ∃ m ∈ mg.generateMoves b, m.toAlgebraic = t := by
  unfold resolve
  simp [List.find?_isSome]

/-- **the picked move has exactly the from/to/promotion of the text**: it agrees in these three with
    every generated move of the same text. -/
theorem resolve_picks (mg : MoveGenerator) (b : Board) (t : Tok) (m m' : Move) (h : resolve mg b t = some m)
    (hm' : m'.toAlgebraic = t)
    (hs : m.src < 64) (hd : m.dst < 64) (hs' : m'.src < 64) (hd' : m'.dst < 64) :
    m.src = m'.src ∧ m.dst = m'.dst ∧ promoSuffix m = promoSuffix m' :=
  to_algebraic_injective m m' ((resolve_sound mg b t m h).2.trans hm'.symm) hs hd hs' hd'

/-- the dependency on the move generator (proved separately as part of C01: generated squares are on the
    board and no two generated moves share from, to and promotion letter). -/
def GenOK (mg : MoveGenerator) (b : Board) : Prop :=
  (∀ m ∈ mg.generateMoves b, m.src < 64 ∧ m.dst < 64) ∧
  (∀ m₁ ∈ mg.generateMoves b, ∀ m₂ ∈ mg.generateMoves b,
    m₁.src = m₂.src → m₁.dst = m₂.dst → promoSuffix m₁ = promoSuffix m₂ → m₁ = m₂)

/-- under `GenOK` the text is injective on the generated moves … -/
theorem toAlgebraic_injOn_generated (mg : MoveGenerator) (b : Board) (hG : GenOK mg b)
    (m₁ m₂ : Move) (h1 : m₁ ∈ mg.generateMoves b) (h2 : m₂ ∈ mg.generateMoves b)
    (h : m₁.toAlgebraic = m₂.toAlgebraic) : m₁ = m₂ := by
  obtain ⟨a, b', c⟩ := to_algebraic_injective m₁ m₂ h (hG.1 m₁ h1).1 (hG.1 m₁ h1).2 (hG.1 m₂ h2).1 (hG.1 m₂ h2).2
  exact hG.2 m₁ h1 m₂ h2 a b' c

/-- … so the text of a generated move resolves to that very move. -/
theorem resolve_unique (mg : MoveGenerator) (b : Board) (hG : GenOK mg b) (m : Move)
    (hm : m ∈ mg.generateMoves b) : resolve mg b m.toAlgebraic = some m := by
  cases hr : resolve mg b m.toAlgebraic with
  | none =>
    have := (resolve_isSome_iff mg b m.toAlgebraic).2 ⟨m, hm, rfl⟩
    rw [hr] at this; cases this
  | some m' =>
    obtain ⟨h1, h2⟩ := resolve_sound mg b _ m' hr
    rw [toAlgebraic_injOn_generated mg b hG m' m h1 hm h2]

/-! ### FEN -/

/-- **FEN round trip**: `toFen` (the canonical six fields: placement with digit runs, side, castling
    letters or `-`, en-passant square or `-`, the two counters in decimal) is parsed back to EXACTLY the
    same board — all eight bitboards, side to move, castling rights, en-passant square, both counters —
    for every board with consistent bitboards, en-passant square on the board, counters below the
    generated bounds. -/
theorem fen_roundtrip (b : Board) (hc : Spec.consistent b = true) (hep : ∀ s, b.ep = some s → s < 64)
    (hh : b.halfmove < Gen.FEN_HALFMOVE_BOUND) (hf : b.fullmove < Gen.FEN_FULLMOVE_BOUND) :
    fenToBoard (toFen b) = .ok b :=
  Flounder.Lemmas.FenRoundtrip.fenToBoard_toFen b hc hep hh hf

/-- consequently `toFen` is injective on that class of boards: the FEN determines the board. -/
theorem toFen_injective (b₁ b₂ : Board) (h : toFen b₁ = toFen b₂)
    (c1 : Spec.consistent b₁ = true) (e1 : ∀ s, b₁.ep = some s → s < 64)
    (h1 : b₁.halfmove < Gen.FEN_HALFMOVE_BOUND) (f1 : b₁.fullmove < Gen.FEN_FULLMOVE_BOUND)
    (c2 : Spec.consistent b₂ = true) (e2 : ∀ s, b₂.ep = some s → s < 64)
    (h2 : b₂.halfmove < Gen.FEN_HALFMOVE_BOUND) (f2 : b₂.fullmove < Gen.FEN_FULLMOVE_BOUND) : b₁ = b₂ := by
  have r1 := fen_roundtrip b₁ c1 e1 h1 f1
  rw [h, fen_roundtrip b₂ c2 e2 h2 f2] at r1
  exact (FenResult.ok.inj r1).symm

/-- the canonical FEN of the start position is the familiar one, and parses back. -/
example : toFen Board.startpos =
    [ ['r','n','b','q','k','b','n','r','/','p','p','p','p','p','p','p','p','/','8','/','8','/','8','/','8','/',
       'P','P','P','P','P','P','P','P','/','R','N','B','Q','K','B','N','R'],
      ['w'], ['K','Q','k','q'], ['-'], ['0'], ['1'] ] := by decide +kernel
example : fenToBoard (toFen Board.startpos) = .ok Board.startpos := by decide +kernel

/-! ### large move counters -/

/-- **every counter below 65536 is accepted** (the pre-fix parser aborted on a fullmove number ≥ 256). -/
theorem large_counters_ok (n : Nat) (h : n < 65536) :
    parseDec (decChars n) Gen.FEN_HALFMOVE_BOUND = some n ∧ parseDec (decChars n) Gen.FEN_FULLMOVE_BOUND = some n :=
  ⟨parseDec_decChars n _ h, parseDec_decChars n _ h⟩

/-- `parseDec` refuses only empty text (after one optional `+`), text with a non-digit, or a value at or
    above the bound. -/
theorem parseDec_none_iff (s : List Char) (bound : Nat) :
    parseDec s bound = none ↔
      body s = [] ∨ (body s).all Char.isDigit = false ∨ bound ≤ (body s).foldl step 0 :=
  parseDec_eq_none_iff s bound

example : parseDec ['3','0','0'] Gen.FEN_FULLMOVE_BOUND = some 300 := by decide
example : parseDec ['5','9','4','9'] Gen.FEN_FULLMOVE_BOUND = some 5949 := by decide
example : parseDec ['6','5','5','3','5'] Gen.FEN_FULLMOVE_BOUND = some 65535 := by decide
example : parseDec ['6','5','5','3','6'] Gen.FEN_FULLMOVE_BOUND = none := by decide
example : parseDec ['+','7'] Gen.FEN_HALFMOVE_BOUND = some 7 := by decide
example : parseDec ['1','2','a'] Gen.FEN_HALFMOVE_BOUND = none := by decide
example : parseDec [] Gen.FEN_HALFMOVE_BOUND = none := by decide
example : decChars 300 = ['3','0','0'] ∧ decChars 5949 = ['5','9','4','9'] ∧ decChars 0 = ['0'] := by decide +kernel

/-- a full FEN with fullmove number 300 and halfmove clock 99 parses (no abort). -/
example : fenToBoard
    [ ['r','n','b','q','k','b','n','r','/','p','p','p','p','p','p','p','p','/','8','/','8','/','8','/','8','/',
       'P','P','P','P','P','P','P','P','/','R','N','B','Q','K','B','N','R'],
      ['w'], ['K','Q','k','q'], ['-'], ['9','9'], ['3','0','0'] ]
    = .ok { Board.startpos with halfmove := 99, fullmove := 300 } := by decide +kernel

/-! ### the `position` command -/

/-- play a list of moves (`none` where `make_move` would panic). -/
def playMoves : List Move → Board → Option Board
  | [], b => some b
  | m :: ms, b => match b.makeMove m with
    | none => none
    | some b' => playMoves ms b'

/-- `replay` finds each move by its text in the move list generated for the board reached so far, and the
    final board is the fold of `makeMove` over those moves. -/
theorem replay_spec (mg : MoveGenerator) (ts : List Tok) (b fin : Board) (past : List Board)
    (h : replay mg ts b = some (past, fin)) :
    ∃ ms, resolvedMoves mg ts b = some ms ∧ playMoves ms b = some fin ∧ ms.map Move.toAlgebraic = ts ∧
      past.length = ts.length := by
  induction ts generalizing b past with
  | nil =>
    simp only [replay, Option.some.injEq, Prod.mk.injEq] at h
    obtain ⟨rfl, rfl⟩ := h
    exact ⟨[], rfl, rfl, rfl, rfl⟩
  | cons t ts ih =>
    simp only [replay] at h
    cases hr : resolve mg b t with
    | none => rw [hr] at h; cases h
    | some m =>
      rw [hr] at h; simp only at h
      cases hm : b.makeMove m with
      | none => rw [hm] at h; cases h
      | some b' =>
        rw [hm] at h; simp only at h
        cases hrec : replay mg ts b' with
        | none => rw [hrec] at h; cases h
        | some r =>
          obtain ⟨past', fin'⟩ := r
          rw [hrec] at h
          simp only [Option.some.injEq, Prod.mk.injEq] at h
          obtain ⟨rfl, rfl⟩ := h
          obtain ⟨ms, h1, h2, h3, h4⟩ := ih b' past' hrec
          refine ⟨m :: ms, ?_, ?_, ?_, ?_⟩
          · simp [resolvedMoves, hr, hm, h1]
          · simp [playMoves, hm, h2]
          · simp [h3, (resolve_sound mg b t m hr).2]
          · simp [h4]

/-- `position startpos`: the board is the start position (whatever it was before). -/
theorem position_startpos (ctx : EngineCtx) (e : Engine) :
    handlePosition ctx e [kwPosition, kwStartpos] =
      ([], { e with board := Board.startpos, search := { e.search with rep := [] } }, .running) := by
  rw [handlePosition_of_base ctx e _ [] Board.startpos (by simp [positionBase])]
  have : movesAfter [kwPosition, kwStartpos] = none := by decide
  simp only [positionResult, this]

theorem movesAfter_startpos_moves (ts : List Tok) :
    movesAfter (kwPosition :: kwStartpos :: kwMoves :: ts) = some ts := by
  have h1 : kwPosition ≠ kwMoves := by decide
  have h2 : kwStartpos ≠ kwMoves := by decide
  simp [movesAfter, List.dropWhile, h1, h2]

/-- **`position startpos moves m₁ … mₙ`**: if every token resolves, the new board is the fold of `makeMove`
    from the start position over the moves found by text in the successively generated move lists — a
    function of the command alone; the previous board, tables and stack play no role.  If some token does
    not resolve the engine panics (`unwrap()`), leaving nothing changed. -/
theorem position_startpos_moves (ctx : EngineCtx) (e : Engine) (ts : List Tok) :
    (∀ past fin, replay ctx.mg ts Board.startpos = some (past, fin) →
      (handlePosition ctx e (kwPosition :: kwStartpos :: kwMoves :: ts)).2.2 = .running ∧
      (handlePosition ctx e (kwPosition :: kwStartpos :: kwMoves :: ts)).2.1.board = fin ∧
      ∃ ms, resolvedMoves ctx.mg ts Board.startpos = some ms ∧ playMoves ms Board.startpos = some fin ∧
        ms.map Move.toAlgebraic = ts) ∧
    (replay ctx.mg ts Board.startpos = none →
      handlePosition ctx e (kwPosition :: kwStartpos :: kwMoves :: ts) = ([], e, .panicked)) := by
  have hb : positionBase (kwPosition :: kwStartpos :: kwMoves :: ts) = some ([], Board.startpos) := by
    simp [positionBase]
  rw [handlePosition_of_base ctx e _ [] Board.startpos hb]
  simp only [positionResult, movesAfter_startpos_moves]
  constructor
  · intro past fin hr
    obtain ⟨ms, h1, h2, h3, _⟩ := replay_spec ctx.mg ts Board.startpos fin past hr
    simp only [hr]
    exact ⟨trivial, trivial, ms, h1, h2, h3⟩
  · intro hr; simp only [hr]

/-- **`position fen <six fields>`** with a FEN that parses to `b`: the board is `b`. -/
theorem position_fen (ctx : EngineCtx) (e : Engine) (f1 f2 f3 f4 f5 f6 : List Char) (b : Board)
    (h : fenToBoard [f1, f2, f3, f4, f5, f6] = .ok b) :
    handlePosition ctx e [kwPosition, kwFen, f1, f2, f3, f4, f5, f6] =
      ([], { e with board := b, search := { e.search with rep := [] } }, .running) := by
  have hb : positionBase [kwPosition, kwFen, f1, f2, f3, f4, f5, f6] = some ([], b) := by
    have hk : kwFen ≠ kwStartpos := by decide
    simp [positionBase, hk, h]
  rw [handlePosition_of_base ctx e _ [] b hb]
  simp only [positionResult, movesAfter_fen_nomoves f1 f2 f3 f4 f5 f6 b h]

/-- **`position fen <six fields> moves m₁ … mₙ`**: the moves are replayed from the parsed board. -/
theorem position_fen_moves (ctx : EngineCtx) (e : Engine) (f1 f2 f3 f4 f5 f6 : List Char) (b : Board) (ts : List Tok)
    (h : fenToBoard [f1, f2, f3, f4, f5, f6] = .ok b) (past : List Board) (fin : Board)
    (hr : replay ctx.mg ts b = some (past, fin)) :
    (handlePosition ctx e (kwPosition :: kwFen :: f1 :: f2 :: f3 :: f4 :: f5 :: f6 :: kwMoves :: ts)).2.2 = .running ∧
    (handlePosition ctx e (kwPosition :: kwFen :: f1 :: f2 :: f3 :: f4 :: f5 :: f6 :: kwMoves :: ts)).2.1.board = fin ∧
    ∃ ms, resolvedMoves ctx.mg ts b = some ms ∧ playMoves ms b = some fin ∧ ms.map Move.toAlgebraic = ts := by
  have hb : positionBase (kwPosition :: kwFen :: f1 :: f2 :: f3 :: f4 :: f5 :: f6 :: kwMoves :: ts) = some ([], b) := by
    have hk : kwFen ≠ kwStartpos := by decide
    simp [positionBase, hk, h]
  rw [handlePosition_of_base ctx e _ [] b hb]
  simp only [positionResult, movesAfter_fen_moves f1 f2 f3 f4 f5 f6 b ts h, hr]
  obtain ⟨ms, h1, h2, h3, _⟩ := replay_spec ctx.mg ts b fin past hr
  exact ⟨trivial, trivial, ms, h1, h2, h3⟩

/-- **the position command reconstructs the position**: sending the canonical FEN of a (consistent) board
    makes that board the engine's board, exactly. -/
theorem position_fen_reconstructs (ctx : EngineCtx) (e : Engine) (b : Board)
    (hc : Spec.consistent b = true) (hep : ∀ s, b.ep = some s → s < 64)
    (hh : b.halfmove < Gen.FEN_HALFMOVE_BOUND) (hf : b.fullmove < Gen.FEN_FULLMOVE_BOUND) :
    (handlePosition ctx e (kwPosition :: kwFen :: toFen b)).2.1.board = b ∧
    (handlePosition ctx e (kwPosition :: kwFen :: toFen b)).2.2 = .running ∧
    (handlePosition ctx e (kwPosition :: kwFen :: toFen b)).1 = [] := by
  have := position_fen ctx e _ _ _ _ _ _ b (fen_roundtrip b hc hep hh hf)
  simp only [toFen] at this ⊢
  rw [this]
  exact ⟨rfl, rfl, rfl⟩

/-- **only the most recent `position` command counts**: whenever the command has a base board (startpos,
    a FEN that parses, or the default board after a FEN error) and does not panic, the resulting board and
    printed lines are the same from every two engine states — in particular from the states before and
    after any earlier `position` command. -/
theorem only_most_recent_position_counts (ctx : EngineCtx) (e₁ e₂ : Engine) (parts : List Tok)
    (out : List (List Char)) (base : Board) (hb : positionBase parts = some (out, base))
    (hrun : (handlePosition ctx e₁ parts).2.2 = .running) :
    (handlePosition ctx e₂ parts).2.2 = .running ∧
    (handlePosition ctx e₁ parts).2.1.board = (handlePosition ctx e₂ parts).2.1.board ∧
    (handlePosition ctx e₁ parts).1 = (handlePosition ctx e₂ parts).1 := by
  rw [handlePosition_of_base ctx e₁ parts out base hb] at hrun ⊢
  rw [handlePosition_of_base ctx e₂ parts out base hb]
  unfold positionResult at hrun ⊢
  cases hm : movesAfter parts with
  | none => simp
  | some ts =>
    simp only [hm] at hrun ⊢
    cases hr : replay ctx.mg ts base with
    | none => rw [hr] at hrun; cases hrun
    | some r => simp

/-- two `position` commands in a row: the board after the second is the board the second alone produces. -/
theorem second_position_overrides (ctx : EngineCtx) (e : Engine) (parts₁ parts₂ : List Tok)
    (out : List (List Char)) (base : Board) (hb : positionBase parts₂ = some (out, base))
    (hrun : (handlePosition ctx e parts₂).2.2 = .running) :
    (handlePosition ctx (handlePosition ctx e parts₁).2.1 parts₂).2.1.board = (handlePosition ctx e parts₂).2.1.board := by
  exact ((only_most_recent_position_counts ctx e (handlePosition ctx e parts₁).2.1 parts₂ out base hb hrun).2.1).symm

end Flounder.Props.C04
