/-
  C11 — Position hash depends on the position and nothing else.
-/
import Flounder.Spec.Position

namespace Flounder.Props.C11
open Flounder Flounder.Spec

/-- **The hash is a function of the position**: boards that are the same position (placement, side,
    rights, ep square) hash equal under every key table, whatever the move counters are and however
    the position was reached. -/
theorem hash_position_only (k : ZKeys) (a b : Board) (h : samePosition a b) : hash k a = hash k b := by
  obtain ⟨h1, h2, h3, h4, h5, h6, h7, h8, h9, h10, h11⟩ := h
  cases a; cases b
  simp only at h1 h2 h3 h4 h5 h6 h7 h8 h9 h10 h11
  subst h1 h2 h3 h4 h5 h6 h7 h8 h9 h10 h11
  rfl

/-- counters are never read. -/
theorem hash_ignores_counters (k : ZKeys) (b : Board) (h f : Nat) :
    hash k { b with halfmove := h, fullmove := f } = hash k b := rfl

/-- everything `hash` folds in before the side-to-move step. -/
def hashCore (k : ZKeys) (b : Board) : UInt64 :=
  let h := hashCastle k b (hashPieces k b 0)
  match b.ep with
  | some s => h ^^^ k.ep s
  | none => h

theorem hash_eq_core (k : ZKeys) (b : Board) :
    hash k b = if b.active = Color.white then hashCore k b ^^^ k.whiteToMove else hashCore k b := rfl

theorem hashCore_flipSide (k : ZKeys) (b : Board) : hashCore k (flipSide b) = hashCore k b := rfl

/-- **Side to move**: flipping only the side toggles exactly the white-to-move key. -/
theorem hash_flip_side (k : ZKeys) (b : Board) :
    hash k (flipSide b) = hash k b ^^^ k.whiteToMove := by
  rw [hash_eq_core, hash_eq_core, hashCore_flipSide]
  cases hb : b.active <;> simp [flipSide, hb, Color.other, UInt64.xor_assoc]

theorem xor_ne_self (h w : UInt64) (hw : w ≠ 0) : h ^^^ w ≠ h := by
  intro heq
  apply hw
  have : h ^^^ (h ^^^ w) = h ^^^ h := by rw [heq]
  rw [← UInt64.xor_assoc, UInt64.xor_self, UInt64.zero_xor] at this
  exact this

/-- hence the hash changes with the side to move as soon as that key is non-zero. -/
theorem hash_side_changes (k : ZKeys) (b : Board) (hk : k.whiteToMove ≠ 0) :
    hash k (flipSide b) ≠ hash k b := by
  rw [hash_flip_side]
  exact xor_ne_self _ _ hk

/-- **No 64-bit hash is injective**: the literal "same hash exactly when same position, for every key
    draw" fails for degenerate draws (all keys zero), which is why the sensitivity theorems carry the
    hypothesis that the relevant keys are non-zero / distinct (`KeysGood`, checked on every real draw
    by the correspondence run). -/
theorem hash_not_injective : ∃ (k : ZKeys) (a b : Board), ¬ samePosition a b ∧ hash k a = hash k b := by
  refine ⟨⟨fun _ _ _ => 0, 0, fun _ _ => 0, fun _ => 0⟩, Board.empty, flipSide Board.empty, ?_, ?_⟩
  · decide
  · rw [hash_flip_side]; simp

end Flounder.Props.C11
