/-
  End-to-end statements about the CHESS engine model: the abstract search theorems (C03, C05, C08) instantiated
  at `chessGame MoveGenerator.new k` and read through the rules of chess (`Spec.legal`, `Spec.play`,
  `Spec.inCheck`), using C01 (move generation is exact), C02 (make-move refines the rules), C17 (quiescence
  moves are generated moves) and C14 (the static score is bounded).

  `G k := chessGame MoveGenerator.new k` for ANY key table `k`.  The only hash hypothesis anywhere is
  `HashInjOn (G k) (Within (G k) b D)`: the 64-bit Zobrist key separates the boards within `D` plies of the root
  `b` (satisfiable: few boards, and `make_move` never touches the two counters the hash ignores).

  (a) C03 for chess
      `chess_bestmove_legal`       the move reported by `find_best_move` is legal under the rules of chess, and no
                                   move is reported exactly when there is none (mate or stalemate) — every depth,
                                   every limit, completed or interrupted;
      `chess_tt_moves_legal`       the table keeps holding only rules-legal moves for the boards within the horizon;
      `chess_handleGo_bestmove`    engine level: `go` prints its info lines and then exactly one `bestmove` line,
                                   carrying the text of a rules-legal move, or `0000` exactly when there is none.
  (b) C08 for chess  (root `Good`: valid and at most 16 men a side — `Chess.good_startpos`, invariant of the game;
      this is what discharges the abstract `EvalBound` through C14)
      `chess_mate_in_one_played`   fresh state, `1 ≤ D ≤ 64`, completed run, no child of the root has the root's
                                   key: if some legal move mates (opponent in check without a legal move), the
                                   answer is such a move;
      `chess_avoidable_mate_avoided`  depth 2 and 3: if some legal move allows no mate in one, the answer allows
                                   none (hash injective within `D` plies, reference values exist, completed, no
                                   deeper record reused).
  (c) C05 for chess
      `chess_find_best_move_value` a completed search returns the depth-`D` minimax value of the engine's game
                                   (up to the won/lost class, EQUAL when strictly inside the window) with a
                                   rules-legal, minimax-optimal move.
  (d) `chess_within_valid`, `chess_within_good` : every board within `n` plies of a valid / good board is valid /
      good — the theorems above quantify over exactly the boards the search can reach.

  Non-vacuity on concrete boards: Props/ChessSearchExample.lean (`rook_mate_in_one`, `mated_bestmove_none`,
  `check_bestmove`); `Chess.good_startpos : Good Board.startpos`; toy games for the abstract forms:
  Props/C08Ranked.lean, Props/SearchRanked.lean.
-/
import Flounder.Lemmas.ChessGame
import Flounder.Lemmas.KeySimEngine
import Flounder.Props.SearchRanked
import Flounder.Props.C08Ranked

namespace Flounder.Props.ChessSearch
open Flounder Gen Flounder.Search Flounder.Chess Flounder.Engine

/-! ## (a) C03 for chess: the reported move is legal under the rules -/

/-- **C03 for chess.**  Root `b` any valid board, any key table `k`, depth `D`, quiescence fuel, `limit` and
    search state `s` whose table holds only generated moves for the boards within `D` plies of `b` (true of the
    empty table: `C03.ttMoveOK_empty`).  If the hash separates the boards within `D` plies of `b`, then whatever
    `find_best_move` reports — completed, interrupted at any poll, zero budget, depth 0 — is a move that is legal
    under the rules of chess, and it reports no move exactly when the rules allow none (mate or stalemate). -/
theorem chess_bestmove_legal (k : ZKeys) (b : Board) (hv : Spec.valid b = true) (D qfuel : Nat) (limit : Limit)
    (s : SearchState) (hT : C03.TTMoveOK (cg k) (Search.Within (cg k) b D) s.tt)
    (hinj : HashInjOn (cg k) (Search.Within (cg k) b D))
    (score : Int) (mv : Option Move) (s' : SearchState)
    (hres : findBestMove (cg k) qfuel b D limit s = (some (score, mv), s')) :
    (∀ m, mv = some m → Spec.legal (Spec.abs b) m = true) ∧
    (mv = none ↔ ∀ m, Spec.legal (Spec.abs b) m = false) := by
  have h1 := SearchRanked.bestmove_legal_horizon (cg k) b D hinj qfuel limit s hT score mv s' hres
  have h2 := SearchRanked.bestmove_none_iff_horizon (cg k) b D hinj qfuel limit s hT score mv s' hres
  exact ⟨fun m hm => (mem_moves_iff k hv m).1 (h1.1 m hm), h2.trans (moves_nil_iff k hv)⟩

/-- no move is reported exactly at mate or stalemate (`Spec.isMate`, `Spec.isStalemate` of Spec/Chess.lean). -/
theorem chess_bestmove_none_iff_mate_or_stalemate (k : ZKeys) (b : Board) (hv : Spec.valid b = true)
    (D qfuel : Nat) (limit : Limit) (s : SearchState)
    (hT : C03.TTMoveOK (cg k) (Search.Within (cg k) b D) s.tt) (hinj : HashInjOn (cg k) (Search.Within (cg k) b D))
    (score : Int) (mv : Option Move) (s' : SearchState)
    (hres : findBestMove (cg k) qfuel b D limit s = (some (score, mv), s')) :
    mv = none ↔ (Spec.isMate (Spec.abs b) = true ∨ Spec.isStalemate (Spec.abs b) = true) := by
  rw [(chess_bestmove_legal k b hv D qfuel limit s hT hinj score mv s' hres).2]
  exact Spec.no_legal_iff_mate_or_stalemate _

/-- the table invariant of C03, for chess: it is preserved by every search (so it holds before every `go` of a
    session that started with the empty table, as long as the hash hypothesis holds for each search). -/
theorem chess_tt_moves_legal (k : ZKeys) (b : Board) (hv : Spec.valid b = true) (D qfuel : Nat) (limit : Limit)
    (s : SearchState) (hT : C03.TTMoveOK (cg k) (Search.Within (cg k) b D) s.tt)
    (hinj : HashInjOn (cg k) (Search.Within (cg k) b D)) :
    ∀ q, Search.Within (cg k) b D q → ∀ e, (findBestMove (cg k) qfuel b D limit s).2.tt.retrieve (hash k q) = some e →
      ∀ m, e.bestMove = some m → Spec.valid q = true ∧ Spec.legal (Spec.abs q) m = true := by
  intro q hq e he m hm
  have hvq := within_valid k hv hq
  have h := SearchRanked.tt_move_legal_invariant_horizon (cg k) b D hinj qfuel limit s hT q hq e he m hm
  exact ⟨hvq, (mem_moves_iff k hvq m).1 h⟩

/-! ### engine level -/

/-- the text of a move never starts with `0`: `bestmove 0000` cannot be mistaken for a move. -/
theorem toAlgebraic_ne_0000 (m : Move) : m.toAlgebraic ≠ ['0', '0', '0', '0'] := by
  intro h
  have h0 : (m.toAlgebraic).head? = some '0' := by rw [h]; rfl
  have h1 : (m.toAlgebraic).head? = some (Char.ofNat ('a'.toNat + m.src % 8)) := by
    simp [Move.toAlgebraic, squareToAlgebraic]
  rw [h1] at h0
  have hlt : m.src % 8 < 8 := Nat.mod_lt _ (by decide)
  have : ∀ i, i < 8 → Char.ofNat ('a'.toNat + i) ≠ '0' := by decide
  exact this _ hlt (Option.some.inj h0)

theorem bestmove0000_eq : str "bestmove 0000" = str "bestmove " ++ ['0', '0', '0', '0'] := by decide

/-- an `info` line does not start with `bestmove`. -/
theorem infoLine_not_bestmove (d : Nat) (sc : Int) (n : Nat) (pv : Option Move) :
    ¬ (str "bestmove").isPrefixOf (infoLine d sc n pv) = true := by
  have h : str "info depth " = 'i' :: str "nfo depth " := by decide
  have h2 : str "bestmove" = 'b' :: str "estmove" := by decide
  unfold infoLine
  rw [h, h2]
  simp [List.isPrefixOf]

/-- **C03 at the engine level.**  With the engine's generator tables, a valid current board, a table holding only
    generated moves for the boards within the search horizon and the hash separating those boards, a `go` command
    that answers (it does unless the MODEL runs out of quiescence fuel) prints its `info` lines — none of which
    starts with `bestmove` — followed by exactly one line `bestmove <text>`, where `<text>` is the text of a move
    that is legal under the rules of chess in the current position, or `0000`, the latter exactly when the
    position has no legal move.  The board is unchanged and the engine keeps running. -/
theorem chess_handleGo_bestmove (ctx : EngineCtx) (hmg : ctx.mg = MoveGenerator.new) (e : Engine)
    (parts : List Tok) (hv : Spec.valid e.board = true)
    (hT : C03.TTMoveOK (cg (ctx.keys e.newGames))
      (Search.Within (cg (ctx.keys e.newGames)) e.board (goParams e.board.active parts).depth) e.search.tt)
    (hinj : HashInjOn (cg (ctx.keys e.newGames))
      (Search.Within (cg (ctx.keys e.newGames)) e.board (goParams e.board.active parts).depth))
    (hfuel : (handleGo ctx e parts).2.2 ≠ .outOfFuel) :
    ∃ infos text, (handleGo ctx e parts).1 = infos ++ [str "bestmove " ++ text] ∧
      (∀ l ∈ infos, ¬ (str "bestmove").isPrefixOf l = true) ∧
      ((∃ m, Spec.legal (Spec.abs e.board) m = true ∧ text = m.toAlgebraic) ∨
        (text = ['0', '0', '0', '0'] ∧ ∀ m, Spec.legal (Spec.abs e.board) m = false)) ∧
      (text = ['0', '0', '0', '0'] ↔ ∀ m, Spec.legal (Spec.abs e.board) m = false) ∧
      (handleGo ctx e parts).2.1.board = e.board ∧ (handleGo ctx e parts).2.2 = .running := by
  rw [KeySim.handleGo_eq, hmg] at hfuel ⊢
  rcases hres : findBestMove (chessGame MoveGenerator.new (ctx.keys e.newGames)) ctx.qfuel e.board
      (goParams e.board.active parts).depth (KeySim.goLimit e parts) e.search with ⟨ro, s'⟩
  rw [hres] at hfuel
  cases ro with
  | none => exact absurd rfl hfuel
  | some r =>
    obtain ⟨score, mv⟩ := r
    obtain ⟨hleg, hnone⟩ := chess_bestmove_legal (ctx.keys e.newGames) e.board hv _ ctx.qfuel
      (KeySim.goLimit e parts) e.search hT hinj score mv s' hres
    have hinfo : ∀ l ∈ s'.info.reverse.map (fun (x : Nat × Int × Nat × Option Move) =>
        infoLine x.1 x.2.1 x.2.2.1 x.2.2.2), ¬ (str "bestmove").isPrefixOf l = true := by
      intro l hl
      obtain ⟨x, _, rfl⟩ := List.mem_map.1 hl
      exact infoLine_not_bestmove _ _ _ _
    cases mv with
    | some m =>
      have hl := hleg m rfl
      have hne : ¬ ∀ m', Spec.legal (Spec.abs e.board) m' = false := fun h => by rw [h m] at hl; cases hl
      refine ⟨_, m.toAlgebraic, rfl, hinfo, Or.inl ⟨m, hl, rfl⟩, ?_, rfl, rfl⟩
      exact ⟨fun h => absurd h (toAlgebraic_ne_0000 m), fun h => absurd h hne⟩
    | none =>
      have hno := hnone.1 rfl
      refine ⟨_, ['0', '0', '0', '0'], ?_, hinfo, Or.inr ⟨rfl, hno⟩, ⟨fun _ => hno, fun _ => rfl⟩, rfl, rfl⟩
      show _ ++ [str "bestmove 0000"] = _
      rw [bestmove0000_eq]

/-! ## (d) the boards the search can reach -/

/-- every board within `n` plies (of generated = rules-legal moves) of a valid board is valid. -/
theorem chess_within_valid (k : ZKeys) (b : Board) (hv : Spec.valid b = true) (n : Nat) (q : Board)
    (h : Search.Within (cg k) b n q) : Spec.valid q = true := within_valid k hv h

/-- every board within `n` plies of a good board (valid, at most 16 men a side) is good; in particular its static
    score is strictly inside the search window. -/
theorem chess_within_good (k : ZKeys) (b : Board) (hg : Good b) (n : Nat) (q : Board)
    (h : Search.Within (cg k) b n q) : Good q ∧ -INFINITY < evalFn q ∧ evalFn q < INFINITY :=
  ⟨within_good k hg h, good_eval_bound (within_good k hg h)⟩

/-- the start position is good (so everything reachable from it is). -/
example : Good Board.startpos := good_startpos

/-! ## (b) C08 for chess -/

/-- **Mate in one is played (chess).**  Root `b` good, any key table, fresh search state, depth `1 ≤ D ≤ 64`
    (the cap of `go depth`), any limit, the run completed (`stopSeen = false` at the end), and no successor of
    the root by a legal move has the root's hash key.  If some move that is legal under the rules of chess
    mates — afterwards the opponent is in check and has no legal move — then the engine answers with a legal
    move that mates. -/
theorem chess_mate_in_one_played (k : ZKeys) (b : Board) (hg : Good b) (D qfuel : Nat) (limit : Limit)
    (hD1 : 1 ≤ D) (hD64 : D ≤ 64)
    (hnc : ∀ m b', Spec.legal (Spec.abs b) m = true → b.makeMove m = some b' → hash k b' ≠ hash k b)
    (hmate : ∃ m, Spec.legal (Spec.abs b) m = true ∧ MatesByRules (Spec.abs b) m)
    (score : Int) (mv : Option Move) (s' : SearchState)
    (hrun : findBestMove (cg k) qfuel b D limit {} = (some (score, mv), s')) (hfin : s'.stopSeen = false) :
    ∃ m, mv = some m ∧ Spec.legal (Spec.abs b) m = true ∧ MatesByRules (Spec.abs b) m := by
  have hv := hg.valid
  obtain ⟨m0, hl0, hm0⟩ := hmate
  have hmem0 := (mem_moves_iff k hv m0).2 hl0
  obtain ⟨m, e, hmem, hmt⟩ := C08.mate_in_one_played_of_invariant (cg k) Good (good_play_moves k)
    (good_play_qmoves k) (fun p hp => good_eval_bound hp) hg
    (fun m hmem => hnc m _ ((mem_moves_iff k hv m).1 hmem) (play_spec k hv hmem).1)
    hD1 (C08.depth_bound_of_le_64 D hD64) ⟨m0, hmem0, (mates_iff k hv hmem0).2 hm0⟩ hrun hfin
  exact ⟨m, e, (mem_moves_iff k hv m).1 hmem, (mates_iff k hv hmem).1 hmt⟩

/-- **An avoidable mate in one is avoided (chess)**, depth 2 and 3.  Root `b` good, the hash separates the boards
    within `D` plies of `b`, the reference values of depths `1..D` exist with quiescence fuel `qf ≤ qfuel` (always
    true for `qf = QFUEL`: `QSpecChess.chess_avoidable_mate_avoided_total`), fresh state, completed run, no deeper record reused.  If
    some legal move does not allow a mate in one, the engine answers with a legal move that does not allow one. -/
theorem chess_avoidable_mate_avoided (k : ZKeys) (b : Board) (hg : Good b) (D qf qfuel : Nat) (limit : Limit)
    (hD : D = 2 ∨ D = 3) (hq : qf ≤ qfuel)
    (hinj : HashInjOn (cg k) (Search.Within (cg k) b D))
    (hV : ∀ d, 1 ≤ d → d ≤ D → ∃ w, Spec.V (cg k) qf d b = some w)
    (hsafe : ∃ m, Spec.legal (Spec.abs b) m = true ∧ ¬ AllowsMateByRules (Spec.abs b) m)
    (score : Int) (mv : Option Move) (s' : SearchState)
    (hrun : findBestMove (cg k) qfuel b D limit {} = (some (score, mv), s')) (hfin : s'.stopSeen = false)
    (hdh : s'.deeperHits = 0) :
    ∃ m, mv = some m ∧ Spec.legal (Spec.abs b) m = true ∧ ¬ AllowsMateByRules (Spec.abs b) m := by
  have hv := hg.valid
  obtain ⟨m0, hl0, hm0⟩ := hsafe
  have hmem0 := (mem_moves_iff k hv m0).2 hl0
  obtain ⟨m, e, hmem, hns⟩ := C08.avoidable_mate_avoided_move_of_invariant (cg k) Good (good_play_moves k)
    (good_play_qmoves k) (fun p hp => good_eval_bound hp) hg hinj hq hD hV
    ⟨m0, hmem0, fun h => hm0 ((allowsMate_iff k hv hmem0).1 h)⟩ hrun hfin hdh
  exact ⟨m, e, (mem_moves_iff k hv m).1 hmem, fun h => hns ((allowsMate_iff k hv hmem).2 h)⟩

/-! ## (c) C05 for chess -/

/-- **The search computes minimax (chess).**  Root `b` valid, depth `D ≥ 1`, any limit; the hash separates the
    boards within `D` plies of `b`; the reference values `Spec.V` (plain minimax over the engine's game, whose
    moves at valid boards are exactly the rules-legal moves) of depths `1..D` exist with fuel `qf ≤ qfuel` (always
    true on a good board for `qf = QFUEL`: `QSpecChess.chess_find_best_move_value_total`); the
    table is class-sound on the horizon (true of the empty table: `C05.ttSound_fresh`), the repetition stack is
    empty, the run completed and reused no deeper record.  Then the reported score is the depth-`D` minimax value
    `v` up to the won / lost class — EQUAL to `v` when `v` lies strictly inside (-32767, 32767) —, a legal move
    is reported whenever one exists, it is minimax-optimal when `v` is inside the window, and the table is still
    sound. -/
theorem chess_find_best_move_value (k : ZKeys) (b : Board) (hv : Spec.valid b = true) (D qf qfuel : Nat)
    (hq : qf ≤ qfuel) (hD : 1 ≤ D) (limit : Limit) (s s' : SearchState) (ro : Option (Int × Option Move)) (v : Int)
    (hinj : HashInjOn (cg k) (Search.Within (cg k) b D))
    (hV : ∀ d, 1 ≤ d → d ≤ D → ∃ w, Spec.V (cg k) qf d b = some w) (hvD : Spec.V (cg k) qf D b = some v)
    (hT : C05.TTSoundClass (cg k) (Search.Within (cg k) b D) qf s.tt) (hrep : s.rep = [])
    (hrun : findBestMove (cg k) qfuel b D limit s = (ro, s')) (hfin : s'.stopSeen = false)
    (hdh : s'.deeperHits = s.deeperHits) :
    ∃ score mv, ro = some (score, mv) ∧
      Spec.clampClass score = Spec.clampClass v ∧
      (NEGATIVE_INFINITY < v → v < INFINITY → score = v) ∧
      ((∃ m, Spec.legal (Spec.abs b) m = true) → ∃ m, mv = some m ∧ Spec.legal (Spec.abs b) m = true) ∧
      (NEGATIVE_INFINITY < v → v < INFINITY → ∀ j m x, D = j + 1 → mv = some m →
        Spec.V (cg k) qf j ((cg k).play b m) = some x → -x = v) ∧
      C05.TTSoundClass (cg k) (Search.Within (cg k) b D) qf s'.tt := by
  obtain ⟨score, mv, h1, h2, h3, h4, h5, h6⟩ := SearchRanked.find_best_move_value_horizon (cg k) b D hinj qfuel qf
    hq hD limit s s' ro v hV hvD hT hrep hrun hfin hdh
  have hne : (∃ m, Spec.legal (Spec.abs b) m = true) → (cg k).moves b ≠ [] := by
    rintro ⟨m, hm⟩ hnil
    have := (mem_moves_iff k hv m).2 hm
    rw [hnil] at this
    cases this
  refine ⟨score, mv, h1, h2, h3, ?_, h5, h6⟩
  · intro h
    obtain ⟨m, hm, hmem⟩ := h4 (hne h)
    exact ⟨m, hm, (mem_moves_iff k hv m).1 hmem⟩

end Flounder.Props.ChessSearch
