/-
  C14 — symmetry of the static evaluation: swapping the side to move negates the score (`eval_antisym`);
  the colour-mirrored position has the same score (`eval_mirror`, via Lemmas/EvalMirror.lean).
-/
import Flounder.Lemmas.EvalSum
import Flounder.Lemmas.EvalMirror
import Flounder.Spec.Position

namespace Flounder.Props.C14
open Flounder Gen

/-- the two flip literals of eval.rs are the same number (re-opens if either literal is edited). -/
theorem flip_player_eq_opp : FLIP_PLAYER = FLIP_OPP := by decide

/-- negating both score accumulators negates the tapered score (`/` on i32 is odd). -/
theorem taper_neg (g o e : Int) :
    taper { gamephase := g, opening := -o, endgame := -e } =
      - taper { gamephase := g, opening := o, endgame := e } := by
  simp only [taper, Int.neg_mul, ← Int.neg_add, Int.neg_tdiv]

theorem dOpening_flipSide (b : Board) (c : Color) (p : Piece) :
    dOpening (Spec.flipSide b) c.other p = - dOpening b c p := by
  simp only [dOpening, Color.other_other, flip_player_eq_opp]
  show sideVal OPENING_TABLES b c.other FLIP_OPP p - sideVal OPENING_TABLES b c FLIP_OPP p = _
  omega

theorem dEndgame_flipSide (b : Board) (c : Color) (p : Piece) :
    dEndgame (Spec.flipSide b) c.other p = - dEndgame b c p := by
  simp only [dEndgame, Color.other_other, flip_player_eq_opp]
  show sideVal ENDGAME_TABLES b c.other FLIP_OPP p - sideVal ENDGAME_TABLES b c FLIP_OPP p = _
  omega

theorem dPhase_flipSide (b : Board) (c : Color) (p : Piece) :
    dPhase (Spec.flipSide b) c.other p = dPhase b c p := by
  simp only [dPhase, Color.other_other]
  show sideCnt b c.other p + sideCnt b c p = _
  omega

/-- the accumulators of the side-flipped board: same phase, both scores negated. -/
theorem accumulate_flipSide (b : Board) :
    accumulate (Spec.flipSide b) =
      { gamephase := (accumulate b).gamephase, opening := -(accumulate b).opening,
        endgame := -(accumulate b).endgame } := by
  rw [accumulate_eq, accumulate_eq b]
  show ({ gamephase := (Piece.all.map (dPhase (Spec.flipSide b) b.active.other)).sum,
          opening := (Piece.all.map (dOpening (Spec.flipSide b) b.active.other)).sum,
          endgame := (Piece.all.map (dEndgame (Spec.flipSide b) b.active.other)).sum } : Evaluator) = _
  simp only [Piece.all, List.map_cons, List.map_nil, List.sum_cons, List.sum_nil, dOpening_flipSide,
    dEndgame_flipSide, dPhase_flipSide]
  congr 1 <;> omega

/-- **Antisymmetry**: swapping only the side to move negates the static score. -/
theorem eval_antisym (b : Board) : evalFn (Spec.flipSide b) = - evalFn b := by
  unfold evalFn
  rw [accumulate_flipSide, taper_neg]

/-- no side condition is needed on the bitboards: a `UInt64` only has squares `< 64`. -/
abbrev BitsOK (_b : Board) : Prop := True

/-- **Mirror invariance** (no hypothesis): reversing the ranks, exchanging the colours and the side to move
    leaves the static score unchanged. -/
theorem eval_mirror' (b : Board) : evalFn (Spec.mirror b) = evalFn b := by
  unfold evalFn; rw [accumulate_mirror]

/-- the same in the requested shape (`BitsOK` is `True`). -/
theorem eval_mirror (b : Board) (_h : BitsOK b) : evalFn (Spec.mirror b) = evalFn b := eval_mirror' b

/-- mirroring twice restores the placement and side to move, so `eval_mirror` is not about a degenerate map. -/
theorem mirror_mirror_placement (b : Board) :
    Spec.samePosition (Spec.mirror (Spec.mirror b)) { b with ep := b.ep.map (fun s => (s ^^^ 56) ^^^ 56) } := by
  simp only [Spec.samePosition, Spec.mirror, mirrorBB_mirrorBB, Color.other_other, Option.map_map]
  simp [Function.comp_def]

/-- a small asymmetric position (white: Ke1, Qd1, Pa2; black: Ke8, Nb8; white to move) used as a sanity check
    that the symmetry theorems are not about a constant function. -/
def sampleBoard : Board :=
  ((((Board.empty.addPiece .white .king 4).addPiece .white .queen 3).addPiece .white .pawn 8).addPiece
    .black .king 60).addPiece .black .knight 57

example : evalFn sampleBoard = 769 := by decide +kernel
example : evalFn (Spec.flipSide sampleBoard) = -769 := by decide +kernel
example : evalFn (Spec.mirror sampleBoard) = 769 := by decide +kernel
example : Spec.mirror sampleBoard ≠ sampleBoard := by decide +kernel

end Flounder.Props.C14
