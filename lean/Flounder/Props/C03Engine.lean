/-
  C03 at the level of the whole engine:

      every `go` of ANY command script is answered by exactly one legal `bestmove`
      — whatever depth limit, move time or clock values it carries and whatever the process searched before.

  `Props/ChessSearch.lean` (`chess_handleGo_bestmove`) proves this for ONE `go` from a state whose table satisfies
  `C03.TTMoveOK` on the horizon of that search.  Here the invariant is carried through a whole session
  (Lemmas/EngineInv.lean: `EngOK`, `handleCommand_engOK`) and the transcript of `uciLoop ctx script {}` is related
  to the list of boards on which the executed `go` commands were asked.

  Vocabulary
    * `goTrace ctx script e`   the boards (current board = position last set) at the `go` commands of the run that
                               were executed and returned, in order.  A run ends early at `quit`, at a `position`
                               command that panics (an unresolvable move token, a FEN the parser aborts on), or when
                               the MODEL runs out of quiescence fuel inside a `go` (that `go` prints nothing).
                               `goTrace_prefix`/`goTrace_complete`: it is a prefix of — and for a run that reaches the
                               end of input equal to — the key-independent list `goBoards mg script b` obtained by
                               following `KeySim.cmdNext` (the board prescribed by the `position`/`ucinewgame` lines).
    * `AnswerFor b l`          line `l` is `bestmove <text of a move that is legal in b under the rules of chess>`, or
                               `bestmove 0000` with `b` having no legal move.  `AnswerFor.zero_iff`,
                               `AnswerFor.zero_iff_mate_or_stalemate`: `0000` EXACTLY when there is none (mate/stalemate).
    * `Answered bs out`        `out` = (lines not starting with `bestmove`) ++ answer for `bs[0]` :: (lines not starting
                               with `bestmove`) ++ answer for `bs[1]` :: … ++ (lines not starting with `bestmove`):
                               one-to-one, order-preserving, and no other line starts with `bestmove`.
                               `Answered.bestmove_lines`: the sub-list of lines starting with `bestmove` has the length
                               of `bs` and its k-th element answers `bs[k]`.

  Hypotheses of THE THEOREM `every_go_answered_legally` (all stated, none hidden)
    * `ctx.mg = MoveGenerator.new`                     the generator tables of the source (C10);
    * `U ⊇ KeySim.visited ctx.mg script Board.startpos` the same key-independent set of hashed boards as in C13;
    * `KeysFaithful ctx.keys U`                        for each key draw, two boards of `U` with the same key have the
                                                       same generated moves.  Implied by injectivity of every draw on `U`
                                                       (`every_go_answered_legally_of_injective`), and by "equal keys
                                                       only for boards that differ in the move counters alone" when the
                                                       boards of `U` are valid (`…_of_injective_upto_counters`) — the
                                                       latter matters because NO key table separates two boards that
                                                       differ only in the counters (`C13.no_injective_keys`);
    * `PositionsValid script`                          every `position` line of the script whose base board exists has a
                                                       `Spec.valid` base board.  Automatic for `position startpos …` and
                                                       for a FEN that fails to parse (fallback to the start position);
                                                       it is a hypothesis only on FENs that parse
                                                       (`positionsValid_of_no_fen`, `baseValid_of_canonical_fen`).
  Not needed: that the model has enough quiescence fuel, that move tokens resolve, that no `quit` occurs — the
  conclusion speaks about the prefix of the script that was executed.

  The form without an auxiliary set: `every_go_answered_legally_visited` (`U` := the visited boards themselves, all
  valid by `visited_valid`; key hypothesis: equal keys only for boards that agree up to the move counters).
  The invariant also holds in the state the run stops in: `engOK_after_run`.

  Non-vacuity (Props/C03EngineExample.lean): `example_script_answered` + `example_script_two_bestmoves`,
  `example_script2_answered` (the scripts and key tables of Lemmas/KeySimExample.lean; the second one hashes two
  boards that no key table separates and holds for EVERY key stream), `example_script3_answered` +
  `example_script3_lines` (three real depth-1 searches of one position in one process, the last with a zero budget).
-/
import Flounder.Lemmas.EngineInv
import Flounder.Lemmas.KeySimExample

namespace Flounder.Props.C03Engine
open Flounder Gen Flounder.Search Flounder.Chess Flounder.Engine Flounder.KeySim Flounder.EngineInv
open Flounder.Lemmas.Uci Flounder.Lemmas.UciPosition Flounder.Lemmas.FenPrint

/-! ## the trace of a run -/

/-- the current board at each `go` command that was executed and returned, in order. -/
def goTrace (ctx : EngineCtx) : List (List Char) → Engine → List Board
  | [], _ => []
  | line :: rest, e =>
    match (handleCommand ctx e (splitWs line)).2.2 with
    | .running =>
      (if isGo (splitWs line) = true then [e.board] else []) ++
        goTrace ctx rest (handleCommand ctx e (splitWs line)).2.1
    | _ => []

theorem goTrace_cons_running (ctx : EngineCtx) (e e' : Engine) (line : List Char) (rest : List (List Char))
    (out : List (List Char)) (h : handleCommand ctx e (splitWs line) = (out, e', .running)) :
    goTrace ctx (line :: rest) e =
      (if isGo (splitWs line) = true then [e.board] else []) ++ goTrace ctx rest e' := by
  simp only [goTrace, h]

theorem goTrace_cons_stop (ctx : EngineCtx) (e e' : Engine) (line : List Char) (rest : List (List Char))
    (out : List (List Char)) (oc : Outcome) (h : handleCommand ctx e (splitWs line) = (out, e', oc))
    (hoc : oc ≠ .running) : goTrace ctx (line :: rest) e = [] := by
  cases oc with
  | running => exact absurd rfl hoc
  | exited n => simp only [goTrace, h]
  | panicked => simp only [goTrace, h]
  | outOfFuel => simp only [goTrace, h]

/-- the boards at the `go` lines of a script that is executed to the end, from current board `b`: a function of
    the script and the generator tables alone (no keys, no search). -/
def goBoards (mg : MoveGenerator) : List (List Char) → Board → List Board
  | [], _ => []
  | line :: rest, b =>
    (if isGo (splitWs line) = true then [b] else []) ++ goBoards mg rest (cmdNext mg (splitWs line) b)

/-- the executed `go`s are an initial segment of the `go`s of the script, each on the board last set. -/
theorem goTrace_prefix (ctx : EngineCtx) : ∀ (script : List (List Char)) (e : Engine),
    goTrace ctx script e <+: goBoards ctx.mg script e.board := by
  intro script
  induction script with
  | nil => intro e; exact List.prefix_refl _
  | cons line rest ih =>
    intro e
    rcases hh : handleCommand ctx e (splitWs line) with ⟨out, e', oc⟩
    by_cases hoc : oc = .running
    · subst hoc
      rw [goTrace_cons_running ctx e e' line rest out hh]
      have hb := handleCommand_board ctx e (splitWs line)
      rw [hh] at hb
      simp only at hb
      simp only [goBoards]
      rw [← hb]
      exact (List.prefix_append_right_inj _).2 (ih e')
    · rw [goTrace_cons_stop ctx e e' line rest out oc hh hoc]
      exact List.nil_prefix

/-- a run that reaches the end of input executed every `go` of the script. -/
theorem goTrace_complete (ctx : EngineCtx) : ∀ (script : List (List Char)) (e : Engine),
    (runLines ctx script e).2.2 = .running → goTrace ctx script e = goBoards ctx.mg script e.board := by
  intro script
  induction script with
  | nil => intro e _; rfl
  | cons line rest ih =>
    intro e hrun
    rcases hh : handleCommand ctx e (splitWs line) with ⟨out, e', oc⟩
    by_cases hoc : oc = .running
    · subst hoc
      rw [runLines_cons_running ctx e e' line rest out hh] at hrun
      rw [goTrace_cons_running ctx e e' line rest out hh]
      have hb := handleCommand_board ctx e (splitWs line)
      rw [hh] at hb
      simp only at hb
      simp only [goBoards]
      rw [← hb, ih e' hrun]
    · rw [runLines_cons_stop ctx e e' line rest out oc hh hoc] at hrun
      exact absurd hrun hoc

/-! ## the transcript answers the trace -/

/-- `out` answers the boards `bs`: cut at the lines that start with `bestmove`, there is exactly one for each board,
    in order, each a correct answer for its board, and no other line starts with `bestmove`. -/
inductive Answered : List Board → List (List Char) → Prop where
  | done {out : List (List Char)} : (∀ x ∈ out, NotBm x) → Answered [] out
  | go {b : Board} {bs : List Board} {pre : List (List Char)} {l : List Char} {rest : List (List Char)} :
      (∀ x ∈ pre, NotBm x) → AnswerFor b l → Answered bs rest → Answered (b :: bs) (pre ++ l :: rest)

theorem Answered.prepend {bs : List Board} {out pre : List (List Char)} (hpre : ∀ x ∈ pre, NotBm x)
    (h : Answered bs out) : Answered bs (pre ++ out) := by
  cases h with
  | done hout =>
    exact Answered.done (fun x hx => (List.mem_append.1 hx).elim (hpre x) (hout x))
  | go hp ha hr =>
    rw [← List.append_assoc]
    exact Answered.go (fun x hx => (List.mem_append.1 hx).elim (hpre x) (hp x)) ha hr

/-- the line starts with `bestmove`. -/
def isBm (l : List Char) : Bool := (str "bestmove").isPrefixOf l

/-- pointwise: the k-th line answers the k-th board, and there are as many lines as boards. -/
def Matches : List Board → List (List Char) → Prop
  | [], [] => True
  | b :: bs, l :: ls => AnswerFor b l ∧ Matches bs ls
  | _, _ => False

theorem filter_isBm_of_notBm {out : List (List Char)} (h : ∀ x ∈ out, NotBm x) : out.filter isBm = [] := by
  rw [List.filter_eq_nil_iff]
  intro x hx
  have := h x hx
  unfold NotBm at this
  unfold isBm
  rw [this]
  exact Bool.false_ne_true

/-- the lines of the transcript that start with `bestmove`, in order, answer the boards one by one. -/
theorem Answered.matches {bs : List Board} {out : List (List Char)} (h : Answered bs out) :
    Matches bs (out.filter isBm) := by
  induction h with
  | done hout => rw [filter_isBm_of_notBm hout]; trivial
  | @go b bs pre l rest hp ha _ ih =>
    have hl : isBm l = true := ha.isBm
    rw [List.filter_append, filter_isBm_of_notBm hp, List.nil_append, List.filter_cons_of_pos hl]
    exact ⟨ha, ih⟩

theorem Matches.length {bs : List Board} {ls : List (List Char)} (h : Matches bs ls) : ls.length = bs.length := by
  induction bs generalizing ls with
  | nil =>
    cases ls with
    | nil => rfl
    | cons l ls => exact h.elim
  | cons b bs ih =>
    cases ls with
    | nil => exact h.elim
    | cons l ls => simp only [List.length_cons, ih h.2]

theorem Matches.get {bs : List Board} {ls : List (List Char)} (h : Matches bs ls) (k : Nat) (h₁ : k < bs.length)
    (h₂ : k < ls.length) : AnswerFor bs[k] ls[k] := by
  induction bs generalizing ls k with
  | nil => simp at h₁
  | cons b bs ih =>
    cases ls with
    | nil => exact h.elim
    | cons l ls =>
      cases k with
      | zero => exact h.1
      | succ k =>
        simp only [List.getElem_cons_succ]
        exact ih h.2 k (by simpa using h₁) (by simpa using h₂)

theorem Matches.mem {bs : List Board} {ls : List (List Char)} (h : Matches bs ls) {l : List Char} (hl : l ∈ ls) :
    ∃ b ∈ bs, AnswerFor b l := by
  induction bs generalizing ls with
  | nil =>
    cases ls with
    | nil => cases hl
    | cons l' ls => exact h.elim
  | cons b bs ih =>
    cases ls with
    | nil => cases hl
    | cons l' ls =>
      rcases List.mem_cons.1 hl with rfl | hl
      · exact ⟨b, List.mem_cons_self .., h.1⟩
      · obtain ⟨b', hb', ha⟩ := ih h.2 hl
        exact ⟨b', List.mem_cons_of_mem _ hb', ha⟩

/-- **exactly one `bestmove` line per `go`, in order, each correct**: the lines starting with `bestmove` are as many
    as the boards, and the k-th one answers the k-th board. -/
theorem Answered.bestmove_lines {bs : List Board} {out : List (List Char)} (h : Answered bs out) :
    (out.filter isBm).length = bs.length ∧
    ∀ k (h₁ : k < bs.length) (h₂ : k < (out.filter isBm).length), AnswerFor bs[k] (out.filter isBm)[k] :=
  ⟨h.matches.length, fun k h₁ h₂ => h.matches.get k h₁ h₂⟩

/-! ## the session theorem -/

/-- every `position` line of the script whose base board exists (start position; the board a FEN parses to; the
    start position after a FEN error) has a valid base board.  Only FENs that parse make this a real condition. -/
def PositionsValid (script : List (List Char)) : Prop :=
  ∀ line ∈ script, isPosition (splitWs line) = true → BaseValid (splitWs line)

/-- from ANY engine state satisfying the invariant. -/
theorem answered_from (ctx : EngineCtx) (hmg : ctx.mg = MoveGenerator.new) {U : Board → Prop}
    (hk : KeysFaithful ctx.keys U) : ∀ (script : List (List Char)) (e : Engine), EngOK ctx U e →
      (∀ q, visited ctx.mg script e.board q → U q) → PositionsValid script →
      Answered (goTrace ctx script e) (uciLoop ctx script e).1 := by
  intro script
  induction script with
  | nil => intro e _ _ _; exact Answered.done (fun x hx => by cases hx)
  | cons line rest ih =>
    intro e he hV hpos
    obtain ⟨s1, s2, s3⟩ := handleCommand_spec ctx hmg hk he (splitWs line) (fun q hq => hV q (Or.inl hq))
      (hpos line (List.mem_cons_self ..))
    have hb := handleCommand_board ctx e (splitWs line)
    rcases hh : handleCommand ctx e (splitWs line) with ⟨out, e', oc⟩
    rw [hh] at s1 s2 s3 hb
    simp only at s1 s2 s3 hb
    by_cases hoc : oc = .running
    · subst hoc
      rw [uciLoop_cons_running ctx e e' line rest out hh, goTrace_cons_running ctx e e' line rest out hh]
      have hrest := ih e' s1 (fun q hq => hV q (Or.inr (by rw [← hb]; exact hq)))
        (fun l hl => hpos l (List.mem_cons_of_mem _ hl))
      show Answered _ (out ++ (uciLoop ctx rest e').1)
      by_cases hg : isGo (splitWs line) = true
      · obtain ⟨infos, l, rfl, hinf, hans⟩ := s2 hg rfl
        rw [if_pos hg, List.append_assoc]
        exact Answered.go hinf hans hrest
      · rw [if_neg hg, List.nil_append]
        exact hrest.prepend (s3 (fun h => hg h.1))
    · rw [uciLoop_cons_stop ctx e e' line rest out oc hh hoc, goTrace_cons_stop ctx e e' line rest out oc hh hoc]
      exact Answered.done (s3 (fun h => hoc h.2))

/-- **C03 for the whole engine.**  Any script (list of input lines, then end of input), the generator tables of the
    source, any stream of key draws that is faithful on a set `U` containing the boards the script makes the engine
    hash, every position line with a valid base board.  In the transcript of the run from the initial engine state:
    the lines starting with `bestmove` correspond one-to-one and in order to the `go` commands that were executed
    (`goTrace`); the k-th is `bestmove <text of a move legal in the position last set before the k-th go>`, or
    `bestmove 0000` and that position has no legal move; every other line (info, handshake, FEN error lines) does
    not start with `bestmove`.  This holds for every depth limit, move time and clock value in the `go` lines
    (including zero budgets and the instrumented deadline `nextLimit`), and for every earlier history in the same
    process (earlier searches, `ucinewgame`, `position` commands). -/
theorem every_go_answered_legally (ctx : EngineCtx) (hmg : ctx.mg = MoveGenerator.new) (script : List (List Char))
    (U : Board → Prop) (hU : ∀ q, visited ctx.mg script Board.startpos q → U q)
    (hk : KeysFaithful ctx.keys U) (hpos : PositionsValid script) :
    Answered (goTrace ctx script {}) (uciLoop ctx script {}).1 :=
  answered_from ctx hmg hk script {} (engOK_init ctx U) hU hpos

/-- the same, spelled out on the sub-list of `bestmove` lines. -/
theorem every_go_answered_legally_lines (ctx : EngineCtx) (hmg : ctx.mg = MoveGenerator.new)
    (script : List (List Char)) (U : Board → Prop) (hU : ∀ q, visited ctx.mg script Board.startpos q → U q)
    (hk : KeysFaithful ctx.keys U) (hpos : PositionsValid script) :
    let bms := (uciLoop ctx script {}).1.filter isBm
    let bs := goTrace ctx script {}
    bms.length = bs.length ∧
    ∀ k (h₁ : k < bs.length) (h₂ : k < bms.length),
      ((∃ m, Spec.legal (Spec.abs bs[k]) m = true ∧ bms[k] = str "bestmove " ++ m.toAlgebraic) ∨
        (bms[k] = str "bestmove 0000" ∧ ∀ m, Spec.legal (Spec.abs bs[k]) m = false)) ∧
      (bms[k] = str "bestmove 0000" ↔
        (Spec.isMate (Spec.abs bs[k]) = true ∨ Spec.isStalemate (Spec.abs bs[k]) = true)) := by
  intro bms bs
  have h := (every_go_answered_legally ctx hmg script U hU hk hpos).bestmove_lines
  exact ⟨h.1, fun k h₁ h₂ => ⟨h.2 k h₁ h₂, (h.2 k h₁ h₂).zero_iff_mate_or_stalemate⟩⟩

/-- **with key draws that are collision-free on the hashed boards** (the hypothesis of C13's
    `search_key_independent`). -/
theorem every_go_answered_legally_of_injective (ctx : EngineCtx) (hmg : ctx.mg = MoveGenerator.new)
    (script : List (List Char)) (U : Board → Prop) (hU : ∀ q, visited ctx.mg script Board.startpos q → U q)
    (hinj : ∀ i, ∀ p q, U p → U q → hash (ctx.keys i) p = hash (ctx.keys i) q → p = q)
    (hpos : PositionsValid script) :
    Answered (goTrace ctx script {}) (uciLoop ctx script {}).1 :=
  every_go_answered_legally ctx hmg script U hU (KeysInjective.faithful hinj) hpos

/-- **with key draws whose only collisions on the hashed boards are between boards that are the same position up
    to the two move counters** (which the hash does not read), all boards of `U` being valid. -/
theorem every_go_answered_legally_of_injective_upto_counters (ctx : EngineCtx) (hmg : ctx.mg = MoveGenerator.new)
    (script : List (List Char)) (U : Board → Prop) (hU : ∀ q, visited ctx.mg script Board.startpos q → U q)
    (hval : ∀ q, U q → Spec.valid q = true)
    (hinj : ∀ i, ∀ p q, U p → U q → hash (ctx.keys i) p = hash (ctx.keys i) q →
      C04.PosAgree (Spec.abs p) (Spec.abs q))
    (hpos : PositionsValid script) :
    Answered (goTrace ctx script {}) (uciLoop ctx script {}).1 :=
  every_go_answered_legally ctx hmg script U hU (KeysInjectiveUpToCounters.faithful hinj hval) hpos

/-! ### the hashed boards of a valid session are valid -/

theorem positionBoards_valid (parts : List Tok) (hb : BaseValid parts) (q : Board)
    (h : positionBoards MoveGenerator.new parts q) : Spec.valid q = true := by
  unfold positionBoards at h
  cases hbase : positionBase parts with
  | none => rw [hbase] at h; exact h.elim
  | some ob =>
    obtain ⟨out, b0⟩ := ob
    have hv0 := hb out b0 hbase
    rw [hbase] at h
    dsimp only at h
    cases hm : movesAfter parts with
    | none => rw [hm] at h; dsimp only at h; rw [h]; exact hv0
    | some ts =>
      rw [hm] at h
      dsimp only at h
      cases hr : replay MoveGenerator.new ts b0 with
      | none => rw [hr] at h; exact h.elim
      | some pf =>
        obtain ⟨past, fin⟩ := pf
        rw [hr] at h
        dsimp only at h
        obtain ⟨hf, hp⟩ := replay_valid ts b0 hv0 past fin hr
        rcases h with h | h
        · exact hp q h
        · rw [h]; exact hf

theorem positionNext_valid (parts : List Tok) (hb : BaseValid parts) (b : Board) (hv : Spec.valid b = true) :
    Spec.valid (positionNext MoveGenerator.new parts b) = true := by
  unfold positionNext
  cases hbase : positionBase parts with
  | none => exact hv
  | some ob =>
    obtain ⟨out, b0⟩ := ob
    have hv0 := hb out b0 hbase
    dsimp only
    cases hm : movesAfter parts with
    | none => exact hv0
    | some ts =>
      dsimp only
      cases hr : replay MoveGenerator.new ts b0 with
      | none => exact hv
      | some pf =>
        obtain ⟨past, fin⟩ := pf
        exact (replay_valid ts b0 hv0 past fin hr).1

theorem cmd_valid (parts : List Tok) (hb : isPosition parts = true → BaseValid parts) (b : Board)
    (hv : Spec.valid b = true) :
    (∀ q, cmdBoards MoveGenerator.new parts b q → Spec.valid q = true) ∧
    Spec.valid (cmdNext MoveGenerator.new parts b) = true := by
  unfold cmdBoards cmdNext
  cases parts with
  | nil => exact ⟨fun q h => h.elim, hv⟩
  | cons cmd tl =>
    have hpos : isPosition (cmd :: tl) = (cmd == kwPosition) := rfl
    rw [hpos] at hb
    simp only
    by_cases c1 : cmd = kwUci
    · rw [if_pos c1]; exact ⟨fun q h => by rw [if_pos c1] at h; exact h.elim, hv⟩
    · simp only [c1, if_false]
      by_cases c2 : cmd = kwIsready
      · rw [if_pos c2]; exact ⟨fun q h => by rw [if_pos c2] at h; exact h.elim, hv⟩
      · simp only [c2, if_false]
        by_cases c3 : cmd = kwUcinewgame
        · rw [if_pos c3]; exact ⟨fun q h => by rw [if_pos c3] at h; exact h.elim, valid_startpos⟩
        · simp only [c3, if_false]
          by_cases c4 : cmd = kwPosition
          · simp only [c4, if_true]
            have hb' : BaseValid (kwPosition :: tl) := by rw [c4] at hb; exact hb (by decide)
            exact ⟨positionBoards_valid _ hb', positionNext_valid _ hb' b hv⟩
          · simp only [c4, if_false]
            refine ⟨fun q h => ?_, hv⟩
            by_cases c5 : cmd = kwGo
            · rw [if_pos c5] at h
              exact within_valid KeySim.noKeys hv h
            · rw [if_neg c5] at h; exact h.elim

/-- every board a session with valid position lines hashes is valid. -/
theorem visited_valid : ∀ (script : List (List Char)), PositionsValid script → ∀ (b : Board),
    Spec.valid b = true → ∀ q, visited MoveGenerator.new script b q → Spec.valid q = true := by
  intro script
  induction script with
  | nil => intro _ b _ q h; exact h.elim
  | cons line rest ih =>
    intro hpos b hv q h
    obtain ⟨c1, c2⟩ := cmd_valid (splitWs line) (hpos line (List.mem_cons_self ..)) b hv
    rcases h with h | h
    · exact c1 q h
    · exact ih (fun l hl => hpos l (List.mem_cons_of_mem _ hl)) _ c2 q h

/-- **the form without any auxiliary set**: if, for every key draw, two boards the session hashes get the same key
    only when they are the same position up to the two move counters (which the hash does not read — so this is the
    weakest "no collision" hypothesis a key table can satisfy at all), and the position lines have valid base
    boards, then every executed `go` is answered by exactly one correct `bestmove` line. -/
theorem every_go_answered_legally_visited (ctx : EngineCtx) (hmg : ctx.mg = MoveGenerator.new)
    (script : List (List Char)) (hpos : PositionsValid script)
    (hinj : ∀ i, ∀ p q, visited MoveGenerator.new script Board.startpos p →
      visited MoveGenerator.new script Board.startpos q → hash (ctx.keys i) p = hash (ctx.keys i) q →
      C04.PosAgree (Spec.abs p) (Spec.abs q)) :
    Answered (goTrace ctx script {}) (uciLoop ctx script {}).1 :=
  every_go_answered_legally_of_injective_upto_counters ctx hmg script
    (visited MoveGenerator.new script Board.startpos) (fun q hq => by rw [hmg] at hq; exact hq)
    (visited_valid script hpos Board.startpos valid_startpos) hinj hpos

/-- and the table invariant itself holds in the state the run stops in: every move the table then holds for a hashed
    board is legal there ("whatever it searched earlier" can go on). -/
theorem engOK_after_run (ctx : EngineCtx) (hmg : ctx.mg = MoveGenerator.new) {U : Board → Prop}
    (hk : KeysFaithful ctx.keys U) : ∀ (script : List (List Char)) (e : Engine), EngOK ctx U e →
      (∀ q, visited ctx.mg script e.board q → U q) → PositionsValid script →
      EngOK ctx U (runLines ctx script e).2.1 := by
  intro script
  induction script with
  | nil => intro e he _ _; exact he
  | cons line rest ih =>
    intro e he hV hpos
    have s1 := handleCommand_engOK ctx hmg hk he (splitWs line) (fun q hq => hV q (Or.inl hq))
      (hpos line (List.mem_cons_self ..))
    have hb := handleCommand_board ctx e (splitWs line)
    rcases hh : handleCommand ctx e (splitWs line) with ⟨out, e', oc⟩
    rw [hh] at s1 hb
    simp only at s1 hb
    by_cases hoc : oc = .running
    · subst hoc
      rw [runLines_cons_running ctx e e' line rest out hh]
      exact ih e' s1 (fun q hq => hV q (Or.inr (by rw [← hb]; exact hq)))
        (fun l hl => hpos l (List.mem_cons_of_mem _ hl))
    · rw [runLines_cons_stop ctx e e' line rest out oc hh hoc]
      exact s1

/-! ## discharging `PositionsValid` -/

/-- a script without `position fen …` lines needs no validity hypothesis. -/
theorem positionsValid_of_no_fen (script : List (List Char))
    (h : ∀ line ∈ script, (splitWs line).getD 1 [] ≠ kwFen) : PositionsValid script :=
  fun line hl _ => baseValid_of_not_fen _ (h line hl)

/-- C03 for the whole engine, scripts of `position startpos [moves …]` / `ucinewgame` / `go …` / `uci` / `isready` /
    `quit` / unknown / blank lines (no `position fen`): no validity hypothesis at all. -/
theorem every_go_answered_legally_startpos (ctx : EngineCtx) (hmg : ctx.mg = MoveGenerator.new)
    (script : List (List Char)) (hnf : ∀ line ∈ script, (splitWs line).getD 1 [] ≠ kwFen)
    (U : Board → Prop) (hU : ∀ q, visited ctx.mg script Board.startpos q → U q)
    (hk : KeysFaithful ctx.keys U) :
    Answered (goTrace ctx script {}) (uciLoop ctx script {}).1 :=
  every_go_answered_legally ctx hmg script U hU hk (positionsValid_of_no_fen script hnf)

/-- a `position fen` line carrying the canonical FEN (`toFen`, C04) of a VALID board with counters below the parser's
    bounds has a valid base board: C04's round trip gives back exactly that board. -/
theorem baseValid_of_canonical_fen (parts : List Tok) (b : Board) (hv : Spec.valid b = true)
    (hh : b.halfmove < Gen.FEN_HALFMOVE_BOUND) (hf : b.fullmove < Gen.FEN_FULLMOVE_BOUND)
    (hfen : (parts.drop 2).take 6 = toFen b) : BaseValid parts := by
  rw [baseValid_iff]
  intro _ _ _ b' hb'
  have hc : Spec.consistent b = true := ((Spec.valid_iff b).1 hv).1
  have hep : ∀ s, b.ep = some s → s < 64 := by
    intro s hs
    have hv' := hv
    unfold Spec.valid at hv'
    simp only [Bool.and_eq_true] at hv'
    have h7 := hv'.2
    have : (Spec.abs b).ep = some s := hs
    rw [this] at h7
    simp only [Bool.and_eq_true, decide_eq_true_eq] at h7
    exact h7.1.1.1.1
  rw [hfen, C04.fen_roundtrip b hc hep hh hf] at hb'
  rw [← FenResult.ok.inj hb']
  exact hv

end Flounder.Props.C03Engine
