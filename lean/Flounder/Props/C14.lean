/-
  C14 — Static evaluation is a symmetric, bounded, pure function of the position.
  (Antisymmetry, mirror invariance and the bound are in Props/C14Sym.lean / C14Bound.lean as they are proved.)
-/
import Flounder.Model.Eval
import Flounder.Spec.Position

namespace Flounder.Props.C14
open Flounder Gen

/-- **Purity**: the score does not depend on the evaluator's prior state (whatever was evaluated before). -/
theorem eval_pure (e₁ e₂ : Evaluator) (b : Board) : (evaluate e₁ b).1 = (evaluate e₂ b).1 := rfl

/-- the score is `evalFn` of the board and nothing else. -/
theorem eval_is_fn (e : Evaluator) (b : Board) : (evaluate e b).1 = evalFn b := rfl

/-- run a list of `evaluate` calls on ONE evaluator, threading its state like the Rust `&mut self`. -/
def evalCalls : Evaluator → List Board → List Int
  | _, [] => []
  | e, b :: bs => (evaluate e b).1 :: evalCalls (evaluate e b).2 bs

/-- **Any order of calls**: each call returns the score of its own board only. -/
theorem eval_calls (e : Evaluator) (bs : List Board) : evalCalls e bs = bs.map evalFn := by
  induction bs generalizing e with
  | nil => rfl
  | cons b bs ih => simp [evalCalls, ih, eval_is_fn]

/-- the score depends on placement and side to move only: counters, castling rights and the en-passant
    square are never read. -/
theorem eval_placement_only (b : Board) (castle : Castle) (ep : Option Nat) (h f : Nat) :
    evalFn { b with castle := castle, ep := ep, halfmove := h, fullmove := f } = evalFn b := rfl

/-- the two `^ 56` literals of eval.rs agree (player loop and opponent loop flip white the same way). -/
theorem flip_literals : FLIP_PLAYER = 56 ∧ FLIP_OPP = 56 := by decide

/-- the taper constants are consistent: phases are capped at 24 and divided by 24. -/
theorem taper_consts : PHASE_CAP = 24 ∧ PHASE_TOTAL = 24 ∧ PHASE_DIV = 24 := by decide

end Flounder.Props.C14
