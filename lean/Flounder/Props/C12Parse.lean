/-
  C12 (parsing half) — for every `go` line made of distinct clock keywords with arbitrary value tokens,
  the budget handed to the search is `allocate (own time) (own increment)`: it does not depend on the
  order of the pairs nor on the opponent's clock, and it fits in the mover's clock.
-/
import Flounder.Props.C12
import Flounder.Lemmas.GoRender

namespace Flounder.Props.C12
open Flounder Gen

theorem tok_not_depth (k : ClockKey) : ¬ k.tok = kwDepth := by cases k <;> decide
theorem tok_not_movetime (k : ClockKey) : ¬ k.tok = kwMovetime := by cases k <;> decide
theorem tok_clock (k : ClockKey) : k.tok = kwWtime ∨ k.tok = kwBtime ∨ k.tok = kwWinc ∨ k.tok = kwBinc := by
  cases k <;> decide

/-- the clocks `calculate_move_time` collects from a rendered line (scan started at index 1). -/
theorem scan_render (pairs : List (ClockKey × Tok)) (k : ClockKey) (hnd : (pairs.map (·.1)).Nodup) :
    ClockKey.get (scanClocks ((render pairs).length + 1) (render pairs) 1 {}) k = valueOf pairs k := by
  rw [scanClocks_eq_scanList _ _ _ _ (by omega)]
  exact scan_render_get pairs k hnd

theorem calculateMoveTime_render (side : Color) (pairs : List (ClockKey × Tok))
    (hnd : (pairs.map (·.1)).Nodup) :
    calculateMoveTime side (render pairs) 1 =
      allocate (valueOf pairs (ClockKey.ownTime side)) (valueOf pairs (ClockKey.ownInc side)) := by
  cases side
  · have h1 : (scanClocks ((render pairs).length + 1) (render pairs) 1 {}).wtime = valueOf pairs .wtime :=
      scan_render pairs .wtime hnd
    have h2 : (scanClocks ((render pairs).length + 1) (render pairs) 1 {}).winc = valueOf pairs .winc :=
      scan_render pairs .winc hnd
    rw [budget_white_own, h1, h2]; rfl
  · have h1 : (scanClocks ((render pairs).length + 1) (render pairs) 1 {}).btime = valueOf pairs .btime :=
      scan_render pairs .btime hnd
    have h2 : (scanClocks ((render pairs).length + 1) (render pairs) 1 {}).binc = valueOf pairs .binc :=
      scan_render pairs .binc hnd
    rw [budget_black_own, h1, h2]; rfl

/-- **`go` with any non-empty set of distinct clock keywords, in any order, with arbitrary value tokens:
    depth stays at its default and the time limit is the allocation from the mover's own time and
    increment (0 for a missing or unparsable value).** -/
theorem go_clock_budget (side : Color) (pairs : List (ClockKey × Tok)) (hne : pairs ≠ [])
    (hnd : (pairs.map (·.1)).Nodup) :
    goParams side (render pairs) =
      { depth := GO_DEFAULT_DEPTH,
        timeLimit := some (allocate (valueOf pairs (ClockKey.ownTime side))
                                    (valueOf pairs (ClockKey.ownInc side))) } := by
  have hlen := render_length pairs
  have h4 := pairs_length_le pairs hnd
  have hcm := calculateMoveTime_render side pairs hnd
  cases pairs with
  | nil => exact absurd rfl hne
  | cons p ps =>
    obtain ⟨k, v⟩ := p
    have hi : 1 < (render ((k, v) :: ps)).length := by
      rw [hlen]; simp only [List.length_cons]; omega
    have htok : (render ((k, v) :: ps)).getD 1 [] = k.tok := rfl
    unfold goParams
    rw [goLoop]
    simp only [hi, if_true, htok, tok_not_depth, tok_not_movetime, if_false, tok_clock]
    rw [goLoop_past _ _ _ _ _ (by rw [hlen]; simp only [GO_CLOCK_SKIP]; omega), hcm]

/-- **order independence**: permuting the pairs does not change the parameters. -/
theorem budget_order_independent (side : Color) (pairs pairs' : List (ClockKey × Tok))
    (hperm : pairs.Perm pairs') (hne : pairs ≠ []) (hnd : (pairs.map (·.1)).Nodup) :
    goParams side (render pairs) = goParams side (render pairs') := by
  have hnd' : (pairs'.map (·.1)).Nodup := (hperm.map (·.1)).nodup_iff.mp hnd
  have hne' : pairs' ≠ [] := by
    intro e; subst e; exact hne hperm.eq_nil
  rw [go_clock_budget side pairs hne hnd, go_clock_budget side pairs' hne' hnd',
    valueOf_perm hperm hnd, valueOf_perm hperm hnd]

/-- **the opponent's clock has no influence**: two lines with the same keywords in the same order whose
    values for the mover's own two keywords agree yield the same parameters. -/
theorem budget_opponent_independent (side : Color) (pairs pairs' : List (ClockKey × Tok))
    (hne : pairs ≠ []) (hnd : (pairs.map (·.1)).Nodup)
    (hkeys : pairs.map (·.1) = pairs'.map (·.1))
    (htime : valueOf pairs (ClockKey.ownTime side) = valueOf pairs' (ClockKey.ownTime side))
    (hinc : valueOf pairs (ClockKey.ownInc side) = valueOf pairs' (ClockKey.ownInc side)) :
    goParams side (render pairs) = goParams side (render pairs') := by
  have hnd' : (pairs'.map (·.1)).Nodup := hkeys ▸ hnd
  have hne' : pairs' ≠ [] := by
    intro e; subst e
    exact hne (List.map_eq_nil_iff.mp hkeys)
  rw [go_clock_budget side pairs hne hnd, go_clock_budget side pairs' hne' hnd', htime, hinc]

/-- token-level form: the value *tokens* of the mover's own keywords agree (the opponent's value tokens
    are unconstrained). -/
theorem budget_opponent_independent_tok (side : Color) (pairs pairs' : List (ClockKey × Tok))
    (hne : pairs ≠ []) (hnd : (pairs.map (·.1)).Nodup)
    (hkeys : pairs.map (·.1) = pairs'.map (·.1))
    (hown : ∀ k, (k = ClockKey.ownTime side ∨ k = ClockKey.ownInc side) → pairs.lookup k = pairs'.lookup k) :
    goParams side (render pairs) = goParams side (render pairs') := by
  apply budget_opponent_independent side pairs pairs' hne hnd hkeys
  · unfold valueOf; rw [hown _ (Or.inl rfl)]
  · unfold valueOf; rw [hown _ (Or.inr rfl)]

/-- **the parsed budget fits the mover's clock** (and is strictly below it when any time remains). -/
theorem budget_fits_clock (side : Color) (pairs : List (ClockKey × Tok)) (hne : pairs ≠ [])
    (hnd : (pairs.map (·.1)).Nodup) :
    ∃ ms, (goParams side (render pairs)).timeLimit = some ms ∧
      ms ≤ valueOf pairs (ClockKey.ownTime side) ∧
      (0 < valueOf pairs (ClockKey.ownTime side) → ms < valueOf pairs (ClockKey.ownTime side)) := by
  rw [go_clock_budget side pairs hne hnd]
  exact ⟨_, rfl, budget_le _ _, budget_lt _ _⟩

/-! Non-vacuity: the hypotheses of `go_clock_budget` hold on a concrete four-pair line (with a junk value
    token that happens to be a keyword), and the conclusion is the expected number. -/
def samplePairs : List (ClockKey × Tok) :=
  [(.binc, ['7']), (.wtime, kwBtime), (.btime, ['6','5','0','0','0']), (.winc, ['9'])]

example : samplePairs ≠ [] ∧ (samplePairs.map (·.1)).Nodup := by decide
example : goParams .black (render samplePairs) = { depth := 64, timeLimit := some 2407 } := by decide +kernel
example : goParams .black (render samplePairs) = { depth := GO_DEFAULT_DEPTH, timeLimit := some 2407 } := by
  rw [go_clock_budget .black samplePairs (by decide) (by decide)]; decide +kernel
example : valueOf samplePairs .wtime = 0 ∧ valueOf samplePairs .btime = 65000 := by decide

end Flounder.Props.C12
