/-
  C14 — the static score is bounded, far below the mate / infinity sentinels of the search.
  `BOUND` is computed from the generated tables, so editing a table value re-opens `bound_lt_infinity`
  and the table facts `opening_tableOK` / `endgame_tableOK`.
-/
import Flounder.Lemmas.EvalBound
import Flounder.Lemmas.EvalOverflow
import Flounder.Gen.Search

namespace Flounder.Props.C14
open Flounder Gen

/-- a sane set of men for each colour: the six (colour, piece) bitboards are pairwise disjoint, there is
    exactly one king, and there are at most 16 men.  (Decidable: bounded quantifiers over explicit lists.) -/
def PieceCountOK (b : Board) : Prop :=
  ∀ c ∈ [Color.white, Color.black],
    (∀ p ∈ Piece.all, ∀ q ∈ Piece.all, p ≠ q → b.bb c p &&& b.bb c q = 0) ∧
    countOnes (b.bb c .king) = 1 ∧
    (Piece.all.map (fun p => countOnes (b.bb c p))).sum ≤ 16

instance (b : Board) : Decidable (PieceCountOK b) := by unfold PieceCountOK; infer_instance

/-- the part of `PieceCountOK` the bound actually uses (disjointness is not needed). -/
def KingAndCountOK (b : Board) : Prop :=
  ∀ c : Color, countOnes (b.bb c .king) = 1 ∧ menCount b c ≤ 16

theorem PieceCountOK.kingAndCount {b : Board} (h : PieceCountOK b) : KingAndCountOK b := by
  intro c
  have := h c (by cases c <;> simp)
  exact ⟨this.2.1, this.2.2⟩

/-- the quantifiers of `PieceCountOK` range over all colours and all pieces. -/
theorem pieceCountOK_iff (b : Board) :
    PieceCountOK b ↔ ∀ c : Color,
      (∀ p q : Piece, p ≠ q → b.bb c p &&& b.bb c q = 0) ∧
      countOnes (b.bb c .king) = 1 ∧
      (Piece.all.map (fun p => countOnes (b.bb c p))).sum ≤ 16 := by
  constructor
  · intro h c
    have := h c (by cases c <;> simp)
    exact ⟨fun p q hpq => this.1 p (by cases p <;> simp [Piece.all]) q (by cases q <;> simp [Piece.all]) hpq,
      this.2⟩
  · intro h c _
    exact ⟨fun p _ q _ hpq => (h c).1 p q hpq, (h c).2⟩

/-- largest possible `|player − opponent|` for one table: `15·(max non-king) + (max king) − (15·(min non-king
    or 0) + (min king))`. -/
def sideBound (T : List (List Int)) : Int := (15 * nkMax T + kMax T) - (15 * nkMin T + kMin T)

/-- the bound on the static score, computed from both generated tables. -/
def BOUND : Int := max (sideBound OPENING_TABLES) (sideBound ENDGAME_TABLES)

/-- its current value (informative; nothing depends on this literal). -/
theorem BOUND_eq : BOUND = 16361 := by decide +kernel

/-- **the static score can never be mistaken for a mate or infinity score.** -/
theorem bound_lt_infinity : BOUND < Gen.INFINITY := by decide +kernel

theorem bound_lt_checkmate : BOUND < Gen.CHECKMATE_SCORE - Gen.MAX_DEPTH := by decide +kernel

theorem opening_bounded (b : Board) (h : KingAndCountOK b) :
    -BOUND ≤ (accumulate b).opening ∧ (accumulate b).opening ≤ BOUND := by
  rw [accumulate_opening, sum_dOpening]
  have h1 := sideTotal_bounds opening_tableOK b b.active (h _).1 (h _).2
  have h2 := sideTotal_bounds opening_tableOK b b.active.other (h _).1 (h _).2
  have : sideBound OPENING_TABLES ≤ BOUND := Int.le_max_left _ _
  unfold sideBound at this
  omega

theorem endgame_bounded (b : Board) (h : KingAndCountOK b) :
    -BOUND ≤ (accumulate b).endgame ∧ (accumulate b).endgame ≤ BOUND := by
  rw [accumulate_endgame, sum_dEndgame]
  have h1 := sideTotal_bounds endgame_tableOK b b.active (h _).1 (h _).2
  have h2 := sideTotal_bounds endgame_tableOK b b.active.other (h _).1 (h _).2
  have : sideBound ENDGAME_TABLES ≤ BOUND := Int.le_max_right _ _
  unfold sideBound at this
  omega

/-- the bound under the weaker hypothesis (one king and at most 16 men per colour). -/
theorem eval_bounded' (b : Board) (h : KingAndCountOK b) : -BOUND ≤ evalFn b ∧ evalFn b ≤ BOUND :=
  taper_bound _ BOUND (gamephase_nonneg b) (opening_bounded b h) (endgame_bounded b h)

/-- **Boundedness**: for every board with a sane set of men, `|eval| ≤ BOUND` (= 16361 < 32767). -/
theorem eval_bounded (b : Board) (h : PieceCountOK b) : (evalFn b).natAbs ≤ BOUND.toNat := by
  have := eval_bounded' b h.kingAndCount
  omega

/-- the same as two inequalities. -/
theorem eval_bounded_le (b : Board) (h : PieceCountOK b) : -BOUND ≤ evalFn b ∧ evalFn b ≤ BOUND :=
  eval_bounded' b h.kingAndCount

/-- so no static score reaches ±INFINITY. -/
theorem eval_lt_infinity (b : Board) (h : PieceCountOK b) :
    Gen.NEGATIVE_INFINITY < evalFn b ∧ evalFn b < Gen.INFINITY := by
  have := eval_bounded_le b h
  have := bound_lt_infinity
  have : Gen.NEGATIVE_INFINITY = -Gen.INFINITY := by decide
  omega

/-- the chess starting position (`Position::default()`), from the generated `START_*` constants. -/
def startBoard : Board :=
  { pawns := u64 START_PAWN, knights := u64 START_KNIGHT, bishops := u64 START_BISHOP,
    rooks := u64 START_ROOK, queens := u64 START_QUEEN, kings := u64 START_KING,
    white := u64 START_WHITE, black := u64 START_BLACK, active := .white,
    castle := ⟨true, true, true, true⟩, ep := none, halfmove := 0, fullmove := 1 }

/-- non-vacuity: the starting position satisfies the hypothesis. -/
example : PieceCountOK startBoard := by decide +kernel

/-- and its score is 0 (sanity check of the model by evaluation). -/
example : evalFn startBoard = 0 := by decide +kernel

/-! ## No overflow: `i32` arithmetic is faithfully modelled by `Int`, for EVERY eight bitboards -/

/-- bound on both score accumulators, computed from the generated tables (`64 · Σ_piece row spread`). -/
def ACC_BOUND : Int := max (accBound OPENING_TABLES) (accBound ENDGAME_TABLES)

theorem ACC_BOUND_eq : ACC_BOUND = 182272 := by decide +kernel
theorem ACC_BOUND_le : ACC_BOUND ≤ 6 * 64 * 1100 := by decide +kernel
theorem phaseBound_eq : phaseBound = 1024 := by decide +kernel
theorem acc_product_fits : 24 * ACC_BOUND < 2 ^ 31 := by decide +kernel

theorem accumulate_within (b : Board) :
    Within (accumulate b).opening ACC_BOUND ∧ Within (accumulate b).endgame ACC_BOUND ∧
    0 ≤ (accumulate b).gamephase ∧ (accumulate b).gamephase ≤ phaseBound := by
  have h := accumulateUpTo_bounds b 6
  rw [accumulateUpTo_six] at h
  exact ⟨h.1.mono (Int.le_max_left _ _), h.2.1.mono (Int.le_max_right _ _), h.2.2⟩

/-- **No overflow** (no hypothesis on the board): the three accumulators, the two phases, both products and
    their sum — every value `evaluate` computes after the loops — are far inside the `i32` range. -/
theorem eval_no_overflow (b : Board) :
    let e := accumulate b
    let op := min e.gamephase PHASE_CAP
    let eg := PHASE_TOTAL - op
    Within e.opening (6 * 64 * 1100) ∧ Within e.endgame (6 * 64 * 1100) ∧
    (0 ≤ e.gamephase ∧ e.gamephase ≤ 1024) ∧
    (0 ≤ op ∧ op ≤ 24) ∧ (0 ≤ eg ∧ eg ≤ 24) ∧
    Within (e.opening * op) (24 * (6 * 64 * 1100)) ∧ Within (e.endgame * eg) (24 * (6 * 64 * 1100)) ∧
    Within (e.opening * op + e.endgame * eg) (24 * (6 * 64 * 1100)) ∧
    (24 * (6 * 64 * 1100) : Int) < 2 ^ 31 ∧
    Within (taper e) (6 * 64 * 1100) := by
  dsimp only
  have h := accumulate_within b
  generalize accumulate b = e at h ⊢
  have ho : Within e.opening (6 * 64 * 1100) := h.1.mono ACC_BOUND_le
  have he : Within e.endgame (6 * 64 * 1100) := h.2.1.mono ACC_BOUND_le
  have hg : 0 ≤ e.gamephase ∧ e.gamephase ≤ 1024 := by have := phaseBound_eq; have := h.2.2; omega
  have hcap : PHASE_CAP = 24 := by decide
  have htot : PHASE_TOTAL = 24 := by decide
  rw [hcap, htot]
  have hop : 0 ≤ min e.gamephase 24 ∧ min e.gamephase 24 ≤ 24 := by omega
  have heg : 0 ≤ 24 - min e.gamephase 24 ∧ 24 - min e.gamephase 24 ≤ 24 := by omega
  have hsum := convex24 e.opening e.endgame _ _ hop.1 hop.2 ho he
  exact ⟨ho, he, hg, hop, heg, mul_within24 _ _ _ hop.1 hop.2 ho, mul_within24 _ _ _ heg.1 heg.2 he, hsum,
    by decide, taper_bound e _ hg.1 ho he⟩

/-- the same as membership in the `i32` range. -/
theorem eval_no_overflow_i32 (b : Board) :
    let e := accumulate b
    let op := min e.gamephase PHASE_CAP
    let eg := PHASE_TOTAL - op
    FitsI32 e.opening ∧ FitsI32 e.endgame ∧ FitsI32 e.gamephase ∧ FitsI32 op ∧ FitsI32 eg ∧
    FitsI32 (e.opening * op) ∧ FitsI32 (e.endgame * eg) ∧ FitsI32 (e.opening * op + e.endgame * eg) ∧
    FitsI32 (evalFn b) := by
  have h := eval_no_overflow b
  dsimp only at h ⊢
  obtain ⟨h1, h2, h3, h4, h5, h6, h7, h8, -, h10⟩ := h
  refine ⟨h1.fits (by decide), h2.fits (by decide), ?_, ?_, ?_, h6.fits (by decide), h7.fits (by decide),
    h8.fits (by decide), h10.fits (by decide)⟩
  · unfold FitsI32; omega
  · unfold FitsI32; omega
  · unfold FitsI32; omega

/-- the values of the three loop variables of one `for bit in bitboard_iter` loop after `k` iterations
    (`sideSums` with the square list cut to its first `k` elements). -/
def sideSumsUpTo (b : Board) (c : Color) (flip : Nat) (piece : Piece) (k : Nat) : Int × Int × Int :=
  let sqs := ((squaresOf (b.bb c piece)).map (pstSquare c flip)).take k
  (sqs.foldl (fun acc sq => acc + pst OPENING_TABLES piece.index sq) 0,
   sqs.foldl (fun acc sq => acc + pst ENDGAME_TABLES piece.index sq) 0,
   sqs.foldl (fun acc _ => acc + PHASE_INCREMENTS.getD piece.index 0) 0)

theorem sideSumsUpTo_all (b : Board) (c : Color) (flip : Nat) (piece : Piece) :
    sideSumsUpTo b c flip piece 64 = sideSums b c flip piece := by
  unfold sideSumsUpTo sideSums
  rw [List.take_of_length_le (by rw [List.length_map]; exact squaresOf_length_le _)]

/-- **No overflow inside the loops and between the calls**: every running value of every loop (after any
    number of iterations), every per-piece difference / sum, and the three accumulators after any number of
    `eval_piece_type` calls fit in `i32` — for every board. -/
theorem eval_no_overflow_steps (b : Board) :
    (∀ c p k, FitsI32 (sideSumsUpTo b c 56 p k).1 ∧ FitsI32 (sideSumsUpTo b c 56 p k).2.1 ∧
      FitsI32 (sideSumsUpTo b c 56 p k).2.2) ∧
    (∀ c p, FitsI32 (dOpening b c p) ∧ FitsI32 (dEndgame b c p) ∧ FitsI32 (dPhase b c p)) ∧
    (∀ k, FitsI32 (accumulateUpTo b k).opening ∧ FitsI32 (accumulateUpTo b k).endgame ∧
      FitsI32 (accumulateUpTo b k).gamephase) := by
  have hO : accBound OPENING_TABLES ≤ 422400 := by
    have : accBound OPENING_TABLES ≤ ACC_BOUND := Int.le_max_left _ _
    have := ACC_BOUND_le; omega
  have hE : accBound ENDGAME_TABLES ≤ 422400 := by
    have : accBound ENDGAME_TABLES ≤ ACC_BOUND := Int.le_max_right _ _
    have := ACC_BOUND_le; omega
  have hP := phaseBound_eq
  refine ⟨?_, ?_, ?_⟩
  · intro c p k
    have h1 := loop_prefix_bounds opening_rowsOK b c p k
    have h2 := loop_prefix_bounds endgame_rowsOK b c p k
    have h3 := cnt_prefix_bounds b c p k
    have r1 := rowSpan_le_acc opening_rowsOK p
    have r2 := rowSpan_le_acc endgame_rowsOK p
    have r3 := phaseInc_le p
    have q1 := opening_rowsOK p.index p.index_lt
    have q2 := endgame_rowsOK p.index p.index_lt
    simp only [sideSumsUpTo, foldl_add_eq_sum, ← List.map_take, List.map_map, Int.zero_add, FitsI32]
    simp only [Function.comp_def]
    unfold rowSpan at r1 r2
    omega
  · intro c p
    have h1 := dOpening_within b c p
    have h2 := dEndgame_within b c p
    have h3 := dPhase_bounds b c p
    have r1 := rowSpan_le_acc opening_rowsOK p
    have r2 := rowSpan_le_acc endgame_rowsOK p
    have r3 := phaseInc_le p
    unfold Within at h1 h2
    unfold FitsI32
    omega
  · intro k
    have h := accumulateUpTo_bounds b k
    unfold Within at h
    unfold FitsI32
    omega

end Flounder.Props.C14
