/-
  C07, second half — the deadline polls are DENSE.

  Props/C07.lean bounds the work done AFTER the first poll that notices the expiry (none: `no_new_work_after_stop`;
  and the unwinding is short: `bounded_unwinding`).  This file bounds the work done between the moment the clock
  expires and the first poll that notices it.

  The run of a search is recorded as its list of primitive clock events (Lemmas/PollDense.lean):
      `Ev.poll`  = one executed `shouldStop`,     `Ev.enter` = one executed `incrementNodes` (one node entered,
  negamax or quiescence).  `findBestMoveE` is the model's `findBestMove`, statement by statement, returning that
  list as a third component (`events`); it is tied to the model by
      `events_faithful`  forgetting the list gives exactly `findBestMove` (result and state), and
      `events_complete`  replaying the list on the reset state with the model's OWN `shouldStop` /
                         `incrementNodes` reproduces the final `limit`, `nodes`, `polls`, `stopSeen`,
                         `nodesAfterStop`  (so the list has exactly `nodes` entries and `polls` polls, in the
                         order in which the oracle saw them).

  For EVERY game, position, depth, limit, quiescence fuel and prior searcher state:
    D1  `polls_dense`            every block of consecutive node entries of the run — before the first poll,
                                 between two consecutive polls, after the last poll — has at most 2 elements
                                 (a `negamax` node at depth 0 and the quiescence node it opens: these are the only
                                 two node entries of the engine that are not separated by a poll);
        `polls_dense_tight`      2 is attained (toy run), so the constant is exact;
        `no_node_before_first_poll`  in fact the run starts with a poll.
    D2  `work_after_deadline`    cut the run at ANY point at which the oracle is true (the clock has expired;
                                 a poll executed there would answer true): at most 2 nodes are entered in the
                                 whole rest of the run (at most 2 before the next poll by D1, and none after it by
                                 `no_new_work_after_stop`);  attained for `Limit.polls` (`work_after_deadline_tight`).
    D3  `node_budget_overshoot`  under `Limit.nodes n` (the deadline is the entry of the `n`-th node) a run
                                 enters at most `n + 1` nodes — at most ONE node after the deadline (the `n`-th
                                 node is itself part of the gap);  attained (`node_budget_overshoot_tight`);
                                 with `n = 0` no node at all is entered.

  What is NOT modelled: what one node costs in wall-clock time.  Between two polls the engine generates the
  moves of at most two positions, orders them, evaluates one position and probes the table once or twice; the
  model counts these as "2 node entries" and says nothing about their duration (nor about the cost of
  `should_stop()` itself).  The statement "a bounded amount of further work" is therefore a bound in NODES.
-/
import Flounder.Lemmas.PollDense
import Flounder.Props.C07

namespace Flounder.Props.C07
open Flounder Gen SearchState Flounder.Stop Flounder.Dense

/-- the constant of the property: the largest number of node entries between two consecutive polls. -/
def pollGap : Nat := 2

section
variable {P : Type} (G : Game P)

/-! ## the event list is the model's run -/

/-- forgetting the event list gives exactly the model's `findBestMove`. -/
theorem events_faithful (qfuel : Nat) (p : P) (D : Nat) (limit : Limit) (s : SearchState) :
    ((findBestMoveE G qfuel p D limit s).1, (findBestMoveE G qfuel p D limit s).2.1) =
      findBestMove G qfuel p D limit s :=
  findBestMoveE_forget G qfuel p D limit s

/-- the event list is complete and in order: applying the model's own `shouldStop` (for `poll`) and
    `incrementNodes` (for `enter`) to the reset state, event by event, gives the clock fields of the state
    the model's `findBestMove` returns. -/
theorem events_complete (qfuel : Nat) (p : P) (D : Nat) (limit : Limit) (s : SearchState) :
    let t := (findBestMove G qfuel p D limit s).2
    let r := replay (resetState limit s) (events G qfuel p D limit s)
    t.limit = r.limit ∧ t.nodes = r.nodes ∧ t.polls = r.polls ∧ t.stopSeen = r.stopSeen ∧
      t.nodesAfterStop = r.nodesAfterStop := by
  have h := findBestMove_replay G qfuel p D limit s
  unfold clk at h
  simp only [Clock.mk.injEq] at h
  exact h

/-- in particular the list has exactly as many entries as the run entered nodes, -/
theorem count_enter_events (qfuel : Nat) (p : P) (D : Nat) (limit : Limit) (s : SearchState) :
    (events G qfuel p D limit s).count Ev.enter = (findBestMove G qfuel p D limit s).2.nodes := by
  have h := findBestMove_replay G qfuel p D limit s
  rw [clk_replay] at h
  have h1 : (findBestMove G qfuel p D limit s).2.nodes =
      ((clk (resetState limit s)).run (events G qfuel p D limit s)).nodes := by rw [← h]; rfl
  rw [h1]
  have key : ∀ (l : List Ev) (k : Clock), (k.run l).nodes = k.nodes + l.count Ev.enter := by
    intro l
    induction l with
    | nil => intro k; rfl
    | cons e l ih =>
      intro k
      rw [Clock.run_cons, ih, List.count_cons]
      cases e with
      | poll => simp; rfl
      | enter => simp; show k.nodes + 1 + _ = _; omega
  rw [key]
  show _ = 0 + _
  omega

/-- and exactly as many polls as the run executed. -/
theorem count_poll_events (qfuel : Nat) (p : P) (D : Nat) (limit : Limit) (s : SearchState) :
    (events G qfuel p D limit s).count Ev.poll = (findBestMove G qfuel p D limit s).2.polls := by
  have h := findBestMove_replay G qfuel p D limit s
  rw [clk_replay] at h
  have h1 : (findBestMove G qfuel p D limit s).2.polls =
      ((clk (resetState limit s)).run (events G qfuel p D limit s)).polls := by rw [← h]; rfl
  rw [h1]
  have key : ∀ (l : List Ev) (k : Clock), (k.run l).polls = k.polls + l.count Ev.poll := by
    intro l
    induction l with
    | nil => intro k; rfl
    | cons e l ih =>
      intro k
      rw [Clock.run_cons, ih, List.count_cons]
      cases e with
      | poll => simp; show k.polls + 1 + _ = _; omega
      | enter => simp; rfl
  rw [key]
  show _ = 0 + _
  omega

/-! ## D1 — polls are dense -/

/-- **D1, polls are dense.**  In every run of `findBestMove` — every game, position, depth, limit, fuel and prior
    state — every block `w` of consecutive node entries (a contiguous part of the event list that contains no
    poll) has at most `2` elements.  Blocks at the very start (before the first poll) and at the very end
    (after the last poll) are included. -/
theorem polls_dense (qfuel : Nat) (p : P) (D : Nat) (limit : Limit) (s : SearchState)
    (w : List Ev) (hw : w <:+: events G qfuel p D limit s) (hall : ∀ e ∈ w, e = Ev.enter) :
    w.length ≤ pollGap :=
  Nat.le_trans (length_le_maxGap hw hall) (maxGap_events_le G qfuel p D limit s)

/-- the same with the ghost counters: thread `(sincePoll, maxGap)` through the run, starting from `(0, 0)`,
    resetting `sincePoll` at every poll, incrementing it at every node entry and recording its maximum:
    the maximum never exceeds 2 (and neither does the final `sincePoll`). -/
theorem polls_dense_ghost (qfuel : Nat) (p : P) (D : Nat) (limit : Limit) (s : SearchState) :
    (grun (0, 0) (events G qfuel p D limit s)).1 ≤ pollGap ∧
    maxGap (events G qfuel p D limit s) ≤ pollGap := by
  have h := events_within G qfuel p D limit s 0 0
  unfold maxGap pollGap
  exact ⟨by omega, by omega⟩

/-- `maxGap` is exactly the length of the longest poll-free block of entries (so `polls_dense` and
    `polls_dense_ghost` say the same thing). -/
theorem maxGap_is_longest_block (l : List Ev) :
    (∀ w, w <:+: l → (∀ e ∈ w, e = Ev.enter) → w.length ≤ maxGap l) ∧
    (∃ w, w <:+: l ∧ (∀ e ∈ w, e = Ev.enter) ∧ w.length = maxGap l) :=
  ⟨fun _ hw hall => length_le_maxGap hw hall, exists_block_maxGap l⟩

/-- the pieces: a `negamax` call adds at most two entries to the gap that is open when it is called, a
    quiescence call at most one; when they return the gap is at most that much longer than at the call. -/
theorem negamax_gap (qfuel depth : Nat) (p : P) (ply : Nat) (α β : Int) (s : SearchState) (c m : Nat) :
    (grun (c, m) (negamaxE G qfuel depth p ply α β s).2.2).1 ≤ c + 2 ∧
    (grun (c, m) (negamaxE G qfuel depth p ply α β s).2.2).2 ≤ max m (c + 2) := by
  have h := negamaxE_within G qfuel depth p ply α β s c m
  exact ⟨by omega, by omega⟩

theorem quiesce_gap (fuel : Nat) (p : P) (α β : Int) (s : SearchState) (c m : Nat) :
    (grun (c, m) (quiesceE G fuel p α β s).2.2).1 ≤ c + 1 ∧
    (grun (c, m) (quiesceE G fuel p α β s).2.2).2 ≤ max m (c + 1) := by
  have h := quiesceE_within G fuel p α β s c m
  exact ⟨by omega, by omega⟩

/-- the run starts with a poll (or does nothing at all): no node is entered before the first poll. -/
theorem no_node_before_first_poll (qfuel : Nat) (p : P) (D : Nat) (limit : Limit) (s : SearchState) :
    events G qfuel p D limit s = [] ∨ ∃ l, events G qfuel p D limit s = Ev.poll :: l := by
  rw [events_eq]
  cases D with
  | zero => left; rfl
  | succ D =>
    rw [iterateE.eq_2]
    split
    · left; rfl
    · right
      cases (resetState limit s).shouldStop with
      | mk stop s1 =>
        cases stop with
        | true => exact ⟨_, rfl⟩
        | false =>
          simp only [Bool.false_eq_true, ↓reduceIte]
          cases searchPositionE G qfuel p 1 s1 with
          | mk r rest =>
            cases rest with
            | mk s2 l =>
              cases r with
              | none => exact ⟨_, rfl⟩
              | some r =>
                simp only
                cases s2.shouldStop with
                | mk stop2 s3 =>
                  cases stop2 with
                  | true => exact ⟨_, rfl⟩
                  | false => exact ⟨_, rfl⟩

/-! ## D2 — work after the deadline, for every oracle -/

/-- **D2.**  Cut the run at any point: the events `a` have happened, the events `b` are still to come.  If the
    oracle is true at the cut (the deadline has passed: a poll executed in that clock state answers true) then
    at most `2` nodes are entered in the whole remainder `b` of the run: at most 2 before the next poll
    (`polls_dense`), that poll answers true (the oracle is monotone), and no node is entered after it
    (`no_new_work_after_stop`). -/
theorem work_after_deadline (qfuel : Nat) (p : P) (D : Nat) (limit : Limit) (s : SearchState)
    (a b : List Ev) (hab : events G qfuel p D limit s = a ++ b)
    (hd : (replay (resetState limit s) a).shouldStop.1 = true) :
    b.count Ev.enter ≤ pollGap :=
  count_enter_after_deadline G qfuel p D limit s a b hab hd

/-! ## D3 — the node-budget deadline -/

/-- **D3, the property over `Limit.nodes n`.**  The deadline is the entry of the `n`-th node.  Whatever the
    game, the position, the depth, the fuel and the prior state, the run enters at most `n + 1` nodes: at most
    one node after the deadline has passed. -/
theorem node_budget_overshoot (qfuel : Nat) (p : P) (D n : Nat) (s : SearchState) :
    (findBestMove G qfuel p D (.nodes n) s).2.nodes ≤ n + 1 :=
  findBestMove_nodes_le G qfuel p D n s

/-- with a zero budget the first poll precedes every node: nothing is entered. -/
theorem node_budget_zero (qfuel : Nat) (p : P) (D : Nat) (s : SearchState) :
    (findBestMove G qfuel p D (.nodes 0) s).2.nodes = 0 :=
  findBestMove_nodes_zero G qfuel p D s

/-- in terms of the gap constant: `n - 1` nodes were seen by the last poll that answered false, at most
    `pollGap` more are entered before the next poll, none after it. -/
theorem node_budget_overshoot' (qfuel : Nat) (p : P) (D n : Nat) (s : SearchState) :
    (findBestMove G qfuel p D (.nodes n) s).2.nodes ≤ (n - 1) + pollGap := by
  cases n with
  | zero => rw [node_budget_zero]; exact Nat.zero_le _
  | succ n => have := node_budget_overshoot G qfuel p D (n + 1) s; unfold pollGap; omega

end

/-! ## the constants are exact: a toy run -/

def toyMove : Move := ⟨0, 1, .pawn, .quiet⟩

/-- position 0 has one move, to position 1; position 1 is quiet: no moves, no captures, not in check. -/
def toy : Game Nat where
  moves := fun p => if p = 0 then [toyMove] else []
  qmoves := fun _ => []
  play := fun p _ => p + 1
  inCheck := fun _ => false
  eval := fun _ => 0
  hash := fun p => p.toUInt64
  pieceAt := fun _ _ => none

theorem retrieve_empty (k : UInt64) : ({} : TT).retrieve k = none := by
  simp [TT.retrieve]

/-- the events of the depth-1 search of the toy position from a fresh searcher: poll (iteration), enter (root),
    poll (move loop), enter (child, depth 0), enter (its quiescence node), poll (after the loop), poll
    (iteration).  The same list under no limit, a node budget of 2, and a clock that expires right after the
    second poll. -/
theorem toy_events (limit : Limit) (h : limit = .none ∨ limit = .nodes 2 ∨ limit = .polls 2) :
    events toy 1 0 1 limit {} = [.poll, .enter, .poll, .enter, .enter, .poll, .poll] := by
  rcases h with h | h | h <;> subst h <;>
  simp [events, findBestMoveE, iterateE, searchPositionE, negamaxE, negamaxLoopE, quiesceE, quiesceLoopE,
    probeTT, retrieve_empty, resetState, shouldStop, incrementNodes, ageHistory, isRepetition, toy, orderMoves,
    orderCaptures, NEGATIVE_INFINITY, INFINITY, toyMove, Int.max_def, determineBound]

/-- **D1 is tight**: the toy run has a gap of exactly 2 — the bound of `polls_dense` cannot be lowered. -/
theorem polls_dense_tight :
    maxGap (events toy 1 0 1 .none {}) = pollGap ∧
    [Ev.enter, Ev.enter] <:+: events toy 1 0 1 .none {} := by
  rw [toy_events .none (Or.inl rfl)]
  exact ⟨rfl, [.poll, .enter, .poll], [.poll, .poll], rfl⟩

/-- `polls_dense` with 1 in place of 2 is false. -/
theorem polls_dense_not_one :
    ¬ ∀ (P : Type) (G : Game P) (qfuel : Nat) (p : P) (D : Nat) (limit : Limit) (s : SearchState)
        (w : List Ev), w <:+: events G qfuel p D limit s → (∀ e ∈ w, e = Ev.enter) → w.length ≤ 1 := by
  intro h
  have := h Nat toy 1 0 1 .none {} [.enter, .enter] polls_dense_tight.2
    (fun e he => by
      rcases List.mem_cons.1 he with h | h
      · exact h
      · exact List.mem_singleton.1 h)
  exact absurd this (by decide)

/-- **D2 is tight** (and its hypotheses are satisfiable): under `Limit.polls 2` the oracle is true right after
    the second poll; two nodes are entered after that point. -/
theorem work_after_deadline_tight :
    events toy 1 0 1 (.polls 2) {} = [.poll, .enter, .poll] ++ [.enter, .enter, .poll, .poll] ∧
    (replay (resetState (.polls 2) {}) [.poll, .enter, .poll]).shouldStop.1 = true ∧
    ([Ev.enter, .enter, .poll, .poll] : List Ev).count Ev.enter = pollGap := by
  refine ⟨toy_events _ (Or.inr (Or.inr rfl)), ?_, by decide⟩
  rw [shouldStop_fst_eq_clk, clk_replay]
  decide

/-- **D3 is tight** (`n = 2`): the toy run under `Limit.nodes 2` enters `3 = n + 1` nodes. -/
theorem node_budget_overshoot_tight :
    (findBestMove toy 1 0 1 (.nodes 2) {}).2.nodes = 2 + 1 := by
  rw [← count_enter_events, toy_events _ (Or.inr (Or.inl rfl))]
  decide

end Flounder.Props.C07
