/-
  C10 — the attack and line tables are exact.

  * `rook_lookup_eq_walk` / `bishop_lookup_eq_walk`: for every square and EVERY 64-bit occupancy the
    magic-bitboard lookup equals the ray walk of `generate_*_attack_mask(.., block = true)`.
  * `walk_eq_sliderReach`: that ray walk is the geometric slider reach of Spec/Geometry.
  * `lookup_exact : Spec.LookupExact LookupTable.init` — rook, bishop, queen, knight, king, segment, line.

  Finite parts, all evaluated by the kernel (`decide +kernel`, `Nat` arithmetic only) in
  Flounder/Lemmas/MagicCheck/*: all 107 648 mask subsets (index in range, no destructive collision,
  relevant-bit counts = popcount of the mask), ray geometry for 64 × 64 × 2 pairs, leaper tables for
  64 × 64 × 2 pairs, between tables for 64³ × 2 triples.  Symbolic parts (every `occ : UInt64`):
  Flounder/Lemmas/MagicSound (ray decomposition, subset enumeration by `occupancyBoard`, table build,
  collision table), MagicGeom, LookupLines, Leapers.
-/
import Flounder.Lemmas.MagicSound
import Flounder.Lemmas.MagicGeom
import Flounder.Lemmas.LookupLines
import Flounder.Lemmas.Leapers
import Flounder.Lemmas.MagicCheck.All
import Flounder.Lemmas.MagicCheck.GeomR
import Flounder.Lemmas.MagicCheck.GeomB
import Flounder.Lemmas.MagicCheck.Leapers
import Flounder.Lemmas.MagicCheck.LinesAll
import Flounder.Spec.Geometry

namespace Flounder.Props.C10
open Flounder Flounder.MagicProof Flounder.Spec

theorem getD_map_range {α : Type} (f : Nat → α) (d : α) (sq : Nat) (h : sq < 64) :
    (((List.range 64).map f).toArray).getD sq d = f sq := by
  simp [Array.getD, h]

theorem foldl_set_size (L : List Nat) (f : Nat → Nat) (g : Nat → UInt64) (t0 : Array UInt64) :
    (L.foldl (fun t i => t.setIfInBounds (f i) (g i)) t0).size = t0.size := by
  induction L generalizing t0 with
  | nil => rfl
  | cons a L ih => rw [List.foldl_cons, ih, Array.size_setIfInBounds]

/-! ### lookup = walk (main theorems) -/

/-- `get_rook_attacks` is the blocked ray walk, for every occupancy. -/
theorem rook_lookup_eq_walk (sq : Nat) (h : sq < 64) (occ : UInt64) :
    Magic.new.getRookAttacks sq occ = rookAttackMask sq occ true := by
  unfold Magic.getRookAttacks Magic.new
  simp only [getD_map_range _ _ sq h]
  exact checkSquare_sound false sq (Check.rook_all sq h) occ

/-- `get_bishop_attacks` is the blocked ray walk, for every occupancy. -/
theorem bishop_lookup_eq_walk (sq : Nat) (h : sq < 64) (occ : UInt64) :
    Magic.new.getBishopAttacks sq occ = bishopAttackMask sq occ true := by
  unfold Magic.getBishopAttacks Magic.new
  simp only [getD_map_range _ _ sq h]
  exact checkSquare_sound true sq (Check.bishop_all sq h) occ

/-- bits of the occupancy outside the relevant mask never matter for the walk. -/
theorem walk_mask_irrelevant (b : Bool) (sq : Nat) (h : sq < 64) (occ : UInt64) :
    attackMask b sq occ true = attackMask b sq (occ &&& attackMask b sq 0 false) true := by
  have hc : checkSquare b sq = true := by
    cases b
    · exact Check.rook_all sq h
    · exact Check.bishop_all sq h
  rw [← checkSquare_sound b sq hc occ, ← checkSquare_sound b sq hc (occ &&& attackMask b sq 0 false),
    and_mask_idem]

/-- the table build never writes out of range (the Rust code would panic there). -/
theorem build_index_in_range (b : Bool) (sq : Nat) (h : sq < 64) (occ : UInt64) :
    magicIndex b sq (occ &&& attackMask b sq 0 false) < (buildSquareTable b sq).size := by
  have hc : checkSquare b sq = true := by
    cases b
    · exact Check.rook_all sq h
    · exact Check.bishop_all sq h
  obtain ⟨_, _, hrun⟩ := checkSquare_iff b sq hc
  have hgood := run_good _ _ _ _ (pairsOf_bound b sq) hrun
  have hsz : (buildSquareTable b sq).size = tableSize b := by
    unfold buildSquareTable
    simp only [foldl_set_size, Array.size_replicate]
  rw [hsz, magicIndex_eq]
  exact (hgood _ (mem_pairsOf b sq hc occ)).1

/-- every write of `init_slider_attacks` is in range (no Rust index panic during the build). -/
theorem build_writes_in_range (b : Bool) (sq : Nat) (h : sq < 64) (i : Nat) :
    magicIndex b sq (occupancyBoard i (attackMask b sq 0 false)) < tableSize b := by
  have hsub : occupancyBoard i (attackMask b sq 0 false) &&& attackMask b sq 0 false =
      occupancyBoard i (attackMask b sq 0 false) := by
    apply bb_ext
    intro s hs
    rw [hasSq_and _ _ _ hs]
    cases hj : hasSq (occupancyBoard i (attackMask b sq 0 false)) s
    · rfl
    · rw [occupancyBoard_subset i _ s hs hj]; rfl
  have := build_index_in_range b sq h (occupancyBoard i (attackMask b sq 0 false))
  rw [hsub] at this
  have hsz : (buildSquareTable b sq).size = tableSize b := by
    unfold buildSquareTable
    simp only [foldl_set_size, Array.size_replicate]
  rw [hsz] at this
  exact this

/-! ### walk = geometric reach -/

/-- the blocked ray walk reaches exactly the aligned squares with nothing strictly in between. -/
theorem walk_eq_sliderReach (diag : Bool) (s t : Nat) (hs : s < 64) (ht : t < 64) (occ : UInt64) :
    hasSq (attackMask diag s occ true) t = sliderReach diag occ s t := by
  have hall : (List.range 64).all (geomCheckSq diag) = true := by
    cases diag
    · exact Check.geom_rook
    · exact Check.geom_bishop
  have hsq := List.all_eq_true.mp hall s (List.mem_range.mpr hs)
  unfold geomCheckSq at hsq
  rw [Bool.and_eq_true] at hsq
  exact geom_sound diag s t ht hsq.1 (List.all_eq_true.mp hsq.2 t (List.mem_range.mpr ht)) occ

theorem rook_walk_eq_sliderReach (s t : Nat) (hs : s < 64) (ht : t < 64) (occ : UInt64) :
    hasSq (rookAttackMask s occ true) t = sliderReach false occ s t :=
  walk_eq_sliderReach false s t hs ht occ

theorem bishop_walk_eq_sliderReach (s t : Nat) (hs : s < 64) (ht : t < 64) (occ : UInt64) :
    hasSq (bishopAttackMask s occ true) t = sliderReach true occ s t :=
  walk_eq_sliderReach true s t hs ht occ

theorem rook_lookup_exact (s t : Nat) (hs : s < 64) (ht : t < 64) (occ : UInt64) :
    hasSq (Magic.new.getRookAttacks s occ) t = sliderReach false occ s t := by
  rw [rook_lookup_eq_walk s hs]; exact rook_walk_eq_sliderReach s t hs ht occ

theorem bishop_lookup_exact (s t : Nat) (hs : s < 64) (ht : t < 64) (occ : UInt64) :
    hasSq (Magic.new.getBishopAttacks s occ) t = sliderReach true occ s t := by
  rw [bishop_lookup_eq_walk s hs]; exact bishop_walk_eq_sliderReach s t hs ht occ

/-! ### leapers -/

theorem knight_table_exact (s t : Nat) (hs : s < 64) (ht : t < 64) :
    hasSq (knightAttacksGen s) t = knightStep s t :=
  leaperCheck_sound _ _ Check.knight_ok s t hs ht

theorem king_table_exact (s t : Nat) (hs : s < 64) (ht : t < 64) :
    hasSq (kingAttacksGen s) t = kingStep s t :=
  leaperCheck_sound _ _ Check.king_ok s t hs ht

/-! ### between tables -/

theorem inclusive_exact (s t u : Nat) (hs : s < 64) (ht : t < 64) (hu : u < 64) :
    hasSq (inclusiveBetweenGen Magic.new s t) u = onSegment s t u := by
  rw [inclusiveBetweenGen_eq, hasSq_lineCore _ _ _ _ s t u hs ht hu]
  simp only [rook_lookup_exact s _ hs ht, rook_lookup_exact s _ hs hu, rook_lookup_exact t _ ht hu,
    bishop_lookup_exact s _ hs ht, bishop_lookup_exact s _ hs hu, bishop_lookup_exact t _ ht hu,
    sliderReach_eq_reachN, sqBB_toNat]
  have h := Check.seg_all s hs
  unfold segCheck at h
  simp only [List.all_eq_true, List.mem_range, beq_iff_eq] at h
  exact h t ht u hu

theorem exclusive_exact (s t u : Nat) (hs : s < 64) (ht : t < 64) (hu : u < 64) :
    hasSq (exclusiveBetweenGen Magic.new s t) u = onLine s t u := by
  rw [exclusiveBetweenGen_eq, hasSq_lineCore _ _ _ _ s t u hs ht hu]
  simp only [rook_lookup_exact s _ hs ht, rook_lookup_exact s _ hs hu, rook_lookup_exact t _ ht hu,
    bishop_lookup_exact s _ hs ht, bishop_lookup_exact s _ hs hu, bishop_lookup_exact t _ ht hu,
    sliderReach_eq_reachN]
  have h := Check.line_all s hs
  unfold lineCheck at h
  simp only [List.all_eq_true, List.mem_range, beq_iff_eq] at h
  exact h t ht u hu

/-! ### the interface theorem -/

/-- **C10**: the tables built by `LookupTable::init()` are exact. -/
theorem lookup_exact : LookupExact LookupTable.init where
  rook := fun s t occ hs ht => rook_lookup_exact s t hs ht occ
  bishop := fun s t occ hs ht => bishop_lookup_exact s t hs ht occ
  queen := fun s t occ hs ht => by
    show hasSq (Magic.new.getBishopAttacks s occ ||| Magic.new.getRookAttacks s occ) t = _
    rw [hasSq_or _ _ _ ht, rook_lookup_exact s t hs ht, bishop_lookup_exact s t hs ht, Bool.or_comm]
  knight := fun s t hs ht => by
    show hasSq ((((List.range 64).map knightAttacksGen).toArray).getD s 0) t = _
    rw [getD_map_range _ _ s hs]; exact knight_table_exact s t hs ht
  king := fun s t hs ht => by
    show hasSq ((((List.range 64).map kingAttacksGen).toArray).getD s 0) t = _
    rw [getD_map_range _ _ s hs]; exact king_table_exact s t hs ht
  segment := fun s t u hs ht hu => by
    show hasSq (((((List.range 64).map fun f => ((List.range 64).map fun t =>
      inclusiveBetweenGen Magic.new f t).toArray).toArray).getD s #[]).getD t 0) u = _
    rw [getD_map_range _ _ s hs, getD_map_range _ _ t ht]; exact inclusive_exact s t u hs ht hu
  line := fun s t u hs ht hu => by
    show hasSq (((((List.range 64).map fun f => ((List.range 64).map fun t =>
      exclusiveBetweenGen Magic.new f t).toArray).toArray).getD s #[]).getD t 0) u = _
    rw [getD_map_range _ _ s hs, getD_map_range _ _ t ht]; exact exclusive_exact s t u hs ht hu

/-- `queen = rook ∪ bishop` at the level of bitboards. -/
theorem queen_eq_union (s : Nat) (occ : UInt64) :
    LookupTable.init.slidingMoves s occ .queen =
      LookupTable.init.slidingMoves s occ .bishop ||| LookupTable.init.slidingMoves s occ .rook := rfl

end Flounder.Props.C10
