/-
  C10 — Attack and line tables are exact for every square and occupancy.
  FULL STATEMENT: `Spec.LookupExact LookupTable.init` (Spec/Geometry.lean).  Interim obligations that are
  already discharged are below; the per-square kernel enumeration is in Lemmas/Magic* when present.
-/
import Flounder.Spec.Geometry

namespace Flounder.Props.C10
open Flounder Gen

/-- FULL STATEMENT of the property for the model. -/
def TablesExact : Prop := Spec.LookupExact LookupTable.init

/-- every magic index fits its table: `index < 2^bits ≤ table size` for all 64 squares, both pieces
    (re-decided whenever a relevant-bits entry or a table size in magic.rs changes). -/
theorem index_fits_table :
    (∀ sq, sq < 64 → 2 ^ ROOK_RELEVANT_BITS.getD sq 0 ≤ ROOK_TABLE_SIZE) ∧
    (∀ sq, sq < 64 → 2 ^ BISHOP_RELEVANT_BITS.getD sq 0 ≤ BISHOP_TABLE_SIZE) := by
  decide

/-- the shift amount `64 - bits` is a legal u64 shift (0 < bits ≤ 12). -/
theorem shift_amount_ok :
    (∀ sq, sq < 64 → 0 < ROOK_RELEVANT_BITS.getD sq 0 ∧ ROOK_RELEVANT_BITS.getD sq 0 ≤ 12) ∧
    (∀ sq, sq < 64 → 0 < BISHOP_RELEVANT_BITS.getD sq 0 ∧ BISHOP_RELEVANT_BITS.getD sq 0 ≤ 9) := by
  decide

/-- queen lookups are the union of the rook and bishop lookups. -/
theorem queen_is_union (l : LookupTable) (s : Nat) (occ : UInt64) :
    l.slidingMoves s occ .queen = l.slidingMoves s occ .bishop ||| l.slidingMoves s occ .rook := rfl

end Flounder.Props.C10
