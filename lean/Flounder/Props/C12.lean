/-
  C12 — Thinking time is taken from the mover's own clock and fits in it.
-/
import Flounder.Model.Go

namespace Flounder.Props.C12
open Flounder Gen

/-- the margin constant in the source is at least one millisecond (re-decided whenever uci.rs changes). -/
theorem margin_pos : 1 ≤ GO_MARGIN := by decide

/-- **The budget never exceeds the mover's remaining time** — all clock and increment values. -/
theorem budget_le (t inc : Nat) : allocate t inc ≤ t := by
  unfold allocate
  exact Nat.le_trans (Nat.min_le_right _ _) (Nat.sub_le _ _)

/-- **and is strictly below it whenever any time remains.** -/
theorem budget_lt (t inc : Nat) (h : 0 < t) : allocate t inc < t := by
  unfold allocate
  have := margin_pos
  exact Nat.lt_of_le_of_lt (Nat.min_le_right _ _) (by omega)

/-- the `u64` addition `base_time + increment` cannot overflow for clocks and increments below 2^62 ms
    (about 146 million years), so modelling milliseconds by `Nat` is faithful on the property's range. -/
theorem no_u64_overflow (t inc : Nat) (ht : t < 2^62) (hi : inc < 2^62) :
    (t - GO_RESERVE) / GO_DIVISOR + inc < 2^64 := by
  have h1 : (t - GO_RESERVE) / GO_DIVISOR ≤ t := Nat.le_trans (Nat.div_le_self _ _) (Nat.sub_le _ _)
  omega

/-- the budget computed by `calculate_move_time` reads nothing but the mover's own two values out of
    the scanned clocks (white). -/
theorem budget_white_own (parts : List Tok) (i : Nat) :
    calculateMoveTime .white parts i =
      allocate (scanClocks (parts.length + 1) parts i {}).wtime (scanClocks (parts.length + 1) parts i {}).winc := rfl

theorem budget_black_own (parts : List Tok) (i : Nat) :
    calculateMoveTime .black parts i =
      allocate (scanClocks (parts.length + 1) parts i {}).btime (scanClocks (parts.length + 1) parts i {}).binc := rfl

/-- **every** budget the clock branch can produce fits the clock value it was computed from. -/
theorem calculated_budget_fits (side : Color) (parts : List Tok) (i : Nat) :
    let c := scanClocks (parts.length + 1) parts i {}
    let own := match side with | .white => c.wtime | .black => c.btime
    calculateMoveTime side parts i ≤ own ∧ (0 < own → calculateMoveTime side parts i < own) := by
  cases side <;> exact ⟨budget_le _ _, budget_lt _ _⟩

/-! Non-vacuity / regression witnesses (the pre-fix defect: `go wtime 1000 winc 3000` budgeted 3000 ms). -/
def toks (l : List String) : List Tok := l.map String.toList

example : (goParams .white [kwGo, kwWtime, ['1','0','0','0'], kwWinc, ['3','0','0','0']]).timeLimit = some 999 := by decide
example : (goParams .black [kwGo, kwBinc, ['7'], kwWtime, ['1'], kwBtime, ['6','5','0','0','0'], kwWinc, ['9']]).timeLimit
    = some 2407 := by decide
example : (goParams .white [kwGo, kwWtime, ['0'], kwBtime, ['1','0','0']]).timeLimit = some 0 := by decide

end Flounder.Props.C12
