/-
  C06, the full statement — an interrupted search never spoils what later searches conclude.

  "A search that is interrupted because its time budget ran out must not change what later searches
   conclude: after an interruption at any point, a later completed search of the same position still
   reports the true minimax value, and the engine's record of the game history is exactly as it was before
   the interrupted search."

  Props/C06.lean shows WHAT an interrupted search does not do (the repetition stack is balanced, no store
  after a poll answered `true`).  This file shows what that is good for:

    1. `negamax_preserves_ttsound`      every run of `negamax` — completed, interrupted at any poll, out of
                                        quiescence fuel, any `Limit` — leaves a sound table sound;
    2. `findBestMove_preserves_ttsound` the same for a whole `find_best_move` (class view, because
                                        `iterate` caches root results as `.exact`, see Props/C05.lean), and
                                        the repetition stack is `[]` again;
    3. `later_search_true_value`        THE C06 THEOREM: after ANY finite sequence of searches, each of them
                                        completed or interrupted anywhere, a completed search reports the
                                        minimax value (conclusion of `C05.find_best_move_value_ranked`) and
                                        the repetition stack is still `[]`;
    4. `toy_negamax_preserves_ttsound`, `toy_findBestMove_preserves_ttsound`
                                        non-vacuity of 1 and 2 on `SearchRanked.toyGame`, for EVERY limit;
       `toy_later_search_true_value`    non-vacuity of 3 on `SearchRanked.toyGame`: a zero-budget search and a
                                        search interrupted in the middle of its first iteration
                                        (`Limit.polls 2`: the root's post-loop poll answers `true`), then a
                                        completed depth-3 search: every hypothesis discharged;
    5. Props/C06Guard.lean              why the guard matters: the engine WITHOUT the post-loop poll (the
                                        pinned commit before its `fix:`) leaves a false record behind and a
                                        later completed search reports a wrong value.

  Hypotheses, as everywhere in C05: positions in one depth-ranked family `S` (`S D p` for a search of `p`
  to depth `D`), hash injective on `Ranked.U S`, reference values exist, and no DEEPER record is reused
  (`deeperHits` unchanged; the counter is monotone, so "unchanged over the whole sequence" = "unchanged in
  every search of the sequence").
-/
import Flounder.Lemmas.SearchInterrupted
import Flounder.Lemmas.SearchSeen
import Flounder.Props.C05
import Flounder.Props.C06
import Flounder.Props.SearchRanked

namespace Flounder.Props.C06Full
open Flounder Gen Flounder.Search

section
variable {P : Type} (G : Game P)

/-! ## 1. `negamax`: the table stays sound on every run -/

/-- **negamax_preserves_ttsound**, for a start state satisfying the monotone-oracle invariant
    `Stop.StopMono` ("if some poll has answered `true`, a poll now answers `true`"; it holds in every state
    with `stopSeen = false`, hence after `find_best_move`'s reset, and is preserved by every step of the
    search).  View `c` as in `negamax_ok_ranked`.  NO assumption on how the run ends. -/
theorem negamax_preserves_ttsound_of_stopMono {c : Int → Int} (hc : Clamp c) (S : Nat → P → Prop)
    (hr : Ranked G S) (hinj : HashInj G (Ranked.U S)) (qfuel qf d : Nat) (p : P) (ply : Nat)
    (α β v : Int) (s : SearchState)
    (hα : NEGATIVE_INFINITY ≤ α) (hαβ : α < β) (hβ : β ≤ INFINITY) (hSp : S d p)
    (hT : TTSound G c (Ranked.U S) qf s.tt) (hR : RepOK s) (hM : Stop.StopMono s)
    (hv : Spec.V G qf d p = some v) (hq : qf ≤ qfuel)
    (hdh : (negamax G qfuel d p ply α β s).2.deeperHits = s.deeperHits) :
    TTSound G c (Ranked.U S) qf (negamax G qfuel d p ply α β s).2.tt :=
  negamax_ttsound G hc hr hinj qfuel hq d p ply α β s v hSp hT hR hM hv hα hαβ hβ hdh

/-- **negamax_preserves_ttsound.**  For EVERY limit, EVERY start state and EVERY outcome (completed,
    interrupted at any poll, out of quiescence fuel): if the table is sound, the repetition stack has no
    double entry, the node lies in the family, the window lies inside the root window, the reference value
    exists, the hash is injective on the family and no deeper record is reused during the run, then the
    table is sound afterwards.  (`StopMono` is not needed as a hypothesis: the search never reads `stopSeen`,
    `negamax_seen_irrelevant`, so the run from `s` stores what the run from `s` with the flag cleared
    stores.) -/
theorem negamax_preserves_ttsound {c : Int → Int} (hc : Clamp c) (S : Nat → P → Prop)
    (hr : Ranked G S) (hinj : HashInj G (Ranked.U S)) (qfuel qf d : Nat) (p : P) (ply : Nat)
    (α β v : Int) (s : SearchState)
    (hα : NEGATIVE_INFINITY ≤ α) (hαβ : α < β) (hβ : β ≤ INFINITY) (hSp : S d p)
    (hT : TTSound G c (Ranked.U S) qf s.tt) (hR : RepOK s)
    (hv : Spec.V G qf d p = some v) (hq : qf ≤ qfuel)
    (hdh : (negamax G qfuel d p ply α β s).2.deeperHits = s.deeperHits) :
    TTSound G c (Ranked.U S) qf (negamax G qfuel d p ply α β s).2.tt := by
  obtain ⟨_, h2, h3, _⟩ := negamax_seen_irrelevant G qfuel d p ply α β s
  rw [h2]
  exact negamax_preserves_ttsound_of_stopMono G hc S hr hinj qfuel qf d p ply α β v
    (withSN s false s.nodesAfterStop) hα hαβ hβ hSp hT (hR.of_rep rfl) (Stop.StopMono.of_not_seen rfl) hv hq
    (by rw [← h3]; exact hdh)

/-- the strengthened induction in one statement: (a) the table stays sound on every run, and (b) if the
    final `stopSeen` is false the completed-run conclusion of `negamax_ok_ranked` holds in addition. -/
theorem negamax_sound_and_contract {c : Int → Int} (hc : Clamp c) (S : Nat → P → Prop)
    (hr : Ranked G S) (hinj : HashInj G (Ranked.U S)) (qfuel qf d : Nat) (p : P) (ply : Nat)
    (α β v : Int) (s : SearchState)
    (hα : NEGATIVE_INFINITY ≤ α) (hαβ : α < β) (hβ : β ≤ INFINITY) (hSp : S d p)
    (hT : TTSound G c (Ranked.U S) qf s.tt) (hR : RepOK s) (hs : s.stopSeen = false)
    (hv : Spec.V G qf d p = some v) (hq : qf ≤ qfuel)
    (hdh : (negamax G qfuel d p ply α β s).2.deeperHits = s.deeperHits) :
    TTSound G c (Ranked.U S) qf (negamax G qfuel d p ply α β s).2.tt ∧
    ((negamax G qfuel d p ply α β s).2.stopSeen = false →
      ∃ r, (negamax G qfuel d p ply α β s).1 = some r ∧ ResultOK G c qf d p α β v r) := by
  refine ⟨negamax_ttsound G hc hr hinj qfuel hq d p ply α β s v hSp hT hR (Stop.StopMono.of_not_seen hs) hv
    hα hαβ hβ hdh, fun hfin => ?_⟩
  obtain ⟨r, h1, h2, _⟩ := negamax_ok_ranked G hc hr hinj qfuel hq d p ply α β s v hSp hT hR hv hα hαβ hβ hs
    hfin hdh
  exact ⟨r, h1, h2⟩

/-! ## 2. `find_best_move`: the table stays sound, the repetition stack is empty again -/

/-- **findBestMove_preserves_ttsound** (class view): ANY limit, ANY outcome. -/
theorem findBestMove_preserves_ttsound (S : Nat → P → Prop) (hr : Ranked G S)
    (hinj : HashInj G (Ranked.U S)) (qfuel qf : Nat) (hq : qf ≤ qfuel) (p : P) (D : Nat) (hSp : S D p)
    (limit : Limit) (s : SearchState)
    (hV : ∀ d, 1 ≤ d → d ≤ D → ∃ w, Spec.V G qf d p = some w)
    (hT : C05.TTSoundClass G (Ranked.U S) qf s.tt) (hrep : s.rep = [])
    (hdh : (findBestMove G qfuel p D limit s).2.deeperHits = s.deeperHits) :
    C05.TTSoundClass G (Ranked.U S) qf (findBestMove G qfuel p D limit s).2.tt ∧
    (findBestMove G qfuel p D limit s).2.rep = [] :=
  findBestMove_ttsound G clamp_clampClass hr hinj qfuel hq p D hSp limit s hV (rootExact_clampClass G 1 D p) hT hrep hdh

/-- strict view: when the value of every iteration lies strictly inside the root window (the hypothesis
    of `C05.find_best_move_exact`), a strictly sound table stays strictly sound on every run. -/
theorem findBestMove_preserves_ttsound_strict (S : Nat → P → Prop) (hr : Ranked G S)
    (hinj : HashInj G (Ranked.U S)) (qfuel qf : Nat) (hq : qf ≤ qfuel) (p : P) (D : Nat) (hSp : S D p)
    (limit : Limit) (s : SearchState)
    (hV : ∀ d, 1 ≤ d → d ≤ D → ∃ w, Spec.V G qf d p = some w)
    (hin : ∀ d w, 1 ≤ d → d ≤ D → Spec.V G qf d p = some w → NEGATIVE_INFINITY < w ∧ w < INFINITY)
    (hT : C05.TTSoundStrict G (Ranked.U S) qf s.tt) (hrep : s.rep = [])
    (hdh : (findBestMove G qfuel p D limit s).2.deeperHits = s.deeperHits) :
    C05.TTSoundStrict G (Ranked.U S) qf (findBestMove G qfuel p D limit s).2.tt ∧
    (findBestMove G qfuel p D limit s).2.rep = [] := by
  have hRE : RootExact G id qf 1 D p := by
    intro d w h1 h2 hw r hc
    have := hin d w h1 h2 hw
    simp only [id] at hc ⊢
    by_cases a : r ≤ NEGATIVE_INFINITY
    · have := hc.1 a; omega
    · by_cases b : r ≥ INFINITY
      · have := hc.2.1 b; omega
      · exact hc.2.2 (by omega) (by omega)
  exact findBestMove_ttsound G clamp_id hr hinj qfuel hq p D hSp limit s hV hRE hT hrep hdh

/-! ## 3. the C06 theorem -/

/-- one call of `find_best_move`: position, maximal depth, deadline oracle. -/
structure SearchCall (P : Type) where
  pos : P
  depth : Nat
  limit : Limit

/-- the searcher's state after a sequence of `find_best_move` calls (the results are thrown away: what
    matters is what the calls leave behind). -/
def runSearches (qfuel : Nat) : List (SearchCall P) → SearchState → SearchState
  | [], s => s
  | j :: rest, s => runSearches qfuel rest (findBestMove G qfuel j.pos j.depth j.limit s).2

theorem runSearches_deeperHits_mono (qfuel : Nat) (js : List (SearchCall P)) (s : SearchState) :
    s.deeperHits ≤ (runSearches G qfuel js s).deeperHits := by
  induction js generalizing s with
  | nil => exact Nat.le_refl _
  | cons j rest ih =>
    exact Nat.le_trans (C05.findBestMove_deeperHits_mono G qfuel j.pos j.depth j.limit s) (ih _)

/-- **the engine's record of the game history is exactly as it was**, after any sequence of searches,
    unconditionally (every game, limit, state, fuel outcome). -/
theorem runSearches_rep (qfuel : Nat) (js : List (SearchCall P)) (s : SearchState) :
    (runSearches G qfuel js s).rep = s.rep := by
  induction js generalizing s with
  | nil => rfl
  | cons j rest ih =>
    exact (ih _).trans (C06.repetition_balanced_findBestMove G qfuel j.pos j.depth j.limit s)

/-- any sequence of searches — each completed or interrupted anywhere — keeps the table sound. -/
theorem runSearches_preserves_ttsound (S : Nat → P → Prop) (hr : Ranked G S)
    (hinj : HashInj G (Ranked.U S)) (qfuel qf : Nat) (hq : qf ≤ qfuel) :
    ∀ (js : List (SearchCall P)) (s : SearchState),
      (∀ j ∈ js, S j.depth j.pos ∧ ∀ d, 1 ≤ d → d ≤ j.depth → ∃ w, Spec.V G qf d j.pos = some w) →
      C05.TTSoundClass G (Ranked.U S) qf s.tt → s.rep = [] →
      (runSearches G qfuel js s).deeperHits = s.deeperHits →
      C05.TTSoundClass G (Ranked.U S) qf (runSearches G qfuel js s).tt ∧
      (runSearches G qfuel js s).rep = [] := by
  intro js
  induction js with
  | nil => intro s _ hT hrep _; exact ⟨hT, hrep⟩
  | cons j rest ih =>
    intro s hjs hT hrep hdh
    have h1 := C05.findBestMove_deeperHits_mono G qfuel j.pos j.depth j.limit s
    have h2 := runSearches_deeperHits_mono G qfuel rest (findBestMove G qfuel j.pos j.depth j.limit s).2
    have hdh' : (runSearches G qfuel rest (findBestMove G qfuel j.pos j.depth j.limit s).2).deeperHits =
        s.deeperHits := hdh
    obtain ⟨hSj, hVj⟩ := hjs j List.mem_cons_self
    obtain ⟨hT1, hrep1⟩ := findBestMove_preserves_ttsound G S hr hinj qfuel qf hq j.pos j.depth hSj j.limit s
      hVj hT hrep (by omega)
    exact ih _ (fun j' hj' => hjs j' (List.mem_cons_of_mem _ hj')) hT1 hrep1 (by omega)

/-- **C06 — later_search_true_value.**  Start from a class-sound table (e.g. the fresh one) and an empty
    repetition stack.  Run ANY finite list `earlier` of searches `(pᵢ, Dᵢ, limitᵢ)` — each of them may
    complete, be interrupted at any poll by its deadline, or run out of quiescence fuel.  Then run a search
    of `(p, D, limit)` that completes (`stopSeen = false` at its end).  If no deeper record was reused
    anywhere (the monotone counter `deeperHits` is the same at the very end as at the very beginning), the
    completed search answers exactly as `C05.find_best_move_value_ranked` says: its score is the depth-`D`
    minimax value up to the won/lost class, EQUAL to it when the value lies strictly inside the window; its
    move is a legal, value-attaining move; the table is still sound — and the repetition stack is `[]`. -/
theorem later_search_true_value (S : Nat → P → Prop) (hr : Ranked G S)
    (hinj : HashInj G (Ranked.U S)) (qfuel qf : Nat) (hq : qf ≤ qfuel)
    (earlier : List (SearchCall P)) (s₀ : SearchState)
    (hT : C05.TTSoundClass G (Ranked.U S) qf s₀.tt) (hrep : s₀.rep = [])
    (hE : ∀ j ∈ earlier, S j.depth j.pos ∧ ∀ d, 1 ≤ d → d ≤ j.depth → ∃ w, Spec.V G qf d j.pos = some w)
    (p : P) (D : Nat) (limit : Limit) (hSp : S D p) (hD : 1 ≤ D) (v : Int)
    (hV : ∀ d, 1 ≤ d → d ≤ D → ∃ w, Spec.V G qf d p = some w) (hv : Spec.V G qf D p = some v)
    (ro : Option (Int × Option Move)) (s' : SearchState)
    (hrun : findBestMove G qfuel p D limit (runSearches G qfuel earlier s₀) = (ro, s'))
    (hfin : s'.stopSeen = false) (hdh : s'.deeperHits = s₀.deeperHits) :
    ∃ score mv, ro = some (score, mv) ∧
      Spec.clampClass score = Spec.clampClass v ∧
      (NEGATIVE_INFINITY < v → v < INFINITY → score = v) ∧
      (G.moves p ≠ [] → ∃ m, mv = some m ∧ m ∈ G.moves p) ∧
      (NEGATIVE_INFINITY < v → v < INFINITY → ∀ k m x, D = k + 1 → mv = some m →
        Spec.V G qf k (G.play p m) = some x → -x = v) ∧
      C05.TTSoundClass G (Ranked.U S) qf s'.tt ∧
      s'.rep = [] := by
  have h1 := runSearches_deeperHits_mono G qfuel earlier s₀
  have h2 := C05.findBestMove_deeperHits_mono G qfuel p D limit (runSearches G qfuel earlier s₀)
  rw [hrun] at h2
  simp only at h2
  obtain ⟨hT1, hrep1⟩ := runSearches_preserves_ttsound G S hr hinj qfuel qf hq earlier s₀ hE hT hrep
    (by omega)
  obtain ⟨score, mv, a, b, c', d', e, f⟩ := C05.find_best_move_value_ranked G S hr hinj qfuel qf hq p D hSp hD
    limit (runSearches G qfuel earlier s₀) s' ro v hV hv hT1 hrep1 hrun hfin (by omega)
  refine ⟨score, mv, a, b, c', d', e, f, ?_⟩
  have := C06.repetition_balanced_findBestMove G qfuel p D limit (runSearches G qfuel earlier s₀)
  rw [hrun] at this
  exact this.trans hrep1

/-- the special case the property is named after: ONE interrupted (or not) search of a position, then a
    completed search of the SAME position. -/
theorem interrupted_then_completed (S : Nat → P → Prop) (hr : Ranked G S)
    (hinj : HashInj G (Ranked.U S)) (qfuel qf : Nat) (hq : qf ≤ qfuel) (s₀ : SearchState)
    (hT : C05.TTSoundClass G (Ranked.U S) qf s₀.tt) (hrep : s₀.rep = [])
    (p : P) (D₁ D : Nat) (limit₁ limit : Limit) (hSp₁ : S D₁ p) (hSp : S D p) (hD : 1 ≤ D) (v : Int)
    (hV₁ : ∀ d, 1 ≤ d → d ≤ D₁ → ∃ w, Spec.V G qf d p = some w)
    (hV : ∀ d, 1 ≤ d → d ≤ D → ∃ w, Spec.V G qf d p = some w) (hv : Spec.V G qf D p = some v)
    (ro : Option (Int × Option Move)) (s' : SearchState)
    (hrun : findBestMove G qfuel p D limit (findBestMove G qfuel p D₁ limit₁ s₀).2 = (ro, s'))
    (hfin : s'.stopSeen = false) (hdh : s'.deeperHits = s₀.deeperHits) :
    ∃ score mv, ro = some (score, mv) ∧
      Spec.clampClass score = Spec.clampClass v ∧
      (NEGATIVE_INFINITY < v → v < INFINITY → score = v) ∧
      (G.moves p ≠ [] → ∃ m, mv = some m ∧ m ∈ G.moves p) ∧
      (NEGATIVE_INFINITY < v → v < INFINITY → ∀ k m x, D = k + 1 → mv = some m →
        Spec.V G qf k (G.play p m) = some x → -x = v) ∧
      C05.TTSoundClass G (Ranked.U S) qf s'.tt ∧
      s'.rep = [] :=
  later_search_true_value G S hr hinj qfuel qf hq [⟨p, D₁, limit₁⟩] s₀ hT hrep
    (fun j hj => by
      simp only [List.mem_singleton] at hj
      subst hj
      exact ⟨hSp₁, hV₁⟩)
    p D limit hSp hD v hV hv ro s' hrun hfin hdh

end
end Flounder.Props.C06Full

/-! ## 4. non-vacuity: the chain game of Props/SearchRanked.lean

  `toyGame`: position `p` has the single move to `p + 1`, the hash keeps the low three bits.  Family: the
  positions within 7 plies of position 0 (no closed set with an injective hash exists,
  `SearchRanked.toy_no_closed_injective`).  Sequence:

      find_best_move(0, depth 1, Limit.polls 0)   -- zero budget: the very first poll answers true
      find_best_move(0, depth 1, Limit.polls 2)   -- interrupted in the middle of iteration 1: the root has
                                                     searched its move, its post-loop poll answers true
      find_best_move(0, depth 3, no deadline)     -- completes

  All hypotheses of `later_search_true_value` are discharged; "no deeper reuse" as in
  `SearchRanked.toy_no_deeper_hits`: the interrupted searches leave a table whose entries for position `j`
  have depth at most `1 - j` (`Low 1`). -/

namespace Flounder.Props.C06Full
open Flounder Gen Flounder.Search Flounder.Props.SearchRanked

/-- the table after a search of the chain from position 0: if the entries for `j` had depth at most `b - j`
    before (`b ≤ cur`, the depth of the next iteration), they have depth at most `max b maxDepth - j`
    afterwards — any fuel, limit, outcome. -/
theorem toy_iterate_low (qfuel maxDepth : Nat) (hD : maxDepth ≤ 7) :
    ∀ (n cur : Nat) (best : Int × Option Move) (s : SearchState) (b : Nat), Low b s.tt → b ≤ cur →
      Low (max b maxDepth) (iterate toyGame qfuel 0 maxDepth n cur best s).2.tt := by
  intro n
  induction n with
  | zero => intro cur best s b hL _; exact hL.mono (Nat.le_max_left _ _)
  | succ n ih =>
    intro cur best s b hL hb
    rw [iterate_succ]
    split
    · exact hL.mono (Nat.le_max_left _ _)
    · split
      · exact hL.mono (Nat.le_max_left _ _)
      · rename_i hcur _
        have hle : cur ≤ maxDepth := by omega
        have hcm : cur ≤ max b maxDepth := Nat.le_trans hle (Nat.le_max_right _ _)
        have hmax : max cur maxDepth ≤ max b maxDepth := Nat.max_le.2 ⟨hcm, Nat.le_max_right _ _⟩
        have hN := toy_negamax qfuel cur (by omega) cur 0 0 NEGATIVE_INFINITY INFINITY
          (pushed toyGame 0 (polled s)) (by omega) (hL.mono hb)
        rw [searchPosition_eq]
        generalize negamax toyGame qfuel cur 0 0 NEGATIVE_INFINITY INFINITY (pushed toyGame 0 (polled s)) = R
          at hN
        obtain ⟨ro, s2⟩ := R
        cases ro with
        | none => exact hN.2.mono hcm
        | some r =>
          simp only
          split
          · refine (ih (cur + 1) _ _ cur ?_ (by omega)).mono hmax
            exact hN.2.store 0 (by omega) r.score r.bestMove cur .exact (by omega)
          · refine (ih (cur + 1) _ _ cur ?_ (by omega)).mono hmax
            exact hN.2

/-- a depth-1 search of position 0 leaves a `Low 1` table — any fuel, limit, outcome. -/
theorem toy_depth1_low (qfuel : Nat) (limit : Limit) (s : SearchState) (hL : Low 1 s.tt) :
    Low 1 (findBestMove toyGame qfuel 0 1 limit s).2.tt := by
  rw [Search.findBestMove_snd]
  exact toy_iterate_low qfuel 1 (by omega) 1 1 _ (started limit s) 1 hL (Nat.le_refl _)

theorem toy_leaf (p : Nat) (hp : toyGame.eval p < INFINITY) (s : SearchState) :
    leafResult toyGame 1 p (-INFINITY) (-NEGATIVE_INFINITY) s =
      (some ⟨max (-INFINITY) (toyGame.eval p), none⟩, s.incrementNodes) := by
  unfold leafResult
  rw [quiesce_succ]
  have h1 : qList toyGame p = [] := rfl
  have h2 : orderCaptures toyGame p [] = [] := by simp [orderCaptures]
  rw [h1, h2, quiesceLoop_nil]
  have h3 : ¬ toyGame.eval p ≥ -NEGATIVE_INFINITY := by
    have : -NEGATIVE_INFINITY = INFINITY := by decide
    rw [this]; omega
  have h0 : (([] : List Move).isEmpty && toyGame.inCheck p) = false := rfl
  rw [h0]
  simp only [Bool.false_eq_true, ↓reduceIte]
  rw [if_neg h3]

/-- the run of the interrupted search, replayed with the equation lemmas (the table is a `Std.HashMap`,
    which the kernel cannot evaluate): under `Limit.polls 2` the root of iteration 1 has searched its only
    move when its post-loop poll — the third poll of the search — answers `true`. -/
theorem toy_interrupted_root (s : SearchState) (ht : ∀ k, s.tt.retrieve k = none)
    (hr : s.rep = [toyGame.hash 0]) (hl : s.limit = .polls 2) (hp : s.polls = 1) :
    negamax toyGame 1 1 0 0 NEGATIVE_INFINITY INFINITY s =
      (some ⟨8, some toyMove⟩, polled (polled s.incrementNodes).incrementNodes.incrementNodes) := by
  rw [negamax_succ_miss toyGame 1 0 0 0 _ _ s (by simp [SearchState.isRepetition, hr]) (ht _)]
  rw [innerResult_cons toyGame _ 0 0 0 _ _ none _ toyMove [] rfl]
  have h1 : toyGame.moves 0 = [toyMove] := rfl
  have h2 : ∀ s', orderMoves toyGame s' 0 [toyMove] none 0 = [toyMove] := fun s' => by simp [orderMoves]
  rw [h1, h2, negamaxLoop_cons]
  have h3 : stopFlag s.incrementNodes = false := by
    simp [stopFlag, SearchState.incrementNodes, hl, hp]
  rw [h3]
  simp only [Bool.false_eq_true, ↓reduceIte]
  have h4 : toyGame.play 0 toyMove = 1 := rfl
  have h5 : toyGame.hash 1 ≠ toyGame.hash 0 := by decide
  rw [h4, Nat.zero_add,
    negamax_zero_miss toyGame 1 1 1 _ _ (polled s.incrementNodes)
      (by simp [SearchState.isRepetition, polled, SearchState.incrementNodes, hr, h5.symm]) (ht _),
    toy_leaf 1 (by decide)]
  simp only
  have h6 : toyGame.eval 1 = -8 := by decide
  have h7 : ¬ (max NEGATIVE_INFINITY (-max (-INFINITY) (toyGame.eval 1)) ≥ INFINITY) := by
    rw [h6]; decide
  rw [if_neg h7, negamaxLoop_nil]
  simp only
  unfold finishNode
  have h8 : stopFlag (polled s.incrementNodes).incrementNodes.incrementNodes = true := by
    simp [stopFlag, polled, SearchState.incrementNodes, hl, hp]
  rw [if_pos h8]
  rw [h6]
  rfl

/-- the second search of the sequence really is an interrupted one: from any state with an empty table
    and an empty stack it ends with `stopSeen = true`, has not completed a single iteration (it answers with
    the fall-back move and the score `NEGATIVE_INFINITY`), and leaves the table exactly as it was. -/
theorem toy_second_search_interrupted (s : SearchState) (ht : ∀ k, s.tt.retrieve k = none)
    (hr : s.rep = []) :
    (findBestMove toyGame 1 0 1 (.polls 2) s).2.stopSeen = true ∧
    (findBestMove toyGame 1 0 1 (.polls 2) s).1 = some (NEGATIVE_INFINITY, some toyMove) ∧
    (findBestMove toyGame 1 0 1 (.polls 2) s).2.tt = s.tt := by
  have h2 : ∀ t : SearchState, t.limit = .polls 2 → t.polls = 3 → stopFlag t = true := by
    intro t a b; simp [stopFlag, a, b]
  have hit : iterate toyGame 1 0 1 1 1 (NEGATIVE_INFINITY, none) (started (.polls 2) s) =
      (some (NEGATIVE_INFINITY, none),
        polled { (polled (polled (pushed toyGame 0 (polled (started (.polls 2) s))).incrementNodes
          ).incrementNodes.incrementNodes) with rep := [] }) := by
    rw [iterate_succ]
    have h0 : ¬ (1 > 1) := by omega
    rw [if_neg h0]
    have h1 : stopFlag (started (.polls 2) s) = false := by simp [stopFlag, started, SearchState.ageHistory]
    rw [h1]
    simp only [Bool.false_eq_true, ↓reduceIte]
    rw [searchPosition_eq,
      toy_interrupted_root (pushed toyGame 0 (polled (started (.polls 2) s))) ht
        (by simp [pushed, polled, started, SearchState.ageHistory, hr]) rfl rfl]
    simp only
    rw [h2 _ rfl rfl]
    simp only [Bool.not_true, Bool.false_eq_true, ↓reduceIte]
    rw [iterate_zero]
    simp [pushed, polled, started, SearchState.ageHistory, SearchState.incrementNodes, hr]
  refine ⟨?_, ?_, ?_⟩
  · rw [Search.findBestMove_snd, hit]
    show (polled _).stopSeen = true
    rw [polled_stopSeen, h2 _ rfl rfl]
    exact Bool.or_true _
  · rw [Search.findBestMove_eq, hit]; rfl
  · rw [Search.findBestMove_snd, hit]; rfl

/-- non-vacuity of `negamax_preserves_ttsound` (strict view): one full-window `negamax` of depth 3 at the root
    of the chain, under `Limit.polls k` for EVERY `k` — so interrupted at every possible poll, or not at all —
    leaves a sound table.  All hypotheses discharged. -/
theorem toy_negamax_preserves_ttsound (k : Nat) :
    C05.TTSoundStrict toyGame (Within toyGame 0 3) 1
      (negamax toyGame 1 3 0 0 NEGATIVE_INFINITY INFINITY ({ limit := .polls k } : SearchState)).2.tt := by
  have hN := toy_negamax 1 3 (by omega) 3 0 0 NEGATIVE_INFINITY INFINITY ({ limit := .polls k } : SearchState)
    rfl (low_empty 3)
  have hR : RepOK ({ limit := .polls k } : SearchState) := fun h => by
    show (List.filter (· == h) []).length < 2
    simp
  have h := negamax_preserves_ttsound toyGame clamp_id (horizon toyGame 0 3) (horizon_ranked toyGame 0 3)
    (hashInj_horizon toyGame (toy_horizon_injective 0 3 (by omega))) 1 1 3 0 0 NEGATIVE_INFINITY INFINITY 10
    ({ limit := .polls k } : SearchState) (Int.le_refl _) (by decide) (Int.le_refl _) (horizon_root toyGame 0 3)
    (ttSound_new toyGame id _ 1) hR toy_values.2.2 (Nat.le_refl _) hN.1
  rw [horizon_U] at h
  exact h

/-- non-vacuity of `findBestMove_preserves_ttsound` (and of its strict form): a depth-3 search of the chain
    from the fresh state under ANY limit — every interruption point — leaves a sound table and an empty
    repetition stack.  All hypotheses discharged. -/
theorem toy_findBestMove_preserves_ttsound (limit : Limit) :
    C05.TTSoundClass toyGame (Within toyGame 0 3) 1 (findBestMove toyGame 1 0 3 limit {}).2.tt ∧
    C05.TTSoundStrict toyGame (Within toyGame 0 3) 1 (findBestMove toyGame 1 0 3 limit {}).2.tt ∧
    (findBestMove toyGame 1 0 3 limit {}).2.rep = [] := by
  obtain ⟨v1, v2, v3⟩ := toy_values
  have hV : ∀ d, 1 ≤ d → d ≤ 3 → ∃ w, Spec.V toyGame 1 d 0 = some w := by
    intro d h1 h3
    obtain rfl | rfl | rfl : d = 1 ∨ d = 2 ∨ d = 3 := by omega
    · exact ⟨_, v1⟩
    · exact ⟨_, v2⟩
    · exact ⟨_, v3⟩
  have hin : ∀ d w, 1 ≤ d → d ≤ 3 → Spec.V toyGame 1 d 0 = some w → NEGATIVE_INFINITY < w ∧ w < INFINITY := by
    intro d w h1 h3 hw
    simp only [negInf_eq, inf_eq]
    obtain rfl | rfl | rfl : d = 1 ∨ d = 2 ∨ d = 3 := by omega
    · rw [v1] at hw; cases hw; omega
    · rw [v2] at hw; cases hw; omega
    · rw [v3] at hw; cases hw; omega
  have hd := toy_no_deeper_hits 1 3 (by omega) limit {} (low_empty 1)
  have hc := findBestMove_preserves_ttsound toyGame (horizon toyGame 0 3) (horizon_ranked toyGame 0 3)
    (hashInj_horizon toyGame (toy_horizon_injective 0 3 (by omega))) 1 1 (Nat.le_refl _) 0 3
    (horizon_root toyGame 0 3) limit {} hV (ttSound_new toyGame _ _ 1) rfl hd
  have hs := findBestMove_preserves_ttsound_strict toyGame (horizon toyGame 0 3) (horizon_ranked toyGame 0 3)
    (hashInj_horizon toyGame (toy_horizon_injective 0 3 (by omega))) 1 1 (Nat.le_refl _) 0 3
    (horizon_root toyGame 0 3) limit {} hV hin (ttSound_new toyGame _ _ 1) rfl hd
  rw [horizon_U] at hc hs
  exact ⟨hc.1, hs.1, hc.2⟩

/-- **non-vacuity of `later_search_true_value`**: the sequence above, every hypothesis discharged.  The
    completed search returns the depth-3 minimax value 10 with the generated move, the repetition stack is
    empty, the table sound — although the search before it was cut off in the middle of an iteration
    (`toy_second_search_interrupted`) and the one before that had no budget at all. -/
theorem toy_later_search_true_value :
    let earlier : List (SearchCall Nat) := [⟨0, 1, .polls 0⟩, ⟨0, 1, .polls 2⟩]
    let s₂ := runSearches toyGame 1 earlier {}
    -- the second search was interrupted
    s₂.stopSeen = true ∧
    -- the later search completes and is right
    (findBestMove toyGame 1 0 3 .none s₂).2.stopSeen = false ∧
    (findBestMove toyGame 1 0 3 .none s₂).1 = some (10, some toyMove) ∧
    Spec.V toyGame 1 3 0 = some 10 ∧
    (findBestMove toyGame 1 0 3 .none s₂).2.rep = [] ∧
    C05.TTSoundClass toyGame (Within toyGame 0 7) 1 (findBestMove toyGame 1 0 3 .none s₂).2.tt := by
  intro earlier s₂
  obtain ⟨v1, v2, v3⟩ := toy_values
  -- the three states
  have e₂ : s₂ = (findBestMove toyGame 1 0 1 (.polls 2) (findBestMove toyGame 1 0 1 (.polls 0) {}).2).2 := rfl
  have hL0 : Low 1 ({} : SearchState).tt := low_empty 1
  have hL1 := toy_depth1_low 1 (.polls 0) {} hL0
  have hL2 := toy_depth1_low 1 (.polls 2) _ hL1
  have hd1 := toy_no_deeper_hits 1 1 (by omega) (.polls 0) {} hL0
  have hd2 := toy_no_deeper_hits 1 1 (by omega) (.polls 2) _ hL1
  have hd3 := toy_no_deeper_hits 1 3 (by omega) .none _ hL2
  -- the first search stores nothing, so the second one starts on an empty table
  have ht1 : ∀ k, (findBestMove toyGame 1 0 1 (.polls 0) {}).2.tt.retrieve k = none := by
    intro k
    rw [C06.zero_polls_stores_nothing toyGame 1 0 1 {}]
    simp [TT.retrieve]
  have hr1 : (findBestMove toyGame 1 0 1 (.polls 0) {}).2.rep = [] :=
    C06.repetition_balanced_findBestMove toyGame 1 0 1 (.polls 0) {}
  have hint := toy_second_search_interrupted _ ht1 hr1
  have hfin := C05.findBestMove_completes_of_no_deadline toyGame 1 0 3 s₂
  have hV : ∀ d, 1 ≤ d → d ≤ 3 → ∃ w, Spec.V toyGame 1 d 0 = some w := by
    intro d h1 h3
    obtain rfl | rfl | rfl : d = 1 ∨ d = 2 ∨ d = 3 := by omega
    · exact ⟨_, v1⟩
    · exact ⟨_, v2⟩
    · exact ⟨_, v3⟩
  have hS : ∀ d, d ≤ 7 → horizon toyGame 0 7 d 0 := fun d hd => ⟨hd, Within.root _⟩
  obtain ⟨score, mv, hro, _, hsc, hmv, _, hT, hrep⟩ :=
    later_search_true_value toyGame (horizon toyGame 0 7) (horizon_ranked toyGame 0 7)
      (hashInj_horizon toyGame (toy_horizon_injective 0 7 (by omega))) 1 1 (Nat.le_refl _)
      earlier {} (ttSound_new toyGame _ _ 1) rfl
      (fun j hj => by
        have : j.pos = 0 ∧ j.depth = 1 := by
          simp only [earlier, List.mem_cons, List.not_mem_nil, or_false] at hj
          rcases hj with rfl | rfl <;> exact ⟨rfl, rfl⟩
        rw [this.1, this.2]
        exact ⟨hS 1 (by omega), fun d h1 h2 => by
          obtain rfl : d = 1 := by omega
          exact ⟨_, v1⟩⟩)
      0 3 .none (hS 3 (by omega)) (by omega) 10 hV v3
      (findBestMove toyGame 1 0 3 .none s₂).1 (findBestMove toyGame 1 0 3 .none s₂).2 rfl hfin
      (hd3.trans (hd2.trans hd1))
  have hs : score = 10 := hsc (by decide) (by decide)
  obtain ⟨m, hm, hmem⟩ := hmv (by simp [toyGame])
  have hm' : m = toyMove := by simpa [toyGame] using hmem
  subst hs hm hm'
  rw [horizon_U] at hT
  exact ⟨by rw [e₂]; exact hint.1, hfin, hro, v3, hrep, hT⟩

end Flounder.Props.C06Full
