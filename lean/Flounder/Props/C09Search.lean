/-
  C09 at the level of the search RESULT — alpha-beta soundness with a game history.

  Props/C09.lean proves the node-level facts (a position whose hash stands twice on the repetition stack is
  scored 0 before the table is probed; `position … moves …` records the history on that stack).  The C05
  theorems (Props/C05.lean) say which VALUE a search computes, but only for an empty stack.  Here: for ANY
  stack the search computes the minimax value `Spec.Vd` (Spec/MinimaxDraw.lean) of the tree in which every
  position that is a repetition w.r.t. the fixed stack is a leaf of value 0 when met below the root.

  Vocabulary (Lemmas/DrawContract.lean, Lemmas/DrawIterate.lean):
  * `Spec.drawnOn G R q`   : the hash of `q` stands at least twice on `R` (`drawnOn_iff`); the stack never
                             changes inside `negamax` (`C05.rep_unchanged`), so the predicate is fixed.
  * `Spec.Vd G drawn qf d root p` : the reference value; `root = true` only for the position searched
                             (`negamax` tests `ply > 0`).  `Vd (fun _ => false) = Spec.V` (`Spec.Vd_no_draw`),
                             and a stack without a double entry draws nothing (`Vd_empty_history`).
  * `TTSoundD c drawn S qf t` : every key-verified record of a position `q` of `S` is a true Exact / Lower / Upper
                             claim (score view `c`, as in C05) about `Vd drawn qf depth TRUE q` — a record is only
                             written / read at a node where the draw test did not fire, and there the value of
                             `q` is the value of `q` as a root (`Search.Vd_live`).  True of the empty table.
  * completed / no deeper reuse / ranked family / hash injective on the family: exactly as in C05.

  Statements:
  * `negamax_contract_history*`      one `negamax` on a state with any stack `s.rep`;
  * `find_best_move_value_history*`  a whole `find_best_move` from the stack `hist` (`search_position` pushes the
                                     root hash: the draw predicate is `drawnOn (G.hash p :: hist)`);
  * `all_moves_repeat_score_zero`, `repeating_move_score_nonneg`, `history_twice_is_drawn`
                                     the property C09 for the reported score;
  * `depth_one_value_history`        depth 1 on an empty table: NO instrumentation hypothesis (every probe misses,
                                     `Search.findBestMove_one_no_deeper`) — what the driver's `eng.judge1` checks:
                                     the score is the maximum over the moves of 0 (successor occurred twice) and
                                     minus the successor's quiescence value (`Search.Vd_one_cons`).
  Non-vacuity on a concrete game: Props/C09SearchExample.lean.
-/
import Flounder.Lemmas.DrawIterate
import Flounder.Lemmas.DrawDepthOne
import Flounder.Props.SearchRanked

namespace Flounder.Props.C09Search
open Flounder Gen Flounder.Search

variable {P : Type} (G : Game P)

abbrev TTSoundStrictD (drawn : P → Bool) (S : P → Prop) (qf : Nat) (t : TT) : Prop := TTSoundD G id drawn S qf t
abbrev TTSoundClassD (drawn : P → Bool) (S : P → Prop) (qf : Nat) (t : TT) : Prop :=
  TTSoundD G Spec.clampClass drawn S qf t

/-! ## the draw predicate of a stack -/

theorem drawnOn_iff (R : List UInt64) (q : P) : Spec.drawnOn G R q = true ↔ 2 ≤ R.count (G.hash q) := by
  simp [Spec.drawnOn]

/-- the predicate is the engine's test on any state carrying the stack. -/
theorem drawnOn_is_engine_test (s : SearchState) (q : P) :
    s.isRepetition (G.hash q) = Spec.drawnOn G s.rep q :=
  isRepetition_drawnOn G s.rep s rfl q

/-- a position that occurred twice in the game history is a repetition for the search of ANY root. -/
theorem history_twice_is_drawn (p q : P) (hist : List UInt64) (h : 2 ≤ hist.count (G.hash q)) :
    Spec.drawnOn G (G.hash p :: hist) q = true :=
  drawnOn_push G (G.hash p) h

/-- with an empty history (the stack of the search holds the root only) nothing is drawn: the reference
    value is `Spec.V`, and the theorems below are the C05 theorems. -/
theorem Vd_empty_history (k : UInt64) (qf d : Nat) (r : Bool) (p : P) :
    Spec.Vd G (Spec.drawnOn G [k]) qf d r p = Spec.V G qf d p := by
  have : Spec.drawnOn G [k] = fun _ => false := funext (fun q => drawnOn_single G k q)
  rw [this, Spec.Vd_no_draw]

/-- the empty table is sound. -/
theorem ttSoundD_fresh (c : Int → Int) (drawn : P → Bool) (S : P → Prop) (qf : Nat) :
    TTSoundD G c drawn S qf ({} : SearchState).tt :=
  ttSoundD_new G c drawn S qf

/-- a strictly sound table is class-sound. -/
theorem ttSoundD_strict_class (drawn : P → Bool) (S : P → Prop) (qf : Nat) (t : TT)
    (h : TTSoundStrictD G drawn S qf t) : TTSoundClassD G drawn S qf t := by
  intro p hp e he
  have := h p hp e he
  refine ⟨fun v hv hb => ?_, fun v hv hb => ?_, fun v hv hb => ?_, this.move, fun hb h1 h2 => ?_⟩
  · have := this.exact v hv hb; simp only [id] at this; rw [this]
  · exact clamp_clampClass.mono _ _ (this.lower v hv hb)
  · exact clamp_clampClass.mono _ _ (this.upper v hv hb)
  · have e' := clamp_clampClass.inside' e.eval h1 h2
    exact this.pv hb (by simp only [id]; omega) (by simp only [id]; omega)

/-! ## 1. negamax on an arbitrary stack -/

/-- generic form for a score view `c`, ranked family.  `v` is the value of `p` in the tree with draws — of `p` as
    the root when `ply = 0`, as a position met below the root otherwise.  At a node where the draw test does
    not fire (`ply = 0` or fewer than two occurrences) the result carries a legal move / a minimax-optimal
    move as in C05; where it fires the result is `⟨0, none⟩` (`C09.draw_scored_zero`) and `v = 0`. -/
theorem negamax_contract_history_view_ranked {c : Int → Int} (hc : Clamp c) (S : Nat → P → Prop)
    (hr : Ranked G S) (hinj : HashInj G (Ranked.U S)) (qfuel qf d : Nat) (p : P) (ply : Nat)
    (α β v : Int) (s s' : SearchState) (ro : Option SearchResult)
    (hα : NEGATIVE_INFINITY ≤ α) (hαβ : α < β) (hβ : β ≤ INFINITY) (hSp : S d p)
    (hT : TTSoundD G c (Spec.drawnOn G s.rep) (Ranked.U S) qf s.tt)
    (hv : Spec.Vd G (Spec.drawnOn G s.rep) qf d (decide (ply = 0)) p = some v)
    (hq : qf ≤ qfuel)
    (hrun : negamax G qfuel d p ply α β s = (ro, s')) (hns : NoStop s s')
    (hdh : s'.deeperHits = s.deeperHits) :
    ∃ r, ro = some r ∧ Contract (c v) (c r.score) α β ∧
      TTSoundD G c (Spec.drawnOn G s.rep) (Ranked.U S) qf s'.tt ∧ s'.rep = s.rep ∧
      ((ply = 0 ∨ s.rep.count (G.hash p) < 2) →
        (1 ≤ d → G.moves p ≠ [] → ∃ m, r.bestMove = some m ∧ m ∈ G.moves p) ∧
        (α < c r.score → c r.score < β → ∀ k m x, d = k + 1 → r.bestMove = some m →
          Spec.Vd G (Spec.drawnOn G s.rep) qf k false (G.play p m) = some x → -x = r.score)) := by
  have h1 := negamaxD_ok G hc hr hinj qfuel hq d p ply α β s v hSp hT (repIs_of_rep G s.rep s rfl) hv
    hα hαβ hβ hns.1
  have h2 := negamax_frame G qfuel d p ply α β s
  rw [hrun] at h1 h2
  obtain ⟨r, hr, hcon, hres, hT'⟩ := h1 hns.2 hdh
  refine ⟨r, hr, hcon, hT', h2.rep, fun hl => ?_⟩
  have hl' : ply = 0 ∨ Spec.drawnOn G s.rep p = false := by
    rcases hl with h | h
    · exact Or.inl h
    · right
      cases hd : Spec.drawnOn G s.rep p
      · rfl
      · have := (drawnOn_iff G s.rep p).1 hd; omega
  have := hres hl'
  exact ⟨this.move, fun a b k m x hk hm hx => this.pv a b k hk m x hm hx⟩

/-- **negamax_contract with a game history** (strict view).  A completed `negamax` on a state with ANY
    repetition stack that reused no deeper record returns a score satisfying the fail-soft contract for the
    depth-`d` minimax value of the tree in which repetitions below the root are leaves of value 0; the table
    stays sound for that tree and the stack is unchanged. -/
theorem negamax_contract_history_ranked (S : Nat → P → Prop) (hr : Ranked G S)
    (hinj : HashInj G (Ranked.U S)) (qfuel qf d : Nat)
    (p : P) (ply : Nat) (α β v : Int) (s s' : SearchState) (ro : Option SearchResult)
    (hα : NEGATIVE_INFINITY ≤ α) (hαβ : α < β) (hβ : β ≤ INFINITY) (hSp : S d p)
    (hT : TTSoundStrictD G (Spec.drawnOn G s.rep) (Ranked.U S) qf s.tt)
    (hv : Spec.Vd G (Spec.drawnOn G s.rep) qf d (decide (ply = 0)) p = some v)
    (hq : qf ≤ qfuel)
    (hrun : negamax G qfuel d p ply α β s = (ro, s')) (hns : NoStop s s')
    (hdh : s'.deeperHits = s.deeperHits) :
    ∃ r, ro = some r ∧ Contract v r.score α β ∧
      TTSoundStrictD G (Spec.drawnOn G s.rep) (Ranked.U S) qf s'.tt ∧ s'.rep = s.rep ∧
      ((ply = 0 ∨ s.rep.count (G.hash p) < 2) →
        (1 ≤ d → G.moves p ≠ [] → ∃ m, r.bestMove = some m ∧ m ∈ G.moves p) ∧
        (α < r.score → r.score < β → r.score = v ∧ ∀ k m x, d = k + 1 → r.bestMove = some m →
          Spec.Vd G (Spec.drawnOn G s.rep) qf k false (G.play p m) = some x → -x = v)) := by
  obtain ⟨r, hr, hc, hT', hrep, hl⟩ := negamax_contract_history_view_ranked G clamp_id S hr hinj qfuel qf d
    p ply α β v s s' ro hα hαβ hβ hSp hT hv hq hrun hns hdh
  refine ⟨r, hr, hc, hT', hrep, fun h => ⟨(hl h).1, fun a b => ?_⟩⟩
  have e : r.score = v := hc.2.2 a b
  exact ⟨e, fun k m x hk hm' hx => by rw [← e]; exact (hl h).2 a b k m x hk hm' hx⟩

/-- **negamax_contract with a game history**, won / lost view (the invariant that survives
    `cache_search_result`). -/
theorem negamax_contract_history_class_ranked (S : Nat → P → Prop) (hr : Ranked G S)
    (hinj : HashInj G (Ranked.U S))
    (qfuel qf d : Nat) (p : P) (ply : Nat) (α β v : Int) (s s' : SearchState) (ro : Option SearchResult)
    (hα : NEGATIVE_INFINITY ≤ α) (hαβ : α < β) (hβ : β ≤ INFINITY) (hSp : S d p)
    (hT : TTSoundClassD G (Spec.drawnOn G s.rep) (Ranked.U S) qf s.tt)
    (hv : Spec.Vd G (Spec.drawnOn G s.rep) qf d (decide (ply = 0)) p = some v)
    (hq : qf ≤ qfuel)
    (hrun : negamax G qfuel d p ply α β s = (ro, s')) (hns : NoStop s s')
    (hdh : s'.deeperHits = s.deeperHits) :
    ∃ r, ro = some r ∧ Contract (Spec.clampClass v) (Spec.clampClass r.score) α β ∧
      TTSoundClassD G (Spec.drawnOn G s.rep) (Ranked.U S) qf s'.tt ∧ s'.rep = s.rep ∧
      ((ply = 0 ∨ s.rep.count (G.hash p) < 2) → 1 ≤ d → G.moves p ≠ [] →
        ∃ m, r.bestMove = some m ∧ m ∈ G.moves p) :=
  let ⟨r, hr, hc, hT', hrep, hl⟩ := negamax_contract_history_view_ranked G clamp_clampClass S hr hinj qfuel qf
    d p ply α β v s s' ro hα hαβ hβ hSp hT hv hq hrun hns hdh
  ⟨r, hr, hc, hT', hrep, fun h => (hl h).1⟩

/-- **negamax_contract with a game history** for a closed set (the constant family), strict view. -/
theorem negamax_contract_history (S : P → Prop) (hcl : Closed G S) (hinj : HashInj G S) (qfuel qf d : Nat)
    (p : P) (ply : Nat) (α β v : Int) (s s' : SearchState) (ro : Option SearchResult)
    (hα : NEGATIVE_INFINITY ≤ α) (hαβ : α < β) (hβ : β ≤ INFINITY) (hSp : S p)
    (hT : TTSoundStrictD G (Spec.drawnOn G s.rep) S qf s.tt)
    (hv : Spec.Vd G (Spec.drawnOn G s.rep) qf d (decide (ply = 0)) p = some v) (hq : qf ≤ qfuel)
    (hrun : negamax G qfuel d p ply α β s = (ro, s')) (hns : NoStop s s')
    (hdh : s'.deeperHits = s.deeperHits) :
    ∃ r, ro = some r ∧ Contract v r.score α β ∧
      TTSoundStrictD G (Spec.drawnOn G s.rep) S qf s'.tt ∧ s'.rep = s.rep ∧
      ((ply = 0 ∨ s.rep.count (G.hash p) < 2) →
        (1 ≤ d → G.moves p ≠ [] → ∃ m, r.bestMove = some m ∧ m ∈ G.moves p) ∧
        (α < r.score → r.score < β → r.score = v ∧ ∀ k m x, d = k + 1 → r.bestMove = some m →
          Spec.Vd G (Spec.drawnOn G s.rep) qf k false (G.play p m) = some x → -x = v)) := by
  have h := negamax_contract_history_ranked G (fun _ => S) (Ranked.ofClosed hcl)
    (by rw [Ranked.U_const]; exact hinj) qfuel qf d p ply α β v s s' ro hα hαβ hβ hSp
    (by rw [Ranked.U_const]; exact hT) hv hq hrun hns hdh
  rw [Ranked.U_const] at h
  exact h

/-- the same within the horizon of a depth-`D` search of `root`. -/
theorem negamax_contract_history_horizon (root : P) (D : Nat) (hinj : HashInjOn G (Within G root D))
    (qfuel qf d : Nat) (p : P) (ply : Nat) (α β v : Int) (s s' : SearchState) (ro : Option SearchResult)
    (hα : NEGATIVE_INFINITY ≤ α) (hαβ : α < β) (hβ : β ≤ INFINITY)
    (hd : d ≤ D) (hp : Within G root (D - d) p)
    (hT : TTSoundStrictD G (Spec.drawnOn G s.rep) (Within G root D) qf s.tt)
    (hv : Spec.Vd G (Spec.drawnOn G s.rep) qf d (decide (ply = 0)) p = some v) (hq : qf ≤ qfuel)
    (hrun : negamax G qfuel d p ply α β s = (ro, s')) (hns : NoStop s s')
    (hdh : s'.deeperHits = s.deeperHits) :
    ∃ r, ro = some r ∧ Contract v r.score α β ∧
      TTSoundStrictD G (Spec.drawnOn G s.rep) (Within G root D) qf s'.tt ∧ s'.rep = s.rep ∧
      ((ply = 0 ∨ s.rep.count (G.hash p) < 2) →
        (1 ≤ d → G.moves p ≠ [] → ∃ m, r.bestMove = some m ∧ m ∈ G.moves p) ∧
        (α < r.score → r.score < β → r.score = v ∧ ∀ k m x, d = k + 1 → r.bestMove = some m →
          Spec.Vd G (Spec.drawnOn G s.rep) qf k false (G.play p m) = some x → -x = v)) := by
  have h := negamax_contract_history_ranked G (horizon G root D) (horizon_ranked G root D)
    (SearchRanked.hashInj_horizon G hinj) qfuel qf d p ply α β v s s' ro hα hαβ hβ ⟨hd, hp⟩
    (by rw [SearchRanked.horizon_U]; exact hT) hv hq hrun hns hdh
  rw [SearchRanked.horizon_U] at h
  exact h

/-! ## 2. find_best_move with a game history -/

/-- **find_best_move_value with a game history.**  A completed `find_best_move` to depth `D ≥ 1` (any
    `Limit`) started on ANY repetition stack `hist` (the history recorded by the `position` command), on a
    table that is class-sound for the stack `G.hash p :: hist` the search works on (true of the empty table),
    with no deeper reuse: the reported score is — up to the won / lost class, hence EQUAL when strictly inside
    (-32767, 32767) — the depth-`D` minimax value `v` of the tree in which every position whose hash stands
    twice on `G.hash p :: hist` is a leaf of value 0 below the root; a legal move is reported whenever one
    exists, it is minimax-optimal in that tree when `v` is inside the window, the table is still sound and
    the stack is `hist` again. -/
theorem find_best_move_value_history_ranked (S : Nat → P → Prop) (hr : Ranked G S)
    (hinj : HashInj G (Ranked.U S)) (qfuel qf : Nat)
    (hq : qf ≤ qfuel) (p : P) (hist : List UInt64) (D : Nat) (hSp : S D p) (hD : 1 ≤ D) (limit : Limit)
    (s s' : SearchState) (ro : Option (Int × Option Move)) (v : Int)
    (hV : ∀ d, 1 ≤ d → d ≤ D → ∃ w, Spec.Vd G (Spec.drawnOn G (G.hash p :: hist)) qf d true p = some w)
    (hv : Spec.Vd G (Spec.drawnOn G (G.hash p :: hist)) qf D true p = some v)
    (hT : TTSoundClassD G (Spec.drawnOn G (G.hash p :: hist)) (Ranked.U S) qf s.tt) (hrep : s.rep = hist)
    (hrun : findBestMove G qfuel p D limit s = (ro, s')) (hfin : s'.stopSeen = false)
    (hdh : s'.deeperHits = s.deeperHits) :
    ∃ score mv, ro = some (score, mv) ∧
      Spec.clampClass score = Spec.clampClass v ∧
      (NEGATIVE_INFINITY < v → v < INFINITY → score = v) ∧
      (G.moves p ≠ [] → ∃ m, mv = some m ∧ m ∈ G.moves p) ∧
      (NEGATIVE_INFINITY < v → v < INFINITY → ∀ k m x, D = k + 1 → mv = some m →
        Spec.Vd G (Spec.drawnOn G (G.hash p :: hist)) qf k false (G.play p m) = some x → -x = v) ∧
      TTSoundClassD G (Spec.drawnOn G (G.hash p :: hist)) (Ranked.U S) qf s'.tt ∧
      s'.rep = hist := by
  have hRE := rootExactD_class G (Spec.drawnOn G (G.hash p :: hist)) qf 1 D p
  have h := findBestMoveD_ok G clamp_clampClass hr hinj qfuel hq p hist D hSp hD limit s hV hRE hT hrep
  have hrep' := findBestMove_rep G qfuel p D limit s
  rw [hrun] at h hrep'
  obtain ⟨⟨score, mv⟩, hb, hok, hT'⟩ := h hfin hdh
  have hval : Spec.clampClass score = Spec.clampClass v := hok.value v hv
  have hin : NEGATIVE_INFINITY < v → v < INFINITY → score = v := by
    intro a b
    have e := clamp_clampClass.inside v a b
    rw [e] at hval
    have := clamp_clampClass.inside' score (by rw [hval]; exact a) (by rw [hval]; exact b)
    rw [← this, hval]
  refine ⟨score, mv, hb, hval, hin, hok.move, ?_, hT', hrep'.trans hrep⟩
  intro a b k m x hk hm hx
  have e := hin a b
  have e2 := clamp_clampClass.inside v a b
  rw [← e]
  exact hok.pv (by rw [hval, e2]; exact a) (by rw [hval, e2]; exact b) k m x hk hm hx

/-- **find_best_move_value with a game history** for a closed set (the constant family). -/
theorem find_best_move_value_history (S : P → Prop) (hcl : Closed G S) (hinj : HashInj G S) (qfuel qf : Nat)
    (hq : qf ≤ qfuel) (p : P) (hist : List UInt64) (hSp : S p) (D : Nat) (hD : 1 ≤ D) (limit : Limit)
    (s s' : SearchState) (ro : Option (Int × Option Move)) (v : Int)
    (hV : ∀ d, 1 ≤ d → d ≤ D → ∃ w, Spec.Vd G (Spec.drawnOn G (G.hash p :: hist)) qf d true p = some w)
    (hv : Spec.Vd G (Spec.drawnOn G (G.hash p :: hist)) qf D true p = some v)
    (hT : TTSoundClassD G (Spec.drawnOn G (G.hash p :: hist)) S qf s.tt) (hrep : s.rep = hist)
    (hrun : findBestMove G qfuel p D limit s = (ro, s')) (hfin : s'.stopSeen = false)
    (hdh : s'.deeperHits = s.deeperHits) :
    ∃ score mv, ro = some (score, mv) ∧
      Spec.clampClass score = Spec.clampClass v ∧
      (NEGATIVE_INFINITY < v → v < INFINITY → score = v) ∧
      (G.moves p ≠ [] → ∃ m, mv = some m ∧ m ∈ G.moves p) ∧
      (NEGATIVE_INFINITY < v → v < INFINITY → ∀ k m x, D = k + 1 → mv = some m →
        Spec.Vd G (Spec.drawnOn G (G.hash p :: hist)) qf k false (G.play p m) = some x → -x = v) ∧
      TTSoundClassD G (Spec.drawnOn G (G.hash p :: hist)) S qf s'.tt ∧
      s'.rep = hist := by
  have h := find_best_move_value_history_ranked G (fun _ => S) (Ranked.ofClosed hcl)
    (by rw [Ranked.U_const]; exact hinj) qfuel qf hq p hist D hSp hD limit s s' ro v hV hv
    (by rw [Ranked.U_const]; exact hT) hrep hrun hfin hdh
  rw [Ranked.U_const] at h
  exact h

/-- **find_best_move_value with a game history**, the only hash hypothesis being injectivity on the positions
    within `D` plies of the root. -/
theorem find_best_move_value_history_horizon (root : P) (hist : List UInt64) (D : Nat)
    (hinj : HashInjOn G (Within G root D))
    (qfuel qf : Nat) (hq : qf ≤ qfuel) (hD : 1 ≤ D) (limit : Limit) (s s' : SearchState)
    (ro : Option (Int × Option Move)) (v : Int)
    (hV : ∀ d, 1 ≤ d → d ≤ D → ∃ w, Spec.Vd G (Spec.drawnOn G (G.hash root :: hist)) qf d true root = some w)
    (hv : Spec.Vd G (Spec.drawnOn G (G.hash root :: hist)) qf D true root = some v)
    (hT : TTSoundClassD G (Spec.drawnOn G (G.hash root :: hist)) (Within G root D) qf s.tt)
    (hrep : s.rep = hist)
    (hrun : findBestMove G qfuel root D limit s = (ro, s')) (hfin : s'.stopSeen = false)
    (hdh : s'.deeperHits = s.deeperHits) :
    ∃ score mv, ro = some (score, mv) ∧
      Spec.clampClass score = Spec.clampClass v ∧
      (NEGATIVE_INFINITY < v → v < INFINITY → score = v) ∧
      (G.moves root ≠ [] → ∃ m, mv = some m ∧ m ∈ G.moves root) ∧
      (NEGATIVE_INFINITY < v → v < INFINITY → ∀ k m x, D = k + 1 → mv = some m →
        Spec.Vd G (Spec.drawnOn G (G.hash root :: hist)) qf k false (G.play root m) = some x → -x = v) ∧
      TTSoundClassD G (Spec.drawnOn G (G.hash root :: hist)) (Within G root D) qf s'.tt ∧
      s'.rep = hist := by
  have h := find_best_move_value_history_ranked G (horizon G root D) (horizon_ranked G root D)
    (SearchRanked.hashInj_horizon G hinj) qfuel qf hq root hist D (horizon_root G root D) hD limit s s' ro v
    hV hv (by rw [SearchRanked.horizon_U]; exact hT) hrep hrun hfin hdh
  rw [SearchRanked.horizon_U] at h
  exact h

/-- **find_best_move_exact with a game history** (strict view): when the value of every iteration lies
    strictly inside the root window, a strictly sound table stays strictly sound and the score IS the value. -/
theorem find_best_move_exact_history_ranked (S : Nat → P → Prop) (hr : Ranked G S)
    (hinj : HashInj G (Ranked.U S)) (qfuel qf : Nat)
    (hq : qf ≤ qfuel) (p : P) (hist : List UInt64) (D : Nat) (hSp : S D p) (hD : 1 ≤ D) (limit : Limit)
    (s s' : SearchState) (ro : Option (Int × Option Move)) (v : Int)
    (hV : ∀ d, 1 ≤ d → d ≤ D → ∃ w, Spec.Vd G (Spec.drawnOn G (G.hash p :: hist)) qf d true p = some w)
    (hin : ∀ d w, 1 ≤ d → d ≤ D → Spec.Vd G (Spec.drawnOn G (G.hash p :: hist)) qf d true p = some w →
      NEGATIVE_INFINITY < w ∧ w < INFINITY)
    (hv : Spec.Vd G (Spec.drawnOn G (G.hash p :: hist)) qf D true p = some v)
    (hT : TTSoundStrictD G (Spec.drawnOn G (G.hash p :: hist)) (Ranked.U S) qf s.tt) (hrep : s.rep = hist)
    (hrun : findBestMove G qfuel p D limit s = (ro, s')) (hfin : s'.stopSeen = false)
    (hdh : s'.deeperHits = s.deeperHits) :
    ∃ mv, ro = some (v, mv) ∧ (G.moves p ≠ [] → ∃ m, mv = some m ∧ m ∈ G.moves p) ∧
      (∀ k m x, D = k + 1 → mv = some m →
        Spec.Vd G (Spec.drawnOn G (G.hash p :: hist)) qf k false (G.play p m) = some x → -x = v) ∧
      TTSoundStrictD G (Spec.drawnOn G (G.hash p :: hist)) (Ranked.U S) qf s'.tt ∧ s'.rep = hist := by
  have hRE : RootExactD G id (Spec.drawnOn G (G.hash p :: hist)) qf 1 D p := by
    intro d w h1 h2 hw r hc
    have := hin d w h1 h2 hw
    simp only [id] at hc ⊢
    by_cases a : r ≤ NEGATIVE_INFINITY
    · have := hc.1 a; omega
    · by_cases b : r ≥ INFINITY
      · have := hc.2.1 b; omega
      · exact hc.2.2 (by omega) (by omega)
  have h := findBestMoveD_ok G clamp_id hr hinj qfuel hq p hist D hSp hD limit s hV hRE hT hrep
  have hrep' := findBestMove_rep G qfuel p D limit s
  rw [hrun] at h hrep'
  obtain ⟨⟨score, mv⟩, hb, hok, hT'⟩ := h hfin hdh
  have hval : score = v := hok.value v hv
  subst hval
  have hb' := hin D score hD (Nat.le_refl _) hv
  exact ⟨mv, hb, hok.move, fun k m x hk hm hx => hok.pv hb'.1 hb'.2 k m x hk hm hx, hT', hrep'.trans hrep⟩

/-! ## 3. the property C09 for the reported score -/

/-- if every legal move of `p` leads to a position that occurred at least twice in the history, the value of
    `p` (depth ≥ 1) in the tree with draws is 0 — whatever the evaluation says. -/
theorem all_moves_repeat_value_zero (qf d : Nat) (p : P) (hist : List UInt64) (hne : G.moves p ≠ [])
    (hall : ∀ m ∈ G.moves p, 2 ≤ hist.count (G.hash (G.play p m))) :
    Spec.Vd G (Spec.drawnOn G (G.hash p :: hist)) qf (d + 1) true p = some 0 :=
  Vd_all_children_drawn G _ qf d p hne (fun m hm => history_twice_is_drawn G p _ hist (hall m hm))

/-- **every move repeats ⇒ the reported score is 0.**  `find_best_move` (depth `D ≥ 1`, any `Limit`, any
    quiescence fuel) on a position with legal moves ALL of which lead to a position that occurred at least
    twice in the recorded history `hist`: a completed run that reused no deeper record reports the score 0
    and a legal move.  No reference value needs to be assumed: the tree with draws has depth 1. -/
theorem all_moves_repeat_score_zero (S : Nat → P → Prop) (hr : Ranked G S)
    (hinj : HashInj G (Ranked.U S)) (qfuel : Nat) (p : P) (hist : List UInt64) (D : Nat) (hSp : S D p)
    (hD : 1 ≤ D) (limit : Limit) (s s' : SearchState) (ro : Option (Int × Option Move))
    (hne : G.moves p ≠ [])
    (hall : ∀ m ∈ G.moves p, 2 ≤ hist.count (G.hash (G.play p m)))
    (hT : TTSoundClassD G (Spec.drawnOn G (G.hash p :: hist)) (Ranked.U S) qfuel s.tt) (hrep : s.rep = hist)
    (hrun : findBestMove G qfuel p D limit s = (ro, s')) (hfin : s'.stopSeen = false)
    (hdh : s'.deeperHits = s.deeperHits) :
    ∃ m, ro = some (0, some m) ∧ m ∈ G.moves p := by
  have hz : ∀ d, 1 ≤ d → Spec.Vd G (Spec.drawnOn G (G.hash p :: hist)) qfuel d true p = some 0 := by
    intro d hd
    obtain ⟨k, rfl⟩ : ∃ k, d = k + 1 := ⟨d - 1, by omega⟩
    exact all_moves_repeat_value_zero G qfuel k p hist hne hall
  obtain ⟨score, mv, h1, _, h3, h4, _⟩ := find_best_move_value_history_ranked G S hr hinj qfuel qfuel
    (Nat.le_refl _) p hist D hSp hD limit s s' ro 0 (fun d hd _ => ⟨0, hz d hd⟩) (hz D hD) hT hrep hrun hfin hdh
  obtain ⟨m, hm, hmem⟩ := h4 hne
  have : score = 0 := h3 (by decide) (by decide)
  subst this; subst hm
  exact ⟨m, h1, hmem⟩

/-- the same on a fresh table, within the horizon: only the hash hypothesis, "completed" and "no deeper record
    reused" remain. -/
theorem all_moves_repeat_score_zero_fresh (root : P) (hist : List UInt64) (D : Nat)
    (hinj : HashInjOn G (Within G root D)) (qfuel : Nat) (hD : 1 ≤ D) (limit : Limit) (s' : SearchState)
    (ro : Option (Int × Option Move)) (hne : G.moves root ≠ [])
    (hall : ∀ m ∈ G.moves root, 2 ≤ hist.count (G.hash (G.play root m)))
    (hrun : findBestMove G qfuel root D limit { rep := hist } = (ro, s')) (hfin : s'.stopSeen = false)
    (hdh : s'.deeperHits = 0) :
    ∃ m, ro = some (0, some m) ∧ m ∈ G.moves root :=
  all_moves_repeat_score_zero G (horizon G root D) (horizon_ranked G root D)
    (SearchRanked.hashInj_horizon G hinj) qfuel root hist D (horizon_root G root D) hD limit { rep := hist } s' ro
    hne hall (ttSoundD_new G _ _ _ _) rfl hrun hfin hdh

/-- **a move into a repetition guarantees a non-negative score**: if some legal move of `p` leads to a position
    that occurred at least twice in the history, the reported score of a completed run is ≥ 0 (the side to move
    can always take the draw). -/
theorem repeating_move_score_nonneg (S : Nat → P → Prop) (hr : Ranked G S)
    (hinj : HashInj G (Ranked.U S)) (qfuel qf : Nat) (hq : qf ≤ qfuel) (p : P) (hist : List UInt64) (D : Nat)
    (hSp : S D p) (hD : 1 ≤ D) (limit : Limit) (s s' : SearchState) (score : Int) (mv : Option Move)
    (m : Move) (hm : m ∈ G.moves p) (hrepm : 2 ≤ hist.count (G.hash (G.play p m)))
    (hV : ∀ d, 1 ≤ d → d ≤ D → ∃ w, Spec.Vd G (Spec.drawnOn G (G.hash p :: hist)) qf d true p = some w)
    (hT : TTSoundClassD G (Spec.drawnOn G (G.hash p :: hist)) (Ranked.U S) qf s.tt) (hrep : s.rep = hist)
    (hrun : findBestMove G qfuel p D limit s = (some (score, mv), s')) (hfin : s'.stopSeen = false)
    (hdh : s'.deeperHits = s.deeperHits) :
    0 ≤ score := by
  obtain ⟨v, hv⟩ := hV D hD (Nat.le_refl _)
  obtain ⟨k, rfl⟩ : ∃ k, D = k + 1 := ⟨D - 1, by omega⟩
  have hv0 : 0 ≤ v := Vd_nonneg_of_child_drawn G _ qf k p v m hm (history_twice_is_drawn G p _ hist hrepm) hv
  obtain ⟨score', mv', h1, h2, _⟩ := find_best_move_value_history_ranked G S hr hinj qfuel qf hq p hist (k + 1)
    hSp hD limit s s' _ v hV hv hT hrep hrun hfin hdh
  cases h1
  have hni := negInf_eq
  have hin := inf_eq
  unfold Spec.clampClass at h2
  simp only [hni, hin] at h2
  split at h2 <;> split at h2 <;> omega

/-! ## 4. depth 1 on an empty table: nothing to assume about reuse -/

/-- **depth-1 search with a game history, unconditional.**  `find_best_move` to depth 1 on an empty table, any
    stack `hist`, any `Limit`; the hash separates the root and its successors.  If the run completes, the
    reported score is (up to the won / lost class; EQUAL strictly inside the window) the depth-1 value with draws
    — `Search.Vd_one_cons`: the maximum over the moves of 0 where the successor's hash stands twice on
    `G.hash root :: hist` and minus the successor's quiescence value elsewhere — and the reported move attains
    it.  "No deeper record reused" is a theorem here (`Search.findBestMove_one_no_deeper`). -/
theorem depth_one_value_history (root : P) (hist : List UInt64) (hinj : HashInjOn G (Within G root 1))
    (qfuel qf : Nat) (hq : qf ≤ qfuel) (limit : Limit) (s s' : SearchState)
    (ro : Option (Int × Option Move)) (v : Int)
    (hv : Spec.Vd G (Spec.drawnOn G (G.hash root :: hist)) qf 1 true root = some v)
    (hE : TTEmpty s.tt) (hrep : s.rep = hist)
    (hrun : findBestMove G qfuel root 1 limit s = (ro, s')) (hfin : s'.stopSeen = false) :
    ∃ score mv, ro = some (score, mv) ∧
      Spec.clampClass score = Spec.clampClass v ∧
      (NEGATIVE_INFINITY < v → v < INFINITY → score = v) ∧
      (G.moves root ≠ [] → ∃ m, mv = some m ∧ m ∈ G.moves root) ∧
      (NEGATIVE_INFINITY < v → v < INFINITY → ∀ m x, mv = some m →
        Spec.Vd G (Spec.drawnOn G (G.hash root :: hist)) qf 0 false (G.play root m) = some x → -x = v) ∧
      s'.rep = hist := by
  have hdh : s'.deeperHits = s.deeperHits := by
    have := findBestMove_one_no_deeper G qfuel root limit s hE
    rw [hrun] at this; exact this
  obtain ⟨score, mv, h1, h2, h3, h4, h5, _, h7⟩ := find_best_move_value_history_horizon G root hist 1 hinj qfuel qf
    hq (Nat.le_refl _) limit s s' ro v
    (fun d hd1 hd2 => by
      have : d = 1 := by omega
      subst this; exact ⟨v, hv⟩)
    hv (ttSoundD_of_empty G hE _ _ _ _) hrep hrun hfin hdh
  exact ⟨score, mv, h1, h2, h3, h4, fun a b m x hm hx => h5 a b 0 m x rfl hm hx, h7⟩

/-- without a deadline the run always completes. -/
theorem depth_one_value_history_no_deadline (root : P) (hist : List UInt64)
    (hinj : HashInjOn G (Within G root 1)) (qfuel qf : Nat) (hq : qf ≤ qfuel) (s s' : SearchState)
    (ro : Option (Int × Option Move)) (v : Int)
    (hv : Spec.Vd G (Spec.drawnOn G (G.hash root :: hist)) qf 1 true root = some v)
    (hE : TTEmpty s.tt) (hrep : s.rep = hist)
    (hrun : findBestMove G qfuel root 1 .none s = (ro, s')) :
    ∃ score mv, ro = some (score, mv) ∧
      Spec.clampClass score = Spec.clampClass v ∧
      (NEGATIVE_INFINITY < v → v < INFINITY → score = v) ∧
      (G.moves root ≠ [] → ∃ m, mv = some m ∧ m ∈ G.moves root) ∧
      (NEGATIVE_INFINITY < v → v < INFINITY → ∀ m x, mv = some m →
        Spec.Vd G (Spec.drawnOn G (G.hash root :: hist)) qf 0 false (G.play root m) = some x → -x = v) ∧
      s'.rep = hist := by
  have hfin : s'.stopSeen = false := by
    have := C05.findBestMove_completes_of_no_deadline G qfuel root 1 s
    rw [hrun] at this; exact this
  exact depth_one_value_history G root hist hinj qfuel qf hq .none s s' ro v hv hE hrep hrun hfin

end Flounder.Props.C09Search
