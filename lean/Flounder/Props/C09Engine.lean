/-
  C09 at the level of the engine: the `position` command followed by a search.

  `C09.position_records_history` says what `handle_position_command` leaves behind: the board reached by
  replaying the moves and, on the repetition stack, the hashes of the boards left behind, most recent first
  (`(past.map (hash k)).reverse`, `past` oldest first) — and nothing else changes (`handlePosition_tt`, …).
  `C09SearchChess.chess_find_best_move_value_history` says what a completed `find_best_move` started on any
  stack returns.  Put together, for an engine whose table is empty (the initial state, or right after
  `ucinewgame`):

    * `position_then_search_value`  a completed `find_best_move` on the state left by the `position` command
          reports the value of the board reached in the minimax tree in which every board whose hash stands
          twice on  hash(fin) :: hashes of the game so far  is a leaf of value 0 below the root;
    * `position_then_go_value`      the same for the `go` command itself (`handleGo`): what is printed comes
          from that score and a rules-legal move;
    * `replay_good`                 the boards of a game replayed from a good board are good, so `Good fin` can
          be replaced by `Good base` (`position_then_search_value_of_base`).
-/
import Flounder.Props.C09
import Flounder.Props.C09SearchChess
import Flounder.Lemmas.KeySimEngine

namespace Flounder.Props.C09Engine
open Flounder Gen Flounder.Search Flounder.Chess Flounder.Engine Flounder.Props.QTerm
open Flounder.Lemmas.UciPosition Flounder.KeySim

/-! ### what the `position` command leaves alone -/

/-- `handle_position_command` never touches the transposition table … -/
theorem handlePosition_tt (ctx : EngineCtx) (e : Engine) (parts : List Tok) :
    (handlePosition ctx e parts).2.1.search.tt = e.search.tt := by
  cases hb : positionBase parts with
  | none =>
    obtain ⟨oc, hoc⟩ := handlePosition_no_base parts hb
    rw [hoc]
  | some ob =>
    obtain ⟨out, b0⟩ := ob
    rw [handlePosition_of_base _ _ _ _ _ hb]
    unfold positionResult
    cases movesAfter parts with
    | none => rfl
    | some ts =>
      dsimp only
      cases replay ctx.mg ts b0 with
      | none => rfl
      | some r => rfl

/-- … nor the key-draw counter … -/
theorem handlePosition_newGames (ctx : EngineCtx) (e : Engine) (parts : List Tok) :
    (handlePosition ctx e parts).2.1.newGames = e.newGames := by
  cases hb : positionBase parts with
  | none =>
    obtain ⟨oc, hoc⟩ := handlePosition_no_base parts hb
    rw [hoc]
  | some ob =>
    obtain ⟨out, b0⟩ := ob
    rw [handlePosition_of_base _ _ _ _ _ hb]
    unfold positionResult
    cases movesAfter parts with
    | none => rfl
    | some ts =>
      dsimp only
      cases replay ctx.mg ts b0 with
      | none => rfl
      | some r => rfl

/-- … nor the instrumentation counter `deeperHits`. -/
theorem handlePosition_deeperHits (ctx : EngineCtx) (e : Engine) (parts : List Tok) :
    (handlePosition ctx e parts).2.1.search.deeperHits = e.search.deeperHits := by
  cases hb : positionBase parts with
  | none =>
    obtain ⟨oc, hoc⟩ := handlePosition_no_base parts hb
    rw [hoc]
  | some ob =>
    obtain ⟨out, b0⟩ := ob
    rw [handlePosition_of_base _ _ _ _ _ hb]
    unfold positionResult
    cases movesAfter parts with
    | none => rfl
    | some ts =>
      dsimp only
      cases replay ctx.mg ts b0 with
      | none => rfl
      | some r => rfl

/-- the table of the initial state / of the state after `ucinewgame` is empty. -/
theorem ttEmpty_of_eq {t : TT} (h : t = {}) : TTEmpty t := by
  subst h; exact ttEmpty_new

/-! ### the boards of a replayed game are good -/

/-- replaying move tokens from a good board only meets good boards. -/
theorem replay_good (ts : List Tok) (base fin : Board) (past : List Board) (hg : Good base)
    (hr : replay MoveGenerator.new ts base = some (past, fin)) : Good fin ∧ ∀ b ∈ past, Good b := by
  induction ts generalizing base past with
  | nil =>
    simp only [replay, Option.some.injEq, Prod.mk.injEq] at hr
    obtain ⟨rfl, rfl⟩ := hr
    exact ⟨hg, fun b hb => by cases hb⟩
  | cons t ts ih =>
    simp only [replay] at hr
    cases hres : resolve MoveGenerator.new base t with
    | none => rw [hres] at hr; cases hr
    | some m =>
      rw [hres] at hr
      dsimp only at hr
      cases hmk : base.makeMove m with
      | none => rw [hmk] at hr; cases hr
      | some b' =>
        rw [hmk] at hr
        dsimp only at hr
        cases hrest : replay MoveGenerator.new ts b' with
        | none => rw [hrest] at hr; cases hr
        | some r =>
          obtain ⟨past', fin'⟩ := r
          rw [hrest] at hr
          dsimp only at hr
          simp only [Option.some.injEq, Prod.mk.injEq] at hr
          obtain ⟨rfl, rfl⟩ := hr
          have hmem : m ∈ (cg noKeys).moves base := List.mem_of_find?_eq_some hres
          have hgb' : Good b' := by
            have := good_movesClosed noKeys base hg m hmem
            rw [play_eq, hmk] at this
            exact this
          obtain ⟨h1, h2⟩ := ih b' past' hgb' hrest
          refine ⟨h1, fun b hb => ?_⟩
          rcases List.mem_cons.1 hb with e | e
          · subst e; exact hg
          · exact h2 b e

/-! ### `position`, then a search -/

/-- **`position …`, then `find_best_move`: the score is the value of the game tree with the recorded history.**
    Engine state `e` with an empty table (`e.search.tt = {}`: the initial state, or right after `ucinewgame`),
    current key table `k = ctx.keys e.newGames`, the search played with the generator of the source (`cg k`;
    this is the engine's own game when `ctx.mg = MoveGenerator.new`, see `position_then_go_value`).  The `position`
    command `parts` has a base board, every move token resolves; replaying them from the base leaves the boards
    `past` (oldest first) behind and reaches `fin`, a good board; the hash separates the boards within `D`
    plies of `fin`.  Let `e'` be the engine after the command.  Then every completed run of `find_best_move`
    on `e'.board` from `e'.search` (depth `D ≥ 1`, fuel `≥ QFUEL`, any `Limit`) that reused no deeper record
    reports a score in the class of — EQUAL to, when strictly inside (-32767, 32767) — the value `v` of `fin` in
    the minimax tree in which every board whose hash stands at least twice on

        hash k fin :: (past.map (hash k)).reverse          (root, then the game so far, most recent first)

    is a leaf of value 0 below the root; `v` exists; a rules-legal move is reported whenever one exists, optimal
    in that tree when `v` is inside the window; afterwards the stack is the recorded history again. -/
theorem position_then_search_value (ctx : EngineCtx) (e : Engine) (parts ts : List Tok)
    (out : List (List Char)) (base fin : Board) (past : List Board)
    (htt : e.search.tt = {})
    (hb : positionBase parts = some (out, base)) (hm : movesAfter parts = some ts)
    (hr : replay ctx.mg ts base = some (past, fin)) (hg : Good fin)
    (D qfuel : Nat) (hq : QFUEL ≤ qfuel) (hD : 1 ≤ D) (limit : Limit) (s' : SearchState)
    (ro : Option (Int × Option Move))
    (hinj : HashInjOn (cg (ctx.keys e.newGames)) (Search.Within (cg (ctx.keys e.newGames)) fin D))
    (hrun : findBestMove (cg (ctx.keys e.newGames)) qfuel (handlePosition ctx e parts).2.1.board D limit
              (handlePosition ctx e parts).2.1.search = (ro, s'))
    (hfin : s'.stopSeen = false)
    (hdh : s'.deeperHits = (handlePosition ctx e parts).2.1.search.deeperHits) :
    (handlePosition ctx e parts).2.1.board = fin ∧
    (handlePosition ctx e parts).2.1.search.rep = (past.map (hash (ctx.keys e.newGames))).reverse ∧
    ∃ v, Spec.Vd (cg (ctx.keys e.newGames))
          (Spec.drawnOn (cg (ctx.keys e.newGames))
            (hash (ctx.keys e.newGames) fin :: (past.map (hash (ctx.keys e.newGames))).reverse))
          QFUEL D true fin = some v ∧
    ∃ score mv, ro = some (score, mv) ∧
      Spec.clampClass score = Spec.clampClass v ∧
      (NEGATIVE_INFINITY < v → v < INFINITY → score = v) ∧
      ((∃ m, Spec.legal (Spec.abs fin) m = true) → ∃ m, mv = some m ∧ Spec.legal (Spec.abs fin) m = true) ∧
      (NEGATIVE_INFINITY < v → v < INFINITY → ∀ j m x, D = j + 1 → mv = some m →
        Spec.Vd (cg (ctx.keys e.newGames))
          (Spec.drawnOn (cg (ctx.keys e.newGames))
            (hash (ctx.keys e.newGames) fin :: (past.map (hash (ctx.keys e.newGames))).reverse))
          QFUEL j false ((cg (ctx.keys e.newGames)).play fin m) = some x → -x = v) ∧
      s'.rep = (past.map (hash (ctx.keys e.newGames))).reverse := by
  have hE : TTEmpty (handlePosition ctx e parts).2.1.search.tt := by
    rw [handlePosition_tt]; exact ttEmpty_of_eq htt
  have hbd : (handlePosition ctx e parts).2.1.board = fin := by
    rw [C09.position_records_history ctx e parts ts out base fin past hb hm hr]
  have hrep : (handlePosition ctx e parts).2.1.search.rep = (past.map (hash (ctx.keys e.newGames))).reverse := by
    rw [C09.position_records_history ctx e parts ts out base fin past hb hm hr]
  refine ⟨hbd, hrep, ?_⟩
  rw [hbd] at hrun
  obtain ⟨v, hv, score, mv, h1, h2, h3, h4, h5, _, h7⟩ :=
    C09SearchChess.chess_find_best_move_value_history (ctx.keys e.newGames) fin hg
      (past.map (hash (ctx.keys e.newGames))).reverse D qfuel hq hD limit
      (handlePosition ctx e parts).2.1.search s' ro hinj
      (ttSoundD_of_empty (cg (ctx.keys e.newGames)) hE _ _ _ _) hrep hrun hfin hdh
  exact ⟨v, hv, score, mv, h1, h2, h3, h4, h5, h7⟩

/-- the same with the goodness hypothesis on the BASE board of the command (`startpos`, a parsed FEN): the
    boards of the game replayed from it are good. -/
theorem position_then_search_value_of_base (ctx : EngineCtx) (e : Engine) (parts ts : List Tok)
    (out : List (List Char)) (base fin : Board) (past : List Board)
    (hmg : ctx.mg = MoveGenerator.new) (htt : e.search.tt = {})
    (hb : positionBase parts = some (out, base)) (hm : movesAfter parts = some ts)
    (hr : replay ctx.mg ts base = some (past, fin)) (hg : Good base)
    (D qfuel : Nat) (hq : QFUEL ≤ qfuel) (hD : 1 ≤ D) (limit : Limit) (s' : SearchState)
    (ro : Option (Int × Option Move))
    (hinj : HashInjOn (cg (ctx.keys e.newGames)) (Search.Within (cg (ctx.keys e.newGames)) fin D))
    (hrun : findBestMove (cg (ctx.keys e.newGames)) qfuel (handlePosition ctx e parts).2.1.board D limit
              (handlePosition ctx e parts).2.1.search = (ro, s'))
    (hfin : s'.stopSeen = false)
    (hdh : s'.deeperHits = (handlePosition ctx e parts).2.1.search.deeperHits) :
    ∃ v, Spec.Vd (cg (ctx.keys e.newGames))
          (Spec.drawnOn (cg (ctx.keys e.newGames))
            (hash (ctx.keys e.newGames) fin :: (past.map (hash (ctx.keys e.newGames))).reverse))
          QFUEL D true fin = some v ∧
    ∃ score mv, ro = some (score, mv) ∧
      Spec.clampClass score = Spec.clampClass v ∧
      (NEGATIVE_INFINITY < v → v < INFINITY → score = v) ∧
      ((∃ m, Spec.legal (Spec.abs fin) m = true) → ∃ m, mv = some m ∧ Spec.legal (Spec.abs fin) m = true) := by
  have hgf : Good fin := (replay_good ts base fin past hg (hmg ▸ hr)).1
  obtain ⟨_, _, v, hv, score, mv, h1, h2, h3, h4, _, _⟩ :=
    position_then_search_value ctx e parts ts out base fin past htt hb hm hr hgf D qfuel hq hD limit s' ro
      hinj hrun hfin hdh
  exact ⟨v, hv, score, mv, h1, h2, h3, h4⟩

/-! ### `position`, then `go` -/

/-- **`position …`, then `go …`** (the two commands as the engine handles them).  As above; `gparts` any `go`
    command, `D` the depth it asks for, the engine's own fuel `ctx.qfuel ≥ QFUEL`.  If the search of the `go`
    command completed (`stopSeen = false` in the state it leaves) and reused no deeper record, then the command
    did what `goResult` does with a score `score` in the class of the value `v` of `fin` in the tree with the
    recorded history, and a rules-legal move whenever one exists (so the last line printed is `bestmove` of a
    rules-legal move). -/
theorem position_then_go_value (ctx : EngineCtx) (e : Engine) (parts ts gparts : List Tok)
    (out : List (List Char)) (base fin : Board) (past : List Board)
    (hmg : ctx.mg = MoveGenerator.new) (htt : e.search.tt = {})
    (hb : positionBase parts = some (out, base)) (hm : movesAfter parts = some ts)
    (hr : replay ctx.mg ts base = some (past, fin)) (hg : Good fin)
    (hq : QFUEL ≤ ctx.qfuel) (hD : 1 ≤ (goParams fin.active gparts).depth)
    (hinj : HashInjOn (cg (ctx.keys e.newGames))
      (Search.Within (cg (ctx.keys e.newGames)) fin (goParams fin.active gparts).depth))
    (hfin : (handleGo ctx (handlePosition ctx e parts).2.1 gparts).2.1.search.stopSeen = false)
    (hdh : (handleGo ctx (handlePosition ctx e parts).2.1 gparts).2.1.search.deeperHits = e.search.deeperHits) :
    ∃ v, Spec.Vd (cg (ctx.keys e.newGames))
          (Spec.drawnOn (cg (ctx.keys e.newGames))
            (hash (ctx.keys e.newGames) fin :: (past.map (hash (ctx.keys e.newGames))).reverse))
          QFUEL (goParams fin.active gparts).depth true fin = some v ∧
    ∃ score mv s', handleGo ctx (handlePosition ctx e parts).2.1 gparts =
        goResult (handlePosition ctx e parts).2.1 (some (score, mv), s') ∧
      Spec.clampClass score = Spec.clampClass v ∧
      (NEGATIVE_INFINITY < v → v < INFINITY → score = v) ∧
      ((∃ m, Spec.legal (Spec.abs fin) m = true) → ∃ m, mv = some m ∧ Spec.legal (Spec.abs fin) m = true) ∧
      s'.rep = (past.map (hash (ctx.keys e.newGames))).reverse := by
  have hbd : (handlePosition ctx e parts).2.1.board = fin := by
    rw [C09.position_records_history ctx e parts ts out base fin past hb hm hr]
  have hng := handlePosition_newGames ctx e parts
  have hdh' := handlePosition_deeperHits ctx e parts
  rw [handleGo_eq] at hfin hdh ⊢
  rw [hng, hmg, hbd] at hfin hdh ⊢
  rcases hrun : findBestMove (chessGame MoveGenerator.new (ctx.keys e.newGames)) ctx.qfuel fin
      (goParams fin.active gparts).depth (goLimit (handlePosition ctx e parts).2.1 gparts)
      (handlePosition ctx e parts).2.1.search with ⟨ro, s'⟩
  rw [hrun] at hfin hdh
  have hs' : ∀ r, (goResult (handlePosition ctx e parts).2.1 (r, s')).2.1.search = s' := by
    intro r
    cases r with
    | none => rfl
    | some x => rfl
  rw [hs'] at hfin hdh
  have hrun' : findBestMove (cg (ctx.keys e.newGames)) ctx.qfuel (handlePosition ctx e parts).2.1.board
      (goParams fin.active gparts).depth (goLimit (handlePosition ctx e parts).2.1 gparts)
      (handlePosition ctx e parts).2.1.search = (ro, s') := by rw [hbd]; exact hrun
  obtain ⟨_, _, v, hv, score, mv, h1, h2, h3, h4, _, h6⟩ :=
    position_then_search_value ctx e parts ts out base fin past htt hb hm hr hg
      (goParams fin.active gparts).depth ctx.qfuel hq hD _ s' ro hinj hrun' hfin (by rw [hdh, hdh'])
  subst h1
  exact ⟨v, hv, score, mv, s', rfl, h2, h3, h4, h6⟩

/-! ### non-vacuity: the states the table hypothesis is about -/

/-- the initial state has an empty table … -/
example : ({} : Engine).search.tt = {} := rfl

/-- … and so has every state right after `ucinewgame`. -/
example (ctx : EngineCtx) (e : Engine) : (handleCommand ctx e [kwUcinewgame]).2.1.search.tt = {} := by
  have h1 : kwUcinewgame ≠ kwUci := by decide
  have h2 : kwUcinewgame ≠ kwIsready := by decide
  simp [handleCommand, h1, h2]

/-- the start position is a good base board. -/
example : Good Board.startpos := good_startpos

end Flounder.Props.C09Engine

#print axioms Flounder.Props.C09Engine.handlePosition_tt
#print axioms Flounder.Props.C09Engine.replay_good
#print axioms Flounder.Props.C09Engine.position_then_search_value
#print axioms Flounder.Props.C09Engine.position_then_search_value_of_base
#print axioms Flounder.Props.C09Engine.position_then_go_value
