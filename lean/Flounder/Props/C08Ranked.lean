/-
  C08, in the forms needed for real chess.

  `Props/C08.lean` proves "mate in one is played" under `EvalBound G` (for ALL positions of the game) and "an
  avoidable mate in one is avoided" under `EvalBound G` plus a set closed under all moves with an injective hash.
  Neither hypothesis holds for the chess instance: the evaluation bound fails on impossible bitboards and no 64-bit
  hash is injective on a move-closed set of chess boards.  Here:

    1. `avoidable_mate_avoided_move_ranked` / `_horizon` : part (b) for a depth-ranked family; the only hash
       hypothesis of the `_horizon` form is injectivity on the positions within `D` plies of the root
       (Lemmas/MateAvoidRanked.lean);
    2. `mate_in_one_played_of_invariant`, `avoidable_mate_avoided_move_of_invariant` : both parts with the
       evaluation bound required only on an INVARIANT `I` of the game (preserved by generated and quiescence
       moves) that holds at the root — through `Game.restrict` (Lemmas/GameRestrict.lean), whose search is equal
       to the search of the game.
  Non-vacuity: `avoidable_mate_avoided_horizon_nonvacuous`, `of_invariant_nonvacuous` (toy games of C08).
-/
import Flounder.Props.C08
import Flounder.Lemmas.MateAvoidRanked
import Flounder.Lemmas.GameRestrict
import Flounder.Props.SearchRanked

namespace Flounder.Props.C08
open Flounder Gen Flounder.Search

section ranked
variable {P : Type} (G : Game P)

/-! ## 1. part (b), ranked -/

/-- **(b), ranked.**  Root in `S D`, hash injective on `Ranked.U S` only. -/
theorem avoidable_mate_avoided_move_ranked {S : Nat → P → Prop} {qf qfuel D : Nat} {p : P} {limit : Limit}
    {score : Int} {mv : Option Move} {s' : SearchState}
    (hE : EvalBound G) (hr : Ranked G S) (hinj : HashInj G (Ranked.U S)) (hSp : S D p) (hq : qf ≤ qfuel)
    (hD : D = 2 ∨ D = 3) (hV : ∀ d, 1 ≤ d → d ≤ D → ∃ w, Spec.V G qf d p = some w)
    (hsafe : ∃ m, m ∈ G.moves p ∧ ¬ AllowsMate G p m)
    (hrun : findBestMove G qfuel p D limit {} = (some (score, mv), s')) (hfin : s'.stopSeen = false)
    (hdh : s'.deeperHits = 0) :
    ∃ m, mv = some m ∧ m ∈ G.moves p ∧ ¬ AllowsMate G p m := by
  obtain ⟨sc, m, h1, hmem, hns⟩ := findBestMove_safe_ranked G hE hr hinj qfuel hq p D hSp hD hV hsafe limit
    (by rw [hrun]; exact hfin) (by rw [hrun]; exact hdh)
  rw [hrun] at h1
  cases h1
  exact ⟨m, rfl, hmem, hns⟩

/-- **(b) within the horizon**: the hash separates the positions within `D` plies of the root. -/
theorem avoidable_mate_avoided_move_horizon {qf qfuel D : Nat} {p : P} {limit : Limit}
    {score : Int} {mv : Option Move} {s' : SearchState}
    (hE : EvalBound G) (hinj : HashInjOn G (Within G p D)) (hq : qf ≤ qfuel)
    (hD : D = 2 ∨ D = 3) (hV : ∀ d, 1 ≤ d → d ≤ D → ∃ w, Spec.V G qf d p = some w)
    (hsafe : ∃ m, m ∈ G.moves p ∧ ¬ AllowsMate G p m)
    (hrun : findBestMove G qfuel p D limit {} = (some (score, mv), s')) (hfin : s'.stopSeen = false)
    (hdh : s'.deeperHits = 0) :
    ∃ m, mv = some m ∧ m ∈ G.moves p ∧ ¬ AllowsMate G p m :=
  avoidable_mate_avoided_move_ranked G hE (horizon_ranked G p D) (SearchRanked.hashInj_horizon G hinj)
    (horizon_root G p D) hq hD hV hsafe hrun hfin hdh

/-- a set that is closed under the moves contains everything within any number of plies of its elements. -/
theorem within_of_closed {S : P → Prop} (hcl : Closed G S) {root : P} (hr : S root) {n : Nat} {q : P}
    (h : Within G root n q) : S q := by
  induction h with
  | root n => exact hr
  | step _ hm ih => exact hcl _ _ ih hm

end ranked

/-- non-vacuity of the horizon form: on the toy game `avGame` every hypothesis holds at depth 2 and 3 and the
    answer is the safe move. -/
theorem avoidable_mate_avoided_horizon_nonvacuous (D : Nat) (hD : D = 2 ∨ D = 3) :
    EvalBound avGame ∧ HashInjOn avGame (Within avGame 0 D) ∧
    (∀ d, 1 ≤ d → d ≤ D → ∃ w, Spec.V avGame 1 d 0 = some w) ∧
    (∃ m, m ∈ avGame.moves 0 ∧ ¬ AllowsMate avGame 0 m) ∧
    ∃ score s', findBestMove avGame 1 0 D .none {} = (some (score, some avB), s') ∧
      s'.stopSeen = false ∧ s'.deeperHits = 0 := by
  obtain ⟨hE, hcl, hinj, hS0, hV, hsafe, _, hrun⟩ := avoidable_mate_avoided_nonvacuous D hD
  refine ⟨hE, ?_, hV, hsafe, hrun⟩
  intro a b ha hb e
  exact hinj a b (within_of_closed avGame hcl hS0 ha) (within_of_closed avGame hcl hS0 hb) e

/-! ## 2. the evaluation bound on an invariant only -/

section invariant
variable {P : Type} (G : Game P) (I : P → Prop)
  (hm : ∀ p m, I p → m ∈ G.moves p → I (G.play p m))
  (hq : ∀ p m, I p → m ∈ G.qmoves p → I (G.play p m))
include hm hq

/-- the restricted game is bounded as soon as the game is bounded on the invariant. -/
theorem evalBound_restrict (hE : ∀ p, I p → -INFINITY < G.eval p ∧ G.eval p < INFINITY) :
    EvalBound (G.restrict I hm hq) := fun p => hE p.1 p.2

theorem mated_restrict (q : {p // I p}) : Mated (G.restrict I hm hq) q ↔ Mated G q.1 := Iff.rfl

theorem canMate_restrict (q : {p // I p}) : CanMate (G.restrict I hm hq) q ↔ CanMate G q.1 := by
  unfold CanMate
  constructor
  · rintro ⟨r, hr, hmt⟩
    refine ⟨r, hr, ?_⟩
    have := (mated_restrict G I hm hq _).1 hmt
    rw [Restrict.play_val G I hm hq q r (Or.inl hr)] at this
    exact this
  · rintro ⟨r, hr, hmt⟩
    refine ⟨r, hr, (mated_restrict G I hm hq _).2 ?_⟩
    rw [Restrict.play_val G I hm hq q r (Or.inl hr)]
    exact hmt

theorem mates_restrict (p : {p // I p}) (m : Move) (h : m ∈ G.moves p.1) :
    Mates (G.restrict I hm hq) p m ↔ Mates G p.1 m := by
  rw [mates_iff_mated, mates_iff_mated, mated_restrict, Restrict.play_val G I hm hq p m (Or.inl h)]

theorem allowsMate_restrict (p : {p // I p}) (m : Move) (h : m ∈ G.moves p.1) :
    AllowsMate (G.restrict I hm hq) p m ↔ AllowsMate G p.1 m := by
  rw [allowsMate_iff_allows, allowsMate_iff_allows]
  unfold Allows
  rw [canMate_restrict, Restrict.play_val G I hm hq p m (Or.inl h)]

/-- the positions within `n` plies: of the restricted game … -/
theorem within_restrict_val {p q : {p // I p}} {n : Nat} (h : Within (G.restrict I hm hq) p n q) :
    Within G p.1 n q.1 := by
  induction h with
  | root n => exact Within.root n
  | step _ hmem ih =>
    rw [Restrict.play_val G I hm hq _ _ (Or.inl hmem)]
    exact Within.step ih hmem

/-- … and of the game (they all satisfy the invariant). -/
theorem within_restrict_of {p : {p // I p}} {n : Nat} {q : P} (h : Within G p.1 n q) :
    ∃ hq' : I q, Within (G.restrict I hm hq) p n ⟨q, hq'⟩ := by
  induction h with
  | root n => exact ⟨p.2, Within.root n⟩
  | step _ hmem ih =>
    obtain ⟨hq', hw⟩ := ih
    refine ⟨hm _ _ hq' hmem, ?_⟩
    have := Within.step (G := G.restrict I hm hq) hw (m := _) hmem
    rw [Restrict.play_moves G I hm hq ⟨_, hq'⟩ _ hmem] at this
    exact this

omit hq in
theorem invariant_within {root : P} (hroot : I root) {n : Nat} {q : P} (h : Within G root n q) : I q := by
  induction h with
  | root n => exact hroot
  | step _ hmem ih => exact hm _ _ ih hmem

theorem hashInjOn_restrict {p : {p // I p}} {D : Nat} (h : HashInjOn G (Within G p.1 D)) :
    HashInjOn (G.restrict I hm hq) (Within (G.restrict I hm hq) p D) := by
  intro a b ha hb e
  exact Subtype.ext (h a.1 b.1 (within_restrict_val G I hm hq ha) (within_restrict_val G I hm hq hb) e)

/-- **(a) with the evaluation bound on an invariant.**  `I` is preserved by generated and quiescence moves and
    holds at the root; the static evaluation is strictly inside the window on `I`. -/
theorem mate_in_one_played_of_invariant {qfuel D : Nat} {p : P} {limit : Limit} {score : Int}
    {mv : Option Move} {s' : SearchState}
    (hE : ∀ p, I p → -INFINITY < G.eval p ∧ G.eval p < INFINITY) (hp : I p)
    (hnc : ∀ m, m ∈ G.moves p → G.hash (G.play p m) ≠ G.hash p)
    (hD : 1 ≤ D) (hDb : (D : Int) + INFINITY ≤ CHECKMATE_SCORE)
    (hmate : ∃ m, m ∈ G.moves p ∧ Mates G p m)
    (hrun : findBestMove G qfuel p D limit {} = (some (score, mv), s')) (hfin : s'.stopSeen = false) :
    ∃ m, mv = some m ∧ m ∈ G.moves p ∧ Mates G p m := by
  have hrun' : findBestMove (G.restrict I hm hq) qfuel ⟨p, hp⟩ D limit {} = (some (score, mv), s') := by
    rw [Restrict.findBestMove_restrict' G I hm hq]; exact hrun
  obtain ⟨m, hmm, hmate'⟩ := hmate
  obtain ⟨m', e, hmem, hmt⟩ := mate_in_one_played_of (G.restrict I hm hq) (evalBound_restrict G I hm hq hE)
    (p := ⟨p, hp⟩)
    (fun m hmem => by
      show G.hash ((G.restrict I hm hq).play ⟨p, hp⟩ m).1 ≠ G.hash p
      rw [Restrict.play_val G I hm hq ⟨p, hp⟩ m (Or.inl hmem)]
      exact hnc m hmem)
    hD hDb ⟨m, hmm, (mates_restrict G I hm hq ⟨p, hp⟩ m hmm).2 hmate'⟩ hrun' hfin
  exact ⟨m', e, hmem, (mates_restrict G I hm hq ⟨p, hp⟩ m' hmem).1 hmt⟩

/-- **(b) with the evaluation bound on an invariant**, hash injective within `D` plies of the root. -/
theorem avoidable_mate_avoided_move_of_invariant {qf qfuel D : Nat} {p : P} {limit : Limit} {score : Int}
    {mv : Option Move} {s' : SearchState}
    (hE : ∀ p, I p → -INFINITY < G.eval p ∧ G.eval p < INFINITY) (hp : I p)
    (hinj : HashInjOn G (Within G p D)) (hqf : qf ≤ qfuel)
    (hD : D = 2 ∨ D = 3) (hV : ∀ d, 1 ≤ d → d ≤ D → ∃ w, Spec.V G qf d p = some w)
    (hsafe : ∃ m, m ∈ G.moves p ∧ ¬ AllowsMate G p m)
    (hrun : findBestMove G qfuel p D limit {} = (some (score, mv), s')) (hfin : s'.stopSeen = false)
    (hdh : s'.deeperHits = 0) :
    ∃ m, mv = some m ∧ m ∈ G.moves p ∧ ¬ AllowsMate G p m := by
  have hrun' : findBestMove (G.restrict I hm hq) qfuel ⟨p, hp⟩ D limit {} = (some (score, mv), s') := by
    rw [Restrict.findBestMove_restrict' G I hm hq]; exact hrun
  obtain ⟨m, hmm, hns⟩ := hsafe
  obtain ⟨m', e, hmem, hns'⟩ := avoidable_mate_avoided_move_horizon (G.restrict I hm hq)
    (evalBound_restrict G I hm hq hE) (p := ⟨p, hp⟩) (hashInjOn_restrict G I hm hq hinj) hqf hD
    (fun d h1 h2 => by
      obtain ⟨w, hw⟩ := hV d h1 h2
      exact ⟨w, by rw [Restrict.V_restrict G I hm hq]; exact hw⟩)
    ⟨m, hmm, fun h => hns ((allowsMate_restrict G I hm hq ⟨p, hp⟩ m hmm).1 h)⟩ hrun' hfin hdh
  exact ⟨m', e, hmem, fun h => hns' ((allowsMate_restrict G I hm hq ⟨p, hp⟩ m' hmem).2 h)⟩

end invariant

/-- non-vacuity of the invariant forms: on `okGame` (part (a)) and `avGame` (part (b)) the trivial invariant
    meets the hypotheses, every other hypothesis holds, and the runs answer the mating move `evB` and the safe
    move `avB`. -/
theorem of_invariant_nonvacuous :
    (∃ score s', findBestMove okGame 1 0 3 .none {} = (some (score, some evB), s') ∧ s'.stopSeen = false ∧
      Mates okGame 0 evB) ∧
    (∃ score s', findBestMove avGame 1 0 2 .none {} = (some (score, some avB), s') ∧ s'.stopSeen = false ∧
      ¬ AllowsMate avGame 0 avB) := by
  obtain ⟨hE1, hnc, hDb, hmate, score, s', hrun, hfin⟩ := mate_in_one_played_nonvacuous
  obtain ⟨hE2, hinj, hV, hsafe, score2, s2, hrun2, hfin2, hdh2⟩ :=
    avoidable_mate_avoided_horizon_nonvacuous 2 (Or.inl rfl)
  constructor
  · obtain ⟨m, e, _, hmt⟩ := mate_in_one_played_of_invariant okGame (fun _ => True) (fun _ _ _ _ => trivial)
      (fun _ _ _ _ => trivial) (fun p _ => hE1 p) trivial hnc (by decide) hDb hmate hrun hfin
    cases e
    exact ⟨score, s', hrun, hfin, hmt⟩
  · obtain ⟨m, e, _, hns⟩ := avoidable_mate_avoided_move_of_invariant avGame (fun _ => True)
      (fun _ _ _ _ => trivial) (fun _ _ _ _ => trivial) (fun p _ => hE2 p) trivial hinj (Nat.le_refl 1)
      (Or.inl rfl) hV hsafe hrun2 hfin2 hdh2
    cases e
    exact ⟨score2, s2, hrun2, hfin2, hns⟩

end Flounder.Props.C08
