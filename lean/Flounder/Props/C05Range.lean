/-
  C05 (range) — the score arithmetic of the search never leaves the `i32` range.

  The Rust search computes with `i32` scores (`-x`, `-CHECKMATE_SCORE + depth as i32`, `max`, comparisons), `i32`
  sort keys (`-(score as i32) - 1000`, `-history_score`), an `i8` key in `order_captures`, a saturating `i32`
  history table and `u8` depth / ply.  The model (Model/Search.lean) uses `Int` / `Nat`.  This file justifies that:
  every value the model computes at an arithmetic site is representable in the Rust type of that site, so wrapping
  (release), panicking (debug) and exact integer arithmetic all compute the same thing.

  Vocabulary (Lemmas/ScoreRange.lean, Lemmas/ScoreRangeSearch.lean):
  * `I32 x`, `I8 x`, `U8 n`        : machine ranges.   `Sym B x` : `-B ≤ x ≤ B`.
  * `BoundOK B`                    : `CHECKMATE_SCORE ≤ B ≤ i32::MAX`.  Two instances matter:
                                     `B = CHECKMATE_SCORE` (tight: what holds from the fresh state) and
                                     `B = i32::MAX` (weakest: "no stored score is `i32::MIN`").
  * `StateOK B s`                  : every table record (`TTBound`: ALL records of the raw map, key-verified or not)
                                     has `|eval| ≤ B`; every history score lies in `[-i32::MAX, i32::MAX]`
                                     (`HistSym`); every printed `info` score has `|score| ≤ B`.
  * `EvalI32 G`                    : the evaluator returns an `i32`.  NOTHING more is needed of it (`EvalBound` is
                                     not): quiescence only ever compares the stand-pat score and takes
                                     `max alpha stand_pat` below `beta`.
  * `quiesceSites`, `quiesceLoopSites`, `negamaxSites`, `negamaxLoopSites`, `innerSites`, `searchPositionSites`,
    `iterateSites`, `findBestMoveSites`, `orderKeySites`, `captureKeySites`, `cutoffSites`
                                   : the arithmetic-site predicates — the model's control flow with each
                                     arithmetic expression of the source replaced by "is representable".
      sites covered:  `-beta`, `-alpha` (both loops), the child's returned score `v` and `-v`, `max(alpha, score)`,
      `-CHECKMATE_SCORE`, `-CHECKMATE_SCORE + depth as i32`, `depth as i32`, the stand-pat score and
      `max(alpha, stand_pat)`, a cached score, the root score that is cached and printed, `ply + 1` in `u8`,
      `score: i8`, `-score` in `i8` (`order_captures`), `-(score as i32)`, `-(score as i32) - 1000`,
      `-history.get_score(mv)`, `(depth as i32) * (depth as i32)`, `saturating_add` (no saturation at the lower
      end, result representable), `scores[..] /= 2`.
      not arithmetic, hence no site: comparisons, `min`/`max` inside the probe (no new value is formed that is not
      one of its arguments — `max`'s result is asserted where it is kept), `depth - 1` in `u8` (guarded by the
      `depth == 0` return), the `1..=max_depth` range iterator, the `u64` node counter.

  Results.
  0. `negamax_i32_eq_int`, `find_best_move_i32_eq_int`, `uci_go_i32_eq_int` (section 1b): the search with every
     operation performed on machine integers (`W.negamax`, … in Lemmas/ScoreWrap.lean: `wrap32` around every `i32`
     operation, `wrap8`, `wrapU8`, two-sided `saturating_add`) returns the same result and state as the `Int` model.
     This is derived FROM the site predicates (`negamaxW_eq : negamaxSites … → W.negamax … = negamax …`), so the
     predicates provably list every site that matters.
  1. `negamax_in_range`, `quiesce_in_range`, `search_position_in_range`, `find_best_move_in_range`: windows in
     `[-B, B]`, `StateOK B`, `ply + depth ≤ 255` ⟹ all sites hold, the returned score is in `[-B, B]` (so it and
     its negation are `i32`), and `StateOK B` holds again afterwards.  Every game, limit, fuel, table content.
  2. `stateOK_fresh`, `searches_in_range`: from the fresh state every sequence of `find_best_move` calls stays
     within `B = CHECKMATE_SCORE`; `uci_state_in_range`, `uci_go_sites`: the same for the chess engine under every
     sequence of UCI commands (no side condition on the board: `eval_no_overflow_i32` holds for every board, and
     `go` caps the depth at 64).
  3. What the hypotheses are for (section 4):
     * table scores: `-r.score` overflows exactly for a cached `i32::MIN` (`cached_min_breaks`, concrete run
       `min_entry_breaks_root`).  This is the one place where an `i32` engine and the `Int` model can part:
       Rust yields `i32::MIN` again (release) or panics (debug), the model yields `2147483648`.
     * depth: `depth ≤ 64` is NOT needed.  `depth: u8` is enough for every site; were `depth` wider, the first
       failing site would be `depth * depth` at 46341 (`depth_sq_overflows`), the terminal score only far later
       (`terminal_overflows`).  `ply + 1` needs `ply < 255`, which `ply + depth = root depth ≤ 255` gives.
     * history: `HistSym` = every entry is an `i32` other than `i32::MIN` (`histSym_iff`); `HistOK` (Lemmas/MateOrder,
       upper bound only) is not enough for the key `-history_score` (`history_min_breaks_key`).
     * the window needs no relation to `[NEGATIVE_INFINITY, INFINITY]` and no `alpha < beta`: only `≠ i32::MIN`.
     * the evaluator: `EvalI32` only (`evalI32_of_evalBound`: it follows from `EvalBound`); it is used for the one
       site that IS the evaluator's value.
-/
import Flounder.Lemmas.ScoreWrap
import Flounder.Lemmas.KeySimEngine
import Flounder.Props.C14Bound
import Flounder.Lemmas.ChessGame

namespace Flounder.Props.C05Range
open Flounder Gen Flounder.Search Flounder.Range Flounder.KeySim Flounder.Lemmas.UciPosition Flounder.Engine

/-! ## 0. how `I32` relates to what Rust does

  `wrap32`, `wrap8`, `wrapU8`, `sat32` (Lemmas/ScoreWrap.lean) are release-mode Rust arithmetic;
  `wrap32 x = x ↔ I32 x` (`wrap32_eq_iff`): a representable result is what wrapping arithmetic yields, and no
  debug-mode overflow check fires.  `W.negamax`, … are the search with every operation wrapped. -/

/-- where `cutoffSites` holds, the model's one-sided clip IS `saturating_add`. -/
theorem recordCutoff_is_saturating_add (s : SearchState) (mv : Move) (d : Nat) (h : cutoffSites s mv d) :
    (if s.historyScore mv + (d : Int) * (d : Int) > SearchState.i32Max then SearchState.i32Max
      else s.historyScore mv + (d : Int) * (d : Int)) = sat32 (s.historyScore mv + (d : Int) * (d : Int)) := by
  obtain ⟨_, _, _, h4, _⟩ := h
  unfold sat32
  rw [i32Max_eq']
  split
  · rfl
  · rw [if_neg (by omega)]

section generic
variable {P : Type} (G : Game P)

/-! ## 1. the invariant theorems -/

/-- **quiescence.** -/
theorem quiesce_in_range {B : Int} (hB : BoundOK B) (hE : EvalI32 G) (fuel : Nat) (p : P) (α β : Int)
    (s : SearchState) (hα : Sym B α) (hβ : Sym B β) (hs : StateOK B s) :
    quiesceSites G fuel p α β s ∧
    (∀ v, (quiesce G fuel p α β s).1 = some v → Sym B v ∧ I32 v ∧ I32 (-v)) ∧
    StateOK B (quiesce G fuel p α β s).2 :=
  have h := quiesce_range G hB hE fuel p α β s hα hβ hs
  ⟨h.sites, fun v hv => ⟨h.score v hv, (h.score v hv).i32 hB, (h.score v hv).neg_i32 hB⟩, h.state⟩

/-- **`negamax`.**  `ply + d ≤ 255`: both are `u8` in Rust and their sum is the root depth. -/
theorem negamax_in_range {B : Int} (hB : BoundOK B) (hE : EvalI32 G) (qfuel d : Nat) (p : P) (ply : Nat) (α β : Int)
    (s : SearchState) (hd : ply + d ≤ 255) (hα : Sym B α) (hβ : Sym B β) (hs : StateOK B s) :
    negamaxSites G qfuel d p ply α β s ∧
    (∀ r, (negamax G qfuel d p ply α β s).1 = some r → Sym B r.score ∧ I32 r.score ∧ I32 (-r.score)) ∧
    StateOK B (negamax G qfuel d p ply α β s).2 :=
  have h := negamax_range G hB hE qfuel d p ply α β s hd hα hβ hs
  ⟨h.sites, fun r hr => ⟨h.score r hr, (h.score r hr).i32 hB, (h.score r hr).neg_i32 hB⟩, h.state⟩

/-- **`search_position`** (root window `(NEGATIVE_INFINITY, INFINITY)`). -/
theorem search_position_in_range {B : Int} (hB : BoundOK B) (hE : EvalI32 G) (qfuel : Nat) (p : P) (depth : Nat)
    (hd : depth ≤ 255) (s : SearchState) (hs : StateOK B s) :
    searchPositionSites G qfuel p depth s ∧
    (∀ r, (searchPosition G qfuel p depth s).1 = some r → Sym B r.score ∧ I32 r.score) ∧
    StateOK B (searchPosition G qfuel p depth s).2 :=
  have h := searchPosition_range G hB hE qfuel p depth hd s hs
  ⟨h.sites, fun r hr => ⟨h.score r hr, (h.score r hr).i32 hB⟩, h.state⟩

/-- **`find_best_move`**: all sites, the returned score, and afterwards again: every table record, every history
    score, every printed score in range. -/
theorem find_best_move_in_range {B : Int} (hB : BoundOK B) (hE : EvalI32 G) (qfuel : Nat) (p : P) (maxDepth : Nat)
    (hmax : maxDepth ≤ 255) (limit : Limit) (s : SearchState) (hs : StateOK B s) :
    findBestMoveSites G qfuel p maxDepth limit s ∧
    (∀ b, (findBestMove G qfuel p maxDepth limit s).1 = some b → Sym B b.1 ∧ I32 b.1) ∧
    StateOK B (findBestMove G qfuel p maxDepth limit s).2 :=
  have h := findBestMove_range G hB hE qfuel p maxDepth hmax limit s hs
  ⟨h.sites, fun b hb => ⟨h.score b hb, (h.score b hb).i32 hB⟩, h.state⟩

/-- the printed `info` scores after a search are `i32` (they are the cached root scores). -/
theorem info_scores_i32 {B : Int} (hB : BoundOK B) (hE : EvalI32 G) (qfuel : Nat) (p : P) (maxDepth : Nat)
    (hmax : maxDepth ≤ 255) (limit : Limit) (s : SearchState) (hs : StateOK B s) :
    ∀ e ∈ (findBestMove G qfuel p maxDepth limit s).2.info, I32 e.2.1 := fun e he =>
  ((find_best_move_in_range G hB hE qfuel p maxDepth hmax limit s hs).2.2.info e he).i32 hB

/-- `EvalBound` (Lemmas/SearchBasic.lean) is more than enough. -/
theorem evalI32_of_evalBound (h : EvalBound G) : EvalI32 G := by
  intro p
  have := h p
  rw [inf_eq] at this
  unfold I32; omega

/-! ## 1b. the search on machine integers IS the model

  `W.…` (Lemmas/ScoreWrap.lean): the search with every `i32` / `i8` / `u8` operation of the source wrapped the way
  release-mode Rust wraps it, `saturating_add` saturating at both ends.  Under the range hypotheses it returns the
  same result and the same state as the `Int` model — the statement "modelling `i32` by `Int` loses nothing". -/

theorem quiesce_i32_eq_int {B : Int} (hB : BoundOK B) (hE : EvalI32 G) (fuel : Nat) (p : P) (α β : Int)
    (s : SearchState) (hα : Sym B α) (hβ : Sym B β) (hs : StateOK B s) :
    W.quiesce G fuel p α β s = quiesce G fuel p α β s :=
  quiesceW_eq G fuel p α β s (quiesce_in_range G hB hE fuel p α β s hα hβ hs).1

theorem negamax_i32_eq_int {B : Int} (hB : BoundOK B) (hE : EvalI32 G) (qfuel d : Nat) (p : P) (ply : Nat) (α β : Int)
    (s : SearchState) (hd : ply + d ≤ 255) (hα : Sym B α) (hβ : Sym B β) (hs : StateOK B s) :
    W.negamax G qfuel d p ply α β s = negamax G qfuel d p ply α β s :=
  negamaxW_eq G qfuel d p ply α β s (negamax_in_range G hB hE qfuel d p ply α β s hd hα hβ hs).1

theorem find_best_move_i32_eq_int {B : Int} (hB : BoundOK B) (hE : EvalI32 G) (qfuel : Nat) (p : P) (maxDepth : Nat)
    (hmax : maxDepth ≤ 255) (limit : Limit) (s : SearchState) (hs : StateOK B s) :
    W.findBestMove G qfuel p maxDepth limit s = findBestMove G qfuel p maxDepth limit s :=
  findBestMoveW_eq G qfuel p maxDepth limit s (find_best_move_in_range G hB hE qfuel p maxDepth hmax limit s hs).1

/-! ## 2. the table may be in any state within the bound; from the fresh state it always is -/

/-- the weakest table hypothesis, spelled out: every record holds an `i32` other than `i32::MIN`. -/
theorem ttBound_max_iff (t : TT) :
    TTBound SearchState.i32Max t ↔
      ∀ (k : UInt64) (e : Entry), t.table[k]? = some e → I32 e.eval ∧ e.eval ≠ -2147483648 := by
  unfold TTBound Sym I32
  rw [i32Max_eq']
  constructor
  · intro h k e he; have := h k e he; omega
  · intro h k e he; have := h k e he; omega

/-- the history hypothesis, spelled out. -/
theorem histSym_iff (s : SearchState) :
    HistSym s ↔ ∀ i, I32 (s.history.getD i 0) ∧ s.history.getD i 0 ≠ -2147483648 := by
  unfold HistSym Sym I32
  rw [i32Max_eq']
  constructor
  · intro h i; have := h i; omega
  · intro h i; have := h i; omega

/-- the tight bound implies the weak one. -/
theorem StateOK.weaken {s : SearchState} (h : StateOK CHECKMATE_SCORE s) : StateOK SearchState.i32Max s :=
  ⟨h.tt.mono (by decide), h.hist, fun e he => (h.info e he).mono (by decide)⟩

/-- a sequence of searches (position, depth, limit), each continuing with the state the previous one left. -/
def searches (qfuel : Nat) : List (P × Nat × Limit) → SearchState → SearchState
  | [], s => s
  | (p, d, l) :: rest, s => searches qfuel rest (findBestMove G qfuel p d l s).2

/-- the sites of every search of the sequence. -/
def searchesSites (qfuel : Nat) : List (P × Nat × Limit) → SearchState → Prop
  | [], _ => True
  | (p, d, l) :: rest, s =>
    findBestMoveSites G qfuel p d l s ∧ searchesSites qfuel rest (findBestMove G qfuel p d l s).2

theorem searches_in_range_from {B : Int} (hB : BoundOK B) (hE : EvalI32 G) (qfuel : Nat) :
    ∀ (js : List (P × Nat × Limit)) (s : SearchState), (∀ j ∈ js, j.2.1 ≤ 255) → StateOK B s →
      searchesSites G qfuel js s ∧ StateOK B (searches G qfuel js s) := by
  intro js
  induction js with
  | nil => intro s _ hs; exact ⟨trivial, hs⟩
  | cons j rest ih =>
    intro s hj hs
    obtain ⟨p, d, l⟩ := j
    have h := find_best_move_in_range G hB hE qfuel p d (hj (p, d, l) List.mem_cons_self) l s hs
    have h2 := ih (findBestMove G qfuel p d l s).2 (fun j hm => hj j (List.mem_cons_of_mem _ hm)) h.2.2
    exact ⟨⟨h.1, h2.1⟩, h2.2⟩

/-- **from the fresh state, any sequence of searches**: every site of every search is representable and every
    stored / printed score stays within `CHECKMATE_SCORE` in absolute value. -/
theorem searches_in_range (hE : EvalI32 G) (qfuel : Nat) (js : List (P × Nat × Limit)) (hj : ∀ j ∈ js, j.2.1 ≤ 255) :
    searchesSites G qfuel js {} ∧ StateOK CHECKMATE_SCORE (searches G qfuel js {}) :=
  searches_in_range_from G boundOK_cm hE qfuel js {} hj (stateOK_fresh _)

end generic

/-! ## 3. chess: every board, every sequence of UCI commands -/

/-- the engine's evaluator returns an `i32` on EVERY board (C14, `eval_no_overflow_i32`); no validity or
    men-count condition is needed for the range statement. -/
theorem evalI32_chess (mg : MoveGenerator) (k : ZKeys) : EvalI32 (chessGame mg k) := fun b =>
  (Props.C14.eval_no_overflow_i32 b).2.2.2.2.2.2.2.2

/-- … in particular on the game restricted to good boards. -/
theorem evalI32_cgGood (k : ZKeys) : EvalI32 (Chess.cgGood k) := fun p => evalI32_chess MoveGenerator.new k p.1

theorem goLoop_depth_le (active : Color) : ∀ (fuel : Nat) (parts : List Tok) (i : Nat) (g : GoParams),
    g.depth ≤ 64 → (goLoop active fuel parts i g).depth ≤ 64 := by
  intro fuel
  induction fuel with
  | zero => intro parts i g h; exact h
  | succ n ih =>
    intro parts i g h
    unfold goLoop
    split
    · simp only
      split
      · split
        · split
          · exact ih _ _ _ (Nat.le_trans (Nat.min_le_right _ _) (by decide))
          · exact ih _ _ _ h
        · exact ih _ _ _ h
      · split
        · split
          · split
            · exact ih _ _ _ h
            · exact ih _ _ _ h
          · exact ih _ _ _ h
        · split
          · exact ih _ _ _ h
          · split
            · exact ih _ _ _ (by decide)
            · exact ih _ _ _ h
    · exact h

/-- `handle_go_command` never asks for more than 64 plies. -/
theorem goParams_depth_le (active : Color) (parts : List Tok) : (goParams active parts).depth ≤ 64 :=
  goLoop_depth_le active _ parts 1 _ (by decide)

/-- the engine-level invariant: the searcher's tables hold scores within `CHECKMATE_SCORE`. -/
def EngineOK (e : Engine) : Prop := StateOK CHECKMATE_SCORE e.search

theorem engineOK_fresh : EngineOK {} := stateOK_fresh _

theorem stateOK_rep {B : Int} {s : SearchState} (h : StateOK B s) (r : List UInt64) : StateOK B { s with rep := r } :=
  ⟨h.tt, h.hist, h.info⟩

/-- every site of the search run by a `go` command in an `EngineOK` engine. -/
theorem go_sites (ctx : EngineCtx) (e : Engine) (parts : List Tok) (h : EngineOK e) :
    findBestMoveSites (chessGame ctx.mg (ctx.keys e.newGames)) ctx.qfuel e.board
      (goParams e.board.active parts).depth (goLimit e parts) e.search :=
  (find_best_move_in_range _ boundOK_cm (evalI32_chess _ _) ctx.qfuel e.board _
    (Nat.le_trans (goParams_depth_le _ _) (by decide)) (goLimit e parts) e.search h).1

/-- **`EngineOK` is an invariant of `handle_command`** — any command line, any context. -/
theorem engineOK_handleCommand (ctx : EngineCtx) (e : Engine) (parts : List Tok) (h : EngineOK e) :
    EngineOK (Engine.handleCommand ctx e parts).2.1 := by
  unfold Engine.handleCommand
  split
  · exact h
  · rename_i cmd tl
    split
    · exact h
    · split
      · exact h
      · split
        · exact stateOK_fresh _
        · split
          · -- position
            cases hb : positionBase (cmd :: tl) with
            | none => rw [handlePosition_of_no_base ctx e _ hb]; exact h
            | some ob =>
              obtain ⟨out, b⟩ := ob
              rw [handlePosition_of_base ctx e _ out b hb]
              unfold positionResult
              split
              · exact stateOK_rep h _
              · split
                · exact stateOK_rep h _
                · exact h
          · split
            · -- go
              rw [handleGo_eq]
              have hr := (find_best_move_in_range (chessGame ctx.mg (ctx.keys e.newGames)) boundOK_cm
                (evalI32_chess _ _) ctx.qfuel e.board _
                (Nat.le_trans (goParams_depth_le e.board.active (cmd :: tl)) (by decide))
                (goLimit e (cmd :: tl)) e.search h).2.2
              unfold goResult
              split
              · rename_i s2 heq; rw [heq] at hr; exact hr
              · rename_i sc best s2 heq; rw [heq] at hr; exact hr
            · split
              · exact h
              · exact h

/-- the engine after a list of command lines (tokenised), whatever their outcome. -/
def runCommands (ctx : EngineCtx) : List (List Tok) → Engine → Engine
  | [], e => e
  | c :: cs, e => runCommands ctx cs (Engine.handleCommand ctx e c).2.1

theorem engineOK_runCommands (ctx : EngineCtx) : ∀ (cs : List (List Tok)) (e : Engine), EngineOK e →
    EngineOK (runCommands ctx cs e) := by
  intro cs
  induction cs with
  | nil => intro e h; exact h
  | cons c cs ih => intro e h; exact ih _ (engineOK_handleCommand ctx e c h)

/-- **chess, any UCI history**: after any sequence of commands from engine start every table record, history
    score and printed score is within `CHECKMATE_SCORE` … -/
theorem uci_state_in_range (ctx : EngineCtx) (cs : List (List Tok)) : EngineOK (runCommands ctx cs {}) :=
  engineOK_runCommands ctx cs {} engineOK_fresh

/-- … and every arithmetic site of the search a following `go` runs is representable. -/
theorem uci_go_sites (ctx : EngineCtx) (cs : List (List Tok)) (parts : List Tok) :
    findBestMoveSites (chessGame ctx.mg (ctx.keys (runCommands ctx cs {}).newGames)) ctx.qfuel
      (runCommands ctx cs {}).board (goParams (runCommands ctx cs {}).board.active parts).depth
      (goLimit (runCommands ctx cs {}) parts) (runCommands ctx cs {}).search :=
  go_sites ctx _ parts (uci_state_in_range ctx cs)

/-- **chess, any UCI history, machine integers**: the search a `go` command runs on `i32` scores returns exactly
    what the `Int` model returns — result and state. -/
theorem uci_go_i32_eq_int (ctx : EngineCtx) (cs : List (List Tok)) (parts : List Tok) :
    W.findBestMove (chessGame ctx.mg (ctx.keys (runCommands ctx cs {}).newGames)) ctx.qfuel
      (runCommands ctx cs {}).board (goParams (runCommands ctx cs {}).board.active parts).depth
      (goLimit (runCommands ctx cs {}) parts) (runCommands ctx cs {}).search =
    findBestMove (chessGame ctx.mg (ctx.keys (runCommands ctx cs {}).newGames)) ctx.qfuel
      (runCommands ctx cs {}).board (goParams (runCommands ctx cs {}).board.active parts).depth
      (goLimit (runCommands ctx cs {}) parts) (runCommands ctx cs {}).search :=
  findBestMoveW_eq _ _ _ _ _ _ (uci_go_sites ctx cs parts)

/-! ## 4. what the hypotheses are for -/

section necessity
variable {P : Type} (G : Game P)

/-- a child that returns `i32::MIN` (only a foreign table record can make it do so) breaks the site `-r.score`. -/
theorem cached_min_breaks (rec : P → Nat → Int → Int → SearchState → Option SearchResult × SearchState)
    (recS : P → Nat → Int → Int → SearchState → Prop) (p : P) (depth ply : Nat) (β : Int) (mv : Move)
    (rest : List Move) (acc : LoopAcc) (s : SearchState) (bm : Option Move) (hstop : stopFlag s = false)
    (hr : (rec (G.play p mv) (ply + 1) (-β) (-acc.alpha) (polled s)).1 = some ⟨-2147483648, bm⟩) :
    ¬ negamaxLoopSites G rec recS p depth ply β (mv :: rest) acc s := by
  rw [negamaxLoopSites_cons, hstop]
  simp only [Bool.false_eq_true, ↓reduceIte]
  rintro ⟨_, _, _, _, h⟩
  rcases hres : rec (G.play p mv) (ply + 1) (-β) (-acc.alpha) (polled s) with ⟨ro, s2⟩
  rw [hres] at hr h
  simp only at hr
  subst hr
  simp only at h
  have := h.2.1
  unfold I32 at this
  omega

/-- a history entry equal to `i32::MIN` breaks the key `-history_score` (so `HistOK`, which bounds the entries
    from above only, would not do). -/
theorem history_min_breaks_key (s : SearchState) (p : P) (mv : Move) (h : s.historyScore mv = -2147483648) :
    ¬ orderKeySites G s p mv := by
  intro hk
  have := hk.2.2
  rw [h] at this
  revert this
  decide

end necessity

/-- `cexGame` (Lemmas/SearchCex.lean: 0 --cexMove--> 1, position 1 quiet and without moves) with ONE foreign
    table record for position 1 whose score is `i32::MIN`. -/
def minState : SearchState := { tt := ({} : TT).store 1 (-2147483648) none 1 .exact }

theorem minState_get1 : minState.tt.table[(1 : UInt64)]? = some ⟨1, -2147483648, none, 1, .exact⟩ :=
  store_get_self _ _ _ _ _ _ (fun prev h => by rw [tt_empty_get] at h; cases h)

theorem minState_retrieve1 : minState.tt.retrieve 1 = some ⟨1, -2147483648, none, 1, .exact⟩ :=
  retrieve_of_get_some _ _ _ minState_get1 rfl

theorem minState_retrieve0 : minState.tt.retrieve 0 = none := by
  apply retrieve_of_get_none
  show (({} : TT).store 1 (-2147483648) none 1 .exact).table[(0 : UInt64)]? = none
  rw [store_get_other _ _ _ _ _ _ _ (by decide), tt_empty_get]

/-- every record of `minState` holds an `i32`, the history is fresh — only `≠ i32::MIN` fails. -/
theorem minState_entries_i32 : ∀ (k : UInt64) (e : Entry), minState.tt.table[k]? = some e → I32 e.eval := by
  intro k e he
  by_cases hk : k = 1
  · subst hk; rw [minState_get1] at he; cases he; decide
  · have : minState.tt.table[k]? = none := by
      show (({} : TT).store 1 (-2147483648) none 1 .exact).table[k]? = none
      rw [store_get_other _ _ _ _ _ _ _ hk, tt_empty_get]
    rw [this] at he; cases he

theorem minState_not_ok : ¬ TTBound SearchState.i32Max minState.tt := by
  intro h
  have := h 1 _ minState_get1
  revert this
  decide

/-- the child's probe returns the foreign record. -/
theorem min_child (ply : Nat) (a b : Int) (s : SearchState) (hrep : s.rep = [])
    (ht : s.tt.retrieve 1 = some ⟨1, -2147483648, none, 1, .exact⟩) :
    (negamax cexGame 1 0 1 ply a b s).1 = some ⟨-2147483648, none⟩ := by
  rw [negamax_zero]
  have hrep' : s.incrementNodes.isRepetition (cexGame.hash 1) = false := by
    simp [SearchState.isRepetition, SearchState.incrementNodes, hrep]
  rw [hrep', Bool.and_false]
  simp only [Bool.false_eq_true, ↓reduceIte]
  have hp : probeTT cexGame s.incrementNodes 1 0 a b =
      (some ⟨-2147483648, none⟩, none, counted s.incrementNodes ⟨1, -2147483648, none, 1, .exact⟩ 0) := by
    unfold probeTT
    have h1 : cexGame.hash 1 = 1 := rfl
    have h2 : s.incrementNodes.tt = s.tt := rfl
    rw [h1, h2, ht]
    rfl
  rw [hp]

/-- **the hypothesis on the table is needed**: a root search of depth 1 with the engine's own window, a fresh
    history, an `i32` evaluator and a table all of whose records hold `i32` values — but one of them `i32::MIN` —
    reaches the site `-r.score` with `r.score = i32::MIN`.  The model computes `2147483648`; an `i32` engine wraps
    back to `i32::MIN` (`wrap32_neg_min`) or panics; `min_entry_diverges` below replays both runs. -/
theorem min_entry_breaks_root : ¬ negamaxSites cexGame 1 1 0 0 NEGATIVE_INFINITY INFINITY minState := by
  rw [negamaxSites_succ]
  have h0 : (decide (0 > 0) && minState.incrementNodes.isRepetition (cexGame.hash 0)) = false := rfl
  rw [h0]
  simp only [Bool.false_eq_true, ↓reduceIte]
  have hp : probeTT cexGame minState.incrementNodes 0 1 NEGATIVE_INFINITY INFINITY =
      (none, none, minState.incrementNodes) :=
    probeTT_miss cexGame _ 0 1 _ _ minState_retrieve0
  rw [hp]
  simp only
  rw [innerSites_cons cexGame _ _ 0 0 0 _ _ none _ cexMove [] rfl]
  have h1 : cexGame.moves 0 = [cexMove] := rfl
  have h2 : ∀ s', orderMoves cexGame s' 0 [cexMove] none 0 = [cexMove] := fun s' => by simp [orderMoves]
  rw [h1, h2]
  rintro ⟨_, h⟩
  refine cached_min_breaks cexGame _ _ 0 1 0 INFINITY cexMove [] _ minState.incrementNodes none rfl ?_ h
  exact min_child _ _ _ _ rfl minState_retrieve1

/-- the same probe in the machine-integer search (probing is not arithmetic). -/
theorem min_childW (ply : Nat) (a b : Int) (s : SearchState) (hrep : s.rep = [])
    (ht : s.tt.retrieve 1 = some ⟨1, -2147483648, none, 1, .exact⟩) :
    (W.negamax cexGame 1 0 1 ply a b s).1 = some ⟨-2147483648, none⟩ := by
  rw [negamaxW_zero]
  have hrep' : s.incrementNodes.isRepetition (cexGame.hash 1) = false := by
    simp [SearchState.isRepetition, SearchState.incrementNodes, hrep]
  rw [hrep', Bool.and_false]
  simp only [Bool.false_eq_true, ↓reduceIte]
  have hp : probeTT cexGame s.incrementNodes 1 0 a b =
      (some ⟨-2147483648, none⟩, none, counted s.incrementNodes ⟨1, -2147483648, none, 1, .exact⟩ 0) := by
    unfold probeTT
    have h1 : cexGame.hash 1 = 1 := rfl
    have h2 : s.incrementNodes.tt = s.tt := rfl
    rw [h1, h2, ht]
    rfl
  rw [hp]

/-- the `Int` model on `minState`: the root negates `i32::MIN` to `2147483648`, which beats beta. -/
theorem min_model_run :
    (negamax cexGame 1 1 0 0 NEGATIVE_INFINITY INFINITY minState).1 = some ⟨2147483648, some cexMove⟩ := by
  rw [negamax_succ_miss cexGame 1 0 0 0 _ _ minState (by simp [SearchState.isRepetition, minState])
    minState_retrieve0]
  rw [innerResult_cons cexGame _ 0 0 0 _ _ none _ cexMove [] rfl]
  have h1 : cexGame.moves 0 = [cexMove] := rfl
  have h2 : ∀ s', orderMoves cexGame s' 0 [cexMove] none 0 = [cexMove] := fun s' => by simp [orderMoves]
  rw [h1, h2, negamaxLoop_cons]
  have h3 : stopFlag minState.incrementNodes = false := rfl
  rw [h3]
  simp only [Bool.false_eq_true, ↓reduceIte]
  have hc := min_child (0 + 1) (-INFINITY) (-NEGATIVE_INFINITY) (polled minState.incrementNodes) rfl
    minState_retrieve1
  have hplay : cexGame.play 0 cexMove = 1 := rfl
  rw [hplay]
  rcases hres : negamax cexGame 1 0 1 (0 + 1) (-INFINITY) (-NEGATIVE_INFINITY) (polled minState.incrementNodes)
    with ⟨ro, s2⟩
  rw [hres] at hc
  simp only at hc
  subst hc
  simp only
  have hge : max NEGATIVE_INFINITY (-(-2147483648)) ≥ INFINITY := by decide
  rw [if_pos hge]
  simp only
  rw [finishNode_fst]
  rfl

/-- the machine-integer search on `minState`: `-i32::MIN` wraps to `i32::MIN`, nothing improves, the root
    reports `NEGATIVE_INFINITY`. -/
theorem min_machine_run :
    (W.negamax cexGame 1 1 0 0 NEGATIVE_INFINITY INFINITY minState).1 = some ⟨-32767, some cexMove⟩ := by
  rw [negamaxW_succ]
  have h0 : (decide (0 > 0) && minState.incrementNodes.isRepetition (cexGame.hash 0)) = false := rfl
  rw [h0]
  simp only [Bool.false_eq_true, ↓reduceIte]
  have hp : probeTT cexGame minState.incrementNodes 0 1 NEGATIVE_INFINITY INFINITY =
      (none, none, minState.incrementNodes) :=
    probeTT_miss cexGame _ 0 1 _ _ minState_retrieve0
  rw [hp]
  simp only
  unfold innerResultW
  have h1 : cexGame.moves 0 = [cexMove] := rfl
  have h2 : ∀ s', W.orderMoves cexGame s' 0 [cexMove] none 0 = [cexMove] := fun s' => by simp [W.orderMoves]
  rw [h1]
  simp only
  rw [h2, negamaxLoopW_cons]
  have h3 : stopFlag minState.incrementNodes = false := rfl
  rw [h3]
  simp only [Bool.false_eq_true, ↓reduceIte]
  have hw1 : wrapU8 (0 + 1) = 1 := by decide
  have hw2 : wrap32 (-INFINITY) = -INFINITY := by decide
  have hw3 : wrap32 (-NEGATIVE_INFINITY) = -NEGATIVE_INFINITY := by decide
  have hplay : cexGame.play 0 cexMove = 1 := rfl
  rw [hw1, hw2, hw3, hplay]
  have hc := min_childW 1 (-INFINITY) (-NEGATIVE_INFINITY) (polled minState.incrementNodes) rfl
    minState_retrieve1
  rcases hres : W.negamax cexGame 1 0 1 1 (-INFINITY) (-NEGATIVE_INFINITY) (polled minState.incrementNodes)
    with ⟨ro, s2⟩
  rw [hres] at hc
  simp only at hc
  subst hc
  simp only
  have hlt : ¬ (max NEGATIVE_INFINITY (wrap32 (-(-2147483648))) ≥ INFINITY) := by decide
  rw [if_neg hlt, negamaxLoopW_nil]
  simp only
  rw [finishNode_fst]
  rfl

/-- **the divergence is real**: on `minState` the machine-integer search and the `Int` model return different
    root scores (`-32767` versus `2147483648`) — the hypothesis `TTBound` cannot be dropped from
    `negamax_i32_eq_int`. -/
theorem min_entry_diverges :
    (W.negamax cexGame 1 1 0 0 NEGATIVE_INFINITY INFINITY minState).1 ≠
      (negamax cexGame 1 1 0 0 NEGATIVE_INFINITY INFINITY minState).1 := by
  rw [min_machine_run, min_model_run]
  decide

/-- the evaluator of `cexGame` returns `i32` values: the failure above is the table's alone. -/
theorem evalI32_cex : EvalI32 cexGame := by
  intro p
  show I32 (if p = 1 then 40000 else 0)
  split <;> decide

/-- `depth * depth` is the first site that a depth wider than `u8` would break (46340² still fits). -/
theorem depth_sq_overflows (s : SearchState) (mv : Move) : ¬ cutoffSites s mv 46341 := by
  intro h
  have := h.2.1
  revert this
  decide

theorem depth_sq_fits : I32 ((46340 : Nat) * (46340 : Nat) : Int) := by decide

/-- the terminal score `-CHECKMATE_SCORE + depth as i32` would need a depth beyond `2 * i32::MAX - 1000`. -/
theorem terminal_overflows : ¬ I32 (-CHECKMATE_SCORE + ((4294966295 : Nat) : Int)) ∧
    I32 (-CHECKMATE_SCORE + ((4294966294 : Nat) : Int)) := by decide

/-- `ply + 1` in `u8`: fails only at `ply = 255`, which `ply + depth ≤ 255` with `depth ≥ 1` excludes. -/
theorem ply_succ_overflows : ¬ U8 (255 + 1) ∧ U8 (254 + 1) := by decide

/-! ## 5. non-vacuity -/

/-- the hypotheses of the generic theorems hold for a concrete game and state … -/
example : BoundOK CHECKMATE_SCORE ∧ EvalI32 cexGame ∧ StateOK CHECKMATE_SCORE ({} : SearchState) ∧
    Sym CHECKMATE_SCORE NEGATIVE_INFINITY ∧ Sym CHECKMATE_SCORE INFINITY :=
  ⟨boundOK_cm, evalI32_cex, stateOK_fresh _, sym_negInf boundOK_cm, sym_inf boundOK_cm⟩

/-- … so the conclusion holds for a concrete search (depth 5, node limit 3, from the fresh state) … -/
example : findBestMoveSites cexGame 10 0 5 (.nodes 3) {} ∧
    StateOK CHECKMATE_SCORE (findBestMove cexGame 10 0 5 (.nodes 3) {}).2 :=
  have h := find_best_move_in_range cexGame boundOK_cm evalI32_cex 10 0 5 (by decide) (.nodes 3) {} (stateOK_fresh _)
  ⟨h.1, h.2.2⟩

/-- … and a state with a NON-EMPTY table of arbitrary origin within the weak bound (here a record holding
    `i32::MAX`, far beyond any score the search itself produces) is admissible as well. -/
def foreignState : SearchState := { tt := ({} : TT).store 1 2147483647 none 9 .lower }

theorem foreignState_ok : StateOK SearchState.i32Max foreignState :=
  ⟨(ttBound_empty _).store 1 (by decide) none 9 .lower, histSym_fresh, fun e he => by cases he⟩

theorem foreignState_nonempty : foreignState.tt.retrieve 1 = some ⟨1, 2147483647, none, 9, .lower⟩ :=
  retrieve_of_get_some _ _ _ (store_get_self _ _ _ _ _ _ (fun prev h => by rw [tt_empty_get] at h; cases h)) rfl

example : negamaxSites cexGame 1 1 0 0 NEGATIVE_INFINITY INFINITY foreignState :=
  (negamax_in_range cexGame boundOK_max evalI32_cex 1 1 0 0 _ _ foreignState (by decide)
    (sym_negInf boundOK_max) (sym_inf boundOK_max) foreignState_ok).1

/-- a sequence of three searches (different roots, depths, limits) from the fresh state, on machine integers
    and in the model. -/
example : searchesSites cexGame 10 [(0, 3, .none), (1, 255, .polls 2), (0, 7, .nodes 5)] {} ∧
    W.findBestMove cexGame 10 0 3 .none {} = findBestMove cexGame 10 0 3 .none {} :=
  ⟨(searches_in_range cexGame evalI32_cex 10 _ (by decide)).1,
    find_best_move_i32_eq_int cexGame boundOK_cm evalI32_cex 10 0 3 (by decide) .none {} (stateOK_fresh _)⟩

/-- the chess instance: the start position, depth 64, any keys, any generator tables, any fuel, any limit. -/
example (mg : MoveGenerator) (k : ZKeys) (qfuel : Nat) (limit : Limit) :
    findBestMoveSites (chessGame mg k) qfuel Board.startpos 64 limit {} :=
  (find_best_move_in_range _ boundOK_cm (evalI32_chess mg k) qfuel _ 64 (by decide) limit {} (stateOK_fresh _)).1

end Flounder.Props.C05Range

/-! ## axioms -/
#print axioms Flounder.Props.C05Range.quiesce_in_range
#print axioms Flounder.Props.C05Range.negamax_in_range
#print axioms Flounder.Props.C05Range.search_position_in_range
#print axioms Flounder.Props.C05Range.find_best_move_in_range
#print axioms Flounder.Props.C05Range.info_scores_i32
#print axioms Flounder.Props.C05Range.searches_in_range
#print axioms Flounder.Props.C05Range.evalI32_chess
#print axioms Flounder.Props.C05Range.engineOK_handleCommand
#print axioms Flounder.Props.C05Range.uci_state_in_range
#print axioms Flounder.Props.C05Range.uci_go_sites
#print axioms Flounder.Props.C05Range.min_entry_breaks_root
#print axioms Flounder.Props.C05Range.cached_min_breaks
#print axioms Flounder.Props.C05Range.min_entry_diverges
#print axioms Flounder.Props.C05Range.negamax_i32_eq_int
#print axioms Flounder.Props.C05Range.find_best_move_i32_eq_int
#print axioms Flounder.Props.C05Range.uci_go_i32_eq_int
#print axioms Flounder.Props.C05Range.depth_sq_overflows
#print axioms Flounder.Props.C05Range.recordCutoff_is_saturating_add
