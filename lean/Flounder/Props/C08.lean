/-
  C08 — Mate in one is played; avoidable mate in one is never allowed.
  FULL STATEMENTS over the abstract game of Model/Search.lean.  Decided per run by the correspondence
  (generated mate-in-one / mixed positions, depths 1..4, judged by the executable rules); the theorems
  are derived from the C05 contract when `Props/C08Proof.lean` is present.
-/
import Flounder.Model.Search
import Flounder.Spec.Minimax

namespace Flounder.Props.C08
open Flounder

variable {P : Type} (G : Game P)

/-- `m` mates: the opponent has no move and is in check. -/
def Mates (p : P) (m : Move) : Prop := G.moves (G.play p m) = [] ∧ G.inCheck (G.play p m) = true

/-- `m` allows a mate in one: some reply mates. -/
def AllowsMate (p : P) (m : Move) : Prop := ∃ r, r ∈ G.moves (G.play p m) ∧ Mates G (G.play p m) r

/-- FULL STATEMENT (a): a completed search of depth ≥ 1 from a fresh engine answers with a mating move
    whenever one exists. -/
def MateInOnePlayed : Prop :=
  ∀ (qfuel D : Nat) (p : P) (limit : Limit) (score : Int) (mv : Option Move) (s' : SearchState),
    1 ≤ D → (∃ m, m ∈ G.moves p ∧ Mates G p m) →
    findBestMove G qfuel p D limit {} = (some (score, mv), s') → s'.stopSeen = false →
    ∃ m, mv = some m ∧ Mates G p m

/-- FULL STATEMENT (b): at depth 2 or 3, if some move does not allow a mate in one, the answer does not
    allow one either. -/
def AvoidableMateAvoided : Prop :=
  ∀ (qfuel D : Nat) (p : P) (limit : Limit) (score : Int) (mv : Option Move) (s' : SearchState),
    (D = 2 ∨ D = 3) → (∃ m, m ∈ G.moves p ∧ ¬ AllowsMate G p m) →
    findBestMove G qfuel p D limit {} = (some (score, mv), s') → s'.stopSeen = false →
    ∀ m, mv = some m → ¬ AllowsMate G p m

/-- the terminal score of a mated side at remaining depth `d` is below every in-window score. -/
theorem mate_score_below_window (d : Nat) (hd : d ≤ 64) :
    -Gen.CHECKMATE_SCORE + (d : Int) < Gen.NEGATIVE_INFINITY := by
  simp only [Gen.CHECKMATE_SCORE, Gen.NEGATIVE_INFINITY]; omega

/-- a mating move at the root scores at least `CHECKMATE_SCORE - 64 > INFINITY`, so it is never confused
    with a static evaluation. -/
theorem mating_score_above_window (d : Nat) (hd : d ≤ 64) :
    Gen.INFINITY < Gen.CHECKMATE_SCORE - (d : Int) := by
  simp only [Gen.CHECKMATE_SCORE, Gen.INFINITY]; omega

end Flounder.Props.C08
