/-
  C08 — Mate in one is played; avoidable mate in one is never allowed.
  FULL STATEMENTS over the abstract game of Model/Search.lean (`MateInOnePlayed`, `AvoidableMateAvoided`),
  decided per run by the correspondence (generated mate-in-one / mixed positions, depths 1..4, judged by
  the executable rules), and PROVED here in the strongest form that is true:

  (a) `mate_in_one_played_of` — any `Limit`, any completed run of depth `1 ≤ D`, `D + INFINITY ≤
      CHECKMATE_SCORE` (`depth_bound_of_le_64`), under (i) `EvalBound` and (ii) no hash collision between
      the root and its children.  Direct argument on the model (Lemmas/MateOrder, MateBasic, MatePlayed),
      no alpha-beta contract, no fuel / finiteness hypothesis.
      The bare statement is FALSE: `mateInOnePlayed_false` (`mate_in_one_needs_evalBound`: a leaf with
      evaluation -40000 makes the fail-hard quiescence return -32767, the root cuts on a non-mating move;
      `mate_in_one_needs_no_collision`: a mated child with the root's key is handed the root's record).
  (b) `avoidable_mate_avoided_of` / `avoidable_mate_avoided_move_of` — depth 2 and 3, under the hypotheses
      of `C05.find_best_move_value` (closed set with injective hash, reference values exist, fresh engine,
      completed, no deeper record reused) plus `EvalBound` (Lemmas/MateSpec, MateAvoid).  Depth 3 holds
      BECAUSE of iterative deepening: when every move loses at depth 3, `best` is never replaced and the
      answer is the table move = iteration 2's answer (`Search.iterate_track`).
      The bare statement is FALSE: `avoidableMateAvoided_false` (`avoidable_mate_needs_evalBound`).
      "No deeper record reused" holds for every run on a game tree: `no_deeper_reuse_of_ranked`.
  Non-vacuity: `mate_in_one_played_nonvacuous`, `avoidable_mate_avoided_nonvacuous` (toy games on which
  every hypothesis holds and the run returns the expected move).
-/
import Flounder.Model.Search
import Flounder.Spec.Minimax
import Flounder.Lemmas.MateCex
import Flounder.Lemmas.MateCexB
import Flounder.Lemmas.MateCexC

namespace Flounder.Props.C08
open Flounder Gen Flounder.Search

variable {P : Type} (G : Game P)

/-- `m` mates: the opponent has no move and is in check. -/
def Mates (p : P) (m : Move) : Prop := G.moves (G.play p m) = [] ∧ G.inCheck (G.play p m) = true

/-- `m` allows a mate in one: some reply mates. -/
def AllowsMate (p : P) (m : Move) : Prop := ∃ r, r ∈ G.moves (G.play p m) ∧ Mates G (G.play p m) r

instance (p : P) (m : Move) : Decidable (Mates G p m) := by unfold Mates; infer_instance

/-- FULL STATEMENT (a): a completed search of depth ≥ 1 from a fresh engine answers with a mating move
    whenever one exists. -/
def MateInOnePlayed : Prop :=
  ∀ (qfuel D : Nat) (p : P) (limit : Limit) (score : Int) (mv : Option Move) (s' : SearchState),
    1 ≤ D → (∃ m, m ∈ G.moves p ∧ Mates G p m) →
    findBestMove G qfuel p D limit {} = (some (score, mv), s') → s'.stopSeen = false →
    ∃ m, mv = some m ∧ Mates G p m

/-- FULL STATEMENT (b): at depth 2 or 3, if some move does not allow a mate in one, the answer does not
    allow one either. -/
def AvoidableMateAvoided : Prop :=
  ∀ (qfuel D : Nat) (p : P) (limit : Limit) (score : Int) (mv : Option Move) (s' : SearchState),
    (D = 2 ∨ D = 3) → (∃ m, m ∈ G.moves p ∧ ¬ AllowsMate G p m) →
    findBestMove G qfuel p D limit {} = (some (score, mv), s') → s'.stopSeen = false →
    ∀ m, mv = some m → ¬ AllowsMate G p m

/-- the terminal score of a mated side at remaining depth `d` is below every in-window score. -/
theorem mate_score_below_window (d : Nat) (hd : d ≤ 64) :
    -Gen.CHECKMATE_SCORE + (d : Int) < Gen.NEGATIVE_INFINITY := by
  simp only [Gen.CHECKMATE_SCORE, Gen.NEGATIVE_INFINITY]; omega

/-- a mating move at the root scores at least `CHECKMATE_SCORE - 64 > INFINITY`, so it is never confused
    with a static evaluation. -/
theorem mating_score_above_window (d : Nat) (hd : d ≤ 64) :
    Gen.INFINITY < Gen.CHECKMATE_SCORE - (d : Int) := by
  simp only [Gen.CHECKMATE_SCORE, Gen.INFINITY]; omega

/-! ## Part (a): a mate in one is played -/

theorem mates_iff_mated (p : P) (m : Move) : Mates G p m ↔ Mated G (G.play p m) := Iff.rfl

/-- **(a)** From a fresh engine, if the side to move can mate in one, every COMPLETED search (any
    `Limit`; completed = the final `stopSeen` is false) of depth `1 ≤ D` with
    `D + INFINITY ≤ CHECKMATE_SCORE` (the engine caps `D` at 64) answers with a mating move — provided
    (i) the static evaluation stays strictly inside the window (`EvalBound`, property C14 for chess)
    and (ii) no child of the root collides with the root's hash key.  No fuel hypothesis is needed:
    `findBestMove` answering `some _` already says quiescence never ran out of fuel. -/
theorem mate_in_one_played_of {qfuel D : Nat} {p : P} {limit : Limit} {score : Int} {mv : Option Move}
    {s' : SearchState} (hE : EvalBound G)
    (hnc : ∀ m, m ∈ G.moves p → G.hash (G.play p m) ≠ G.hash p)
    (hD : 1 ≤ D) (hDb : (D : Int) + INFINITY ≤ CHECKMATE_SCORE)
    (hmate : ∃ m, m ∈ G.moves p ∧ Mates G p m)
    (hrun : findBestMove G qfuel p D limit {} = (some (score, mv), s')) (hfin : s'.stopSeen = false) :
    ∃ m, mv = some m ∧ m ∈ G.moves p ∧ Mates G p m :=
  findBestMove_mate G hE qfuel p hnc hmate D hD hDb limit score mv s' hrun hfin

/-- the depth bound of (a) holds for every depth the engine accepts (`go depth` is capped at 64). -/
theorem depth_bound_of_le_64 (D : Nat) (h : D ≤ 64) : (D : Int) + INFINITY ≤ CHECKMATE_SCORE := by
  simp only [CHECKMATE_SCORE, INFINITY]; omega

/-- non-vacuity of (a): the toy game `okGame` (root 0 with a quiet-ending capture `evA` and a mating
    capture `evB`) meets every hypothesis at depth 3 without a deadline, the run completes, and the
    answer is the mating move `evB`. -/
theorem mate_in_one_played_nonvacuous :
    EvalBound okGame ∧ (∀ m, m ∈ okGame.moves 0 → okGame.hash (okGame.play 0 m) ≠ okGame.hash 0) ∧
    ((3 : Nat) : Int) + INFINITY ≤ CHECKMATE_SCORE ∧ (∃ m, m ∈ okGame.moves 0 ∧ Mates okGame 0 m) ∧
    ∃ score s', findBestMove okGame 1 0 3 .none {} = (some (score, some evB), s') ∧ s'.stopSeen = false := by
  have hm : ∃ m, m ∈ okGame.moves 0 ∧ Mates okGame 0 m := ⟨evB, ok_mate⟩
  refine ⟨ok_evalBound, ok_no_collision, by decide, hm, ?_⟩
  obtain ⟨score, mv, s', hrun, hfin⟩ := ok_run
  obtain ⟨m, rfl, hmem, hmM⟩ := mate_in_one_played_of okGame ok_evalBound ok_no_collision (by decide)
    (by decide) hm hrun hfin
  have : m = evB := ok_only_mate m hmem hmM
  subst this
  exact ⟨score, s', hrun, hfin⟩

/-- hypothesis (i) cannot be dropped: in `evGame` (evaluation -40000 in one leaf, everything else as
    (a) demands: fresh engine, no deadline so the run completes, depth 1, no hash collision, a mating
    move exists) the answer is the NON-mating capture `evA`. -/
theorem mate_in_one_needs_evalBound :
    (∀ m, m ∈ evGame.moves 0 → evGame.hash (evGame.play 0 m) ≠ evGame.hash 0) ∧
    (∃ m, m ∈ evGame.moves 0 ∧ Mates evGame 0 m) ∧ ¬ Mates evGame 0 evA ∧
    ∃ s', findBestMove evGame 1 0 1 .none {} = (some (32767, some evA), s') ∧ s'.stopSeen = false := by
  refine ⟨by decide, ⟨evB, List.mem_cons_of_mem _ List.mem_cons_self, by decide⟩, by decide,
    (findBestMove evGame 1 0 1 .none {}).2, ?_, ev_completed⟩
  rw [← ev_findBestMove]

/-- hypothesis (ii) cannot be dropped either: in `colGame` the mated child of the root has the root's
    hash key (everything else as (a) demands: `EvalBound`, fresh engine, no deadline so the run
    completes, depth 2).  Iteration 1 finds the mate; in iteration 2 the child of the mating move
    probes the table, is handed the ROOT's cached record as its own value, and the answer is the
    NON-mating capture `colA`. -/
theorem mate_in_one_needs_no_collision :
    EvalBound colGame ∧ ((2 : Nat) : Int) + INFINITY ≤ CHECKMATE_SCORE ∧
    (∃ m, m ∈ colGame.moves 0 ∧ Mates colGame 0 m) ∧ ¬ Mates colGame 0 colA ∧
    colGame.hash (colGame.play 0 colB) = colGame.hash 0 ∧
    ∃ s', findBestMove colGame 1 0 2 .none {} = (some (0, some colA), s') ∧ s'.stopSeen = false := by
  refine ⟨col_evalBound, by decide, ⟨colB, col_mate⟩, by decide, col_collision,
    (findBestMove colGame 1 0 2 .none {}).2, ?_, col_completed⟩
  rw [← col_findBestMove]

/-- hence the bare FULL STATEMENT (a) is false for some game. -/
theorem mateInOnePlayed_false : ¬ MateInOnePlayed evGame := by
  intro h
  obtain ⟨_, hm, hn, s', hrun, hfin⟩ := mate_in_one_needs_evalBound
  obtain ⟨m, e, hmM⟩ := h 1 1 0 .none 32767 (some evA) s' (Nat.le_refl _) hm hrun hfin
  cases e
  exact hn hmM

/-! ## Part (b): an avoidable mate in one is avoided at depth 2 and 3 -/

theorem allowsMate_iff_allows (p : P) (m : Move) : AllowsMate G p m ↔ Allows G p m := Iff.rfl

/-- **(b)**, with the move exhibited.  Under the hypotheses of the alpha-beta soundness theorem
    (`Props/C05.lean: find_best_move_value`): a set `S ∋ p` of positions closed under the moves on which
    the hash is injective, reference values of depths `1..D` exist with quiescence fuel `qf ≤ qfuel`,
    fresh engine, completed run (any `Limit`), no deeper record reused — plus `EvalBound`: at depth 2
    and 3, if some legal move does not allow a mate in one, the answer is a legal move that does not
    allow one either. -/
theorem avoidable_mate_avoided_move_of {S : P → Prop} {qf qfuel D : Nat} {p : P} {limit : Limit}
    {score : Int} {mv : Option Move} {s' : SearchState}
    (hE : EvalBound G) (hcl : Closed G S) (hinj : HashInj G S) (hSp : S p) (hq : qf ≤ qfuel)
    (hD : D = 2 ∨ D = 3) (hV : ∀ d, 1 ≤ d → d ≤ D → ∃ w, Spec.V G qf d p = some w)
    (hsafe : ∃ m, m ∈ G.moves p ∧ ¬ AllowsMate G p m)
    (hrun : findBestMove G qfuel p D limit {} = (some (score, mv), s')) (hfin : s'.stopSeen = false)
    (hdh : s'.deeperHits = 0) :
    ∃ m, mv = some m ∧ m ∈ G.moves p ∧ ¬ AllowsMate G p m := by
  obtain ⟨sc, m, h1, hmem, hns⟩ := findBestMove_safe G hE hcl hinj qfuel hq p hSp D hD hV hsafe limit
    (by rw [hrun]; exact hfin) (by rw [hrun]; exact hdh)
  rw [hrun] at h1
  cases h1
  exact ⟨m, rfl, hmem, hns⟩

/-- **(b)** in the shape of the FULL STATEMENT `AvoidableMateAvoided`. -/
theorem avoidable_mate_avoided_of {S : P → Prop} {qf qfuel D : Nat} {p : P} {limit : Limit}
    {score : Int} {mv : Option Move} {s' : SearchState}
    (hE : EvalBound G) (hcl : Closed G S) (hinj : HashInj G S) (hSp : S p) (hq : qf ≤ qfuel)
    (hD : D = 2 ∨ D = 3) (hV : ∀ d, 1 ≤ d → d ≤ D → ∃ w, Spec.V G qf d p = some w)
    (hsafe : ∃ m, m ∈ G.moves p ∧ ¬ AllowsMate G p m)
    (hrun : findBestMove G qfuel p D limit {} = (some (score, mv), s')) (hfin : s'.stopSeen = false)
    (hdh : s'.deeperHits = 0) :
    ∀ m, mv = some m → ¬ AllowsMate G p m := by
  obtain ⟨m', e, _, hns⟩ := avoidable_mate_avoided_move_of G hE hcl hinj hSp hq hD hV hsafe hrun hfin hdh
  intro m hm
  rw [e] at hm
  cases hm
  exact hns

/-- the hypothesis "no deeper record reused" of (b) holds for EVERY run (any depth, any `Limit`) from
    a fresh engine on a game tree: positions of `S` carry a rank that every move increases by one. -/
theorem no_deeper_reuse_of_ranked {S : P → Prop} {rank : P → Nat} (hcl : Closed G S) (hinj : HashInj G S)
    (hrk : PlyRanked G S rank) (qfuel : Nat) (p : P) (hp : S p) (hr0 : rank p = 0) (D : Nat) (limit : Limit) :
    (findBestMove G qfuel p D limit {}).2.deeperHits = 0 :=
  findBestMove_deeperHits_ranked hcl hinj hrk qfuel p hp hr0 D limit

/-- non-vacuity of (b): the toy game `avGame` (`avA` allows a mate in one, `avB` does not) meets every
    hypothesis at depth 2 and at depth 3 without a deadline; the run completes, reuses no deeper
    record, and the answer is `avB`. -/
theorem avoidable_mate_avoided_nonvacuous (D : Nat) (hD : D = 2 ∨ D = 3) :
    EvalBound avGame ∧ Closed avGame avS ∧ HashInj avGame avS ∧ avS 0 ∧
    (∀ d, 1 ≤ d → d ≤ D → ∃ w, Spec.V avGame 1 d 0 = some w) ∧
    (∃ m, m ∈ avGame.moves 0 ∧ ¬ AllowsMate avGame 0 m) ∧
    (∃ m, m ∈ avGame.moves 0 ∧ AllowsMate avGame 0 m) ∧
    ∃ score s', findBestMove avGame 1 0 D .none {} = (some (score, some avB), s') ∧
      s'.stopSeen = false ∧ s'.deeperHits = 0 := by
  have hV : ∀ d, 1 ≤ d → d ≤ D → ∃ w, Spec.V avGame 1 d 0 = some w :=
    fun d h1 h2 => av_values d h1 (by omega)
  have hsafe : ∃ m, m ∈ avGame.moves 0 ∧ ¬ AllowsMate avGame 0 m :=
    ⟨avB, List.mem_cons_of_mem _ List.mem_cons_self, av_not_allows_B 0 0⟩
  have hS0 : avS 0 := Nat.zero_le _
  refine ⟨av_evalBound, av_closed 0 0, av_hashInj 0 0, hS0, hV, hsafe,
    ⟨avA, List.mem_cons_self, av_allows_A 0 0⟩, ?_⟩
  obtain ⟨⟨score, mv⟩, hb⟩ := findBestMove_some avGame 1 1 (Nat.le_refl _) 0 D
    (fun d hd => by
      have h : ∀ d, d ≤ 3 → (Spec.V avGame 1 d 0).isSome = true := by decide
      exact Option.isSome_iff_exists.1 (h d (by omega))) .none {}
  have hrun : findBestMove avGame 1 0 D .none {} = (some (score, mv), (findBestMove avGame 1 0 D .none {}).2) := by
    rw [← hb]
  have hfin := av_completed 0 0 1 D
  have hdh := av_deeperHits 0 0 1 D .none
  obtain ⟨m, rfl, hmem, hns⟩ := avoidable_mate_avoided_move_of avGame av_evalBound (av_closed 0 0)
    (av_hashInj 0 0) hS0 (Nat.le_refl 1) hD hV hsafe hrun hfin hdh
  have hmB : m = avB := by
    rcases av_moves 0 0 m hmem with e | e
    · subst e; exact absurd (av_allows_A 0 0) hns
    · exact e
  subst hmB
  exact ⟨score, _, hrun, hfin, hdh⟩

/-- `EvalBound` cannot be dropped from (b): `avBad` (evaluation -40000 in one leaf) meets every other
    hypothesis at depth 2 — closed set with injective hash, reference values, fresh engine, no deadline
    so the run completes, no deeper record reused, `avB` allows no mate — and the answer is `avA`, which
    allows a mate in one.  (In iteration 2 both moves lose, `best` is never replaced, and the engine
    repeats iteration 1's answer.) -/
theorem avoidable_mate_needs_evalBound :
    Closed avBad avS ∧ HashInj avBad avS ∧ avS 0 ∧
    (∀ d, 1 ≤ d → d ≤ 2 → ∃ w, Spec.V avBad 1 d 0 = some w) ∧
    (∃ m, m ∈ avBad.moves 0 ∧ ¬ AllowsMate avBad 0 m) ∧ AllowsMate avBad 0 avA ∧
    ∃ score s', findBestMove avBad 1 0 2 .none {} = (some (score, some avA), s') ∧
      s'.stopSeen = false ∧ s'.deeperHits = 0 := by
  have hfin := av_completed 5 (-40000) 1 2
  obtain ⟨score, hrun⟩ := avBad_answer .none hfin
  refine ⟨av_closed _ _, av_hashInj _ _, Nat.zero_le _, avBad_values,
    ⟨avB, List.mem_cons_of_mem _ List.mem_cons_self, av_not_allows_B _ _⟩, av_allows_A _ _,
    score, (findBestMove avBad 1 0 2 .none {}).2, ?_, hfin, av_deeperHits _ _ 1 2 .none⟩
  rw [← hrun]

/-- hence the bare FULL STATEMENT (b) is false for some game. -/
theorem avoidableMateAvoided_false : ¬ AvoidableMateAvoided avBad := by
  intro h
  obtain ⟨_, _, _, _, hsafe, hA, score, s', hrun, hfin, _⟩ := avoidable_mate_needs_evalBound
  exact h 1 2 0 .none score (some avA) s' (Or.inl rfl) hsafe hrun hfin avA rfl hA

end Flounder.Props.C08
