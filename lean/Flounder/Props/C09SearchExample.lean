/-
  Non-vacuity of Props/C09Search.lean: a concrete game on which the recorded history changes the value, the
  score AND the move `find_best_move` reports — every hypothesis of the theorems discharged.

  `toyH`: the root 0 has two moves, A to position 1 (static score +50 for the mover) and B to position 2 (+10).
    * no history                     : value 50, move A            (`toyH_search_without_history`)
    * position 1 occurred twice      : A is a draw, value 10, move B (`toyH_search_with_history`)
    * positions 1 and 2 occurred twice: value and score 0           (`toyH_search_all_repeat`)
-/
import Flounder.Props.C09Search

namespace Flounder.Props.C09SearchExample
open Flounder Gen Flounder.Search

def mvA : Move := ⟨0, 1, .pawn, .quiet⟩
def mvB : Move := ⟨0, 2, .pawn, .quiet⟩

/-- positions are numbers, the hash is the number, a move goes to its destination square. -/
def toyH : Game Nat where
  moves := fun p => if p = 0 then [mvA, mvB] else []
  qmoves := fun _ => []
  play := fun _ m => m.dst
  inCheck := fun _ => false
  eval := fun p => if p = 1 then -50 else if p = 2 then -10 else 0
  hash := fun p => p.toUInt64
  pieceAt := fun _ _ => none

/-! ### the reference values -/

theorem toyH_value_plain : Spec.V toyH 5 1 0 = some 50 := by decide

theorem toyH_value_no_history : Spec.Vd toyH (Spec.drawnOn toyH (toyH.hash 0 :: [])) 5 1 true 0 = some 50 := by
  decide

theorem toyH_value_history :
    Spec.Vd toyH (Spec.drawnOn toyH (toyH.hash 0 :: [1, 1])) 5 1 true 0 = some 10 := by decide

theorem toyH_value_all_repeat :
    Spec.Vd toyH (Spec.drawnOn toyH (toyH.hash 0 :: [1, 2, 1, 2])) 5 1 true 0 = some 0 := by decide

/-! ### the hash hypothesis -/

theorem toyH_within {n q : Nat} (h : Within toyH 0 n q) : q ≤ 2 := by
  induction h with
  | root n => omega
  | @step n q m _ hm _ =>
    have hm' : m ∈ (if q = 0 then [mvA, mvB] else []) := hm
    split at hm'
    · rcases List.mem_cons.1 hm' with e | e
      · subst e; show mvA.dst ≤ 2; decide
      · rcases List.mem_cons.1 e with e | e
        · subst e; show mvB.dst ≤ 2; decide
        · cases e
    · cases hm'

theorem toyH_hashInj (n : Nat) : HashInjOn toyH (Within toyH 0 n) := by
  intro p q hp hq h
  have h1 := toyH_within hp
  have h2 := toyH_within hq
  have h' : p.toUInt64 = q.toUInt64 := h
  have hp' : p = 0 ∨ p = 1 ∨ p = 2 := by omega
  have hq' : q = 0 ∨ q = 1 ∨ q = 2 := by omega
  rcases hp' with rfl | rfl | rfl <;> rcases hq' with rfl | rfl | rfl <;>
    first | rfl | (exfalso; revert h'; decide)

/-! ### the runs -/

/-- no history: the search reports the plain minimax value 50 and the move A. -/
theorem toyH_search_without_history :
    ∃ s', findBestMove toyH 5 0 1 .none {} = (some (50, some mvA), s') ∧ s'.rep = [] := by
  rcases hrun : findBestMove toyH 5 0 1 .none {} with ⟨ro, s'⟩
  obtain ⟨score, mv, h1, _, h3, h4, h5, h6⟩ := C09Search.depth_one_value_history_no_deadline toyH 0 []
    (toyH_hashInj 1) 5 5 (Nat.le_refl _) {} s' ro 50 toyH_value_no_history ttEmpty_new rfl hrun
  have hs : score = 50 := h3 (by decide) (by decide)
  obtain ⟨m, hm, hmem⟩ := h4 (by decide)
  have hmem' : m ∈ [mvA, mvB] := hmem
  have hmv : m = mvA := by
    rcases List.mem_cons.1 hmem' with e | e
    · exact e
    · rcases List.mem_cons.1 e with e | e
      · subst e
        have := h5 (by decide) (by decide) mvB (-10) hm (by decide)
        revert this; decide
      · cases e
  subst hs; subst hmv; subst hm
  exact ⟨s', by rw [h1], h6⟩

/-- **position 1 occurred twice in the game**: move A now leads to a draw; the search reports the value 10 of
    the tree with draws and switches to move B; the stack is handed back unchanged. -/
theorem toyH_search_with_history :
    ∃ s', findBestMove toyH 5 0 1 .none { rep := [1, 1] } = (some (10, some mvB), s') ∧ s'.rep = [1, 1] := by
  rcases hrun : findBestMove toyH 5 0 1 .none { rep := [1, 1] } with ⟨ro, s'⟩
  obtain ⟨score, mv, h1, _, h3, h4, h5, h6⟩ := C09Search.depth_one_value_history_no_deadline toyH 0 [1, 1]
    (toyH_hashInj 1) 5 5 (Nat.le_refl _) { rep := [1, 1] } s' ro 10 toyH_value_history ttEmpty_new rfl hrun
  have hs : score = 10 := h3 (by decide) (by decide)
  obtain ⟨m, hm, hmem⟩ := h4 (by decide)
  have hmem' : m ∈ [mvA, mvB] := hmem
  have hmv : m = mvB := by
    rcases List.mem_cons.1 hmem' with e | e
    · subst e
      have := h5 (by decide) (by decide) mvA 0 hm (by decide)
      revert this; decide
    · rcases List.mem_cons.1 e with e | e
      · exact e
      · cases e
  subst hs; subst hmv; subst hm
  exact ⟨s', by rw [h1], h6⟩

/-- **every move repeats**: the score is 0 (`all_moves_repeat_score_zero`, here with the instrumentation
    hypothesis discharged by `findBestMove_one_no_deeper`). -/
theorem toyH_search_all_repeat :
    ∃ m s', findBestMove toyH 5 0 1 .none { rep := [1, 2, 1, 2] } = (some (0, some m), s') ∧
      m ∈ toyH.moves 0 := by
  rcases hrun : findBestMove toyH 5 0 1 .none { rep := [1, 2, 1, 2] } with ⟨ro, s'⟩
  have hfin : s'.stopSeen = false := by
    have := C05.findBestMove_completes_of_no_deadline toyH 5 0 1 { rep := [1, 2, 1, 2] }
    rw [hrun] at this; exact this
  have hdh : s'.deeperHits = 0 := by
    have := findBestMove_one_no_deeper toyH 5 0 .none { rep := [1, 2, 1, 2] } ttEmpty_new
    rw [hrun] at this; exact this
  obtain ⟨m, h1, h2⟩ := C09Search.all_moves_repeat_score_zero_fresh toyH 0 [1, 2, 1, 2] 1 (toyH_hashInj 1) 5
    (Nat.le_refl _) .none s' ro (by decide) (by decide) hrun hfin hdh
  exact ⟨m, s', by rw [h1], h2⟩

end Flounder.Props.C09SearchExample
