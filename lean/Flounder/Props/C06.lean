/-
  C06 — an interrupted search leaves nothing behind.

  For EVERY game, limit, initial state, position, depth and fuel outcome:
    B1  the repetition record is exactly as before the call (`repetition_balanced`);
    B2  (i)  `stopSeen` is sticky;
        (ii) every transposition-table store of the search is executed in a state in which no poll has
             returned true yet — extensionally: the run is a `Stop.Trace`; intensionally: the ghost-
             instrumented search (Lemmas/StopGhost.lean: the model's code plus a log of every store with
             the `stopSeen` flag at that moment) equals the model, its log is complete, and records only
             `false` flags;
    B3  a search whose very first poll returns true (zero budget) stores nothing at all.
-/
import Flounder.Lemmas.StopTrace
import Flounder.Lemmas.StopGhost

namespace Flounder.Props.C06
open Flounder Gen SearchState Flounder.Stop

/-! ## B1 — the repetition stack is balanced -/

/-- "the repetition stack is `r0`" is preserved by every primitive step below `searchPosition`. -/
theorem repHyp {P : Type} (G : Game P) (r0 : List UInt64) :
    Hyp G (fun _ => True) (fun _ _ => True) (fun _ => True) (fun s => s.rep = r0) where
  closed_m := fun _ _ _ _ => trivial
  closed_q := fun _ _ _ _ => trivial
  q_none := fun _ => trivial
  q_move := fun _ _ _ _ => trivial
  gd_poll := fun _ _ _ => trivial
  gd_enter := fun _ _ => trivial
  gd_frame := fun _ _ _ _ => trivial
  poll := fun _ h => h
  enter := fun _ h _ => h
  frame := fun _ _ _ _ _ h => h
  probe := fun _ _ _ _ _ _ => trivial
  store := fun _ _ _ _ _ _ h _ _ _ => h

section
variable {P : Type} (G : Game P)

theorem quiesce_rep (fuel : Nat) (p : P) (α β : Int) (s : SearchState) :
    (quiesce G fuel p α β s).2.rep = s.rep :=
  quiesce_inv (repHyp G s.rep) fuel p α β s trivial rfl trivial

theorem negamax_rep (qfuel depth : Nat) (p : P) (ply : Nat) (α β : Int) (s : SearchState) :
    (negamax G qfuel depth p ply α β s).2.rep = s.rep :=
  (negamax_inv (repHyp G s.rep) qfuel depth p ply α β s trivial rfl trivial).1

/-- **B1.**  `search_position` pushes the root hash, searches, pops: the record is exactly as before,
    on every path — completed, interrupted at any poll, or out of quiescence fuel. -/
theorem repetition_balanced (qfuel : Nat) (p : P) (d : Nat) (s : SearchState) :
    (searchPosition G qfuel p d s).2.rep = s.rep := by
  unfold searchPosition
  simp only
  rw [negamax_rep]
  rfl

theorem iterate_rep (qfuel : Nat) (p : P) (maxDepth n cur : Nat) (best : Int × Option Move)
    (s : SearchState) : (iterate G qfuel p maxDepth n cur best s).2.rep = s.rep :=
  (iterate_inv' (repHyp G s.rep) (fun _ _ h => h) qfuel p trivial maxDepth
    (fun d s' h _ => ⟨(repetition_balanced G qfuel p d s').trans h, fun _ _ => trivial⟩)
    n cur best s trivial rfl).1

/-- **B1 for the whole search.** -/
theorem repetition_balanced_findBestMove (qfuel : Nat) (p : P) (D : Nat) (limit : Limit)
    (s : SearchState) : (findBestMove G qfuel p D limit s).2.rep = s.rep := by
  rw [findBestMove_snd, iterate_rep]
  rfl

end

/-! ## B2 (i) — `stopSeen` is sticky -/

theorem stickyHyp {P : Type} (G : Game P) :
    HypTop G (fun _ => True) (fun _ _ => True) (fun _ => True) (fun s => s.stopSeen = true) where
  closed_m := fun _ _ _ _ => trivial
  closed_q := fun _ _ _ _ => trivial
  q_none := fun _ => trivial
  q_move := fun _ _ _ _ => trivial
  gd_poll := fun _ _ _ => trivial
  gd_enter := fun _ _ => trivial
  gd_frame := fun _ _ _ _ => trivial
  poll := fun s h => by rw [shouldStop_snd]; simp [h]
  enter := fun _ h _ => h
  frame := fun _ _ _ _ _ h => h
  probe := fun _ _ _ _ _ _ => trivial
  store := fun _ _ _ _ _ _ h _ _ _ => h
  rep := fun _ _ h => h
  gd_rep := fun _ _ _ => trivial
  info := fun _ _ h => h

section
variable {P : Type} (G : Game P)

/-- never reset inside quiescence, -/
theorem stopSeen_sticky_quiesce (fuel : Nat) (p : P) (α β : Int) (s : SearchState)
    (h : s.stopSeen = true) : (quiesce G fuel p α β s).2.stopSeen = true :=
  quiesce_inv (stickyHyp G).toHyp fuel p α β s trivial h trivial

/-- negamax, -/
theorem stopSeen_sticky_negamax (qfuel depth : Nat) (p : P) (ply : Nat) (α β : Int) (s : SearchState)
    (h : s.stopSeen = true) : (negamax G qfuel depth p ply α β s).2.stopSeen = true :=
  (negamax_inv (stickyHyp G).toHyp qfuel depth p ply α β s trivial h trivial).1

/-- a root search, -/
theorem stopSeen_sticky_searchPosition (qfuel : Nat) (p : P) (depth : Nat) (s : SearchState)
    (h : s.stopSeen = true) : (searchPosition G qfuel p depth s).2.stopSeen = true :=
  (searchPosition_inv (stickyHyp G) qfuel p depth s trivial h trivial).1

/-- or the iteration loop. (Only `findBestMove`'s reset clears it.) -/
theorem stopSeen_sticky_iterate (qfuel : Nat) (p : P) (maxDepth n cur : Nat) (best : Int × Option Move)
    (s : SearchState) (h : s.stopSeen = true) :
    (iterate G qfuel p maxDepth n cur best s).2.stopSeen = true :=
  (iterate_inv (stickyHyp G) qfuel p trivial maxDepth n cur best s trivial h).1

/-! ## B2 (ii) — stores only before the stop (extensional form) -/

/-- every run of `negamax` from a not-yet-stopped state is a sequence of primitive steps in which every
    `tt.store` (constructor `Step.store`) happens in a state with `stopSeen = false`. -/
theorem negamax_stores_only_before_stop (qfuel depth : Nat) (p : P) (ply : Nat) (α β : Int)
    (s : SearchState) (hm : StopMono s) (hs : s.stopSeen = false) :
    Trace s (negamax G qfuel depth p ply α β s).2 :=
  negamax_trace G qfuel depth p ply α β s hm hs

/-- the same for the whole search including `iterate`'s root cache store. -/
theorem findBestMove_stores_only_before_stop (qfuel : Nat) (p : P) (D : Nat) (limit : Limit)
    (s : SearchState) : Trace (resetState limit s) (findBestMove G qfuel p D limit s).2 :=
  findBestMove_trace G qfuel p D limit s

end

/-- consequence: whatever the search does from a stopped state on, the table is not written. -/
theorem interrupted_stores_nothing {s t : SearchState} (hs : s.stopSeen = true) (h : Trace s t) :
    t.tt = s.tt := (h.frozen hs).2

/-! ## B2 (ii), intensional form — the ghost-instrumented search

`negamaxG` … `findBestMoveG` are the model's functions with one extra output: the list of all executed
`tt.store`s, each with the value of `stopSeen` at the moment of the store. -/

section
variable {P : Type} (G : Game P)

/-- the instrumented negamax IS negamax (result and state), -/
theorem negamaxG_is_negamax (qfuel depth : Nat) (p : P) (ply : Nat) (α β : Int) (s : SearchState) :
    (negamaxG G qfuel depth p ply α β s).1 = (negamax G qfuel depth p ply α β s).1 ∧
    (negamaxG G qfuel depth p ply α β s).2.1 = (negamax G qfuel depth p ply α β s).2 := by
  have h := negamaxG_erase G qfuel depth p ply α β s
  exact ⟨congrArg Prod.fst h, congrArg Prod.snd h⟩

/-- its log is complete: the resulting table is the initial one with the logged stores applied in order
    (so a store that is not in the log did not happen), -/
theorem negamaxG_log_complete (qfuel depth : Nat) (p : P) (ply : Nat) (α β : Int) (s : SearchState) :
    (negamax G qfuel depth p ply α β s).2.tt = replay s.tt (negamaxG G qfuel depth p ply α β s).2.2 := by
  rw [← (negamaxG_is_negamax G qfuel depth p ply α β s).2]
  exact negamaxG_replay G qfuel depth p ply α β s

/-- **B2.**  … and every store of `negamax` — at this node or at any node below it, in every position, for
    every limit — was executed at a moment when no poll had returned true: an interrupted node (its
    post-loop poll returns true, by monotonicity, as soon as ANY poll at or below it did) stores nothing. -/
theorem interrupted_node_stores_nothing (qfuel depth : Nat) (p : P) (ply : Nat) (α β : Int)
    (s : SearchState) (hm : StopMono s) :
    ∀ r ∈ (negamaxG G qfuel depth p ply α β s).2.2, r.stopSeen = false :=
  (negamaxG_flags G qfuel depth p ply α β s hm).2

/-- the instrumented `findBestMove` IS `findBestMove`, -/
theorem findBestMoveG_is_findBestMove (qfuel : Nat) (p : P) (D : Nat) (limit : Limit) (s : SearchState) :
    (findBestMoveG G qfuel p D limit s).1 = (findBestMove G qfuel p D limit s).1 ∧
    (findBestMoveG G qfuel p D limit s).2.1 = (findBestMove G qfuel p D limit s).2 := by
  have h := findBestMoveG_erase G qfuel p D limit s
  exact ⟨congrArg Prod.fst h, congrArg Prod.snd h⟩

/-- its log (all negamax stores and all root cache stores of `iterate`) is complete, -/
theorem findBestMoveG_log_complete (qfuel : Nat) (p : P) (D : Nat) (limit : Limit) (s : SearchState) :
    (findBestMove G qfuel p D limit s).2.tt = replay s.tt (findBestMoveG G qfuel p D limit s).2.2 := by
  rw [← (findBestMoveG_is_findBestMove G qfuel p D limit s).2]
  exact findBestMoveG_replay G qfuel p D limit s

/-- **B2 for the whole search**, from every initial state: no store after a poll returned true. -/
theorem interrupted_search_stores_nothing (qfuel : Nat) (p : P) (D : Nat) (limit : Limit)
    (s : SearchState) : ∀ r ∈ (findBestMoveG G qfuel p D limit s).2.2, r.stopSeen = false :=
  findBestMoveG_flags G qfuel p D limit s

end

/-! ## B3 — zero budget: nothing is stored at all -/

section
variable {P : Type} (G : Game P)

/-- if the poll at the head of the iteration loop returns true, `iterate` returns at once. -/
theorem iterate_of_poll_true (qfuel : Nat) (p : P) (maxDepth n cur : Nat) (best : Int × Option Move)
    (s : SearchState) (h : s.shouldStop.1 = true) :
    iterate G qfuel p maxDepth n cur best s = (some best, s) ∨
    iterate G qfuel p maxDepth n cur best s = (some best, s.shouldStop.2) := by
  cases n with
  | zero => left; rfl
  | succ n =>
    rw [iterate.eq_2]
    split
    · left; rfl
    · right
      revert h
      cases s.shouldStop with
      | mk a b => intro h; simp only at h; subst h; rfl

/-- **B3.**  If the first poll of the search returns true, the table is exactly as before. -/
theorem first_poll_true_stores_nothing (qfuel : Nat) (p : P) (D : Nat) (limit : Limit)
    (s : SearchState) (h : (resetState limit s).shouldStop.1 = true) :
    (findBestMove G qfuel p D limit s).2.tt = s.tt := by
  rw [findBestMove_snd]
  rcases iterate_of_poll_true G qfuel p D D 1 (NEGATIVE_INFINITY, none) (resetState limit s) h with h' | h'
  · rw [h']; rfl
  · rw [h']; rfl

theorem zero_polls_stores_nothing (qfuel : Nat) (p : P) (D : Nat) (s : SearchState) :
    (findBestMove G qfuel p D (.polls 0) s).2.tt = s.tt :=
  first_poll_true_stores_nothing G qfuel p D (.polls 0) s rfl

theorem zero_nodes_stores_nothing (qfuel : Nat) (p : P) (D : Nat) (s : SearchState) :
    (findBestMove G qfuel p D (.nodes 0) s).2.tt = s.tt :=
  first_poll_true_stores_nothing G qfuel p D (.nodes 0) s rfl

/-- and no node is searched either. -/
theorem first_poll_true_searches_nothing (qfuel : Nat) (p : P) (D : Nat) (limit : Limit)
    (s : SearchState) (h : (resetState limit s).shouldStop.1 = true) :
    (findBestMove G qfuel p D limit s).2.nodes = 0 := by
  rw [findBestMove_snd]
  rcases iterate_of_poll_true G qfuel p D D 1 (NEGATIVE_INFINITY, none) (resetState limit s) h with h' | h'
  · rw [h']; rfl
  · rw [h']; rfl

end
end Flounder.Props.C06
