/-
  C15 — Transposition table returns only what was stored for that key, deepest wins.
  Property theorems only; all sequences of operations, any keys/depths/scores/bounds.
-/
import Flounder.Spec.Map

namespace Flounder.Props.C15
open Flounder Flounder.Spec

/-- abstraction: what a `retrieve` would see. -/
def abs (t : TT) : MapSpec := fun k => t.table[k]?

/-- every stored record sits under its own key (holds from the empty table on). -/
def KeyInv (t : TT) : Prop := ∀ (k : UInt64) (e : Entry), t.table[k]? = some e → e.hashKey = k

@[simp] theorem mkEntry_depth (k : UInt64) (ev : Int) (mv : Option Move) (d : Nat) (b : Bounds) :
    (mkEntry k ev mv d b).depth = d := rfl
@[simp] theorem mkEntry_key (k : UInt64) (ev : Int) (mv : Option Move) (d : Nat) (b : Bounds) :
    (mkEntry k ev mv d b).hashKey = k := rfl

theorem keyInv_new : KeyInv TT.new := by
  intro k e h; simp [TT.new] at h

theorem abs_new : abs TT.new = MapSpec.empty := by
  funext k; simp [abs, TT.new, MapSpec.empty]

/-- one `store` of the code is one `storeSpec` of the abstract map. -/
theorem abs_store (t : TT) (k : UInt64) (ev : Int) (mv : Option Move) (d : Nat) (b : Bounds) :
    abs (t.store k ev mv d b) = storeSpec (abs t) k (mkEntry k ev mv d b) := by
  funext k'
  unfold TT.store storeSpec accepts abs mkEntry
  cases h : t.table[k]? with
  | none =>
    by_cases hk : k' = k
    · subst hk; simp
    · simp [hk, Std.HashMap.getElem?_insert, Ne.symm hk]
  | some prev =>
    by_cases hd : prev.depth ≤ d
    · simp only [hd, ↓reduceIte, decide_true]
      by_cases hk : k' = k
      · subst hk; simp
      · simp [hk, Std.HashMap.getElem?_insert, Ne.symm hk]
    · simp [hd]

theorem keyInv_store (t : TT) (h : KeyInv t) (k : UInt64) (ev : Int) (mv : Option Move) (d : Nat)
    (b : Bounds) : KeyInv (t.store k ev mv d b) := by
  intro k' e he
  have := congrFun (abs_store t k ev mv d b) k'
  unfold abs at this
  rw [this] at he
  unfold storeSpec at he
  split at he
  · simp only at he
    split at he
    · rename_i hk; subst hk; simp at he; subst he; rfl
    · exact h _ _ he
  · exact h _ _ he

/-- with the key invariant the guard in `retrieve` never fires: a lookup sees exactly the map. -/
theorem retrieve_eq_abs (t : TT) (h : KeyInv t) (k : UInt64) : t.retrieve k = abs t k := by
  unfold TT.retrieve abs
  cases hk : t.table[k]? with
  | none => rfl
  | some e => simp [h k e hk]

/-- **Refinement**: for every operation sequence from the empty table the code returns exactly what
    the abstract map returns, and its state abstracts to the abstract state. -/
theorem tt_refines_gen (t : TT) (h : KeyInv t) (ops : List Op) :
    (runModel t ops).2 = (runSpec (abs t) ops).2 ∧
    abs (runModel t ops).1 = (runSpec (abs t) ops).1 ∧ KeyInv (runModel t ops).1 := by
  induction ops generalizing t with
  | nil => exact ⟨rfl, rfl, h⟩
  | cons op ops ih =>
    cases op with
    | store k ev mv d b =>
      have := ih (t.store k ev mv d b) (keyInv_store t h k ev mv d b)
      simp only [runModel, runSpec]
      rw [abs_store] at this
      exact this
    | retrieve k =>
      have := ih t h
      simp only [runModel, runSpec]
      refine ⟨?_, this.2.1, this.2.2⟩
      rw [this.1, retrieve_eq_abs t h]

theorem tt_refines (ops : List Op) :
    (runModel TT.new ops).2 = (runSpec MapSpec.empty ops).2 ∧
    abs (runModel TT.new ops).1 = (runSpec MapSpec.empty ops).1 := by
  have := tt_refines_gen TT.new keyInv_new ops
  rw [abs_new] at this
  exact ⟨this.1, this.2.1⟩

/-- **No cross-key answers**, for *any* table state whatsoever (not only reachable ones):
    whatever `retrieve k` returns carries key `k`. -/
theorem no_cross_key (t : TT) (k : UInt64) (e : Entry) (h : t.retrieve k = some e) :
    e.hashKey = k := by
  unfold TT.retrieve at h
  split at h
  · split at h
    · rename_i heq; cases h; simpa using heq
    · cases h
  · cases h

/-- a lookup after a store under another key is unaffected. -/
theorem retrieve_store_other (t : TT) (k k' : UInt64) (hk : k' ≠ k) (ev : Int) (mv : Option Move)
    (d : Nat) (b : Bounds) : (t.store k ev mv d b).retrieve k' = t.retrieve k' := by
  have hget : (t.store k ev mv d b).table[k']? = t.table[k']? := by
    have := congrFun (abs_store t k ev mv d b) k'
    unfold abs at this
    rw [this]
    unfold storeSpec
    split <;> simp [hk]
  unfold TT.retrieve
  rw [hget]

/-- **Deepest wins, ties replace** on a reachable table: after `store` under `k` the lookup is the
    new record if the old one was absent or not deeper, and the old record otherwise. -/
theorem retrieve_store_same (t : TT) (h : KeyInv t) (k : UInt64) (ev : Int) (mv : Option Move)
    (d : Nat) (b : Bounds) :
    (t.store k ev mv d b).retrieve k =
      match t.retrieve k with
      | none => some (mkEntry k ev mv d b)
      | some prev => if prev.depth ≤ d then some (mkEntry k ev mv d b) else some prev := by
  rw [retrieve_eq_abs _ (keyInv_store t h k ev mv d b), abs_store, retrieve_eq_abs t h]
  unfold storeSpec accepts
  cases hk : abs t k with
  | none => simp
  | some prev =>
    by_cases hd : prev.depth ≤ d <;> simp [hd, hk]

/-- **Stored depth never decreases** along any operation sequence. -/
theorem depth_monotone (t : TT) (h : KeyInv t) (k : UInt64) (ev : Int) (mv : Option Move) (d : Nat)
    (b : Bounds) (k' : UInt64) (e : Entry) (he : t.retrieve k' = some e) :
    ∃ e', (t.store k ev mv d b).retrieve k' = some e' ∧ e.depth ≤ e'.depth := by
  by_cases hk : k' = k
  · subst hk
    rw [retrieve_store_same t h, he]
    by_cases hd : e.depth ≤ d
    · exact ⟨mkEntry k' ev mv d b, by simp [hd], by simpa using hd⟩
    · exact ⟨e, by simp [hd], Nat.le_refl _⟩
  · exact ⟨e, by rw [retrieve_store_other t k k' hk, he], Nat.le_refl _⟩

/-- lift of `depth_monotone` to every sequence of operations. -/
theorem depth_monotone_seq (ops : List Op) (t : TT) (h : KeyInv t) (k' : UInt64) (e : Entry)
    (he : t.retrieve k' = some e) :
    ∃ e', (runModel t ops).1.retrieve k' = some e' ∧ e.depth ≤ e'.depth := by
  induction ops generalizing t e with
  | nil => exact ⟨e, he, Nat.le_refl _⟩
  | cons op ops ih =>
    cases op with
    | store k ev mv d b =>
      obtain ⟨e1, h1, hle1⟩ := depth_monotone t h k ev mv d b k' e he
      obtain ⟨e2, h2, hle2⟩ := ih (t.store k ev mv d b) (keyInv_store t h k ev mv d b) e1 h1
      exact ⟨e2, by simpa [runModel] using h2, Nat.le_trans hle1 hle2⟩
    | retrieve k =>
      obtain ⟨e2, h2, hle2⟩ := ih t h e he
      exact ⟨e2, by simpa [runModel] using h2, hle2⟩

/-- the executable log form of the spec (run by the driver) is the functional spec. -/
theorem storeSpec_log (log : List Entry) :
    logGet log = log.foldr (fun e f => storeSpec f e.hashKey e) MapSpec.empty := by
  induction log with
  | nil => rfl
  | cons e rest ih =>
    funext k
    simp only [logGet, List.foldr_cons, ← ih]
    unfold storeSpec accepts
    by_cases hk : e.hashKey = k
    · subst hk
      cases h : logGet rest e.hashKey with
      | none => simp
      | some prev => by_cases hd : prev.depth ≤ e.depth <;> simp [hd, h]
    · have hk' : ¬ k = e.hashKey := fun h => hk h.symm
      simp only [hk, ↓reduceIte]
      split
      · simp [hk']
      · rename_i prev _
        by_cases hd : prev.depth ≤ e.depth <;> simp [hd, hk']

/-! Non-vacuity: a concrete 5-operation history exercising keep / replace / equal-depth replace /
    other key, evaluated on the spec (which `tt_refines` proves equal to the code's answers). -/
example :
    (runSpec MapSpec.empty
      [.store 7 10 none 3 .exact, .store 7 20 none 2 .lower, .retrieve 7,
       .store 7 30 none 3 .upper, .retrieve 7, .retrieve 8]).2
    = [some (mkEntry 7 10 none 3 .exact), some (mkEntry 7 30 none 3 .upper), none] := by
  decide

end Flounder.Props.C15
