/-
  C04, generator side — the hypothesis `GenOK` of Props/C04.lean discharged from C01
  (`generate_moves_exact`): on a valid board every generated move has its squares on the board and no two
  generated moves share from-square, to-square and promotion letter.  Consequences: the text of a legal
  move resolves to that very move, and `position fen <toFen b₀> moves <texts of ms>` reconstructs exactly
  the board reached by playing `ms`, whose abstraction is the position prescribed by the rules.
-/
import Flounder.Props.C04
import Flounder.Props.C01
import Flounder.Props.C02

namespace Flounder.Props.C04
open Flounder Flounder.Engine Flounder.Spec Flounder.Lemmas.UciPosition Flounder.Lemmas.FenAlg
  Flounder.Lemmas.FenPrint Flounder.Lemmas.FenDec

/-! ### a pseudo-legal move is determined by from-square, to-square and promotion letter -/

theorem legal_pseudo {p : Pos} {m : Move} (h : legal p m = true) : pseudo p m = true := by
  unfold legal at h
  simp only [Bool.and_eq_true] at h
  exact h.1

theorem pseudo_squares {p : Pos} {m : Move} (h : pseudo p m = true) : m.src < 64 ∧ m.dst < 64 := by
  unfold pseudo at h
  simp only [Bool.and_eq_true, decide_eq_true_eq] at h
  exact h.1

/-- a quiet move of a man other than a pawn follows that man's attack geometry. -/
theorem pseudo_quiet_officer {p : Pos} {s d : Nat} {pc : Piece} (h : pseudo p ⟨s, d, pc, .quiet⟩ = true)
    (hp : pc ≠ .pawn) : manAttacks p.board p.turn pc s d = true := by
  unfold pseudo at h
  simp only [Bool.and_eq_true, decide_eq_true_eq] at h
  obtain ⟨_, h⟩ := h
  split at h
  · cases h
  · rename_i c' pc' hsrc
    simp only [Bool.and_eq_true, beq_iff_eq] at h
    obtain ⟨h1, ⟨h2, _⟩, h4⟩ := h
    subst h1 h2
    cases pc <;> first | exact absurd rfl hp | exact h4

theorem excl_quiet_capture {p : Pos} {s d : Nat} {p1 p2 : Piece}
    (h1 : pseudo p ⟨s, d, p1, .quiet⟩ = true) (h2 : pseudo p ⟨s, d, p2, .capture⟩ = true) : False := by
  obtain ⟨_, _, _, he, _⟩ := pseudo_quiet h1
  obtain ⟨_, _, _, ⟨q, hq⟩, _⟩ := pseudo_capture h2
  rw [he] at hq; cases hq

theorem excl_quiet_ep {p : Pos} {s d : Nat} {p1 p2 : Piece}
    (h1 : pseudo p ⟨s, d, p1, .quiet⟩ = true) (h2 : pseudo p ⟨s, d, p2, .enPassant⟩ = true) : False := by
  obtain ⟨_, _, hs1, _, hpawn⟩ := pseudo_quiet h1
  obtain ⟨_, _, _, hs2, _, hatt⟩ := pseudo_enPassant h2
  rw [hs1] at hs2
  have hp : p1 = .pawn := by cases hs2; rfl
  obtain ⟨_, hfile, _⟩ := hpawn hp
  unfold manAttacks at hatt
  simp only [Bool.and_eq_true, beq_iff_eq] at hatt
  have := hatt.1
  rw [hfile] at this
  unfold absDiff at this
  simp at this

theorem excl_quiet_castle {p : Pos} {s d : Nat} {p1 p2 : Piece}
    (h1 : pseudo p ⟨s, d, p1, .quiet⟩ = true) (h2 : pseudo p ⟨s, d, p2, .castle⟩ = true) : False := by
  obtain ⟨_, _, hs1, _, _⟩ := pseudo_quiet h1
  obtain ⟨_, _, _, hs2, hsk, hdk, _⟩ := pseudo_castle h2
  rw [hs1] at hs2
  have hp : p1 = .king := by cases hs2; rfl
  subst hp
  have hatt := pseudo_quiet_officer h1 (by decide)
  unfold manAttacks at hatt
  simp only [Bool.and_eq_true, decide_eq_true_eq] at hatt
  have hf := hatt.2
  subst hsk
  revert hf hdk
  unfold absDiff file kingHome
  cases p.turn <;> simp only [] <;> intro hdk hf <;> split at hf <;> omega

theorem excl_capture_ep {p : Pos} (hv : ValidPos p) {s d : Nat} {p1 p2 : Piece}
    (h1 : pseudo p ⟨s, d, p1, .capture⟩ = true) (h2 : pseudo p ⟨s, d, p2, .enPassant⟩ = true) : False := by
  obtain ⟨_, _, _, ⟨q, hq⟩, _⟩ := pseudo_capture h1
  obtain ⟨_, _, _, _, hep, _⟩ := pseudo_enPassant h2
  obtain ⟨_, _, he, _⟩ := hv.ep d hep
  rw [he] at hq; cases hq

theorem excl_capture_castle {p : Pos} {s d : Nat} {p1 p2 : Piece}
    (h1 : pseudo p ⟨s, d, p1, .capture⟩ = true) (h2 : pseudo p ⟨s, d, p2, .castle⟩ = true) : False := by
  obtain ⟨_, _, _, ⟨q, hq⟩, _⟩ := pseudo_capture h1
  obtain ⟨_, _, _, _, hsk, hdk, _, _, hpath⟩ := pseudo_castle h2
  subst hsk
  obtain ⟨he, _⟩ := pathClear_castle hdk hpath
  rw [he] at hq; cases hq

theorem excl_ep_castle {p : Pos} {s d : Nat} {p1 p2 : Piece}
    (h1 : pseudo p ⟨s, d, p1, .enPassant⟩ = true) (h2 : pseudo p ⟨s, d, p2, .castle⟩ = true) : False := by
  obtain ⟨_, _, _, hs1, _⟩ := pseudo_enPassant h1
  obtain ⟨_, _, _, hs2, _⟩ := pseudo_castle h2
  rw [hs1] at hs2; cases hs2

/-- the promoted piece of a pseudo-legal promotion is one of the four promotion pieces. -/
theorem pseudo_promo_mem {p : Pos} {m : Move} (h : pseudo p m = true) (hk : m.kind = .promotion) :
    m.piece ∈ Piece.promotions := by
  obtain ⟨s, d, pc, k⟩ := m
  simp only [] at hk
  subst hk
  obtain ⟨_, _, _, _, hpc, _⟩ := pseudo_promotion h
  rcases hpc with h | h | h | h <;> subst h <;> simp [Piece.promotions]

/-- **a pseudo-legal move on a valid position is determined by its from-square, to-square and promotion
    letter**: the piece is the man on the from-square (or the promoted piece named by the letter), and
    the five kinds are mutually exclusive given the board. -/
theorem pseudo_unique {p : Pos} (hv : ValidPos p) {m₁ m₂ : Move}
    (h1 : pseudo p m₁ = true) (h2 : pseudo p m₂ = true)
    (hs : m₁.src = m₂.src) (hd : m₁.dst = m₂.dst) (hp : promoSuffix m₁ = promoSuffix m₂) : m₁ = m₂ := by
  have hk12 : m₁.kind = .promotion → m₂.kind = .promotion :=
    fun k => promoSuffix_kind m₁ m₂ hp k (pseudo_promo_mem h1 k)
  have hk21 : m₂.kind = .promotion → m₁.kind = .promotion :=
    fun k => promoSuffix_kind m₂ m₁ hp.symm k (pseudo_promo_mem h2 k)
  have hpp : m₁.kind = .promotion → m₂.kind = .promotion → m₁.piece = m₂.piece :=
    fun k1 k2 => promoSuffix_inj m₁ m₂ hp k1 k2 (pseudo_promo_mem h1 k1) (pseudo_promo_mem h2 k2)
  obtain ⟨s, d, p1, k1⟩ := m₁
  obtain ⟨s', d', p2, k2⟩ := m₂
  simp only [] at hs hd hk12 hk21 hpp
  subst hs hd
  cases k1 <;> cases k2
  -- quiet
  · obtain ⟨_, _, a, _⟩ := pseudo_quiet h1
    obtain ⟨_, _, b, _⟩ := pseudo_quiet h2
    rw [a] at b; cases b; rfl
  · exact (excl_quiet_capture h1 h2).elim
  · exact (excl_quiet_ep h1 h2).elim
  · exact (excl_quiet_castle h1 h2).elim
  · exact absurd (hk21 rfl) (by decide)
  -- capture
  · exact (excl_quiet_capture h2 h1).elim
  · obtain ⟨_, _, a, _⟩ := pseudo_capture h1
    obtain ⟨_, _, b, _⟩ := pseudo_capture h2
    rw [a] at b; cases b; rfl
  · exact (excl_capture_ep hv h1 h2).elim
  · exact (excl_capture_castle h1 h2).elim
  · exact absurd (hk21 rfl) (by decide)
  -- en passant
  · exact (excl_quiet_ep h2 h1).elim
  · exact (excl_capture_ep hv h2 h1).elim
  · obtain ⟨_, _, a, _⟩ := pseudo_enPassant h1
    obtain ⟨_, _, b, _⟩ := pseudo_enPassant h2
    rw [a, b]
  · exact (excl_ep_castle h1 h2).elim
  · exact absurd (hk21 rfl) (by decide)
  -- castle
  · exact (excl_quiet_castle h2 h1).elim
  · exact (excl_capture_castle h2 h1).elim
  · exact (excl_ep_castle h2 h1).elim
  · obtain ⟨_, _, a, _⟩ := pseudo_castle h1
    obtain ⟨_, _, b, _⟩ := pseudo_castle h2
    rw [a, b]
  · exact absurd (hk21 rfl) (by decide)
  -- promotion
  · exact absurd (hk12 rfl) (by decide)
  · exact absurd (hk12 rfl) (by decide)
  · exact absurd (hk12 rfl) (by decide)
  · exact absurd (hk12 rfl) (by decide)
  · rw [hpp rfl rfl]

/-! ### `GenOK` discharged -/

/-- `GenOK` for every generator that is exact in the sense of C01. -/
theorem genOK_of_exact (g : MoveGenerator) (hg : Props.C01.GenerateMovesExact g)
    (b : Board) (hv : Spec.valid b = true) : GenOK g b := by
  obtain ⟨_, hmem, _⟩ := hg b hv
  have hvp : ValidPos (abs b) := ((valid_iff b).1 hv).2
  refine ⟨fun m hm => pseudo_squares (legal_pseudo ((hmem m).1 hm)), ?_⟩
  intro m₁ h1 m₂ h2 hs hd hp
  exact pseudo_unique hvp (legal_pseudo ((hmem m₁).1 h1)) (legal_pseudo ((hmem m₂).1 h2)) hs hd hp

/-- **`GenOK` holds on every valid board** for the engine's generator. -/
theorem genOK_of_valid (b : Board) (hv : Spec.valid b = true) : GenOK MoveGenerator.new b :=
  genOK_of_exact _ Props.C01.generate_moves_exact b hv

/-- the move text is injective on the legal moves of a valid position. -/
theorem toAlgebraic_injOn_legal (b : Board) (hv : Spec.valid b = true) (m₁ m₂ : Move)
    (h1 : Spec.legal (Spec.abs b) m₁ = true) (h2 : Spec.legal (Spec.abs b) m₂ = true)
    (h : m₁.toAlgebraic = m₂.toAlgebraic) : m₁ = m₂ := by
  obtain ⟨_, hmem, _⟩ := Props.C01.generate_moves_exact b hv
  exact toAlgebraic_injOn_generated _ b (genOK_of_valid b hv) m₁ m₂ ((hmem m₁).2 h1) ((hmem m₂).2 h2) h

/-- **on a valid board the text of a legal move resolves to that very move** (unconditional form of
    `resolve_unique`). -/
theorem resolve_unique_valid (b : Board) (hv : Spec.valid b = true) (m : Move)
    (hl : Spec.legal (Spec.abs b) m = true) : resolve MoveGenerator.new b m.toAlgebraic = some m := by
  obtain ⟨_, hmem, _⟩ := Props.C01.generate_moves_exact b hv
  exact resolve_unique _ b (genOK_of_valid b hv) m ((hmem m).2 hl)

/-- what a token resolves to on a valid board: the unique legal move with that text. -/
theorem resolve_eq_some_iff_valid (b : Board) (hv : Spec.valid b = true) (t : Tok) (m : Move) :
    resolve MoveGenerator.new b t = some m ↔ Spec.legal (Spec.abs b) m = true ∧ m.toAlgebraic = t := by
  obtain ⟨_, hmem, _⟩ := Props.C01.generate_moves_exact b hv
  constructor
  · intro h
    obtain ⟨h1, h2⟩ := resolve_sound _ b t m h
    exact ⟨(hmem m).1 h1, h2⟩
  · rintro ⟨h1, rfl⟩
    exact resolve_unique_valid b hv m h1

/-- a token is refused (the engine panics on `unwrap`) iff no legal move has that text. -/
theorem resolve_eq_none_iff_valid (b : Board) (hv : Spec.valid b = true) (t : Tok) :
    resolve MoveGenerator.new b t = none ↔ ∀ m, Spec.legal (Spec.abs b) m = true → m.toAlgebraic ≠ t := by
  constructor
  · intro h m hl ht
    rw [(resolve_eq_some_iff_valid b hv t m).2 ⟨hl, ht⟩] at h
    cases h
  · intro h
    cases hr : resolve MoveGenerator.new b t with
    | none => rfl
    | some m =>
      obtain ⟨h1, h2⟩ := (resolve_eq_some_iff_valid b hv t m).1 hr
      exact absurd h2 (h m h1)

/-! ### the `position` command reconstructs the position reached by a legal move sequence -/

/-- two positions are the same on the 64 squares and in side to move, castling rights, en-passant square
    (the mailbox of `Spec.abs` is only meaningful on squares `< 64`). -/
def PosAgree (p q : Pos) : Prop :=
  Agree p.board q.board ∧ p.turn = q.turn ∧ p.castle = q.castle ∧ p.ep = q.ep

theorem PosAgree.refl (p : Pos) : PosAgree p p := ⟨fun _ _ => rfl, rfl, rfl, rfl⟩

theorem PosAgree.trans {p q r : Pos} (h1 : PosAgree p q) (h2 : PosAgree q r) : PosAgree p r :=
  ⟨fun s hs => (h1.1 s hs).trans (h2.1 s hs), h1.2.1.trans h2.2.1, h1.2.2.1.trans h2.2.2.1,
    h1.2.2.2.trans h2.2.2.2⟩

theorem PosAgree.symm {p q : Pos} (h : PosAgree p q) : PosAgree q p :=
  ⟨fun s hs => (h.1 s hs).symm, h.2.1.symm, h.2.2.1.symm, h.2.2.2.symm⟩

/-- the successor prescribed by the rules only reads the 64 squares. -/
theorem PosAgree.play {p q : Pos} (h : PosAgree p q) (m : Move) (hs : m.src < 64) :
    PosAgree (Spec.play p m) (Spec.play q m) := by
  obtain ⟨hb, ht, hc, he⟩ := h
  refine ⟨?_, ?_, ?_, ?_⟩
  · intro s hs'
    show playBoard p m s = playBoard q m s
    unfold playBoard
    simp only [ht, hb s hs']
  · show p.turn.other = q.turn.other
    rw [ht]
  · simp only [Spec.play, hc]
  · simp only [Spec.play, ht, hb m.src hs]

/-- **the position prescribed by the rules** after the moves `ms` from `p`. -/
def playRules (p : Pos) (ms : List Move) : Pos := ms.foldl Spec.play p

theorem playMoves_eq_playAll (ms : List Move) (b : Board) : playMoves ms b = Props.C02.playAll b ms := by
  induction ms generalizing b with
  | nil => rfl
  | cons m ms ih =>
    simp only [playMoves, Props.C02.playAll]
    cases b.makeMove m with
    | none => rfl
    | some b' => simp only [Option.bind_some]; exact ih b'

/-- replaying the texts of a legal sequence from a valid board: every text resolves to its own move, no
    `make_move` panics, the board reached is the fold of `makeMove`, it is valid, and its abstraction is
    the position prescribed by the rules. -/
theorem replay_legalSeq (ms : List Move) : ∀ (b : Board), Spec.valid b = true → Props.C02.LegalSeq b ms →
    ∃ past fin, replay MoveGenerator.new (ms.map Move.toAlgebraic) b = some (past, fin) ∧
      resolvedMoves MoveGenerator.new (ms.map Move.toAlgebraic) b = some ms ∧
      Props.C02.playAll b ms = some fin ∧ Spec.valid fin = true ∧
      ∀ p, PosAgree (Spec.abs b) p → PosAgree (Spec.abs fin) (playRules p ms) := by
  induction ms with
  | nil =>
    intro b hv _
    exact ⟨[], b, rfl, rfl, rfl, hv, fun p hp => hp⟩
  | cons m ms ih =>
    intro b hv hl
    obtain ⟨hm, hrest⟩ := hl
    obtain ⟨b1, hmk, h1, h2, h3, h4, hv1⟩ := Props.C02.make_move_refines b m hv hm
    obtain ⟨past, fin, r1, r2, r3, r4, r5⟩ := ih b1 hv1 (hrest b1 hmk)
    have hres := resolve_unique_valid b hv m hm
    refine ⟨b :: past, fin, ?_, ?_, ?_, r4, ?_⟩
    · simp only [List.map_cons, replay, hres, hmk, r1]
    · simp only [List.map_cons, resolvedMoves, hres, hmk, r2, Option.map_some]
    · simp only [Props.C02.playAll, hmk, Option.bind_some]; exact r3
    · intro p hp
      have hstep : PosAgree (Spec.abs b1) (Spec.play p m) :=
        PosAgree.trans ⟨h1, h2, h3, h4⟩ (hp.play m (pseudo_squares (legal_pseudo hm)).1)
      exact r5 _ hstep

/-- **the `position` command reconstructs the position.**  Let `b₀` be a valid board (counters within
    the FEN range) and `ms` a sequence of moves each legal by the rules of chess in the position reached
    so far.  The command `position fen <toFen b₀> moves <Move.toAlgebraic of each move>` does not panic,
    prints nothing, and sets the engine's board to exactly the board `fin` obtained by playing `ms` with
    `makeMove` from `b₀`; `fin` is valid and abstracts to the position the rules prescribe
    (`playRules (abs b₀) ms`), whatever the engine's previous state `e` was. -/
theorem position_reconstructs (ctx : EngineCtx) (hmg : ctx.mg = MoveGenerator.new) (e : Engine)
    (b₀ : Board) (hv : Spec.valid b₀ = true)
    (hh : b₀.halfmove < Gen.FEN_HALFMOVE_BOUND) (hf : b₀.fullmove < Gen.FEN_FULLMOVE_BOUND)
    (ms : List Move) (hl : Props.C02.LegalSeq b₀ ms) :
    ∃ fin, Props.C02.playAll b₀ ms = some fin ∧ Spec.valid fin = true ∧
      PosAgree (Spec.abs fin) (playRules (Spec.abs b₀) ms) ∧
      (handlePosition ctx e (kwPosition :: kwFen :: (toFen b₀ ++ kwMoves :: ms.map Move.toAlgebraic))).2.1.board = fin ∧
      (handlePosition ctx e (kwPosition :: kwFen :: (toFen b₀ ++ kwMoves :: ms.map Move.toAlgebraic))).2.2 = .running ∧
      (handlePosition ctx e (kwPosition :: kwFen :: (toFen b₀ ++ kwMoves :: ms.map Move.toAlgebraic))).1 = [] := by
  obtain ⟨hc, hvp⟩ := (valid_iff b₀).1 hv
  have hep : ∀ s, b₀.ep = some s → s < 64 := fun s hs => (hvp.ep s hs).1
  have hfen := fen_roundtrip b₀ hc hep hh hf
  obtain ⟨past, fin, r1, _, r3, r4, r5⟩ := replay_legalSeq ms b₀ hv hl
  refine ⟨fin, r3, r4, r5 _ (PosAgree.refl _), ?_⟩
  simp only [toFen] at hfen ⊢
  simp only [List.cons_append, List.nil_append]
  have hb : positionBase (kwPosition :: kwFen :: placementText b₀ :: sideText b₀.active :: castleText b₀.castle ::
      epText b₀.ep :: decChars b₀.halfmove :: decChars b₀.fullmove :: kwMoves :: ms.map Move.toAlgebraic) =
      some ([], b₀) := by
    have hk : kwFen ≠ kwStartpos := by decide
    simp [positionBase, hk, hfen]
  rw [handlePosition_of_base ctx e _ [] b₀ hb]
  simp only [positionResult, Flounder.Lemmas.FenInv.movesAfter_fen_moves _ _ _ _ _ _ b₀ _ hfen, hmg, r1]
  exact ⟨trivial, trivial, trivial⟩

/-! ### legality by the rules alone (no engine board in the hypothesis) -/

theorem band_congr_right {a b b' : Bool} (h : a = true → b = b') : (a && b) = (a && b') := by
  cases a
  · rfl
  · simp only [Bool.true_and]; exact h rfl

theorem ite_lt64 {c : Prop} [Decidable c] {a b : Nat} (ha : a < 64) (hb : b < 64) :
    (if c then a else b) < 64 := by
  by_cases h : c
  · rw [if_pos h]; exact ha
  · rw [if_neg h]; exact hb

theorem rookHome_lt (c : Color) (ks : Bool) : rookHome c ks < 64 := by cases c <;> cases ks <;> decide

theorem forward_lt_of_home {c : Color} {s : Nat} (h : rank s = pawnHomeRank c) : forward c s < 64 := by
  revert h; unfold rank pawnHomeRank forward; cases c <;> simp only [] <;> omega

/-- pseudo-legality only reads the 64 squares. -/
theorem pseudo_congr_board (bd bd' : Nat → Option Man) (hb : Agree bd bd') (t : Color) (cs : Castle)
    (ep : Option Nat) (m : Move) : pseudo ⟨bd, t, cs, ep⟩ m = pseudo ⟨bd', t, cs, ep⟩ m := by
  unfold pseudo
  simp only []
  apply band_congr_right
  intro hsd
  simp only [Bool.and_eq_true, decide_eq_true_eq] at hsd
  obtain ⟨hs, hd⟩ := hsd
  rw [hb m.src hs]
  cases hsrc : bd' m.src with
  | none => rfl
  | some x =>
    obtain ⟨c', pc⟩ := x
    simp only []
    congr 1
    cases hk : m.kind
    · -- quiet
      simp only []
      rw [hb m.dst hd]
      congr 1
      cases pc
      · simp only []
        congr 1
        congr 1
        congr 1
        apply band_congr_right
        intro hg
        simp only [Bool.and_eq_true, beq_iff_eq] at hg
        rw [hb _ (forward_lt_of_home hg.1)]
      all_goals simp only [manAttacks_congr hb _ _ hs hd]
    · simp only []
      rw [hb m.dst hd, manAttacks_congr hb _ _ hs hd]
    · simp only []
      rw [manAttacks_congr hb _ _ hs hd]
    · -- castle
      simp only []
      apply band_congr_right
      intro hg
      simp only [Bool.and_eq_true, beq_iff_eq] at hg
      have hsk : m.src = kingHome t := hg.1.2
      have hlt : (if (m.dst == kingHome t + 2) = true then m.src + 1 else m.src - 1) < 64 := by
        rw [hsk]; cases t <;> simp only [kingHome] <;> exact ite_lt64 (by decide) (by decide)
      rw [hb _ (rookHome_lt _ _), pathClear_congr hb hs (rookHome_lt _ _), attacked_congr hb _ hs,
        attacked_congr hb _ hlt, attacked_congr hb _ hd]
    · simp only []
      rw [hb m.dst hd, manAttacks_congr hb _ _ hs hd]

theorem pseudo_congr {p q : Pos} (h : PosAgree p q) (m : Move) : pseudo p m = pseudo q m := by
  obtain ⟨pb, pt, pc, pe⟩ := p
  obtain ⟨qb, qt, qc, qe⟩ := q
  obtain ⟨hb, ht, hc, he⟩ := h
  simp only [] at hb ht hc he
  subst ht hc he
  exact pseudo_congr_board pb qb hb _ _ _ m

theorem playBoard_agree {p q : Pos} (h : PosAgree p q) (m : Move) :
    Agree (Spec.play p m).board (Spec.play q m).board := by
  intro s hs
  show playBoard p m s = playBoard q m s
  unfold playBoard
  simp only [h.2.1, h.1 s hs]

/-- legality only reads the 64 squares, the side to move, the rights and the en-passant square. -/
theorem legal_congr {p q : Pos} (h : PosAgree p q) (m : Move) : legal p m = legal q m := by
  unfold legal
  rw [pseudo_congr h m, inCheckOf_congr (playBoard_agree h m), h.2.1]

/-- `ms` is a game continuation **by the rules of chess alone**: each move is legal in the position the
    rules prescribe after its predecessors. -/
def LegalRules : Pos → List Move → Prop
  | _, [] => True
  | p, m :: ms => Spec.legal p m = true ∧ LegalRules (Spec.play p m) ms

/-- from a valid board a continuation legal by the rules alone is legal along the engine's own boards. -/
theorem legalSeq_of_rules (ms : List Move) : ∀ (b : Board) (p : Pos), Spec.valid b = true →
    PosAgree (Spec.abs b) p → LegalRules p ms → Props.C02.LegalSeq b ms := by
  induction ms with
  | nil => intro _ _ _ _ _; trivial
  | cons m ms ih =>
    intro b p hv hp hl
    obtain ⟨hm, hrest⟩ := hl
    have hm' : Spec.legal (Spec.abs b) m = true := by rw [legal_congr hp m]; exact hm
    refine ⟨hm', fun b' hmk' => ?_⟩
    obtain ⟨b1, hmk, h1, h2, h3, h4, hv1⟩ := Props.C02.make_move_refines b m hv hm'
    rw [hmk] at hmk'
    cases hmk'
    exact ih _ (Spec.play p m) hv1
      (PosAgree.trans ⟨h1, h2, h3, h4⟩ (hp.play m (pseudo_squares (legal_pseudo hm')).1)) hrest

/-- **the `position` command reconstructs the position (rules-only hypothesis).**  `b₀` a valid board
    with counters in the FEN range, `ms` any continuation legal by the rules of chess from the position
    `abs b₀` (no reference to the engine in the hypothesis): the command
    `position fen <toFen b₀> moves <texts of ms>` neither panics nor prints, and leaves as the engine's
    board a valid board that is the `makeMove`-fold of `ms` from `b₀` and abstracts to the position the
    rules prescribe. -/
theorem position_reconstructs_rules (ctx : EngineCtx) (hmg : ctx.mg = MoveGenerator.new) (e : Engine)
    (b₀ : Board) (hv : Spec.valid b₀ = true)
    (hh : b₀.halfmove < Gen.FEN_HALFMOVE_BOUND) (hf : b₀.fullmove < Gen.FEN_FULLMOVE_BOUND)
    (ms : List Move) (hl : LegalRules (Spec.abs b₀) ms) :
    ∃ fin, Props.C02.playAll b₀ ms = some fin ∧ Spec.valid fin = true ∧
      PosAgree (Spec.abs fin) (playRules (Spec.abs b₀) ms) ∧
      (handlePosition ctx e (kwPosition :: kwFen :: (toFen b₀ ++ kwMoves :: ms.map Move.toAlgebraic))).2.1.board = fin ∧
      (handlePosition ctx e (kwPosition :: kwFen :: (toFen b₀ ++ kwMoves :: ms.map Move.toAlgebraic))).2.2 = .running ∧
      (handlePosition ctx e (kwPosition :: kwFen :: (toFen b₀ ++ kwMoves :: ms.map Move.toAlgebraic))).1 = [] :=
  position_reconstructs ctx hmg e b₀ hv hh hf ms (legalSeq_of_rules ms b₀ _ hv (PosAgree.refl _) hl)

/-- the same from the start position: `position startpos moves <texts of ms>`. -/
theorem position_startpos_reconstructs (ctx : EngineCtx) (hmg : ctx.mg = MoveGenerator.new) (e : Engine)
    (ms : List Move) (hl : LegalRules (Spec.abs Board.startpos) ms) :
    ∃ fin, Props.C02.playAll Board.startpos ms = some fin ∧ Spec.valid fin = true ∧
      PosAgree (Spec.abs fin) (playRules (Spec.abs Board.startpos) ms) ∧
      (handlePosition ctx e (kwPosition :: kwStartpos :: kwMoves :: ms.map Move.toAlgebraic)).2.1.board = fin ∧
      (handlePosition ctx e (kwPosition :: kwStartpos :: kwMoves :: ms.map Move.toAlgebraic)).2.2 = .running := by
  have hv := Props.C02.startpos_valid
  obtain ⟨past, fin, r1, _, r3, r4, r5⟩ := replay_legalSeq ms Board.startpos hv
    (legalSeq_of_rules ms _ _ hv (PosAgree.refl _) hl)
  obtain ⟨h1, h2, _⟩ := (position_startpos_moves ctx e (ms.map Move.toAlgebraic)).1 past fin (by rw [hmg]; exact r1)
  exact ⟨fin, r3, r4, r5 _ (PosAgree.refl _), h2, h1⟩

/-! ### non-vacuity -/

/-- 1. e4 is a continuation legal by the rules from the start position; its text is `e2e4`. -/
example : LegalRules (Spec.abs Board.startpos) [Props.C02.e2e4] := ⟨Props.C02.e2e4_legal, trivial⟩
example : [Props.C02.e2e4].map Move.toAlgebraic = [['e', '2', 'e', '4']] := by decide

/-- so `position startpos moves e2e4` leaves a valid board with Black to move and the pawn on e4. -/
example (ctx : EngineCtx) (hmg : ctx.mg = MoveGenerator.new) (e : Engine) :
    ∃ fin, (handlePosition ctx e [kwPosition, kwStartpos, kwMoves, ['e', '2', 'e', '4']]).2.1.board = fin ∧
      Spec.valid fin = true ∧ (Spec.abs fin).turn = .black ∧ (Spec.abs fin).board 28 = some (.white, .pawn) := by
  obtain ⟨fin, _, h2, h3, h4, _⟩ := position_startpos_reconstructs ctx hmg e [Props.C02.e2e4] ⟨Props.C02.e2e4_legal, trivial⟩
  refine ⟨fin, h4, h2, h3.2.1.trans (by decide +kernel), (h3.1 28 (by decide)).trans (by decide +kernel)⟩

end Flounder.Props.C04
