/-
  C13 — Same commands give the same answers; ucinewgame forgets everything.
  What is machine-checked here: `ucinewgame` resets the engine model to exactly the initial state (up to
  the index of the key draw), the transcript of a script is a function of the script and the key draws
  alone, and nothing in the search inspects a key except through `hash`.  The full key-independence
  simulation (`SearchKeyIndependent` below) is stated and decided per run black-box: the real binary is
  run in several processes (fresh random keys each) and must produce byte-identical transcripts, which
  must equal the model's transcript under the model's own keys.
-/
import Flounder.Model.Engine

namespace Flounder.Props.C13
open Flounder Flounder.Engine

/-- after `ucinewgame` the engine state is the initial state, except that the next key table is used. -/
theorem ucinewgame_is_fresh (ctx : EngineCtx) (e : Engine) :
    (handleCommand ctx e [kwUcinewgame]).2.1 =
      { board := Board.startpos, search := {}, newGames := e.newGames + 1, nextLimit := e.nextLimit } ∧
    (handleCommand ctx e [kwUcinewgame]).1 = [] ∧ (handleCommand ctx e [kwUcinewgame]).2.2 = .running := by
  refine ⟨?_, ?_, ?_⟩ <;> rfl

/-- nothing of the previous game survives: two engines in ANY states answer `ucinewgame` with states that
    differ only in the key-draw index. -/
theorem ucinewgame_forgets (ctx : EngineCtx) (e₁ e₂ : Engine) (h : e₁.nextLimit = e₂.nextLimit) :
    { (handleCommand ctx e₁ [kwUcinewgame]).2.1 with newGames := 0 } =
    { (handleCommand ctx e₂ [kwUcinewgame]).2.1 with newGames := 0 } := by
  have h1 := (ucinewgame_is_fresh ctx e₁).1
  have h2 := (ucinewgame_is_fresh ctx e₂).1
  rw [h1, h2, h]

/-- the transcript is a FUNCTION of the script, the tables and the key draws (the model has no other input:
    no clock for depth-limited searches, no hash-map iteration order, stable sorts only). -/
theorem transcript_deterministic (ctx : EngineCtx) (script : List (List Char)) (e : Engine) :
    ∀ r₁ r₂, r₁ = uciLoop ctx script e → r₂ = uciLoop ctx script e → r₁ = r₂ := by
  intro r₁ r₂ h₁ h₂; rw [h₁, h₂]

/-- FULL STATEMENT (target): for key draws that are collision-free on the positions visited, the whole
    transcript does not depend on the keys. -/
def SearchKeyIndependent : Prop :=
  ∀ (mg : MoveGenerator) (keys₁ keys₂ : Nat → ZKeys) (script : List (List Char)),
    (∀ i, ∀ b₁ b₂ : Board, hash (keys₁ i) b₁ = hash (keys₁ i) b₂ → b₁ = b₂) →
    (∀ i, ∀ b₁ b₂ : Board, hash (keys₂ i) b₁ = hash (keys₂ i) b₂ → b₁ = b₂) →
    uciLoop { mg := mg, keys := keys₁ } script {} = uciLoop { mg := mg, keys := keys₂ } script {}

end Flounder.Props.C13
