/-
  C13 — Same commands give the same answers; ucinewgame forgets everything.

  "For depth-limited searches the complete output (scores, node counts, principal moves, bestmove) is a
  function of the command sequence alone: it is identical in every process run, so it does not depend on the
  random hash keys drawn at start-up.  After ucinewgame the engine behaves exactly like a freshly started
  process."

  What is machine-checked here:
  * `ucinewgame` resets the engine model to exactly the initial state (up to the index of the key draw);
  * `search_key_independent` (and its more general forms): two processes with different key draws print the
    same transcript for the same script, provided the key tables have no collision among the boards the
    run hashes (`visited`: the boards of the `position` commands and the boards within `D` plies of the
    current board for every `go` of depth `D`).  The simulation behind it is in `Lemmas/KeySim*.lean`; the
    search-level core is `KeySim.findBestMove_key_independent`, with a machine-checked example that the
    hypothesis cannot be dropped (`KeySim.key_dependence_without_injectivity`);
  * `ucinewgame_like_fresh_process`: after `ucinewgame` the rest of the transcript is the transcript of a
    fresh process whose key stream starts at the next draw; with key independence: of ANY fresh process.

  The first target statement, `SearchKeyIndependent`, asked for a key table that is injective on ALL boards.
  No such table exists (`no_injective_keys`: the hash does not read the move counters), so that statement is
  vacuous (`searchKeyIndependent_vacuous`); it is kept below for the record.
-/
import Flounder.Model.Engine
import Flounder.Lemmas.KeySimEngine
import Flounder.Lemmas.KeySimToy
import Flounder.Lemmas.KeySimExample

namespace Flounder.Props.C13
open Flounder Flounder.Engine Flounder.Search Flounder.KeySim Flounder.Lemmas.Uci

/-- after `ucinewgame` the engine state is the initial state, except that the next key table is used. -/
theorem ucinewgame_is_fresh (ctx : EngineCtx) (e : Engine) :
    (handleCommand ctx e [kwUcinewgame]).2.1 =
      { board := Board.startpos, search := {}, newGames := e.newGames + 1, nextLimit := e.nextLimit } ∧
    (handleCommand ctx e [kwUcinewgame]).1 = [] ∧ (handleCommand ctx e [kwUcinewgame]).2.2 = .running := by
  refine ⟨?_, ?_, ?_⟩ <;> rfl

/-- nothing of the previous game survives: two engines in ANY states answer `ucinewgame` with states that
    differ only in the key-draw index. -/
theorem ucinewgame_forgets (ctx : EngineCtx) (e₁ e₂ : Engine) (h : e₁.nextLimit = e₂.nextLimit) :
    { (handleCommand ctx e₁ [kwUcinewgame]).2.1 with newGames := 0 } =
    { (handleCommand ctx e₂ [kwUcinewgame]).2.1 with newGames := 0 } := by
  have h1 := (ucinewgame_is_fresh ctx e₁).1
  have h2 := (ucinewgame_is_fresh ctx e₂).1
  rw [h1, h2, h]

/-- the transcript is a FUNCTION of the script, the tables and the key draws (the model has no other input:
    no clock for depth-limited searches, no hash-map iteration order, stable sorts only). -/
theorem transcript_deterministic (ctx : EngineCtx) (script : List (List Char)) (e : Engine) :
    ∀ r₁ r₂, r₁ = uciLoop ctx script e → r₂ = uciLoop ctx script e → r₁ = r₂ := by
  intro r₁ r₂ h₁ h₂; rw [h₁, h₂]

/-! ### the first target statement is vacuous -/

/-- FIRST TARGET STATEMENT (kept for the record, superseded by `search_key_independent`): key draws that are
    collision-free on ALL boards.  Its hypothesis is unsatisfiable, see `no_injective_keys`. -/
def SearchKeyIndependent : Prop :=
  ∀ (mg : MoveGenerator) (keys₁ keys₂ : Nat → ZKeys) (script : List (List Char)),
    (∀ i, ∀ b₁ b₂ : Board, hash (keys₁ i) b₁ = hash (keys₁ i) b₂ → b₁ = b₂) →
    (∀ i, ∀ b₁ b₂ : Board, hash (keys₂ i) b₁ = hash (keys₂ i) b₂ → b₁ = b₂) →
    uciLoop { mg := mg, keys := keys₁ } script {} = uciLoop { mg := mg, keys := keys₂ } script {}

/-- the hash reads neither the half-move clock nor the move number. -/
theorem hash_ignores_counters (k : ZKeys) (b : Board) (h f : Nat) :
    hash k { b with halfmove := h, fullmove := f } = hash k b := rfl

/-- no key table is injective on all boards. -/
theorem no_injective_keys (k : ZKeys) : ¬ ∀ b₁ b₂ : Board, hash k b₁ = hash k b₂ → b₁ = b₂ := by
  intro h
  have := h { Board.startpos with halfmove := 1, fullmove := 1 } Board.startpos
    (hash_ignores_counters k Board.startpos 1 1)
  have h2 := congrArg Board.halfmove this
  exact absurd h2 (by decide)

/-- hence the first target statement holds for the trivial reason. -/
theorem searchKeyIndependent_vacuous : SearchKeyIndependent :=
  fun _ keys₁ _ _ h₁ _ => absurd (h₁ 0) (no_injective_keys (keys₁ 0))

/-! ### key independence of the transcript -/

/-- two boards that EVERY key table hashes alike (e.g. boards that differ only in the move counters). -/
def HashedAlike (p q : Board) : Prop := ∀ k : ZKeys, hash k p = hash k q

/-- **general form**: the two key streams have the same collisions (draw by draw) on a set `U` that
    contains every board the run hashes.  The whole transcript — `info` lines with scores, node counts
    and pv, `bestmove` lines, everything else — and the outcome are equal. -/
theorem search_key_independent_of_same_collisions (mg : MoveGenerator) (qfuel : Nat) (keys₁ keys₂ : Nat → ZKeys)
    (script : List (List Char)) (U : Board → Prop)
    (hU : ∀ q, visited mg script Board.startpos q → U q)
    (hk : ∀ i p q, U p → U q → (hash (keys₁ i) q = hash (keys₁ i) p ↔ hash (keys₂ i) q = hash (keys₂ i) p)) :
    uciLoop ⟨mg, keys₁, qfuel⟩ script {} = uciLoop ⟨mg, keys₂, qfuel⟩ script {} :=
  uciLoop_rel (U := U) hk script {} {} erel_fresh hU

/-- **C13, first half**: key draws that are collision-free on the boards the run hashes give the same
    transcript (scores, node counts, principal moves, bestmove) and the same outcome. -/
theorem search_key_independent (mg : MoveGenerator) (qfuel : Nat) (keys₁ keys₂ : Nat → ZKeys)
    (script : List (List Char)) (U : Board → Prop)
    (hU : ∀ q, visited mg script Board.startpos q → U q)
    (h₁ : ∀ i, ∀ p q, U p → U q → hash (keys₁ i) p = hash (keys₁ i) q → p = q)
    (h₂ : ∀ i, ∀ p q, U p → U q → hash (keys₂ i) p = hash (keys₂ i) q → p = q) :
    uciLoop ⟨mg, keys₁, qfuel⟩ script {} = uciLoop ⟨mg, keys₂, qfuel⟩ script {} :=
  search_key_independent_of_same_collisions mg qfuel keys₁ keys₂ script U hU
    (fun i p q hp hq =>
      ⟨fun h => by rw [h₁ i q p hq hp h], fun h => by rw [h₂ i q p hq hp h]⟩)

/-- the same for runs that hash two boards differing only in the move counters, where NO key table is
    injective.  (`make_move` never changes the counters, so inside one search every board carries the counters of
    its root; the case arises across `position fen` commands that give the same placement with different
    counters.)  It suffices that the only collisions are those every key table has. -/
theorem search_key_independent_upto_counters (mg : MoveGenerator) (qfuel : Nat) (keys₁ keys₂ : Nat → ZKeys)
    (script : List (List Char)) (U : Board → Prop)
    (hU : ∀ q, visited mg script Board.startpos q → U q)
    (h₁ : ∀ i, ∀ p q, U p → U q → hash (keys₁ i) p = hash (keys₁ i) q → HashedAlike p q)
    (h₂ : ∀ i, ∀ p q, U p → U q → hash (keys₂ i) p = hash (keys₂ i) q → HashedAlike p q) :
    uciLoop ⟨mg, keys₁, qfuel⟩ script {} = uciLoop ⟨mg, keys₂, qfuel⟩ script {} :=
  search_key_independent_of_same_collisions mg qfuel keys₁ keys₂ script U hU
    (fun i p q hp hq => ⟨fun h => h₁ i q p hq hp h _, fun h => h₂ i q p hq hp h _⟩)

/-! ### after `ucinewgame` like a fresh process -/

/-- **C13, second half**: if the run of `pre` from the initial state ends with the engine still running
    (no quit, no panic) and no pending deadline instrumentation, then the transcript of
    `pre ++ [ucinewgame] ++ suf` is the transcript of `pre` followed by the transcript of `suf` in a FRESH
    engine whose key stream starts at the next draw — with the same outcome. -/
theorem ucinewgame_like_fresh_process (ctx : EngineCtx) (pre suf : List (List Char)) (line : List Char)
    (hline : (splitWs line).head? = some kwUcinewgame)
    (hrun : (runLines ctx pre {}).2.2 = .running)
    (hnl : (runLines ctx pre {}).2.1.nextLimit = none) :
    uciLoop ctx (pre ++ line :: suf) {} =
      ((runLines ctx pre {}).1 ++
          (uciLoop (shiftCtx ((runLines ctx pre {}).2.1.newGames + 1) ctx) suf {}).1,
        (uciLoop (shiftCtx ((runLines ctx pre {}).2.1.newGames + 1) ctx) suf {}).2) := by
  rw [uciLoop_append_running ctx pre (line :: suf) {} hrun]
  rw [uciLoop_cons_running ctx _ _ line suf [] (handleCommand_ucinewgame ctx _ line hline)]
  rw [hnl, List.nil_append]
  have he : ∀ n : Nat, ({ board := Board.startpos, search := {}, newGames := n + 1, nextLimit := none } : Engine) =
      shiftE (n + 1) {} := by
    intro n; simp only [shiftE, Nat.zero_add]
  rw [he, uciLoop_shift]

/-- … and therefore of ANY fresh process, whatever keys it draws, as long as neither key stream collides on
    the boards the rest of the script hashes. -/
theorem ucinewgame_like_new_process (mg : MoveGenerator) (qfuel : Nat) (keys keys' : Nat → ZKeys)
    (pre suf : List (List Char)) (line : List Char) (hline : (splitWs line).head? = some kwUcinewgame)
    (hrun : (runLines ⟨mg, keys, qfuel⟩ pre {}).2.2 = .running)
    (hnl : (runLines ⟨mg, keys, qfuel⟩ pre {}).2.1.nextLimit = none)
    (U : Board → Prop) (hU : ∀ q, visited mg suf Board.startpos q → U q)
    (h₁ : ∀ i, ∀ p q, U p → U q → hash (keys i) p = hash (keys i) q → p = q)
    (h₂ : ∀ i, ∀ p q, U p → U q → hash (keys' i) p = hash (keys' i) q → p = q) :
    uciLoop ⟨mg, keys, qfuel⟩ (pre ++ line :: suf) {} =
      ((runLines ⟨mg, keys, qfuel⟩ pre {}).1 ++ (uciLoop ⟨mg, keys', qfuel⟩ suf {}).1,
        (uciLoop ⟨mg, keys', qfuel⟩ suf {}).2) := by
  rw [ucinewgame_like_fresh_process ⟨mg, keys, qfuel⟩ pre suf line hline hrun hnl]
  have := search_key_independent mg qfuel
    (fun i => keys (i + ((runLines ⟨mg, keys, qfuel⟩ pre {}).2.1.newGames + 1))) keys' suf U hU
    (fun i => h₁ _) h₂
  exact congrArg (fun r => ((runLines ⟨mg, keys, qfuel⟩ pre {}).1 ++ r.1, r.2)) this


/-! ### non-vacuity

  A script with two `position` commands, two depth-limited `go`s and a `ucinewgame` between them hashes two
  boards (`Example.UB`); the key streams `keyW 1` and `keyW 2` are different (`Example.keyW_differ`) and both
  collision-free on these boards.  All hypotheses of the three theorems hold, for every table `mg` and every
  fuel.  (At the search level, in a toy game with a non-empty repetition stack, and the necessity of the hypothesis:
  `KeySim.toy_key_independent`, `KeySim.toy_key_independent_value`, `KeySim.key_dependence_without_injectivity`.) -/

theorem search_key_independent_example (mg : MoveGenerator) (qfuel : Nat) :
    uciLoop ⟨mg, fun _ => Example.keyW 1, qfuel⟩ Example.script {} =
      uciLoop ⟨mg, fun _ => Example.keyW 2, qfuel⟩ Example.script {} :=
  search_key_independent mg qfuel _ _ Example.script Example.UB (Example.script_visited mg)
    (fun _ => Example.keyW_inj 1 (by decide)) (fun _ => Example.keyW_inj 2 (by decide))

theorem ucinewgame_like_fresh_process_example (ctx : EngineCtx) :
    uciLoop ctx ([Example.l1, Example.l2] ++ Example.l3 :: Example.suffix) {} =
      ((runLines ctx [Example.l1, Example.l2] {}).1 ++
          (uciLoop (shiftCtx ((runLines ctx [Example.l1, Example.l2] {}).2.1.newGames + 1) ctx) Example.suffix {}).1,
        (uciLoop (shiftCtx ((runLines ctx [Example.l1, Example.l2] {}).2.1.newGames + 1) ctx) Example.suffix {}).2) :=
  ucinewgame_like_fresh_process ctx _ _ Example.l3 (by rw [Example.split_l3]; rfl)
    (Example.prefix_runs ctx).1 (Example.prefix_runs ctx).2

theorem ucinewgame_like_new_process_example (mg : MoveGenerator) (qfuel : Nat) :
    uciLoop ⟨mg, fun _ => Example.keyW 1, qfuel⟩ ([Example.l1, Example.l2] ++ Example.l3 :: Example.suffix) {} =
      ((runLines ⟨mg, fun _ => Example.keyW 1, qfuel⟩ [Example.l1, Example.l2] {}).1 ++
          (uciLoop ⟨mg, fun _ => Example.keyW 2, qfuel⟩ Example.suffix {}).1,
        (uciLoop ⟨mg, fun _ => Example.keyW 2, qfuel⟩ Example.suffix {}).2) :=
  ucinewgame_like_new_process mg qfuel _ _ _ _ Example.l3 (by rw [Example.split_l3]; rfl)
    (Example.prefix_runs _).1 (Example.prefix_runs _).2 Example.UB (Example.suffix_visited mg)
    (fun _ => Example.keyW_inj 1 (by decide)) (fun _ => Example.keyW_inj 2 (by decide))


/-- non-vacuity of `search_key_independent_upto_counters`, in a situation where `search_key_independent` does
    not apply (`Example.UC_not_injective`): the run hashes two boards that differ only in the move counters.
    Holds for ALL key streams, since the only collision is one every key table has. -/
theorem search_key_independent_upto_counters_example (mg : MoveGenerator) (qfuel : Nat) (keys₁ keys₂ : Nat → ZKeys) :
    uciLoop ⟨mg, keys₁, qfuel⟩ Example.script2 {} = uciLoop ⟨mg, keys₂, qfuel⟩ Example.script2 {} :=
  search_key_independent_upto_counters mg qfuel keys₁ keys₂ Example.script2 Example.UC (Example.script2_visited mg)
    (fun _ p q hp hq _ k => Example.UC_hashed_alike k p q hp hq)
    (fun _ p q hp hq _ k => Example.UC_hashed_alike k p q hp hq)

end Flounder.Props.C13
