/-
  Non-vacuity of `C03Engine.every_go_answered_legally`: three concrete sessions for which EVERY hypothesis is
  discharged.

    1. `Example.script`  (Lemmas/KeySimExample.lean)
           position startpos / go depth 0 / ucinewgame / position fen <start position, Black to move> / go depth 0
       keys `keyW 1` for every draw, collision-free on the two hashed boards (`keyW_inj`).  The run reaches the end of
       input, so the trace is `[Board.startpos, bstart]`: the transcript has exactly two `bestmove` lines, the first a
       legal move of the start position, the second a legal move of `bstart` (`example_script_answered`,
       `example_script_trace`, `example_script_two_bestmoves`).
    2. `Example.script2`
           position startpos / go depth 0 / position fen <start position, clock 4, move 3> / go depth 0
       hashes two boards that NO key table separates (`UC_not_injective`); `KeysFaithful` holds for EVERY key stream
       (the two boards are the same position up to the counters), so the conclusion holds for every key stream
       (`example_script2_answered`).
    3. `script3`
           position fen k7/8/1K6/8/8/8/8/R7 b - - 0 1 / go depth 1 / go depth 1 / go depth 1 movetime 0
       real searches: the second and third `go` start from the table the first one filled ("whatever it searched
       earlier in the same process"); the third has a zero budget.  Hashed boards: `checkBoard` and its one
       successor, separated by `keyW 1` (`example_script3_answered`).  Whatever prefix of it the model executes
       (it stops early only by running out of quiescence fuel), every `bestmove` line is `bestmove a8b8`
       (`example_script3_lines`).
-/
import Flounder.Props.C03Engine
import Flounder.Props.ChessSearchExample

namespace Flounder.Props.C03Engine.Example
open Flounder Gen Flounder.Search Flounder.Chess Flounder.Engine Flounder.KeySim Flounder.EngineInv
open Flounder.Lemmas.Uci Flounder.Lemmas.UciPosition Flounder.KeySim.Example Flounder.Props.ChessSearch.Example

/-- the engine's own tables, `keyW 1` at every draw, any fuel. -/
def ctxW (qfuel : Nat) : EngineCtx := ⟨MoveGenerator.new, fun _ => keyW 1, qfuel⟩

/-! ### generic helpers for concrete scripts -/

theorem runLines_running (ctx : EngineCtx) : ∀ (script : List (List Char)),
    (∀ line ∈ script, ∀ e, (handleCommand ctx e (splitWs line)).2.2 = .running) →
    ∀ e, (runLines ctx script e).2.2 = .running := by
  intro script
  induction script with
  | nil => intro _ e; rfl
  | cons line rest ih =>
    intro h e
    rcases hh : handleCommand ctx e (splitWs line) with ⟨out, e', oc⟩
    have := h line (List.mem_cons_self ..) e
    rw [hh] at this
    simp only at this
    subst this
    rw [runLines_cons_running ctx e e' line rest out hh]
    exact ih (fun l hl => h l (List.mem_cons_of_mem _ hl)) e'

theorem split_of_head {line : List Char} {kw : Tok} (h : (splitWs line).head? = some kw) :
    ∃ tl, splitWs line = kw :: tl := by
  cases hs : splitWs line with
  | nil => rw [hs] at h; cases h
  | cons k tl =>
    rw [hs] at h
    simp only [List.head?_cons, Option.some.injEq] at h
    exact ⟨tl, by rw [h]⟩

theorem handleCommand_position (ctx : EngineCtx) (e : Engine) (tl : List Tok) :
    handleCommand ctx e (kwPosition :: tl) = handlePosition ctx e (kwPosition :: tl) := by
  unfold handleCommand
  have h1 : kwPosition ≠ kwUci := by decide
  have h2 : kwPosition ≠ kwIsready := by decide
  have h3 : kwPosition ≠ kwUcinewgame := by decide
  simp only [h1, h2, h3, if_false, if_true]

/-- a `position` line with a base board and no `moves` part returns. -/
theorem position_nomoves_running (ctx : EngineCtx) {line : List Char} {out : List (List Char)} {b0 : Board}
    (hhead : (splitWs line).head? = some kwPosition) (hbase : positionBase (splitWs line) = some (out, b0))
    (hm : movesAfter (splitWs line) = none) (e : Engine) :
    (handleCommand ctx e (splitWs line)).2.2 = .running := by
  obtain ⟨tl, hs⟩ := split_of_head hhead
  rw [hs] at hbase hm ⊢
  rw [handleCommand_position, handlePosition_of_base _ _ _ _ _ hbase]
  unfold positionResult
  rw [hm]

theorem position_nomoves_next (mg : MoveGenerator) {line : List Char} {out : List (List Char)} {b0 : Board}
    (hhead : (splitWs line).head? = some kwPosition) (hbase : positionBase (splitWs line) = some (out, b0))
    (hm : movesAfter (splitWs line) = none) (b : Board) : cmdNext mg (splitWs line) b = b0 := by
  obtain ⟨tl, hs⟩ := split_of_head hhead
  rw [hs] at hbase hm ⊢
  rw [cmdNext_position]
  unfold positionNext
  rw [hbase]
  simp only [hm]

theorem position_nomoves_boards (mg : MoveGenerator) {line : List Char} {out : List (List Char)} {b0 : Board}
    (hhead : (splitWs line).head? = some kwPosition) (hbase : positionBase (splitWs line) = some (out, b0))
    (hm : movesAfter (splitWs line) = none) (b q : Board) (h : cmdBoards mg (splitWs line) b q) : q = b0 := by
  obtain ⟨tl, hs⟩ := split_of_head hhead
  rw [hs] at hbase hm h
  rw [cmdBoards_position] at h
  unfold positionBoards at h
  rw [hbase] at h
  simp only [hm] at h
  exact h

theorem isGo_of_position {line : List Char} (hhead : (splitWs line).head? = some kwPosition) :
    isGo (splitWs line) = false := by
  obtain ⟨tl, hs⟩ := split_of_head hhead
  rw [hs]; rfl

theorem isPosition_of_go {line : List Char} (hhead : (splitWs line).head? = some kwGo) :
    isPosition (splitWs line) = false := by
  obtain ⟨tl, hs⟩ := split_of_head hhead
  rw [hs]; rfl

theorem baseValid_of_base {parts : List Tok} {out : List (List Char)} {b0 : Board}
    (hbase : positionBase parts = some (out, b0)) (hv : Spec.valid b0 = true) : BaseValid parts := by
  intro out' b hb
  rw [hbase] at hb
  simp only [Option.some.injEq, Prod.mk.injEq] at hb
  rw [← hb.2]; exact hv

/-- `go depth 0` always returns (no search is run: the fallback move is reported). -/
theorem go_depth0_running (ctx : EngineCtx) (e : Engine) : (handleCommand ctx e (splitWs l2)).2.2 = .running := by
  rw [split_l2]
  have hg : handleCommand ctx e [kwGo, kwDepth, ['0']] = handleGo ctx e [kwGo, kwDepth, ['0']] := rfl
  rw [hg, handleGo_eq]
  have hd : (goParams e.board.active [kwGo, kwDepth, ['0']]).depth = 0 := by
    rw [← split_l2]; exact depth_l2 _
  rw [hd]
  generalize goLimit e [kwGo, kwDepth, ['0']] = lim
  rw [Flounder.Stop.findBestMove_eq, iterate_zero]
  rfl

theorem head_l1 : (splitWs l1).head? = some kwPosition := by rw [split_l1]; rfl
theorem head_l2 : (splitWs l2).head? = some kwGo := by rw [split_l2]; rfl
theorem isGo_l2 : isGo (splitWs l2) = true := by rw [split_l2]; rfl
theorem isGo_l3 : isGo (splitWs l3) = false := by rw [split_l3]; rfl
theorem isPosition_l3 : isPosition (splitWs l3) = false := by rw [split_l3]; rfl

theorem bstart_valid : Spec.valid bstart = true := by decide +kernel
theorem cstart_valid : Spec.valid cstart = true := by decide +kernel

/-! ### 1. `Example.script` -/

theorem script_positionsValid : PositionsValid script := by
  intro line hl hp
  simp only [script, List.mem_cons, List.not_mem_nil, or_false] at hl
  rcases hl with rfl | rfl | rfl | rfl | rfl
  · exact baseValid_of_base base_l1 valid_startpos
  · rw [isPosition_of_go head_l2] at hp; cases hp
  · rw [isPosition_l3] at hp; cases hp
  · exact baseValid_of_base base_l4 bstart_valid
  · rw [isPosition_of_go head_l2] at hp; cases hp

/-- **all hypotheses of `every_go_answered_legally` hold** for `script` with the keys `keyW 1`. -/
theorem example_script_answered (qfuel : Nat) :
    Answered (goTrace (ctxW qfuel) script {}) (uciLoop (ctxW qfuel) script {}).1 :=
  every_go_answered_legally_of_injective (ctxW qfuel) rfl script UB (script_visited _)
    (fun _ => keyW_inj 1 (by decide)) script_positionsValid

theorem script_runs (ctx : EngineCtx) : (runLines ctx script {}).2.2 = .running := by
  apply runLines_running
  intro line hl e
  simp only [script, List.mem_cons, List.not_mem_nil, or_false] at hl
  rcases hl with rfl | rfl | rfl | rfl | rfl
  · exact position_nomoves_running ctx head_l1 base_l1 moves_l1 e
  · exact go_depth0_running ctx e
  · rw [handleCommand_ucinewgame ctx e l3 (by rw [split_l3]; rfl)]
  · exact position_nomoves_running ctx head_l4 base_l4 moves_l4 e
  · exact go_depth0_running ctx e

/-- both `go`s are executed: the first on the start position, the second on `bstart`. -/
theorem example_script_trace (ctx : EngineCtx) : goTrace ctx script {} = [Board.startpos, bstart] := by
  rw [goTrace_complete ctx script {} (script_runs ctx)]
  simp only [script, goBoards, isGo_of_position head_l1, isGo_of_position head_l4, isGo_l2, isGo_l3,
    position_nomoves_next ctx.mg head_l1 base_l1 moves_l1, position_nomoves_next ctx.mg head_l4 base_l4 moves_l4]
  simp only [split_l2, cmdNext_go]
  rfl

/-- so the transcript contains exactly two lines starting with `bestmove`; the first carries a move that is legal in
    the start position, the second a move that is legal in the start position with Black to move. -/
theorem example_script_two_bestmoves (qfuel : Nat) :
    ∃ l₁ l₂, (uciLoop (ctxW qfuel) script {}).1.filter isBm = [l₁, l₂] ∧
      (∃ m, Spec.legal (Spec.abs Board.startpos) m = true ∧ l₁ = str "bestmove " ++ m.toAlgebraic) ∧
      (∃ m, Spec.legal (Spec.abs bstart) m = true ∧ l₂ = str "bestmove " ++ m.toAlgebraic) := by
  have h := (example_script_answered qfuel).matches
  rw [example_script_trace] at h
  have hs : ∃ m, Spec.legal (Spec.abs Board.startpos) m = true := ⟨⟨8, 16, .pawn, .quiet⟩, by decide +kernel⟩
  have hb : ∃ m, Spec.legal (Spec.abs bstart) m = true := ⟨⟨48, 40, .pawn, .quiet⟩, by decide +kernel⟩
  have some_of : ∀ {b : Board} {l : List Char}, (∃ m, Spec.legal (Spec.abs b) m = true) → AnswerFor b l →
      ∃ m, Spec.legal (Spec.abs b) m = true ∧ l = str "bestmove " ++ m.toAlgebraic := by
    intro b l ⟨m, hm⟩ ha
    rcases ha with h | ⟨_, hno⟩
    · exact h
    · rw [hno m] at hm; cases hm
  generalize (uciLoop (ctxW qfuel) script {}).1.filter isBm = ls at h
  match ls, h with
  | [l₁, l₂], h => exact ⟨l₁, l₂, rfl, some_of hs h.1, some_of hb h.2.1⟩
  | [], h => exact h.elim
  | [_], h => exact h.2.elim
  | _ :: _ :: _ :: _, h => exact h.2.2.elim

/-! ### 2. `Example.script2`: two boards no key table separates -/

theorem script2_positionsValid : PositionsValid script2 := by
  intro line hl hp
  simp only [script2, List.mem_cons, List.not_mem_nil, or_false] at hl
  rcases hl with rfl | rfl | rfl | rfl
  · exact baseValid_of_base base_l1 valid_startpos
  · rw [isPosition_of_go head_l2] at hp; cases hp
  · exact baseValid_of_base base_l5 cstart_valid
  · rw [isPosition_of_go head_l2] at hp; cases hp

/-- the two boards are the same position up to the counters. -/
theorem UC_agree (p q : Board) (hp : UC p) (hq : UC q) : C04.PosAgree (Spec.abs p) (Spec.abs q) := by
  have hc : Spec.abs cstart = Spec.abs Board.startpos := rfl
  rcases hp with rfl | rfl <;> rcases hq with rfl | rfl
  · exact C04.PosAgree.refl _
  · rw [hc]; exact C04.PosAgree.refl _
  · rw [hc]; exact C04.PosAgree.refl _
  · exact C04.PosAgree.refl _

theorem UC_valid (q : Board) (h : UC q) : Spec.valid q = true := by
  rcases h with rfl | rfl
  · exact valid_startpos
  · exact cstart_valid

/-- **all hypotheses hold for EVERY key stream** although no key table is injective on the hashed boards. -/
theorem example_script2_answered (keys : Nat → ZKeys) (qfuel : Nat) :
    Answered (goTrace ⟨MoveGenerator.new, keys, qfuel⟩ script2 {})
      (uciLoop ⟨MoveGenerator.new, keys, qfuel⟩ script2 {}).1 :=
  every_go_answered_legally_of_injective_upto_counters ⟨MoveGenerator.new, keys, qfuel⟩ rfl script2 UC
    (script2_visited _) UC_valid (fun _ p q hp hq _ => UC_agree p q hp hq) script2_positionsValid

/-! ### 3. real searches on a table filled by earlier searches -/

/-- `position fen k7/8/1K6/8/8/8/8/R7 b - - 0 1`. -/
def lc : List Char := ['p','o','s','i','t','i','o','n',' ','f','e','n',' ','k','7','/','8','/','1','K','6','/','8','/','8','/','8','/','8','/','R','7',' ','b',' ','-',' ','-',' ','0',' ','1']
/-- `go depth 1`. -/
def g1 : List Char := ['g','o',' ','d','e','p','t','h',' ','1']
/-- `go depth 1 movetime 0`: a zero budget. -/
def gz : List Char := ['g','o',' ','d','e','p','t','h',' ','1',' ','m','o','v','e','t','i','m','e',' ','0']

def script3 : List (List Char) := [lc, g1, g1, gz]

theorem head_lc : (splitWs lc).head? = some kwPosition := by decide +kernel
theorem base_lc : positionBase (splitWs lc) = some ([], checkBoard) := by decide +kernel
theorem moves_lc : movesAfter (splitWs lc) = none := by decide +kernel
theorem head_g1 : (splitWs g1).head? = some kwGo := by decide +kernel
theorem head_gz : (splitWs gz).head? = some kwGo := by decide +kernel
theorem depth_g1 (c : Color) : (goParams c (splitWs g1)).depth = 1 := by cases c <;> decide +kernel
theorem depth_gz (c : Color) : (goParams c (splitWs gz)).depth = 1 := by cases c <;> decide +kernel
/-- the last `go` really has a zero budget. -/
theorem limit_gz (c : Color) : (goParams c (splitWs gz)).timeLimit = some 0 := by cases c <;> decide +kernel

theorem go_boards (mg : MoveGenerator) {line : List Char} (hhead : (splitWs line).head? = some kwGo) {D : Nat}
    (hd : ∀ c, (goParams c (splitWs line)).depth = D) (b q : Board) (h : cmdBoards mg (splitWs line) b q) :
    Search.Within (rulesGame mg) b D q := by
  obtain ⟨tl, hs⟩ := split_of_head hhead
  rw [hs, cmdBoards_go, ← hs, hd] at h
  exact h

theorem go_next (mg : MoveGenerator) {line : List Char} (hhead : (splitWs line).head? = some kwGo) (b : Board) :
    cmdNext mg (splitWs line) b = b := by
  obtain ⟨tl, hs⟩ := split_of_head hhead
  rw [hs, cmdNext_go]

theorem isGo_of_go {line : List Char} (hhead : (splitWs line).head? = some kwGo) : isGo (splitWs line) = true := by
  obtain ⟨tl, hs⟩ := split_of_head hhead
  rw [hs]; rfl

/-- the boards the session hashes: `checkBoard` and its only successor. -/
def UK (q : Board) : Prop := q = checkBoard ∨ q = (cg (keyW 1)).play checkBoard kb8

theorem kb8_mem (k : ZKeys) : kb8 ∈ (cg k).moves checkBoard :=
  (mem_moves_iff k checkBoard_valid kb8).2 ((checkBoard_legal_iff kb8).2 rfl)

theorem UK_within {q : Board} (h : UK q) : Search.Within (cg (keyW 1)) checkBoard 1 q := by
  rcases h with rfl | rfl
  · exact Search.Within.root 1
  · exact Search.Within.step (Search.Within.root 0) (kb8_mem _)

theorem within_UK {q : Board} (h : Search.Within (rulesGame MoveGenerator.new) checkBoard 1 q) : UK q := by
  rcases checkBoard_within KeySim.noKeys h with rfl | rfl
  · exact Or.inl rfl
  · exact Or.inr rfl

theorem script3_visited (q : Board) (h : visited MoveGenerator.new script3 Board.startpos q) : UK q := by
  simp only [script3, visited, position_nomoves_next MoveGenerator.new head_lc base_lc moves_lc,
    go_next MoveGenerator.new head_g1] at h
  rcases h with h | h | h | h | h
  · exact Or.inl (position_nomoves_boards _ head_lc base_lc moves_lc _ q h)
  · exact within_UK (go_boards _ head_g1 depth_g1 _ q h)
  · exact within_UK (go_boards _ head_g1 depth_g1 _ q h)
  · exact within_UK (go_boards _ head_gz depth_gz _ q h)
  · exact h.elim

theorem script3_positionsValid : PositionsValid script3 := by
  intro line hl hp
  simp only [script3, List.mem_cons, List.not_mem_nil, or_false] at hl
  rcases hl with rfl | rfl | rfl | rfl
  · exact baseValid_of_base base_lc checkBoard_valid
  · rw [isPosition_of_go head_g1] at hp; cases hp
  · rw [isPosition_of_go head_g1] at hp; cases hp
  · rw [isPosition_of_go head_gz] at hp; cases hp

/-- **all hypotheses hold** for a session with three depth-1 searches of the same position, the later ones starting
    from the table left by the earlier ones, the last one with a zero budget. -/
theorem example_script3_answered (qfuel : Nat) :
    Answered (goTrace (ctxW qfuel) script3 {}) (uciLoop (ctxW qfuel) script3 {}).1 :=
  every_go_answered_legally_of_injective (ctxW qfuel) rfl script3 UK script3_visited
    (fun _ p q hp hq e => checkBoard_hashInj p q (UK_within hp) (UK_within hq) e) script3_positionsValid

theorem script3_goBoards (mg : MoveGenerator) :
    goBoards mg script3 Board.startpos = [checkBoard, checkBoard, checkBoard] := by
  simp only [script3, goBoards, isGo_of_position head_lc, isGo_of_go head_g1, isGo_of_go head_gz,
    position_nomoves_next mg head_lc base_lc moves_lc, go_next mg head_g1]
  rfl

/-- consequently every `bestmove` line of the transcript — however many of the three `go`s the model gets through
    before running out of fuel — is `bestmove a8b8`, the one legal move. -/
theorem example_script3_lines (qfuel : Nat) :
    ∀ l ∈ (uciLoop (ctxW qfuel) script3 {}).1.filter isBm, l = str "bestmove a8b8" := by
  intro l hl
  obtain ⟨b, hb, ha⟩ := (example_script3_answered qfuel).matches.mem hl
  have hpre := goTrace_prefix (ctxW qfuel) script3 {}
  have hb' : b ∈ goBoards (ctxW qfuel).mg script3 ({} : Engine).board := hpre.subset hb
  have e0 : ({} : Engine).board = Board.startpos := rfl
  rw [e0, script3_goBoards] at hb'
  have hbc : b = checkBoard := by
    simp only [List.mem_cons, List.not_mem_nil, or_false, or_self] at hb'
    exact hb'
  subst hbc
  rcases ha with ⟨m, hm, rfl⟩ | ⟨_, hno⟩
  · rw [(checkBoard_legal_iff m).1 hm]
    decide
  · have := hno kb8
    rw [(checkBoard_legal_iff kb8).2 rfl] at this
    cases this

end Flounder.Props.C03Engine.Example
