/-
  The reference values exist on every good chess board — the C05 / C08 statements without the hypothesis
  "the reference value exists".

  `Spec.Q` (Spec/Minimax.lean) is stand-pat minimax over the children that can matter; Lemmas/QSpec.lean shows
  that it is the plain quiescence minimax value wherever that exists (`Spec.Qplain_agrees`), that it solves the
  plain stand-pat minimax equations wherever it is defined (`Spec.Q_is_minimax`), and that a quiescence rank
  makes it total (`Spec.Q_total`, `Spec.V_total`).  Chess has such a rank on `Good` boards (valid, at most 16 men
  a side): `chess_qrank`, `qRank_le` (Lemmas/QTermChess.lean), bound `QRANK_BOUND`, fuel `QFUEL = QRANK_BOUND + 2`.

    * `chess_Q_total`, `chess_V_total`           the reference values of every depth exist on every good board;
    * `chess_quiesce_contract_total`             C05 (1): the engine's quiescence vs. the reference value, no
                                                 finiteness hypothesis;
    * `chess_find_best_move_value_total`         C05 (4) for chess without `hV` / `hvD`;
    * `chess_avoidable_mate_avoided_total`       C08 for chess without `hV`.
  (`ChessSearch.chess_mate_in_one_played` never had such a hypothesis.)
-/
import Flounder.Props.QTerm
import Flounder.Props.ChessSearch
import Flounder.Lemmas.QSpec

namespace Flounder.Props.QSpecChess
open Flounder Gen Flounder.Search Flounder.Chess Flounder.Engine Flounder.Props.QTerm

/-- **the reference quiescence value exists on every good board** (fuel `QFUEL`, hence any larger fuel). -/
theorem chess_Q_total (k : ZKeys) (b : Board) (hg : Good b) : ∃ q, Spec.Q (cg k) QFUEL b = some q :=
  Spec.Q_total_bound (cg k) (chess_qrank k) QRANK_BOUND qRank_le b hg

/-- **the depth-limited reference value exists on every good board, at every depth.** -/
theorem chess_V_total (k : ZKeys) (b : Board) (hg : Good b) (d : Nat) :
    ∃ v, Spec.V (cg k) QFUEL d b = some v :=
  Spec.V_total (cg k) (chess_qrank k) (good_movesClosed k) QRANK_BOUND qRank_le d b hg

/-- the same for any larger fuel: same values. -/
theorem chess_V_total_ge (k : ZKeys) (b : Board) (hg : Good b) (d qf : Nat) (hq : QFUEL ≤ qf) :
    ∃ v, Spec.V (cg k) qf d b = some v ∧ Spec.V (cg k) QFUEL d b = some v := by
  obtain ⟨v, hv⟩ := chess_V_total k b hg d
  exact ⟨v, V_mono (cg k) QFUEL qf d b v hv hq, hv⟩

/-- the reference quiescence value of a good board solves the plain stand-pat minimax equations: a mated board
    is worth `-CHECKMATE_SCORE`; otherwise the value is at least the static score, at least minus the value of
    EVERY child (each child is a good board and has a value), and one of the two attains it. -/
theorem chess_Q_is_minimax (k : ZKeys) (b : Board) (hg : Good b) :
    ∃ q, Spec.Q (cg k) QFUEL b = some q ∧
      (Spec.qMated (cg k) b = true → q = -CHECKMATE_SCORE) ∧
      (Spec.qMated (cg k) b = false →
        (cg k).eval b ≤ q ∧
        (∀ m ∈ qList (cg k) b, ∃ v, Spec.Q (cg k) QFUEL ((cg k).play b m) = some v ∧ -v ≤ q) ∧
        (q = (cg k).eval b ∨
          ∃ m ∈ qList (cg k) b, ∃ v, Spec.Q (cg k) QFUEL ((cg k).play b m) = some v ∧ q = -v)) := by
  obtain ⟨q, hq⟩ := chess_Q_total k b hg
  refine ⟨q, hq, fun hm => ?_, fun hm => ?_⟩
  · have h := Spec.Q_mated (cg k) (QRANK_BOUND + 1) b hm
    exact Spec.Q_det (cg k) _ _ b _ _ hq h
  · obtain ⟨h1, h2, h3⟩ := Spec.Q_is_minimax (cg k) QFUEL b q hm hq
    refine ⟨h1, fun m hmem => ?_, ?_⟩
    · obtain ⟨v, hv⟩ := chess_Q_total k _ ((chess_qrank k).closed b hg m hmem)
      exact ⟨v, hv, h2 m hmem _ v hv⟩
    · rcases h3 with e | ⟨m, hmem, v, hv, e⟩
      · exact Or.inl e
      · exact Or.inr ⟨m, hmem, v, Q_mono (cg k) _ _ _ v hv (by omega), e⟩

/-! ## C05 (1): quiescence -/

/-- **quiescence contract (chess), total**: on a good board, with at least `QFUEL` units of fuel, a completed
    `search_until_quiet` returns a score satisfying the fail-soft contract for the reference value — which
    exists — and leaves table, stack and reuse counter alone. -/
theorem chess_quiesce_contract_total (k : ZKeys) (b : Board) (hg : Good b) (fuel : Nat) (hf : QFUEL ≤ fuel)
    (α β : Int) (s s' : SearchState) (ro : Option Int) (hαβ : α < β)
    (hrun : quiesce (cg k) fuel b α β s = (ro, s')) (hns : NoStop s s') :
    ∃ q, Spec.Q (cg k) QFUEL b = some q ∧
      ∃ r, ro = some r ∧ Contract q r α β ∧ s'.tt = s.tt ∧ s'.rep = s.rep ∧
        s'.deeperHits = s.deeperHits := by
  obtain ⟨q, hq⟩ := chess_Q_total k b hg
  exact ⟨q, hq, C05.quiesce_contract (cg k) fuel QFUEL b α β q s s' ro hαβ hq hf hrun hns⟩

/-! ## C05 (4): find_best_move -/

/-- **The search computes minimax (chess), total.**  `ChessSearch.chess_find_best_move_value` for a good root
    with reference fuel `QFUEL` and search fuel `qfuel ≥ QFUEL`, WITHOUT the hypotheses that the reference values
    exist: they do (`chess_V_total`), and `v` is the depth-`D` one.  All other hypotheses are unchanged: the hash
    separates the boards within `D` plies of `b`, the table is class-sound on the horizon (true of the empty
    table), the repetition stack is empty, the run completed and reused no deeper record. -/
theorem chess_find_best_move_value_total (k : ZKeys) (b : Board) (hg : Good b) (D qfuel : Nat)
    (hq : QFUEL ≤ qfuel) (hD : 1 ≤ D) (limit : Limit) (s s' : SearchState) (ro : Option (Int × Option Move))
    (hinj : HashInjOn (cg k) (Search.Within (cg k) b D))
    (hT : C05.TTSoundClass (cg k) (Search.Within (cg k) b D) QFUEL s.tt) (hrep : s.rep = [])
    (hrun : findBestMove (cg k) qfuel b D limit s = (ro, s')) (hfin : s'.stopSeen = false)
    (hdh : s'.deeperHits = s.deeperHits) :
    ∃ v, Spec.V (cg k) QFUEL D b = some v ∧
    ∃ score mv, ro = some (score, mv) ∧
      Spec.clampClass score = Spec.clampClass v ∧
      (NEGATIVE_INFINITY < v → v < INFINITY → score = v) ∧
      ((∃ m, Spec.legal (Spec.abs b) m = true) → ∃ m, mv = some m ∧ Spec.legal (Spec.abs b) m = true) ∧
      (NEGATIVE_INFINITY < v → v < INFINITY → ∀ j m x, D = j + 1 → mv = some m →
        Spec.V (cg k) QFUEL j ((cg k).play b m) = some x → -x = v) ∧
      C05.TTSoundClass (cg k) (Search.Within (cg k) b D) QFUEL s'.tt := by
  obtain ⟨v, hvD⟩ := chess_V_total k b hg D
  exact ⟨v, hvD, ChessSearch.chess_find_best_move_value k b hg.valid D QFUEL qfuel hq hD limit s s' ro v hinj
    (fun d _ _ => chess_V_total k b hg d) hvD hT hrep hrun hfin hdh⟩

/-- the same on a fresh search state (empty table, empty stack): only the hash hypothesis, "completed" and
    "no deeper record reused" remain. -/
theorem chess_find_best_move_value_fresh (k : ZKeys) (b : Board) (hg : Good b) (D qfuel : Nat)
    (hq : QFUEL ≤ qfuel) (hD : 1 ≤ D) (limit : Limit) (s' : SearchState) (ro : Option (Int × Option Move))
    (hinj : HashInjOn (cg k) (Search.Within (cg k) b D))
    (hrun : findBestMove (cg k) qfuel b D limit {} = (ro, s')) (hfin : s'.stopSeen = false)
    (hdh : s'.deeperHits = 0) :
    ∃ v, Spec.V (cg k) QFUEL D b = some v ∧
    ∃ score mv, ro = some (score, mv) ∧
      Spec.clampClass score = Spec.clampClass v ∧
      (NEGATIVE_INFINITY < v → v < INFINITY → score = v) ∧
      ((∃ m, Spec.legal (Spec.abs b) m = true) → ∃ m, mv = some m ∧ Spec.legal (Spec.abs b) m = true) ∧
      (NEGATIVE_INFINITY < v → v < INFINITY → ∀ j m x, D = j + 1 → mv = some m →
        Spec.V (cg k) QFUEL j ((cg k).play b m) = some x → -x = v) := by
  obtain ⟨v, hv, score, mv, h1, h2, h3, h4, h5, _⟩ := chess_find_best_move_value_total k b hg D qfuel hq hD limit
    {} s' ro hinj (C05.ttSound_fresh (cg k) _ QFUEL) rfl hrun hfin hdh
  exact ⟨v, hv, score, mv, h1, h2, h3, h4, h5⟩

/-! ## C08 -/

/-- **An avoidable mate in one is avoided (chess), total**, depth 2 and 3:
    `ChessSearch.chess_avoidable_mate_avoided` with search fuel `qfuel ≥ QFUEL`, without the hypothesis that the
    reference values exist. -/
theorem chess_avoidable_mate_avoided_total (k : ZKeys) (b : Board) (hg : Good b) (D qfuel : Nat) (limit : Limit)
    (hD : D = 2 ∨ D = 3) (hq : QFUEL ≤ qfuel)
    (hinj : HashInjOn (cg k) (Search.Within (cg k) b D))
    (hsafe : ∃ m, Spec.legal (Spec.abs b) m = true ∧ ¬ AllowsMateByRules (Spec.abs b) m)
    (score : Int) (mv : Option Move) (s' : SearchState)
    (hrun : findBestMove (cg k) qfuel b D limit {} = (some (score, mv), s')) (hfin : s'.stopSeen = false)
    (hdh : s'.deeperHits = 0) :
    ∃ m, mv = some m ∧ Spec.legal (Spec.abs b) m = true ∧ ¬ AllowsMateByRules (Spec.abs b) m :=
  ChessSearch.chess_avoidable_mate_avoided k b hg D QFUEL qfuel limit hD hq hinj
    (fun d _ _ => chess_V_total k b hg d) hsafe score mv s' hrun hfin hdh

/-! ### non-vacuity -/

/-- the start position: its reference values of every depth exist. -/
example (k : ZKeys) (d : Nat) : ∃ v, Spec.V (cg k) QFUEL d Board.startpos = some v :=
  chess_V_total k Board.startpos good_startpos d

end Flounder.Props.QSpecChess
